(* Model of src/uf2/write.rs (after the repair of F20, commit 7baf144) and the constants of src/uf2/mod.rs.
   No proofs here.

   Conventions.
   * usize is 64 bit.  Every plain `+ - *` of the Rust code is an explicit operation that yields
     `Panic SArith` when `debug` is set (overflow checks on) and wraps otherwise; `%` and `/` yield
     `Panic SDivZero` for a zero divisor; `as u32` is `mod 2^32`; every slice range is tested and yields
     `Panic SSliceRange`.  WriteProofs.v shows that none of them is reachable.
   * The destination memory is represented by what the writer can observe of it:
       d_len  = dst.len()   (slice: its capacity; vector: current length, grows in check_write)
       d_pos  = self.pos
       blocks = the 512-byte blocks stored so far, oldest first; they occupy
                [d_pos - 512 * length blocks, d_pos) of the destination
       bg     = the value of destination bytes the writer never stores to (slice: whatever the caller
                left there - the harness fills 0xAA; vector: 0 from `resize(.., 0)`); encode leaves
                bytes 0x18..0x1C of a block untouched, they are written by `drop` only.
   * Every `return Err(..)` of write.rs precedes the first mutation of `self`, so an `Err` outcome carries no
     state: the caller keeps the old one (the correspondence observes the destination bytes).  The numeric
     payloads of the error values (need / have) are message text and are not modelled. *)
From Coq Require Import NArith List Bool.
From Trion Require Import Uf2.WriteTypes.
Import ListNotations.
Open Scope N_scope.

Definition usize_max : N := 18446744073709551615.
Definition isize_max : N := 9223372036854775807.
Definition u32_max : N := 4294967295.
Definition two64 : N := 18446744073709551616.
Definition two32 : N := 4294967296.

(* src/uf2/mod.rs *)
Definition BLOCK_LEN : N := 512.
Definition MAGIC : N := 0x0A324655.
Definition HDR_MAGIC : N := 0x9E5D5157.
Definition FLAG_NO_FLASH : N := 0x00000001.
Definition FLAG_FAMILY_ID : N := 0x00002000.
Definition DATA_START : N := 0x20.
Definition MAX_DATA_LEN : N := 476.          (* BLOCK_LEN - DATA_START - 4 *)
Definition PADDING_END : N := 508.           (* BLOCK_LEN - 4 *)
Definition FTR_MAGIC : N := 0x0AB16F30.

Inductive site := SArith | SSliceRange | SDivZero | SDebugAssert | SChunkZero
                | SOutside (* drop would store outside the blocks of this writer: not representable here *).
Inductive werr := EOverflow | EAlignment | EAddress | EBlockCount.
Inductive nerr := NBlockSize | NAlignment.

Inductive outcome (A : Type) := Ok (a : A) | Err (e : werr) | Panic (s : site).
Arguments Ok {A} a. Arguments Err {A} e. Arguments Panic {A} s.

Definition bind {A B} (o : outcome A) (f : A -> outcome B) : outcome B :=
  match o with Ok a => f a | Err e => Err e | Panic s => Panic s end.
Notation "x <- e ;; k" := (bind e (fun x => k)) (at level 61, e at next level, right associativity).

(* ---- machine arithmetic ---- *)
Definition add_us (debug : bool) (a b : N) : outcome N :=
  if a + b <=? usize_max then Ok (a + b) else if debug then Panic SArith else Ok ((a + b) mod two64).
Definition sub_us (debug : bool) (a b : N) : outcome N :=
  if b <=? a then Ok (a - b) else if debug then Panic SArith else Ok ((a + two64 - b) mod two64).
Definition mul_us (debug : bool) (a b : N) : outcome N :=
  if a * b <=? usize_max then Ok (a * b) else if debug then Panic SArith else Ok ((a * b) mod two64).
Definition add_u32 (debug : bool) (a b : N) : outcome N :=
  if a + b <=? u32_max then Ok (a + b) else if debug then Panic SArith else Ok ((a + b) mod two32).
Definition rem_us (a b : N) : outcome N := if b =? 0 then Panic SDivZero else Ok (a mod b).
Definition div_us (a b : N) : outcome N := if b =? 0 then Panic SDivZero else Ok (a / b).
Definition as_u32 (a : N) : N := a mod two32.

Definition le32 (x : N) : list N :=
  [N.land x 255; N.land (N.shiftr x 8) 255; N.land (N.shiftr x 16) 255; N.land (N.shiftr x 24) 255].

(* ---- state ---- *)
Inductive dkind := KSlice | KVector.
Inductive dest := DSlice (cap bgb : N) | DVector (pre : N).

Record state := { s_cfg : config; s_kind : dkind; d_len : N; d_pos : N; s_count : N;
                  s_blocks : list (list N); s_bg : N }.

Definition set_dlen (st : state) (n : N) : state :=
  {| s_cfg := s_cfg st; s_kind := s_kind st; d_len := n; d_pos := d_pos st; s_count := s_count st;
     s_blocks := s_blocks st; s_bg := s_bg st |}.

(* ---- new / new_vec: the same two guards, in this order ---- *)
Definition validate (bs align : N) : option nerr :=
  if (bs =? 0) || (MAX_DATA_LEN <? bs) then Some NBlockSize
  else if (align =? 0) || negb (bs mod align =? 0) then Some NAlignment
  else None.

Definition new (c : config) (d : dest) : nerr + state :=
  match validate (c_bs c) (c_align c) with
  | Some e => inl e
  | None => inr (match d with
                 | DSlice cap b => {| s_cfg := c; s_kind := KSlice; d_len := cap; d_pos := 0; s_count := 0; s_blocks := []; s_bg := b |}
                 | DVector pre => {| s_cfg := c; s_kind := KVector; d_len := pre; d_pos := pre; s_count := 0; s_blocks := []; s_bg := 0 |}
                 end)
  end.

(* ---- Data::check_write ---- *)
Definition check_write (debug : bool) (st : state) (n : N) : outcome state :=
  match s_kind st with
  | KSlice =>
      room <- sub_us debug (d_len st) (d_pos st) ;;
      if room <? n then Err EOverflow else Ok st
  | KVector =>
      room <- sub_us debug (d_len st) (d_pos st) ;;
      if room <? n then
        room2 <- sub_us debug isize_max (d_pos st) ;;
        if room2 <? n then Err EOverflow
        else (nl <- add_us debug (d_pos st) n ;; Ok (set_dlen st nl))     (* dst.resize(pos + len, 0) *)
      else Ok st
  end.

(* ---- encode ---- *)
Definition mk_block (flags addr block_len cnt bg info : N) (block : list N) (data_end : N) : list N :=
  le32 MAGIC ++ le32 HDR_MAGIC ++ le32 flags ++ le32 addr ++ le32 block_len ++ le32 cnt
  ++ [bg; bg; bg; bg]                       (* 0x18..0x1C is not stored here (commented out in the code) *)
  ++ le32 info
  ++ block ++ repeat 0 (N.to_nat (PADDING_END - data_end)) ++ le32 FTR_MAGIC.

Definition encode (debug : bool) (st : state) (addr : N) (block : list N) (block_len : N) (nf : bool) : outcome state :=
  e <- add_us debug (d_pos st) BLOCK_LEN ;;
  if d_len st <? e then Panic SSliceRange else                (* self.dst[self.pos..self.pos + BLOCK_LEN] *)
  let flags := N.lor (if nf then FLAG_NO_FLASH else 0)
                     (match c_fam (s_cfg st) with Some _ => FLAG_FAMILY_ID | None => 0 end) in
  let info := match c_fam (s_cfg st) with Some f => f | None => 0 end in
  data_end <- add_us debug DATA_START (len block) ;;
  if BLOCK_LEN <? data_end then Panic SSliceRange else        (* dst[DATA_START..data_end] *)
  if PADDING_END <? data_end then Panic SSliceRange else      (* dst[data_end..PADDING_END] *)
  let b := mk_block flags addr block_len (s_count st) (s_bg st) info block data_end in
  pos' <- add_us debug (d_pos st) BLOCK_LEN ;;
  cnt' <- add_u32 debug (s_count st) 1 ;;
  Ok {| s_cfg := s_cfg st; s_kind := s_kind st; d_len := d_len st; d_pos := pos'; s_count := cnt';
        s_blocks := s_blocks st ++ [b]; s_bg := s_bg st |}.

(* ---- write (with the length check added by the repair) ---- *)
Definition write (debug : bool) (st : state) (addr : N) (block : list N) (nf : bool) : outcome state :=
  if len block =? 0 then Ok st else
  if c_bs (s_cfg st) <? len block then Err EOverflow else
  r <- rem_us (len block) (c_align (s_cfg st)) ;;
  if negb (r =? 0) then Err EAlignment else
  st1 <- check_write debug st BLOCK_LEN ;;
  encode debug st1 addr block (as_u32 (c_bs (s_cfg st))) nf.

(* ---- write_all ---- *)
(* data.chunks(n) *)
Fixpoint chunks_f (fuel : nat) (n : nat) (l : list N) : list (list N) :=
  match fuel with
  | O => []
  | S f => match l with [] => [] | _ => firstn n l :: chunks_f f n (skipn n l) end
  end.
Definition chunks (n : N) (l : list N) : list (list N) := chunks_f (length l) (N.to_nat n) l.

Fixpoint wa_loop (debug : bool) (addr aligned cnt : N) (nf : bool) (i : N) (cs : list (list N)) (st : state) : outcome state :=
  match cs with
  | [] => Ok st
  | c :: cs' =>
      if debug && negb (i <? cnt) then Panic SDebugAssert else
      let bs := c_bs (s_cfg st) in
      cm1 <- sub_us debug cnt 1 ;;
      block_len <- (if i <? cm1 then Ok (as_u32 bs)
                    else (ib <- mul_us debug i bs ;; d <- sub_us debug aligned ib ;; Ok (as_u32 d))) ;;
      ib <- mul_us debug i bs ;;
      a <- add_u32 debug addr (as_u32 ib) ;;
      st' <- encode debug st a c block_len nf ;;
      wa_loop debug addr aligned cnt nf (i + 1) cs' st'
  end.

Definition write_all (debug : bool) (st : state) (addr : N) (data : list N) (nf : bool) : outcome (state * N) :=
  let bs := c_bs (s_cfg st) in
  let align := c_align (s_cfg st) in
  if len data =? 0 then Ok (st, 0) else
  mis <- rem_us (len data) align ;;
  aligned <- (if negb (mis =? 0) then
                a1 <- sub_us debug usize_max (len data) ;;
                a2 <- sub_us debug align mis ;;
                if a1 <? a2 then Err EAlignment
                else (t <- sub_us debug (len data) mis ;; add_us debug t align)
              else Ok (len data)) ;;
  (* usize::try_from(u32::MAX - addr) cannot fail on a 64-bit target; addr is a u32 *)
  am1 <- sub_us debug aligned 1 ;;
  if (u32_max - addr) <? am1 then Err EAddress else
  q <- div_us aligned bs ;;
  r <- rem_us aligned bs ;;
  block_cnt <- add_us debug q (if 0 <? r then 1 else 0) ;;
  if u32_max <? block_cnt then Err EBlockCount else                 (* u32::try_from(block_cnt) *)
  if (u32_max - s_count st) <? block_cnt then Err EBlockCount else
  if usize_max <? block_cnt * BLOCK_LEN then Err EOverflow else       (* checked_mul *)
  st1 <- check_write debug st (block_cnt * BLOCK_LEN) ;;
  if bs =? 0 then Panic SChunkZero else                              (* chunks(0) panics *)
  st2 <- wa_loop debug addr aligned block_cnt nf 0 (chunks bs data) st1 ;;
  Ok (st2, block_cnt).

(* ---- Drop ---- *)
Fixpoint upd {A} (k : nat) (f : A -> A) (l : list A) : list A :=
  match l, k with
  | [], _ => []
  | x :: t, O => f x :: t
  | x :: t, S k' => x :: upd k' f t
  end.

Definition patch_total (cnt : N) (b : list N) : list N := firstn 24 b ++ le32 cnt ++ skipn 28 b.

Definition len_blocks (st : state) : N := N.of_nat (length (s_blocks st)).

(* for i in 0..self.count { base = self.pos - BLOCK_LEN * (self.count - i) as usize; dst[base+0x18..base+0x1C] = count } *)
Fixpoint drop_loop (debug : bool) (n : nat) (i : N) (st : state) : outcome state :=
  match n with
  | O => Ok st
  | S n' =>
      off <- mul_us debug BLOCK_LEN (s_count st - i) ;;          (* i < count *)
      base <- sub_us debug (d_pos st) off ;;
      lo <- add_us debug base 0x18 ;;
      hi <- add_us debug base 0x1C ;;
      if d_len st <? hi then Panic SSliceRange else
      (* which of this writer's blocks is it? *)
      let start := d_pos st - BLOCK_LEN * len_blocks st in
      if (base <? start) || negb ((base - start) mod BLOCK_LEN =? 0) || (len_blocks st <=? (base - start) / BLOCK_LEN)
      then Panic SOutside else
      let k := N.to_nat ((base - start) / BLOCK_LEN) in
      drop_loop debug n' (i + 1)
        {| s_cfg := s_cfg st; s_kind := s_kind st; d_len := d_len st; d_pos := d_pos st; s_count := s_count st;
           s_blocks := upd k (patch_total (s_count st)) (s_blocks st); s_bg := s_bg st |}
  end.

Definition finish (debug : bool) (st : state) : outcome state := drop_loop debug (N.to_nat (s_count st)) 0 st.

(* ---- a session: new, a sequence of calls, drop ---- *)
Inductive res := ROk (blocks : N) | RErr (e : werr) | RPanic (s : site).

Definition step (debug : bool) (st : state) (o : wcall) : res * state :=
  if w_all o then
    match write_all debug st (w_addr o) (w_data o) (w_nf o) with
    | Ok (st', n) => (ROk n, st') | Err e => (RErr e, st) | Panic s => (RPanic s, st)
    end
  else
    match write debug st (w_addr o) (w_data o) (w_nf o) with
    | Ok st' => (ROk 0, st') | Err e => (RErr e, st) | Panic s => (RPanic s, st)
    end.

(* a panic ends the run (None) *)
Fixpoint run (debug : bool) (st : state) (ops : list wcall) : list res * option state :=
  match ops with
  | [] => ([], Some st)
  | o :: t =>
      match step debug st o with
      | (RPanic s, _) => ([RPanic s], None)
      | (r, st') => let (rs, f) := run debug st' t in (r :: rs, f)
      end
  end.

(* the destination as the caller sees it afterwards; `prefill` = the bytes a vector held before new_vec *)
Definition dest_bytes (prefill : N) (st : state) : list N :=
  repeat prefill (N.to_nat (d_pos st - BLOCK_LEN * len_blocks st))
  ++ concat (s_blocks st)
  ++ repeat (s_bg st) (N.to_nat (d_len st - d_pos st)).

Inductive session_result :=
| SRejected (e : nerr)
| SDone (rs : list res) (final : option state).      (* final = None: a call or drop panicked *)

Definition session (debug : bool) (c : config) (d : dest) (ops : list wcall) : session_result :=
  match new c d with
  | inl e => SRejected e
  | inr st0 =>
      match run debug st0 ops with
      | (rs, None) => SDone rs None
      | (rs, Some st) =>
          match finish debug st with
          | Ok st' => SDone rs (Some st')
          | Panic s => SDone (rs ++ [RPanic s]) None
          | Err _ => SDone (rs ++ [RPanic SOutside]) None       (* drop has no error return: never produced *)
          end
      end
  end.
