(* Whole-run proofs about the UF2 writer model (C16): the blocks a run stores are `blk c bg k ...` for
   k = 0, 1, ... (block descriptors), the independent reader parses them back field by field, the image read back is
   the data of the accepted calls followed by zeros, refused calls can be deleted from the run. *)
From Coq Require Import NArith Arith List Bool Lia ZifyBool ZifyNat ZifyN.
From Trion Require Import Uf2.WriteBits Uf2.WriteTypes Uf2.WriteModel Uf2.ReaderSpec Uf2.WriteProofs.
Import ListNotations.
Open Scope N_scope.

Arguments N.add : simpl never. Arguments N.mul : simpl never. Arguments N.sub : simpl never.
Arguments N.div : simpl never. Arguments N.modulo : simpl never. Arguments N.leb : simpl never.
Arguments N.ltb : simpl never. Arguments N.eqb : simpl never. Arguments N.of_nat : simpl never.
Arguments N.to_nat : simpl never. Arguments N.land : simpl never. Arguments N.shiftr : simpl never.
Arguments N.lor : simpl never. Arguments N.testbit : simpl never.

(* ---------- block descriptors: what one encode call was given ---------- *)
Record bdesc := { bd_a : N; bd_data : list N; bd_bl : N; bd_nf : bool }.

Definition enc (c : config) (bg k : N) (d : bdesc) : list N :=
  blk c bg k (bd_a d) (bd_data d) (bd_bl d) (bd_nf d).

Fixpoint enc_from (c : config) (bg k : N) (ds : list bdesc) : list (list N) :=
  match ds with [] => [] | d :: t => enc c bg k d :: enc_from c bg (k + 1) t end.

Definition desc_ok (c : config) (d : bdesc) : Prop :=
  bd_a d <= u32_max /\ 1 <= bd_bl d /\ bd_bl d <= c_bs c /\ bd_bl d mod c_align c = 0 /\ len (bd_data d) <= bd_bl d.

(* what a loader stores for one block: payload-size bytes = the data, then zeros *)
Definition desc_items (d : bdesc) : list item :=
  zip_from (bd_a d) (bd_nf d) (bd_data d ++ repeat 0 (N.to_nat (bd_bl d - len (bd_data d)))).

Definition nb (ds : list bdesc) : N := N.of_nat (length ds).

Lemma enc_from_length c bg : forall ds k, length (enc_from c bg k ds) = length ds.
Proof. induction ds as [|d ds IH]; intros k; cbn [enc_from length]; [reflexivity | rewrite IH; reflexivity]. Qed.

Lemma enc_from_app c bg : forall d1 d2 k,
  enc_from c bg k (d1 ++ d2) = enc_from c bg k d1 ++ enc_from c bg (k + nb d1) d2.
Proof.
  induction d1 as [|d d1 IH]; intros d2 k; cbn [app enc_from].
  - unfold nb, len. cbn [length]. rewrite N.add_0_r. reflexivity.
  - rewrite IH. do 3 f_equal. unfold nb, len. cbn [length]. lia.
Qed.

(* ---------- the reader on encoded blocks ---------- *)
Definition rb_of (c : config) (T k : N) (d : bdesc) : rblock :=
  {| rb_flags := flags_of c (bd_nf d); rb_target := bd_a d; rb_psize := bd_bl d; rb_no := k; rb_total := T;
     rb_info := info_of c; rb_data := bd_data d ++ repeat 0 (N.to_nat (476 - len (bd_data d))) |}.

Fixpoint rb_from (c : config) (T k : N) (ds : list bdesc) : list rblock :=
  match ds with [] => [] | d :: t => rb_of c T k d :: rb_from c T (k + 1) t end.

Lemma rb_from_length c T : forall ds k, length (rb_from c T k ds) = length ds.
Proof. induction ds as [|d ds IH]; intros k; cbn [rb_from length]; [reflexivity | rewrite IH; reflexivity]. Qed.

Lemma parse_enc_from c bg T : cfg_valid c -> T <= u32_max -> info_of c <= u32_max -> forall ds k,
  Forall (desc_ok c) ds -> k + nb ds <= u32_max + 1 ->
  parse_all (map (patch_total T) (enc_from c bg k ds)) = Some (rb_from c T k ds).
Proof.
  intros (V1 & V2 & V3 & V4) HT Hi. induction ds as [|d ds IH]; intros k F B; [reflexivity|].
  pose proof (Forall_inv F) as (D1 & D2 & D3 & D4 & D5). pose proof (Forall_inv_tail F) as F'.
  unfold nb, len in B. cbn [length] in B.
  cbn [enc_from map parse_all rb_from]. unfold enc at 1.
  rewrite parse_blk by (try assumption; unfold u32_max in *; lia).
  rewrite IH by (try assumption; unfold nb, len; lia).
  reflexivity.
Qed.

Lemma flags_bits c nf :
  N.testbit (flags_of c nf) 13 = (match c_fam c with Some _ => true | None => false end)
  /\ N.land (flags_of c nf) 0xFFFFDFFE = 0 /\ N.testbit (flags_of c nf) 0 = nf.
Proof. unfold flags_of. destruct nf, (c_fam c); repeat split; vm_compute; reflexivity. Qed.

Lemma block_ok_rb c T k d : cfg_valid c -> desc_ok c d -> block_ok c T k (rb_of c T k d) = true.
Proof.
  intros (V1 & V2 & V3 & V4) (D1 & D2 & D3 & D4 & D5).
  destruct (flags_bits c (bd_nf d)) as (B1 & B2 & _).
  unfold block_ok, rb_of. cbn [rb_no rb_total rb_flags rb_info rb_psize].
  rewrite B1, B2, !N.eqb_refl, eqb_reflx. fold (info_of c). rewrite ?N.eqb_refl. cbn [andb].
  rewrite !andb_true_iff, !N.leb_le, N.eqb_eq. repeat split; try assumption; lia.
Qed.

Lemma all_from_rb c T : cfg_valid c -> forall ds k,
  Forall (desc_ok c) ds -> all_from k (block_ok c T) (rb_from c T k ds) = true.
Proof.
  intros V. induction ds as [|d ds IH]; intros k F; [reflexivity|].
  cbn [rb_from all_from]. rewrite block_ok_rb by (try assumption; exact (Forall_inv F)).
  rewrite IH by exact (Forall_inv_tail F). reflexivity.
Qed.

(* ---------- items ---------- *)
Lemma zip_from_app nf : forall l1 l2 a,
  zip_from a nf (l1 ++ l2) = zip_from a nf l1 ++ zip_from (a + len l1) nf l2.
Proof.
  induction l1 as [|x l1 IH]; intros l2 a; cbn [app zip_from].
  - unfold nb, len. cbn [length]. rewrite N.add_0_r. reflexivity.
  - rewrite IH. do 2 f_equal. unfold nb, len. cbn [length]. f_equal. lia.
Qed.

Lemma zip_from_map nf : forall l a,
  zip_from a nf l = map (fun j => (a + N.of_nat j, nth j l 0, nf)) (seq 0 (length l)).
Proof.
  induction l as [|x l IH]; intros a; [reflexivity|].
  cbn [zip_from length seq map nth]. rewrite N.add_0_r. f_equal.
  rewrite IH, <- seq_shift, map_map. apply map_ext. intros j. cbn [nth]. do 2 f_equal. lia.
Qed.

Lemma nth_zeros : forall n i, nth i (repeat 0 n) 0 = 0.
Proof. induction n as [|n IH]; intros [|i]; cbn [repeat nth]; auto. Qed.

Lemma nth_app_zeros (data : list N) n j : nth j (data ++ repeat 0 n) 0 = nth j data 0.
Proof.
  destruct (lt_dec j (length data)) as [L|G].
  - apply app_nth1. exact L.
  - rewrite app_nth2 by lia. rewrite nth_zeros. symmetry. apply nth_overflow. lia.
Qed.

Lemma block_items_rb c T k d : desc_ok c d -> block_items (rb_of c T k d) = desc_items d.
Proof.
  intros (D1 & D2 & D3 & D4 & D5).
  destruct (flags_bits c (bd_nf d)) as (_ & _ & B3).
  unfold block_items, desc_items, rb_of. cbn [rb_target rb_data rb_flags rb_psize].
  rewrite zip_from_map, app_length, repeat_length, B3.
  replace (length (bd_data d) + N.to_nat (bd_bl d - len (bd_data d)))%nat with (N.to_nat (bd_bl d))
    by (unfold nb, len in *; lia).
  apply map_ext. intros j. rewrite !nth_app_zeros. reflexivity.
Qed.

Lemma flat_items_rb c T : forall ds k,
  Forall (desc_ok c) ds -> flat_map block_items (rb_from c T k ds) = flat_map desc_items ds.
Proof.
  induction ds as [|d ds IH]; intros k F; [reflexivity|].
  cbn [rb_from flat_map]. rewrite block_items_rb by exact (Forall_inv F).
  rewrite IH by exact (Forall_inv_tail F). reflexivity.
Qed.

Lemma item_eqb_refl x : item_eqb x x = true.
Proof. destruct x as [[a b] f]. unfold item_eqb. rewrite !N.eqb_refl, eqb_reflx. reflexivity. Qed.

Lemma items_eqb_refl : forall l, items_eqb l l = true.
Proof. induction l as [|x l IH]; [reflexivity|]. cbn [items_eqb]. rewrite item_eqb_refl, IH. reflexivity. Qed.

(* ---------- the call's side: expected items, block counts ---------- *)
Lemma expected_call_ne c w : w_data w <> [] ->
  expected_call c w = zip_from (w_addr w) (w_nf w)
    (w_data w ++ repeat 0 (N.to_nat ((if w_all w then pad_to (c_align c) (len (w_data w)) else c_bs c) - len (w_data w)))).
Proof. unfold expected_call. destruct (w_data w); [contradiction | reflexivity]. Qed.

Lemma blocks_of_call_ne c w : w_data w <> [] ->
  blocks_of_call c w = if w_all w then (pad_to (c_align c) (len (w_data w)) + c_bs c - 1) / c_bs c else 1.
Proof. unfold blocks_of_call. destruct (w_data w); [contradiction | reflexivity]. Qed.

Lemma len_0_nil (l : list N) : len l = 0 -> l = [].
Proof. destruct l; [reflexivity|]. unfold nb, len. cbn [length]. lia. Qed.

Lemma ceil_div_eq a b : 1 <= b -> ceil_div a b = (a + b - 1) / b.
Proof.
  intros Hb. unfold ceil_div.
  pose proof (N.div_mod' a b) as E. pose proof (N.mod_lt a b ltac:(lia)) as R.
  set (q := a / b) in *. set (r := a mod b) in *. clearbody q r.
  destruct (N.ltb_spec 0 r).
  - apply (N.div_unique _ _ _ (r - 1)); [lia|]. rewrite N.mul_add_distr_l. lia.
  - apply (N.div_unique _ _ _ (b - 1)); [lia|]. lia.
Qed.

(* ---------- write_all: the descriptors of its blocks ---------- *)
Fixpoint wa_descs (c : config) (addr A cnt : N) (nf : bool) (i : N) (cs : list (list N)) : list bdesc :=
  match cs with
  | [] => []
  | ch :: cs' =>
      {| bd_a := addr + i * c_bs c; bd_data := ch; bd_bl := if i <? cnt - 1 then c_bs c else A - i * c_bs c; bd_nf := nf |}
      :: wa_descs c addr A cnt nf (i + 1) cs'
  end.

Lemma wa_descs_length c addr A cnt nf : forall cs i, length (wa_descs c addr A cnt nf i cs) = length cs.
Proof. induction cs as [|ch cs IH]; intros i; cbn [wa_descs length]; [reflexivity | rewrite IH; reflexivity]. Qed.

Lemma wa_pure_blocks c addr A cnt nf : forall cs i st,
  s_blocks (wa_pure c addr A cnt nf i cs st)
    = s_blocks st ++ enc_from c (s_bg st) (s_count st) (wa_descs c addr A cnt nf i cs)
  /\ s_bg (wa_pure c addr A cnt nf i cs st) = s_bg st.
Proof.
  induction cs as [|ch cs IH]; intros i st; cbn [wa_pure wa_descs enc_from].
  - rewrite app_nil_r. split; reflexivity.
  - destruct (IH (i + 1) (push st (blk c (s_bg st) (s_count st) (addr + i * c_bs c) ch
                      (if i <? cnt - 1 then c_bs c else A - i * c_bs c) nf))) as [E1 E2].
    rewrite E1, E2. cbn [push s_blocks s_bg s_count]. rewrite <- app_assoc. split; reflexivity.
Qed.

Lemma mod_sub_multiple al A m bs : 1 <= al -> A mod al = 0 -> bs mod al = 0 -> (A - m * bs) mod al = 0.
Proof.
  intros Ha H1 H2. apply N.mod_divide in H1; [|lia]. apply N.mod_divide in H2; [|lia].
  apply N.mod_divide; [lia|]. apply N.divide_sub_r; [assumption|]. apply N.divide_mul_r. assumption.
Qed.

Lemma wa_descs_ok c addr A cnt nf :
  cfg_valid c -> (cnt - 1) * c_bs c < A -> A <= cnt * c_bs c -> A mod c_align c = 0 -> addr + A <= u32_max + 1 ->
  forall cs i, chunked (N.to_nat (c_bs c)) cs -> i + N.of_nat (length cs) = cnt -> cs <> [] ->
  i * c_bs c + len (concat cs) <= A ->
  Forall (desc_ok c) (wa_descs c addr A cnt nf i cs)
  /\ flat_map desc_items (wa_descs c addr A cnt nf i cs)
     = zip_from (addr + i * c_bs c) nf (concat cs ++ repeat 0 (N.to_nat (A - i * c_bs c - len (concat cs)))).
Proof.
  intros (V1 & V2 & V3 & V4) HA1 HA2 HAm Haddr.
  induction cs as [|ch cs IH]; intros i C Hi NE HL; [contradiction|].
  destruct cs as [|c2 cs2].
  - (* the last chunk *)
    cbn [chunked] in C. cbn [length] in Hi. assert (cnt = i + 1) by lia. clear Hi IH. subst cnt.
    cbn [concat] in *. rewrite app_nil_r in *.
    cbn [wa_descs flat_map]. replace (i + 1 - 1) with i in * by lia. rewrite N.ltb_irrefl, app_nil_r.
    split; [|reflexivity].
    constructor; [|constructor]. unfold desc_ok. cbn [bd_a bd_bl bd_data].
    repeat split; try lia.
    + apply mod_sub_multiple; assumption.
  - (* a full chunk followed by others *)
    destruct C as [C1 C2]. cbn [length] in Hi.
    assert (Hlt : i < cnt - 1) by lia.
    assert (IB : (i + 1) * c_bs c <= (cnt - 1) * c_bs c) by (apply N.mul_le_mono_r; lia).
    assert (Lch : len ch = c_bs c) by (unfold nb, len; lia).
    set (cs' := c2 :: cs2) in *.
    assert (Lc : len (concat (ch :: cs')) = c_bs c + len (concat cs')).
    { cbn [concat]. unfold nb, len in *. rewrite app_length. lia. }
    destruct (IH (i + 1)) as [I1 I2].
    + exact C2.
    + subst cs'. cbn [length] in *. lia.
    + subst cs'. discriminate.
    + lia.
    + cbn [wa_descs flat_map]. destruct (N.ltb_spec i (cnt - 1)); [|lia].
      split.
      * constructor; [|exact I1]. unfold desc_ok. cbn [bd_a bd_bl bd_data]. repeat split; try assumption; lia.
      * rewrite I2. unfold desc_items at 1. cbn [bd_a bd_bl bd_data bd_nf].
        rewrite Lch, N.sub_diag. cbn [N.to_nat repeat]. rewrite app_nil_r.
        rewrite Lc. cbn [concat]. rewrite <- app_assoc, (zip_from_app nf ch). rewrite Lch.
        f_equal. f_equal; [lia|]. do 3 f_equal. lia.
Qed.

(* ---------- one call ---------- *)
Lemma step_trace st o r st' :
  inv st -> call_ok o -> step_pure st o = (r, st') ->
  match r with
  | ROk n => exists ds,
       s_blocks st' = s_blocks st ++ enc_from (s_cfg st) (s_bg st) (s_count st) ds
       /\ Forall (desc_ok (s_cfg st)) ds
       /\ flat_map desc_items ds = expected_call (s_cfg st) o
       /\ nb ds = blocks_of_call (s_cfg st) o
       /\ s_bg st' = s_bg st
       /\ (w_all o = true -> n = nb ds)
  | _ => st' = st
  end.
Proof.
  intros I CO. pose proof (i_cfg _ I) as V. pose proof V as (V1 & V2 & V3 & V4).
  unfold step_pure. destruct (w_all o) eqn:W.
  - (* write_all *)
    unfold write_all_pure.
    destruct (N.eqb_spec (len (w_data o)) 0) as [Z|NZ].
    { intros E; inversion E; subst r st'. exists []. apply len_0_nil in Z.
      unfold expected_call, blocks_of_call. rewrite Z. cbn [enc_from flat_map]. rewrite app_nil_r.
      repeat split; try reflexivity. constructor. }
    assert (NE : w_data o <> []) by (intros Z; apply NZ; rewrite Z; reflexivity).
    set (c := s_cfg st) in *. set (A := pad_to (c_align c) (len (w_data o))).
    destruct (N.ltb_spec (u32_max - w_addr o) (A - 1)); [intros E; inversion E; reflexivity|].
    set (cnt := ceil_div A (c_bs c)).
    destruct (N.ltb_spec u32_max cnt); [intros E; inversion E; reflexivity|].
    destruct (N.ltb_spec (u32_max - s_count st) cnt); [intros E; inversion E; reflexivity|].
    destruct (reserve st (cnt * 512)) as [st1|] eqn:R; [|intros E; inversion E; reflexivity].
    intros E; inversion E; subst r st'. clear E.
    destruct (reserve_facts _ _ _ (i_pos _ I) (i_len _ I) R) as (E1 & E2 & E3 & E4 & E5 & E6 & _).
    destruct (chunks_count c (w_data o) V NE) as (K1 & K2 & K3). fold A in K1. fold cnt in K1.
    destruct (pad_to_facts (c_align c) (len (w_data o)) V3) as (F1 & F2 & F3). fold A in F1, F2, F3.
    assert (L1 : 1 <= len (w_data o)) by lia.
    destruct (ceil_div_bounds A (c_bs c) V1 ltac:(lia)) as (G1 & G2 & G3). fold cnt in G1, G2, G3.
    unfold call_ok in CO.
    destruct (wa_pure_blocks c (w_addr o) A cnt (w_nf o) (chunks (c_bs c) (w_data o)) 0 st1) as [B1 B2].
    destruct (wa_descs_ok c (w_addr o) A cnt (w_nf o) V G2 G3 F3 ltac:(lia) (chunks (c_bs c) (w_data o)) 0) as [O1 O2].
    + exact K2.
    + lia.
    + intros Z. rewrite Z in K3. cbn [concat] in K3. apply NE. symmetry. exact K3.
    + rewrite K3. lia.
    + exists (wa_descs c (w_addr o) A cnt (w_nf o) 0 (chunks (c_bs c) (w_data o))).
      rewrite B1, B2, E4, E5, E6.
      split; [reflexivity|]. split; [exact O1|]. split.
      { rewrite O2, K3, expected_call_ne by exact NE. rewrite W. fold A.
        rewrite N.mul_0_l, N.add_0_r, N.sub_0_r. reflexivity. }
      split.
      { rewrite blocks_of_call_ne by exact NE. rewrite W. fold A.
        unfold nb, len. rewrite wa_descs_length, K1. unfold cnt. apply ceil_div_eq. exact V1. }
      split; [reflexivity|].
      intros _. unfold nb, len. rewrite wa_descs_length, K1. reflexivity.
  - (* write *)
    unfold write_pure.
    destruct (N.eqb_spec (len (w_data o)) 0) as [Z|NZ].
    { intros E; inversion E; subst r st'. exists []. apply len_0_nil in Z.
      unfold expected_call, blocks_of_call. rewrite Z. cbn [enc_from flat_map]. rewrite app_nil_r.
      repeat split; try reflexivity; try discriminate. constructor. }
    assert (NE : w_data o <> []) by (intros Z; apply NZ; rewrite Z; reflexivity).
    destruct (N.ltb_spec (c_bs (s_cfg st)) (len (w_data o))); [intros E; inversion E; reflexivity|].
    destruct (N.eqb_spec (len (w_data o) mod c_align (s_cfg st)) 0) as [M|M]; cbn [negb];
      [|intros E; inversion E; reflexivity].
    destruct (reserve st 512) as [st1|] eqn:R; [|intros E; inversion E; reflexivity].
    intros E; inversion E; subst r st'. clear E.
    destruct (reserve_facts _ _ _ (i_pos _ I) (i_len _ I) R) as (E1 & E2 & E3 & E4 & E5 & E6 & _).
    unfold call_ok in CO.
    exists [{| bd_a := w_addr o; bd_data := w_data o; bd_bl := c_bs (s_cfg st); bd_nf := w_nf o |}].
    cbn [push s_blocks s_bg enc_from flat_map]. rewrite E5, E6, app_nil_r.
    split; [reflexivity|]. split.
    { constructor; [|constructor]. unfold desc_ok. cbn [bd_a bd_bl bd_data].
      repeat split; try assumption; lia. }
    split.
    { unfold desc_items. cbn [bd_a bd_bl bd_data bd_nf]. rewrite expected_call_ne by exact NE. rewrite W. reflexivity. }
    split.
    { rewrite blocks_of_call_ne by exact NE. rewrite W. reflexivity. }
    split; [reflexivity | discriminate].
Qed.

(* ---------- a run ---------- *)
(* the calls that returned Ok *)
Fixpoint accepted (ops : list wcall) (rs : list res) : list wcall :=
  match ops, rs with
  | o :: t, ROk _ :: rt => o :: accepted t rt
  | _ :: t, _ :: rt => accepted t rt
  | _, _ => []
  end.

Definition is_rok (r : res) : bool := match r with ROk _ => true | _ => false end.

Definition sum_blocks (c : config) (ws : list wcall) : N := fold_right (fun w acc => blocks_of_call c w + acc) 0 ws.

Lemma run_trace d : forall ops st rs st',
  inv st -> Forall call_ok ops -> s_count st + cost ops <= u32_max ->
  run d st ops = (rs, Some st') ->
  exists ds,
    s_blocks st' = s_blocks st ++ enc_from (s_cfg st) (s_bg st) (s_count st) ds
    /\ Forall (desc_ok (s_cfg st)) ds
    /\ flat_map desc_items ds = expected_items (s_cfg st) (accepted ops rs)
    /\ nb ds = sum_blocks (s_cfg st) (accepted ops rs)
    /\ inv st' /\ s_cfg st' = s_cfg st /\ s_bg st' = s_bg st /\ s_count st' = s_count st + nb ds.
Proof.
  induction ops as [|o ops IH]; intros st rs st' I F B H.
  - cbn [run] in H. inversion H; subst rs st'. exists []. cbn [enc_from flat_map accepted]. rewrite app_nil_r.
    unfold nb, len. cbn [length]. rewrite N.add_0_r.
    repeat split; try reflexivity; try assumption; try (apply I). constructor.
  - pose proof (Forall_inv F) as Fo. pose proof (Forall_inv_tail F) as F'.
    cbn [cost fold_right] in B. fold (cost ops) in B.
    pose proof u32_lt_isize as UI.
    cbn [run] in H. rewrite step_spec in H by (try assumption; lia).
    destruct (step_pure st o) as [r st1] eqn:S.
    destruct (step_pure_facts _ _ _ _ I S) as (J1 & J2 & J3 & J4 & J5).
    pose proof (step_trace _ _ _ _ I Fo S) as T.
    destruct (run d st1 ops) as [rs1 f1] eqn:R.
    destruct r as [n | e | s].
    + inversion H; subst rs f1. clear H.
      destruct T as (ds1 & T1 & T2 & T3 & T4 & T5 & T6).
      destruct (IH st1 rs1 st' J1 F' ltac:(lia) R) as (ds2 & U1 & U2 & U3 & U4 & U5 & U6 & U7 & U8).
      assert (C1 : s_count st1 = s_count st + nb ds1).
      { rewrite (i_cnt _ J1), (i_cnt _ I). unfold len_blocks. rewrite T1, app_length, enc_from_length. unfold nb, len. lia. }
      exists (ds1 ++ ds2). rewrite J4, T5, C1 in *.
      rewrite enc_from_app, app_assoc, <- T1.
      split; [exact U1|]. split; [apply Forall_app; split; assumption|]. split.
      { rewrite flat_map_app, T3, U3. reflexivity. }
      split.
      { cbn [accepted sum_blocks fold_right]. fold (sum_blocks (s_cfg st) (accepted ops rs1)).
        unfold nb, len in *. rewrite app_length. lia. }
      split; [exact U5|]. split; [exact U6|]. split; [exact U7|].
      unfold nb, len in *. rewrite app_length. lia.
    + inversion H; subst rs f1. clear H. subst st1.
      destruct (IH st rs1 st' I F' ltac:(lia) R) as (ds2 & U).
      exists ds2. exact U.
    + exfalso. exact (J2 s eq_refl).
Qed.

(* refused calls can be deleted from a run: same results for the others, same final state *)
Lemma run_skip_rejected d : forall ops st rs st',
  run d st ops = (rs, Some st') -> run d st (accepted ops rs) = (filter is_rok rs, Some st').
Proof.
  induction ops as [|o ops IH]; intros st rs st' H.
  - cbn [run] in H. inversion H; subst. reflexivity.
  - cbn [run] in H. destruct (step d st o) as [r st1] eqn:S.
    destruct r as [n | e | s].
    + destruct (run d st1 ops) as [rs1 f1] eqn:R. inversion H; subst rs f1. clear H.
      cbn [accepted filter is_rok run]. rewrite S, (IH _ _ _ R). reflexivity.
    + destruct (run d st1 ops) as [rs1 f1] eqn:R. inversion H; subst rs f1. clear H.
      apply step_reject_keeps in S. subst st1.
      cbn [accepted filter is_rok]. apply IH. exact R.
    + discriminate.
Qed.

(* ---------- sessions ---------- *)
Lemma session_trace debug c d ops :
  dest_ok d -> Forall call_ok ops -> cost ops <= u32_max ->
  forall rs st, session debug c d ops = SDone rs (Some st) ->
  exists ds,
    s_blocks st = map (patch_total (nb ds)) (enc_from c (s_bg st) 0 ds)
    /\ cfg_valid c /\ Forall (desc_ok c) ds /\ nb ds <= u32_max /\ s_count st = nb ds
    /\ flat_map desc_items ds = expected_items c (accepted ops rs)
    /\ nb ds = sum_blocks c (accepted ops rs).
Proof.
  intros D F B rs st. unfold session.
  destruct (config_ok c) eqn:CO.
  - apply config_ok_iff in CO. destruct (new_accepts c d CO D) as (st0 & N0 & I0 & Z0 & C0 & B0). rewrite N0.
    destruct (run_ok debug ops st0 I0 F ltac:(lia)) as (rs' & st' & R & K1 & K2 & K3 & K4 & K5). rewrite R.
    rewrite finish_spec by assumption. intros E; inversion E; subst rs st. clear E.
    destruct (run_trace debug ops st0 rs' st' I0 F ltac:(lia) R) as (ds & U1 & U2 & U3 & U4 & U5 & U6 & U7 & U8).
    rewrite B0, C0, Z0 in *. cbn [app] in U1. rewrite N.add_0_l in U8.
    exists ds. cbn [with_blocks s_blocks s_bg s_count]. rewrite U7, U1, U8.
    repeat split; try assumption; try apply CO. lia.
  - assert (NV : ~ cfg_valid c) by (intros V; apply config_ok_iff in V; congruence).
    destruct (new_rejects c d NV) as (e & E). rewrite E. discriminate.
Qed.

(* what the independent reader returns for the output of a session *)
Lemma session_read debug c d ops :
  dest_ok d -> Forall call_ok ops -> cost ops <= u32_max -> info_of c <= u32_max ->
  forall rs st, session debug c d ops = SDone rs (Some st) ->
  exists ds,
    read_uf2 (concat (s_blocks st)) = Some (rb_from c (nb ds) 0 ds)
    /\ cfg_valid c /\ Forall (desc_ok c) ds
    /\ flat_map desc_items ds = expected_items c (accepted ops rs)
    /\ nb ds = sum_blocks c (accepted ops rs) /\ s_count st = nb ds.
Proof.
  intros D F B Hi rs st S.
  destruct (session_whole_blocks debug c d ops D F B rs st S) as (W1 & _ & _).
  destruct (session_trace debug c d ops D F B rs st S) as (ds & T1 & V & T2 & T3 & T4 & T5 & T6).
  exists ds. unfold read_uf2. rewrite W1, T1.
  rewrite parse_enc_from by (try assumption; lia).
  repeat (split; [first [reflexivity | assumption]|]). assumption.
Qed.

Lemma session_blocks_wellformed debug c d ops :
  dest_ok d -> Forall call_ok ops -> cost ops <= u32_max -> info_of c <= u32_max ->
  forall rs st, session debug c d ops = SDone rs (Some st) ->
  blocks_wellformed c (concat (s_blocks st)) = true.
Proof.
  intros D F B Hi rs st S.
  destruct (session_read debug c d ops D F B Hi rs st S) as (ds & R & V & O & _).
  unfold blocks_wellformed. rewrite R, rb_from_length. fold (nb ds). apply all_from_rb; assumption.
Qed.

Lemma session_reconstructs debug c d ops :
  dest_ok d -> Forall call_ok ops -> cost ops <= u32_max -> info_of c <= u32_max ->
  forall rs st, session debug c d ops = SDone rs (Some st) ->
  reconstructs c (accepted ops rs) (concat (s_blocks st)) = true.
Proof.
  intros D F B Hi rs st S.
  destruct (session_read debug c d ops D F B Hi rs st S) as (ds & R & V & O & E & _).
  unfold reconstructs, read_items. rewrite R. cbn [option_map].
  rewrite flat_items_rb by exact O. rewrite E. apply items_eqb_refl.
Qed.

(* refused calls: deleting them from the sequence gives the same results for the other calls and the same final
   writer state (every block, position, counter); the number of blocks is the sum over the accepted calls *)
Lemma session_skip_rejected debug c d ops rs st :
  session debug c d ops = SDone rs (Some st) ->
  session debug c d (accepted ops rs) = SDone (filter is_rok rs) (Some st).
Proof.
  unfold session. destruct (new c d) as [e | st0]; [discriminate|].
  destruct (run debug st0 ops) as [rs0 [st1|]] eqn:R; [|discriminate].
  destruct (finish debug st1) as [st2 | e | s] eqn:Fi; try discriminate.
  intros E; inversion E; subst rs0 st2. clear E.
  rewrite (run_skip_rejected _ _ _ _ _ R), Fi. reflexivity.
Qed.

Lemma session_block_count debug c d ops :
  dest_ok d -> Forall call_ok ops -> cost ops <= u32_max ->
  forall rs st, session debug c d ops = SDone rs (Some st) ->
  N.of_nat (length (s_blocks st)) = sum_blocks c (accepted ops rs)
  /\ s_count st = sum_blocks c (accepted ops rs).
Proof.
  intros D F B rs st S.
  destruct (session_trace debug c d ops D F B rs st S) as (ds & T1 & V & T2 & T3 & T4 & T5 & T6).
  rewrite T4, T1, map_length, enc_from_length. fold (nb ds). split; exact T6.
Qed.

(* the output is count x 512 bytes; the count is the sum of the accepted calls' block numbers *)
Lemma session_counts debug c d ops :
  dest_ok d -> Forall call_ok ops -> cost ops <= u32_max ->
  forall rs st, session debug c d ops = SDone rs (Some st) ->
  len (concat (s_blocks st)) = 512 * s_count st
  /\ s_count st = sum_blocks c (accepted ops rs)
  /\ N.of_nat (length (s_blocks st)) = s_count st
  /\ s_count st <= u32_max.
Proof.
  intros D F B rs st S.
  destruct (session_whole_blocks debug c d ops D F B rs st S) as (_ & W2 & W3).
  destruct (session_block_count debug c d ops D F B rs st S) as (C1 & C2).
  repeat split; try assumption. rewrite C1, C2. reflexivity.
Qed.

(* the items one call asks for have consecutive, hence pairwise different, addresses *)
Definition item_addr (it : item) : N := fst (fst it).

Lemma zip_from_addr_ge nf : forall l a x, In x (map item_addr (zip_from a nf l)) -> a <= x.
Proof.
  induction l as [|b l IH]; intros a x H; cbn [zip_from map In] in H; [contradiction|].
  destruct H as [H|H]; [cbn in H; lia|]. apply IH in H. lia.
Qed.

Lemma zip_from_nodup nf : forall l a, NoDup (map item_addr (zip_from a nf l)).
Proof.
  induction l as [|b l IH]; intros a; cbn [zip_from map]; constructor; [|apply IH].
  intros H. apply zip_from_addr_ge in H. cbn in H. lia.
Qed.

Lemma expected_call_nodup c w : NoDup (map item_addr (expected_call c w)).
Proof. unfold expected_call. destruct (w_data w); [constructor | apply zip_from_nodup]. Qed.

(* from any reachable state a call sequence only appends blocks: as many as its accepted calls ask for *)
Lemma run_appends d st ops rs st' :
  inv st -> Forall call_ok ops -> s_count st + cost ops <= u32_max ->
  run d st ops = (rs, Some st') ->
  exists new, s_blocks st' = s_blocks st ++ new
              /\ N.of_nat (length new) = sum_blocks (s_cfg st) (accepted ops rs).
Proof.
  intros I F B R.
  destruct (run_trace d ops st rs st' I F B R) as (ds & U1 & _ & _ & U4 & _).
  eexists. split; [exact U1|]. rewrite enc_from_length. exact U4.
Qed.
