(* Proofs about the UF2 writer model: Model |= ReaderSpec (C16). *)
From Coq Require Import NArith Arith List Bool Lia ZifyBool ZifyNat ZifyN.
From Trion Require Import Uf2.WriteBits Uf2.WriteTypes Uf2.WriteModel Uf2.ReaderSpec.
Import ListNotations.
Open Scope N_scope.

Arguments N.add : simpl never. Arguments N.mul : simpl never. Arguments N.sub : simpl never.
Arguments N.div : simpl never. Arguments N.modulo : simpl never. Arguments N.leb : simpl never.
Arguments N.ltb : simpl never. Arguments N.eqb : simpl never. Arguments N.of_nat : simpl never.
Arguments N.to_nat : simpl never. Arguments N.land : simpl never. Arguments N.shiftr : simpl never.
Arguments N.lor : simpl never.

(* ---------- machine arithmetic inside its range ---------- *)
Lemma add_us_ok d a b : a + b <= usize_max -> add_us d a b = Ok (a + b).
Proof. intros H. unfold add_us. destruct (N.leb_spec (a + b) usize_max); [reflexivity | lia]. Qed.
Lemma sub_us_ok d a b : b <= a -> sub_us d a b = Ok (a - b).
Proof. intros H. unfold sub_us. destruct (N.leb_spec b a); [reflexivity | lia]. Qed.
Lemma mul_us_ok d a b : a * b <= usize_max -> mul_us d a b = Ok (a * b).
Proof. intros H. unfold mul_us. destruct (N.leb_spec (a * b) usize_max); [reflexivity | lia]. Qed.
Lemma add_u32_ok d a b : a + b <= u32_max -> add_u32 d a b = Ok (a + b).
Proof. intros H. unfold add_u32. destruct (N.leb_spec (a + b) u32_max); [reflexivity | lia]. Qed.
Lemma rem_us_ok a b : b <> 0 -> rem_us a b = Ok (a mod b).
Proof. intros H. unfold rem_us. destruct (N.eqb_spec b 0); [contradiction | reflexivity]. Qed.
Lemma div_us_ok a b : b <> 0 -> div_us a b = Ok (a / b).
Proof. intros H. unfold div_us. destruct (N.eqb_spec b 0); [contradiction | reflexivity]. Qed.
Lemma as_u32_small a : a <= u32_max -> as_u32 a = a.
Proof. intros H. unfold as_u32. apply N.mod_small. unfold u32_max, two32 in *. lia. Qed.

(* ---------- configuration ---------- *)
Definition cfg_valid (c : config) : Prop :=
  1 <= c_bs c /\ c_bs c <= 476 /\ 1 <= c_align c /\ c_bs c mod c_align c = 0.

Lemma validate_none bs al : validate bs al = None <-> (1 <= bs /\ bs <= 476 /\ 1 <= al /\ bs mod al = 0).
Proof.
  unfold validate, MAX_DATA_LEN.
  destruct (N.eqb_spec bs 0); cbn [orb].
  { split; [discriminate | lia]. }
  destruct (N.ltb_spec 476 bs); cbn [orb].
  { split; [discriminate | lia]. }
  destruct (N.eqb_spec al 0); cbn [orb].
  { split; [discriminate | lia]. }
  destruct (N.eqb_spec (bs mod al) 0); cbn [negb].
  - split; [lia | reflexivity].
  - split; [discriminate | lia].
Qed.

Lemma config_ok_iff c : config_ok c = true <-> cfg_valid c.
Proof. unfold config_ok, cfg_valid. rewrite !andb_true_iff, !N.leb_le, N.eqb_eq. tauto. Qed.

Lemma align_le_bs c : cfg_valid c -> c_align c <= c_bs c.
Proof.
  intros (H1 & H2 & H3 & H4).
  destruct (N.le_gt_cases (c_align c) (c_bs c)) as [|G]; [assumption|].
  rewrite N.mod_small in H4 by lia. lia.
Qed.

(* ---------- pure forms of check_write / encode ---------- *)
Definition push (st : state) (b : list N) : state :=
  {| s_cfg := s_cfg st; s_kind := s_kind st; d_len := d_len st; d_pos := d_pos st + 512; s_count := s_count st + 1;
     s_blocks := s_blocks st ++ [b]; s_bg := s_bg st |}.

Definition flags_of (c : config) (nf : bool) : N :=
  N.lor (if nf then 1 else 0) (match c_fam c with Some _ => 0x2000 | None => 0 end).
Definition info_of (c : config) : N := match c_fam c with Some f => f | None => 0 end.

(* what encode stores: header fields, data, zero fill, footer *)
Definition blk (c : config) (bg cnt a : N) (block : list N) (bl : N) (nf : bool) : list N :=
  mk_block (flags_of c nf) a bl cnt bg (info_of c) block (32 + len block).

Definition reserve (st : state) (n : N) : option state :=
  match s_kind st with
  | KSlice => if d_len st - d_pos st <? n then None else Some st
  | KVector => if d_len st - d_pos st <? n
               then (if isize_max - d_pos st <? n then None else Some (set_dlen st (d_pos st + n)))
               else Some st
  end.

Lemma check_write_spec d st n :
  d_pos st <= d_len st -> d_len st <= isize_max ->
  check_write d st n = match reserve st n with Some st' => Ok st' | None => Err EOverflow end.
Proof.
  intros H1 H2. unfold check_write, reserve. destruct (s_kind st).
  - rewrite sub_us_ok by assumption. cbn [bind]. destruct (d_len st - d_pos st <? n); reflexivity.
  - rewrite sub_us_ok by assumption. cbn [bind]. destruct (d_len st - d_pos st <? n); [|reflexivity].
    rewrite sub_us_ok by lia. cbn [bind].
    destruct (N.ltb_spec (isize_max - d_pos st) n); [reflexivity|].
    rewrite add_us_ok by (unfold isize_max, usize_max in *; lia). reflexivity.
Qed.

Lemma reserve_facts st n st' :
  d_pos st <= d_len st -> d_len st <= isize_max -> reserve st n = Some st' ->
  s_cfg st' = s_cfg st /\ s_kind st' = s_kind st /\ d_pos st' = d_pos st /\ s_count st' = s_count st
  /\ s_blocks st' = s_blocks st /\ s_bg st' = s_bg st
  /\ d_pos st + n <= d_len st' /\ d_len st' <= isize_max /\ d_len st <= d_len st'.
Proof.
  intros H1 H2. unfold reserve. destruct (s_kind st) eqn:K.
  - destruct (N.ltb_spec (d_len st - d_pos st) n); [discriminate|]. intros E; inversion E; subst st'.
    repeat split; try reflexivity; try assumption; lia.
  - destruct (N.ltb_spec (d_len st - d_pos st) n).
    + destruct (N.ltb_spec (isize_max - d_pos st) n); [discriminate|]. intros E; inversion E; subst st'.
      cbn [set_dlen s_cfg s_kind d_pos s_count s_blocks s_bg d_len]. repeat split; try reflexivity; try assumption; lia.
    + intros E; inversion E; subst st'. repeat split; try reflexivity; try assumption; lia.
Qed.

Lemma encode_spec d st a block bl nf :
  d_pos st + 512 <= d_len st -> d_len st <= isize_max -> len block <= 476 -> s_count st < u32_max ->
  encode d st a block bl nf = Ok (push st (blk (s_cfg st) (s_bg st) (s_count st) a block bl nf)).
Proof.
  intros H1 H2 H3 H4. unfold encode, BLOCK_LEN, DATA_START, PADDING_END.
  assert (U : isize_max < usize_max) by (unfold isize_max, usize_max; lia).
  rewrite add_us_ok by lia. cbn [bind].
  destruct (N.ltb_spec (d_len st) (d_pos st + 512)); [lia|].
  rewrite add_us_ok by (unfold usize_max; lia). cbn [bind].
  destruct (N.ltb_spec 512 (32 + len block)); [lia|].
  destruct (N.ltb_spec 508 (32 + len block)); [lia|].
  rewrite add_u32_ok by lia. cbn [bind]. reflexivity.
Qed.

(* ---------- invariant of the writer state ---------- *)
Record inv (st : state) : Prop := {
  i_cfg : cfg_valid (s_cfg st);
  i_pos : d_pos st <= d_len st;
  i_len : d_len st <= isize_max;
  i_cnt : s_count st = len_blocks st;
  i_blk : 512 * len_blocks st <= d_pos st;
  i_sz  : Forall (fun b => length b = 512%nat) (s_blocks st)
}.

Lemma u32_lt_isize : u32_max < isize_max. Proof. unfold u32_max, isize_max. lia. Qed.

Definition write_pure (st : state) (a : N) (block : list N) (nf : bool) : outcome state :=
  let c := s_cfg st in
  if len block =? 0 then Ok st else
  if c_bs c <? len block then Err EOverflow else
  if negb (len block mod c_align c =? 0) then Err EAlignment else
  match reserve st 512 with
  | None => Err EOverflow
  | Some st1 => Ok (push st1 (blk c (s_bg st) (s_count st) a block (c_bs c) nf))
  end.

Lemma write_spec d st a block nf :
  inv st -> s_count st < u32_max -> write d st a block nf = write_pure st a block nf.
Proof.
  intros I B. destruct I as [(C1 & C2 & C3 & C4) P L Cn Bl _].
  unfold write, write_pure, BLOCK_LEN.
  destruct (len block =? 0); [reflexivity|].
  destruct (N.ltb_spec (c_bs (s_cfg st)) (len block)); [reflexivity|].
  rewrite rem_us_ok by lia. cbn [bind].
  destruct (negb (len block mod c_align (s_cfg st) =? 0)); [reflexivity|].
  rewrite check_write_spec by assumption.
  destruct (reserve st 512) as [st1|] eqn:R; [|reflexivity]. cbn [bind].
  destruct (reserve_facts _ _ _ P L R) as (E1 & E2 & E3 & E4 & E5 & E6 & F1 & F2 & F3).
  rewrite encode_spec by lia.
  rewrite E1, E6, E4, as_u32_small by (unfold u32_max; lia). reflexivity.
Qed.

(* ---------- drop ---------- *)
Definition with_blocks (st : state) (bs : list (list N)) : state :=
  {| s_cfg := s_cfg st; s_kind := s_kind st; d_len := d_len st; d_pos := d_pos st; s_count := s_count st;
     s_blocks := bs; s_bg := s_bg st |}.

Lemma upd_app {A} (f : A -> A) (done : list A) x todo k :
  length done = k -> upd k f (done ++ x :: todo) = done ++ f x :: todo.
Proof.
  revert k. induction done as [|y done IH]; intros k H; cbn in H; subst k; cbn [app upd length].
  - reflexivity.
  - rewrite IH by reflexivity. reflexivity.
Qed.

Lemma drop_loop_spec d : forall n i st done todo,
  s_blocks st = done ++ todo -> N.of_nat (length done) = i -> length todo = n ->
  s_count st = i + N.of_nat n -> 512 * s_count st <= d_pos st -> d_pos st <= d_len st ->
  d_len st <= isize_max -> s_count st <= u32_max ->
  drop_loop d n i st = Ok (with_blocks st (done ++ map (patch_total (s_count st)) todo)).
Proof.
  induction n as [|n IH]; intros i st done todo HB HD HT HC HP HL HI HU.
  - destruct todo; [|discriminate]. cbn [drop_loop map]. rewrite <- HB.
    destruct st; reflexivity.
  - destruct todo as [|x todo]; [discriminate|]. cbn [length] in HT. injection HT as HT.
    cbn [drop_loop]. unfold BLOCK_LEN.
    assert (U1 : isize_max < usize_max) by (unfold isize_max, usize_max; lia).
    assert (U2 : 512 * u32_max <= usize_max) by (unfold u32_max, usize_max; lia).
    rewrite mul_us_ok by lia. cbn [bind].
    rewrite sub_us_ok by lia. cbn [bind].
    rewrite add_us_ok by lia. cbn [bind].
    rewrite add_us_ok by lia. cbn [bind].
    destruct (N.ltb_spec (d_len st) (d_pos st - 512 * (s_count st - i) + 28)); [lia|].
    assert (LB : len_blocks st = s_count st).
    { unfold len_blocks. rewrite HB, app_length. cbn [length]. lia. }
    rewrite LB.
    replace (d_pos st - 512 * (s_count st - i) - (d_pos st - 512 * s_count st)) with (i * 512) by lia.
    rewrite N.mod_mul, N.div_mul by lia.
    destruct (N.ltb_spec (d_pos st - 512 * (s_count st - i)) (d_pos st - 512 * s_count st)); [lia|].
    rewrite N.eqb_refl. cbn [negb orb].
    destruct (N.leb_spec (s_count st) i); [lia|]. cbn [orb].
    rewrite HB, upd_app by lia.
    rewrite (IH (i + 1) _ (done ++ [patch_total (s_count st) x]) todo);
      cbn [s_blocks s_count d_pos d_len]; try assumption; try lia.
    + unfold with_blocks. cbn [s_cfg s_kind d_len d_pos s_count s_bg map]. rewrite <- app_assoc. reflexivity.
    + rewrite <- app_assoc. reflexivity.
    + rewrite app_length. cbn [length]. lia.
Qed.

Lemma finish_spec d st :
  inv st -> s_count st <= u32_max ->
  finish d st = Ok (with_blocks st (map (patch_total (s_count st)) (s_blocks st))).
Proof.
  intros [C P L Cn Bl _] U. unfold finish.
  rewrite (drop_loop_spec d _ 0 st [] (s_blocks st)); try reflexivity; try assumption.
  - unfold len_blocks in Cn. rewrite Cn. lia.
  - lia.
  - rewrite Cn. assumption.
Qed.

(* ---------- chunks and rounding ---------- *)
Definition ceil_div (a b : N) : N := a / b + (if 0 <? a mod b then 1 else 0).

Lemma ceil_div_bounds a b : 1 <= b -> 1 <= a ->
  1 <= ceil_div a b /\ (ceil_div a b - 1) * b < a /\ a <= ceil_div a b * b.
Proof.
  intros Hb Ha. unfold ceil_div.
  pose proof (N.div_mod' a b) as E. pose proof (N.mod_lt a b ltac:(lia)) as R.
  set (q := a / b) in *. set (r := a mod b) in *.
  destruct (N.ltb_spec 0 r).
  - replace (q + 1 - 1) with q by lia. rewrite N.mul_add_distr_r. lia.
  - assert (r = 0) by lia. assert (q <> 0) by (intros ->; lia).
    replace (q + 0) with q by lia.
    assert (X : q * b = (q - 1) * b + b).
    { replace q with ((q - 1) + 1) at 1 by lia. rewrite N.mul_add_distr_r. lia. }
    lia.
Qed.

Lemma ceil_unique b L m m' : 1 <= m -> 1 <= m' ->
  (m - 1) * b < L -> L <= m * b -> (m' - 1) * b < L -> L <= m' * b -> m = m'.
Proof.
  intros H1 H2 A1 A2 B1 B2.
  destruct (N.lt_trichotomy m m') as [G | [G | G]]; [exfalso | assumption | exfalso].
  - assert (m * b <= (m' - 1) * b) by (apply N.mul_le_mono_r; lia). lia.
  - assert (m' * b <= (m - 1) * b) by (apply N.mul_le_mono_r; lia). lia.
Qed.

Lemma pad_to_facts al n : 1 <= al ->
  n <= pad_to al n /\ pad_to al n < n + al /\ pad_to al n mod al = 0.
Proof.
  intros Ha. unfold pad_to.
  pose proof (N.div_mod' n al) as E. pose proof (N.mod_lt n al ltac:(lia)) as R.
  set (q := n / al) in *. set (r := n mod al) in *.
  destruct (N.eq_dec r 0) as [Z | NZ].
  - rewrite Z, N.sub_0_r, N.mod_same by lia. rewrite N.add_0_r. repeat split; lia.
  - rewrite (N.mod_small (al - r) al) by lia. repeat split; try lia.
    replace (n + (al - r)) with ((q + 1) * al) by (rewrite N.mul_add_distr_r; lia).
    apply N.mod_mul. lia.
Qed.

(* a multiple of the payload size (itself a multiple of the alignment) that covers n also covers pad_to al n *)
Lemma pad_to_le_multiple al bs n m : 1 <= al -> bs mod al = 0 -> n <= m * bs -> pad_to al n <= m * bs.
Proof.
  intros Ha Hd Hn. unfold pad_to.
  pose proof (N.div_mod' n al) as E. pose proof (N.mod_lt n al ltac:(lia)) as R.
  pose proof (N.div_mod' bs al) as Eb. rewrite Hd, N.add_0_r in Eb.
  set (q := n / al) in *. set (r := n mod al) in *. set (t := bs / al) in *.
  destruct (N.eq_dec r 0) as [Z | NZ].
  - rewrite Z, N.sub_0_r, N.mod_same by lia. lia.
  - rewrite (N.mod_small (al - r) al) by lia.
    assert (M : m * bs = al * (m * t)) by (rewrite Eb; ring).
    assert (Q : q < m * t).
    { apply (N.mul_lt_mono_pos_l al); lia. }
    assert (al * (q + 1) <= al * (m * t)) by (apply N.mul_le_mono_l; lia).
    rewrite N.mul_add_distr_l in *. lia.
Qed.

Fixpoint chunked (k : nat) (cs : list (list N)) : Prop :=
  match cs with
  | [] => True
  | c :: cs' => match cs' with
                | [] => (1 <= length c <= k)%nat
                | _ => length c = k /\ chunked k cs'
                end
  end.

Lemma chunks_f_nil f k : chunks_f f k [] = [].
Proof. destruct f; reflexivity. Qed.

Lemma chunks_f_props k : (1 <= k)%nat -> forall fuel l, (length l <= fuel)%nat ->
  chunked k (chunks_f fuel k l) /\ concat (chunks_f fuel k l) = l.
Proof.
  intros Hk. induction fuel as [|f IH]; intros l Hl.
  - destruct l; [|cbn in Hl; lia]. cbn. auto.
  - destruct l as [|x t]; [cbn; auto|].
    cbn [chunks_f]. set (l := x :: t) in *.
    assert (Ls : (length (skipn k l) <= f)%nat).
    { rewrite skipn_length. subst l. cbn [length] in *. lia. }
    destruct (IH (skipn k l) Ls) as [C1 C2].
    split.
    + cbn [chunked].
      destruct (chunks_f f k (skipn k l)) as [|c2 cs2] eqn:E.
      * assert (S0 : skipn k l = []) by (rewrite <- C2; reflexivity).
        assert (length (skipn k l) = 0%nat) by (rewrite S0; reflexivity).
        rewrite skipn_length in H. rewrite firstn_length. subst l. cbn [length] in *. lia.
      * split; [|exact C1].
        assert (N0 : skipn k l <> []).
        { intros Z. rewrite Z, chunks_f_nil in E. discriminate. }
        rewrite firstn_length.
        destruct (le_gt_dec k (length l)) as [|G]; [lia|].
        exfalso. apply N0. apply skipn_all2. lia.
    + cbn [concat]. rewrite C2. apply firstn_skipn.
Qed.

Lemma chunked_count k cs : (1 <= k)%nat -> chunked k cs -> cs <> [] ->
  ((length cs - 1) * k < length (concat cs) /\ length (concat cs) <= length cs * k)%nat.
Proof.
  intros Hk. induction cs as [|c cs IH]; intros C NE; [contradiction|].
  destruct cs as [|c2 cs2].
  - cbn [chunked] in C. cbn [concat length]. rewrite app_nil_r. lia.
  - destruct C as [C1 C2]. specialize (IH C2 ltac:(discriminate)).
    cbn [concat length] in *. rewrite app_length. cbn [concat] in IH. nia.
Qed.

Lemma chunked_le k cs : chunked k cs -> Forall (fun c => (length c <= k)%nat) cs.
Proof.
  induction cs as [|c cs IH]; intros C; [constructor|].
  destruct cs as [|c2 cs2].
  - cbn in C. constructor; [lia | constructor].
  - destruct C as [C1 C2]. constructor; [lia | auto].
Qed.

(* ---------- write_all ---------- *)
Fixpoint wa_pure (c : config) (addr A cnt : N) (nf : bool) (i : N) (cs : list (list N)) (st : state) : state :=
  match cs with
  | [] => st
  | ch :: cs' =>
      wa_pure c addr A cnt nf (i + 1) cs'
        (push st (blk c (s_bg st) (s_count st) (addr + i * c_bs c) ch
                      (if i <? cnt - 1 then c_bs c else A - i * c_bs c) nf))
  end.

Lemma wa_loop_spec d c addr A cnt nf : cfg_valid c ->
  1 <= cnt -> cnt <= u32_max -> (cnt - 1) * c_bs c < A -> A <= cnt * c_bs c -> addr + A <= u32_max + 1 ->
  forall cs i st, s_cfg st = c ->
  i + N.of_nat (length cs) = cnt ->
  Forall (fun ch => len ch <= 476) cs ->
  d_pos st + 512 * N.of_nat (length cs) <= d_len st -> d_len st <= isize_max ->
  s_count st + N.of_nat (length cs) <= u32_max ->
  wa_loop d addr A cnt nf i cs st = Ok (wa_pure c addr A cnt nf i cs st).
Proof.
  intros (C1 & C2 & C3 & C4) Hc1 Hc2 HA HA2 Haddr.
  induction cs as [|ch cs IH]; intros i st Hcfg Hi Hf Hp Hl Hn; [reflexivity|].
  cbn [length] in *. cbn [wa_loop wa_pure]. rewrite Hcfg.
  pose proof (Forall_inv Hf) as Hch. pose proof (Forall_inv_tail Hf) as Hf'. cbn beta in Hch.
  destruct (N.ltb_spec i cnt); [|lia]. cbn [negb]. rewrite andb_false_r.
  assert (IB : i * c_bs c <= (cnt - 1) * c_bs c) by (apply N.mul_le_mono_r; lia).
  assert (U : u32_max < usize_max) by (unfold u32_max, usize_max; lia).
  rewrite sub_us_ok by lia. cbn [bind].
  assert (BL : (if i <? cnt - 1 then Ok (as_u32 (c_bs c))
                else ib <- mul_us d i (c_bs c);; d0 <- sub_us d A ib;; Ok (as_u32 d0))
               = Ok (if i <? cnt - 1 then c_bs c else A - i * c_bs c)).
  { destruct (N.ltb_spec i (cnt - 1)).
    - rewrite as_u32_small by (unfold u32_max; lia). reflexivity.
    - assert (i = cnt - 1) by lia. subst i.
      assert (cnt * c_bs c = (cnt - 1) * c_bs c + c_bs c).
      { replace cnt with ((cnt - 1) + 1) at 1 by lia. rewrite N.mul_add_distr_r. lia. }
      rewrite mul_us_ok by lia. cbn [bind]. rewrite sub_us_ok by lia. cbn [bind].
      rewrite as_u32_small by (unfold u32_max in *; lia). reflexivity. }
  rewrite BL. cbn [bind].
  rewrite mul_us_ok by lia. cbn [bind].
  rewrite as_u32_small by lia. rewrite add_u32_ok by lia. cbn [bind].
  rewrite encode_spec by lia. cbn [bind]. rewrite Hcfg.
  apply IH; cbn [push s_cfg d_pos d_len s_count]; try assumption; try lia.
Qed.

Definition write_all_pure (st : state) (a : N) (data : list N) (nf : bool) : outcome (state * N) :=
  let c := s_cfg st in
  if len data =? 0 then Ok (st, 0) else
  let A := pad_to (c_align c) (len data) in
  if u32_max - a <? A - 1 then Err EAddress else
  let cnt := ceil_div A (c_bs c) in
  if u32_max <? cnt then Err EBlockCount else
  if u32_max - s_count st <? cnt then Err EBlockCount else
  match reserve st (cnt * 512) with
  | None => Err EOverflow
  | Some st1 => Ok (wa_pure c a A cnt nf 0 (chunks (c_bs c) data) st1, cnt)
  end.

(* the number of chunks is the number of blocks computed from the padded length *)
Lemma chunks_count c data : cfg_valid c -> data <> [] ->
  N.of_nat (length (chunks (c_bs c) data)) = ceil_div (pad_to (c_align c) (len data)) (c_bs c)
  /\ chunked (N.to_nat (c_bs c)) (chunks (c_bs c) data) /\ concat (chunks (c_bs c) data) = data.
Proof.
  intros V NE. pose proof V as (C1 & C2 & C3 & C4).
  assert (K : (1 <= N.to_nat (c_bs c))%nat) by lia.
  destruct (chunks_f_props _ K (length data) data (le_n _)) as [P1 P2]. fold (chunks (c_bs c) data) in *.
  split; [|split; assumption].
  assert (NE2 : chunks (c_bs c) data <> []).
  { intros Z. rewrite Z in P2. cbn in P2. congruence. }
  destruct (chunked_count _ _ K P1 NE2) as [B1 B2]. rewrite P2 in B1, B2.
  destruct (pad_to_facts (c_align c) (len data) C3) as (F1 & F2 & F3).
  assert (L1 : 1 <= len data) by (unfold len; destruct data; [congruence | cbn [length]; lia]).
  destruct (ceil_div_bounds (pad_to (c_align c) (len data)) (c_bs c) C1 ltac:(lia)) as (G1 & G2 & G3).
  set (m := N.of_nat (length (chunks (c_bs c) data))) in *.
  assert (M1 : 1 <= m) by (subst m; destruct (chunks (c_bs c) data); [congruence | cbn [length]; lia]).
  assert (M2 : (m - 1) * c_bs c < len data) by (unfold len; subst m; nia).
  assert (M3 : len data <= m * c_bs c) by (unfold len; subst m; nia).
  apply (ceil_unique (c_bs c) (pad_to (c_align c) (len data))); try assumption; try lia.
  apply pad_to_le_multiple; assumption.
Qed.

Lemma aligned_ok d n al : 1 <= al -> al <= 476 -> n <= isize_max ->
  (if negb (n mod al =? 0)
   then a1 <- sub_us d usize_max n;;
        a2 <- sub_us d al (n mod al);;
        (if a1 <? a2 then Err EAlignment else t <- sub_us d n (n mod al);; add_us d t al)
   else Ok n) = Ok (pad_to al n).
Proof.
  intros H1 H2 H3. unfold pad_to.
  pose proof (N.mod_lt n al ltac:(lia)) as R. pose proof (N.mod_le n al ltac:(lia)) as R2.
  set (r := n mod al) in *. clearbody r.
  destruct (N.eqb_spec r 0) as [Z|NZ]; cbn [negb].
  - rewrite Z, N.sub_0_r, N.mod_same, N.add_0_r by lia. reflexivity.
  - rewrite (N.mod_small (al - r) al) by lia.
    unfold usize_max, isize_max in *.
    rewrite !sub_us_ok by (unfold usize_max; lia). cbn [bind].
    destruct (N.ltb_spec (18446744073709551615 - n) (al - r)); [lia|].
    cbn [bind]. rewrite add_us_ok by (unfold usize_max; lia). f_equal. lia.
Qed.

Lemma write_all_spec d st a data nf :
  inv st -> a <= u32_max -> len data <= isize_max ->
  write_all d st a data nf = write_all_pure st a data nf.
Proof.
  intros I Ha Hn. destruct I as [V P L Cn Bl _]. pose proof V as (C1 & C2 & C3 & C4).
  unfold write_all, write_all_pure, BLOCK_LEN.
  destruct (N.eqb_spec (len data) 0) as [|NZ]; [reflexivity|].
  assert (NE : data <> []) by (intros ->; apply NZ; reflexivity).
  rewrite rem_us_ok by lia. cbn [bind].
  destruct (pad_to_facts (c_align (s_cfg st)) (len data) C3) as (F1 & F2 & F3).
  pose proof (align_le_bs _ V) as AB.
  assert (U1 : isize_max < usize_max) by (unfold isize_max, usize_max; lia).
  rewrite (aligned_ok d (len data) (c_align (s_cfg st))) by lia. cbn [bind].

  set (A := pad_to (c_align (s_cfg st)) (len data)) in *.
  assert (L1 : 1 <= len data) by lia.
  rewrite sub_us_ok by lia. cbn [bind].
  destruct (N.ltb_spec (u32_max - a) (A - 1)); [reflexivity|].
  rewrite div_us_ok, rem_us_ok by lia. cbn [bind].
  destruct (ceil_div_bounds A (c_bs (s_cfg st)) C1 ltac:(lia)) as (G1 & G2 & G3).
  assert (DL : A / c_bs (s_cfg st) <= A).
  { apply N.div_le_upper_bound; [lia|]. rewrite <- (N.mul_1_l A) at 1. apply N.mul_le_mono_r. lia. }
  rewrite add_us_ok by (destruct (0 <? A mod c_bs (s_cfg st)); unfold u32_max, usize_max in *; lia). cbn [bind].
  fold (ceil_div A (c_bs (s_cfg st))).
  set (cnt := ceil_div A (c_bs (s_cfg st))) in *.
  destruct (N.ltb_spec u32_max cnt); [reflexivity|].
  destruct (N.ltb_spec (u32_max - s_count st) cnt); [reflexivity|].
  assert (CM : cnt * 512 <= usize_max) by (clear - H0; unfold u32_max, usize_max in *; lia).
  destruct (N.ltb_spec usize_max (cnt * 512)); [lia|].
  rewrite check_write_spec by assumption.
  destruct (reserve st (cnt * 512)) as [st1|] eqn:R; [|reflexivity]. cbn [bind].
  destruct (reserve_facts _ _ _ P L R) as (E1 & E2 & E3 & E4 & E5 & E6 & R1 & R2 & R3).
  destruct (N.eqb_spec (c_bs (s_cfg st)) 0); [lia|].
  destruct (chunks_count _ data V NE) as (K1 & K2 & K3). fold A in K1. fold cnt in K1.
  rewrite (wa_loop_spec d (s_cfg st) a A cnt nf V); try assumption; try lia.
  - reflexivity.
  - apply chunked_le in K2. eapply Forall_impl; [|exact K2]. intros ch Hch. cbn beta in Hch. unfold len. lia.
Qed.

(* ---------- the invariant is preserved; counts ---------- *)
Lemma le32_length x : length (le32 x) = 4%nat. Proof. reflexivity. Qed.

Lemma blk_length c bg cnt a block bl nf : len block <= 476 -> length (blk c bg cnt a block bl nf) = 512%nat.
Proof.
  intros H. unfold blk, mk_block, PADDING_END, len in *.
  rewrite !app_length, repeat_length, !le32_length. cbn [length]. lia.
Qed.

Lemma push_inv st b : inv st -> d_pos st + 512 <= d_len st -> length b = 512%nat -> inv (push st b).
Proof.
  intros [V P L Cn Bl Sz] H Hb.
  constructor; cbn [push s_cfg d_pos d_len s_count s_blocks]; unfold len_blocks in *; cbn [push s_blocks].
  - assumption.
  - assumption.
  - assumption.
  - rewrite app_length. cbn [length]. lia.
  - rewrite app_length. cbn [length]. lia.
  - apply Forall_app. split; [assumption | constructor; [exact Hb | constructor]].
Qed.

Lemma reserve_inv st n st' : inv st -> reserve st n = Some st' -> inv st' /\ d_pos st' + n <= d_len st'.
Proof.
  intros [V P L Cn Bl Sz] R.
  destruct (reserve_facts _ _ _ P L R) as (E1 & E2 & E3 & E4 & E5 & E6 & F1 & F2 & F3).
  split; [|lia].
  constructor; unfold len_blocks in *; rewrite ?E1, ?E3, ?E4, ?E5; try assumption; lia.
Qed.

Lemma write_pure_inv st a block nf st' :
  inv st -> write_pure st a block nf = Ok st' ->
  inv st' /\ s_count st' <= s_count st + 1 /\ s_cfg st' = s_cfg st.
Proof.
  intros I. unfold write_pure.
  destruct (len block =? 0); [intros E; inversion E; subst; split; [assumption | split; [lia | reflexivity]]|].
  destruct (N.ltb_spec (c_bs (s_cfg st)) (len block)); [discriminate|].
  destruct (negb _); [discriminate|].
  destruct (reserve st 512) as [st1|] eqn:R; [|discriminate].
  intros E; inversion E; subst st'. clear E.
  destruct (reserve_inv _ _ _ I R) as [I1 R1].
  destruct I as [V P L Cn Bl Sz].
  destruct (reserve_facts _ _ _ P L R) as (E1 & E2 & E3 & E4 & E5 & E6 & F1 & F2 & F3).
  split; [|split].
  - apply push_inv; [assumption | lia |]. apply blk_length. destruct V as (? & ? & ? & ?). lia.
  - cbn [push s_count]. lia.
  - cbn [push s_cfg]. assumption.
Qed.

Lemma wa_pure_inv c addr A cnt nf : forall cs i st,
  inv st -> Forall (fun ch => len ch <= 476) cs -> d_pos st + 512 * N.of_nat (length cs) <= d_len st ->
  inv (wa_pure c addr A cnt nf i cs st)
  /\ s_count (wa_pure c addr A cnt nf i cs st) = s_count st + N.of_nat (length cs)
  /\ s_cfg (wa_pure c addr A cnt nf i cs st) = s_cfg st.
Proof.
  induction cs as [|ch cs IH]; intros i st I F H.
  - cbn. split; [assumption | split; [lia | reflexivity]].
  - cbn [wa_pure length] in *.
    pose proof (Forall_inv F) as Hch. pose proof (Forall_inv_tail F) as F'. cbn beta in Hch.
    edestruct (IH (i + 1) (push st (blk c (s_bg st) (s_count st) (addr + i * c_bs c) ch
                      (if i <? cnt - 1 then c_bs c else A - i * c_bs c) nf))) as (J1 & J2 & J3).
    + apply push_inv; [assumption | lia | apply blk_length; assumption].
    + assumption.
    + cbn [push d_pos d_len]. lia.
    + split; [exact J1 | split; [rewrite J2; cbn [push s_count]; lia | rewrite J3; reflexivity]].
Qed.

Lemma write_all_pure_inv st a data nf st' n :
  inv st -> write_all_pure st a data nf = Ok (st', n) ->
  inv st' /\ s_count st' = s_count st + n /\ s_count st' <= u32_max \/ (st' = st /\ n = 0).
Proof.
  intros I. unfold write_all_pure.
  destruct (N.eqb_spec (len data) 0) as [|NZ]; [intros E; inversion E; right; auto|].
  assert (NE : data <> []) by (intros ->; apply NZ; reflexivity).
  destruct (_ <? _); [discriminate|].
  destruct (N.ltb_spec u32_max (ceil_div (pad_to (c_align (s_cfg st)) (len data)) (c_bs (s_cfg st)))); [discriminate|].
  destruct (N.ltb_spec (u32_max - s_count st) (ceil_div (pad_to (c_align (s_cfg st)) (len data)) (c_bs (s_cfg st)))); [discriminate|].
  destruct (reserve _ _) as [st1|] eqn:R; [|discriminate].
  intros E; inversion E; subst st' n. clear E. left.
  destruct (reserve_inv _ _ _ I R) as [I1 R1].
  pose proof (i_cfg _ I) as V.
  destruct (chunks_count _ data V NE) as (K1 & K2 & K3).
  destruct I as [V' P L Cn Bl Sz].
  destruct (reserve_facts _ _ _ P L R) as (E1 & E2 & E3 & E4 & E5 & E6 & F1 & F2 & F3).
  edestruct (wa_pure_inv (s_cfg st) a (pad_to (c_align (s_cfg st)) (len data))
               (ceil_div (pad_to (c_align (s_cfg st)) (len data)) (c_bs (s_cfg st))) nf
               (chunks (c_bs (s_cfg st)) data) 0 st1) as (J1 & J2 & J3).
  - assumption.
  - apply chunked_le in K2. eapply Forall_impl; [|exact K2]. intros ch Hch. cbn beta in Hch.
    destruct V as (? & ? & ? & ?). unfold len. lia.
  - rewrite K1. lia.
  - destruct V as (V1 & V2 & V3 & V4).
    destruct (pad_to_facts (c_align (s_cfg st)) (len data) V3) as (Q1 & _).
    destruct (ceil_div_bounds (pad_to (c_align (s_cfg st)) (len data)) (c_bs (s_cfg st)) V1 ltac:(lia)) as (G1 & _).
    split; [exact J1 | split; [rewrite J2, K1, E4; reflexivity | rewrite J2, K1, E4; lia]].
Qed.

Lemma write_all_blocks_le st a data nf st' n :
  inv st -> write_all_pure st a data nf = Ok (st', n) -> n <= len data.
Proof.
  intros I. unfold write_all_pure.
  destruct (N.eqb_spec (len data) 0) as [|NZ]; [intros E; inversion E; lia|].
  assert (NE : data <> []) by (intros ->; apply NZ; reflexivity).
  destruct (_ <? _); [discriminate|]. destruct (_ <? _); [discriminate|]. destruct (_ <? _); [discriminate|].
  destruct (reserve _ _); [|discriminate]. intros E; inversion E; subst. clear E.
  pose proof (i_cfg _ I) as V.
  destruct (chunks_count _ data V NE) as (K1 & K2 & K3). rewrite <- K1.
  destruct V as (V1 & V2 & V3 & V4).
  assert (K : (1 <= N.to_nat (c_bs (s_cfg st)))%nat) by lia.
  assert (NE2 : chunks (c_bs (s_cfg st)) data <> []).
  { intros Z. rewrite Z in K3. cbn in K3. congruence. }
  destruct (chunked_count _ _ K K2 NE2) as [B1 B2]. rewrite K3 in B1, B2.
  unfold len. nia.
Qed.

(* ---------- a whole run ---------- *)
Definition call_ok (w : wcall) : Prop := w_addr w <= u32_max.
Definition cost (ops : list wcall) : N := fold_right (fun w acc => len (w_data w) + 1 + acc) 0 ops.
Definition not_panic (r : res) : Prop := forall s, r <> RPanic s.

Definition step_pure (st : state) (o : wcall) : res * state :=
  if w_all o then
    match write_all_pure st (w_addr o) (w_data o) (w_nf o) with
    | Ok (st', n) => (ROk n, st') | Err e => (RErr e, st) | Panic s => (RPanic s, st)
    end
  else
    match write_pure st (w_addr o) (w_data o) (w_nf o) with
    | Ok st' => (ROk 0, st') | Err e => (RErr e, st) | Panic s => (RPanic s, st)
    end.

Lemma step_spec d st o :
  inv st -> call_ok o -> s_count st < u32_max -> len (w_data o) <= isize_max -> step d st o = step_pure st o.
Proof.
  intros I C B L. unfold step, step_pure.
  destruct (w_all o); [rewrite write_all_spec | rewrite write_spec]; auto.
Qed.

Lemma step_pure_facts st o r st' :
  inv st -> step_pure st o = (r, st') ->
  inv st' /\ not_panic r /\ s_count st' <= s_count st + len (w_data o) + 1
  /\ s_cfg st' = s_cfg st /\ (forall e, r = RErr e -> st' = st).
Proof.
  intros I. unfold step_pure. destruct (w_all o).
  - destruct (write_all_pure st (w_addr o) (w_data o) (w_nf o)) as [[st1 n]| e | s] eqn:W.
    + intros E; inversion E; subst r st'. clear E.
      pose proof (write_all_blocks_le _ _ _ _ _ _ I W) as LE.
      destruct (write_all_pure_inv _ _ _ _ _ _ I W) as [(J1 & J2 & J3) | (J1 & J2)].
      * split; [assumption|]. split; [intros s; discriminate|]. split; [lia|]. split; [|intros e; discriminate].
        (* configuration unchanged *)
        revert W. unfold write_all_pure.
        destruct (_ =? _); [intros E; inversion E; reflexivity|].
        destruct (_ <? _); [discriminate|]. destruct (_ <? _); [discriminate|]. destruct (_ <? _); [discriminate|].
        destruct (reserve _ _) as [st2|] eqn:R; [|discriminate]. intros E; inversion E.
        destruct (reserve_facts _ _ _ (i_pos _ I) (i_len _ I) R) as (E1 & _).
        clear E.
        assert (X : forall cs i st0, s_cfg (wa_pure (s_cfg st) (w_addr o) (pad_to (c_align (s_cfg st)) (len (w_data o)))
                     (ceil_div (pad_to (c_align (s_cfg st)) (len (w_data o))) (c_bs (s_cfg st))) (w_nf o) i cs st0) = s_cfg st0).
        { induction cs as [|ch cs IHcs]; intros i st0; [reflexivity|]. cbn [wa_pure]. rewrite IHcs. reflexivity. }
        rewrite X. assumption.
      * subst. split; [assumption|]. split; [intros s; discriminate|]. split; [lia|]. split; [reflexivity|intros e; discriminate].
    + intros E; inversion E; subst. split; [assumption|]. split; [intros s; discriminate|]. split; [lia|]. auto.
    + exfalso. revert W. unfold write_all_pure.
      repeat match goal with |- context [if ?b then _ else _] => destruct b end; try discriminate.
      destruct (reserve _ _); discriminate.
  - destruct (write_pure st (w_addr o) (w_data o) (w_nf o)) as [st1 | e | s] eqn:W.
    + intros E; inversion E; subst r st'. clear E.
      destruct (write_pure_inv _ _ _ _ _ I W) as (J1 & J2 & J3).
      split; [assumption|]. split; [intros s; discriminate|]. split; [lia|]. split; [assumption | intros e; discriminate].
    + intros E; inversion E; subst. split; [assumption|]. split; [intros s; discriminate|]. split; [lia|]. auto.
    + exfalso. revert W. unfold write_pure.
      repeat match goal with |- context [if ?b then _ else _] => destruct b end; try discriminate.
      destruct (reserve _ _); discriminate.
Qed.

Lemma cost_ge ops : 0 <= cost ops. Proof. lia. Qed.

Lemma run_ok d : forall ops st,
  inv st -> Forall call_ok ops -> s_count st + cost ops <= u32_max ->
  exists rs st', run d st ops = (rs, Some st') /\ inv st' /\ s_count st' <= u32_max
                 /\ Forall not_panic rs /\ length rs = length ops /\ s_cfg st' = s_cfg st.
Proof.
  induction ops as [|o ops IH]; intros st I F B.
  - exists [], st. cbn [run cost fold_right] in *.
    split; [reflexivity|]. split; [assumption|]. split; [lia|]. split; [constructor|]. split; reflexivity.
  - pose proof (Forall_inv F) as Fo. pose proof (Forall_inv_tail F) as F'.
    cbn [cost fold_right] in B. fold (cost ops) in B.
    pose proof u32_lt_isize as UI.
    cbn [run]. rewrite step_spec by (try assumption; lia).
    destruct (step_pure st o) as [r st1] eqn:S.
    destruct (step_pure_facts _ _ _ _ I S) as (J1 & J2 & J3 & J4 & J5).
    destruct (IH st1 J1 F' ltac:(lia)) as (rs & st' & R & K1 & K2 & K3 & K4 & K5).
    rewrite R.
    exists (r :: rs), st'.
    assert (G : match r with RPanic s => ([RPanic s], None) | _ => (r :: rs, Some st') end = (r :: rs, Some st')).
    { destruct r; try reflexivity. exfalso. exact (J2 s eq_refl). }
    destruct r; try (exfalso; exact (J2 _ eq_refl));
      (split; [reflexivity|]; split; [assumption|]; split; [assumption|];
       split; [constructor; assumption|]; split; [cbn [length]; lia | congruence]).
Qed.

(* ---------- sessions ---------- *)
Definition dest_ok (d : dest) : Prop :=
  match d with DSlice cap _ => cap <= isize_max | DVector pre => pre <= isize_max end.

Lemma new_accepts c d : cfg_valid c -> dest_ok d ->
  exists st, new c d = inr st /\ inv st /\ s_count st = 0 /\ s_cfg st = c /\ s_blocks st = [].
Proof.
  intros V D. unfold new. rewrite (proj2 (validate_none (c_bs c) (c_align c)) V).
  destruct d as [cap b | pre]; eexists; (split; [reflexivity|]); cbn [dest_ok] in D;
    (split; [constructor; cbn; unfold len_blocks; cbn; try assumption; try lia; constructor | cbn; auto]).
Qed.

Lemma new_rejects c d : ~ cfg_valid c -> exists e, new c d = inl e.
Proof.
  intros V. unfold new. destruct (validate (c_bs c) (c_align c)) eqn:E; [eauto|].
  exfalso. apply V. apply validate_none. assumption.
Qed.

Lemma session_no_panic debug c d ops :
  dest_ok d -> Forall call_ok ops -> cost ops <= u32_max ->
  match session debug c d ops with
  | SRejected _ => ~ cfg_valid c
  | SDone rs fin => cfg_valid c /\ Forall not_panic rs /\ length rs = length ops /\ exists st, fin = Some st
  end.
Proof.
  intros D F B. unfold session.
  destruct (config_ok c) eqn:CO.
  - apply config_ok_iff in CO. destruct (new_accepts c d CO D) as (st0 & N0 & I0 & Z0 & C0 & B0). rewrite N0.
    destruct (run_ok debug ops st0 I0 F ltac:(lia)) as (rs & st' & R & K1 & K2 & K3 & K4 & K5). rewrite R.
    rewrite finish_spec by assumption. split; [assumption|]. split; [assumption|]. split; [assumption|]. eauto.
  - assert (NV : ~ cfg_valid c) by (intros V; apply config_ok_iff in V; congruence).
    destruct (new_rejects c d NV) as (e & E). rewrite E. assumption.
Qed.

(* a refused call leaves the writer as it was *)
Lemma step_reject_keeps d st o e st' : step d st o = (RErr e, st') -> st' = st.
Proof.
  unfold step. destruct (w_all o).
  - destruct (write_all _ _ _ _ _) as [[? ?]| |]; intros E; inversion E; reflexivity.
  - destruct (write _ _ _ _ _); intros E; inversion E; reflexivity.
Qed.

(* which calls are refused (st reachable, fewer than 2^32 - 1 blocks so far) *)
Lemma write_too_long d st o :
  inv st -> call_ok o -> s_count st < u32_max -> len (w_data o) <= isize_max ->
  w_all o = false -> c_bs (s_cfg st) < len (w_data o) -> step d st o = (RErr EOverflow, st).
Proof.
  intros I C B L W H. rewrite step_spec by assumption. unfold step_pure, write_pure. rewrite W.
  destruct (N.eqb_spec (len (w_data o)) 0); [lia|].
  destruct (N.ltb_spec (c_bs (s_cfg st)) (len (w_data o))); [reflexivity | lia].
Qed.

Lemma write_misaligned d st o :
  inv st -> call_ok o -> s_count st < u32_max -> len (w_data o) <= isize_max ->
  w_all o = false -> len (w_data o) mod c_align (s_cfg st) <> 0 -> exists e, step d st o = (RErr e, st).
Proof.
  intros I C B L W H. rewrite step_spec by assumption. unfold step_pure, write_pure. rewrite W.
  destruct (N.eqb_spec (len (w_data o)) 0) as [Z|]; [rewrite Z, N.mod_0_l in H by (destruct I as [(? & ? & ? & ?)]; lia); congruence|].
  destruct (_ <? _); [eauto|].
  destruct (N.eqb_spec (len (w_data o) mod c_align (s_cfg st)) 0); [contradiction|]. cbn [negb]. eauto.
Qed.

Lemma write_all_outside_address_space d st o :
  inv st -> call_ok o -> s_count st < u32_max -> len (w_data o) <= isize_max ->
  w_all o = true -> w_data o <> [] -> u32_max + 1 < w_addr o + pad_to (c_align (s_cfg st)) (len (w_data o)) ->
  step d st o = (RErr EAddress, st).
Proof.
  intros I C B L W NE H. rewrite step_spec by assumption. unfold step_pure, write_all_pure. rewrite W.
  destruct (N.eqb_spec (len (w_data o)) 0) as [Z|].
  { exfalso. apply NE. destruct (w_data o); [reflexivity | discriminate]. }
  destruct (N.ltb_spec (u32_max - w_addr o) (pad_to (c_align (s_cfg st)) (len (w_data o)) - 1)); [reflexivity|].
  unfold call_ok in C. lia.
Qed.

Lemma write_no_room d st o :
  inv st -> call_ok o -> s_count st < u32_max -> len (w_data o) <= isize_max ->
  w_all o = false -> w_data o <> [] -> s_kind st = KSlice -> d_len st - d_pos st < 512 ->
  exists e, step d st o = (RErr e, st).
Proof.
  intros I C B L W NE K H. rewrite step_spec by assumption. unfold step_pure, write_pure, reserve. rewrite W, K.
  destruct (N.eqb_spec (len (w_data o)) 0) as [Z|].
  { exfalso. apply NE. destruct (w_data o); [reflexivity | discriminate]. }
  destruct (_ <? _); [eauto|]. destruct (negb _); [eauto|].
  destruct (N.ltb_spec (d_len st - d_pos st) 512); [eauto | lia].
Qed.

(* ---------- what a reader sees in a stored block (after drop has patched the total) ---------- *)
Lemma parse_blk c bg k a data bl nf T :
  a <= u32_max -> bl <= u32_max -> k <= u32_max -> T <= u32_max -> info_of c <= u32_max -> len data <= 476 ->
  parse_block (patch_total T (blk c bg k a data bl nf)) =
  Some {| rb_flags := flags_of c nf; rb_target := a; rb_psize := bl; rb_no := k; rb_total := T;
          rb_info := info_of c; rb_data := data ++ repeat 0 (N.to_nat (476 - len data)) |}.
Proof.
  intros Ha Hbl Hk HT Hi Hd.
  assert (Hf : flags_of c nf <= u32_max) by (unfold flags_of, u32_max; destruct nf, (c_fam c); vm_compute; discriminate).
  unfold blk, mk_block, patch_total, PADDING_END, le32. cbn [app firstn skipn].
  replace (508 - (32 + len data)) with (476 - len data) by lia.
  set (z := N.to_nat (476 - len data)).
  assert (Lz : (length data + z = 476)%nat) by (unfold len in *; subst z; lia).
  unfold parse_block, rd32. cbn [nth Nat.add skipn].
  rewrite !le32_value by (first [unfold u32_max in *; assumption | vm_compute; discriminate]).
  rewrite app_assoc.
  rewrite !(app_nth2 (data ++ repeat 0 z)) by (rewrite app_length, repeat_length; lia).
  rewrite !app_length, !repeat_length.
  replace (476 - (length data + z))%nat with 0%nat by lia.
  replace (477 - (length data + z))%nat with 1%nat by lia.
  replace (478 - (length data + z))%nat with 2%nat by lia.
  replace (479 - (length data + z))%nat with 3%nat by lia.
  cbn [nth].
  change (_ =? _) with true at 1.
  cbn [andb].
  rewrite firstn_app, firstn_all2 by (rewrite app_length, repeat_length; lia).
  rewrite app_length, repeat_length.
  replace (476 - (length data + z))%nat with 0%nat by lia. cbn [firstn]. rewrite app_nil_r.
  reflexivity.
Qed.

(* ---------- the output is a whole number of 512-byte blocks ---------- *)
Lemma split_blocks_step f l : l <> [] ->
  split_blocks (S f) l = if len l <? 512 then None else option_map (cons (firstn 512 l)) (split_blocks f (skipn 512 l)).
Proof. destruct l; [contradiction | reflexivity]. Qed.

Lemma split_blocks_concat : forall bs fuel,
  Forall (fun b => length b = 512%nat) bs -> (length (concat bs) <= fuel)%nat ->
  split_blocks fuel (concat bs) = Some bs.
Proof.
  induction bs as [|b bs IH]; intros fuel F L.
  - destruct fuel; reflexivity.
  - pose proof (Forall_inv F) as Hb. pose proof (Forall_inv_tail F) as F'. cbn beta in Hb.
    cbn [concat] in *. rewrite app_length in L.
    destruct fuel as [|f]; [lia|].
    rewrite split_blocks_step by (destruct b; [discriminate Hb | discriminate]).
    unfold len. rewrite app_length.
    destruct (N.ltb_spec (N.of_nat (length b + length (concat bs))) 512); [lia|].
    rewrite firstn_app, skipn_app, Hb. rewrite firstn_all2, skipn_all2 by lia.
    replace (512 - 512)%nat with 0%nat by lia. cbn [firstn skipn]. rewrite app_nil_r. cbn [app].
    rewrite IH by (try assumption; lia). reflexivity.
Qed.

Lemma patch_total_length T b : length b = 512%nat -> length (patch_total T b) = 512%nat.
Proof.
  intros H. unfold patch_total. rewrite !app_length, firstn_length, skipn_length, le32_length. lia.
Qed.

Lemma concat_length_512 (l : list (list N)) :
  Forall (fun b => length b = 512%nat) l -> N.of_nat (length (concat l)) = 512 * N.of_nat (length l).
Proof.
  induction l as [|b l IHl]; intros Fl; [reflexivity|].
  cbn [concat length]. rewrite app_length.
  pose proof (Forall_inv Fl) as Hb. cbn beta in Hb. specialize (IHl (Forall_inv_tail Fl)). lia.
Qed.

Lemma session_whole_blocks debug c d ops :
  dest_ok d -> Forall call_ok ops -> cost ops <= u32_max ->
  forall rs st, session debug c d ops = SDone rs (Some st) ->
  split_blocks (length (concat (s_blocks st))) (concat (s_blocks st)) = Some (s_blocks st)
  /\ len (concat (s_blocks st)) = 512 * s_count st
  /\ s_count st <= u32_max.
Proof.
  intros D F B rs st. unfold session.
  destruct (config_ok c) eqn:CO.
  - apply config_ok_iff in CO. destruct (new_accepts c d CO D) as (st0 & N0 & I0 & Z0 & C0 & B0). rewrite N0.
    destruct (run_ok debug ops st0 I0 F ltac:(lia)) as (rs' & st' & R & K1 & K2 & K3 & K4 & K5). rewrite R.
    rewrite finish_spec by assumption. intros E; inversion E; subst rs st. clear E.
    cbn [with_blocks s_blocks s_count].
    destruct K1 as [V P L Cn Bl Sz].
    assert (Sz' : Forall (fun b => length b = 512%nat) (map (patch_total (s_count st')) (s_blocks st'))).
    { apply Forall_map. eapply Forall_impl; [|exact Sz]. intros b Hb. apply patch_total_length. exact Hb. }
    split; [apply split_blocks_concat; [assumption | lia]|]. split; [|assumption].
    unfold len. rewrite (concat_length_512 _ Sz'), map_length, Cn. reflexivity.
  - assert (NV : ~ cfg_valid c) by (intros V; apply config_ok_iff in V; congruence).
    destruct (new_rejects c d NV) as (e & E). rewrite E. discriminate.
Qed.
