(* Little-endian 32-bit field: the four bytes le32 stores, read back as rd32 does, give the value. *)
From Coq Require Import ZArith NArith Lia ZifyN.
Open Scope N_scope.

Lemma le32_value x : x <= 4294967295 ->
  N.land x 255 + 256 * N.land (N.shiftr x 8) 255 + 65536 * N.land (N.shiftr x 16) 255
  + 16777216 * N.land (N.shiftr x 24) 255 = x.
Proof.
  intros H.
  change 255 with (N.ones 8). rewrite !N.land_ones, !N.shiftr_div_pow2.
  change (2 ^ 8) with 256. change (2 ^ 16) with 65536. change (2 ^ 24) with 16777216.
  Ltac Zify.zify_post_hook ::= Z.div_mod_to_equations.
  lia.
Qed.
Ltac Zify.zify_post_hook ::= idtac.
