(* The table-driven update equals the bit-serial register for every 32-bit state and every byte. *)
From Coq Require Import NArith Arith List Lia Bool.
From Trion Require Import Base.Sweep Uf2.CrcModel Uf2.CrcSpec.
Import ListNotations.
Open Scope N_scope.

Local Arguments N.mul : simpl never.
Local Arguments N.pow : simpl never.
Local Arguments N.modulo : simpl never.

Lemma mod32_land x : x mod 2^32 = N.land x (N.ones 32).
Proof. symmetry. apply N.land_ones. Qed.

Lemma double_shiftl x : 2 * x = N.shiftl x 1.
Proof. rewrite N.shiftl_mul_pow2. change (2^1) with 2. lia. Qed.

Definition fb (b : bool) : N := if b then spec_poly else 0.

Lemma shift1_alt s : shift1 s = N.lxor (N.land (N.shiftl s 1) (N.ones 32)) (fb (N.testbit s 31)).
Proof.
  unfold shift1, fb. cbv zeta. rewrite mod32_land, double_shiftl.
  destruct (N.testbit s 31); [reflexivity | now rewrite N.lxor_0_r].
Qed.

Lemma fb_xorb a b : fb (xorb a b) = N.lxor (fb a) (fb b).
Proof. destruct a, b; reflexivity. Qed.

Lemma land_lxor_distr_l a b c : N.land (N.lxor a b) c = N.lxor (N.land a c) (N.land b c).
Proof.
  apply N.bits_inj. intros n. rewrite !N.land_spec, !N.lxor_spec, !N.land_spec.
  destruct (N.testbit a n), (N.testbit b n), (N.testbit c n); reflexivity.
Qed.

Lemma shift1_lxor x y : shift1 (N.lxor x y) = N.lxor (shift1 x) (shift1 y).
Proof.
  rewrite !shift1_alt, N.lxor_spec, fb_xorb.
  rewrite N.shiftl_lxor, land_lxor_distr_l.
  rewrite !N.lxor_assoc. f_equal.
  rewrite <- !N.lxor_assoc. f_equal. apply N.lxor_comm.
Qed.

Lemma shift8_lxor x y : shift8 (N.lxor x y) = N.lxor (shift8 x) (shift8 y).
Proof. unfold shift8. now rewrite !shift1_lxor. Qed.

Lemma testbit31_small x : x < 2^31 -> N.testbit x 31 = false.
Proof.
  intros H. destruct (N.eq_dec x 0) as [->|Hn]; [reflexivity|].
  apply N.bits_above_log2. apply N.log2_lt_pow2; lia.
Qed.

Lemma shift1_small x : x < 2^31 -> shift1 x = 2 * x.
Proof.
  intros H. unfold shift1. cbv zeta. rewrite (testbit31_small x H).
  apply N.mod_small. change (2^32) with (2 * 2^31). lia.
Qed.

Lemma shift8_small x : x < 2^24 -> shift8 x = 2^8 * x.
Proof.
  intros H. unfold shift8.
  assert (P : forall k y, y < 2^k -> k < 31 -> 2 * y < 2 ^ (k + 1)).
  { intros k y Hy _. rewrite N.pow_add_r. change (2^1) with 2. lia. }
  rewrite (shift1_small x) by (change (2^31) with (2^7 * 2^24); lia).
  rewrite (shift1_small (2*x)) by (change (2^31) with (2^7 * 2^24); change (2^7) with 128; lia).
  rewrite (shift1_small (2*(2*x))) by (change (2^31) with (2^7 * 2^24); change (2^7) with 128; lia).
  rewrite (shift1_small (2*(2*(2*x)))) by (change (2^31) with (2^7 * 2^24); change (2^7) with 128; lia).
  rewrite (shift1_small (2*(2*(2*(2*x))))) by (change (2^31) with (2^7 * 2^24); change (2^7) with 128; lia).
  rewrite (shift1_small (2*(2*(2*(2*(2*x)))))) by (change (2^31) with (2^7 * 2^24); change (2^7) with 128; lia).
  rewrite (shift1_small (2*(2*(2*(2*(2*(2*x))))))) by (change (2^31) with (2^7 * 2^24); change (2^7) with 128; lia).
  rewrite (shift1_small (2*(2*(2*(2*(2*(2*(2*x)))))))) by (change (2^31) with (2^7 * 2^24); change (2^7) with 128; lia).
  change (2^8) with 256. lia.
Qed.

(* all 256 table entries, by computation in the kernel *)
Lemma table_ok_all :
  forallb (fun h => N.eqb (nth (N.to_nat h) table 0) (shift8 (h * 2^24))) (N_below 256) = true.
Proof. vm_compute. reflexivity. Qed.

Lemma table_ok h : h < 256 -> nth (N.to_nat h) table 0 = shift8 (h * 2^24).
Proof.
  intros H. apply N.eqb_eq.
  exact (forall_below _ 256 table_ok_all h H).
Qed.

Lemma table_length : length table = 256%nat.
Proof. vm_compute. reflexivity. Qed.

(* s = hi * 2^24 + lo, the two parts occupying disjoint bits *)
Lemma split24 s : s = N.lxor (N.shiftl (N.shiftr s 24) 24) (N.land s (N.ones 24)).
Proof.
  apply N.bits_inj. intros n. rewrite N.lxor_spec, N.land_spec.
  destruct (N.lt_ge_cases n 24) as [Hlt|Hge].
  - rewrite N.shiftl_spec_low by assumption. rewrite N.ones_spec_low by assumption.
    now rewrite andb_true_r, xorb_false_l.
  - rewrite N.shiftl_spec_high' by assumption. rewrite N.shiftr_spec'.
    rewrite N.ones_spec_high by assumption. rewrite andb_false_r, xorb_false_r.
    f_equal. lia.
Qed.

Lemma shiftl24_lxor a b : N.lxor (N.shiftl a 24) (b * 2^24) = (N.lxor a b) * 2^24.
Proof. rewrite <- !N.shiftl_mul_pow2. now rewrite N.shiftl_lxor. Qed.

Lemma u32_shiftl8 s : s < 2^32 -> u32 (N.shiftl s 8) = 2^8 * N.land s (N.ones 24).
Proof.
  intros H. unfold u32, mask32. change 0xFFFFFFFF with (N.ones 32).
  rewrite N.mul_comm, <- N.shiftl_mul_pow2.
  apply N.bits_inj. intros n. rewrite N.land_spec.
  destruct (N.lt_ge_cases n 8) as [H8|H8].
  - rewrite !N.shiftl_spec_low by assumption. reflexivity.
  - rewrite !N.shiftl_spec_high' by assumption. rewrite N.land_spec.
    destruct (N.lt_ge_cases n 32) as [H32|H32].
    + rewrite N.ones_spec_low by assumption. rewrite N.ones_spec_low by lia.
      now rewrite !andb_true_r.
    + rewrite N.ones_spec_high by assumption. rewrite N.ones_spec_high by lia.
      now rewrite !andb_false_r.
Qed.

Lemma land_ones24_lt s : N.land s (N.ones 24) < 2^24.
Proof. rewrite N.land_ones. apply N.mod_lt. discriminate. Qed.

Lemma shiftr24_lt s : s < 2^32 -> N.shiftr s 24 < 256.
Proof.
  intros H. rewrite N.shiftr_div_pow2. apply N.div_lt_upper_bound; [discriminate|].
  change (2^24 * 256) with (2^32). exact H.
Qed.

Lemma lxor_lt_256 a b : a < 256 -> b < 256 -> N.lxor a b < 256.
Proof.
  intros Ha Hb.
  destruct (N.eq_dec (N.lxor a b) 0) as [->|Hn]; [reflexivity|].
  change 256 with (2^8). apply N.log2_lt_pow2; [lia|].
  eapply N.le_lt_trans; [apply N.log2_lxor|].
  apply N.max_lub_lt.
  - destruct (N.eq_dec a 0) as [->|Ha0]; [reflexivity|]. apply N.log2_lt_pow2; [lia|exact Ha].
  - destruct (N.eq_dec b 0) as [->|Hb0]; [reflexivity|]. apply N.log2_lt_pow2; [lia|exact Hb].
Qed.

Theorem update_is_bitserial s b : s < 2^32 -> b < 256 -> crc_update s b = spec_byte s b.
Proof.
  intros Hs Hb. unfold crc_update, spec_byte.
  assert (Hhi : N.shiftr s 24 < 256) by (apply shiftr24_lt; exact Hs).
  replace (N.land (N.shiftr s 24) 255) with (N.shiftr s 24).
  2:{ change 255 with (N.ones 8). rewrite N.land_ones. symmetry. apply N.mod_small. exact Hhi. }
  rewrite table_ok by (apply lxor_lt_256; assumption).
  set (hi := N.shiftr s 24) in *. set (lo := N.land s (N.ones 24)).
  replace (N.lxor s (b * 2^24)) with (N.lxor ((N.lxor b hi) * 2^24) lo).
  2:{ rewrite (split24 s). fold hi lo. rewrite <- shiftl24_lxor.
      rewrite <- !N.shiftl_mul_pow2.
      rewrite (N.lxor_comm (N.shiftl b 24)), !N.lxor_assoc. f_equal. apply N.lxor_comm. }
  rewrite shift8_lxor.
  rewrite (shift8_small lo) by apply land_ones24_lt.
  rewrite u32_shiftl8 by exact Hs. fold lo.
  apply N.lxor_comm.
Qed.

Lemma u32_lt x : u32 x < 2^32.
Proof. unfold u32, mask32. change 0xFFFFFFFF with (N.ones 32). rewrite N.land_ones. apply N.mod_lt. discriminate. Qed.

Lemma table_entries_lt : forallb (fun x => N.ltb x (2^32)) table = true.
Proof. vm_compute. reflexivity. Qed.

Lemma lxor_lt_32 a b : a < 2^32 -> b < 2^32 -> N.lxor a b < 2^32.
Proof.
  intros Ha Hb.
  destruct (N.eq_dec (N.lxor a b) 0) as [->|Hn]; [reflexivity|].
  apply N.log2_lt_pow2; [lia|].
  eapply N.le_lt_trans; [apply N.log2_lxor|].
  apply N.max_lub_lt.
  - destruct (N.eq_dec a 0) as [->|Ha0]; [reflexivity|]. apply N.log2_lt_pow2; [lia|exact Ha].
  - destruct (N.eq_dec b 0) as [->|Hb0]; [reflexivity|]. apply N.log2_lt_pow2; [lia|exact Hb].
Qed.

Lemma crc_update_lt s b : crc_update s b < 2^32.
Proof.
  unfold crc_update. apply lxor_lt_32; [apply u32_lt|].
  set (i := N.to_nat _).
  destruct (Nat.lt_ge_cases i 256) as [Hi|Hi].
  - assert (In (nth i table 0) table) by (apply nth_In; rewrite table_length; exact Hi).
    apply N.ltb_lt. exact (proj1 (forallb_forall _ _) table_entries_lt _ H).
  - rewrite nth_overflow by (rewrite table_length; exact Hi). reflexivity.
Qed.

Theorem crc_is_bitserial_from s bs :
  s < 2^32 -> Forall (fun b => b < 256) bs -> crc_update_slice s bs = spec_crc_from s bs.
Proof.
  unfold crc_update_slice, spec_crc_from. revert s.
  induction bs as [|b bs IH]; intros s Hs Hbs; [reflexivity|].
  inversion Hbs as [|b' bs' Hb Hrest]; subst. cbn [fold_left].
  rewrite <- (update_is_bitserial s b Hs Hb).
  apply IH; [apply crc_update_lt | exact Hrest].
Qed.

Theorem crc_is_bitserial bs : Forall (fun b => b < 256) bs -> crc_of bs = spec_crc bs.
Proof. intros H. apply crc_is_bitserial_from; [reflexivity | exact H]. Qed.

(* feeding in pieces = feeding whole, for every split (no hypothesis needed) *)
Theorem crc_chunks s a b : crc_update_slice s (a ++ b) = crc_update_slice (crc_update_slice s a) b.
Proof. unfold crc_update_slice. apply fold_left_app. Qed.

Theorem crc_chunks_list s (chunks : list (list N)) :
  crc_update_slice s (concat chunks) = fold_left crc_update_slice chunks s.
Proof.
  revert s. induction chunks as [|c cs IH]; intros s; [reflexivity|].
  cbn [concat fold_left]. rewrite crc_chunks. apply IH.
Qed.

Example check_value :
  crc_of [0x31;0x32;0x33;0x34;0x35;0x36;0x37;0x38;0x39] = 0x0376E6E7.
Proof. vm_compute. reflexivity. Qed.

Example spec_check_value :
  spec_crc [0x31;0x32;0x33;0x34;0x35;0x36;0x37;0x38;0x39] = 0x0376E6E7.
Proof. vm_compute. reflexivity. Qed.
