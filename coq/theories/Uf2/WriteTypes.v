(* Input vocabulary shared by the UF2 writer model (WriteModel.v) and the UF2 reader spec (ReaderSpec.v):
   a writer configuration and one call of the writer.  Bytes are N (< 256). *)
From Coq Require Import NArith List.
Import ListNotations.
Open Scope N_scope.

(* Uf2Write::new / new_vec (family_id, block_size, align) *)
Record config := { c_fam : option N; c_bs : N; c_align : N }.

(* one call: write(addr, data, no_flash) (w_all = false) or write_all(addr, data, no_flash) (w_all = true) *)
Record wcall := { w_all : bool; w_addr : N; w_nf : bool; w_data : list N }.

Definition len (l : list N) : N := N.of_nat (length l).
