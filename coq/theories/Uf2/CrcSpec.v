(* CRC-32/MPEG-2 as the bit-serial shift register: polynomial 0x04C11DB7, init 0xFFFFFFFF,
   MSB first, no reflection, no final XOR.  Written independently of the table code. *)
From Coq Require Import NArith List.
Import ListNotations.
Open Scope N_scope.

Definition spec_poly : N := 0x04C11DB7.

(* one clock of the register: shift left by one inside 32 bits, feed back the polynomial when the
   bit shifted out was set *)
Definition shift1 (s : N) : N :=
  let s' := (2 * s) mod 2^32 in
  if N.testbit s 31 then N.lxor s' spec_poly else s'.

Definition shift8 (s : N) : N := shift1 (shift1 (shift1 (shift1 (shift1 (shift1 (shift1 (shift1 s))))))).

(* a byte enters at the top of the register *)
Definition spec_byte (s b : N) : N := shift8 (N.lxor s (b * 2^24)).

Definition spec_crc_from (s : N) (bs : list N) : N := fold_left spec_byte bs s.
Definition spec_crc (bs : list N) : N := spec_crc_from 0xFFFFFFFF bs.
