(* Model of src/uf2/crc.rs: table built by doubling, byte-wise table update. No proofs here. *)
From Coq Require Import NArith List.
Import ListNotations.
Open Scope N_scope.

Definition mask32 : N := 0xFFFFFFFF.
Definition u32 (x : N) : N := N.land x mask32.
Definition poly : N := 0x04C11DB7.

(* `prev << 1 ^ if ((prev >> 31) & 1) != 0 {POLY} else {0}` on u32 *)
Definition table_next (prev : N) : N :=
  N.lxor (u32 (N.shiftl prev 1))
         (if N.eqb (N.land (N.shiftr prev 31) 1) 0 then 0 else poly).

(* while pos < 256 { prev = table[pos >> 1]; table[pos] = curr; table[pos+1] = curr ^ POLY; pos += 2 }
   The table is filled strictly left to right, so it is modelled as a growing list:
   after k iterations it holds entries 0 .. 2k+1. *)
Fixpoint table_fill (iters : nat) (pos : N) (t : list N) : list N :=
  match iters with
  | O => t
  | S k =>
      let prev := nth (N.to_nat (N.shiftr pos 1)) t 0 in
      let curr := table_next prev in
      table_fill k (pos + 2) (t ++ [curr; N.lxor curr poly])
  end.

Definition table : list N := table_fill 127 2 [0; poly].

Definition crc_new : N := 0xFFFFFFFF.

(* self.0 = (self.0 << 8) ^ TABLE[(value ^ (self.0 >> 24) as u8) as usize] *)
Definition crc_update (s b : N) : N :=
  N.lxor (u32 (N.shiftl s 8))
         (nth (N.to_nat (N.lxor b (N.land (N.shiftr s 24) 0xFF))) table 0).

Definition crc_update_slice (s : N) (bs : list N) : N := fold_left crc_update bs s.

Definition crc_of (bs : list N) : N := crc_update_slice crc_new bs.
