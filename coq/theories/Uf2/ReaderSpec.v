(* C16 oracle: an independent reader of the UF2 container (https://github.com/microsoft/uf2) and the clauses of
   the property as executable predicates.  Written without reference to the writer's code.

   A UF2 file is a sequence of 512-byte blocks.  Little-endian 32-bit fields:
     0 magic 0x0A324655 | 4 magic 0x9E5D5157 | 8 flags | 12 target address | 16 payload size | 20 block number
     24 number of blocks | 28 family id (when flag 0x2000 is set) or file size | 32.. data (476 bytes) | 508 magic 0x0AB16F30
   A loader copies `payload size` bytes of the data area to `target address`. *)
From Coq Require Import NArith List Bool.
From Trion Require Import Uf2.WriteTypes.
Import ListNotations.
Open Scope N_scope.

Definition rd32 (b : list N) (off : nat) : N :=
  nth off b 0 + 256 * nth (off + 1) b 0 + 65536 * nth (off + 2) b 0 + 16777216 * nth (off + 3) b 0.

(* cut into 512-byte blocks; None when the length is not a multiple of 512 *)
Fixpoint split_blocks (fuel : nat) (l : list N) : option (list (list N)) :=
  match l with
  | [] => Some []
  | _ => match fuel with
         | O => None
         | S f => if len l <? 512 then None
                  else option_map (cons (firstn 512 l)) (split_blocks f (skipn 512 l))
         end
  end.

Record rblock := { rb_flags : N; rb_target : N; rb_psize : N; rb_no : N; rb_total : N; rb_info : N; rb_data : list N }.

Definition parse_block (b : list N) : option rblock :=
  if (rd32 b 0 =? 0x0A324655) && (rd32 b 4 =? 0x9E5D5157) && (rd32 b 508 =? 0x0AB16F30)
  then Some {| rb_flags := rd32 b 8; rb_target := rd32 b 12; rb_psize := rd32 b 16; rb_no := rd32 b 20;
               rb_total := rd32 b 24; rb_info := rd32 b 28; rb_data := firstn 476 (skipn 32 b) |}
  else None.

Fixpoint parse_all (bs : list (list N)) : option (list rblock) :=
  match bs with
  | [] => Some []
  | b :: t => match parse_block b, parse_all t with
              | Some r, Some rs => Some (r :: rs)
              | _, _ => None
              end
  end.

(* the reader: None = not a whole number of blocks, or a block without the three magic numbers *)
Definition read_uf2 (out : list N) : option (list rblock) :=
  match split_blocks (length out) out with
  | Some bs => parse_all bs
  | None => None
  end.

(* ---- clause 1: every block is well formed for the configuration ---- *)
Definition block_ok (c : config) (total k : N) (r : rblock) : bool :=
  (rb_no r =? k) && (rb_total r =? total)
  && Bool.eqb (N.testbit (rb_flags r) 13) (match c_fam c with Some _ => true | None => false end)   (* 0x2000 *)
  && (rb_info r =? match c_fam c with Some f => f | None => 0 end)
  && (N.land (rb_flags r) 0xFFFFDFFE =? 0)                         (* no flag other than family-id / not-main-flash *)
  && (1 <=? rb_psize r) && (rb_psize r <=? c_bs c) && (rb_psize r <=? 476)
  && (rb_psize r mod c_align c =? 0).

Fixpoint all_from (k : N) (f : N -> rblock -> bool) (l : list rblock) : bool :=
  match l with [] => true | r :: t => f k r && all_from (k + 1) f t end.

Definition blocks_wellformed (c : config) (out : list N) : bool :=
  match read_uf2 out with
  | None => false
  | Some rs => all_from 0 (block_ok c (N.of_nat (length rs))) rs
  end.

(* ---- clause 2: what a loader stores, in file order: (address, byte, not-main-flash flag) ---- *)
Definition item := (N * N * bool)%type.

Definition block_items (r : rblock) : list item :=
  map (fun j => (rb_target r + N.of_nat j, nth j (rb_data r) 0, N.testbit (rb_flags r) 0))
      (seq 0 (N.to_nat (rb_psize r))).

Definition read_items (out : list N) : option (list item) :=
  option_map (flat_map block_items) (read_uf2 out).

(* the image a loader ends up with: the last store to an address wins *)
Fixpoint image (its : list item) (a : N) : option N :=
  match its with
  | [] => None
  | (a', b, _) :: t => match image t a with Some v => Some v | None => if a' =? a then Some b else None end
  end.

(* what the accepted calls ask for: the data at its address, then zeros up to the next multiple of the
   alignment (write_all) or up to the payload size (write); consecutive addresses, each exactly once;
   a call with no data stores nothing *)
Fixpoint zip_from (a : N) (nf : bool) (bytes : list N) : list item :=
  match bytes with [] => [] | b :: t => (a, b, nf) :: zip_from (a + 1) nf t end.

Definition pad_to (align n : N) : N := n + (align - n mod align) mod align.

Definition expected_call (c : config) (w : wcall) : list item :=
  match w_data w with
  | [] => []
  | _ => let padded := if w_all w then pad_to (c_align c) (len (w_data w)) else c_bs c in
         zip_from (w_addr w) (w_nf w) (w_data w ++ repeat 0 (N.to_nat (padded - len (w_data w))))
  end.

Definition expected_items (c : config) (accepted : list wcall) : list item := flat_map (expected_call c) accepted.

Definition item_eqb (x y : item) : bool :=
  let '(a, b, f) := x in let '(a', b', f') := y in (a =? a') && (b =? b') && Bool.eqb f f'.
Fixpoint items_eqb (x y : list item) : bool :=
  match x, y with
  | [], [] => true
  | i :: x', j :: y' => item_eqb i j && items_eqb x' y'
  | _, _ => false
  end.

Definition reconstructs (c : config) (accepted : list wcall) (out : list N) : bool :=
  match read_items out with
  | None => false
  | Some its => items_eqb its (expected_items c accepted)
  end.

(* ---- clause 3: which configurations and single-block writes must be refused ---- *)
Definition config_ok (c : config) : bool :=
  (1 <=? c_bs c) && (c_bs c <=? 476) && (1 <=? c_align c) && (c_bs c mod c_align c =? 0).

(* number of blocks an accepted call contributes *)
Definition blocks_of_call (c : config) (w : wcall) : N :=
  match w_data w with
  | [] => 0
  | _ => if w_all w then (pad_to (c_align c) (len (w_data w)) + c_bs c - 1) / c_bs c else 1
  end.
