(* Model of src/text/parse/mod.rs (Parser) and src/text/operator.rs over an ABSTRACT TOKEN SOURCE.
   Follows the repaired code (fix db486b6: Parser::next drains the tokenizer after an error).  No proofs here.

   The abstract token source.  `Tokenizer::next_token` depends only on the tokenizer's own data/line/col, never on
   when the parser pulls, so a tokenizer is modelled by what it will still produce:
     pending   the items `next_token` will return, in order (any finite list here; the real tokenizer produces
               tokens followed by at most one error, because every error path empties its input)
     queue     `Tokenizer.tokens`   (lexed by `peek`, not yet consumed)
     err_slot  `Tokenizer.token_err` (an error lexed by `peek`, not yet consumed)
     eof_line, eof_col   what `get_line()` / `get_column()` return.
   Assumption A1 (checked on every correspondence case by the harness, marker DRIFT): the parser calls get_line /
   get_column only after `next()`/`peek()` returned None or Some(Err) (Parser::eof, and the `_ =>` arms that compute
   `expr_start`); in both situations the real tokenizer has stopped (its data is empty), so its line/col have their
   final values = the values after collecting the tokenizer to the end. *)
From Coq Require Import ZArith NArith List Bool.
From Trion Require Import Text.Types.
Import ListNotations.

Definition tok_item := (token + token_error)%type.

Record src := mkSrc {
  pending : list tok_item;
  queue : list token;
  err_slot : option token_error;
  eof_line : N;
  eof_col : N }.

Definition src_of (items : list tok_item) (l c : N) : src := mkSrc items [] None l c.

Definition set_pending (s : src) (p : list tok_item) : src := mkSrc p (queue s) (err_slot s) (eof_line s) (eof_col s).
Definition set_queue (s : src) (q : list token) : src := mkSrc (pending s) q (err_slot s) (eof_line s) (eof_col s).
Definition set_err (s : src) (e : option token_error) : src := mkSrc (pending s) (queue s) e (eof_line s) (eof_col s).

(* Tokenizer::peek *)
Definition src_peek (s : src) : option tok_item * src :=
  match queue s with
  | t :: _ => (Some (inl t), s)
  | [] =>
    match err_slot s with
    | Some e => (Some (inr e), s)
    | None =>
      match pending s with                                   (* self.next_token() *)
      | [] => (None, s)
      | inl t :: p => (Some (inl t), set_queue (set_pending s p) (queue s ++ [t]))
      | inr e :: p => (Some (inr e), set_err (set_pending s p) (Some e))
      end
    end
  end.

(* Iterator::next for Tokenizer *)
Definition src_next (s : src) : option tok_item * src :=
  match queue s with
  | t :: q => (Some (inl t), set_queue s q)                  (* pop_front *)
  | [] =>
    match err_slot s with
    | Some e => (Some (inr e), set_err s None)               (* token_err.take() *)
    | None =>
      match pending s with
      | [] => (None, s)
      | x :: p => (Some x, set_pending s p)
      end
    end
  end.

(* Tokenizer::clear: data = "", utf_err = false.  Queue and error slot are NOT touched. *)
Definition src_clear (s : src) : src := set_pending s [].

(* get_line(), get_column() -- see A1 *)
Definition src_pos (s : src) : N * N := (eof_line s, eof_col s).

(* ---------------------------------------------------------------------------------------------- *)
(* operator.rs *)

Definition group_rank (g : binop_group) : nat :=     (* derive(Ord): declaration order *)
  match g with GBitOr => 0 | GBitXor => 1 | GBitAnd => 2 | GShift => 3 | GAddSub => 4 | GDivMul => 5 end.

Definition group_cmp (a b : binop_group) : comparison := Nat.compare (group_rank a) (group_rank b).

Definition group_higher (g : binop_group) : option binop_group :=
  match g with
  | GBitOr => Some GBitXor | GBitXor => Some GBitAnd | GBitAnd => Some GShift
  | GShift => Some GAddSub | GAddSub => Some GDivMul | GDivMul => None
  end.

Definition group_of (op : binop) : binop_group :=
  match op with
  | OpMultiply | OpDivide | OpModulo => GDivMul
  | OpAdd | OpSubtract => GAddSub
  | OpLeftShift | OpRightShift => GShift
  | OpBitAnd => GBitAnd
  | OpBitXor => GBitXor
  | OpBitOr => GBitOr
  end.

Definition binop_decode (v : token_value) : option binop :=
  match v with
  | TPlus => Some OpAdd | TMinus => Some OpSubtract | TMultiply => Some OpMultiply | TDivide => Some OpDivide
  | TModulo => Some OpModulo | TBitAnd => Some OpBitAnd | TBitOr => Some OpBitOr | TBitXor => Some OpBitXor
  | TLeftShift => Some OpLeftShift | TRightShift => Some OpRightShift
  | _ => None
  end.

Definition mk_bin (op : binop) (l r : arg) : arg :=
  match op with
  | OpAdd => AAdd l r | OpSubtract => ASub l r | OpMultiply => AMul l r | OpDivide => ADiv l r | OpModulo => AMod l r
  | OpBitAnd => AAnd l r | OpBitOr => AOr l r | OpBitXor => AXor l r | OpLeftShift => AShl l r | OpRightShift => AShr l r
  end.

(* ---------------------------------------------------------------------------------------------- *)
(* results *)

Inductive perr_kind := PKToken (e : token_error) | PKExpected.
Record perr := mkPerr { pe_line : N; pe_col : N; pe_kind : perr_kind }.

(* Result<A, ParseError>, plus the two model-level outcomes *)
Inductive outcome (A : Type) := Ok (a : A) | Err (e : perr) | Panic | OutOfFuel.
Arguments Ok {A} a. Arguments Err {A} e. Arguments Panic {A}. Arguments OutOfFuel {A}.

Definition bind {A B : Type} (x : outcome A * src) (k : A -> src -> outcome B * src) : outcome B * src :=
  match x with
  | (Ok a, s) => k a s
  | (Err e, s) => (Err e, s)
  | (Panic, s) => (Panic, s)
  | (OutOfFuel, s) => (OutOfFuel, s)
  end.

(* Parser::expect / Parser::eof / From<TokenError> *)
Definition expect_err (have : token) : perr := mkPerr (t_line have) (t_col have) PKExpected.
Definition eof_err (s : src) : perr := mkPerr (fst (src_pos s)) (snd (src_pos s)) PKExpected.
Definition tokerr_err (e : token_error) : perr := mkPerr (te_line e) (te_col e) (PKToken e).

(* self.0.next().unwrap().unwrap_err() *)
Definition next_unwrap_err (s : src) : outcome token_error * src :=
  match src_next s with
  | (Some (inr e), s') => (Ok e, s')
  | (_, s') => (Panic, s')
  end.

(* Parser::next_inner *)
Definition next_inner (s : src) : outcome token * src :=
  match src_next s with
  | (Some (inl t), s') => (Ok t, s')
  | (Some (inr e), s') => (Err (tokerr_err e), s')
  | (None, s') => (Err (eof_err s'), s')
  end.

Definition is_args_end (v : token_value) : bool :=
  match v with TTerminator | TEndGroup | TEndAddr | TEndSeq => true | _ => false end.

Definition is_op_stop (v : token_value) : bool :=
  match v with TSeparator | TTerminator | TEndGroup | TEndAddr | TEndSeq => true | _ => false end.

(* `match self.0.peek() { Some(Ok(t)) => t.convert(()), _ => Positioned{line: get_line(), col: get_column()} }` *)
Definition expr_start (s : src) : (N * N) * src :=
  match src_peek s with
  | (Some (inl t), s') => ((t_line t, t_col t), s')
  | (_, s') => (src_pos s', s')
  end.

(* next_inner(expect)? followed by `if !matches!(end.value, <closer>) { return Err(expect(..)) }` *)
Definition expect_close (closer : token_value -> bool) (s : src) : outcome unit * src :=
  bind (next_inner s) (fun e s' => if closer (t_val e) then (Ok tt, s') else (Err (expect_err e), s')).

Definition is_end_group v := match v with TEndGroup => true | _ => false end.
Definition is_end_addr v := match v with TEndAddr => true | _ => false end.
Definition is_end_seq v := match v with TEndSeq => true | _ => false end.

(* parse_unary, parse_binary (with its `loop`), parse_args (with its `loop`): one mutual recursion on fuel *)
Fixpoint parse_unary (fuel : nat) (s : src) {struct fuel} : outcome arg * src :=
  match fuel with
  | O => (OutOfFuel, s)
  | S f =>
    bind (next_inner s) (fun token s1 =>
    match t_val token with
    | TMinus => bind (parse_unary f s1) (fun a s2 => (Ok (ANeg a), s2))
    | TNot => bind (parse_unary f s1) (fun a s2 => (Ok (ANot a), s2))
    | TNumber v => (Ok (AConst v), s1)
    | TIdentifier ident =>
      match src_peek s1 with                       (* self.0.peek().and_then(Result::ok) *)
      | (Some (inl t), s2) =>
        match t_val t with
        | TBeginGroup =>
          let s3 := snd (src_next s2) in            (* drop(self.0.next()) *)
          bind (parse_args f s3) (fun args s4 =>
          bind (expect_close is_end_group s4) (fun _ s5 => (Ok (AFun ident args), s5)))
        | _ => (Ok (AIdent ident), s2)
        end
      | (_, s2) => (Ok (AIdent ident), s2)
      end
    | TString v => (Ok (AStr v), s1)
    | TBeginGroup =>
      let (es, s2) := expr_start s1 in
      bind (parse_binary f GBitOr es s2) (fun inner s3 =>
      bind (expect_close is_end_group s3) (fun _ s4 => (Ok inner, s4)))
    | TBeginAddr =>
      let (es, s2) := expr_start s1 in
      bind (parse_binary f GBitOr es s2) (fun inner s3 =>
      bind (expect_close is_end_addr s3) (fun _ s4 => (Ok (AAddr inner), s4)))
    | TBeginSeq =>
      bind (parse_args f s1) (fun args s2 =>
      bind (expect_close is_end_seq s2) (fun _ s3 => (Ok (ASeq args), s3)))
    | _ => (Err (expect_err token), s1)
    end)
  end

with parse_binary (fuel : nat) (g : binop_group) (es : N * N) (s : src) {struct fuel} : outcome arg * src :=
  match fuel with
  | O => (OutOfFuel, s)
  | S f =>
    bind (match group_higher g with
          | None => parse_unary f s
          | Some part => parse_binary f part es s
          end) (fun lhs s1 => binary_loop f g es lhs s1)
  end

with binary_loop (fuel : nat) (g : binop_group) (es : N * N) (lhs : arg) (s : src) {struct fuel} : outcome arg * src :=
  match fuel with
  | O => (OutOfFuel, s)
  | S f =>
    match src_peek s with
    | (None, s1) => (Ok lhs, s1)                                    (* break *)
    | (Some (inl op_token), s1) =>
      if is_op_stop (t_val op_token) then (Ok lhs, s1)              (* break *)
      else
        match binop_decode (t_val op_token) with
        | Some op =>
          match group_cmp (group_of op) g with
          | Lt => (Ok lhs, s1)                                      (* an outer call handles it: break *)
          | Gt => (Panic, s1)                                       (* panic!("encountered operator ... in group ...") *)
          | Eq =>
            let s2 := snd (src_next s1) in
            bind (match group_higher g with
                  | None => parse_unary f s2
                  | Some part => parse_binary f part es s2
                  end) (fun rhs s3 => binary_loop f g es (mk_bin op lhs rhs) s3)
          end
        | None => (Err (expect_err op_token), s1)
        end
    | (Some (inr _), s1) =>
      bind (next_unwrap_err s1) (fun e s2 => (Err (mkPerr (fst es) (snd es) (PKToken e)), s2))
    end
  end

with parse_args (fuel : nat) (s : src) {struct fuel} : outcome (list arg) * src :=
  match fuel with
  | O => (OutOfFuel, s)
  | S f =>
    match src_peek s with
    | (None, s1) => (Ok [], s1)
    | (Some (inl t), s1) => if is_args_end (t_val t) then (Ok [], s1) else args_loop f [] s1
    | (Some (inr _), s1) => bind (next_unwrap_err s1) (fun e s2 => (Err (tokerr_err e), s2))
    end
  end

with args_loop (fuel : nat) (args : list arg) (s : src) {struct fuel} : outcome (list arg) * src :=
  match fuel with
  | O => (OutOfFuel, s)
  | S f =>
    let (es, s1) := expr_start s in
    bind (parse_binary f GBitOr es s1) (fun a s2 =>
    let args' := args ++ [a] in                                     (* args.push(arg) *)
    match src_peek s2 with
    | (None, s3) => (Err (eof_err s3), s3)
    | (Some (inl t), s3) =>
      match t_val t with
      | TSeparator => args_loop f args' (snd (src_next s3))
      | TTerminator | TEndGroup | TEndAddr | TEndSeq => (Ok args', s3)
      | _ => (Err (expect_err t), s3)
      end
    | (Some (inr _), s3) => bind (next_unwrap_err s3) (fun e s4 => (Err (tokerr_err e), s4))
    end)
  end.

(* `self.next_inner("';'")?` : any token is accepted here (the argument list ended at a terminator or closer) *)
Definition finish_stmt (mk : list arg -> element_value) (line col : N) (r : outcome (list arg) * src) : outcome element * src :=
  bind r (fun args s1 => bind (next_inner s1) (fun _ s2 => (Ok (mkElement line col (mk args)), s2))).

(* Parser::do_next *)
Definition do_next (fuel : nat) (first : tok_item) (s : src) : outcome element * src :=
  match first with
  | inl tk =>
    let line := t_line tk in let col := t_col tk in
    match t_val tk with
    | TDirectiveMark =>
      match src_next s with
      | (Some (inl t), s1) =>
        match t_val t with
        | TIdentifier name => finish_stmt (EDirective name) line col (parse_args fuel s1)
        | _ => (Err (expect_err t), s1)
        end
      | (Some (inr e), s1) => (Err (tokerr_err e), s1)
      | (None, s1) => (Err (eof_err s1), s1)
      end
    | TIdentifier name =>
      match src_peek s with
      | (Some (inl t), s1) =>
        match t_val t with
        | TLabelMark => (Ok (mkElement line col (ELabel name)), snd (src_next s1))
        | _ => finish_stmt (EInstruction name) line col (parse_args fuel s1)
        end
      | (Some (inr _), s1) => bind (next_unwrap_err s1) (fun e s2 => (Err (mkPerr line col (PKToken e)), s2))
      | (None, s1) => (Err (eof_err s1), s1)
      end
    | _ => (Err (expect_err tk), s)
    end
  | inr e => (Err (tokerr_err e), s)
  end.

(* everything the source will still deliver, in order *)
Definition stream (s : src) : list tok_item :=
  map inl (queue s) ++ match err_slot s with Some e => [inr e] | None => [] end ++ pending s.

(* `while self.0.next().is_some() {}` (the repair of F17); the loop is given one more round than there are items left *)
Fixpoint drain (fuel : nat) (s : src) : option src :=
  match fuel with
  | O => None
  | S f => match src_next s with (None, s') => Some s' | (Some _, s') => drain f s' end
  end.

Inductive item := IOk (e : element) | IErr (e : perr).
Inductive poll := PollNone | PollItem (i : item) | PollPanic | PollOutOfFuel.

(* Iterator::next for Parser *)
Definition parser_next (fuel : nat) (s : src) : poll * src :=
  match src_next s with
  | (None, s1) => (PollNone, s1)
  | (Some t, s1) =>
    match do_next fuel t s1 with
    | (Ok e, s2) => (PollItem (IOk e), s2)
    | (Err e, s2) =>
      match drain (S (length (stream (src_clear s2)))) (src_clear s2) with
      | Some s3 => (PollItem (IErr e), s3)
      | None => (PollOutOfFuel, s2)
      end
    | (Panic, s2) => (PollPanic, s2)
    | (OutOfFuel, s2) => (PollOutOfFuel, s2)
    end
  end.

(* the iterator unfolded until None (at most n items), then `extra` further polls *)
Inductive run_result :=
| Done (items : list item) (after : list poll)
| RPanic (items : list item)
| ROutOfFuel.

Fixpoint poll_more (extra fuel : nat) (s : src) : list poll :=
  match extra with
  | O => []
  | S k => let (p, s') := parser_next fuel s in p :: poll_more k fuel s'
  end.

Fixpoint iterate (n fuel : nat) (acc : list item) (s : src) : run_result :=
  match n with
  | O => ROutOfFuel
  | S n' =>
    match parser_next fuel s with
    | (PollNone, s') => Done acc (poll_more 3 fuel s')
    | (PollItem i, s') => iterate n' fuel (acc ++ [i]) s'
    | (PollPanic, _) => RPanic acc
    | (PollOutOfFuel, _) => ROutOfFuel
    end
  end.

Definition default_fuel (s : src) : nat := 10 * length (stream s) + 20.

Definition parse_all (s : src) : run_result :=
  iterate (length (stream s) + 2) (default_fuel s) [] s.
