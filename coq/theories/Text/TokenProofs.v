(* Theorems about the tokenizer model: totality and shape (C10), positions (C12); the literal theorems (C11) are in TokenLit.v.
   Lemmas: TokenLemmas.v (slices, update_pos, separator loop), TokenNext.v (do_next). *)
From Coq Require Import ZArith NArith List Bool Arith Lia ZifyBool ZifyNat ZifyN.
From Trion Require Import Base.Utf8 Text.Types Text.TokenModel Text.PosSpec Text.TokenLemmas Text.TokenNext.
Import ListNotations.
Open Scope N_scope.

Arguments pos_of : simpl never.

(* ================================================================ one next_token step *)
(* what a step establishes, given that `pre` is the text consumed so far *)
Definition step_post (pre : str) (st : tstate) (r : option item) (st' : tstate) (rem : nat) : Prop :=
  Valid (ts_data st') /\
  match r with
  | Some (inl t) =>
      exists skipped text, ts_data st = skipped ++ text ++ ts_data st' /\ text <> [] /\ rem = length (text ++ ts_data st') /\
                           (t_line t, t_col t) = pos_of (pre ++ skipped) /\ pos_st st' = pos_of (pre ++ skipped ++ text) /\
                           ts_utf_err st' = ts_utf_err st
  | Some (inr e) => ts_data st' = [] /\ ts_utf_err st' = false /\ (te_kind e = BadUnicode -> ts_utf_err st = true)
  | None => ts_data st' = [] /\ ts_utf_err st' = false /\ ts_utf_err st = false
  end.

Lemma next_token_rem_ok st pre : Valid (ts_data st) -> pos_st st = pos_of pre ->
  exists r st' rem, next_token_rem st = Ok ((r, st'), rem) /\ step_post pre st r st' rem.
Proof.
  intros V P. unfold next_token_rem.
  destruct (skip_loop_ok (S (length (ts_data st))) st pre V ltac:(lia) P) as [sr [st1 [E [V1 S]]]].
  rewrite E. cbn [bind]. destruct sr as [r|].
  - destruct S as [D1 [U1 [e [-> [_ K]]]]]. eexists _, _, _. split; [reflexivity|]. split; [exact V1|]. auto.
  - destruct S as [skipped [D1 [P1 U1]]].
    destruct (ts_data st1) as [|b0 r0] eqn:D.
    + destruct (ts_utf_err st1) eqn:U.
      * eexists _, _, _. split; [reflexivity|]. split; [cbn; constructor|]. cbn. repeat split; auto; intros _; congruence.
      * eexists _, _, _. split; [reflexivity|]. split; [now rewrite D|]. repeat split; auto; congruence.
    + rewrite <- D in *. assert (Ne : ts_data st1 <> []) by (rewrite D; discriminate).
      destruct (do_next_ok st1 (pre ++ skipped) V1 Ne P1) as [it [st2 [E2 [V2 T]]]]. rewrite E2. cbn [bind].
      destruct it as [t|e].
      * destruct T as [text [Dt [Nt [Pt [Ps Ut]]]]]. eexists _, _, _. split; [reflexivity|]. split; [exact V2|].
        exists skipped, text. rewrite <- app_assoc in Ps. rewrite D1, Dt. repeat split; auto; congruence.
      * destruct T as [Dt [Ut Kt]]. eexists _, _, _. split; [reflexivity|]. split; [constructor|]. cbn. repeat split; auto.
        intros K. rewrite <- U1. exact (Kt K).
Qed.

(* ================================================================ the interface the parser model drives *)
Definition tok_done (st : tstate) : Prop := ts_data st = [] /\ ts_utf_err st = false.
(* states reachable from tok_new: well-formed data, and either finished or at the position of some consumed text *)
Definition tok_reach (st : tstate) : Prop := Valid (ts_data st) /\ (tok_done st \/ exists pre, pos_st st = pos_of pre).

Lemma next_token_rem_done st : tok_done st -> next_token_rem st = Ok ((None, st), O).
Proof. destruct st as [d u l c]. intros [D U]. cbn in D, U. subst. reflexivity. Qed.

Lemma tok_new_reach bs : tok_reach (tok_new bs).
Proof. split; [apply valid_up_to_Valid|]. right. exists []. reflexivity. Qed.

Theorem next_token_total st : tok_reach st ->
  exists r st', next_token st = Ok (r, st') /\ tok_reach st' /\
    match r with
    | Some (inl _) => (length (ts_data st') < length (ts_data st))%nat /\ ts_utf_err st' = ts_utf_err st
    | Some (inr _) => tok_done st'
    | None => tok_done st' /\ ts_utf_err st = false
    end.
Proof.
  intros [V [Dn|[pre P]]].
  - exists None, st. unfold next_token. rewrite (next_token_rem_done _ Dn). cbn [bind fst].
    split; [reflexivity|]. split; [split; auto|]. split; [exact Dn|apply Dn].
  - destruct (next_token_rem_ok st pre V P) as [r [st' [rem [E [V' S]]]]].
    exists r, st'. unfold next_token. rewrite E. cbn [bind fst]. split; [reflexivity|].
    destruct r as [[t|e]|].
    + destruct S as [sk [text [D [Nt [_ [_ [Ps U]]]]]]]. split; [split; [exact V'|right; eauto]|]. split; [|exact U].
      rewrite D, !app_length. destruct text; [contradiction|cbn; lia].
    + destruct S as [A [B _]]. split; [split; [exact V'|left; split; auto]|split; auto].
    + destruct S as [A [B C]]. split; [split; [exact V'|left; split; auto]|]. split; [split; auto|exact C].
Qed.

(* ================================================================ whole runs *)
(* tokens, then at most one error *)
Fixpoint shape_ok (l : list item) : Prop :=
  match l with
  | [] => True
  | inl _ :: r => shape_ok r
  | inr _ :: r => r = []
  end.

Lemma shape_ok_split l : shape_ok l -> exists ts tail, l = map inl ts ++ tail /\ (tail = [] \/ exists e, tail = [inr e]).
Proof.
  induction l as [|[t|e] r IH]; cbn; intros H.
  - exists [], []. auto.
  - destruct (IH H) as [ts [tail [E T]]]. exists (t :: ts), tail. split; [cbn; now rewrite E|exact T].
  - subst r. exists [], [inr e]. split; [reflexivity|right; now exists e].
Qed.

(* position of a token = pos_of of the text before its first byte; rem = bytes left at its first byte *)
Definition item_pos_ok (full : str) (x : item * nat) : Prop :=
  match fst x with
  | inl t => (t_line t, t_col t) = pos_of (firstn (length full - snd x) full)
  | inr _ => True
  end.

Definition not_bad_unicode (it : item) : Prop := match it with inr e => te_kind e <> BadUnicode | inl _ => True end.

Lemma unfold_rem_done fuel st : (1 <= fuel)%nat -> tok_done st -> unfold_rem fuel st = Ok ([], st).
Proof. intros L D. destruct fuel; [lia|]. cbn [unfold_rem]. now rewrite (next_token_rem_done _ D). Qed.

Lemma unfold_rem_ok fuel : forall st pre full,
  Valid (ts_data st) -> pos_st st = pos_of pre -> full = pre ++ ts_data st -> (length (ts_data st) + 2 <= fuel)%nat ->
  exists items st', unfold_rem fuel st = Ok (items, st') /\ tok_done st' /\ Valid (ts_data st') /\
    shape_ok (map fst items) /\ Forall (item_pos_ok full) items /\
    (ts_utf_err st = true -> exists l e, map fst items = l ++ [inr e]) /\
    (ts_utf_err st = false -> Forall not_bad_unicode (map fst items)).
Proof.
  induction fuel as [|f IH]; intros st pre full V P F L; [lia|].
  cbn [unfold_rem]. destruct (next_token_rem_ok st pre V P) as [r [st1 [rem [E [V1 S]]]]]. rewrite E. cbn [bind].
  destruct r as [[t|e]|].
  - destruct S as [sk [text [D [Nt [Rm [Pt [Ps U]]]]]]].
    destruct (IH st1 (pre ++ sk ++ text) full V1 Ps) as [items [st' [E' [Dn [V' [Sh [Po [Ue Un]]]]]]]].
    + rewrite F, D, <- !app_assoc. reflexivity.
    + rewrite D, !app_length in L. destruct text; [contradiction|cbn in L; lia].
    + rewrite E'. cbn [bind]. eexists _, _. split; [reflexivity|]. split; [exact Dn|]. split; [exact V'|]. split; [exact Sh|]. split.
      * constructor; [|exact Po]. unfold item_pos_ok. cbn [fst snd]. rewrite Pt. f_equal.
        rewrite F, D, Rm. rewrite !app_length.
        replace (length pre + (length sk + (length text + length (ts_data st1))) - (length text + length (ts_data st1)))%nat with (length (pre ++ sk)) by (rewrite app_length; lia).
        rewrite app_assoc, firstn_app, Nat.sub_diag, firstn_all. cbn. now rewrite app_nil_r.
      * split.
        -- intros Hu. rewrite <- U in Hu. destruct (Ue Hu) as [l [e Hl]]. exists (inl t :: l), e. cbn [map fst]. now rewrite Hl.
        -- intros Hu. rewrite <- U in Hu. cbn [map fst]. constructor; [exact I|exact (Un Hu)].
  - destruct S as [D [U K]]. rewrite (unfold_rem_done f st1) by (first [lia | split; auto]). cbn [bind].
    eexists _, _. split; [reflexivity|]. split; [split; auto|]. split; [exact V1|]. split; [reflexivity|]. split.
    + constructor; [exact I|constructor].
    + split; [intros _; exists [], e; reflexivity|].
      intros Hu. cbn [map fst]. constructor; [|constructor]. cbn. intros Kb. specialize (K Kb). congruence.
  - destruct S as [D [U U0]]. eexists _, _. split; [reflexivity|]. split; [split; auto|]. split; [exact V1|]. split; [exact I|]. split; [constructor|].
    split; [intros Hu; congruence|intros _; constructor].
Qed.

Lemma polls_done n : forall st, tok_done st -> polls n st = Ok (repeat None n).
Proof.
  induction n as [|n IH]; intros st D; [reflexivity|]. cbn [polls]. unfold iter_next, next_token.
  rewrite (next_token_rem_done _ D). cbn [bind fst]. rewrite (IH _ D). reflexivity.
Qed.

Lemma tokens_rem_ok bs :
  exists items, tokens_rem bs = Ok (items, [None; None; None]) /\
    shape_ok (map fst items) /\ Forall (item_pos_ok (firstn (valid_up_to bs) bs)) items /\
    ((valid_up_to bs < length bs)%nat -> exists l e, map fst items = l ++ [inr e]) /\
    (valid_up_to bs = length bs -> Forall not_bad_unicode (map fst items)).
Proof.
  unfold tokens_rem.
  destruct (unfold_rem_ok (length bs + 2) (tok_new bs) [] (firstn (valid_up_to bs) bs)) as [items [st' [E [Dn [V' [Sh [Po [Ue Un]]]]]]]].
  - apply valid_up_to_Valid.
  - reflexivity.
  - reflexivity.
  - cbn [tok_new ts_data]. rewrite firstn_length. lia.
  - rewrite E. cbn [bind]. rewrite (polls_done 3 _ Dn). cbn [bind repeat]. exists items. split; [reflexivity|]. split; [exact Sh|]. split; [exact Po|].
    split.
    + intros Hl. apply Ue. cbn [tok_new ts_utf_err]. apply negb_true_iff. apply Nat.eqb_neq. lia.
    + intros Hl. apply Un. cbn [tok_new ts_utf_err]. apply negb_false_iff. now apply Nat.eqb_eq.
Qed.

(* ---------------------------------------------------------------- C10 (tokenizer half) *)
(* never a panic, never out of fuel: the run is always a finite item list followed by three Nones *)
Theorem tok_total bs : exists items, tokens_all bs = Ok (items, [None; None; None]).
Proof.
  destruct (tokens_rem_ok bs) as [items [E _]]. exists (map fst items). unfold tokens_all. rewrite E. reflexivity.
Qed.

Corollary tok_no_panic bs : (forall s, tokens_all bs <> Panic s) /\ tokens_all bs <> OutOfFuel.
Proof. destruct (tok_total bs) as [items E]. rewrite E. split; [intros s|]; discriminate. Qed.

(* the items are tokens followed by at most one error, and after the end the iterator keeps returning None *)
Theorem tok_shape bs items ps : tokens_all bs = Ok (items, ps) ->
  (exists ts tail, items = map inl ts ++ tail /\ (tail = [] \/ exists e, tail = [inr e])) /\ ps = [None; None; None].
Proof.
  destruct (tokens_rem_ok bs) as [its [E [Sh _]]]. unfold tokens_all. rewrite E. cbn [bind]. intros H. injection H as <- <-.
  split; [now apply shape_ok_split|reflexivity].
Qed.

(* an input that is not UTF-8 is never accepted silently: its item sequence ends with an error (exactly one, by tok_shape) *)
Theorem tok_invalid_utf8_once bs items ps : (valid_up_to bs < length bs)%nat -> tokens_all bs = Ok (items, ps) ->
  exists ts e, items = map inl ts ++ [inr e].
Proof.
  intros Hl. destruct (tokens_rem_ok bs) as [its [E [Sh [_ [Ue _]]]]]. unfold tokens_all. rewrite E. cbn [bind]. intros H. injection H as <- <-.
  destruct (Ue Hl) as [l [e El]]. destruct (shape_ok_split _ Sh) as [ts [tail [Et T]]].
  rewrite Et in El. destruct T as [->|[e' ->]].
  - rewrite app_nil_r in El. exfalso. assert (H : In (inr e) (map (@inl token token_error) ts)) by (rewrite El; apply in_or_app; right; now left).
    apply in_map_iff in H. destruct H as [x [Hx _]]. discriminate.
  - apply app_inj_tail in El. destruct El as [El Ee]. exists ts, e'. now rewrite Et.
Qed.

(* ... and BadUnicode is reported only for such inputs: a UTF-8 text never yields it *)
Theorem tok_bad_unicode_only_invalid bs items ps : valid_up_to bs = length bs -> tokens_all bs = Ok (items, ps) ->
  Forall not_bad_unicode items.
Proof.
  intros Hl. destruct (tokens_rem_ok bs) as [its [E [_ [_ [_ Un]]]]]. unfold tokens_all. rewrite E. cbn [bind]. intros H. injection H as <- <-.
  exact (Un Hl).
Qed.

(* ---------------------------------------------------------------- C12 (tokenizer half) *)
(* state invariant: after consuming `pre`, (line, col) = pos_of pre; one step keeps it and positions the token at its first byte *)
Theorem tok_pos_invariant st pre t st' : Valid (ts_data st) -> pos_st st = pos_of pre -> next_token st = Ok (Some (inl t), st') ->
  exists skipped text, ts_data st = skipped ++ text ++ ts_data st' /\ text <> [] /\
    (t_line t, t_col t) = pos_of (pre ++ skipped) /\ pos_st st' = pos_of (pre ++ skipped ++ text) /\ Valid (ts_data st').
Proof.
  intros V P H. destruct (next_token_rem_ok st pre V P) as [r [st1 [rem [E [V1 S]]]]].
  unfold next_token in H. rewrite E in H. cbn [bind fst] in H. injection H as -> ->.
  destruct S as [sk [text [D [Nt [_ [Pt [Ps _]]]]]]]. exists sk, text. auto.
Qed.

(* every token of a run is positioned at pos_of of the input text before its first byte *)
Theorem tok_token_pos bs l : tokens_offsets bs = Ok l ->
  Forall (fun x => match fst x with inl t => (t_line t, t_col t) = pos_of (firstn (snd x) bs) | inr _ => True end) l.
Proof.
  destruct (tokens_rem_ok bs) as [its [E [_ [Po _]]]]. unfold tokens_offsets. rewrite E. cbn [bind]. intros H. injection H as <-.
  apply Forall_map. eapply Forall_impl; [|exact Po]. intros [it rem]. unfold item_pos_ok. cbn [fst snd].
  destruct it as [t|e]; [|auto]. intros ->. f_equal.
  rewrite firstn_length. rewrite firstn_firstn. f_equal. pose proof (valid_up_to_le bs). lia.
Qed.
