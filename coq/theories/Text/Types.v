(* Shared syntax types of src/text: tokens, arguments, statements.  Strings are UTF-8 byte lists. *)
From Coq Require Import ZArith NArith List.
Import ListNotations.

Definition str := list N.

(* text/parse/mod.rs: Argument (18 node kinds).  Number::Integer(i64) -> Z. *)
Inductive arg :=
| AConst (v : Z)
| AIdent (s : str)
| AStr (s : str)
| AAdd (l r : arg)
| ANeg (a : arg)
| ASub (l r : arg)
| AMul (l r : arg)
| ADiv (l r : arg)
| AMod (l r : arg)
| ANot (a : arg)
| AAnd (l r : arg)
| AOr (l r : arg)
| AXor (l r : arg)
| AShl (l r : arg)
| AShr (l r : arg)
| AAddr (a : arg)
| ASeq (items : list arg)
| AFun (name : str) (args : list arg).

(* text/operator.rs *)
Inductive binop := OpAdd | OpSubtract | OpMultiply | OpDivide | OpModulo | OpBitAnd | OpBitOr | OpBitXor | OpLeftShift | OpRightShift.
Inductive binop_group := GBitOr | GBitXor | GBitAnd | GShift | GAddSub | GDivMul.

(* text/token/mod.rs *)
Inductive token_value :=
| TSeparator | TTerminator | TLabelMark | TDirectiveMark
| TPlus | TMinus | TMultiply | TDivide | TModulo
| TNot | TBitAnd | TBitOr | TBitXor | TLeftShift | TRightShift
| TNumber (v : Z) | TIdentifier (s : str) | TString (s : str)
| TBeginGroup | TEndGroup | TBeginAddr | TEndAddr | TBeginSeq | TEndSeq.

Record token := mkToken { t_line : N; t_col : N; t_val : token_value }.

Inductive token_error_kind := BadUnicode | Invalid | BlockComment | BadNumber | BadCharacter | BadString | Unexpected (c : N).
Record token_error := mkTokErr { te_line : N; te_col : N; te_kind : token_error_kind }.

(* text/parse/mod.rs: ElementValue / Element *)
Inductive element_value :=
| ELabel (name : str)
| EDirective (name : str) (args : list arg)
| EInstruction (name : str) (args : list arg).
Record element := mkElement { e_line : N; e_col : N; e_val : element_value }.
