(* Lemmas about the tokenizer model, part 1: slices and char boundaries, update_pos vs pos_of, the separator loop. *)
From Coq Require Import ZArith NArith List Bool Arith Lia ZifyBool ZifyNat ZifyN.
From Trion Require Import Base.Sweep Base.Utf8 Text.Types Text.TokenModel Text.PosSpec Text.LitSpec.
Import ListNotations.
Open Scope N_scope.

(* ================================================================ generic helpers *)
Ltac ifs := repeat (match goal with
  | |- context [if ?c then _ else _] => destruct c eqn:?
  | H : context [if ?c then _ else _] |- _ => destruct c eqn:?
  end; cbv iota in *).

Lemma bind_Ok {A B} (o : outcome A) (f : A -> outcome B) b : bind o f = Ok b -> exists a, o = Ok a /\ f a = Ok b.
Proof. destruct o; cbn; intros H; try discriminate. now exists a. Qed.

Lemma nth_error_split' {A} (d : list A) n x : nth_error d n = Some x ->
  d = firstn n d ++ x :: skipn (S n) d /\ length (firstn n d) = n.
Proof.
  revert d. induction n as [|n IH]; intros [|y d] H; cbn in H; try discriminate.
  - injection H as ->. now split.
  - destruct (IH _ H) as [E L]. split; [cbn [firstn skipn app]; f_equal; exact E|cbn [firstn length]; now rewrite L].
Qed.

Lemma skipn_nth {A} n (d : list A) x : nth_error d n = Some x -> skipn n d = x :: skipn (S n) d.
Proof.
  revert d. induction n as [|n IH]; intros [|y d] H; cbn in H; try discriminate.
  - now injection H as ->.
  - cbn [skipn]. now apply IH.
Qed.

Lemma nth_error_skipn {A} (d : list A) a k : nth_error (skipn a d) k = nth_error d (a + k).
Proof.
  revert d. induction a as [|a IH]; intros d; [reflexivity|]. destruct d as [|x d]; [now destruct k|]. cbn. apply IH.
Qed.

Lemma nth_error_firstn {A} (d : list A) n k : (k < n)%nat -> nth_error (firstn n d) k = nth_error d k.
Proof.
  revert d k. induction n as [|n IH]; intros d k H; [lia|]. destruct d as [|x d]; [now destruct k|].
  destruct k; [reflexivity|]. cbn. apply IH. lia.
Qed.

Lemma nth_error_Some_lt {A} (d : list A) n x : nth_error d n = Some x -> (n < length d)%nat.
Proof. intros H. apply nth_error_Some. congruence. Qed.

Lemma nth_error_lt_Some {A} (d : list A) n : (n < length d)%nat -> exists x, nth_error d n = Some x.
Proof. intros H. destruct (nth_error d n) eqn:E; [now eexists|]. apply nth_error_None in E. lia. Qed.

(* ================================================================ position / rposition *)
Lemma position_Some p d n : position p d = Some n ->
  exists x, nth_error d n = Some x /\ p x = true /\ forall k y, (k < n)%nat -> nth_error d k = Some y -> p y = false.
Proof.
  revert n. induction d as [|b r IH]; intros n H; cbn in H; [discriminate|].
  destruct (p b) eqn:E.
  - injection H as <-. exists b. repeat split; auto. intros k y Hk. lia.
  - destruct (position p r) as [i|] eqn:P; [|discriminate]. injection H as <-.
    destruct (IH _ eq_refl) as [x [H1 [H2 H3]]]. exists x. repeat split; auto.
    intros [|k] y Hk Hy; cbn in Hy; [congruence|]. apply (H3 k); [lia|exact Hy].
Qed.

Lemma position_None p d : position p d = None -> forall k y, nth_error d k = Some y -> p y = false.
Proof.
  induction d as [|b r IH]; intros H k y Hy; [now destruct k|]. cbn in H.
  destruct (p b) eqn:E; [discriminate|]. destruct (position p r) eqn:P; [discriminate|].
  destruct k; cbn in Hy; [congruence|]. now apply (IH eq_refl k).
Qed.

Lemma rposition_Some p d v : rposition p d = Some v -> exists x, nth_error d v = Some x /\ p x = true.
Proof.
  revert v. induction d as [|b r IH]; intros v H; cbn in H; [discriminate|].
  destruct (rposition p r) as [i|] eqn:R.
  - injection H as <-. exact (IH _ eq_refl).
  - destruct (p b) eqn:E; [|discriminate]. injection H as <-. now exists b.
Qed.

(* ================================================================ char boundaries *)
Definition bnd (d : str) (n : nat) : Prop := is_char_boundary d n = true.

Lemma bnd_0 d : bnd d 0. Proof. reflexivity. Qed.

Lemma bnd_end d : bnd d (length d).
Proof. unfold bnd, is_char_boundary. destruct (length d) eqn:E; [reflexivity|]. rewrite <- E, skipn_all. apply Nat.eqb_refl. Qed.

Lemma bnd_noncont d n b : nth_error d n = Some b -> is_cont b = false -> bnd d n.
Proof.
  intros H C. unfold bnd, is_char_boundary. destruct n; [reflexivity|]. rewrite (skipn_nth _ _ _ H). now rewrite C.
Qed.

Lemma bnd_ascii d n b : nth_error d n = Some b -> b < 128 -> bnd d n.
Proof. intros H L. apply (bnd_noncont _ _ _ H). unfold is_cont. lia. Qed.

Lemma bnd_after_ascii d n x : Valid d -> nth_error d n = Some x -> x < 128 -> bnd d (S n).
Proof.
  intros V H L. destruct (nth_error_split' _ _ _ H) as [E Ln].
  rewrite E in V. apply Valid_after_ascii in V; [|exact L]. destruct V as [_ V].
  unfold bnd, is_char_boundary. destruct (skipn (S n) d) as [|b t] eqn:HS.
  - apply Nat.eqb_eq. apply (f_equal (@length N)) in E. rewrite app_length in E. cbn in E. lia.
  - now rewrite (Valid_head _ _ V).
Qed.

Lemma slice_from_ok s d n : bnd d n -> slice_from s d n = Ok (skipn n d).
Proof. unfold bnd, slice_from. now intros ->. Qed.
Lemma slice_to_ok s d n : bnd d n -> slice_to s d n = Ok (firstn n d).
Proof. unfold bnd, slice_to. now intros ->. Qed.
Lemma slice_ok s d a b : (a <= b)%nat -> bnd d a -> bnd d b -> slice s d a b = Ok (firstn (b - a) (skipn a d)).
Proof. unfold bnd, slice. intros L -> ->. apply Nat.leb_le in L. now rewrite L. Qed.

Lemma bnd_Valid_from d n : Valid d -> bnd d n -> Valid (skipn n d).
Proof. intros V B. exact (proj2 (Valid_split _ V _ B)). Qed.
Lemma bnd_Valid_to d n : Valid d -> bnd d n -> Valid (firstn n d).
Proof. intros V B. exact (proj1 (Valid_split _ V _ B)). Qed.

Lemma bnd_skipn d a n : bnd d a -> bnd d (a + n) -> bnd (skipn a d) n.
Proof.
  unfold bnd, is_char_boundary. intros _ H. destruct n; [reflexivity|].
  replace (a + S n)%nat with (S (a + n)) in H by lia. rewrite skipn_skipn.
  replace (S n + a)%nat with (S (a + n)) by lia.
  destruct (skipn (S (a + n)) d); [|exact H]. rewrite skipn_length. apply Nat.eqb_eq in H. apply Nat.eqb_eq. lia.
Qed.

Lemma bnd_Valid_range d a b : Valid d -> (a <= b)%nat -> bnd d a -> bnd d b -> Valid (firstn (b - a) (skipn a d)).
Proof.
  intros V L Ba Bb. apply bnd_Valid_to; [now apply bnd_Valid_from|].
  apply bnd_skipn; [exact Ba|]. now replace (a + (b - a))%nat with b by lia.
Qed.

(* ================================================================ update_pos *)
Definition upd (lc : N * N) (d : str) : N * N :=
  let lines := u32_of_usize (count is_lf d) in
  let lc1 := if 0 <? lines then (sat_add32 (fst lc) lines, 1) else lc in
  let tail := skipn (match rposition is_lf d with None => O | Some v => S v end) d in
  (fst lc1, sat_add32 (snd lc1) (u32_of_usize (count (fun b => negb (is_cont b)) tail))).

Definition pos_st (st : tstate) : N * N := (ts_line st, ts_col st).

Lemma update_pos_ok st d : Valid d ->
  update_pos st d = Ok (set_pos st (fst (upd (pos_st st) d)) (snd (upd (pos_st st) d))).
Proof.
  intros V. unfold update_pos, upd, pos_st.
  assert (B : bnd d (match rposition is_lf d with None => O | Some v => S v end)).
  { destruct (rposition is_lf d) as [v|] eqn:R; [|apply bnd_0].
    destruct (rposition_Some _ _ _ R) as [x [Hx Px]]. apply (bnd_after_ascii _ _ x V Hx). unfold is_lf in Px. lia. }
  rewrite (slice_from_ok _ _ _ B). cbn [bind].
  destruct (0 <? u32_of_usize (count is_lf d)); reflexivity.
Qed.

(* ================================================================ pos_of is compositional *)
Lemma last_line_acc_spec p : forall acc,
  last_line_acc acc p = if existsb is_lf p then last_line_acc [] p else acc ++ p.
Proof.
  induction p as [|b r IH]; intros acc.
  - cbn. now rewrite app_nil_r.
  - cbn [last_line_acc existsb app]. unfold is_lf at 1. destruct (b =? 10) eqn:E; cbn [orb].
    + reflexivity.
    + rewrite (IH (acc ++ [b])), (IH [b]). destruct (existsb is_lf r); [reflexivity|]. now rewrite <- app_assoc.
Qed.

Lemma last_line_acc_app a : forall acc b, last_line_acc acc (a ++ b) = last_line_acc (last_line_acc acc a) b.
Proof.
  induction a as [|x a IH]; intros acc b; cbn [app last_line_acc]; [reflexivity|].
  destruct (x =? 10); apply IH.
Qed.

Lemma last_line_app a b : last_line (a ++ b) = if existsb is_lf b then last_line b else last_line a ++ b.
Proof. unfold last_line. rewrite last_line_acc_app. apply last_line_acc_spec. Qed.

Lemma rposition_lf_None d : rposition is_lf d = None -> existsb is_lf d = false.
Proof.
  induction d as [|b r IH]; cbn; [reflexivity|]. destruct (rposition is_lf r); [discriminate|].
  destruct (is_lf b); [discriminate|]. intros _. now apply IH.
Qed.

Lemma rposition_lf_Some d : forall v, rposition is_lf d = Some v -> existsb is_lf d = true /\ skipn (S v) d = last_line d.
Proof.
  induction d as [|b r IH]; intros v H; cbn in H; [discriminate|].
  destruct (rposition is_lf r) as [i|] eqn:R.
  - injection H as <-. destruct (IH _ eq_refl) as [E HS]. split; [cbn; rewrite E; apply orb_true_r|].
    change (skipn (S (S i)) (b :: r)) with (skipn (S i) r). rewrite HS. unfold last_line. cbn [last_line_acc app].
    destruct (b =? 10); [reflexivity|]. rewrite (last_line_acc_spec r [b]), E. reflexivity.
  - destruct (is_lf b) eqn:L; [|discriminate]. injection H as <-. split; [cbn; now rewrite L|].
    cbn [skipn]. unfold last_line. cbn [last_line_acc app]. unfold is_lf in L. rewrite L.
    rewrite last_line_acc_spec, (rposition_lf_None _ R). reflexivity.
Qed.

Lemma count_lf_exists d : existsb is_lf d = false -> count is_lf d = 0%nat.
Proof.
  unfold count. induction d as [|b r IH]; cbn; [reflexivity|]. destruct (is_lf b); cbn; [discriminate|]. exact IH.
Qed.
Lemma count_lf_exists' d : existsb is_lf d = true -> (0 < count is_lf d)%nat.
Proof.
  unfold count. induction d as [|b r IH]; cbn; [discriminate|]. destruct (is_lf b); cbn; [lia|]. exact IH.
Qed.

Lemma upd_pos_of pre d : upd (pos_of pre) d = pos_of (pre ++ d).
Proof.
  unfold upd, pos_of, count_lf, count_chars. rewrite last_line_app, filter_app, app_length.
  fold (count is_lf d). fold (count is_lf pre). change (fun b : N => b =? 10) with is_lf.
  destruct (rposition is_lf d) as [v|] eqn:R.
  - destruct (rposition_lf_Some _ _ R) as [E HS]. rewrite E, HS. apply count_lf_exists' in E.
    unfold u32_of_usize, sat_add32, sat32, u32_max, count in *. cbn [fst snd].
    f_equal; ifs; cbn [fst snd]; lia.
  - apply rposition_lf_None in R. rewrite R. apply count_lf_exists in R. rewrite R. cbn [skipn].
    rewrite filter_app, app_length.
    unfold u32_of_usize, sat_add32, sat32, u32_max, count in *. cbn [fst snd].
    f_equal; ifs; cbn [fst snd]; lia.
Qed.

(* ================================================================ the separator loop of next_token *)
Lemma is_ws_ascii x : is_ws x = true -> x < 128.
Proof. unfold is_ws. lia. Qed.

Lemma starts_with_2 a b d : starts_with [a; b] d = true -> exists r, d = a :: b :: r.
Proof.
  destruct d as [|x [|y r]]; cbn; try discriminate; try (rewrite andb_false_r; discriminate).
  intros H. exists r. assert (a = x /\ b = y) as [-> ->] by lia. reflexivity.
Qed.

Lemma filter_none {A} (p : A -> bool) (x : list A) : (forall k y, nth_error x k = Some y -> p y = false) -> filter p x = [].
Proof.
  induction x as [|a x IH]; intros H; [reflexivity|]. cbn. rewrite (H O a eq_refl). apply IH. intros k y Hy. exact (H (S k) y Hy).
Qed.

Lemma pos_of_snoc_lf p : pos_of (p ++ [10]) = (sat_add32 (fst (pos_of p)) 1, 1).
Proof. rewrite <- upd_pos_of. reflexivity. Qed.

Lemma pos_of_line_nolf p x : filter is_lf x = [] -> fst (pos_of (p ++ x)) = fst (pos_of p).
Proof. intros H. unfold pos_of, count_lf. cbn [fst]. change (fun b : N => b =? 10) with is_lf. rewrite filter_app, H, app_nil_r. reflexivity. Qed.

Arguments pos_of : simpl never.
Arguments upd : simpl never.
Arguments sat_add32 : simpl never.
Arguments N.add : simpl never.
Arguments N.min : simpl never.

Lemma block_go_hit : forall l p start depth k, (2 <= p)%nat -> depth <> 0%Z -> block_go l p start depth = Some k ->
  exists i nx, k = (p + i - 2)%nat /\ nth_error l (S i) = Some nx /\ nx < 128.
Proof.
  induction l as [|b rest IH]; intros p start depth k Hp Hd H; [discriminate|].
  destruct rest as [|nx rest']; [discriminate|].
  cbn [block_go] in H.
  destruct ((b =? 47) && (start <=? p)%nat && (nx =? 42)) eqn:C1.
  - destruct (wrap_usize (depth + 1) =? 0)%Z eqn:Z.
    + injection H as <-. exists O, nx. repeat split; [lia|lia].
    + assert (Hd' : wrap_usize (depth + 1) <> 0%Z) by lia. assert (Hp' : (2 <= S p)%nat) by lia.
      destruct (IH _ _ _ _ Hp' Hd' H) as [i [y [E [N L]]]]. exists (S i), y. repeat split; [lia|exact N|exact L].
  - destruct ((b =? 42) && (start <=? p)%nat && (nx =? 47)) eqn:C2.
    + destruct (wrap_usize (depth - 1) =? 0)%Z eqn:Z.
      * injection H as <-. exists O, nx. repeat split; [lia|lia].
      * assert (Hd' : wrap_usize (depth - 1) <> 0%Z) by lia. assert (Hp' : (2 <= S p)%nat) by lia.
        destruct (IH _ _ _ _ Hp' Hd' H) as [i [y [E [N L]]]]. exists (S i), y. repeat split; [lia|exact N|exact L].
    + destruct (depth =? 0)%Z eqn:Z; [lia|].
      assert (Hp' : (2 <= S p)%nat) by lia.
      destruct (IH _ _ _ _ Hp' Hd H) as [i [y [E [N L]]]]. exists (S i), y. repeat split; [lia|exact N|exact L].
Qed.

Definition ws_step (st : tstate) : outcome tstate :=
  let d := ts_data st in
  let sb := match position (fun b => negb (is_ws b)) d with None => length d | Some c => c end in
  if (0 <? sb)%nat then
    pre <- slice_to 1 d sb ;; st' <- update_pos st pre ;; rest <- slice_from 2 d sb ;; Ok (set_data st' rest)
  else Ok st.

Definition comment_step (f : nat) (st1 : tstate) : outcome (skip_res * tstate) :=
  let d := ts_data st1 in
  if starts_with [47; 47] d then
    match position is_lf d with
    | None =>
        st2 <- update_pos st1 d ;;
        let ue := ts_utf_err st2 in
        let st3 := clear st2 in
        if ue then Ok (SkReturn (Some (inr (pos_err st3 BadUnicode))), st3)
        else skip_loop f st3
    | Some ll =>
        rest <- slice_from 3 d (ll + 1) ;;
        skip_loop f (mkT rest (ts_utf_err st1) (sat_add32 (ts_line st1) 1) 1)
    end
  else if starts_with [47; 42] d then
    match d with
    | [] => Panic 4
    | _ =>
      match block_scan d with
      | Some k =>
          pre <- slice_to 5 d (4 + k) ;;
          st2 <- update_pos st1 pre ;;
          rest <- slice_from 6 d (4 + k) ;;
          skip_loop f (set_data st2 rest)
      | None =>
          st2 <- update_pos st1 d ;;
          let err := if ts_utf_err st2 then BadUnicode else BlockComment in
          let st3 := clear st2 in
          Ok (SkReturn (Some (inr (pos_err st3 err))), st3)
      end
    end
  else Ok (SkBreak, st1).

Lemma skip_loop_unfold f st :
  skip_loop (S f) st = match ts_data st with [] => Ok (SkBreak, st) | _ => st1 <- ws_step st ;; comment_step f st1 end.
Proof. destruct st as [[|b d] ? ? ?]; reflexivity. Qed.

Lemma skip_loop_nil f st : ts_data st = [] -> skip_loop f st = Ok (SkBreak, st).
Proof. intros H. destruct f; cbn; now rewrite H. Qed.

Definition skip_post (pre : str) (st : tstate) (sr : skip_res) (st' : tstate) : Prop :=
  Valid (ts_data st') /\
  match sr with
  | SkBreak => exists skipped, ts_data st = skipped ++ ts_data st' /\ pos_st st' = pos_of (pre ++ skipped) /\ ts_utf_err st' = ts_utf_err st
  | SkReturn r => ts_data st' = [] /\ ts_utf_err st' = false /\
                  exists e, r = Some (inr e) /\ (te_line e, te_col e) = pos_of (pre ++ ts_data st) /\
                            (te_kind e = BadUnicode -> ts_utf_err st = true)
  end.

Lemma skip_post_shift pre seg st st2 sr st' :
  ts_data st = seg ++ ts_data st2 -> ts_utf_err st2 = ts_utf_err st ->
  skip_post (pre ++ seg) st2 sr st' -> skip_post pre st sr st'.
Proof.
  intros Hd Hu [V P]. split; [exact V|]. destruct sr as [r|].
  - destruct P as [A [B [e [E1 [E2 E3]]]]]. repeat split; auto. exists e. split; [exact E1|]. split; [now rewrite Hd, app_assoc|].
    intros K. rewrite <- Hu. exact (E3 K).
  - destruct P as [sk [A [B C]]]. exists (seg ++ sk). rewrite Hd, A, <- app_assoc. repeat split; [now rewrite <- app_assoc in B|congruence].
Qed.

Lemma ws_step_ok st pre : Valid (ts_data st) -> pos_st st = pos_of pre ->
  exists st1 ws, ws_step st = Ok st1 /\ ts_data st = ws ++ ts_data st1 /\ Valid (ts_data st1) /\
                 pos_st st1 = pos_of (pre ++ ws) /\ ts_utf_err st1 = ts_utf_err st.
Proof.
  intros V P. unfold ws_step. set (d := ts_data st) in *.
  set (sb := match position (fun b => negb (is_ws b)) d with None => length d | Some c => c end).
  destruct (0 <? sb)%nat eqn:Z.
  2:{ exists st, []. rewrite app_nil_r. repeat split; auto. }
  assert (B : bnd d sb).
  { subst sb. destruct (position (fun b => negb (is_ws b)) d) as [c|] eqn:Pn; [|apply bnd_end].
    destruct (position_Some _ _ _ Pn) as [x [Hx [_ Hk]]].
    destruct c as [|c]; [apply bnd_0|].
    destruct (nth_error_lt_Some d c) as [y Hy]; [apply nth_error_Some_lt in Hx; lia|].
    apply (bnd_after_ascii _ _ y V Hy). apply is_ws_ascii. specialize (Hk c y ltac:(lia) Hy). now apply negb_false_iff in Hk. }
  rewrite (slice_to_ok _ _ _ B). cbn [bind].
  rewrite (update_pos_ok _ _ (bnd_Valid_to _ _ V B)). cbn [bind].
  rewrite (slice_from_ok _ _ _ B). cbn [bind].
  eexists _, (firstn sb d). split; [reflexivity|]. cbn [set_data set_pos ts_data ts_utf_err pos_st ts_line ts_col].
  repeat split.
  - now rewrite firstn_skipn.
  - now apply bnd_Valid_from.
  - unfold pos_st in *. cbn [set_data set_pos ts_line ts_col]. rewrite P, <- surjective_pairing. apply upd_pos_of.
Qed.

Lemma skip_loop_ok fuel : forall st pre, Valid (ts_data st) -> (length (ts_data st) < fuel)%nat -> pos_st st = pos_of pre ->
  exists sr st', skip_loop fuel st = Ok (sr, st') /\ skip_post pre st sr st'.
Proof.
  induction fuel as [|f IH]; intros st pre V L P; [lia|].
  rewrite skip_loop_unfold. destruct (ts_data st) as [|b0 r0] eqn:D.
  { exists SkBreak, st. split; [reflexivity|]. split; [now rewrite D|]. exists []. rewrite app_nil_r. auto. }
  rewrite <- D in *. clear b0 r0 D.
  destruct (ws_step_ok st pre V P) as [st1 [ws [E1 [D1 [V1 [P1 U1]]]]]]. rewrite E1. cbn [bind].
  assert (L1 : (length (ts_data st1) <= length (ts_data st))%nat) by (rewrite D1, app_length; lia).
  cut (exists sr st', comment_step f st1 = Ok (sr, st') /\ skip_post (pre ++ ws) st1 sr st').
  { intros [sr [st' [E S]]]. exists sr, st'. split; [exact E|]. exact (skip_post_shift _ _ _ _ _ _ D1 U1 S). }
  assert (Lf : (length (ts_data st1) <= f)%nat) by lia.
  clear E1 D1 P U1 V L L1. revert V1 P1. generalize (pre ++ ws). clear pre ws st. intros pre V1 P1.
  unfold comment_step. set (d := ts_data st1) in *.
  destruct (starts_with [47; 47] d) eqn:S1.
  - (* line comment *)
    destruct (position is_lf d) as [ll|] eqn:Pl.
    + destruct (position_Some _ _ _ Pl) as [x [Hx [Px Hk]]].
      assert (x = 10) by (unfold is_lf in Px; lia). subst x.
      assert (B : bnd d (ll + 1)) by (replace (ll + 1)%nat with (S ll) by lia; apply (bnd_after_ascii _ _ 10 V1 Hx); lia).
      rewrite (slice_from_ok _ _ _ B). cbn [bind].
      set (st2 := mkT (skipn (ll + 1) d) (ts_utf_err st1) (sat_add32 (ts_line st1) 1) 1).
      destruct (nth_error_split' _ _ _ Hx) as [Ed Ln].
      assert (Eseg : firstn (ll + 1) d = firstn ll d ++ [10]).
      { rewrite Ed at 1. rewrite firstn_app, Ln. replace (ll + 1 - ll)%nat with 1%nat by lia.
        rewrite firstn_all2 by lia. reflexivity. }
      destruct (IH st2 (pre ++ firstn (ll + 1) d)) as [sr [st' [E S]]].
      * cbn. now apply bnd_Valid_from.
      * cbn. rewrite skipn_length. apply nth_error_Some_lt in Hx. lia.
      * unfold pos_st. cbn [st2 ts_line ts_col]. rewrite Eseg, app_assoc, pos_of_snoc_lf.
        rewrite pos_of_line_nolf.
        2:{ apply filter_none. intros k y Hy. assert (k < ll)%nat by (apply nth_error_Some_lt in Hy; rewrite firstn_length in Hy; lia).
            rewrite nth_error_firstn in Hy by lia. exact (Hk k y H Hy). }
        rewrite <- P1. reflexivity.
      * exists sr, st'. split; [exact E|]. apply (skip_post_shift pre (firstn (ll + 1) d) st1 st2); [cbn; fold d; now rewrite firstn_skipn|reflexivity|exact S].
    + rewrite (update_pos_ok _ _ V1). cbn [bind]. cbn [set_pos ts_utf_err clear ts_line ts_col].
      fold d. rewrite P1, upd_pos_of.
      destruct (ts_utf_err st1) eqn:U.
      * eexists _, _. split; [reflexivity|]. split; [constructor|]. cbn. repeat split. eexists. split; [reflexivity|]. cbn. fold d. split; [now rewrite <- surjective_pairing|auto].
      * rewrite skip_loop_nil by reflexivity. eexists _, _. split; [reflexivity|]. split; [constructor|].
        exists d. cbn. rewrite app_nil_r. repeat split; try (now rewrite <- surjective_pairing); congruence.
  - destruct (starts_with [47; 42] d) eqn:S2.
    + (* block comment *)
      destruct (starts_with_2 _ _ _ S2) as [r Er].
      destruct d as [|d0 dr] eqn:Dd; [discriminate|]. rewrite <- Dd in *.
      destruct (block_scan d) as [k|] eqn:Bs.
      * unfold block_scan in Bs. assert (H22 : (2 <= 2)%nat) by lia. assert (H10 : 1%Z <> 0%Z) by lia.
        destruct (block_go_hit _ _ _ _ _ H22 H10 Bs) as [i [nx [Ek [Hn Ln]]]].
        rewrite nth_error_skipn in Hn.
        assert (B : bnd d (4 + k)).
        { replace (4 + k)%nat with (S (2 + S i)) by lia. apply (bnd_after_ascii _ _ nx V1 Hn Ln). }
        rewrite (slice_to_ok _ _ _ B). cbn [bind].
        rewrite (update_pos_ok _ _ (bnd_Valid_to _ _ V1 B)). cbn [bind].
        rewrite (slice_from_ok _ _ _ B). cbn [bind].
        match goal with |- context [skip_loop f ?s] => set (st2 := s) end.
        destruct (IH st2 (pre ++ firstn (4 + k) d)) as [sr [st' [E S]]].
        -- cbn [st2 set_data ts_data]. now apply bnd_Valid_from.
        -- cbn [st2 set_data ts_data]. rewrite skipn_length. apply nth_error_Some_lt in Hn. fold d. lia.
        -- unfold pos_st in *. cbn [st2 set_data set_pos ts_line ts_col]. rewrite <- surjective_pairing, P1. apply upd_pos_of.
        -- exists sr, st'. split; [exact E|]. apply (skip_post_shift pre (firstn (4 + k) d) st1 st2); [cbn [st2 set_data ts_data]; fold d; now rewrite firstn_skipn|reflexivity|exact S].
      * rewrite (update_pos_ok _ _ V1). cbn [bind]. cbn [set_pos ts_utf_err clear ts_line ts_col].
        rewrite P1, upd_pos_of.
        eexists _, _. split; [reflexivity|]. split; [constructor|]. cbn. repeat split. eexists. split; [reflexivity|]. cbn. fold d. rewrite Dd.
        split; [now rewrite <- surjective_pairing|]. destruct (ts_utf_err st1); [auto|discriminate].
    + exists SkBreak, st1. split; [reflexivity|]. split; [exact V1|]. exists []. rewrite !app_nil_r. auto.
Qed.
