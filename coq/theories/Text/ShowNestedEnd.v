(* C09 at the level of characters: the LAST separator.  ShowSpec.end_separator / ShowNested.nend_separator already contain the
   constructor (N)ESep_eof: after the last token the text may end inside a line comment that has no line feed (the scanner
   consumes to the end of the input: LexRun.skips_line_eof), so C09_text_roundtrip* cover such texts implicitly.  This file
   makes the clause explicit and independent of how the separators were chosen:
     final_comment ws body = ws ++ "//" ++ body      (white space, then a line comment WITHOUT its line feed; body any valid
                                                      UTF-8 without LF)
   appended to ANY text of the round-trip theorems (whatever its last separator is - white space, complete comments, nested
   block comments, or itself an unterminated line comment) gives a text that tokenizes and parses to the same statements.
   add_end ts seps c: the separator list with c appended to the separator after the last token. *)
From Coq Require Import ZArith NArith List Bool Lia.
From Trion Require Import Base.Utf8 Text.Types Text.LitSpec Text.Render Text.ShowSpec Text.ShowNested.
From Trion Require Text.TokenModel.
From Trion Require Import Text.ShowProofs Text.ShowNestedProofs.
From Trion Require Import Text.ParseModel Text.ParseProofs Text.Pipeline.
Import ListNotations.
Open Scope N_scope.

Definition final_comment (ws body : str) : str := ws ++ [47; 47] ++ body.

Fixpoint add_end {A} (ts : list A) (seps : list str) (c : str) : list str :=
  match ts with
  | [] => [hd [] seps ++ c]
  | _ :: r => hd [] seps :: add_end r (tl seps) c
  end.

Lemma show_add_end : forall ts seps c, show ts (add_end ts seps c) = show ts seps ++ c.
Proof.
  induction ts as [|v r IH]; intros seps c; cbn [show add_end hd tl]; [reflexivity|].
  rewrite IH, <- !app_assoc. reflexivity.
Qed.
Lemma showw_add_end : forall ws seps c, showw ws (add_end ws seps c) = showw ws seps ++ c.
Proof.
  induction ws as [|v r IH]; intros seps c; cbn [showw add_end hd tl]; [reflexivity|].
  rewrite IH, <- !app_assoc. reflexivity.
Qed.

(* ------------------------------------------------------------------ the end separator absorbs a final comment *)
Lemma white_app a b : white a -> white b -> white (a ++ b).
Proof. unfold white. intros A B. apply Forall_app. split; assumption. Qed.

Section Final.
Variables (ws body : str).
Hypotheses (W : white ws) (Nl : Forall (fun b => b <> 10) body) (Vb : Valid body).

(* inside an unterminated line comment: the white space either stays in the comment or ends it at its first line feed *)
Lemma eof_extend ws0 : white ws0 -> forall w b, white w -> Forall (fun x => x <> 10) b -> Valid b ->
  nend_separator (ws0 ++ [47; 47] ++ b ++ w ++ [47; 47] ++ body).
Proof.
  intros W0. induction w as [|x r IH]; intros b Ww Nb Vb0.
  - cbn [app]. apply NESep_eof; [exact W0| |].
    + apply Forall_app. split; [exact Nb|]. repeat constructor; try lia. exact Nl.
    + apply Valid_app; [exact Vb0|]. apply Valid_cons_ascii; [lia|]. apply Valid_cons_ascii; [lia|exact Vb].
  - inversion Ww as [|? ? Hx Wr]; subst. destruct (N.eq_dec x 10) as [->|Nx].
    + replace (ws0 ++ [47; 47] ++ b ++ (10 :: r) ++ [47; 47] ++ body)
        with (ws0 ++ [47; 47] ++ b ++ [10] ++ (r ++ [47; 47] ++ body)) by (cbn [app]; reflexivity).
      apply NESep_line; [exact W0|exact Nb|exact Vb0|]. apply NESep_eof; [exact Wr|exact Nl|exact Vb].
    + replace (ws0 ++ [47; 47] ++ b ++ (x :: r) ++ [47; 47] ++ body)
        with (ws0 ++ [47; 47] ++ (b ++ [x]) ++ r ++ [47; 47] ++ body) by (cbn [app]; rewrite <- !app_assoc; reflexivity).
      apply IH; [exact Wr| |].
      * apply Forall_app. split; [exact Nb|]. repeat constructor. exact Nx.
      * apply Valid_app; [exact Vb0|]. apply Valid_cons_ascii; [unfold ws_byte in Hx; lia|apply V_nil].
Qed.

Lemma nseparator_final s : nseparator s -> nend_separator (s ++ final_comment ws body).
Proof.
  unfold final_comment. induction 1 as [ws0 W0|ws0 b s W0 Nb Vb0 _ IH|ws0 d b s W0 Cb Dk Vb0 _ IH].
  - rewrite app_assoc. apply NESep_eof; [apply white_app; assumption|exact Nl|exact Vb].
  - rewrite <- !app_assoc. apply NESep_line; assumption.
  - rewrite <- !app_assoc. apply (NESep_block ws0 d); assumption.
Qed.

Lemma nend_separator_final e : nend_separator e -> nend_separator (e ++ final_comment ws body).
Proof.
  induction 1 as [s S|ws0 b W0 Nb Vb0|ws0 b s W0 Nb Vb0 _ IH|ws0 d b s W0 Cb Dk Vb0 _ IH].
  - now apply nseparator_final.
  - unfold final_comment. rewrite <- !app_assoc. now apply eof_extend.
  - rewrite <- !app_assoc. apply NESep_line; assumption.
  - rewrite <- !app_assoc. apply (NESep_block ws0 d); assumption.
Qed.

Lemma final_comment_follow v : v <> TDivide -> follow_ok v (final_comment ws body).
Proof.
  intros Nd. unfold final_comment. destruct v; cbn [follow_ok]; try exact I; try congruence.
  - destruct ws as [|x r]; cbn [app]; [reflexivity|]. inversion W as [|? ? Hx _]. unfold ws_byte in Hx. unfold ident_char, ident_start. lia.
  - destruct ws as [|x r]; cbn [app]; [reflexivity|]. inversion W as [|? ? Hx _]. unfold ws_byte in Hx. unfold ident_char, ident_start. lia.
Qed.
End Final.

(* ------------------------------------------------------------------ separators of a whole text *)
Lemma follow_ok_app v F c : follow_ok v F -> (F = [] -> follow_ok v c) -> follow_ok v (F ++ c).
Proof. destruct F as [|b F']; [intros _ H; apply H; reflexivity|]. intros H _. destruct v; exact H. Qed.

Lemma nseps_ok_add_end : forall ts seps c, Forall tok_ok ts -> nseps_ok ts seps ->
  (forall e, nend_separator e -> nend_separator (e ++ c)) -> follow_ok (last ts TTerminator) c ->
  nseps_ok ts (add_end ts seps c).
Proof.
  induction ts as [|v r IH]; intros seps c Ok So He Hl.
  - cbn [add_end nseps_ok hd]. apply He. exact So.
  - cbn [add_end nseps_ok hd tl]. destruct So as [S [Fo So]]. inversion Ok as [|? ? Ov Or]; subst.
    split; [exact S|]. split.
    + rewrite show_add_end. apply follow_ok_app; [exact Fo|]. intros E0.
      destruct r as [|v' r']; [exact Hl|]. exfalso.
      cbn [show] in E0. apply app_eq_nil in E0. destruct E0 as [_ E0]. apply app_eq_nil in E0. destruct E0 as [E0 _].
      destruct So as [_ [Fo' _]]. inversion Or as [|? ? Ov' _]; subst.
      destruct (show_tok_facts v' _ Ov' Fo') as [Ne _]. exact (Ne E0).
    + apply IH; [exact Or|exact So|exact He|]. destruct r as [|v' r']; [exact I|exact Hl].
Qed.

Lemma wfollow_ok_app w F c : wfollow_ok w F -> (F = [] -> wfollow_ok w c) -> wfollow_ok w (F ++ c).
Proof.
  destruct w as [v|rx u z n|l|items]; cbn [wfollow_ok]; try (intros; exact I); apply follow_ok_app.
Qed.

Lemma nwseps_ok_add_end : forall ws seps c, Forall wtok_ok ws -> nwseps_ok ws seps ->
  (forall e, nend_separator e -> nend_separator (e ++ c)) -> wfollow_ok (last ws (WTok TTerminator)) c ->
  nwseps_ok ws (add_end ws seps c).
Proof.
  induction ws as [|v r IH]; intros seps c Ok So He Hl.
  - cbn [add_end nwseps_ok hd]. apply He. exact So.
  - cbn [add_end nwseps_ok hd tl]. destruct So as [S [Fo So]]. inversion Ok as [|? ? Ov Or]; subst.
    split; [exact S|]. split.
    + rewrite showw_add_end. apply wfollow_ok_app; [exact Fo|]. intros E0.
      destruct r as [|v' r']; [exact Hl|]. exfalso.
      cbn [showw] in E0. apply app_eq_nil in E0. destruct E0 as [_ E0]. apply app_eq_nil in E0. destruct E0 as [E0 _].
      destruct So as [_ [Fo' _]]. inversion Or as [|? ? Ov' _]; subst.
      destruct (wtok_facts v' _ Ov' Fo') as [Ne _]. exact (Ne E0).
    + apply IH; [exact Or|exact So|exact He|]. destruct r as [|v' r']; [exact I|exact Hl].
Qed.

(* a statement sequence ends in `;` or `:` - never in a `/` that would fuse with the comment opener *)
Lemma last_app_ne {A} (a b : list A) d : b <> [] -> last (a ++ b) d = last b d.
Proof.
  intros Nb. induction a as [|x a IH]; [reflexivity|]. cbn [app]. rewrite <- IH.
  destruct (a ++ b) eqn:E; [apply app_eq_nil in E; destruct E; congruence|reflexivity].
Qed.

Lemma render_stmt_last e : render_stmt e <> [] /\ (last (render_stmt e) TTerminator = TTerminator \/ last (render_stmt e) TTerminator = TLabelMark).
Proof.
  destruct e as [n|n a|n a]; cbn [render_stmt]; (split; [discriminate|]).
  - right. reflexivity.
  - left. change (TDirectiveMark :: TIdentifier n :: render_list a true ++ [TTerminator])
      with ((TDirectiveMark :: TIdentifier n :: render_list a true) ++ [TTerminator]). apply last_last.
  - left. change (TIdentifier n :: render_list a true ++ [TTerminator]) with ((TIdentifier n :: render_list a true) ++ [TTerminator]).
    apply last_last.
Qed.

Lemma render_stmts_last stmts : last (render_stmts stmts) TTerminator = TTerminator \/ last (render_stmts stmts) TTerminator = TLabelMark.
Proof.
  induction stmts as [|e l IH]; [left; reflexivity|].
  change (render_stmts (e :: l)) with (render_stmt e ++ render_stmts l).
  destruct (render_stmts l) as [|x r] eqn:E.
  - rewrite app_nil_r. apply render_stmt_last.
  - rewrite last_app_ne by discriminate. exact IH.
Qed.

Lemma rendstmt_last e X : RendStmt e X -> X <> [] /\ (last X TTerminator = TTerminator \/ last X TTerminator = TLabelMark).
Proof.
  intros [n|n a Y _|n a Y _]; (split; [discriminate|]).
  - right. reflexivity.
  - left. change (TDirectiveMark :: TIdentifier n :: Y ++ [TTerminator]) with ((TDirectiveMark :: TIdentifier n :: Y) ++ [TTerminator]).
    apply last_last.
  - left. change (TIdentifier n :: Y ++ [TTerminator]) with ((TIdentifier n :: Y) ++ [TTerminator]). apply last_last.
Qed.

Lemma rendstmts_last stmts X : RendStmts stmts X -> last X TTerminator = TTerminator \/ last X TTerminator = TLabelMark.
Proof.
  induction 1 as [|e l X Y RX _ IH]; [left; reflexivity|].
  destruct Y as [|y Y'].
  - rewrite app_nil_r. apply (rendstmt_last e X RX).
  - rewrite last_app_ne by discriminate. exact IH.
Qed.

Lemma last_map {A B} (f : A -> B) (l : list A) d : last (map f l) (f d) = f (last l d).
Proof. induction l as [|x l IH]; [reflexivity|]. cbn [map]. destruct l as [|y l']; [reflexivity|]. exact IH. Qed.

(* ------------------------------------------------------------------ the round trips *)
(* any text of C09_text_roundtrip_nested followed by  ws // body  (no line feed after it) *)
Theorem text_roundtrip_final_comment stmts seps ws body :
  forallb writable_stmt stmts = true -> nseps_ok (render_stmts stmts) seps ->
  white ws -> Forall (fun b => b <> 10) body -> Valid body ->
  exists els, parse_bytes (show (render_stmts stmts) seps ++ final_comment ws body)
                = Some (Done (map IOk els) [PollNone; PollNone; PollNone]) /\
              map e_val els = stmts.
Proof.
  intros Wr So W Nl Vb. rewrite <- show_add_end. apply text_roundtrip_nested; [exact Wr|].
  apply nseps_ok_add_end; [apply render_stmts_tok_ok; exact Wr|exact So| |].
  - intros e He. apply nend_separator_final; assumption.
  - apply final_comment_follow; [exact W|]. destruct (render_stmts_last stmts) as [-> | ->]; discriminate.
Qed.

(* ... with any spelling of the tokens and any valid parenthesisation *)
Theorem textw_roundtrip_final_comment stmts wts seps ws body :
  RendStmts stmts (map wtok_val wts) -> Forall wtok_ok wts -> nwseps_ok wts seps ->
  white ws -> Forall (fun b => b <> 10) body -> Valid body ->
  exists els, parse_bytes (showw wts seps ++ final_comment ws body)
                = Some (Done (map IOk els) [PollNone; PollNone; PollNone]) /\
              map e_val els = stmts.
Proof.
  intros R Ok So W Nl Vb. rewrite <- showw_add_end. apply textw_roundtrip_nested; [exact R|exact Ok|].
  apply nwseps_ok_add_end; [exact Ok|exact So| |].
  - intros e He. apply nend_separator_final; assumption.
  - (* the last token is `;` or `:` however it is spelled *)
    pose proof (rendstmts_last _ _ R) as L. pose proof (last_map wtok_val wts (WTok TTerminator)) as LM.
    cbn [wtok_val] in LM. rewrite LM in L. clear LM.
    destruct (last wts (WTok TTerminator)) as [v|rx u z n|l|items]; cbn [wfollow_ok wtok_val] in *; try exact I.
    + destruct L as [-> | ->]; exact I.
    + destruct L as [L|L]; discriminate L.
Qed.

(* ------------------------------------------------------------------ example *)
(* `.d 1;//x //end` : the last separator `//x` is itself a line comment without line feed; ` //end` is appended to it *)
Definition ex_final_stmt : element_value := EDirective [100] [AConst 1].
Definition ex_final_seps : list str := [[]; []; [32]; []; [47; 47; 120]].
Definition ex_final_ws : str := [32].
Definition ex_final_body : str := [101; 110; 100].

Lemma ex_final_ok : forallb writable_stmt [ex_final_stmt] = true /\ nseps_ok (render_stmts [ex_final_stmt]) ex_final_seps /\
  white ex_final_ws /\ Forall (fun b => b <> 10) ex_final_body /\ Valid ex_final_body.
Proof.
  split; [reflexivity|]. split.
  - cbn. repeat split; try solve [apply NSep_ws; repeat constructor].
    apply (NESep_eof [] [120]); [constructor|repeat constructor; lia|].
    apply Valid_cons_ascii; [lia|apply V_nil].
  - split; [repeat constructor|]. split; [repeat constructor; lia|].
    repeat (apply Valid_cons_ascii; [lia|]). apply V_nil.
Qed.

Lemma ex_final_run :
  show (render_stmts [ex_final_stmt]) ex_final_seps ++ final_comment ex_final_ws ex_final_body
    = [46; 100; 32; 49; 59; 47; 47; 120; 32; 47; 47; 101; 110; 100] /\
  parse_bytes (show (render_stmts [ex_final_stmt]) ex_final_seps ++ final_comment ex_final_ws ex_final_body)
    = Some (Done [IOk (mkElement 1 1 ex_final_stmt)] [PollNone; PollNone; PollNone]) /\
  parse_bytes [46; 100; 32; 49; 59; 32; 47; 47] = Some (Done [IOk (mkElement 1 1 ex_final_stmt)] [PollNone; PollNone; PollNone]).
Proof. vm_compute. repeat split. Qed.
