(* C12 oracle: the source position of the character that follows `prefix`.
   line   = 1 + number of line feeds in the prefix,
   column = 1 + number of characters since the last line feed, counting one per UTF-8 sequence
            (i.e. every byte that is not a continuation byte),
   both saturating at u32::MAX as Positioned{line: u32, col: u32} does. *)
From Coq Require Import NArith List.
From Trion Require Import Base.Utf8.
Import ListNotations.
Open Scope N_scope.

Definition sat32 (x : N) : N := N.min x 4294967295.

(* the text after the last line feed (the whole text if there is none) *)
Fixpoint last_line_acc (acc p : list N) : list N :=
  match p with
  | [] => acc
  | b :: r => if b =? 10 then last_line_acc [] r else last_line_acc (acc ++ [b]) r
  end.
Definition last_line (p : list N) : list N := last_line_acc [] p.

Definition count_lf (p : list N) : N := N.of_nat (length (filter (fun b => b =? 10) p)).
Definition count_chars (p : list N) : N := N.of_nat (length (filter (fun b => negb (is_cont b)) p)).

Definition pos_of (prefix : list N) : N * N :=
  (sat32 (1 + count_lf prefix), sat32 (1 + count_chars (last_line prefix))).
