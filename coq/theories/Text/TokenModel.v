(* Executable model of src/text/token/mod.rs (Tokenizer) on UTF-8 byte lists, following the code arm by arm
   AFTER the repairs 095ccca (F15: the block comment scanner slices bytes) and 57c20b3 (F16: control guard is `||`).
   Every `&str` slice is an explicit char-boundary test, every index / unwrap / assert_eq! an explicit check;
   a failed check is the outcome `Panic site`.  Loops run on fuel computed from the data length (`OutOfFuel`).
   usize is unbounded here (inputs are shorter than 2^64 bytes); u32 line/col saturate as in the code;
   the i32 nesting counter of the comment scanner wraps (release profile; it needs > 2^31 openers to matter).
   No proofs in this file (see TokenProofs.v). *)
From Coq Require Import ZArith NArith List Bool Arith.
From Trion Require Import Base.Utf8 Text.Types.
Import ListNotations.
Open Scope N_scope.

(* ---------------------------------------------------------------- outcomes *)
Inductive outcome (A : Type) : Type := Ok (a : A) | Panic (site : N) | OutOfFuel.
Arguments Ok {A} a.
Arguments Panic {A} site.
Arguments OutOfFuel {A}.

Definition bind {A B} (o : outcome A) (f : A -> outcome B) : outcome B :=
  match o with Ok a => f a | Panic s => Panic s | OutOfFuel => OutOfFuel end.
Notation "x <- e ;; f" := (bind e (fun x => f)) (at level 61, e at next level, right associativity).
Notation "' pat <- e ;; f" := (bind e (fun pat => f)) (at level 61, pat pattern, e at next level, right associativity).

(* ---------------------------------------------------------------- state *)
(* struct Tokenizer: data (always a well-formed UTF-8 prefix of the input), utf_err, line, col.
   The `tokens` queue and the `token_err` slot belong to peek/peek_nth (parser model); with `next` alone they stay empty. *)
Record tstate := mkT { ts_data : str; ts_utf_err : bool; ts_line : N; ts_col : N }.
Definition item := (token + token_error)%type.

Definition set_data (st : tstate) (d : str) : tstate := mkT d (ts_utf_err st) (ts_line st) (ts_col st).
Definition set_pos (st : tstate) (l c : N) : tstate := mkT (ts_data st) (ts_utf_err st) l c.

(* Tokenizer::new: from_utf8, on error keep data[..valid_up_to] *)
Definition tok_new (bs : str) : tstate :=
  let n := valid_up_to bs in
  mkT (firstn n bs) (negb (Nat.eqb n (length bs))) 1 1.

(* Tokenizer::clear *)
Definition clear (st : tstate) : tstate := mkT [] false (ts_line st) (ts_col st).

(* Tokenizer::positioned *)
Definition pos_tok (st : tstate) (v : token_value) : token := mkToken (ts_line st) (ts_col st) v.
Definition pos_err (st : tstate) (k : token_error_kind) : token_error := mkTokErr (ts_line st) (ts_col st) k.

(* ---------------------------------------------------------------- machine integers *)
Definition u32_max : N := 4294967295.
(* u32::try_from(n).unwrap_or(u32::MAX) *)
Definition u32_of_usize (n : nat) : N := let x := N.of_nat n in if x <=? u32_max then x else u32_max.
Definition sat_add32 (a b : N) : N := N.min (a + b) u32_max.
(* the block comment depth counter is a usize (fix ac45016; it was an inferred i32): wrapping arithmetic on 64 bits.
   It counts at most one opener per two bytes, so on a real input (a slice is shorter than 2^63 bytes) it never wraps. *)
Definition wrap_usize (z : Z) : Z := (z mod 18446744073709551616)%Z.

(* ---------------------------------------------------------------- str / slice primitives *)
Definition slice_from (site : N) (d : str) (n : nat) : outcome str :=
  if is_char_boundary d n then Ok (skipn n d) else Panic site.
Definition slice_to (site : N) (d : str) (n : nat) : outcome str :=
  if is_char_boundary d n then Ok (firstn n d) else Panic site.
Definition slice (site : N) (d : str) (a b : nat) : outcome str :=
  if (a <=? b)%nat && is_char_boundary d a && is_char_boundary d b then Ok (firstn (b - a) (skipn a d)) else Panic site.
Definition byte_at (site : N) (d : str) (n : nat) : outcome N :=
  match nth_error d n with Some b => Ok b | None => Panic site end.

(* Iterator::position / rposition / filter().count() over bytes() *)
Fixpoint position (p : N -> bool) (d : str) : option nat :=
  match d with
  | [] => None
  | b :: r => if p b then Some O else match position p r with Some i => Some (S i) | None => None end
  end.
Fixpoint rposition (p : N -> bool) (d : str) : option nat :=
  match d with
  | [] => None
  | b :: r => match rposition p r with Some i => Some (S i) | None => if p b then Some O else None end
  end.
Definition count (p : N -> bool) (d : str) : nat := length (filter p d).

Fixpoint starts_with (p d : str) : bool :=
  match p, d with
  | [], _ => true
  | x :: p', y :: d' => (x =? y) && starts_with p' d'
  | _ :: _, [] => false
  end.

(* chars().next() on a str: None at the end; a str whose head is not a well-formed sequence breaks the type invariant *)
Definition chars_next (site : N) (d : str) : outcome (option (N * str)) :=
  match d with
  | [] => Ok None
  | _ => match decode_char d with
         | Some (c, n) => Ok (Some (c, skipn n d))
         | None => Panic site
         end
  end.

Definition is_lf (b : N) : bool := b =? 10.
Definition is_ws (b : N) : bool := (b =? 9) || (b =? 10) || (b =? 13) || (b =? 32).

(* ---------------------------------------------------------------- update_pos *)
Definition update_pos (st : tstate) (d : str) : outcome tstate :=
  let lines := u32_of_usize (count is_lf d) in
  let st1 := if 0 <? lines then set_pos st (sat_add32 (ts_line st) lines) 1 else st in
  tail <- slice_from 10 d (match rposition is_lf d with None => O | Some v => S v end) ;;
  let cols := u32_of_usize (count (fun b => negb (is_cont b)) tail) in
  Ok (set_pos st1 (ts_line st1) (sat_add32 (ts_col st1) cols)).

(* ---------------------------------------------------------------- comments *)
(* The `position` closure of the block comment scanner over data.as_bytes()[..len-1], enumerate().skip(2):
   l = the bytes from index p on; a byte is visited only if it has a successor (p < len - 1), and
   data[p + 1] is that successor.  Result: the closure's hit index counted after the skip (p - 2). *)
Fixpoint block_go (l : str) (p start : nat) (depth : Z) : option nat :=
  match l with
  | b :: ((nx :: _) as rest) =>
      let '(start', depth') :=
        if (b =? 47) && (start <=? p)%nat && (nx =? 42) then (p + 2, wrap_usize (depth + 1))%nat
        else if (b =? 42) && (start <=? p)%nat && (nx =? 47) then (p + 2, wrap_usize (depth - 1))%nat
        else (start, depth) in
      if (depth' =? 0)%Z then Some (p - 2)%nat else block_go rest (S p) start' depth'
  | _ => None
  end.
Definition block_scan (d : str) : option nat := block_go (skipn 2 d) 2 2 1.

(* result of the `while self.data.len() > 0` loop of next_token *)
Inductive skip_res := SkReturn (r : option item) | SkBreak.

Fixpoint skip_loop (fuel : nat) (st : tstate) : outcome (skip_res * tstate) :=
  match ts_data st with
  | [] => Ok (SkBreak, st)
  | _ =>
    match fuel with
    | O => OutOfFuel
    | S f =>
      let d := ts_data st in
      let sb := match position (fun b => negb (is_ws b)) d with None => length d | Some c => c end in
      st1 <- (if (0 <? sb)%nat then
                pre <- slice_to 1 d sb ;;
                st' <- update_pos st pre ;;
                rest <- slice_from 2 d sb ;;
                Ok (set_data st' rest)
              else Ok st) ;;
      let d := ts_data st1 in
      if starts_with [47; 47] d then
        match position is_lf d with
        | None =>
            st2 <- update_pos st1 d ;;
            let ue := ts_utf_err st2 in
            let st3 := clear st2 in
            if ue then Ok (SkReturn (Some (inr (pos_err st3 BadUnicode))), st3)
            else skip_loop f st3
        | Some ll =>
            rest <- slice_from 3 d (ll + 1) ;;
            skip_loop f (mkT rest (ts_utf_err st1) (sat_add32 (ts_line st1) 1) 1)
        end
      else if starts_with [47; 42] d then
        match d with
        | [] => Panic 4    (* data.len() - 1 *)
        | _ =>
          match block_scan d with
          | Some k =>
              pre <- slice_to 5 d (4 + k) ;;
              st2 <- update_pos st1 pre ;;
              rest <- slice_from 6 d (4 + k) ;;
              skip_loop f (set_data st2 rest)
          | None =>
              st2 <- update_pos st1 d ;;
              let err := if ts_utf_err st2 then BadUnicode else BlockComment in
              let st3 := clear st2 in
              Ok (SkReturn (Some (inr (pos_err st3 err))), st3)
          end
        end
      else Ok (SkBreak, st1)
    end
  end.

(* ---------------------------------------------------------------- numbers *)
(* char::to_digit(radix) of a byte cast to char, radix <= 36 *)
Definition to_digit (radix b : N) : option N :=
  let d := if (48 <=? b) && (b <=? 57) then Some (b - 48)
           else if 10 <? radix then
             (if (97 <=? b) && (b <=? 122) then Some (b - 97 + 10)
              else if (65 <=? b) && (b <=? 90) then Some (b - 65 + 10) else None)
           else None in
  match d with Some v => if v <? radix then Some v else None | None => None end.
Definition is_digit (radix b : N) : bool := match to_digit radix b with Some _ => true | None => false end.

Definition i64_max : Z := 9223372036854775807.
Definition i64_min : Z := (-9223372036854775808)%Z.

(* digits of a non-negative number: checked acc * radix + d *)
Fixpoint fold_pos (radix : N) (maxv : Z) (s : str) (acc : Z) : option Z :=
  match s with
  | [] => Some acc
  | c :: r => match to_digit radix c with
              | None => None
              | Some d => let v := (acc * Z.of_N radix + Z.of_N d)%Z in
                          if (v <=? maxv)%Z then fold_pos radix maxv r v else None
              end
  end.
Fixpoint fold_neg (radix : N) (minv : Z) (s : str) (acc : Z) : option Z :=
  match s with
  | [] => Some acc
  | c :: r => match to_digit radix c with
              | None => None
              | Some d => let v := (acc * Z.of_N radix - Z.of_N d)%Z in
                          if (minv <=? v)%Z then fold_neg radix minv r v else None
              end
  end.

(* i64::from_str_radix: empty -> Err; a lone sign -> Err; '+' / '-' accepted in front *)
Definition i64_from_str_radix (s : str) (radix : N) : option Z :=
  match s with
  | [] => None
  | c :: r =>
      if (c =? 43) || (c =? 45) then
        match r with
        | [] => None
        | _ => if c =? 43 then fold_pos radix i64_max r 0%Z else fold_neg radix i64_min r 0%Z
        end
      else fold_pos radix i64_max s 0%Z
  end.

(* u32::from_str_radix: like above, but '-' is not a sign of an unsigned type (it is an invalid digit) *)
Definition u32_from_str_radix (s : str) (radix : N) : option Z :=
  match s with
  | [] => None
  | c :: r =>
      if (c =? 43) || (c =? 45) then
        match r with
        | [] => None
        | _ => if c =? 43 then fold_pos radix (Z.of_N u32_max) r 0%Z else fold_pos radix (Z.of_N u32_max) s 0%Z
        end
      else fold_pos radix (Z.of_N u32_max) s 0%Z
  end.

Definition char_from_u32 (v : Z) : option N :=
  let c := Z.to_N v in if is_scalar c then Some c else None.

(* ---------------------------------------------------------------- do_next *)
(* an error return of do_next; next_token then clears the tokenizer (most sites have cleared already) *)
Definition fail (st : tstate) (k : token_error_kind) : outcome (item * tstate) :=
  let st' := clear st in Ok (inr (pos_err st' k), st').

(* the common tail of do_next: position the token, advance col (ASCII fast path) or update_pos, cut the data *)
Definition finish (st : tstate) (n : nat) (ascii_ln : bool) (v : token_value) : outcome (item * tstate) :=
  let tok := pos_tok st v in
  let d := ts_data st in
  st1 <- (if ascii_ln then Ok (set_pos st (ts_line st) (sat_add32 (ts_col st) (u32_of_usize n)))
          else pre <- slice_to 20 d n ;; update_pos st pre) ;;
  rest <- slice_from 21 d n ;;
  Ok (inl tok, set_data st1 rest).

(* `None if self.utf_err` arms of numbers and identifiers *)
Definition fail_utf_tail (st : tstate) : outcome (item * tstate) :=
  let st1 := set_pos st (ts_line st) (sat_add32 (ts_col st) (u32_of_usize (length (ts_data st)))) in
  fail st1 BadUnicode.

Definition do_number (st : tstate) : outcome (item * tstate) :=
  let d := ts_data st in
  let '(off, radix) := if starts_with [48; 98] d then (2%nat, 2)
                       else if starts_with [48; 111] d then (2%nat, 8)
                       else if starts_with [48; 120] d then (2%nat, 16)
                       else (0%nat, 10) in
  tail <- slice_from 30 d off ;;
  let go (len : nat) :=
    text <- slice 31 d off (off + len) ;;
    match i64_from_str_radix text radix with
    | Some v => finish st (off + len) true (TNumber v)
    | None => fail st BadNumber
    end in
  match position (fun b => negb (is_digit radix b)) tail with
  | None => if ts_utf_err st then fail_utf_tail st else go (length d - off)%nat
  | Some n => go n
  end.

Definition do_char (st : tstate) : outcome (item * tstate) :=
  let d := ts_data st in
  let ue := ts_utf_err st in
  tail <- slice_from 40 d 1 ;;
  r1 <- chars_next 41 tail ;;
  (* result: inl (n, c, rest of chars) | inr utf_err *)
  res <- match r1 with
         | None => Ok (inr ue)
         | Some (c, rest1) =>
             if c =? 92 then
               r2 <- chars_next 42 rest1 ;;
               match r2 with
               | None => Ok (inr ue)
               | Some (e, rest2) =>
                   if e =? 116 then Ok (inl (2%nat, 9, rest2))
                   else if e =? 110 then Ok (inl (2%nat, 10, rest2))
                   else if e =? 114 then Ok (inl (2%nat, 13, rest2))
                   else if (e =? 34) || (e =? 39) || (e =? 92) then Ok (inl (2%nat, e, rest2))
                   else Ok (inr false)
               end
             else if (c =? 9) || ((32 <=? c) && (c <=? 126)) || (128 <=? c) then Ok (inl (len_utf8 c, c, rest1))
             else Ok (inr false)
         end ;;
  res2 <- match res with
          | inr e => Ok (inr e)
          | inl (n, c, rest) =>
              r3 <- chars_next 43 rest ;;
              match r3 with
              | None => Ok (inr ue)
              | Some (q, _) => if q =? 39 then Ok (inl (n, c)) else Ok (inr false)
              end
          end ;;
  match res2 with
  | inl (n, c) => finish st (1 + n + 1) (c <? 128) (TNumber (Z.of_N c))
  | inr true => st' <- update_pos st d ;; fail st' BadUnicode
  | inr false => fail st BadCharacter
  end.

Definition is_ident_byte (b : N) : bool :=
  (b =? 36) || (b =? 46) || ((48 <=? b) && (b <=? 57)) || (b =? 64) || ((65 <=? b) && (b <=? 90)) || (b =? 95) || ((97 <=? b) && (b <=? 122)).

Definition do_ident (st : tstate) : outcome (item * tstate) :=
  let d := ts_data st in
  match position (fun b => negb (is_ident_byte b)) d with
  | None => if ts_utf_err st then fail_utf_tail st
            else id <- slice_to 50 d (length d) ;; finish st (length d) true (TIdentifier id)
  | Some n => id <- slice_to 50 d n ;; finish st n true (TIdentifier id)
  end.

(* the scan predicate of the string loop *)
Definition str_special (b : N) : bool := (b =? 34) || (b =? 92) || ((b <? 32) && negb (b =? 9)) || (b =? 127).

(* `None` arms inside the string scanner *)
Definition fail_str_end (st : tstate) : outcome (item * tstate) :=
  if ts_utf_err st then st' <- update_pos st (ts_data st) ;; fail st' BadUnicode else fail st BadString.

Fixpoint str_loop (fuel : nat) (st : tstate) (pos : nat) (escaped : str) : outcome (item * tstate) :=
  match fuel with
  | O => OutOfFuel
  | S f =>
    let d := ts_data st in
    tail <- slice_from 60 d pos ;;
    match position str_special tail with
    | None => fail_str_end st
    | Some off =>
      c <- byte_at 61 d (pos + off) ;;
      if (c <? 32) || (127 <=? c) then fail st BadString
      else if c =? 92 then
        '(escaped, pos) <- (if (0 <? off)%nat then s <- slice 62 d pos (pos + off) ;; Ok (escaped ++ s, (pos + off)%nat)
                            else Ok (escaped, pos)) ;;
        if (length d - pos <? 3)%nat then fail st BadString
        else
          e <- byte_at 63 d (pos + 1) ;;
          if e =? 48 then str_loop f st (pos + 2) (escaped ++ [0])
          else if e =? 116 then str_loop f st (pos + 2) (escaped ++ [9])
          else if e =? 110 then str_loop f st (pos + 2) (escaped ++ [10])
          else if e =? 114 then str_loop f st (pos + 2) (escaped ++ [13])
          else if (e =? 34) || (e =? 39) || (e =? 92) then str_loop f st (pos + 2) (escaped ++ [e])
          else if e =? 117 then
            b2 <- byte_at 64 d (pos + 2) ;;
            if b2 =? 123 then
              t3 <- slice_from 65 d (pos + 3) ;;
              match position (fun b => b =? 125) (firstn 7 t3) with
              | None => fail_str_end st
              | Some en =>
                  hex <- slice 66 d (pos + 3) (pos + 3 + en) ;;
                  match match u32_from_str_radix hex 16 with Some v => char_from_u32 v | None => None end with
                  | Some ch => str_loop f st (pos + en + 2 + 2) (escaped ++ encode_char ch)
                  | None => fail st BadString
                  end
              end
            else fail st BadString
          else fail st BadString
      else if c =? 34 then
        escaped <- (if negb (match escaped with [] => true | _ => false end) && (0 <? off)%nat
                    then s <- slice 67 d pos (pos + off) ;; Ok (escaped ++ s) else Ok escaped) ;;
        let pos := (pos + off + 1)%nat in
        val <- (match escaped with
                | [] => slice 68 d 1 (pos - 1)      (* Arcob::Borrowed(&self.data[1..pos - 1]) *)
                | _ => Ok escaped                    (* Arcob::Arced(escaped.into()) *)
                end) ;;
        finish st pos false (TString val)
      else Panic 69     (* assert_eq!(c, quote) *)
    end
  end.

Definition do_string (st : tstate) : outcome (item * tstate) := str_loop (length (ts_data st)) st 1 [].

Definition do_next (st : tstate) : outcome (item * tstate) :=
  let d := ts_data st in
  match d with
  | [] => Panic 70     (* self.data.as_bytes()[0] *)
  | b :: r =>
    let p1 := finish st 1 true in
    if b =? 44 then p1 TSeparator
    else if b =? 59 then p1 TTerminator
    else if b =? 58 then p1 TLabelMark
    else if b =? 46 then p1 TDirectiveMark
    else if b =? 43 then p1 TPlus
    else if b =? 45 then p1 TMinus
    else if b =? 42 then p1 TMultiply
    else if b =? 47 then p1 TDivide
    else if b =? 37 then p1 TModulo
    else if b =? 33 then p1 TNot
    else if b =? 38 then p1 TBitAnd
    else if b =? 124 then p1 TBitOr
    else if b =? 94 then p1 TBitXor
    else if (b =? 60) && (match r with b1 :: _ => b1 =? 60 | [] => false end) then finish st 2 true TLeftShift
    else if (b =? 62) && (match r with b1 :: _ => b1 =? 62 | [] => false end) then finish st 2 true TRightShift
    else if (48 <=? b) && (b <=? 57) then do_number st
    else if b =? 39 then do_char st
    else if ((65 <=? b) && (b <=? 90)) || (b =? 95) || ((97 <=? b) && (b <=? 122)) then do_ident st
    else if b =? 34 then do_string st
    else if b =? 40 then p1 TBeginGroup
    else if b =? 41 then p1 TEndGroup
    else if b =? 91 then p1 TBeginAddr
    else if b =? 93 then p1 TEndAddr
    else if b =? 123 then p1 TBeginSeq
    else if b =? 125 then p1 TEndSeq
    else
      r1 <- chars_next 71 d ;;
      match r1 with
      | Some (c, _) => fail st (Unexpected c)
      | None => Panic 72      (* chars().next().unwrap() *)
      end
  end.

(* ---------------------------------------------------------------- next_token *)
(* also reports how many bytes were left when the returned item's position was taken (token start) *)
Definition next_token_rem (st : tstate) : outcome ((option item * tstate) * nat) :=
  '(sr, st1) <- skip_loop (S (length (ts_data st))) st ;;
  match sr with
  | SkReturn r => Ok ((r, st1), length (ts_data st1))
  | SkBreak =>
      match ts_data st1 with
      | _ :: _ =>
          '(it, st2) <- do_next st1 ;;
          match it with
          | inr e => Ok ((Some (inr e), clear st2), length (ts_data st1))
          | inl t => Ok ((Some (inl t), st2), length (ts_data st1))
          end
      | [] =>
          if ts_utf_err st1 then
            let st2 := mkT (ts_data st1) false (ts_line st1) (ts_col st1) in
            Ok ((Some (inr (pos_err st2 BadUnicode)), st2), O)
          else Ok ((None, st1), O)
      end
  end.

Definition next_token (st : tstate) : outcome (option item * tstate) :=
  r <- next_token_rem st ;; Ok (fst r).

(* Iterator::next with an empty queue and no stored error (nothing else can arise without peek) *)
Definition iter_next := next_token.

(* ---------------------------------------------------------------- whole runs *)
Fixpoint unfold_rem (fuel : nat) (st : tstate) : outcome (list (item * nat) * tstate) :=
  match fuel with
  | O => OutOfFuel
  | S f =>
      r <- next_token_rem st ;;
      match r with
      | ((None, st'), _) => Ok ([], st')
      | ((Some it, st'), rem) => '(l, st'') <- unfold_rem f st' ;; Ok ((it, rem) :: l, st'')
      end
  end.

Fixpoint polls (n : nat) (st : tstate) : outcome (list (option item)) :=
  match n with
  | O => Ok []
  | S k => '(r, st') <- iter_next st ;; l <- polls k st' ;; Ok (r :: l)
  end.

(* the items of Tokenizer::new(bs) until the first None (with the bytes left at each item's position), then three more polls *)
Definition tokens_rem (bs : str) : outcome (list (item * nat) * list (option item)) :=
  '(items, st) <- unfold_rem (length bs + 2) (tok_new bs) ;;
  ps <- polls 3 st ;;
  Ok (items, ps).

Definition tokens_all (bs : str) : outcome (list item * list (option item)) :=
  '(items, ps) <- tokens_rem bs ;; Ok (map fst items, ps).

(* byte offset of each item: length of the valid prefix minus what was left *)
Definition tokens_offsets (bs : str) : outcome (list (item * nat)) :=
  '(items, _) <- tokens_rem bs ;;
  Ok (map (fun x => (fst x, (valid_up_to bs - snd x)%nat)) items).
