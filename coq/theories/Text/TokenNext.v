(* Lemmas about the tokenizer model, part 2: do_next never panics, and what it consumes / where it positions. *)
From Coq Require Import ZArith NArith List Bool Arith Lia ZifyBool ZifyNat ZifyN.
From Trion Require Import Base.Sweep Base.Utf8 Text.Types Text.TokenModel Text.PosSpec Text.TokenLemmas.
Import ListNotations.
Open Scope N_scope.

Arguments pos_of : simpl never.
Arguments upd : simpl never.
Arguments sat_add32 : simpl never.
Arguments N.add : simpl never.
Arguments N.min : simpl never.

(* what one successful do_next call establishes *)
Definition tok_post (pre : str) (st : tstate) (it : item) (st' : tstate) : Prop :=
  Valid (ts_data st') /\
  match it with
  | inl t => exists text, ts_data st = text ++ ts_data st' /\ text <> [] /\ (t_line t, t_col t) = pos_of pre /\
                          pos_st st' = pos_of (pre ++ text) /\ ts_utf_err st' = ts_utf_err st
  | inr e => ts_data st' = [] /\ ts_utf_err st' = false /\ (te_kind e = BadUnicode -> ts_utf_err st = true)
  end.

Definition step_ok (pre : str) (st : tstate) (o : outcome (item * tstate)) : Prop :=
  exists it st', o = Ok (it, st') /\ tok_post pre st it st'.

Lemma fail_ok pre st st0 k : (k = BadUnicode -> ts_utf_err st = true) -> step_ok pre st (fail st0 k).
Proof. intros K. eexists _, _. split; [reflexivity|]. split; [constructor|]. cbn. auto. Qed.

Lemma fail_upd_ok pre st k : (k = BadUnicode -> ts_utf_err st = true) -> Valid (ts_data st) ->
  step_ok pre st (st' <- update_pos st (ts_data st) ;; fail st' k).
Proof. intros K V. rewrite (update_pos_ok _ _ V). cbn [bind]. now apply fail_ok. Qed.

Definition plain_ascii (x : N) : Prop := x < 128 /\ x <> 10.

Lemma ascii_facts text : Forall plain_ascii text ->
  count is_lf text = 0%nat /\ rposition is_lf text = None /\ count (fun b => negb (is_cont b)) text = length text.
Proof.
  unfold count. induction 1 as [|x t [Hx1 Hx2] Ht [I1 [I2 I3]]]; [auto|].
  cbn [filter rposition length]. rewrite I2.
  replace (is_lf x) with false by (unfold is_lf; lia).
  replace (negb (is_cont x)) with true by (unfold is_cont; lia).
  cbn [length]. auto.
Qed.

Lemma upd_ascii lc text : Forall plain_ascii text -> upd lc text = (fst lc, sat_add32 (snd lc) (u32_of_usize (length text))).
Proof.
  intros H. destruct (ascii_facts _ H) as [A [B C]]. unfold upd. rewrite A, B. cbn [skipn]. rewrite C. reflexivity.
Qed.

Lemma finish_ok st pre text rest a v :
  ts_data st = text ++ rest -> Valid (ts_data st) -> bnd (ts_data st) (length text) -> text <> [] ->
  pos_st st = pos_of pre -> (a = true -> Forall plain_ascii text) ->
  exists st', finish st (length text) a v = Ok (inl (pos_tok st v), st') /\ tok_post pre st (inl (pos_tok st v)) st' /\ ts_data st' = rest.
Proof.
  intros D V B Ne P A. unfold finish.
  assert (Sk : skipn (length text) (ts_data st) = rest) by (rewrite D, skipn_app, Nat.sub_diag, skipn_all; reflexivity).
  assert (Fi : firstn (length text) (ts_data st) = text) by (rewrite D, firstn_app, Nat.sub_diag, firstn_all; cbn; now rewrite app_nil_r).
  assert (Vr : Valid rest) by (rewrite <- Sk; now apply bnd_Valid_from).
  destruct a.
  - cbn [bind]. rewrite (slice_from_ok _ _ _ B), Sk. cbn [bind]. eexists. split; [reflexivity|]. split; [|reflexivity].
    split; [exact Vr|]. exists text. cbn [set_data set_pos ts_data ts_utf_err pos_tok t_line t_col].
    repeat split; auto. unfold pos_st in *. cbn [ts_line ts_col set_data set_pos].
    rewrite <- upd_pos_of, <- P, (upd_ascii _ _ (A eq_refl)). reflexivity.
  - rewrite (slice_to_ok _ _ _ B), Fi. cbn [bind].
    assert (Vt : Valid text) by (rewrite <- Fi; now apply bnd_Valid_to).
    rewrite (update_pos_ok _ _ Vt). cbn [bind].
    rewrite (slice_from_ok _ _ _ B), Sk. cbn [bind]. eexists. split; [reflexivity|]. split; [|reflexivity].
    split; [exact Vr|]. exists text. cbn [set_data set_pos ts_data ts_utf_err pos_tok t_line t_col].
    repeat split; auto. unfold pos_st in *. cbn [ts_line ts_col set_data set_pos].
    rewrite <- surjective_pairing, P. apply upd_pos_of.
Qed.

Lemma Forall_firstn_nth {A} (P : A -> Prop) n (d : list A) :
  (forall k y, (k < n)%nat -> nth_error d k = Some y -> P y) -> Forall P (firstn n d).
Proof.
  revert d. induction n as [|n IH]; intros d H; [constructor|]. destruct d as [|x d]; [constructor|].
  cbn [firstn]. constructor; [apply (H O x); [lia|reflexivity]|]. apply IH. intros k y Hk Hy. apply (H (S k) y); [lia|exact Hy].
Qed.

Lemma finish_ok_n st pre n a v :
  Valid (ts_data st) -> bnd (ts_data st) n -> (0 < n <= length (ts_data st))%nat -> pos_st st = pos_of pre ->
  (a = true -> forall k y, (k < n)%nat -> nth_error (ts_data st) k = Some y -> plain_ascii y) ->
  step_ok pre st (finish st n a v).
Proof.
  intros V B L P A.
  assert (Ln : length (firstn n (ts_data st)) = n) by (apply firstn_length_le; lia).
  destruct (finish_ok st pre (firstn n (ts_data st)) (skipn n (ts_data st)) a v) as [st' [E [T _]]]; auto.
  - now rewrite firstn_skipn.
  - now rewrite Ln.
  - intros Hn. apply (f_equal (@length N)) in Hn. rewrite Ln in Hn. cbn in Hn. lia.
  - intros Ha. apply Forall_firstn_nth. exact (A Ha).
  - rewrite Ln in E. eexists _, _. split; [exact E|exact T].
Qed.

(* a one- or two-byte ASCII punctuation token *)
Lemma punct1_ok st pre b r v : ts_data st = b :: r -> b < 128 -> b <> 10 -> Valid (ts_data st) -> pos_st st = pos_of pre ->
  step_ok pre st (finish st 1 true v).
Proof.
  intros D L N V P. apply finish_ok_n; auto.
  - apply (bnd_after_ascii _ 0 b V); [now rewrite D|exact L].
  - rewrite D. cbn. lia.
  - intros _ k y Hk Hy. assert (k = O) by lia. subst. rewrite D in Hy. injection Hy as <-. now split.
Qed.

Lemma punct2_ok st pre b r v : ts_data st = b :: b :: r -> b < 128 -> b <> 10 -> Valid (ts_data st) -> pos_st st = pos_of pre ->
  step_ok pre st (finish st 2 true v).
Proof.
  intros D L N V P. apply finish_ok_n; auto.
  - apply (bnd_after_ascii _ 1 b V); [now rewrite D|exact L].
  - rewrite D. cbn. lia.
  - intros _ k y Hk Hy. rewrite D in Hy. destruct k as [|[|k]]; [| |lia]; injection Hy as <-; now split.
Qed.

(* ---------------------------------------------------------------- numbers *)
Lemma is_digit_ascii radix y : is_digit radix y = true -> plain_ascii y.
Proof. unfold is_digit, to_digit, plain_ascii. ifs; intros H; try congruence; lia. Qed.

Lemma do_number_ok st pre b r : ts_data st = b :: r -> (48 <=? b) && (b <=? 57) = true ->
  Valid (ts_data st) -> pos_st st = pos_of pre -> step_ok pre st (do_number st).
Proof.
  intros D Hb V P. unfold do_number. set (d := ts_data st) in *.
  assert (OR : exists off radix,
    (if starts_with [48; 98] d then (2%nat, 2) else if starts_with [48; 111] d then (2%nat, 8)
     else if starts_with [48; 120] d then (2%nat, 16) else (0%nat, 10)) = (off, radix) /\
    bnd d off /\ (off <= length d)%nat /\ (forall k y, (k < off)%nat -> nth_error d k = Some y -> plain_ascii y) /\
    (off = 0%nat -> radix = 10)).
  { assert (G : forall x radix, x < 128 -> x <> 10 -> starts_with [48; x] d = true ->
               bnd d 2 /\ (2 <= length d)%nat /\ (forall k y, (k < 2)%nat -> nth_error d k = Some y -> plain_ascii y) /\ (2%nat = 0%nat -> radix = 10)).
    { intros x radix Lx Nx S. destruct (starts_with_2 _ _ _ S) as [t Et].
      split; [apply (bnd_after_ascii _ 1 x V); [now rewrite Et|exact Lx]|].
      split; [rewrite Et; cbn; lia|].
      split; [|discriminate].
      intros k y Hk Hy. rewrite Et in Hy. unfold plain_ascii. destruct k as [|[|k]]; [| |lia]; injection Hy as <-; lia. }
    destruct (starts_with [48; 98] d) eqn:S1; [eexists _, _; split; [reflexivity|apply (G 98 2); [lia|lia|exact S1]]|].
    destruct (starts_with [48; 111] d) eqn:S2; [eexists _, _; split; [reflexivity|apply (G 111 8); [lia|lia|exact S2]]|].
    destruct (starts_with [48; 120] d) eqn:S3; [eexists _, _; split; [reflexivity|apply (G 120 16); [lia|lia|exact S3]]|].
    eexists _, _; split; [reflexivity|]. split; [apply bnd_0|]. split; [lia|]. split; [intros; lia|reflexivity]. }
  destruct OR as [off [radix [E [Bo [Lo [Ao R0]]]]]]. rewrite E. clear E.
  rewrite (slice_from_ok _ _ _ Bo). cbn [bind].
  (* the continuation `go` for a digit span of n bytes *)
  assert (GO : forall n, bnd d (off + n) -> (0 < off + n <= length d)%nat ->
                (forall k y, (k < off + n)%nat -> nth_error d k = Some y -> plain_ascii y) ->
                step_ok pre st (text <- slice 31 d off (off + n) ;;
                                match i64_from_str_radix text radix with
                                | Some v => finish st (off + n) true (TNumber v)
                                | None => fail st BadNumber
                                end)).
  { intros n Bn Ln An. assert (Lon : (off <= off + n)%nat) by lia. rewrite (slice_ok _ _ _ _ Lon Bo Bn). cbn [bind].
    destruct (i64_from_str_radix _ radix); [|apply fail_ok; discriminate].
    apply finish_ok_n; auto. }
  destruct (position (fun b0 => negb (is_digit radix b0)) (skipn off d)) as [n|] eqn:Pn.
  - destruct (position_Some _ _ _ Pn) as [x [Hx [Px Hk]]]. rewrite nth_error_skipn in Hx.
    assert (An : forall k y, (k < off + n)%nat -> nth_error d k = Some y -> plain_ascii y).
    { intros k y Hk' Hy. destruct (Nat.lt_ge_cases k off) as [Lt|Ge]; [exact (Ao k y Lt Hy)|].
      apply (is_digit_ascii radix). specialize (Hk (k - off)%nat y ltac:(lia)). rewrite nth_error_skipn in Hk.
      replace (off + (k - off))%nat with k in Hk by lia. specialize (Hk Hy). now apply negb_false_iff in Hk. }
    assert (N0 : (0 < off + n)%nat).
    { destruct off; [|lia]. destruct n; [|lia]. exfalso. rewrite (R0 eq_refl) in Px. assert (Hx' : nth_error d 0 = Some x) by exact Hx. rewrite D in Hx'. injection Hx' as <-.
      unfold is_digit, to_digit in Px. revert Px. ifs; cbn; intros; try discriminate; lia. }
    apply GO; [|apply nth_error_Some_lt in Hx; lia|exact An].
    destruct (off + n)%nat as [|m] eqn:Em; [lia|].
    destruct (nth_error_lt_Some d m) as [y Hy]; [apply nth_error_Some_lt in Hx; lia|].
    apply (bnd_after_ascii _ _ y V Hy). apply (An m y ltac:(lia) Hy).
  - destruct (ts_utf_err st) eqn:Ue; [unfold fail_utf_tail; apply fail_ok; intros _; exact Ue|].
    pose proof (position_None _ _ Pn) as Hk.
    replace (off + (length d - off))%nat with (length d) by lia.
    specialize (GO (length d - off)%nat). replace (off + (length d - off))%nat with (length d) in GO by lia.
    apply GO; [apply bnd_end|rewrite D; cbn [length]; lia|].
    intros k y Hk' Hy. destruct (Nat.lt_ge_cases k off) as [Lt|Ge]; [exact (Ao k y Lt Hy)|].
    apply (is_digit_ascii radix). specialize (Hk (k - off)%nat y). rewrite nth_error_skipn in Hk.
    replace (off + (k - off))%nat with k in Hk by lia. specialize (Hk Hy). now apply negb_false_iff in Hk.
Qed.

(* ---------------------------------------------------------------- identifiers *)
Lemma is_ident_ascii y : is_ident_byte y = true -> plain_ascii y.
Proof. unfold is_ident_byte, plain_ascii. lia. Qed.

Lemma do_ident_ok st pre b r : ts_data st = b :: r -> is_ident_byte b = true ->
  Valid (ts_data st) -> pos_st st = pos_of pre -> step_ok pre st (do_ident st).
Proof.
  intros D Hb V P. unfold do_ident. set (d := ts_data st) in *.
  destruct (position (fun b0 => negb (is_ident_byte b0)) d) as [n|] eqn:Pn.
  - destruct (position_Some _ _ _ Pn) as [x [Hx [Px Hk]]].
    assert (An : forall k y, (k < n)%nat -> nth_error d k = Some y -> plain_ascii y).
    { intros k y Hk' Hy. apply is_ident_ascii. specialize (Hk k y Hk' Hy). now apply negb_false_iff in Hk. }
    assert (N0 : (0 < n)%nat).
    { destruct n; [|lia]. exfalso. rewrite D in Hx. injection Hx as <-. rewrite Hb in Px. discriminate. }
    assert (Bn : bnd d n).
    { destruct n as [|m]; [lia|]. destruct (nth_error_lt_Some d m) as [y Hy]; [apply nth_error_Some_lt in Hx; lia|].
      apply (bnd_after_ascii _ _ y V Hy). apply (An m y ltac:(lia) Hy). }
    rewrite (slice_to_ok _ _ _ Bn). cbn [bind]. apply finish_ok_n; auto. apply nth_error_Some_lt in Hx. fold d. lia.
  - destruct (ts_utf_err st) eqn:Ue; [unfold fail_utf_tail; apply fail_ok; intros _; exact Ue|].
    rewrite (slice_to_ok _ _ _ (bnd_end d)). cbn [bind]. apply finish_ok_n; auto; [apply bnd_end|fold d; rewrite D; cbn; lia|].
    intros _ k y Hk Hy. apply is_ident_ascii. pose proof (position_None _ _ Pn k y Hy) as H. now apply negb_false_iff in H.
Qed.

(* ---------------------------------------------------------------- character literals *)
Lemma chars_next_ok s d : Valid d ->
  (d = [] /\ chars_next s d = Ok None) \/
  exists c rest, chars_next s d = Ok (Some (c, rest)) /\ d = encode_char c ++ rest /\ Valid rest /\ is_scalar c = true.
Proof.
  intros V. destruct d as [|b r] eqn:Ed; [left; auto|right]. rewrite <- Ed in *.
  assert (Ne : d <> []) by (rewrite Ed; discriminate).
  destruct (decode_char_Valid d V Ne) as [c [n [Dc [En Ln]]]].
  destruct (decode_char_spec _ _ _ Dc) as [_ [Lc [Sc [t Et]]]].
  exists c, (skipn n d). unfold chars_next. rewrite Ed at 1. rewrite Dc.
  assert (Sk : skipn n d = t) by (rewrite Et at 1; rewrite <- Lc, <- encode_char_len, skipn_app, Nat.sub_diag, skipn_all; reflexivity).
  repeat split; auto.
  - now rewrite Sk.
  - rewrite En. clear -V Ne. inversion V as [|bs Hn Hr]; [congruence|]. exact Hr.
Qed.

Lemma bnd_app_after_ascii a x t : Valid (a ++ x :: t) -> x < 128 -> bnd (a ++ x :: t) (S (length a)).
Proof.
  intros V L. apply (bnd_after_ascii _ _ x V); [|exact L]. rewrite nth_error_app2 by lia. now rewrite Nat.sub_diag.
Qed.

Lemma encode_char_ascii c : c < 128 -> encode_char c = [c].
Proof. intros H. unfold encode_char. now replace (c <? 0x80) with true by (symmetry; apply N.ltb_lt; exact H). Qed.

Lemma do_char_ok st pre r : ts_data st = 39 :: r -> Valid (ts_data st) -> pos_st st = pos_of pre -> step_ok pre st (do_char st).
Proof.
  intros D V P. unfold do_char.
  assert (B1 : bnd (ts_data st) 1) by (apply (bnd_after_ascii _ 0 39 V); [now rewrite D|lia]).
  rewrite (slice_from_ok _ _ _ B1). cbn [bind].
  assert (Vr : Valid r) by (pose proof (bnd_Valid_from _ _ V B1) as H; now rewrite D in H).
  replace (skipn 1 (ts_data st)) with r by now rewrite D.
  (* the error exit *)
  assert (ERR : forall e : bool, (e = true -> ts_utf_err st = true) ->
                  step_ok pre st (match e with true => st' <- update_pos st (ts_data st) ;; fail st' BadUnicode | false => fail st BadCharacter end)).
  { intros [|] He; [apply fail_upd_ok; auto|apply fail_ok; discriminate]. }
  (* the success exit for a literal 39 :: body ++ 39 :: rest3 *)
  assert (OK : forall body rest3 n c, r = body ++ 39 :: rest3 -> n = length body ->
                 ((c <? 128) = true -> Forall plain_ascii body) ->
                 step_ok pre st (finish st (1 + n + 1) (c <? 128) (TNumber (Z.of_N c)))).
  { intros body rest3 n c Er En Ab.
    destruct (finish_ok st pre (39 :: body ++ [39]) rest3 (c <? 128) (TNumber (Z.of_N c))) as [st' [E [T _]]]; auto.
    - rewrite D, Er. cbn [app]. now rewrite <- app_assoc.
    - replace (length (39 :: body ++ [39])) with (S (length (39 :: body))) by (cbn [length]; rewrite app_length; cbn; lia).
      replace (ts_data st) with ((39 :: body) ++ 39 :: rest3) in * by (rewrite D, Er; reflexivity).
      apply bnd_app_after_ascii; [exact V|lia].
    - discriminate.
    - intros Hc. constructor; [unfold plain_ascii; lia|]. apply Forall_app. split; [exact (Ab Hc)|]. constructor; [unfold plain_ascii; lia|constructor].
    - replace (length (39 :: body ++ [39])) with (1 + n + 1)%nat in E by (cbn [length]; rewrite app_length; cbn; lia).
      eexists _, _. split; [exact E|exact T]. }
  (* closing quote after the character *)
  assert (CLOSE : forall n c body rest, r = body ++ rest -> Valid rest -> n = length body -> ((c <? 128) = true -> Forall plain_ascii body) ->
            step_ok pre st (res2 <- (r3 <- chars_next 43 rest ;;
                                     match r3 with
                                     | None => Ok (inr (ts_utf_err st))
                                     | Some (q, _) => if q =? 39 then Ok (inl (n, c)) else Ok (inr false)
                                     end) ;;
                            match res2 with
                            | inl (n, c) => finish st (1 + n + 1) (c <? 128) (TNumber (Z.of_N c))
                            | inr true => st' <- update_pos st (ts_data st) ;; fail st' BadUnicode
                            | inr false => fail st BadCharacter
                            end)).
  { intros n c body rest Er Vrest En Ab.
    destruct (chars_next_ok 43 rest Vrest) as [[_ E]|[q [rest3 [E [Eq [_ Sq]]]]]]; rewrite E; cbn [bind]; [apply (ERR (ts_utf_err st)); auto|].
    destruct (q =? 39) eqn:Q; cbn [bind]; [|apply (ERR false); discriminate].
    apply N.eqb_eq in Q. subst q. rewrite encode_char_ascii in Eq by lia.
    apply (OK body rest3); auto. now rewrite Er, Eq. }
  destruct (chars_next_ok 41 r Vr) as [[_ E]|[c [rest1 [E [Ec [V1 Sc]]]]]]; rewrite E; cbn [bind]; [apply (ERR (ts_utf_err st)); auto|].
  destruct (c =? 92) eqn:C92.
  - apply N.eqb_eq in C92. subst c. rewrite encode_char_ascii in Ec by lia.
    destruct (chars_next_ok 42 rest1 V1) as [[_ E2]|[e [rest2 [E2 [Ee [V2 Se]]]]]]; rewrite E2; cbn [bind]; [apply (ERR (ts_utf_err st)); auto|].
    assert (ESC : forall val, e < 128 -> e <> 10 -> val < 128 ->
              step_ok pre st (res2 <- (r3 <- chars_next 43 rest2 ;;
                                     match r3 with
                                     | None => Ok (inr (ts_utf_err st))
                                     | Some (q, _) => if q =? 39 then Ok (inl (2%nat, val)) else Ok (inr false)
                                     end) ;;
                            match res2 with
                            | inl (n, c) => finish st (1 + n + 1) (c <? 128) (TNumber (Z.of_N c))
                            | inr true => st' <- update_pos st (ts_data st) ;; fail st' BadUnicode
                            | inr false => fail st BadCharacter
                            end)).
    { intros val Le Ne Lv. rewrite encode_char_ascii in Ee by exact Le.
      apply (CLOSE 2%nat val [92; e] rest2); auto; [now rewrite Ec, Ee|].
      intros _. constructor; [unfold plain_ascii; lia|]. constructor; [now split|constructor]. }
    destruct (e =? 116) eqn:T1; [cbn [bind]; apply ESC; lia|].
    destruct (e =? 110) eqn:T2; [cbn [bind]; apply ESC; lia|].
    destruct (e =? 114) eqn:T3; [cbn [bind]; apply ESC; lia|].
    destruct ((e =? 34) || (e =? 39) || (e =? 92)) eqn:T4; [cbn [bind]; apply ESC; lia|].
    cbn [bind]. apply (ERR false); discriminate.
  - destruct ((c =? 9) || ((32 <=? c) && (c <=? 126)) || (128 <=? c)) eqn:Cp; cbn [bind]; [|apply (ERR false); discriminate].
    apply (CLOSE (len_utf8 c) c (encode_char c) rest1); auto; [now rewrite encode_char_len|].
    intros Hc. rewrite encode_char_ascii by lia. constructor; [unfold plain_ascii; lia|constructor].
Qed.

(* ---------------------------------------------------------------- string literals *)
Lemma fail_str_end_ok pre st : Valid (ts_data st) -> step_ok pre st (fail_str_end st).
Proof. intros V. unfold fail_str_end. destruct (ts_utf_err st) eqn:Ue; [apply fail_upd_ok; auto|apply fail_ok; discriminate]. Qed.

Lemma str_special_cases c : str_special c = true -> (c <? 32) || (127 <=? c) = false -> (c =? 92) = false -> (c =? 34) = true.
Proof. unfold str_special. lia. Qed.

Lemma byte_at_ok s d n x : nth_error d n = Some x -> byte_at s d n = Ok x.
Proof. unfold byte_at. now intros ->. Qed.

Lemma str_loop_ok : forall fuel st pre pos escaped,
  Valid (ts_data st) -> pos_st st = pos_of pre -> nth_error (ts_data st) 0 = Some 34 ->
  (1 <= pos <= length (ts_data st))%nat -> bnd (ts_data st) pos -> (length (ts_data st) - pos < fuel)%nat ->
  step_ok pre st (str_loop fuel st pos escaped).
Proof.
  induction fuel as [|f IH]; intros st pre pos escaped V P Q Lp Bp Lf; [lia|].
  cbn [str_loop]. set (d := ts_data st) in *.
  rewrite (slice_from_ok _ _ _ Bp). cbn [bind].
  destruct (position str_special (skipn pos d)) as [off|] eqn:Pn; [|now apply fail_str_end_ok].
  destruct (position_Some _ _ _ Pn) as [c [Hc [Sc _]]]. rewrite nth_error_skipn in Hc.
  rewrite (byte_at_ok _ _ _ _ Hc). cbn [bind].
  assert (Lc : (pos + off < length d)%nat) by (now apply nth_error_Some_lt in Hc).
  destruct ((c <? 32) || (127 <=? c)) eqn:Ctl; [apply fail_ok; discriminate|].
  assert (Ca : c < 128) by lia.
  assert (Bc : bnd d (pos + off)) by (apply (bnd_ascii _ _ c Hc Ca)).
  assert (Bc1 : bnd d (S (pos + off))) by (apply (bnd_after_ascii _ _ c V Hc Ca)).
  destruct (c =? 92) eqn:C92.
  - (* escape *)
    set (pos1 := (pos + off)%nat) in *.
    assert (STEP : forall esc1 : str,
      step_ok pre st
        (if (length d - pos1 <? 3)%nat then fail st BadString
         else
           e <- byte_at 63 d (pos1 + 1) ;;
           if e =? 48 then str_loop f st (pos1 + 2) (esc1 ++ [0])
           else if e =? 116 then str_loop f st (pos1 + 2) (esc1 ++ [9])
           else if e =? 110 then str_loop f st (pos1 + 2) (esc1 ++ [10])
           else if e =? 114 then str_loop f st (pos1 + 2) (esc1 ++ [13])
           else if (e =? 34) || (e =? 39) || (e =? 92) then str_loop f st (pos1 + 2) (esc1 ++ [e])
           else if e =? 117 then
             b2 <- byte_at 64 d (pos1 + 2) ;;
             if b2 =? 123 then
               t3 <- slice_from 65 d (pos1 + 3) ;;
               match position (fun b => b =? 125) (firstn 7 t3) with
               | None => fail_str_end st
               | Some en =>
                   hex <- slice 66 d (pos1 + 3) (pos1 + 3 + en) ;;
                   match match u32_from_str_radix hex 16 with Some v => char_from_u32 v | None => None end with
                   | Some ch => str_loop f st (pos1 + en + 2 + 2) (esc1 ++ encode_char ch)
                   | None => fail st BadString
                   end
               end
             else fail st BadString
           else fail st BadString)).
    { intros esc1. destruct (length d - pos1 <? 3)%nat eqn:L3; [apply fail_ok; discriminate|]. apply Nat.ltb_ge in L3.
      destruct (nth_error_lt_Some d (pos1 + 1)) as [e He]; [lia|]. rewrite (byte_at_ok _ _ _ _ He). cbn [bind].
      assert (REC : forall esc2, e < 128 -> step_ok pre st (str_loop f st (pos1 + 2) esc2)).
      { intros esc2 Le. apply IH; auto; [fold d; lia| |fold d; lia].
        fold d. replace (pos1 + 2)%nat with (S (pos1 + 1)) by lia. apply (bnd_after_ascii _ _ e V He Le). }
      destruct (e =? 48) eqn:E1; [apply REC; lia|].
      destruct (e =? 116) eqn:E2; [apply REC; lia|].
      destruct (e =? 110) eqn:E3; [apply REC; lia|].
      destruct (e =? 114) eqn:E4; [apply REC; lia|].
      destruct ((e =? 34) || (e =? 39) || (e =? 92)) eqn:E5; [apply REC; lia|].
      destruct (e =? 117) eqn:E6; [|apply fail_ok; discriminate].
      destruct (nth_error_lt_Some d (pos1 + 2)) as [b2 Hb2]; [lia|]. rewrite (byte_at_ok _ _ _ _ Hb2). cbn [bind].
      destruct (b2 =? 123) eqn:E7; [|apply fail_ok; discriminate].
      assert (B3 : bnd d (pos1 + 3)) by (replace (pos1 + 3)%nat with (S (pos1 + 2)) by lia; apply (bnd_after_ascii _ _ b2 V Hb2); lia).
      rewrite (slice_from_ok _ _ _ B3). cbn [bind].
      destruct (position (fun b => b =? 125) (firstn 7 (skipn (pos1 + 3) d))) as [en|] eqn:Pe; [|now apply fail_str_end_ok].
      destruct (position_Some _ _ _ Pe) as [x [Hx [Px _]]].
      assert (en < 7)%nat by (apply nth_error_Some_lt in Hx; rewrite firstn_length in Hx; lia).
      rewrite nth_error_firstn in Hx by lia. rewrite nth_error_skipn in Hx.
      assert (x = 125) by lia. subst x.
      assert (Be : bnd d (pos1 + 3 + en)) by (apply (bnd_ascii _ _ 125 Hx); lia).
      assert (L33 : (pos1 + 3 <= pos1 + 3 + en)%nat) by lia.
      rewrite (slice_ok _ _ _ _ L33 B3 Be). cbn [bind].
      destruct (match u32_from_str_radix _ 16 with Some v => char_from_u32 v | None => None end); [|apply fail_ok; discriminate].
      apply nth_error_Some_lt in Hx as Lx.
      apply IH; auto; [fold d; lia| |fold d; lia].
      fold d. replace (pos1 + en + 2 + 2)%nat with (S (pos1 + 3 + en)) by lia. apply (bnd_after_ascii _ _ 125 V Hx); lia. }
    destruct (0 <? off)%nat eqn:Off.
    + assert (Lpo : (pos <= pos1)%nat) by (unfold pos1; lia).
      rewrite (slice_ok _ _ _ _ Lpo Bp Bc). cbn [bind]. apply STEP.
    + cbn [bind]. apply Nat.ltb_ge in Off. assert (off = 0%nat) by lia. subst off.
      replace pos with pos1 by (unfold pos1; lia). apply STEP.
  - (* closing quote *)
    rewrite (str_special_cases c Sc Ctl C92).
    assert (C34 : c = 34) by (pose proof (str_special_cases c Sc Ctl C92); lia). subst c.
    assert (Lpo : (pos <= pos + off)%nat) by lia.
    assert (B1 : bnd d 1) by (apply (bnd_after_ascii _ 0 34 V Q); lia).
    assert (FIN : forall val, step_ok pre st (finish st (pos + off + 1) false (TString val))).
    { intros val. apply finish_ok_n; auto; [fold d; replace (pos + off + 1)%nat with (S (pos + off)) by lia; exact Bc1|fold d; lia|discriminate]. }
    assert (VAL : forall esc1 : str, step_ok pre st
       (val <- match esc1 with [] => slice 68 d 1 (pos + off + 1 - 1) | _ :: _ => Ok esc1 end ;; finish st (pos + off + 1) false (TString val))).
    { intros esc1. destruct esc1 as [|e1 esc1]; [|cbn [bind]; apply FIN].
      replace (pos + off + 1 - 1)%nat with (pos + off)%nat by lia.
      assert (L1 : (1 <= pos + off)%nat) by lia.
      rewrite (slice_ok _ _ _ _ L1 B1 Bc). cbn [bind]. apply FIN. }
    destruct (negb match escaped with [] => true | _ :: _ => false end && (0 <? off)%nat).
    + rewrite (slice_ok _ _ _ _ Lpo Bp Bc). cbn [bind]. apply VAL.
    + cbn [bind]. apply VAL.
Qed.

Lemma do_string_ok st pre r : ts_data st = 34 :: r -> Valid (ts_data st) -> pos_st st = pos_of pre -> step_ok pre st (do_string st).
Proof.
  intros D V P. unfold do_string. apply str_loop_ok; auto.
  - now rewrite D.
  - rewrite D. cbn [length]. lia.
  - apply (bnd_after_ascii _ 0 34 V); [now rewrite D|lia].
  - rewrite D. cbn [length]. lia.
Qed.

(* ---------------------------------------------------------------- do_next *)
Lemma do_next_ok st pre : Valid (ts_data st) -> ts_data st <> [] -> pos_st st = pos_of pre -> step_ok pre st (do_next st).
Proof.
  intros V Ne P. unfold do_next. destruct (ts_data st) as [|b r] eqn:D; [contradiction|]. rewrite <- D in V.
  assert (P1 : forall v, b < 128 -> b <> 10 -> step_ok pre st (finish st 1 true v)) by (intros v L N; now apply (punct1_ok st pre b r v)).
  destruct (b =? 44) eqn:T1; [apply P1; lia|].
  destruct (b =? 59) eqn:T2; [apply P1; lia|].
  destruct (b =? 58) eqn:T3; [apply P1; lia|].
  destruct (b =? 46) eqn:T4; [apply P1; lia|].
  destruct (b =? 43) eqn:T5; [apply P1; lia|].
  destruct (b =? 45) eqn:T6; [apply P1; lia|].
  destruct (b =? 42) eqn:T7; [apply P1; lia|].
  destruct (b =? 47) eqn:T8; [apply P1; lia|].
  destruct (b =? 37) eqn:T9; [apply P1; lia|].
  destruct (b =? 33) eqn:T10; [apply P1; lia|].
  destruct (b =? 38) eqn:T11; [apply P1; lia|].
  destruct (b =? 124) eqn:T12; [apply P1; lia|].
  destruct (b =? 94) eqn:T13; [apply P1; lia|].
  destruct ((b =? 60) && match r with b1 :: _ => b1 =? 60 | [] => false end) eqn:T14.
  { destruct r as [|b1 r']; [lia|]. assert (b = 60 /\ b1 = 60) as [-> ->] by lia. apply (punct2_ok st pre 60 r'); auto; lia. }
  destruct ((b =? 62) && match r with b1 :: _ => b1 =? 62 | [] => false end) eqn:T15.
  { destruct r as [|b1 r']; [lia|]. assert (b = 62 /\ b1 = 62) as [-> ->] by lia. apply (punct2_ok st pre 62 r'); auto; lia. }
  destruct ((48 <=? b) && (b <=? 57)) eqn:T16; [now apply (do_number_ok st pre b r)|].
  destruct (b =? 39) eqn:T17; [apply N.eqb_eq in T17; subst b; now apply (do_char_ok st pre r)|].
  destruct ((65 <=? b) && (b <=? 90) || (b =? 95) || (97 <=? b) && (b <=? 122)) eqn:T18.
  { apply (do_ident_ok st pre b r); auto. unfold is_ident_byte. lia. }
  destruct (b =? 34) eqn:T19; [apply N.eqb_eq in T19; subst b; now apply (do_string_ok st pre r)|].
  destruct (b =? 40) eqn:T20; [apply P1; lia|].
  destruct (b =? 41) eqn:T21; [apply P1; lia|].
  destruct (b =? 91) eqn:T22; [apply P1; lia|].
  destruct (b =? 93) eqn:T23; [apply P1; lia|].
  destruct (b =? 123) eqn:T24; [apply P1; lia|].
  destruct (b =? 125) eqn:T25; [apply P1; lia|].
  destruct (chars_next_ok 71 (ts_data st) V) as [[E _]|[c [rest [E _]]]]; [congruence|].
  rewrite D in E. rewrite E. cbn [bind]. apply fail_ok. discriminate.
Qed.
