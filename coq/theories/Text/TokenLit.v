(* C11 proofs: literals written as LitSpec.show_int / show_char / show_string denote the written value in the tokenizer model. *)
From Coq Require Import ZArith NArith List Bool Arith Lia ZifyBool ZifyNat ZifyN.
From Trion Require Import Base.Sweep Base.Utf8 Text.Types Text.TokenModel Text.PosSpec Text.LitSpec
  Text.TokenLemmas Text.TokenNext Text.TokenProofs.
Import ListNotations.
Open Scope N_scope.

Arguments pos_of : simpl never.
Arguments N.add : simpl never.
Arguments N.mul : simpl never.
Arguments N.pow : simpl never.
Arguments N.div : simpl never.
Arguments N.modulo : simpl never.

(* ================================================================ digits of a number *)
Definition val_from (r a : N) (ds : list N) : N := fold_left (fun acc d => acc * r + d) ds a.

Lemma val_from_app r a x y : val_from r a (x ++ y) = val_from r (val_from r a x) y.
Proof. unfold val_from. apply fold_left_app. Qed.

Lemma digits_fuel_spec r : 2 <= r -> forall fuel n acc, n < 2 ^ N.of_nat fuel ->
  exists ds, digits_fuel (S fuel) r n acc = ds ++ acc /\ Forall (fun d => d < r) ds /\ ds <> [] /\
             forall a, val_from r a ds = a * r ^ N.of_nat (length ds) + n.
Proof.
  intros Hr. induction fuel as [|f IH]; intros n acc Hn.
  - change (2 ^ N.of_nat 0) with 1 in Hn. assert (n = 0) by lia. subst n.
    cbn [digits_fuel]. replace (0 <? r) with true by lia. exists [0]. repeat split; [constructor; [lia|constructor]|discriminate|].
    intros a. cbn. change (N.of_nat 1) with 1. rewrite N.pow_1_r. lia.
  - change (digits_fuel (S (S f)) r n acc) with (if n <? r then n :: acc else digits_fuel (S f) r (n / r) (n mod r :: acc)).
    destruct (n <? r) eqn:E.
    + exists [n]. repeat split; [constructor; [lia|constructor]|discriminate|].
      intros a. cbn. change (N.of_nat 1) with 1. rewrite N.pow_1_r. reflexivity.
    + assert (Hq : n / r < 2 ^ N.of_nat f).
      { rewrite Nat2N.inj_succ, N.pow_succ_r' in Hn.
        pose proof (N.mul_div_le n r ltac:(lia)) as H1.
        assert (H2 : 2 * (n / r) <= r * (n / r)) by (apply N.mul_le_mono_r; exact Hr). lia. }
      destruct (IH (n / r) (n mod r :: acc) Hq) as [ds [E1 [F1 [N1 V1]]]].
      exists (ds ++ [n mod r]). rewrite E1, <- app_assoc. split; [reflexivity|]. split.
      { apply Forall_app. split; [exact F1|]. constructor; [apply N.mod_lt; lia|constructor]. }
      split; [intros H; apply app_eq_nil in H; destruct H; discriminate|].
      intros a. rewrite val_from_app, V1. cbn [val_from fold_left]. rewrite app_length. cbn [length].
      replace (N.of_nat (length ds + 1)) with (N.succ (N.of_nat (length ds))) by lia. rewrite N.pow_succ_r'.
      pose proof (N.div_mod' n r) as Dm. lia.
Qed.

Lemma int_digits_spec r n : 2 <= r ->
  Forall (fun d => d < r) (int_digits r n) /\ int_digits r n <> [] /\ digits_value r (int_digits r n) = n.
Proof.
  intros Hr. unfold int_digits.
  destruct (digits_fuel_spec r Hr (N.to_nat (N.size n)) n []) as [ds [E [F [Ne V]]]].
  { rewrite N2Nat.id. apply N.size_gt. }
  rewrite E, app_nil_r. repeat split; auto. specialize (V 0). unfold digits_value. unfold val_from in V. rewrite V. lia.
Qed.

(* ================================================================ rendering digits and reading them back *)
Lemma to_digit_digit_char r u d : r <= 16 -> d < r -> to_digit r (digit_char u d) = Some d.
Proof.
  intros Hr Hd. unfold to_digit, digit_char.
  destruct (d <? 10) eqn:D10.
  - replace ((48 <=? 48 + d) && (48 + d <=? 57)) with true by lia.
    replace (48 + d - 48 <? r) with true by lia. f_equal. lia.
  - destruct u.
    + replace ((48 <=? 55 + d) && (55 + d <=? 57)) with false by lia.
      replace (10 <? r) with true by lia.
      replace ((97 <=? 55 + d) && (55 + d <=? 122)) with false by lia.
      replace ((65 <=? 55 + d) && (55 + d <=? 90)) with true by lia.
      replace (55 + d - 65 + 10 <? r) with true by lia. f_equal. lia.
    + replace ((48 <=? 87 + d) && (87 + d <=? 57)) with false by lia.
      replace (10 <? r) with true by lia.
      replace ((97 <=? 87 + d) && (87 + d <=? 122)) with true by lia.
      replace (87 + d - 97 + 10 <? r) with true by lia. f_equal. lia.
Qed.

(* bytes that read as the digit values ds *)
Definition reads (r : N) (s : str) (ds : list N) : Prop := Forall2 (fun c d => to_digit r c = Some d) s ds.

Lemma reads_map r u ds : r <= 16 -> Forall (fun d => d < r) ds -> reads r (map (digit_char u) ds) ds.
Proof.
  intros Hr. induction 1 as [|d ds Hd _ IH]; [constructor|]. cbn [map]. constructor; [now apply to_digit_digit_char|exact IH].
Qed.

Lemma reads_zeros r z : 2 <= r -> reads r (repeat 48 z) (repeat 0 z).
Proof.
  intros Hr. induction z as [|z IH]; [constructor|]. cbn [repeat]. constructor; [|exact IH].
  unfold to_digit. cbn. replace (0 <? r) with true by lia. reflexivity.
Qed.

Lemma reads_app r a x b y : reads r a x -> reads r b y -> reads r (a ++ b) (x ++ y).
Proof. apply Forall2_app. Qed.

Lemma val_from_zeros r z ds : val_from r 0 (repeat 0 z ++ ds) = val_from r 0 ds.
Proof.
  induction z as [|z IH]; [reflexivity|]. cbn [repeat app]. unfold val_from in *. cbn [fold_left].
  replace (0 * r + 0) with 0 by lia. exact IH.
Qed.

Lemma reads_is_digit r s ds : reads r s ds -> Forall (fun b => is_digit r b = true) s.
Proof. induction 1 as [|c d s ds H _ IH]; constructor; [unfold is_digit; now rewrite H|exact IH]. Qed.

(* ================================================================ from_str_radix on digit strings *)
Definition zval (r : N) (acc : Z) (ds : list N) : Z := fold_left (fun a d => a * Z.of_N r + Z.of_N d)%Z ds acc.

Lemma zval_mono r ds : forall acc, (0 <= acc)%Z -> 1 <= r -> (acc <= zval r acc ds)%Z.
Proof.
  induction ds as [|d ds IH]; intros acc Ha Hr; cbn; [lia|].
  specialize (IH (acc * Z.of_N r + Z.of_N d)%Z ltac:(nia) Hr). unfold zval in IH. nia.
Qed.

Lemma zval_val r a ds : zval r (Z.of_N a) ds = Z.of_N (val_from r a ds).
Proof.
  revert a. induction ds as [|d ds IH]; intros a; [reflexivity|]. cbn [zval val_from fold_left].
  replace (Z.of_N a * Z.of_N r + Z.of_N d)%Z with (Z.of_N (a * r + d)) by lia. apply IH.
Qed.

Lemma fold_pos_spec r maxv s ds : reads r s ds -> 1 <= r -> forall acc, (0 <= acc <= maxv)%Z ->
  fold_pos r maxv s acc = if (zval r acc ds <=? maxv)%Z then Some (zval r acc ds) else None.
Proof.
  intros H Hr. induction H as [|c d s ds Hc _ IH]; intros acc Ha.
  - cbn. replace (acc <=? maxv)%Z with true by lia. reflexivity.
  - cbn [fold_pos zval fold_left]. rewrite Hc. cbv zeta.
    destruct (acc * Z.of_N r + Z.of_N d <=? maxv)%Z eqn:E.
    + apply IH. lia.
    + pose proof (zval_mono r ds (acc * Z.of_N r + Z.of_N d)%Z ltac:(nia) Hr) as M. unfold zval in M.
      replace (fold_left (fun a d0 => a * Z.of_N r + Z.of_N d0) ds (acc * Z.of_N r + Z.of_N d) <=? maxv)%Z with false by lia.
      reflexivity.
Qed.

Lemma to_digit_not_sign r c d : to_digit r c = Some d -> (c =? 43) || (c =? 45) = false.
Proof. unfold to_digit. ifs; intros H; try discriminate H; lia. Qed.

Lemma i64_from_digits r s ds : reads r s ds -> s <> [] -> 1 <= r ->
  i64_from_str_radix s r = if (Z.of_N (val_from r 0 ds) <=? i64_max)%Z then Some (Z.of_N (val_from r 0 ds)) else None.
Proof.
  intros H Ne Hr. unfold i64_from_str_radix. destruct H as [|c d s ds Hc Hs]; [contradiction|].
  rewrite (to_digit_not_sign _ _ _ Hc).
  rewrite (fold_pos_spec r i64_max (c :: s) (d :: ds)); [|constructor; auto|exact Hr|unfold i64_max; lia].
  change 0%Z with (Z.of_N 0). now rewrite zval_val.
Qed.

(* ================================================================ do_number on a digit string *)
Lemma position_app_hit p (a : str) b t : Forall (fun x => p x = false) a -> p b = true -> position p (a ++ b :: t) = Some (length a).
Proof.
  induction 1 as [|x a Hx _ IH]; intros Hb; cbn [app position length]; [now rewrite Hb|]. rewrite Hx, (IH Hb). reflexivity.
Qed.
Lemma position_all_false p (a : str) : Forall (fun x => p x = false) a -> position p a = None.
Proof. induction 1 as [|x a Hx _ IH]; cbn [position]; [reflexivity|]. now rewrite Hx, IH. Qed.

Lemma is_digit_ident r b : is_digit r b = true -> is_ident_byte b = true.
Proof. unfold is_digit, to_digit, is_ident_byte. ifs; intros H; try congruence; lia. Qed.

Lemma bnd_after_ascii_prefix a rest : Valid (a ++ rest) -> a <> [] -> Forall (fun x => x < 128) a -> bnd (a ++ rest) (length a).
Proof.
  intros V Ne F. destruct (exists_last Ne) as [a' [x Ea]]. subst a. rewrite app_length. cbn [length].
  replace (length a' + 1)%nat with (S (length a')) by lia. rewrite <- app_assoc in *. cbn [app] in *.
  apply bnd_app_after_ascii; [exact V|]. apply Forall_app in F. destruct F as [_ F]. now inversion F.
Qed.

Lemma radix_cases r : radix_ok r = true -> r = 2 \/ r = 8 \/ r = 10 \/ r = 16.
Proof. unfold radix_ok. lia. Qed.

Lemma do_number_lit st r s rest : radix_ok r = true -> Valid (ts_data st) ->
  ts_data st = radix_prefix r ++ s ++ rest -> Forall (fun b => is_digit r b = true) s -> (r = 10 -> s <> []) ->
  (forall b t, rest = b :: t -> is_ident_byte b = false) -> (rest = [] -> ts_utf_err st = false) ->
  do_number st = match i64_from_str_radix s r with
                 | Some v => finish st (length (radix_prefix r ++ s)) true (TNumber v)
                 | None => fail st BadNumber
                 end.
Proof.
  intros Hr V D Fs Ns Hrest Hu. unfold do_number. set (d := ts_data st) in *.
  assert (OR : (if starts_with [48; 98] d then (2%nat, 2) else if starts_with [48; 111] d then (2%nat, 8)
                else if starts_with [48; 120] d then (2%nat, 16) else (0%nat, 10)) = (length (radix_prefix r), r)).
  { destruct (radix_cases r Hr) as [->|[->|[->| ->]]]; rewrite D; try reflexivity.
    cbn [radix_prefix N.eqb Pos.eqb app length].
    assert (G : forall x, is_ident_byte x = true -> is_digit 10 x = false -> starts_with [48; x] (s ++ rest) = false).
    { intros x Ix Dx. destruct s as [|c0 s']; [now contradiction Ns|]. cbn [app starts_with].
      inversion Fs as [|? ? F0 F1]; subst. destruct s' as [|c1 s'']; cbn [app].
      - destruct rest as [|b t]; [apply andb_false_r|]. specialize (Hrest b t eq_refl).
        destruct (x =? b) eqn:E; [|now rewrite andb_false_r]. apply N.eqb_eq in E. subst. congruence.
      - inversion F1 as [|? ? F2 _]; subst. destruct (x =? c1) eqn:E; [|now rewrite andb_false_r]. apply N.eqb_eq in E. subst. congruence. }
    rewrite (G 98), (G 111), (G 120); reflexivity. }
  rewrite OR. clear OR. set (off := length (radix_prefix r)).
  assert (Fp : Forall (fun x => x < 128) (radix_prefix r)).
  { destruct (radix_cases r Hr) as [->|[->|[->| ->]]]; cbn; repeat constructor. }
  assert (Fs' : Forall (fun x => x < 128) s).
  { eapply Forall_impl; [|exact Fs]. intros x Hx. apply (is_digit_ascii r x Hx). }
  assert (Bo : bnd d off).
  { destruct (radix_prefix r) as [|p0 pr] eqn:Ep; [apply bnd_0|]. rewrite D. apply bnd_after_ascii_prefix; [now rewrite <- D|discriminate|exact Fp]. }
  rewrite (slice_from_ok _ _ _ Bo). cbn [bind].
  assert (Sk : skipn off d = s ++ rest) by (rewrite D; unfold off; rewrite skipn_app, Nat.sub_diag, skipn_all; reflexivity).
  rewrite Sk.
  assert (Ne : radix_prefix r ++ s <> []).
  { destruct (radix_cases r Hr) as [->|[->|[->| ->]]]; cbn; try discriminate. now apply Ns. }
  assert (Bn : bnd d (off + length s)).
  { unfold off. rewrite <- app_length. rewrite D, app_assoc. apply bnd_after_ascii_prefix; [now rewrite <- app_assoc, <- D|exact Ne|].
    apply Forall_app. now split. }
  assert (Lo : (off <= off + length s)%nat) by lia.
  assert (Sl : slice 31 d off (off + length s) = Ok s).
  { rewrite (slice_ok _ _ _ _ Lo Bo Bn), Sk. replace (off + length s - off)%nat with (length s) by lia.
    now rewrite firstn_app, Nat.sub_diag, firstn_all, app_nil_r. }
  assert (Fd : Forall (fun x => negb (is_digit r x) = false) s).
  { eapply Forall_impl; [|exact Fs]. intros x Hx. now rewrite Hx. }
  destruct rest as [|b t].
  - rewrite app_nil_r in *. rewrite (position_all_false _ _ Fd), (Hu eq_refl).
    replace (length d - off)%nat with (length s) by (rewrite D, !app_length; unfold off; lia).
    rewrite Sl. cbn [bind]. rewrite app_length. reflexivity.
  - rewrite (position_app_hit _ _ _ _ Fd).
    2:{ apply negb_true_iff. destruct (is_digit r b) eqn:E; [|reflexivity]. apply is_digit_ident in E. rewrite (Hrest b t eq_refl) in E. discriminate. }
    rewrite Sl. cbn [bind]. rewrite app_length. reflexivity.
Qed.

(* do_next on a digit goes to the number arm *)
Lemma do_next_digit st b t : ts_data st = b :: t -> (48 <=? b) && (b <=? 57) = true -> do_next st = do_number st.
Proof.
  intros D Hb. unfold do_next. rewrite D.
  repeat match goal with |- context [if ?c then _ else _] => first [replace c with false by lia | replace c with true by lia] end.
  reflexivity.
Qed.

Lemma digit_char_range u d : d < 10 -> (48 <=? digit_char u d) && (digit_char u d <=? 57) = true.
Proof. intros H. unfold digit_char. replace (d <? 10) with true by lia. lia. Qed.

(* what the literal text looks like *)
Lemma show_int_shape r u z n : radix_ok r = true ->
  exists s, show_int r u z n = radix_prefix r ++ s /\ s <> [] /\
            reads r s (repeat 0 z ++ int_digits r n) /\
            exists b t, show_int r u z n = b :: t /\ (48 <=? b) && (b <=? 57) = true.
Proof.
  intros Hr. assert (R2 : 2 <= r /\ r <= 16) by (destruct (radix_cases r Hr) as [->|[->|[->| ->]]]; lia).
  destruct (int_digits_spec r n (proj1 R2)) as [Fd [Nd _]].
  exists (repeat 48 z ++ map (digit_char u) (int_digits r n)). unfold show_int. split; [reflexivity|].
  split; [intros H; apply app_eq_nil in H; destruct H as [_ H]; apply map_eq_nil in H; contradiction|].
  split; [apply reads_app; [apply reads_zeros; lia|apply reads_map; [lia|exact Fd]]|].
  destruct (radix_cases r Hr) as [->|[->|[E| ->]]]; try (eexists _, _; split; [reflexivity|reflexivity]).
  subst r. cbn [radix_prefix N.eqb Pos.eqb app]. destruct z as [|z]; [|eexists _, _; split; [reflexivity|reflexivity]].
  cbn [repeat app]. destruct (int_digits 10 n) as [|d0 ds] eqn:Ed; [contradiction|]. cbn [map].
  eexists _, _. split; [reflexivity|]. apply digit_char_range. now inversion Fd.
Qed.

(* ---------------------------------------------------------------- C11_int at the level of one step *)
Definition follows_literal (rest : str) (utf_err : bool) : Prop :=
  (forall b t, rest = b :: t -> is_ident_byte b = false) /\ (rest = [] -> utf_err = false).

Lemma int_step st pre r u z n rest : radix_ok r = true -> Valid (ts_data st) -> pos_st st = pos_of pre ->
  ts_data st = show_int r u z n ++ rest -> follows_literal rest (ts_utf_err st) ->
  if n <? 2 ^ 63 then
    exists st', do_next st = Ok (inl (pos_tok st (TNumber (Z.of_N n))), st') /\ ts_data st' = rest /\
                pos_st st' = pos_of (pre ++ show_int r u z n) /\ ts_utf_err st' = ts_utf_err st
  else do_next st = Ok (inr (pos_err st BadNumber), clear st).
Proof.
  intros Hr V P D [F1 F2].
  assert (R2 : 2 <= r /\ r <= 16) by (destruct (radix_cases r Hr) as [->|[->|[->| ->]]]; lia).
  destruct (show_int_shape r u z n Hr) as [s [Es [Ns [Rs [b [t [Eb Hb]]]]]]].
  rewrite (do_next_digit st b (t ++ rest)); [|rewrite D, Eb; reflexivity|exact Hb].
  rewrite (do_number_lit st r s rest Hr V); auto.
  2:{ rewrite D, Es. now rewrite <- app_assoc. }
  2:{ exact (reads_is_digit _ _ _ Rs). }
  rewrite (i64_from_digits r s _ Rs Ns ltac:(lia)). rewrite val_from_zeros.
  destruct (int_digits_spec r n (proj1 R2)) as [_ [_ Vn]]. unfold digits_value in Vn. unfold val_from. rewrite Vn.
  destruct (n <? 2 ^ 63) eqn:E.
  - replace (Z.of_N n <=? i64_max)%Z with true by (unfold i64_max; change (2 ^ 63) with 9223372036854775808 in E; lia).
    rewrite <- Es.
    destruct (finish_ok st pre (show_int r u z n) rest true (TNumber (Z.of_N n))) as [st' [Ef [[_ T] Dt]]]; auto.
    + rewrite D. apply bnd_after_ascii_prefix; [now rewrite <- D|rewrite Eb; discriminate|].
      rewrite Es. apply Forall_app. split; [destruct (radix_cases r Hr) as [->|[->|[->| ->]]]; cbn; repeat constructor|].
      eapply Forall_impl; [|exact (reads_is_digit _ _ _ Rs)]. intros x Hx. apply (is_digit_ascii r x Hx).
    + rewrite Eb. discriminate.
    + intros _. rewrite Es. apply Forall_app. split; [destruct (radix_cases r Hr) as [->|[->|[->| ->]]]; cbn; repeat constructor; unfold plain_ascii; lia|].
      eapply Forall_impl; [|exact (reads_is_digit _ _ _ Rs)]. intros x Hx. apply (is_digit_ascii r x Hx).
    + exists st'. split; [exact Ef|]. destruct T as [text [Dt' [_ [_ [Ps U]]]]]. split; [exact Dt|]. split; [|exact U].
      rewrite Dt in Dt'. rewrite D in Dt'. apply app_inv_tail in Dt'. now subst text.
  - replace (Z.of_N n <=? i64_max)%Z with false by (unfold i64_max; change (2 ^ 63) with 9223372036854775808 in E; lia).
    reflexivity.
Qed.

(* ================================================================ whole runs of a single literal *)
Lemma Valid_ascii l : Forall (fun x => x < 128) l -> Valid l.
Proof. induction 1 as [|x l Hx _ IH]; [constructor|now apply Valid_cons_ascii]. Qed.

Lemma tok_new_valid bs : Valid bs -> tok_new bs = mkT bs false 1 1.
Proof.
  intros V. unfold tok_new. assert (H : valid_up_to bs = length bs) by (apply Valid_valid_up_to_fuel; auto).
  rewrite H, firstn_all, Nat.eqb_refl. reflexivity.
Qed.

Lemma skip_loop_noop f st b t : ts_data st = b :: t -> is_ws b = false -> b <> 47 -> skip_loop (S f) st = Ok (SkBreak, st).
Proof.
  intros D W N. rewrite skip_loop_unfold, D. unfold ws_step. rewrite D. cbn [position]. rewrite W. cbn [negb Nat.ltb Nat.leb bind].
  unfold comment_step. rewrite D. cbn [starts_with].
  replace (47 =? b) with false by lia. reflexivity.
Qed.

Lemma next_token_rem_lit st b t it st1 : ts_data st = b :: t -> is_ws b = false -> b <> 47 -> do_next st = Ok (it, st1) ->
  next_token_rem st = Ok ((Some it, match it with inl _ => st1 | inr _ => clear st1 end), length (b :: t)).
Proof.
  intros D W N E. unfold next_token_rem. rewrite (skip_loop_noop _ st b t D W N). cbn [bind]. rewrite D, E. cbn [bind].
  destruct it; reflexivity.
Qed.

Lemma unfold_rem_S f st : unfold_rem (S f) st =
  (r <- next_token_rem st ;;
   match r with
   | ((None, st'), _) => Ok ([], st')
   | ((Some it, st'), rem) => '(l, st'') <- unfold_rem f st' ;; Ok ((it, rem) :: l, st'')
   end).
Proof. reflexivity. Qed.

Lemma run_single bs b t it st1 : Valid bs -> bs = b :: t -> is_ws b = false -> b <> 47 ->
  do_next (mkT bs false 1 1) = Ok (it, st1) -> match it with inl _ => tok_done st1 | inr _ => True end ->
  tokens_all bs = Ok ([it], [None; None; None]).
Proof.
  intros V Eb W N E Dn. unfold tokens_all, tokens_rem. rewrite (tok_new_valid bs V).
  replace (length bs + 2)%nat with (S (S (length bs))) by lia. rewrite unfold_rem_S.
  rewrite (next_token_rem_lit _ b t it st1); auto. cbn [bind].
  assert (D1 : tok_done (match it with inl _ => st1 | inr _ => clear st1 end)) by (destruct it; [exact Dn|split; reflexivity]).
  rewrite (unfold_rem_done (S (length bs)) _ ltac:(lia) D1). cbn [bind].
  rewrite (polls_done 3 _ D1). reflexivity.
Qed.

Lemma digit_first b : (48 <=? b) && (b <=? 57) = true -> is_ws b = false /\ b <> 47.
Proof. unfold is_ws. lia. Qed.

Lemma show_int_ascii r u z n : radix_ok r = true -> Forall (fun x => x < 128) (show_int r u z n).
Proof.
  intros Hr. destruct (show_int_shape r u z n Hr) as [s [Es [_ [Rs _]]]]. rewrite Es. apply Forall_app.
  split; [destruct (radix_cases r Hr) as [->|[->|[->| ->]]]; cbn; repeat constructor|].
  eapply Forall_impl; [|exact (reads_is_digit _ _ _ Rs)]. intros x Hx. apply (is_digit_ascii r x Hx).
Qed.

(* every integer below 2^63, in each radix, either digit case, any number of leading zeros: exactly one Number token with that value *)
Theorem int_literal r u z n : radix_ok r = true -> n < 2 ^ 63 ->
  tokens_all (show_int r u z n) = Ok ([inl (mkToken 1 1 (TNumber (Z.of_N n)))], [None; None; None]).
Proof.
  intros Hr Hn. destruct (show_int_shape r u z n Hr) as [_ [_ [_ [_ [b [t [Eb Hb]]]]]]].
  pose proof (Valid_ascii _ (show_int_ascii r u z n Hr)) as V.
  pose proof (int_step (mkT (show_int r u z n) false 1 1) [] r u z n [] Hr V eq_refl) as S.
  cbn [ts_data ts_utf_err] in S. rewrite app_nil_r in S. specialize (S eq_refl).
  replace (n <? 2 ^ 63) with true in S by lia.
  destruct S as [st' [E [D [_ U]]]]; [split; [discriminate|reflexivity]|].
  destruct (digit_first b Hb) as [W N].
  apply (run_single _ b t _ st' V Eb W N E). split; [exact D|exact U].
Qed.

(* a literal of 2^63 or more is rejected with BadNumber (never a wrapped value), and nothing follows *)
Theorem int_literal_reject r u z n : radix_ok r = true -> 2 ^ 63 <= n ->
  tokens_all (show_int r u z n) = Ok ([inr (mkTokErr 1 1 BadNumber)], [None; None; None]).
Proof.
  intros Hr Hn. destruct (show_int_shape r u z n Hr) as [_ [_ [_ [_ [b [t [Eb Hb]]]]]]].
  pose proof (Valid_ascii _ (show_int_ascii r u z n Hr)) as V.
  pose proof (int_step (mkT (show_int r u z n) false 1 1) [] r u z n [] Hr V eq_refl) as S.
  cbn [ts_data ts_utf_err] in S. rewrite app_nil_r in S. specialize (S eq_refl).
  replace (n <? 2 ^ 63) with false in S by lia.
  destruct (digit_first b Hb) as [W N].
  apply (run_single _ b t _ _ V Eb W N (S ltac:(split; [discriminate|reflexivity])) I).
Qed.

(* inside a longer text: the literal followed by the end or by a byte that cannot continue a number or identifier *)
Theorem int_literal_followed st pre r u z n rest : radix_ok r = true -> Valid (ts_data st) -> pos_st st = pos_of pre ->
  ts_data st = show_int r u z n ++ rest -> follows_literal rest (ts_utf_err st) ->
  if n <? 2 ^ 63 then
    exists st', do_next st = Ok (inl (pos_tok st (TNumber (Z.of_N n))), st') /\ ts_data st' = rest /\
                pos_st st' = pos_of (pre ++ show_int r u z n) /\ ts_utf_err st' = ts_utf_err st
  else do_next st = Ok (inr (pos_err st BadNumber), clear st).
Proof. exact (int_step st pre r u z n rest). Qed.

(* a radix prefix without digits *)
Theorem prefix_without_digits st r rest : (r = 2 \/ r = 8 \/ r = 16) -> Valid (ts_data st) ->
  ts_data st = radix_prefix r ++ rest -> (forall b t, rest = b :: t -> is_digit r b = false /\ is_ident_byte b = false) ->
  (rest = [] -> ts_utf_err st = false) ->
  do_next st = Ok (inr (pos_err st BadNumber), clear st).
Proof.
  intros Hr V D Hrest Hu.
  assert (Ro : radix_ok r = true) by (destruct Hr as [->|[->| ->]]; reflexivity).
  rewrite (do_next_digit st 48 (tl (radix_prefix r) ++ rest)); [|rewrite D; destruct Hr as [->|[->| ->]]; reflexivity|reflexivity].
  rewrite (do_number_lit st r [] rest Ro V); auto.
  - intros ->. destruct Hr as [H|[H|H]]; discriminate.
  - intros b t E. exact (proj2 (Hrest b t E)).
Qed.

(* ================================================================ character literals *)
Ltac decide_ifs := repeat match goal with |- context [if ?c then _ else _] => first [replace c with false by lia | replace c with true by lia] end.

Ltac solve_plain := repeat (apply Forall_cons; [unfold plain_ascii; cbn [esc_letter]; lia|]); apply Forall_nil.

Lemma do_next_quote st t : ts_data st = 39 :: t -> do_next st = do_char st.
Proof. intros D. unfold do_next. rewrite D. decide_ifs. reflexivity. Qed.

Lemma chars_next_ascii s b r : b < 128 -> chars_next s (b :: r) = Ok (Some (b, r)).
Proof. intros H. unfold chars_next, decode_char, seq_len. replace (b <? 0x80) with true by lia. reflexivity. Qed.

Lemma encode_char_nonempty c : encode_char c <> [].
Proof. intros H. apply (f_equal (@length N)) in H. rewrite encode_char_len in H. unfold len_utf8 in H. cbn in H. revert H. ifs; discriminate. Qed.

Lemma chars_next_enc s c r : is_scalar c = true -> chars_next s (encode_char c ++ r) = Ok (Some (c, r)).
Proof.
  intros S. unfold chars_next. destruct (encode_char c ++ r) as [|x l] eqn:E.
  { apply app_eq_nil in E. destruct E as [E _]. now apply encode_char_nonempty in E. }
  rewrite <- E. rewrite (proj1 (decode_encode c r S)). rewrite <- encode_char_len, skipn_app, Nat.sub_diag, skipn_all. reflexivity.
Qed.

Lemma char_step st pre l rest : char_lit_ok l = true -> Valid (ts_data st) -> pos_st st = pos_of pre ->
  ts_data st = show_char l ++ rest ->
  exists st', do_next st = Ok (inl (pos_tok st (TNumber (Z.of_N (char_value l)))), st') /\ ts_data st' = rest /\
              pos_st st' = pos_of (pre ++ show_char l) /\ ts_utf_err st' = ts_utf_err st.
Proof.
  intros Hl V P D.
  assert (FIN : forall n a, n = length (show_char l) -> bnd (ts_data st) (length (show_char l)) ->
            (a = true -> Forall plain_ascii (show_char l)) ->
            exists st', finish st n a (TNumber (Z.of_N (char_value l))) = Ok (inl (pos_tok st (TNumber (Z.of_N (char_value l)))), st') /\
                        ts_data st' = rest /\ pos_st st' = pos_of (pre ++ show_char l) /\ ts_utf_err st' = ts_utf_err st).
  { intros n a -> B A. destruct (finish_ok st pre (show_char l) rest a (TNumber (Z.of_N (char_value l)))) as [st' [Ef [[_ T] Dt]]]; auto.
    - destruct l; discriminate.
    - exists st'. split; [exact Ef|]. destruct T as [text [Dt' [_ [_ [Ps U]]]]]. split; [exact Dt|]. split; [|exact U].
      rewrite Dt in Dt'. rewrite D in Dt'. apply app_inv_tail in Dt'. now subst text. }
  assert (B1 : bnd (ts_data st) 1) by (apply (bnd_after_ascii _ 0 39 V); [rewrite D; now destruct l|lia]).
  rewrite (do_next_quote st (tl (show_char l) ++ rest)) by (rewrite D; now destruct l).
  unfold do_char. rewrite (slice_from_ok _ _ _ B1). cbn [bind].
  destruct l as [c|e]; cbn [show_char char_value char_lit_ok] in *.
  - (* plain character *)
    unfold char_plain_ok in Hl. assert (Sc : is_scalar c = true) by lia.
    assert (D' : ts_data st = (39 :: encode_char c) ++ 39 :: rest) by (rewrite D; cbn [app]; now rewrite <- app_assoc).
    replace (skipn 1 (ts_data st)) with (encode_char c ++ 39 :: rest) by (rewrite D'; reflexivity).
    rewrite (chars_next_enc _ c _ Sc). cbn [bind].
    replace (c =? 92) with false by lia.
    replace ((c =? 9) || (32 <=? c) && (c <=? 126) || (128 <=? c)) with true by lia. cbn [bind].
    rewrite (chars_next_ascii _ 39 rest) by lia. cbn [bind]. rewrite N.eqb_refl. cbn [bind].
    apply FIN.
    + cbn [length app]. rewrite app_length, encode_char_len. cbn [length]. lia.
    + replace (length ([39] ++ encode_char c ++ [39])) with (S (length (39 :: encode_char c))) by (cbn [length app]; rewrite app_length; cbn; lia).
      rewrite D'. apply bnd_app_after_ascii; [now rewrite <- D'|lia].
    + intros Hc. rewrite encode_char_ascii by lia. cbn [app]. solve_plain.
  - (* escape *)
    assert (D' : ts_data st = [39; 92; esc_letter e] ++ 39 :: rest) by (rewrite D; reflexivity).
    replace (skipn 1 (ts_data st)) with (92 :: esc_letter e :: 39 :: rest) by (rewrite D'; reflexivity).
    rewrite (chars_next_ascii _ 92) by lia. cbn [bind]. rewrite N.eqb_refl.
    rewrite (chars_next_ascii _ (esc_letter e)) by (destruct e; cbn; lia). cbn [bind].
    assert (B4 : bnd (ts_data st) 4).
    { rewrite D'. apply (bnd_app_after_ascii [39; 92; esc_letter e] 39 rest); [now rewrite <- D'|lia]. }
    destruct e; cbn [esc_letter esc_value]; decide_ifs; cbn [bind];
      rewrite (chars_next_ascii _ 39 rest) by lia; cbn [bind]; rewrite N.eqb_refl; cbn [bind];
      (apply FIN; [reflexivity|exact B4|intros _; solve_plain]).
Qed.

Lemma show_char_Valid l : char_lit_ok l = true -> Valid (show_char l).
Proof.
  intros H. destruct l as [c|e]; cbn [show_char].
  - apply Valid_cons_ascii; [lia|]. apply Valid_app; [|apply Valid_cons_ascii; [lia|constructor]].
    apply encode_char_Valid. unfold char_lit_ok, char_plain_ok in H. lia.
  - apply Valid_ascii. destruct e; repeat constructor.
Qed.

(* every plain scalar value and each of the six escapes: exactly one Number token carrying the scalar value *)
Theorem char_literal l : char_lit_ok l = true ->
  tokens_all (show_char l) = Ok ([inl (mkToken 1 1 (TNumber (Z.of_N (char_value l))))], [None; None; None]).
Proof.
  intros H. pose proof (show_char_Valid l H) as V.
  destruct (char_step (mkT (show_char l) false 1 1) [] l [] H V eq_refl) as [st' [E [D [_ U]]]].
  { cbn [ts_data]. now rewrite app_nil_r. }
  apply (run_single _ 39 (tl (show_char l)) _ st' V); [now destruct l|reflexivity|lia|exact E|split; [exact D|exact U]].
Qed.

(* ================================================================ string literals *)
(* the escape dispatch of the string loop, after the plain run before the backslash has been pushed *)
Definition esc_block (f : nat) (st : tstate) (ep : str * nat) : outcome (item * tstate) :=
  let '(escaped, pos) := ep in
  let d := ts_data st in
  if (length d - pos <? 3)%nat then fail st BadString
  else
    e <- byte_at 63 d (pos + 1) ;;
    if e =? 48 then str_loop f st (pos + 2) (escaped ++ [0])
    else if e =? 116 then str_loop f st (pos + 2) (escaped ++ [9])
    else if e =? 110 then str_loop f st (pos + 2) (escaped ++ [10])
    else if e =? 114 then str_loop f st (pos + 2) (escaped ++ [13])
    else if (e =? 34) || (e =? 39) || (e =? 92) then str_loop f st (pos + 2) (escaped ++ [e])
    else if e =? 117 then
      b2 <- byte_at 64 d (pos + 2) ;;
      if b2 =? 123 then
        t3 <- slice_from 65 d (pos + 3) ;;
        match position (fun b => b =? 125) (firstn 7 t3) with
        | None => fail_str_end st
        | Some en =>
            hex <- slice 66 d (pos + 3) (pos + 3 + en) ;;
            match match u32_from_str_radix hex 16 with Some v => char_from_u32 v | None => None end with
            | Some ch => str_loop f st (pos + en + 2 + 2) (escaped ++ encode_char ch)
            | None => fail st BadString
            end
        end
      else fail st BadString
    else fail st BadString.

Lemma bnd_prefix_Valid A : Valid A -> forall B, Valid (A ++ B) -> bnd (A ++ B) (length A).
Proof.
  induction 1 as [|bs Hn Hr IH]; intros B VB; [apply bnd_0|].
  pose proof (seq_len_le bs) as L. set (k := seq_len bs) in *.
  assert (Ek : seq_len (bs ++ B) = k) by (apply seq_len_app; exact Hn).
  assert (VB' : Valid (skipn k bs ++ B)).
  { inversion VB as [|bs' Hn' Hr' E]; [destruct bs; [now contradiction Hn|discriminate]|].
    rewrite Ek in Hr'. rewrite skipn_app in Hr'. replace (k - length bs)%nat with 0%nat in Hr' by lia. exact Hr'. }
  specialize (IH B VB'). unfold bnd, is_char_boundary in *.
  destruct (length bs) as [|n] eqn:El; [destruct bs; [now contradiction Hn|discriminate]|]. rewrite <- El.
  rewrite skipn_app, Nat.sub_diag, skipn_all. cbn [app skipn].
  rewrite skipn_length in IH. destruct (length bs - k)%nat as [|m] eqn:Em.
  - (* the first sequence is all of bs *) destruct B as [|b B']; [rewrite app_nil_r; apply Nat.eqb_refl|].
    assert (Hs : skipn k bs = []) by (apply skipn_all2; lia). rewrite Hs in VB'. cbn [app] in VB'. now rewrite (Valid_head _ _ VB').
  - rewrite <- Em in IH. rewrite skipn_app, skipn_length, Nat.sub_diag in IH.
    rewrite skipn_all2 in IH by (rewrite skipn_length; lia). cbn [app skipn] in IH.
    destruct B as [|b B']; [rewrite app_nil_r; apply Nat.eqb_refl|exact IH].
Qed.

Lemma nth_error_mid {A} (P : list A) x T : nth_error (P ++ x :: T) (length P) = Some x.
Proof. rewrite nth_error_app2 by lia. now rewrite Nat.sub_diag. Qed.

Definition nonspecial (run : str) : Prop := Forall (fun b => str_special b = false) run.

(* one iteration of the string loop, at position |P|, over a plain run and the special byte x that ends it *)
Lemma str_iter st f escaped P run x T :
  Valid (ts_data st) -> ts_data st = P ++ run ++ x :: T -> Valid P -> P <> [] -> Valid (P ++ run) -> nonspecial run -> str_special x = true ->
  str_loop (S f) st (length P) escaped =
    if (x <? 32) || (127 <=? x) then fail st BadString
    else if x =? 92 then esc_block f st (escaped ++ run, (length P + length run)%nat)
    else
      let escaped' := match escaped with [] => [] | _ => escaped ++ run end in
      val <- (match escaped' with
              | [] => slice 68 (ts_data st) 1 (length P + length run + 1 - 1)
              | _ => Ok escaped'
              end) ;;
      finish st (length P + length run + 1) false (TString val).
Proof.
  intros V D VP NP VPR NS SX. set (pos := length P). set (off := length run).
  assert (Bp : bnd (ts_data st) pos) by (rewrite D; apply bnd_prefix_Valid; [exact VP|now rewrite <- D]).
  assert (Bo : bnd (ts_data st) (pos + off)).
  { unfold pos, off. rewrite <- app_length. rewrite D, app_assoc. apply bnd_prefix_Valid; [exact VPR|now rewrite <- app_assoc, <- D]. }
  assert (Sk : skipn pos (ts_data st) = run ++ x :: T) by (rewrite D; unfold pos; now rewrite skipn_app, Nat.sub_diag, skipn_all).
  assert (Hx : nth_error (ts_data st) (pos + off) = Some x).
  { unfold pos, off. rewrite <- app_length, D, app_assoc. apply nth_error_mid. }
  assert (Lpo : (pos <= pos + off)%nat) by lia.
  assert (Sl : forall s, slice s (ts_data st) pos (pos + off) = Ok run).
  { intros s. rewrite (slice_ok _ _ _ _ Lpo Bp Bo), Sk. replace (pos + off - pos)%nat with (length run) by (unfold off; lia).
    now rewrite firstn_app, Nat.sub_diag, firstn_all, app_nil_r. }
  change (str_loop (S f) st pos escaped) with
    (tail <- slice_from 60 (ts_data st) pos ;;
     match position str_special tail with
     | None => fail_str_end st
     | Some off =>
       c <- byte_at 61 (ts_data st) (pos + off) ;;
       if (c <? 32) || (127 <=? c) then fail st BadString
       else if c =? 92 then
         bind (if (0 <? off)%nat then s <- slice 62 (ts_data st) pos (pos + off) ;; Ok (escaped ++ s, (pos + off)%nat) else Ok (escaped, pos))
              (esc_block f st)
       else if c =? 34 then
         escaped <- (if negb (match escaped with [] => true | _ => false end) && (0 <? off)%nat
                     then s <- slice 67 (ts_data st) pos (pos + off) ;; Ok (escaped ++ s) else Ok escaped) ;;
         let pos := (pos + off + 1)%nat in
         val <- (match escaped with [] => slice 68 (ts_data st) 1 (pos - 1) | _ => Ok escaped end) ;;
         finish st pos false (TString val)
       else Panic 69
     end).
  rewrite (slice_from_ok _ _ _ Bp), Sk. cbn [bind].
  rewrite (position_app_hit _ _ _ _ NS SX). fold off. rewrite (byte_at_ok _ _ _ _ Hx). cbn [bind].
  destruct ((x <? 32) || (127 <=? x)) eqn:Ctl; [reflexivity|].
  destruct (x =? 92) eqn:C92.
  - destruct (0 <? off)%nat eqn:O.
    + rewrite Sl. cbn [bind]. reflexivity.
    + cbn [bind]. apply Nat.ltb_ge in O. assert (E0 : off = 0%nat) by lia. assert (run = []) by (destruct run; [reflexivity|cbn in E0; unfold off in E0; cbn in E0; lia]).
      subst run. rewrite app_nil_r. replace (pos + off)%nat with pos by lia. reflexivity.
  - rewrite (str_special_cases x SX Ctl C92).
    destruct escaped as [|e0 esc]; cbn [negb andb].
    + cbn [bind]. reflexivity.
    + destruct (0 <? off)%nat eqn:O.
      * rewrite Sl. cbn [bind]. cbv zeta. destruct ((e0 :: esc) ++ run) eqn:E; [discriminate|]. reflexivity.
      * cbn [bind]. apply Nat.ltb_ge in O. assert (run = []) by (destruct run; [reflexivity|unfold off in O; cbn in O; lia]).
        subst run. rewrite app_nil_r. reflexivity.
Qed.

(* ---------------------------------------------------------------- facts about rendered items *)
Definition render (l : list str_item) : str := concat (map show_item l).

Lemma render_app a b : render (a ++ b) = render a ++ render b.
Proof. unfold render. now rewrite map_app, concat_app. Qed.
Lemma string_value_app a b : string_value (a ++ b) = string_value a ++ string_value b.
Proof. unfold string_value. now rewrite map_app, concat_app. Qed.

Lemma enc_high c : is_scalar c = true -> 128 <= c -> Forall (fun b => 128 <= b) (encode_char c).
Proof.
  intros Sc H. destruct (decode_encode c [] Sc) as [_ L]. apply Forall_forall. intros x Hx.
  destruct (In_nth_error _ _ Hx) as [k Hk].
  assert (L2 : (2 <= len_utf8 c)%nat) by (unfold len_utf8; replace (c <? 0x80) with false by lia; ifs; lia).
  destruct k as [|k].
  - destruct (encode_char c) as [|b0 r] eqn:E; [discriminate|]. injection Hk as <-.
    destruct (b0 <? 128) eqn:B; [|lia]. exfalso. cbn [seq_len] in L. change 0x80 with 128 in L. rewrite B in L. lia.
  - destruct (seq_len_tail (encode_char c) (S k)) as [b [Hb Cb]].
    + rewrite L. apply nth_error_Some_lt in Hk. rewrite encode_char_len in Hk. lia.
    + rewrite Hk in Hb. injection Hb as <-. unfold is_cont in Cb. lia.
Qed.

Lemma plain_nonspecial c : str_plain_ok c = true -> nonspecial (encode_char c).
Proof.
  unfold str_plain_ok. intros H. destruct (c <? 128) eqn:A.
  - rewrite encode_char_ascii by lia. constructor; [unfold str_special; lia|constructor].
  - apply Forall_impl with (P := fun b => 128 <= b); [intros b Hb; unfold str_special; lia|apply enc_high; lia].
Qed.

Definition is_escape (i : str_item) : Prop := match i with SPlain _ => False | _ => True end.

Lemma split_plains todo : exists cs more, todo = map SPlain cs ++ more /\ (more = [] \/ exists e more', more = e :: more' /\ is_escape e).
Proof.
  induction todo as [|i todo IH]; [exists [], []; auto|]. destruct i as [c| |e|c z u].
  - destruct IH as [cs [more [E M]]]. exists (c :: cs), more. split; [cbn; now rewrite E|exact M].
  - exists [], (SEsc0 :: todo). split; [reflexivity|right]. eexists _, _. split; [reflexivity|exact I].
  - exists [], (SEsc e :: todo). split; [reflexivity|right]. eexists _, _. split; [reflexivity|exact I].
  - exists [], (SEscU c z u :: todo). split; [reflexivity|right]. eexists _, _. split; [reflexivity|exact I].
Qed.

Lemma render_plains cs : render (map SPlain cs) = string_value (map SPlain cs).
Proof. unfold render, string_value. rewrite !map_map. reflexivity. Qed.

Lemma plains_nonspecial cs : Forall (fun i => item_ok i = true) (map SPlain cs) -> nonspecial (render (map SPlain cs)).
Proof.
  induction cs as [|c cs IH]; intros H; [constructor|]. inversion H as [|? ? H1 H2]; subst.
  change (render (map SPlain (c :: cs))) with (encode_char c ++ render (map SPlain cs)).
  apply Forall_app. split; [now apply plain_nonspecial|now apply IH].
Qed.

Lemma hex_digits_ascii u ds : Forall (fun d => d < 16) ds -> Forall (fun x => x < 128 /\ x <> 125 /\ is_digit 16 x = true) (map (digit_char u) ds).
Proof.
  induction 1 as [|d ds Hd _ IH]; [constructor|]. cbn [map]. constructor; [|exact IH].
  pose proof (to_digit_digit_char 16 u d ltac:(lia) Hd) as T. unfold is_digit. rewrite T. unfold digit_char. destruct u; ifs; lia.
Qed.

Definition u_digits (c : N) (z : nat) (u : bool) : str := repeat 48 z ++ map (digit_char u) (int_digits 16 c).

Lemma u_digits_facts c z u : Forall (fun x => x < 128 /\ x <> 125 /\ is_digit 16 x = true) (u_digits c z u) /\ u_digits c z u <> [] /\
  reads 16 (u_digits c z u) (repeat 0 z ++ int_digits 16 c).
Proof.
  destruct (int_digits_spec 16 c ltac:(lia)) as [Fd [Nd _]]. unfold u_digits. repeat split.
  - apply Forall_app. split; [|now apply hex_digits_ascii].
    clear. induction z; cbn [repeat]; constructor; auto. repeat split; try lia; try reflexivity.
  - intros H. apply app_eq_nil in H. destruct H as [_ H]. apply map_eq_nil in H. contradiction.
  - apply reads_app; [apply reads_zeros; lia|apply reads_map; [lia|exact Fd]].
Qed.

Lemma show_item_u c z u : show_item (SEscU c z u) = [92; 117; 123] ++ u_digits c z u ++ [125].
Proof. unfold show_item, u_digits. now rewrite <- app_assoc. Qed.

Lemma show_item_Valid i : item_ok i = true -> Valid (show_item i).
Proof.
  destruct i as [c| |e|c z u]; [| | |rewrite show_item_u]; cbn [show_item item_ok]; intros H.
  - apply encode_char_Valid. unfold str_plain_ok in H. lia.
  - apply Valid_ascii. repeat constructor.
  - apply Valid_ascii. destruct e; repeat constructor.
  - apply Valid_ascii. cbn [app]. repeat (apply Forall_cons; [lia|]). apply Forall_app. split; [|repeat constructor].
    eapply Forall_impl; [|exact (proj1 (u_digits_facts c z u))]. intros x Hx. apply Hx.
Qed.

Lemma render_Valid l : Forall (fun i => item_ok i = true) l -> Valid (render l).
Proof. induction 1 as [|i l Hi _ IH]; [constructor|]. change (render (i :: l)) with (show_item i ++ render l). apply Valid_app; [now apply show_item_Valid|exact IH]. Qed.

Lemma u32_from_digits s ds : reads 16 s ds -> s <> [] ->
  u32_from_str_radix s 16 = if (Z.of_N (val_from 16 0 ds) <=? Z.of_N u32_max)%Z then Some (Z.of_N (val_from 16 0 ds)) else None.
Proof.
  intros H Ne. unfold u32_from_str_radix. destruct H as [|c d s ds Hc Hs]; [contradiction|].
  rewrite (to_digit_not_sign _ _ _ Hc).
  rewrite (fold_pos_spec 16 (Z.of_N u32_max) (c :: s) (d :: ds)); [|constructor; auto|lia|unfold u32_max; lia].
  change 0%Z with (Z.of_N 0). now rewrite zval_val.
Qed.

(* ---------------------------------------------------------------- one escape item *)
Lemma byte_at_mid s (P : str) x T : byte_at s (P ++ x :: T) (length P) = Ok x.
Proof. apply byte_at_ok. apply nth_error_mid. Qed.

Lemma esc_block_item f st esc1 P1 it T : Valid (ts_data st) -> ts_data st = P1 ++ show_item it ++ T -> (3 <= length (show_item it ++ T))%nat -> Valid P1 ->
  is_escape it -> item_ok it = true ->
  esc_block f st (esc1, length P1) = str_loop f st (length P1 + length (show_item it)) (esc1 ++ encode_char (item_value it)).
Proof.
  intros V D H3 VP1 IE OK. unfold esc_block. set (d := ts_data st) in *. set (pos := length P1).
  assert (L3 : (length d - pos <? 3)%nat = false) by (apply Nat.ltb_ge; rewrite D, app_length; unfold pos; lia).
  rewrite L3. clear L3 H3.
  assert (B1 : forall x y rest', d = P1 ++ x :: y :: rest' -> byte_at 63 d (pos + 1) = Ok y).
  { intros x y rest' E. rewrite E. replace (P1 ++ x :: y :: rest') with ((P1 ++ [x]) ++ y :: rest') by now rewrite <- app_assoc.
    replace (pos + 1)%nat with (length (P1 ++ [x])) by (rewrite app_length; reflexivity). apply byte_at_mid. }
  destruct it as [c| |e|c z u]; [contradiction| | |rewrite show_item_u in *]; cbn [show_item item_value] in *.
  - (* \0 *)
    rewrite (B1 92 48 T) by (rewrite D; reflexivity). cbn [bind]. decide_ifs. reflexivity.
  - rewrite (B1 92 (esc_letter e) T) by (rewrite D; reflexivity). cbn [bind].
    destruct e; cbn [esc_letter esc_value]; decide_ifs; reflexivity.
  - (* \u{...} *)
    destruct (u_digits_facts c z u) as [Fu [Nu Ru]]. set (digs := u_digits c z u) in *.
    assert (D2 : d = (P1 ++ [92; 117; 123]) ++ digs ++ 125 :: T) by (rewrite D; cbn [app]; rewrite <- !app_assoc; reflexivity).
    rewrite (B1 92 117 (123 :: digs ++ 125 :: T)) by (rewrite D; cbn [app]; now rewrite <- app_assoc). cbn [bind]. decide_ifs.
    assert (E2 : byte_at 64 d (pos + 2) = Ok 123).
    { rewrite D. replace (P1 ++ ([92; 117; 123] ++ digs ++ [125]) ++ T) with ((P1 ++ [92; 117]) ++ 123 :: (digs ++ 125 :: T)) by (cbn [app]; rewrite <- !app_assoc; reflexivity).
      replace (pos + 2)%nat with (length (P1 ++ [92; 117])) by (rewrite app_length; reflexivity). apply byte_at_mid. }
    rewrite E2. cbn [bind]. rewrite N.eqb_refl.
    assert (Vp3 : Valid (P1 ++ [92; 117; 123])) by (apply Valid_app; [exact VP1|apply Valid_ascii; repeat constructor]).
    assert (B3 : bnd d (pos + 3)).
    { replace (pos + 3)%nat with (length (P1 ++ [92; 117; 123])) by (rewrite app_length; reflexivity). rewrite D2. apply bnd_prefix_Valid; [exact Vp3|now rewrite <- D2]. }
    rewrite (slice_from_ok _ _ _ B3). cbn [bind].
    assert (Sk3 : skipn (pos + 3) d = digs ++ 125 :: T).
    { replace (pos + 3)%nat with (length (P1 ++ [92; 117; 123])) by (rewrite app_length; reflexivity). rewrite D2. now rewrite skipn_app, Nat.sub_diag, skipn_all. }
    rewrite Sk3.
    assert (Ld : (length digs <= 6)%nat).
    { unfold item_ok in OK. unfold digs, u_digits. rewrite app_length, repeat_length, map_length. lia. }
    assert (F7 : firstn 7 (digs ++ 125 :: T) = digs ++ 125 :: firstn (6 - length digs) T).
    { rewrite firstn_app. rewrite firstn_all2 by lia. f_equal. replace (7 - length digs)%nat with (S (6 - length digs)) by lia. reflexivity. }
    rewrite F7. rewrite position_app_hit; [|eapply Forall_impl; [|exact Fu]; intros x Hx; cbv beta in *; lia|reflexivity].
    assert (Vp4 : Valid ((P1 ++ [92; 117; 123]) ++ digs)).
    { apply Valid_app; [exact Vp3|]. apply Valid_ascii. eapply Forall_impl; [|exact Fu]. intros x Hx. apply Hx. }
    assert (B4 : bnd d (pos + 3 + length digs)).
    { replace (pos + 3 + length digs)%nat with (length ((P1 ++ [92; 117; 123]) ++ digs)) by (rewrite !app_length; reflexivity).
      rewrite D2, app_assoc. apply bnd_prefix_Valid; [exact Vp4|now rewrite <- app_assoc, <- D2]. }
    assert (L34 : (pos + 3 <= pos + 3 + length digs)%nat) by lia.
    rewrite (slice_ok _ _ _ _ L34 B3 B4), Sk3. replace (pos + 3 + length digs - (pos + 3))%nat with (length digs) by lia.
    rewrite firstn_app, Nat.sub_diag, firstn_all, app_nil_r. cbn [bind].
    (* the value *)
    assert (Sc : is_scalar c = true) by (unfold item_ok in OK; lia).
    assert (U : u32_from_str_radix digs 16 = Some (Z.of_N c)).
    { rewrite (u32_from_digits _ _ Ru Nu). rewrite val_from_zeros.
      destruct (int_digits_spec 16 c ltac:(lia)) as [_ [_ Vc]]. unfold digits_value in Vc. unfold val_from. rewrite Vc.
      unfold is_scalar in Sc. replace (Z.of_N c <=? Z.of_N u32_max)%Z with true by (unfold u32_max; lia). reflexivity. }
    rewrite U. unfold char_from_u32. rewrite N2Z.id, Sc.
    f_equal. rewrite !app_length. cbn [length]. lia.
Qed.

(* ---------------------------------------------------------------- the whole string *)
Ltac norm_app := repeat (progress (rewrite <- ?app_assoc; cbn [app])).

Definition ok_items (l : list str_item) : Prop := Forall (fun i => item_ok i = true) l.

Lemma show_item_escape e : is_escape e -> exists E, show_item e = 92 :: E.
Proof. destruct e as [c| |e|c z u]; [contradiction| | |]; intros _; eexists; reflexivity. Qed.

Lemma show_item_len i : (1 <= length (show_item i))%nat.
Proof.
  destruct i as [c| |e|c z u]; cbn [show_item length]; try lia.
  - rewrite encode_char_len. unfold len_utf8. ifs; lia.
  - rewrite app_length. cbn. lia.
Qed.

Lemma show_item_esc_len e : is_escape e -> (2 <= length (show_item e))%nat.
Proof. destruct e as [c| |e|c z u]; [contradiction| | |]; intros _; cbn [show_item length]; try lia. rewrite app_length. cbn. lia. Qed.

Lemma render_len l : (length l <= length (render l))%nat.
Proof.
  induction l as [|i l IH]; [cbn; lia|]. change (render (i :: l)) with (show_item i ++ render l).
  rewrite app_length. pose proof (show_item_len i). cbn [length]. lia.
Qed.

Lemma string_value_snoc done e : string_value (done ++ [e]) = string_value done ++ encode_char (item_value e).
Proof. rewrite string_value_app. unfold string_value at 2. cbn. now rewrite app_nil_r. Qed.

(* loop invariant: `done` has been processed, `todo` remains; escaped is empty exactly while no escape has been seen *)
Lemma str_items : forall f st done todo esc rest,
  ok_items done -> ok_items todo -> Valid (ts_data st) ->
  ts_data st = (34 :: render done) ++ render todo ++ 34 :: rest ->
  ((esc = [] /\ done = []) \/ (esc <> [] /\ esc = string_value done)) -> (length todo < f)%nat ->
  str_loop f st (length (34 :: render done)) esc =
  finish st (length (34 :: render (done ++ todo)) + 1) false (TString (string_value (done ++ todo))).
Proof.
  induction f as [|f IH]; intros st done todo esc rest Od Ot V D Inv Lf; [lia|].
  destruct (split_plains todo) as [cs [more [Et Hm]]].
  set (P := 34 :: render done). set (run := render (map SPlain cs)).
  assert (Ocs : ok_items (map SPlain cs) /\ ok_items more) by (unfold ok_items in *; rewrite Et in Ot; now apply Forall_app in Ot).
  destruct Ocs as [Ocs Om].
  assert (VP : Valid P) by (apply Valid_cons_ascii; [lia|now apply render_Valid]).
  assert (VPR : Valid (P ++ run)) by (apply Valid_app; [exact VP|now apply render_Valid]).
  assert (NS : nonspecial run) by now apply plains_nonspecial.
  assert (NP : P <> []) by discriminate.
  destruct Hm as [->|[e [more' [-> Ie]]]].
  - (* closing quote *)
    rewrite app_nil_r in Et. subst todo.
    assert (D' : ts_data st = P ++ run ++ 34 :: rest) by exact D.
    rewrite (str_iter st f esc P run 34 rest V D' VP NP VPR NS eq_refl).
    replace ((34 <? 32) || (127 <=? 34)) with false by reflexivity. replace (34 =? 92) with false by reflexivity. cbv zeta.
    assert (Lfin : (length P + length run + 1)%nat = Nat.add (length (34 :: render (done ++ map SPlain cs))) 1).
    { unfold P, run. rewrite render_app. cbn [length]. rewrite app_length. lia. }
    destruct Inv as [[-> ->]|[Ne ->]].
    + (* borrowed: no escape in the whole string *)
      cbn [app] in *.
      assert (B1 : bnd (ts_data st) 1).
      { rewrite D'. change (P ++ run ++ 34 :: rest) with ([34] ++ (render [] ++ run ++ 34 :: rest)). apply (bnd_prefix_Valid [34]); [apply Valid_ascii; repeat constructor|].
        change ([34] ++ render [] ++ run ++ 34 :: rest) with (P ++ run ++ 34 :: rest). now rewrite <- D'. }
      assert (B2 : bnd (ts_data st) (length P + length run)).
      { rewrite <- app_length. rewrite D', app_assoc. apply bnd_prefix_Valid; [exact VPR|now rewrite <- app_assoc, <- D']. }
      assert (L12 : (1 <= length P + length run + 1 - 1)%nat) by (unfold P; cbn [length]; lia).
      replace (length P + length run + 1 - 1)%nat with (length P + length run)%nat in * by lia.
      rewrite (slice_ok _ _ _ _ L12 B1 B2). cbn [bind]. rewrite Lfin. f_equal. f_equal.
      rewrite D'. unfold P. change (render []) with (@nil N). cbn [app skipn length].
      replace (1 + length run - 1)%nat with (length run) by lia. rewrite firstn_app, Nat.sub_diag, firstn_all, app_nil_r.
      unfold run. apply render_plains.
    + destruct (string_value done) as [|e0 esc0] eqn:Es; [contradiction|]. rewrite <- Es.
      destruct (string_value done ++ run) eqn:Er; [rewrite Es in Er; discriminate|]. rewrite <- Er. cbn [bind]. rewrite Lfin.
      rewrite string_value_app. unfold run. now rewrite render_plains.
  - (* an escape *)
    destruct (show_item_escape e Ie) as [E Ee].
    assert (Oe : item_ok e = true /\ ok_items more') by (inversion Om; auto). destruct Oe as [Oe Om'].
    assert (D' : ts_data st = P ++ run ++ 92 :: (E ++ render more' ++ 34 :: rest)).
    { rewrite D, Et, !render_app. change (render (e :: more')) with (show_item e ++ render more'). rewrite Ee. fold run.
      unfold P. norm_app. reflexivity. }
    rewrite (str_iter st f esc P run 92 _ V D' VP NP VPR NS eq_refl).
    replace ((92 <? 32) || (127 <=? 92)) with false by reflexivity. rewrite N.eqb_refl.
    replace (length P + length run)%nat with (length (P ++ run)) by apply app_length.
    assert (EB : esc_block f st (esc ++ run, length (P ++ run)) =
                 str_loop f st (length (P ++ run) + length (show_item e)) ((esc ++ run) ++ encode_char (item_value e))).
    { apply (esc_block_item f st (esc ++ run) (P ++ run) e (render more' ++ 34 :: rest)); auto.
      - rewrite D', Ee. norm_app. reflexivity.
      - rewrite app_length, app_length. pose proof (show_item_esc_len e Ie). cbn [length]. lia. }
    rewrite EB. clear EB.
    (* continue with done' = done ++ plains ++ [e] *)
    set (done' := done ++ map SPlain cs ++ [e]).
    assert (Rd : 34 :: render done' = (P ++ run) ++ show_item e).
    { unfold done', P, run. rewrite !render_app. change (render [e]) with (show_item e ++ []). rewrite app_nil_r. norm_app. reflexivity. }
    replace (length (P ++ run) + length (show_item e))%nat with (length (34 :: render done')) by (rewrite Rd, app_length; reflexivity).
    assert (Edt : done' ++ more' = done ++ todo) by (unfold done'; rewrite Et, <- !app_assoc; reflexivity).
    rewrite <- Edt. apply (IH st done' more' _ rest).
    + unfold ok_items, done'. apply Forall_app. split; [exact Od|]. apply Forall_app. split; [exact Ocs|]. constructor; auto.
    + exact Om'.
    + exact V.
    + rewrite Rd, D', Ee. norm_app. reflexivity.
    + right. split; [intros H; apply app_eq_nil in H; destruct H as [_ H]; now apply encode_char_nonempty in H|].
      unfold done'. rewrite app_assoc, string_value_snoc, string_value_app. unfold run. rewrite render_plains.
      destruct Inv as [[-> ->]|[_ ->]]; reflexivity.
    + rewrite Et, app_length in Lf. cbn [length] in Lf. lia.
Qed.

Lemma do_next_dquote st t : ts_data st = 34 :: t -> do_next st = do_string st.
Proof. intros D. unfold do_next. rewrite D. decide_ifs. reflexivity. Qed.

Lemma show_string_Valid items : ok_items items -> Valid (show_string items).
Proof.
  intros H. unfold show_string. cbn [app]. apply Valid_cons_ascii; [lia|]. apply Valid_app; [now apply render_Valid|apply Valid_ascii; repeat constructor].
Qed.

(* a string literal at any position, whatever follows the closing quote *)
Theorem string_step st pre items rest : ok_items items -> Valid (ts_data st) -> pos_st st = pos_of pre ->
  ts_data st = show_string items ++ rest ->
  exists st', do_next st = Ok (inl (pos_tok st (TString (string_value items))), st') /\ ts_data st' = rest /\
              pos_st st' = pos_of (pre ++ show_string items) /\ ts_utf_err st' = ts_utf_err st.
Proof.
  intros Oi V P D.
  assert (D' : ts_data st = (34 :: render []) ++ render items ++ 34 :: rest).
  { rewrite D. unfold show_string. fold (render items). cbn [app render map concat]. now rewrite <- app_assoc. }
  rewrite (do_next_dquote st (render items ++ 34 :: rest)) by exact D'.
  unfold do_string.
  pose proof (str_items (length (ts_data st)) st [] items [] rest (Forall_nil _) Oi V D' (or_introl (conj eq_refl eq_refl))) as S.
  change (length (34 :: render [])) with 1%nat in S. cbn [app] in S. rewrite S.
  2:{ rewrite D'. cbn [app length render map concat]. rewrite app_length. pose proof (render_len items). cbn [length]. lia. }
  assert (Ls : Nat.add (length (34 :: render items)) 1 = length (show_string items)).
  { unfold show_string. fold (render items). cbn [app length]. rewrite app_length. cbn [length]. lia. }
  rewrite Ls.
  destruct (finish_ok st pre (show_string items) rest false (TString (string_value items))) as [st' [Ef [[_ T] Dt]]]; auto.
  - rewrite D. apply bnd_prefix_Valid; [now apply show_string_Valid|now rewrite <- D].
  - discriminate.
  - discriminate.
  - exists st'. split; [exact Ef|]. destruct T as [text [Dt' [_ [_ [Ps U]]]]]. split; [exact Dt|]. split; [|exact U].
    rewrite Dt in Dt'. rewrite D in Dt'. apply app_inv_tail in Dt'. now subst text.
Qed.

(* every string over plain characters and the eight escape forms: exactly one String token with exactly the denoted text,
   whether the result is borrowed (no escape) or built (at least one escape) *)
Theorem string_literal items : ok_items items ->
  tokens_all (show_string items) = Ok ([inl (mkToken 1 1 (TString (string_value items)))], [None; None; None]).
Proof.
  intros H. pose proof (show_string_Valid items H) as V.
  destruct (string_step (mkT (show_string items) false 1 1) [] items [] H V eq_refl) as [st' [E [D [_ U]]]].
  { cbn [ts_data]. now rewrite app_nil_r. }
  apply (run_single _ 34 (tl (show_string items)) _ st' V); [reflexivity|reflexivity|lia|exact E|split; [exact D|exact U]].
Qed.

(* ================================================================ malformed strings, at any position *)
Definition esc_inv (esc : str) (done : list str_item) : Prop := (esc = [] /\ done = []) \/ (esc <> [] /\ esc = string_value done).

(* the loop advances over well-formed items up to the loop head after the last escape; the plain characters after it are pending *)
Lemma str_prefix k : forall f st done todo esc T,
  ok_items done -> ok_items todo -> Valid (ts_data st) -> T <> [] ->
  ts_data st = (34 :: render done) ++ render todo ++ T -> esc_inv esc done -> (length todo + k < f)%nat ->
  exists f' done' cs esc', done ++ todo = done' ++ map SPlain cs /\ ok_items done' /\ ok_items (map SPlain cs) /\ esc_inv esc' done' /\
    (k <= f')%nat /\
    str_loop f st (length (34 :: render done)) esc = str_loop (S f') st (length (34 :: render done')) esc'.
Proof.
  induction f as [|f IH]; intros st done todo esc T Od Ot V NT D Inv Lf; [lia|].
  destruct (split_plains todo) as [cs [more [Et Hm]]].
  assert (Ocs : ok_items (map SPlain cs) /\ ok_items more) by (unfold ok_items in *; rewrite Et in Ot; now apply Forall_app in Ot).
  destruct Ocs as [Ocs Om].
  destruct Hm as [->|[e [more' [-> Ie]]]].
  - rewrite app_nil_r in Et. subst todo. exists f, done, cs, esc. repeat split; auto. lia.
  - set (P := 34 :: render done). set (run := render (map SPlain cs)).
    assert (VP : Valid P) by (apply Valid_cons_ascii; [lia|now apply render_Valid]).
    assert (VPR : Valid (P ++ run)) by (apply Valid_app; [exact VP|now apply render_Valid]).
    assert (NS : nonspecial run) by now apply plains_nonspecial.
    assert (NP : P <> []) by discriminate.
    destruct (show_item_escape e Ie) as [E Ee].
    assert (Oe : item_ok e = true /\ ok_items more') by (inversion Om; auto). destruct Oe as [Oe Om'].
    assert (D' : ts_data st = P ++ run ++ 92 :: (E ++ render more' ++ T)).
    { rewrite D, Et, !render_app. change (render (e :: more')) with (show_item e ++ render more'). rewrite Ee. fold run.
      unfold P. norm_app. reflexivity. }
    rewrite (str_iter st f esc P run 92 _ V D' VP NP VPR NS eq_refl).
    replace ((92 <? 32) || (127 <=? 92)) with false by reflexivity. rewrite N.eqb_refl.
    replace (length P + length run)%nat with (length (P ++ run)) by apply app_length.
    assert (EB : esc_block f st (esc ++ run, length (P ++ run)) =
                 str_loop f st (length (P ++ run) + length (show_item e)) ((esc ++ run) ++ encode_char (item_value e))).
    { apply (esc_block_item f st (esc ++ run) (P ++ run) e (render more' ++ T)); auto.
      - rewrite D', Ee. norm_app. reflexivity.
      - rewrite app_length, app_length. pose proof (show_item_esc_len e Ie). destruct T; [contradiction|cbn [length]; lia]. }
    rewrite EB. clear EB.
    set (done2 := done ++ map SPlain cs ++ [e]).
    assert (Rd : 34 :: render done2 = (P ++ run) ++ show_item e).
    { unfold done2, P, run. rewrite !render_app. change (render [e]) with (show_item e ++ []). rewrite app_nil_r. norm_app. reflexivity. }
    replace (length (P ++ run) + length (show_item e))%nat with (length (34 :: render done2)) by (rewrite Rd, app_length; reflexivity).
    destruct (IH st done2 more' ((esc ++ run) ++ encode_char (item_value e)) T) as [f' [done' [cs' [esc' [E1 [O1 [O2 [I1 [K1 E2]]]]]]]]]; auto.
    + unfold ok_items, done2. apply Forall_app. split; [exact Od|]. apply Forall_app. split; [exact Ocs|]. constructor; auto.
    + rewrite Rd, D', Ee. norm_app. reflexivity.
    + right. split; [intros H; apply app_eq_nil in H; destruct H as [_ H]; now apply encode_char_nonempty in H|].
      unfold done2. rewrite app_assoc, string_value_snoc, string_value_app. unfold run. rewrite render_plains.
      destruct Inv as [[-> ->]|[_ ->]]; reflexivity.
    + rewrite Et, app_length in Lf. cbn [length] in Lf. lia.
    + exists f', done', cs', esc'. split; [|auto]. rewrite <- E1. unfold done2. rewrite Et, <- !app_assoc. reflexivity.
Qed.

(* the loop head with nothing special left: the input ends inside the string *)
Lemma str_iter_none st f escaped P run :
  Valid (ts_data st) -> ts_data st = P ++ run -> Valid P -> nonspecial run ->
  str_loop (S f) st (length P) escaped = fail_str_end st.
Proof.
  intros V D VP NS.
  assert (Bp : bnd (ts_data st) (length P)) by (rewrite D; apply bnd_prefix_Valid; [exact VP|now rewrite <- D]).
  cbn [str_loop]. rewrite (slice_from_ok _ _ _ Bp). cbn [bind].
  rewrite D, skipn_app, Nat.sub_diag, skipn_all. cbn [app skipn]. now rewrite (position_all_false _ _ NS).
Qed.

(* the text after backslash-u-{ does not name a character: no closing brace among the next 7 bytes, or the bytes before it
   are not the hexadecimal notation of a scalar value (concrete instances: bad_u_value, bad_u_empty, bad_u_long below) *)
Definition bad_u (t3 : str) : Prop :=
  match position (fun b => b =? 125) (firstn 7 t3) with
  | None => True
  | Some en => match u32_from_str_radix (firstn en t3) 16 with Some v => char_from_u32 v | None => None end = None
  end.

(* the ways a string body can go wrong after any number of well-formed items *)
Inductive bad_tail : str -> Prop :=
| BadUBody t3 : bad_u t3 -> bad_tail (92 :: 117 :: 123 :: t3)                  (* \u{ not followed by the notation of a scalar value and } *)
| BadEnd : bad_tail []                                                        (* no closing quote *)
| BadControl c T : (c <? 32) && negb (c =? 9) || (c =? 127) = true -> bad_tail (c :: T)     (* raw control character or DEL *)
| BadEscEnd T : (length T < 2)%nat -> bad_tail (92 :: T)                       (* backslash too close to the end *)
| BadEscape e T : negb ((e =? 48) || (e =? 116) || (e =? 110) || (e =? 114) || (e =? 34) || (e =? 39) || (e =? 92) || (e =? 117)) = true ->
                  bad_tail (92 :: e :: T)                                      (* unknown escape letter *)
| BadU b T : negb (b =? 123) = true -> bad_tail (92 :: 117 :: b :: T).         (* \u without { *)

Theorem string_malformed st items T : ok_items items -> Valid (ts_data st) -> ts_utf_err st = false ->
  ts_data st = 34 :: render items ++ T -> bad_tail T -> T <> [] ->
  do_next st = Ok (inr (pos_err st BadString), clear st).
Proof.
  intros Oi V U D Bt NT.
  rewrite (do_next_dquote st (render items ++ T)) by exact D. unfold do_string.
  assert (D0 : ts_data st = (34 :: render []) ++ render items ++ T) by (rewrite D; reflexivity).
  destruct (str_prefix 0 (length (ts_data st)) st [] items [] T (Forall_nil _) Oi V NT D0 (or_introl (conj eq_refl eq_refl)))
    as [f' [done' [cs [esc' [E1 [O1 [O2 [I1 [_ E2]]]]]]]]].
  { rewrite D. cbn [length]. rewrite app_length. pose proof (render_len items). lia. }
  change (length (34 :: render [])) with 1%nat in E2. rewrite E2. clear E2.
  cbn [app] in E1. subst items.
  set (P := 34 :: render done'). set (run := render (map SPlain cs)).
  assert (VP : Valid P) by (apply Valid_cons_ascii; [lia|now apply render_Valid]).
  assert (VPR : Valid (P ++ run)) by (apply Valid_app; [exact VP|now apply render_Valid]).
  assert (NS : nonspecial run) by now apply plains_nonspecial.
  assert (NP : P <> []) by discriminate.
  destruct T as [|x T']; [contradiction|].
  assert (D' : ts_data st = P ++ run ++ x :: T').
  { rewrite D, render_app. unfold P, run. norm_app. reflexivity. }
  assert (SX : str_special x = true) by (inversion Bt; subst; unfold str_special; lia).
  rewrite (str_iter st f' esc' P run x T' V D' VP NP VPR NS SX).
  inversion Bt as [t3 Hu| |c T0 Hc|T0 Hl|e T0 He|b T0 Hb]; subst.
  - (* \u{ ... *)
    replace ((92 <? 32) || (127 <=? 92)) with false by reflexivity. rewrite N.eqb_refl.
    unfold esc_block. destruct (length (ts_data st) - (length P + length run) <? 3)%nat; [reflexivity|].
    set (pos1 := (length P + length run)%nat).
    assert (N1 : nth_error (ts_data st) (pos1 + 1) = Some 117).
    { rewrite D'. replace (P ++ run ++ 92 :: 117 :: 123 :: t3) with ((P ++ run ++ [92]) ++ 117 :: 123 :: t3) by (norm_app; reflexivity).
      replace (pos1 + 1)%nat with (length (P ++ run ++ [92])) by (unfold pos1; rewrite !app_length; cbn [length]; lia). apply nth_error_mid. }
    assert (N2 : nth_error (ts_data st) (pos1 + 2) = Some 123).
    { rewrite D'. replace (P ++ run ++ 92 :: 117 :: 123 :: t3) with ((P ++ run ++ [92; 117]) ++ 123 :: t3) by (norm_app; reflexivity).
      replace (pos1 + 2)%nat with (length (P ++ run ++ [92; 117])) by (unfold pos1; rewrite !app_length; cbn [length]; lia). apply nth_error_mid. }
    rewrite (byte_at_ok _ _ _ _ N1). cbn [bind]. decide_ifs. rewrite (byte_at_ok _ _ _ _ N2). cbn [bind]. rewrite N.eqb_refl.
    assert (B3 : bnd (ts_data st) (pos1 + 3)) by (replace (pos1 + 3)%nat with (S (pos1 + 2)) by lia; apply (bnd_after_ascii _ _ 123 V N2); lia).
    rewrite (slice_from_ok _ _ _ B3). cbn [bind].
    assert (Sk3 : skipn (pos1 + 3) (ts_data st) = t3).
    { rewrite D'. replace (P ++ run ++ 92 :: 117 :: 123 :: t3) with ((P ++ run ++ [92; 117; 123]) ++ t3) by (norm_app; reflexivity).
      replace (pos1 + 3)%nat with (length (P ++ run ++ [92; 117; 123])) by (unfold pos1; rewrite !app_length; cbn [length]; lia).
      now rewrite skipn_app, Nat.sub_diag, skipn_all. }
    rewrite Sk3. unfold bad_u in Hu.
    destruct (position (fun b => b =? 125) (firstn 7 t3)) as [en|] eqn:Pe; [|unfold fail_str_end; now rewrite U].
    destruct (position_Some _ _ _ Pe) as [y [Hy [Py _]]].
    assert (en < 7)%nat by (apply nth_error_Some_lt in Hy; rewrite firstn_length in Hy; lia).
    rewrite nth_error_firstn in Hy by lia. rewrite <- Sk3, nth_error_skipn in Hy.
    assert (y = 125) by lia. subst y.
    assert (Be : bnd (ts_data st) (pos1 + 3 + en)) by (apply (bnd_ascii _ _ 125 Hy); lia).
    assert (L33 : (pos1 + 3 <= pos1 + 3 + en)%nat) by lia.
    rewrite (slice_ok _ _ _ _ L33 B3 Be), Sk3. replace (pos1 + 3 + en - (pos1 + 3))%nat with en by lia. cbn [bind].
    rewrite Hu. reflexivity.
  - replace ((x <? 32) || (127 <=? x)) with true by lia. reflexivity.
  - replace ((92 <? 32) || (127 <=? 92)) with false by reflexivity. rewrite N.eqb_refl.
    unfold esc_block. replace (length (ts_data st) - (length P + length run) <? 3)%nat with true; [reflexivity|].
    symmetry. apply Nat.ltb_lt. rewrite D', !app_length. cbn [length]. lia.
  - replace ((92 <? 32) || (127 <=? 92)) with false by reflexivity. rewrite N.eqb_refl.
    unfold esc_block. destruct (length (ts_data st) - (length P + length run) <? 3)%nat; [reflexivity|].
    assert (B1 : byte_at 63 (ts_data st) (length P + length run + 1) = Ok e).
    { rewrite D'. replace (P ++ run ++ 92 :: e :: T0) with ((P ++ run ++ [92]) ++ e :: T0) by (norm_app; reflexivity).
      replace (length P + length run + 1)%nat with (length (P ++ run ++ [92])) by (rewrite !app_length; cbn [length]; lia). apply byte_at_mid. }
    rewrite B1. cbn [bind]. decide_ifs. reflexivity.
  - replace ((92 <? 32) || (127 <=? 92)) with false by reflexivity. rewrite N.eqb_refl.
    unfold esc_block. destruct (length (ts_data st) - (length P + length run) <? 3)%nat; [reflexivity|].
    assert (B1 : byte_at 63 (ts_data st) (length P + length run + 1) = Ok 117).
    { rewrite D'. replace (P ++ run ++ 92 :: 117 :: b :: T0) with ((P ++ run ++ [92]) ++ 117 :: b :: T0) by (norm_app; reflexivity).
      replace (length P + length run + 1)%nat with (length (P ++ run ++ [92])) by (rewrite !app_length; cbn [length]; lia). apply byte_at_mid. }
    assert (B2 : byte_at 64 (ts_data st) (length P + length run + 2) = Ok b).
    { rewrite D'. replace (P ++ run ++ 92 :: 117 :: b :: T0) with ((P ++ run ++ [92; 117]) ++ b :: T0) by (norm_app; reflexivity).
      replace (length P + length run + 2)%nat with (length (P ++ run ++ [92; 117])) by (rewrite !app_length; cbn [length]; lia). apply byte_at_mid. }
    rewrite B1. cbn [bind]. decide_ifs. rewrite B2. cbn [bind]. decide_ifs. reflexivity.
Qed.

(* no closing quote: the input ends after well-formed items and further plain text (or immediately after the opening quote) *)
Theorem string_unclosed st items run : ok_items items -> Valid (ts_data st) -> ts_utf_err st = false ->
  ts_data st = 34 :: render items ++ run -> nonspecial run -> Valid run -> (items = [] \/ run <> []) ->
  do_next st = Ok (inr (pos_err st BadString), clear st).
Proof.
  intros Oi V U D NR VR Hc.
  rewrite (do_next_dquote st (render items ++ run)) by exact D. unfold do_string.
  assert (FSE : fail_str_end st = Ok (inr (pos_err st BadString), clear st)) by (unfold fail_str_end; now rewrite U).
  destruct run as [|r0 run'] eqn:Er.
  - destruct Hc as [->|Hc]; [|contradiction]. cbn [render map concat app] in D.
    destruct (ts_data st) as [|q d'] eqn:Dd; [discriminate|]. injection D as -> ->. cbn [length].
    rewrite <- Dd in *. rewrite <- FSE. apply (str_iter_none st 0 [] [34] []); auto. apply Valid_ascii; repeat constructor.
  - rewrite <- Er in *. assert (NT : run <> []) by (rewrite Er; discriminate).
    assert (D0 : ts_data st = (34 :: render []) ++ render items ++ run) by (rewrite D; reflexivity).
    destruct (str_prefix 0 (length (ts_data st)) st [] items [] run (Forall_nil _) Oi V NT D0 (or_introl (conj eq_refl eq_refl)))
      as [f' [done' [cs [esc' [E1 [O1 [O2 [I1 [_ E2]]]]]]]]].
    { rewrite D. cbn [length]. rewrite app_length. pose proof (render_len items). lia. }
    change (length (34 :: render [])) with 1%nat in E2. rewrite E2. clear E2. cbn [app] in E1. subst items.
    rewrite <- FSE. apply (str_iter_none st f' esc' (34 :: render done') (render (map SPlain cs) ++ run)); auto.
    + rewrite D, render_app. norm_app. reflexivity.
    + apply Valid_cons_ascii; [lia|now apply render_Valid].
    + apply Forall_app. split; [now apply plains_nonspecial|exact NR].
Qed.

(* ---------------------------------------------------------------- concrete instances of bad_u *)
(* \u{h..h} (at most six digits, either case, leading zeros) whose value is a surrogate or above 0x10FFFF *)
Lemma bad_u_value c z u T : is_scalar c = false -> (length (u_digits c z u) <= 6)%nat -> bad_u (u_digits c z u ++ 125 :: T).
Proof.
  intros Sc Ld. unfold bad_u. destruct (u_digits_facts c z u) as [Fu [Nu Ru]]. set (digs := u_digits c z u) in *.
  assert (F7 : firstn 7 (digs ++ 125 :: T) = digs ++ 125 :: firstn (6 - length digs) T).
  { rewrite firstn_app. rewrite firstn_all2 by lia. f_equal. replace (7 - length digs)%nat with (S (6 - length digs)) by lia. reflexivity. }
  rewrite F7. rewrite position_app_hit; [|eapply Forall_impl; [|exact Fu]; intros x Hx; cbv beta in *; lia|reflexivity].
  rewrite firstn_app, Nat.sub_diag, firstn_all, app_nil_r.
  rewrite (u32_from_digits _ _ Ru Nu), val_from_zeros.
  destruct (int_digits_spec 16 c ltac:(lia)) as [_ [_ Vc]]. unfold digits_value in Vc. unfold val_from. rewrite Vc.
  destruct (Z.of_N c <=? Z.of_N u32_max)%Z; [|reflexivity]. unfold char_from_u32. now rewrite N2Z.id, Sc.
Qed.

(* \u{} *)
Lemma bad_u_empty T : bad_u (125 :: T).
Proof. reflexivity. Qed.

Lemma In_firstn' {A} n : forall (l : list A) x, In x (firstn n l) -> In x l.
Proof. induction n as [|n IH]; intros [|y l] x H; cbn in H; try contradiction. destruct H as [->|H]; [now left|right; now apply IH]. Qed.

(* seven or more bytes without a closing brace *)
Lemma bad_u_long ds T : Forall (fun b => (b =? 125) = false) ds -> (7 <= length ds)%nat -> bad_u (ds ++ T).
Proof.
  intros F L. unfold bad_u. rewrite firstn_app. replace (7 - length ds)%nat with 0%nat by lia. cbn [firstn]. rewrite app_nil_r.
  rewrite position_all_false; [exact I|]. apply Forall_forall. intros x Hx. apply (proj1 (Forall_forall _ _) F). apply (In_firstn' 7); exact Hx.
Qed.

(* ---------------------------------------------------------------- missing closing quote, every case *)
Lemma split_plains_right items : exists A cs, items = A ++ map SPlain cs /\ (A = [] \/ exists A' e, A = A' ++ [e] /\ is_escape e).
Proof.
  induction items as [|i l IH] using rev_ind; [exists [], []; auto|].
  destruct IH as [A [cs [E HA]]]. destruct i as [c| |e|c z u].
  - exists A, (cs ++ [c]). split; [rewrite E, map_app, app_assoc; reflexivity|exact HA].
  - exists (l ++ [SEsc0]), []. split; [now rewrite app_nil_r|right]. exists l, SEsc0. split; [reflexivity|exact I].
  - exists (l ++ [SEsc e]), []. split; [now rewrite app_nil_r|right]. exists l, (SEsc e). split; [reflexivity|exact I].
  - exists (l ++ [SEscU c z u]), []. split; [now rewrite app_nil_r|right]. exists l, (SEscU c z u). split; [reflexivity|exact I].
Qed.

Lemma render_plains_nonempty cs : cs <> [] -> render (map SPlain cs) <> [].
Proof.
  destruct cs as [|c cs]; [contradiction|]. intros _ H. change (render (map SPlain (c :: cs))) with (encode_char c ++ render (map SPlain cs)) in H.
  apply app_eq_nil in H. destruct H as [H _]. now apply encode_char_nonempty in H.
Qed.

Theorem string_unclosed_all st items run : ok_items items -> Valid (ts_data st) -> ts_utf_err st = false ->
  ts_data st = 34 :: render items ++ run -> nonspecial run -> Valid run ->
  do_next st = Ok (inr (pos_err st BadString), clear st).
Proof.
  intros Oi V U D NR VR.
  destruct run as [|r0 run']; [|apply (string_unclosed st items (r0 :: run')); auto; right; discriminate].
  destruct (split_plains_right items) as [A [cs [Ei HA]]].
  assert (OA : ok_items A /\ ok_items (map SPlain cs)) by (unfold ok_items in *; rewrite Ei in Oi; now apply Forall_app in Oi).
  destruct OA as [OA Ocs].
  destruct cs as [|c0 cs'].
  2:{ (* the input ends after plain characters *)
      apply (string_unclosed st A (render (map SPlain (c0 :: cs')))); auto.
      - rewrite D, Ei, render_app, app_nil_r. reflexivity.
      - now apply plains_nonspecial.
      - now apply render_Valid.
      - right. apply render_plains_nonempty. discriminate. }
  cbn [map] in Ei. rewrite app_nil_r in Ei. subst A. rewrite app_nil_r in D.
  destruct HA as [->|[A' [e [-> Ie]]]].
  { apply (string_unclosed st [] []); auto; first [now rewrite D|constructor]. }
  (* the input ends right after the escape item e *)
  assert (OA' : ok_items A' /\ item_ok e = true) by (unfold ok_items in OA; apply Forall_app in OA; destruct OA as [O1 O2]; split; [exact O1|now inversion O2]).
  destruct OA' as [OA' Oe].
  rewrite (do_next_dquote st (render (A' ++ [e]))) by exact D. unfold do_string.
  assert (FSE : fail_str_end st = Ok (inr (pos_err st BadString), clear st)) by (unfold fail_str_end; now rewrite U).
  assert (NT : show_item e <> []) by (destruct (show_item_escape e Ie) as [E Ee]; rewrite Ee; discriminate).
  assert (D0 : ts_data st = (34 :: render []) ++ render A' ++ show_item e).
  { rewrite D, render_app. change (render [e]) with (show_item e ++ []). now rewrite app_nil_r. }
  destruct (str_prefix 1 (length (ts_data st)) st [] A' [] (show_item e) (Forall_nil _) OA' V NT D0 (or_introl (conj eq_refl eq_refl)))
    as [f' [done' [cs [esc' [E1 [O1 [O2 [I1 [K1 E2]]]]]]]]].
  { rewrite D0. cbn [length app render map concat]. rewrite !app_length. pose proof (render_len A'). pose proof (show_item_esc_len e Ie). lia. }
  change (length (34 :: render [])) with 1%nat in E2. rewrite E2. clear E2. cbn [app] in E1. subst A'.
  set (P := 34 :: render done'). set (run := render (map SPlain cs)).
  assert (VP : Valid P) by (apply Valid_cons_ascii; [lia|now apply render_Valid]).
  assert (VPR : Valid (P ++ run)) by (apply Valid_app; [exact VP|now apply render_Valid]).
  assert (NS : nonspecial run) by now apply plains_nonspecial.
  destruct (show_item_escape e Ie) as [E Ee].
  assert (D' : ts_data st = P ++ run ++ 92 :: E).
  { rewrite D0, render_app, Ee. unfold P, run. norm_app. reflexivity. }
  rewrite (str_iter st f' esc' P run 92 E V D' VP ltac:(discriminate) VPR NS eq_refl).
  replace ((92 <? 32) || (127 <=? 92)) with false by reflexivity. rewrite N.eqb_refl.
  destruct (Nat.lt_ge_cases (length (show_item e)) 3) as [L2|L3].
  - (* a two-byte escape at the very end: fewer than three bytes are left *)
    unfold esc_block. replace (length (ts_data st) - (length P + length run) <? 3)%nat with true; [reflexivity|].
    symmetry. apply Nat.ltb_lt. rewrite D', !app_length. rewrite Ee in L2. cbn [length] in *. lia.
  - (* \u{...} at the very end: it is consumed, and the next iteration finds the end of the input *)
    replace (length P + length run)%nat with (length (P ++ run)) by apply app_length.
    assert (EB : esc_block f' st (esc' ++ run, length (P ++ run)) =
                 str_loop f' st (length (P ++ run) + length (show_item e)) ((esc' ++ run) ++ encode_char (item_value e))).
    { apply (esc_block_item f' st (esc' ++ run) (P ++ run) e []); auto.
      - rewrite D', Ee. norm_app. now rewrite app_nil_r.
      - now rewrite app_nil_r. }
    rewrite EB. destruct f' as [|f'']; [lia|].
    replace (length (P ++ run) + length (show_item e))%nat with (length ((P ++ run) ++ show_item e)) by (rewrite !app_length; lia).
    rewrite <- FSE. apply (str_iter_none st f'' _ ((P ++ run) ++ show_item e) []);
      [exact V|rewrite D', Ee; norm_app; now rewrite app_nil_r|apply Valid_app; [exact VPR|now apply show_item_Valid]|constructor].
Qed.

(* ================================================================ malformed character literals *)
(* what follows does not start with a closing quote *)
Definition no_quote (T : str) : Prop := T = [] \/ exists q T', T = encode_char q ++ T' /\ is_scalar q = true /\ q <> 39.

(* the text after the opening quote of a character literal that is not a character literal *)
Inductive bad_char_tail : str -> Prop :=
| BCEnd : bad_char_tail []                                                                    (* ' at the end of the input *)
| BCBad c T : is_scalar c = true -> char_plain_ok c = false -> c <> 92 -> bad_char_tail (encode_char c ++ T)   (* raw control character, DEL *)
| BCNoClose c T : char_plain_ok c = true -> no_quote T -> bad_char_tail (encode_char c ++ T)  (* 'a at the end, 'ab, '' at the end *)
| BCEscEnd : bad_char_tail [92]                                                               (* '\ at the end *)
| BCEscBad e T : is_scalar e = true -> (e =? 116) || (e =? 110) || (e =? 114) || (e =? 34) || (e =? 39) || (e =? 92) = false ->
                 bad_char_tail (92 :: encode_char e ++ T)                                     (* unknown escape, e.g. '\0' '\x' *)
| BCEscNoClose e T : (e =? 116) || (e =? 110) || (e =? 114) || (e =? 34) || (e =? 39) || (e =? 92) = true -> no_quote T ->
                 bad_char_tail (92 :: e :: T).                                                (* '\n at the end, '\nx *)

Theorem char_malformed st tail : Valid (ts_data st) -> ts_utf_err st = false -> ts_data st = 39 :: tail -> bad_char_tail tail ->
  do_next st = Ok (inr (pos_err st BadCharacter), clear st).
Proof.
  intros V U D Bt. rewrite (do_next_quote st tail D). unfold do_char.
  assert (B1 : bnd (ts_data st) 1) by (apply (bnd_after_ascii _ 0 39 V); [now rewrite D|lia]).
  rewrite (slice_from_ok _ _ _ B1). cbn [bind]. rewrite U. replace (skipn 1 (ts_data st)) with tail by now rewrite D.
  assert (CL : forall (n : nat) (c : N) T, no_quote T ->
            (res2 <- (r3 <- chars_next 43 T ;;
                      match r3 with
                      | None => Ok (inr false)
                      | Some (q, _) => if q =? 39 then Ok (inl (n, c)) else Ok (inr false)
                      end) ;;
             match res2 with
             | inl (n, c) => finish st (1 + n + 1) (c <? 128) (TNumber (Z.of_N c))
             | inr true => st' <- update_pos st (ts_data st) ;; fail st' BadUnicode
             | inr false => fail st BadCharacter
             end) = Ok (inr (pos_err st BadCharacter), clear st)).
  { intros n c T [->|[q [T' [-> [Sq Nq]]]]]; [reflexivity|]. rewrite (chars_next_enc _ q T' Sq). cbn [bind].
    replace (q =? 39) with false by lia. reflexivity. }
  inversion Bt as [|c T Sc Pc Nc|c T Pc Nq| |e T Se He|e T He Nq]; subst tail.
  - reflexivity.
  - rewrite (chars_next_enc _ c T Sc). cbn [bind]. replace (c =? 92) with false by lia.
    unfold char_plain_ok in Pc. rewrite Sc in Pc. cbn [andb] in Pc.
    replace ((c =? 9) || (32 <=? c) && (c <=? 126) || (128 <=? c)) with false by lia. reflexivity.
  - assert (Sc : is_scalar c = true) by (unfold char_plain_ok in Pc; lia).
    rewrite (chars_next_enc _ c T Sc). cbn [bind]. unfold char_plain_ok in Pc. replace (c =? 92) with false by lia.
    replace ((c =? 9) || (32 <=? c) && (c <=? 126) || (128 <=? c)) with true by lia. cbn [bind]. apply CL. exact Nq.
  - reflexivity.
  - rewrite (chars_next_ascii _ 92) by lia. cbn [bind]. rewrite N.eqb_refl.
    rewrite (chars_next_enc _ e T Se). cbn [bind]. decide_ifs. reflexivity.
  - rewrite (chars_next_ascii _ 92) by lia. cbn [bind]. rewrite N.eqb_refl.
    rewrite (chars_next_ascii _ e T) by lia. cbn [bind].
    destruct (e =? 116) eqn:E1; [cbn [bind]; apply CL; exact Nq|].
    destruct (e =? 110) eqn:E2; [cbn [bind]; apply CL; exact Nq|].
    destruct (e =? 114) eqn:E3; [cbn [bind]; apply CL; exact Nq|].
    replace ((e =? 34) || (e =? 39) || (e =? 92)) with true by lia. cbn [bind]. apply CL; exact Nq.
Qed.
