(* C11 oracle: how literals are written (show_int, show_char, show_string) and what they denote.
   Integers: optional radix prefix 0b / 0o / 0x, any number of leading zeros, digits in either letter case.
   Characters: a quote, a plain scalar value or one of the six escapes (backslash + t n r double-quote quote backslash), a quote.
   Strings: double quotes around plain scalar values (not the double quote, the backslash, control characters other than tab, DEL)
   and the escapes backslash + 0 t n r double-quote quote backslash, and backslash-u{h...} with 1..6 hexadecimal digits in either case. *)
From Coq Require Import ZArith NArith List Bool.
From Trion Require Import Base.Utf8.
Import ListNotations.
Open Scope N_scope.

(* ---------------- integers *)
Definition radix_ok (r : N) : bool := (r =? 2) || (r =? 8) || (r =? 10) || (r =? 16).
Definition radix_prefix (r : N) : list N :=
  if r =? 2 then [48; 98] else if r =? 8 then [48; 111] else if r =? 16 then [48; 120] else [].

(* digit values of n, most significant first; "0" for zero *)
Fixpoint digits_fuel (fuel : nat) (r n : N) (acc : list N) : list N :=
  match fuel with
  | O => acc
  | S f => if n <? r then n :: acc else digits_fuel f r (n / r) (n mod r :: acc)
  end.
Definition int_digits (r n : N) : list N := digits_fuel (S (N.to_nat (N.size n))) r n [].

(* value of a digit list (the denotation of the written digits) *)
Definition digits_value (r : N) (ds : list N) : N := fold_left (fun acc d => acc * r + d) ds 0.

Definition digit_char (upper : bool) (d : N) : N :=
  if d <? 10 then 48 + d else (if upper then 55 else 87) + d.

Definition show_int (r : N) (upper : bool) (zeros : nat) (n : N) : list N :=
  radix_prefix r ++ repeat 48 zeros ++ map (digit_char upper) (int_digits r n).

(* ---------------- characters *)
Inductive esc := EscT | EscN | EscR | EscDQ | EscSQ | EscBS.
Definition esc_letter (e : esc) : N :=
  match e with EscT => 116 | EscN => 110 | EscR => 114 | EscDQ => 34 | EscSQ => 39 | EscBS => 92 end.
Definition esc_value (e : esc) : N :=
  match e with EscT => 9 | EscN => 10 | EscR => 13 | EscDQ => 34 | EscSQ => 39 | EscBS => 92 end.

Inductive char_lit := CPlain (c : N) | CEsc (e : esc).
(* a plain character literal: tab, printable ASCII other than the backslash, or any scalar value from U+0080 *)
Definition char_plain_ok (c : N) : bool :=
  is_scalar c && ((c =? 9) || ((32 <=? c) && (c <=? 126) && negb (c =? 92)) || (128 <=? c)).
Definition char_lit_ok (l : char_lit) : bool := match l with CPlain c => char_plain_ok c | CEsc _ => true end.
Definition show_char (l : char_lit) : list N :=
  match l with
  | CPlain c => [39] ++ encode_char c ++ [39]
  | CEsc e => [39; 92; esc_letter e; 39]
  end.
Definition char_value (l : char_lit) : N := match l with CPlain c => c | CEsc e => esc_value e end.

(* ---------------- strings *)
Inductive str_item :=
| SPlain (c : N)
| SEsc0
| SEsc (e : esc)
| SEscU (c : N) (zeros : nat) (upper : bool).     (* \u{0..0h..h} *)

Definition str_plain_ok (c : N) : bool :=
  is_scalar c && negb (c =? 34) && negb (c =? 92) && ((32 <=? c) || (c =? 9)) && negb (c =? 127).
Definition item_ok (i : str_item) : bool :=
  match i with
  | SPlain c => str_plain_ok c
  | SEsc0 | SEsc _ => true
  | SEscU c zeros _ => is_scalar c && (zeros + length (int_digits 16 c) <=? 6)%nat
  end.
Definition show_item (i : str_item) : list N :=
  match i with
  | SPlain c => encode_char c
  | SEsc0 => [92; 48]
  | SEsc e => [92; esc_letter e]
  | SEscU c zeros upper => [92; 117; 123] ++ repeat 48 zeros ++ map (digit_char upper) (int_digits 16 c) ++ [125]
  end.
Definition item_value (i : str_item) : N :=
  match i with SPlain c => c | SEsc0 => 0 | SEsc e => esc_value e | SEscU c _ _ => c end.

Definition show_string (items : list str_item) : list N := [34] ++ concat (map show_item items) ++ [34].
(* the denoted text, as UTF-8 *)
Definition string_value (items : list str_item) : list N := concat (map (fun i => encode_char (item_value i)) items).
