(* Oracle for C09: how an argument tree is written down according to the README ("Arguments"):
   precedence, highest first:   - !  (unary)   >   * / %   >   + -   >   << >>   >   &   >   ^   >   |
   all binary operators associate to the left; "it is always valid to wrap any argument in parentheses".
   Written independently of the parser model (no import of ParseModel).  No proofs here. *)
From Coq Require Import ZArith NArith List Bool.
From Trion Require Import Text.Types.
Import ListNotations.

(* precedence of the top node: | 1, ^ 2, & 3, << >> 4, + - 5, * / % 6, everything else (unary, atoms, brackets) 7 *)
Definition prec (t : arg) : nat :=
  match t with
  | AOr _ _ => 1 | AXor _ _ => 2 | AAnd _ _ => 3 | AShl _ _ | AShr _ _ => 4
  | AAdd _ _ | ASub _ _ => 5 | AMul _ _ | ADiv _ _ | AMod _ _ => 6
  | _ => 7
  end.

Definition paren (body : list token_value) : list token_value := TBeginGroup :: body ++ [TEndGroup].

(* `render ctx t`: the tokens of t in a place that requires precedence >= ctx.  A binary node of precedence p
   writes its left operand at p (equal precedence needs no parentheses: left associativity) and its right operand
   at p+1 (equal precedence on the right IS parenthesised); a unary operator takes an operand of precedence 7;
   brackets, argument lists and the inside of parentheses accept anything (0). *)
Fixpoint render (ctx : nat) (t : arg) {struct t} : list token_value :=
  let body :=
    match t with
    | AConst v => [TNumber v]
    | AIdent s => [TIdentifier s]
    | AStr s => [TString s]
    | AOr l r => render 1 l ++ TBitOr :: render 2 r
    | AXor l r => render 2 l ++ TBitXor :: render 3 r
    | AAnd l r => render 3 l ++ TBitAnd :: render 4 r
    | AShl l r => render 4 l ++ TLeftShift :: render 5 r
    | AShr l r => render 4 l ++ TRightShift :: render 5 r
    | AAdd l r => render 5 l ++ TPlus :: render 6 r
    | ASub l r => render 5 l ++ TMinus :: render 6 r
    | AMul l r => render 6 l ++ TMultiply :: render 7 r
    | ADiv l r => render 6 l ++ TDivide :: render 7 r
    | AMod l r => render 6 l ++ TModulo :: render 7 r
    | ANeg a => TMinus :: render 7 a
    | ANot a => TNot :: render 7 a
    | AAddr a => TBeginAddr :: render 0 a ++ [TEndAddr]
    | ASeq l =>
      TBeginSeq :: (fix rl (l : list arg) (first : bool) : list token_value :=
                      match l with
                      | [] => []
                      | a :: l' => (if first then [] else [TSeparator]) ++ render 0 a ++ rl l' false
                      end) l true ++ [TEndSeq]
    | AFun n l =>
      TIdentifier n :: TBeginGroup ::
                   (fix rl (l : list arg) (first : bool) : list token_value :=
                      match l with
                      | [] => []
                      | a :: l' => (if first then [] else [TSeparator]) ++ render 0 a ++ rl l' false
                      end) l true ++ [TEndGroup]
    end in
  if Nat.ltb (prec t) ctx then paren body else body.

Definition render_tokens (t : arg) : list token_value := render 0 t.

(* comma separated argument list *)
Fixpoint render_list (l : list arg) (first : bool) : list token_value :=
  match l with
  | [] => []
  | a :: l' => (if first then [] else [TSeparator]) ++ render 0 a ++ render_list l' false
  end.

(* statements: label `name:`, directive `.name args;`, instruction `name args;` *)
Definition render_stmt (e : element_value) : list token_value :=
  match e with
  | ELabel n => [TIdentifier n; TLabelMark]
  | EDirective n a => TDirectiveMark :: TIdentifier n :: render_list a true ++ [TTerminator]
  | EInstruction n a => TIdentifier n :: render_list a true ++ [TTerminator]
  end.

Definition render_stmts (l : list element_value) : list token_value := concat (map render_stmt l).

(* ---------------------------------------------------------------------------------------------- *)
(* redundant parentheses.  The choice is a list of booleans read in pre-order: at every node the number of `true`
   before the next `false` (or the end of the list) is the number of extra pairs of parentheses around that node;
   a node that is wrapped at least once is written at context 0 inside. *)
Fixpoint pop_wraps (bits : list bool) : nat * list bool :=
  match bits with
  | true :: b => let (n, r) := pop_wraps b in (S n, r)
  | false :: b => (O, b)
  | [] => (O, [])
  end.

Fixpoint wrap (n : nat) (body : list token_value) : list token_value :=
  match n with O => body | S k => paren (wrap k body) end.

Fixpoint render_x (ctx : nat) (t : arg) (bits : list bool) {struct t} : list token_value * list bool :=
  let (n, b0) := pop_wraps bits in
  let bin (p : nat) (sym : token_value) (x : list token_value * list bool) (k : list bool -> list token_value * list bool) :=
    let (tl, b1) := x in let (tr, b2) := k b1 in (tl ++ sym :: tr, b2) in
  let un (sym : token_value) (x : list token_value * list bool) := (sym :: fst x, snd x) in
  let (body, b') :=
    match t with
    | AConst v => ([TNumber v], b0)
    | AIdent s => ([TIdentifier s], b0)
    | AStr s => ([TString s], b0)
    | AOr l r => bin 1 TBitOr (render_x 1 l b0) (render_x 2 r)
    | AXor l r => bin 2 TBitXor (render_x 2 l b0) (render_x 3 r)
    | AAnd l r => bin 3 TBitAnd (render_x 3 l b0) (render_x 4 r)
    | AShl l r => bin 4 TLeftShift (render_x 4 l b0) (render_x 5 r)
    | AShr l r => bin 4 TRightShift (render_x 4 l b0) (render_x 5 r)
    | AAdd l r => bin 5 TPlus (render_x 5 l b0) (render_x 6 r)
    | ASub l r => bin 5 TMinus (render_x 5 l b0) (render_x 6 r)
    | AMul l r => bin 6 TMultiply (render_x 6 l b0) (render_x 7 r)
    | ADiv l r => bin 6 TDivide (render_x 6 l b0) (render_x 7 r)
    | AMod l r => bin 6 TModulo (render_x 6 l b0) (render_x 7 r)
    | ANeg a => un TMinus (render_x 7 a b0)
    | ANot a => un TNot (render_x 7 a b0)
    | AAddr a => let (ta, b1) := render_x 0 a b0 in (TBeginAddr :: ta ++ [TEndAddr], b1)
    | ASeq l =>
      let (tl, b1) := (fix rl (l : list arg) (first : bool) (b : list bool) : list token_value * list bool :=
                         match l with
                         | [] => ([], b)
                         | a :: l' => let (ta, b1) := render_x 0 a b in let (tr, b2) := rl l' false b1 in
                                      ((if first then [] else [TSeparator]) ++ ta ++ tr, b2)
                         end) l true b0 in
      (TBeginSeq :: tl ++ [TEndSeq], b1)
    | AFun nm l =>
      let (tl, b1) := (fix rl (l : list arg) (first : bool) (b : list bool) : list token_value * list bool :=
                         match l with
                         | [] => ([], b)
                         | a :: l' => let (ta, b1) := render_x 0 a b in let (tr, b2) := rl l' false b1 in
                                      ((if first then [] else [TSeparator]) ++ ta ++ tr, b2)
                         end) l true b0 in
      (TIdentifier nm :: TBeginGroup :: tl ++ [TEndGroup], b1)
    end in
  (match n with
   | O => if Nat.ltb (prec t) ctx then paren body else body
   | S _ => wrap n body
   end, b').

Fixpoint render_list_x (l : list arg) (first : bool) (b : list bool) : list token_value * list bool :=
  match l with
  | [] => ([], b)
  | a :: l' => let (ta, b1) := render_x 0 a b in let (tr, b2) := render_list_x l' false b1 in
               ((if first then [] else [TSeparator]) ++ ta ++ tr, b2)
  end.

Definition render_with_extra_parens (t : arg) (bits : list bool) : list token_value := fst (render_x 0 t bits).

Definition render_stmt_x (e : element_value) (b : list bool) : list token_value * list bool :=
  match e with
  | ELabel n => ([TIdentifier n; TLabelMark], b)
  | EDirective n a => let (ta, b1) := render_list_x a true b in (TDirectiveMark :: TIdentifier n :: ta ++ [TTerminator], b1)
  | EInstruction n a => let (ta, b1) := render_list_x a true b in (TIdentifier n :: ta ++ [TTerminator], b1)
  end.

Fixpoint render_stmts_x (l : list element_value) (b : list bool) : list token_value :=
  match l with
  | [] => []
  | e :: l' => let (te, b1) := render_stmt_x e b in te ++ render_stmts_x l' b1
  end.

(* ---------------------------------------------------------------------------------------------- *)
(* Which trees can be written at all.  On the TOKEN level every tree is the parse of its rendering (ParseProofs:
   the parser accepts every nesting of the 18 node kinds); the restrictions below are what the TOKENIZER needs so that
   a text for the rendered tokens exists: a number token carries 0 <= v < 2^63 (`-5` is Minus, Number 5 = Negate
   (Constant 5); character literals are code points); identifiers and function names match
   [A-Za-z_][$.0-9@A-Za-z_]* (hence are non-empty); strings are arbitrary (valid UTF-8, the tokenizer's concern). *)
Definition ident_start (b : N) : bool :=
  ((65 <=? b) && (b <=? 90) || (97 <=? b) && (b <=? 122) || (b =? 95))%N.
Definition ident_char (b : N) : bool :=
  (ident_start b || (48 <=? b) && (b <=? 57) || (b =? 36) || (b =? 46) || (b =? 64))%N.
Definition ident_ok (s : str) : bool :=
  match s with [] => false | c :: r => ident_start c && forallb ident_char r end.

Fixpoint printable (t : arg) : bool :=
  match t with
  | AConst v => ((0 <=? v) && (v <? 2 ^ 63))%Z
  | AIdent s => ident_ok s
  | AStr _ => true
  | AAdd l r | ASub l r | AMul l r | ADiv l r | AMod l r | AAnd l r | AOr l r | AXor l r | AShl l r | AShr l r =>
    printable l && printable r
  | ANeg a | ANot a | AAddr a => printable a
  | ASeq l => (fix all (l : list arg) : bool := match l with [] => true | a :: l' => printable a && all l' end) l
  | AFun n l => ident_ok n && (fix all (l : list arg) : bool := match l with [] => true | a :: l' => printable a && all l' end) l
  end.

Definition printable_stmt (e : element_value) : bool :=
  match e with
  | ELabel n => ident_ok n
  | EDirective n a | EInstruction n a => ident_ok n && forallb printable a
  end.

(* ---------------------------------------------------------------------------------------------- *)
(* C12 oracle (parser half): where each statement of a token sequence starts.  A label is two tokens.  A directive or
   instruction ends with the first token outside all brackets that is `;` -- or a closing bracket: the parser takes
   whatever token ended the argument list as the end of the statement (`mov )` is accepted as the statement `mov`;
   observed on the real code, not contradicted by any property).  Brackets inside an accepted statement are balanced. *)
Fixpoint after_stmt_end (depth : nat) (toks : list token) : list token :=
  match toks with
  | [] => []
  | t :: r =>
    match t_val t with
    | TBeginGroup | TBeginAddr | TBeginSeq => after_stmt_end (S depth) r
    | TEndGroup | TEndAddr | TEndSeq => match depth with O => r | S d => after_stmt_end d r end
    | TTerminator => match depth with O => r | S _ => after_stmt_end depth r end
    | _ => after_stmt_end depth r
    end
  end.

Fixpoint stmt_positions (labels : list bool) (toks : list token) : list (option (N * N)) :=
  match labels with
  | [] => []
  | is_label :: ks =>
    match toks with
    | [] => None :: stmt_positions ks []
    | t :: r => Some (t_line t, t_col t) :: stmt_positions ks (if is_label then tl r else after_stmt_end 0 r)
    end
  end.
