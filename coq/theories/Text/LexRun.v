(* From characters to tokens, compositionally: a text that is a sequence of  separator ++ token text  pieces is tokenized to
   exactly the tokens written.  `lexes text v rest`: at any reachable tokenizer state whose data is text ++ rest, do_next yields
   one token of value v and leaves rest.  `skips sep rest`: the separator loop of next_token consumes exactly sep.
   `lexrun bs vs`: bs is written as separators and token texts for the values vs.  Main result: lexrun_tokens.
   Per-token lemmas (punctuation, identifiers, the literals of LitSpec via TokenLit.v) and separator lemmas (white space,
   line comments, non-nested block comments) follow. *)
From Coq Require Import ZArith NArith List Bool Arith Lia ZifyBool ZifyNat ZifyN.
From Trion Require Import Base.Sweep Base.Utf8 Text.Types Text.TokenModel Text.PosSpec Text.LitSpec
  Text.TokenLemmas Text.TokenNext Text.TokenProofs Text.TokenLit Text.Render.
Import ListNotations.
Open Scope N_scope.

Arguments pos_of : simpl never.
Arguments upd : simpl never.
Arguments sat_add32 : simpl never.
Arguments N.add : simpl never.
Arguments N.min : simpl never.

(* ================================================================ one token, one separator *)
Definition lexes (text : str) (v : token_value) (rest : str) : Prop :=
  forall st pre, Valid (ts_data st) -> pos_st st = pos_of pre -> ts_utf_err st = false -> ts_data st = text ++ rest ->
    exists t st', do_next st = Ok (inl t, st') /\ t_val t = v /\ ts_data st' = rest.

Definition skips (sep rest : str) : Prop :=
  forall f st pre, Valid (ts_data st) -> pos_st st = pos_of pre -> ts_utf_err st = false -> ts_data st = sep ++ rest ->
    (length (ts_data st) < f)%nat -> exists st', skip_loop f st = Ok (SkBreak, st') /\ ts_data st' = rest.

(* a text written as separators and token texts *)
Inductive lexrun : str -> list token_value -> Prop :=
| LR_end sep : skips sep [] -> lexrun sep []
| LR_tok sep text v rest vs : skips sep (text ++ rest) -> text <> [] -> lexes text v rest -> lexrun rest vs ->
    lexrun (sep ++ text ++ rest) (v :: vs).

(* what a successful skip establishes (from skip_loop_ok) *)
Lemma skips_post sep rest st pre f st' : Valid (ts_data st) -> pos_st st = pos_of pre -> ts_data st = sep ++ rest ->
  (length (ts_data st) < f)%nat -> skip_loop f st = Ok (SkBreak, st') -> ts_data st' = rest ->
  Valid (ts_data st') /\ pos_st st' = pos_of (pre ++ sep) /\ ts_utf_err st' = ts_utf_err st.
Proof.
  intros V P D L E D'. destruct (skip_loop_ok f st pre V L P) as [sr [st1 [E1 [V1 S]]]].
  rewrite E in E1. injection E1 as <- <-. destruct S as [sk [Ds [Ps Us]]].
  rewrite D, D' in Ds. apply app_inv_tail in Ds. subst sk. auto.
Qed.

Lemma lexes_post text rest st pre t st' : Valid (ts_data st) -> pos_st st = pos_of pre -> ts_data st = text ++ rest -> text <> [] ->
  do_next st = Ok (inl t, st') -> ts_data st' = rest ->
  Valid (ts_data st') /\ pos_st st' = pos_of (pre ++ text) /\ ts_utf_err st' = ts_utf_err st.
Proof.
  intros V P D Ne E D'.
  assert (Nd : ts_data st <> []) by (rewrite D; destruct text; [contradiction|discriminate]).
  destruct (do_next_ok st pre V Nd P) as [it [st1 [E1 [V1 T]]]].
  rewrite E in E1. injection E1 as <- <-. destruct T as [tx [Dt [_ [_ [Ps Us]]]]].
  rewrite D, D' in Dt. apply app_inv_tail in Dt. subst tx. auto.
Qed.

Lemma step_tok st pre sep text v rest : Valid (ts_data st) -> pos_st st = pos_of pre -> ts_utf_err st = false ->
  ts_data st = sep ++ text ++ rest -> text <> [] -> skips sep (text ++ rest) -> lexes text v rest ->
  exists t st' rem, next_token_rem st = Ok ((Some (inl t), st'), rem) /\ t_val t = v /\
    Valid (ts_data st') /\ pos_st st' = pos_of (pre ++ sep ++ text) /\ ts_utf_err st' = false /\ ts_data st' = rest.
Proof.
  intros V P U D Ne Sk Lx. unfold next_token_rem.
  assert (Lf : (length (ts_data st) < S (length (ts_data st)))%nat) by lia.
  destruct (Sk _ st pre V P U D Lf) as [st1 [E1 D1]].
  destruct (skips_post _ _ _ _ _ _ V P D Lf E1 D1) as [V1 [P1 U1]].
  rewrite E1. cbn [bind].
  destruct (ts_data st1) as [|b0 r0] eqn:Dd.
  { exfalso. destruct text; [contradiction|discriminate]. }
  rewrite <- Dd in *. rewrite U in U1.
  destruct (Lx st1 (pre ++ sep) V1 P1 U1 D1) as [t [st2 [E2 [Tv D2]]]].
  destruct (lexes_post _ _ _ _ _ _ V1 P1 D1 Ne E2 D2) as [V2 [P2 U2]].
  rewrite E2. cbn [bind]. exists t, st2. eexists. split; [reflexivity|]. split; [exact Tv|]. split; [exact V2|].
  split; [now rewrite <- app_assoc in P2|]. split; [congruence|exact D2].
Qed.

Lemma step_end st pre sep : Valid (ts_data st) -> pos_st st = pos_of pre -> ts_utf_err st = false ->
  ts_data st = sep -> skips sep [] -> exists st', next_token_rem st = Ok ((None, st'), O) /\ tok_done st'.
Proof.
  intros V P U D Sk. unfold next_token_rem.
  assert (Lf : (length (ts_data st) < S (length (ts_data st)))%nat) by lia.
  assert (D0 : ts_data st = sep ++ []) by now rewrite app_nil_r.
  destruct (Sk _ st pre V P U D0 Lf) as [st1 [E1 D1]].
  destruct (skips_post _ _ _ _ _ _ V P D0 Lf E1 D1) as [V1 [P1 U1]].
  rewrite E1. cbn [bind]. rewrite D1. rewrite U in U1. rewrite U1. exists st1. split; [reflexivity|]. split; assumption.
Qed.

Lemma lexrun_unfold bs vs : lexrun bs vs -> forall fuel st pre, Valid (ts_data st) -> pos_st st = pos_of pre ->
  ts_utf_err st = false -> ts_data st = bs -> (length bs + 2 <= fuel)%nat ->
  exists items st' toks, unfold_rem fuel st = Ok (items, st') /\ tok_done st' /\ map fst items = map inl toks /\ map t_val toks = vs.
Proof.
  induction 1 as [sep Sk|sep text v rest vs Sk Ne Lx R IH]; intros fuel st pre V P U D Lf.
  - destruct fuel as [|f]; [lia|]. rewrite unfold_rem_S.
    destruct (step_end st pre sep V P U D Sk) as [st' [E Dn]]. rewrite E. cbn [bind].
    exists [], st', []. repeat split; auto; apply Dn.
  - destruct fuel as [|f]; [lia|]. rewrite unfold_rem_S.
    destruct (step_tok st pre sep text v rest V P U D Ne Sk Lx) as [t [st1 [rem [E [Tv [V1 [P1 [U1 D1]]]]]]]].
    rewrite E. cbn [bind].
    destruct (IH f st1 _ V1 P1 U1 D1) as [items [st' [toks [E' [Dn [Mi Mv]]]]]].
    { rewrite !app_length in Lf. destruct text; [contradiction|cbn [length] in Lf; lia]. }
    rewrite E'. cbn [bind]. exists ((inl t, rem) :: items), st', (t :: toks).
    split; [reflexivity|]. split; [exact Dn|]. split; [cbn [map fst]; now rewrite Mi|cbn [map]; now rewrite Tv, Mv].
Qed.

(* a well-formed text written as separators and token texts yields exactly those tokens, in order, and then nothing *)
Theorem lexrun_tokens bs vs : Valid bs -> lexrun bs vs ->
  exists toks, tokens_all bs = Ok (map inl toks, [None; None; None]) /\ map t_val toks = vs.
Proof.
  intros V R. unfold tokens_all, tokens_rem. rewrite (tok_new_valid bs V).
  destruct (lexrun_unfold bs vs R (length bs + 2) (mkT bs false 1 1) [] V eq_refl eq_refl eq_refl (le_n _))
    as [items [st' [toks [E [Dn [Mi Mv]]]]]].
  rewrite E. cbn [bind]. rewrite (polls_done 3 _ Dn). cbn [bind repeat]. exists toks. rewrite Mi. split; [reflexivity|exact Mv].
Qed.

(* ================================================================ tokens *)
Lemma finish_lex st pre text rest a v : ts_data st = text ++ rest -> Valid (ts_data st) -> bnd (ts_data st) (length text) ->
  text <> [] -> pos_st st = pos_of pre -> (a = true -> Forall plain_ascii text) ->
  exists t st', finish st (length text) a v = Ok (inl t, st') /\ t_val t = v /\ ts_data st' = rest.
Proof.
  intros D V B Ne P A. destruct (finish_ok st pre text rest a v D V B Ne P A) as [st' [E [_ Dr]]].
  eexists _, st'. split; [exact E|]. split; [reflexivity|exact Dr].
Qed.

(* the byte of each one-byte token *)
Definition punct1 (v : token_value) : option N :=
  match v with
  | TSeparator => Some 44 | TTerminator => Some 59 | TLabelMark => Some 58 | TDirectiveMark => Some 46
  | TPlus => Some 43 | TMinus => Some 45 | TMultiply => Some 42 | TDivide => Some 47 | TModulo => Some 37
  | TNot => Some 33 | TBitAnd => Some 38 | TBitOr => Some 124 | TBitXor => Some 94
  | TBeginGroup => Some 40 | TEndGroup => Some 41 | TBeginAddr => Some 91 | TEndAddr => Some 93
  | TBeginSeq => Some 123 | TEndSeq => Some 125
  | _ => None
  end.

Lemma lexes_punct1 v b rest : punct1 v = Some b -> lexes [b] v rest.
Proof.
  intros Hp st pre V P U D.
  assert (E : do_next st = finish st 1 true v).
  { unfold do_next. rewrite D. destruct v; try discriminate Hp; injection Hp as <-; reflexivity. }
  rewrite E. assert (Hb : b < 128 /\ b <> 10) by (destruct v; try discriminate Hp; injection Hp as <-; lia).
  apply (finish_lex st pre [b] rest true v D V); [|discriminate|exact P|].
  - apply (bnd_after_ascii _ 0 b V); [now rewrite D|apply Hb].
  - intros _. constructor; [exact Hb|constructor].
Qed.

Lemma lexes_shift (left : bool) rest :
  lexes (if left then [60; 60] else [62; 62]) (if left then TLeftShift else TRightShift) rest.
Proof.
  assert (G : forall b v, (b = 60 /\ v = TLeftShift) \/ (b = 62 /\ v = TRightShift) -> lexes [b; b] v rest).
  { intros b v Hb st pre V P U D.
    assert (E : do_next st = finish st (length [b; b]) true v).
    { unfold do_next. rewrite D. destruct Hb as [[-> ->]|[-> ->]]; reflexivity. }
    assert (Lb : b < 128 /\ b <> 10) by lia.
    rewrite E. apply (finish_lex st pre [b; b] rest true _ D V); [|discriminate|exact P|].
    - rewrite D. apply bnd_after_ascii_prefix; [now rewrite <- D|discriminate|repeat constructor; lia].
    - intros _. repeat constructor; lia. }
  destruct left; apply G; auto.
Qed.

(* identifiers: [A-Za-z_][$.0-9@A-Za-z_]*, followed by the end of the text or a byte that cannot continue an identifier *)
Definition not_ident_next (rest : str) : Prop := forall b t, rest = b :: t -> is_ident_byte b = false.

Lemma ident_char_byte b : ident_char b = true -> is_ident_byte b = true.
Proof. unfold ident_char, ident_start, is_ident_byte. lia. Qed.

Lemma do_next_ident st c t : ts_data st = c :: t -> ident_start c = true -> do_next st = do_ident st.
Proof.
  intros D Hc. unfold do_next. rewrite D. unfold ident_start in Hc.
  repeat match goal with |- context [if ?c then _ else _] => first [replace c with false by lia | replace c with true by lia] end.
  reflexivity.
Qed.

Lemma lexes_ident s rest : ident_ok s = true -> not_ident_next rest -> lexes s (TIdentifier s) rest.
Proof.
  intros Hs Hr st pre V P U D. destruct s as [|c r]; [discriminate|]. cbn [ident_ok] in Hs.
  apply andb_prop in Hs. destruct Hs as [Hc Hrs].
  assert (Fi : Forall (fun x => is_ident_byte x = true) (c :: r)).
  { constructor; [apply ident_char_byte; unfold ident_char; now rewrite Hc|].
    apply Forall_forall. intros x Hx. apply ident_char_byte. rewrite forallb_forall in Hrs. now apply Hrs. }
  assert (Fa : Forall (fun x => x < 128) (c :: r)).
  { eapply Forall_impl; [|exact Fi]. intros x Hx. apply (is_ident_ascii x Hx). }
  assert (Fp : Forall plain_ascii (c :: r)).
  { eapply Forall_impl; [|exact Fi]. intros x Hx. apply (is_ident_ascii x Hx). }
  assert (Fn : Forall (fun x => negb (is_ident_byte x) = false) (c :: r)).
  { eapply Forall_impl; [|exact Fi]. intros x Hx. now rewrite Hx. }
  rewrite (do_next_ident st c (r ++ rest) D Hc).
  unfold do_ident. set (s := c :: r) in *.
  assert (Bn : bnd (ts_data st) (length s)).
  { rewrite D. apply bnd_after_ascii_prefix; [now rewrite <- D|discriminate|exact Fa]. }
  assert (Fs : firstn (length s) (ts_data st) = s) by (rewrite D, firstn_app, Nat.sub_diag, firstn_all; cbn [firstn]; now rewrite app_nil_r).
  assert (Hp : position (fun b => negb (is_ident_byte b)) (ts_data st) = match rest with [] => None | _ => Some (length s) end).
  { rewrite D. destruct rest as [|b t].
    - rewrite app_nil_r. apply (position_all_false _ _ Fn).
    - apply (position_app_hit _ _ _ _ Fn). rewrite (Hr b t eq_refl). reflexivity. }
  cbv zeta. rewrite Hp. destruct rest as [|b t].
  - rewrite U. assert (Ld : length (ts_data st) = length s) by (rewrite D, app_nil_r; reflexivity).
    rewrite Ld, (slice_to_ok _ _ _ Bn), Fs. cbn [bind].
    apply (finish_lex st pre s [] true _); [exact D|exact V|exact Bn|discriminate|exact P|intros _; exact Fp].
  - rewrite (slice_to_ok _ _ _ Bn), Fs. cbn [bind].
    apply (finish_lex st pre s (b :: t) true _); [exact D|exact V|exact Bn|discriminate|exact P|intros _; exact Fp].
Qed.

(* the literals of LitSpec *)
Lemma lexes_int r u z n rest : radix_ok r = true -> n < 2 ^ 63 -> not_ident_next rest ->
  lexes (show_int r u z n) (TNumber (Z.of_N n)) rest.
Proof.
  intros Hr Hn Hrest st pre V P U D.
  pose proof (int_step st pre r u z n rest Hr V P D (conj Hrest (fun _ => U))) as S.
  replace (n <? 2 ^ 63) with true in S by lia.
  destruct S as [st' [E [Dr _]]]. eexists _, st'. split; [exact E|]. split; [reflexivity|exact Dr].
Qed.

Lemma lexes_char l rest : char_lit_ok l = true -> lexes (show_char l) (TNumber (Z.of_N (char_value l))) rest.
Proof.
  intros Hl st pre V P U D. destruct (char_step st pre l rest Hl V P D) as [st' [E [Dr _]]].
  eexists _, st'. split; [exact E|]. split; [reflexivity|exact Dr].
Qed.

Lemma lexes_string items rest : ok_items items -> lexes (show_string items) (TString (string_value items)) rest.
Proof.
  intros Hl st pre V P U D. destruct (string_step st pre items rest Hl V P D) as [st' [E [Dr _]]].
  eexists _, st'. split; [exact E|]. split; [reflexivity|exact Dr].
Qed.

(* ================================================================ separators *)
Definition all_ws (ws : str) : Prop := Forall (fun b => is_ws b = true) ws.
Definition not_ws_next (rest : str) : Prop := forall b t, rest = b :: t -> is_ws b = false.
(* where a token (or the end of the text) starts: no white space, no comment opener *)
Definition tok_start (rest : str) : Prop :=
  not_ws_next rest /\ starts_with [47; 47] rest = false /\ starts_with [47; 42] rest = false.

(* the white-space step consumes exactly a maximal run of white space *)
Lemma ws_step_exact st pre ws R : Valid (ts_data st) -> pos_st st = pos_of pre -> ts_data st = ws ++ R -> all_ws ws -> not_ws_next R ->
  exists st1, ws_step st = Ok st1 /\ ts_data st1 = R /\ Valid (ts_data st1) /\ pos_st st1 = pos_of (pre ++ ws) /\
              ts_utf_err st1 = ts_utf_err st.
Proof.
  intros V P D W Rn. unfold ws_step.
  assert (Fn : Forall (fun x => negb (is_ws x) = false) ws) by (eapply Forall_impl; [|exact W]; intros x Hx; now rewrite Hx).
  assert (Sb : match position (fun b => negb (is_ws b)) (ts_data st) with None => length (ts_data st) | Some c => c end = length ws).
  { rewrite D. destruct R as [|b t].
    - rewrite app_nil_r. now rewrite (position_all_false _ _ Fn).
    - rewrite (position_app_hit _ _ _ _ Fn); [reflexivity|]. now rewrite (Rn b t eq_refl). }
  rewrite Sb. destruct ws as [|w ws'].
  - cbn [length Nat.ltb Nat.leb]. exists st. rewrite app_nil_r. repeat split; auto.
  - set (ws := w :: ws') in *. replace (0 <? length ws)%nat with true by (symmetry; apply Nat.ltb_lt; cbn; lia).
    assert (B : bnd (ts_data st) (length ws)).
    { rewrite D. apply bnd_after_ascii_prefix; [now rewrite <- D|discriminate|]. eapply Forall_impl; [|exact W]. intros x Hx. now apply is_ws_ascii. }
    assert (Fs : firstn (length ws) (ts_data st) = ws) by (rewrite D, firstn_app, Nat.sub_diag, firstn_all; cbn [firstn]; now rewrite app_nil_r).
    assert (Sk : skipn (length ws) (ts_data st) = R) by (rewrite D, skipn_app, Nat.sub_diag, skipn_all; reflexivity).
    rewrite (slice_to_ok _ _ _ B). cbn [bind]. rewrite Fs.
    assert (Vw : Valid ws) by (rewrite <- Fs; now apply bnd_Valid_to).
    rewrite (update_pos_ok _ _ Vw). cbn [bind]. rewrite (slice_from_ok _ _ _ B), Sk. cbn [bind].
    eexists. split; [reflexivity|]. cbn [set_data set_pos ts_data ts_utf_err]. split; [reflexivity|].
    split; [rewrite <- Sk; now apply bnd_Valid_from|]. split; [|reflexivity].
    unfold pos_st in *. cbn [set_data set_pos ts_line ts_col]. rewrite P, <- surjective_pairing. apply upd_pos_of.
Qed.

Lemma comment_step_none f st : starts_with [47; 47] (ts_data st) = false -> starts_with [47; 42] (ts_data st) = false ->
  comment_step f st = Ok (SkBreak, st).
Proof. intros A B. unfold comment_step. now rewrite A, B. Qed.

(* white space only (possibly none) before a token or the end *)
Lemma skips_ws ws rest : all_ws ws -> tok_start rest -> skips ws rest.
Proof.
  intros W [Rn [C1 C2]] f st pre V P U D Lf. destruct f as [|f]; [lia|]. rewrite skip_loop_unfold.
  destruct (ts_data st) as [|b0 r0] eqn:Dd.
  { exists st. split; [reflexivity|]. symmetry in D. apply app_eq_nil in D. destruct D as [_ ->]. exact Dd. }
  rewrite <- Dd in *.
  destruct (ws_step_exact st pre ws rest V P D W Rn) as [st1 [E1 [D1 _]]]. rewrite E1. cbn [bind].
  rewrite comment_step_none by (rewrite D1; assumption). exists st1. split; [reflexivity|exact D1].
Qed.

(* white space, then a line comment up to and including its line feed, then a further separator *)
Definition no_lf (body : str) : Prop := Forall (fun b => is_lf b = false) body.

Lemma skips_line ws body sep rest : all_ws ws -> no_lf body -> skips sep rest ->
  skips (ws ++ [47; 47] ++ body ++ [10] ++ sep) rest.
Proof.
  intros W Nl Sk f st pre V P U D Lf. destruct f as [|f]; [lia|]. rewrite skip_loop_unfold.
  destruct (ts_data st) as [|b0 r0] eqn:Dd.
  { exfalso. symmetry in D. apply app_eq_nil in D. destruct D as [D _]. apply app_eq_nil in D. destruct D as [_ D]. discriminate. }
  rewrite <- Dd in *. rewrite <- !app_assoc in D.
  set (R := [47; 47] ++ body ++ [10] ++ sep ++ rest) in *.
  assert (Rn : not_ws_next R) by (intros b t Hb; injection Hb as <- _; reflexivity).
  destruct (ws_step_exact st pre ws R V P D W Rn) as [st1 [E1 [D1 [V1 [P1 U1]]]]]. rewrite E1. cbn [bind].
  unfold comment_step. rewrite D1. change (starts_with [47; 47] R) with true. cbv iota.
  set (cm := 47 :: 47 :: body).
  assert (ER : R = cm ++ 10 :: sep ++ rest) by reflexivity.
  assert (Fl : Forall (fun x => is_lf x = false) cm) by (repeat constructor; exact Nl).
  assert (Hp : position is_lf R = Some (length cm)) by (rewrite ER; now apply position_app_hit).
  rewrite Hp.
  assert (Hx : nth_error R (length cm) = Some 10) by (rewrite ER; apply nth_error_mid).
  assert (VR : Valid R) by now rewrite <- D1.
  assert (B : bnd R (length cm + 1)) by (replace (length cm + 1)%nat with (S (length cm)) by lia; apply (bnd_after_ascii _ _ 10 VR Hx); lia).
  rewrite (slice_from_ok _ _ _ B). cbn [bind].
  assert (Sk2 : skipn (length cm + 1) R = sep ++ rest).
  { rewrite ER. replace (cm ++ 10 :: sep ++ rest) with ((cm ++ [10]) ++ sep ++ rest) by now rewrite <- app_assoc.
    replace (length cm + 1)%nat with (length (cm ++ [10])) by (rewrite app_length; reflexivity).
    now rewrite skipn_app, Nat.sub_diag, skipn_all. }
  rewrite Sk2.
  set (st2 := mkT (sep ++ rest) (ts_utf_err st1) (sat_add32 (ts_line st1) 1) 1).
  assert (V2 : Valid (ts_data st2)) by (cbn [st2 ts_data]; rewrite <- Sk2; now apply bnd_Valid_from).
  assert (P2 : pos_st st2 = pos_of (((pre ++ ws) ++ cm) ++ [10])).
  { unfold pos_st. cbn [st2 ts_line ts_col]. rewrite pos_of_snoc_lf, pos_of_line_nolf.
    - rewrite <- P1. reflexivity.
    - apply filter_none. intros k y Hy. rewrite Forall_forall in Fl. apply Fl. eapply nth_error_In; eauto. }
  destruct (Sk f st2 _ V2 P2) as [st' [E' D']].
  - cbn [st2 ts_utf_err]. congruence.
  - reflexivity.
  - cbn [st2 ts_data]. rewrite D, ER, !app_length in Lf. cbn [length] in Lf. rewrite !app_length in Lf. rewrite app_length. lia.
  - exists st'. split; [exact E'|exact D'].
Qed.

(* a non-nested block comment: between the opener and the closer no adjacent opener or closer pair (also none formed with the closer's star) *)
Fixpoint no_marker (l : str) : bool :=
  match l with
  | a :: ((b :: _) as r) => negb ((a =? 47) && (b =? 42)) && negb ((a =? 42) && (b =? 47)) && no_marker r
  | _ => true
  end.
Definition block_ok (body : str) : Prop := no_marker (body ++ [42]) = true.

Lemma block_go_plain body : forall p T, no_marker (body ++ [42]) = true -> (2 <= p)%nat ->
  block_go (body ++ 42 :: 47 :: T) p 2 1 = Some (p + length body - 2)%nat.
Proof.
  induction body as [|a body IH]; intros p T Hm Hp.
  - cbn [app block_go length]. replace (2 <=? p)%nat with true by (symmetry; apply Nat.leb_le; exact Hp).
    cbn. f_equal. lia.
  - cbn [app] in Hm. destruct (body ++ [42]) as [|b r] eqn:Eb; [destruct body; discriminate|].
    cbn [no_marker] in Hm. apply andb_prop in Hm. destruct Hm as [Hm Hr]. apply andb_prop in Hm. destruct Hm as [M1 M2].
    assert (Eb' : exists r', body ++ 42 :: 47 :: T = b :: r').
    { destruct body as [|b' body']; cbn [app] in *; [injection Eb as <- _|injection Eb as <- _]; eexists; reflexivity. }
    destruct Eb' as [r' Er']. cbn [app]. rewrite Er'. cbn [block_go].
    replace ((a =? 47) && (2 <=? p)%nat && (b =? 42)) with false by (destruct (2 <=? p)%nat; lia).
    replace ((a =? 42) && (2 <=? p)%nat && (b =? 47)) with false by (destruct (2 <=? p)%nat; lia).
    change (block_go (b :: r') (S p) 2 1 = Some (p + length (a :: body) - 2)%nat).
    rewrite <- Er'. rewrite (IH (S p) T); [f_equal; cbn [length]; lia|first [exact Hr|rewrite Eb; exact Hr]|lia].
Qed.

Lemma skips_block ws body sep rest : all_ws ws -> block_ok body -> skips sep rest ->
  skips (ws ++ [47; 42] ++ body ++ [42; 47] ++ sep) rest.
Proof.
  intros W Bk Sk f st pre V P U D Lf. destruct f as [|f]; [lia|]. rewrite skip_loop_unfold.
  destruct (ts_data st) as [|b0 r0] eqn:Dd.
  { exfalso. symmetry in D. apply app_eq_nil in D. destruct D as [D _]. apply app_eq_nil in D. destruct D as [_ D]. discriminate. }
  rewrite <- Dd in *. rewrite <- !app_assoc in D.
  set (R := [47; 42] ++ body ++ [42; 47] ++ sep ++ rest) in *.
  assert (Rn : not_ws_next R) by (intros b t Hb; injection Hb as <- _; reflexivity).
  destruct (ws_step_exact st pre ws R V P D W Rn) as [st1 [E1 [D1 [V1 [P1 U1]]]]]. rewrite E1. cbn [bind].
  unfold comment_step. rewrite D1. change (starts_with [47; 47] R) with false. change (starts_with [47; 42] R) with true. cbv iota.
  change R with (47 :: 42 :: body ++ [42; 47] ++ sep ++ rest) at 1. cbv iota.
  assert (Bs : block_scan R = Some (length body)).
  { unfold block_scan. change (skipn 2 R) with (body ++ 42 :: 47 :: sep ++ rest).
    rewrite (block_go_plain body 2 (sep ++ rest) Bk (le_n 2)). f_equal. lia. }
  rewrite Bs.
  set (cm := 47 :: 42 :: body ++ [42; 47]).
  assert (ER : R = cm ++ sep ++ rest) by (unfold R, cm; cbn [app]; now rewrite <- !app_assoc).
  assert (Lc : (4 + length body)%nat = length cm) by (unfold cm; cbn [length]; rewrite app_length; cbn [length]; lia).
  rewrite Lc.
  assert (VR : Valid R) by now rewrite <- D1.
  assert (B : bnd R (length cm)).
  { assert (Hx : nth_error R (length (47 :: 42 :: body ++ [42])) = Some 47).
    { unfold R. replace ([47; 42] ++ body ++ [42; 47] ++ sep ++ rest) with ((47 :: 42 :: body ++ [42]) ++ 47 :: sep ++ rest)
        by (cbn [app]; now rewrite <- !app_assoc). apply nth_error_mid. }
    replace (length cm) with (S (length (47 :: 42 :: body ++ [42]))) by (unfold cm; cbn [length]; rewrite !app_length; cbn [length]; lia).
    apply (bnd_after_ascii _ _ 47 VR Hx). lia. }
  assert (Fs : firstn (length cm) R = cm) by (rewrite ER, firstn_app, Nat.sub_diag, firstn_all; cbn [firstn]; now rewrite app_nil_r).
  assert (Sk2 : skipn (length cm) R = sep ++ rest) by (rewrite ER, skipn_app, Nat.sub_diag, skipn_all; reflexivity).
  rewrite (slice_to_ok _ _ _ B), Fs. cbn [bind].
  assert (Vc : Valid cm) by (rewrite <- Fs; now apply bnd_Valid_to).
  rewrite (update_pos_ok _ _ Vc). cbn [bind]. rewrite (slice_from_ok _ _ _ B), Sk2. cbn [bind].
  match goal with |- context [skip_loop f ?s] => set (st2 := s) end.
  assert (V2 : Valid (ts_data st2)) by (cbn [st2 set_data ts_data]; rewrite <- Sk2; now apply bnd_Valid_from).
  assert (P2 : pos_st st2 = pos_of ((pre ++ ws) ++ cm)).
  { unfold pos_st in *. cbn [st2 set_data set_pos ts_line ts_col]. rewrite <- surjective_pairing, P1. apply upd_pos_of. }
  destruct (Sk f st2 _ V2 P2) as [st' [E' D']].
  - cbn [st2 set_data set_pos ts_utf_err]. congruence.
  - reflexivity.
  - cbn [st2 set_data ts_data]. rewrite D, ER, !app_length in Lf. rewrite app_length. unfold cm in Lf. cbn [length] in Lf. lia.
  - exists st'. split; [exact E'|exact D'].
Qed.

(* at the end of the text: white space, then a line comment that is not closed by a line feed *)
Lemma skips_line_eof ws body : all_ws ws -> no_lf body -> skips (ws ++ [47; 47] ++ body) [].
Proof.
  intros W Nl f st pre V P U D Lf. destruct f as [|f]; [lia|]. rewrite skip_loop_unfold.
  destruct (ts_data st) as [|b0 r0] eqn:Dd.
  { exfalso. symmetry in D. apply app_eq_nil in D. destruct D as [D _]. apply app_eq_nil in D. destruct D as [_ D]. discriminate. }
  rewrite <- Dd in *. rewrite app_nil_r in D.
  set (R := [47; 47] ++ body) in *.
  assert (Rn : not_ws_next R) by (intros b t Hb; injection Hb as <- _; reflexivity).
  destruct (ws_step_exact st pre ws R V P D W Rn) as [st1 [E1 [D1 [V1 [P1 U1]]]]]. rewrite E1. cbn [bind].
  unfold comment_step. rewrite D1. change (starts_with [47; 47] R) with true. cbv iota.
  assert (Fl : Forall (fun x => is_lf x = false) R) by (repeat constructor; exact Nl).
  rewrite (position_all_false _ _ Fl).
  assert (VR : Valid R) by now rewrite <- D1.
  rewrite (update_pos_ok _ _ VR). cbn [bind]. cbn [set_pos ts_utf_err]. rewrite U1, U.
  rewrite skip_loop_nil by reflexivity. eexists. split; reflexivity.
Qed.
