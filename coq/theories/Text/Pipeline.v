(* bytes -> tokens -> statements: the tokenizer model composed with the parser model (cf. C10_pipeline). *)
From Coq Require Import ZArith NArith List Bool.
From Trion Require Import Text.Types Text.ParseModel Text.TokenModel Text.ArgEq.
Import ListNotations.

Definition parse_bytes (bs : str) : option run_result :=
  match tokens_all bs with
  | TokenModel.Ok (items, _) => Some (parse_all (src_of items 0 0))
  | _ => None
  end.

(* the text is exactly one instruction statement: its mnemonic and arguments *)
Definition stmt_of_text (bs : str) : option (str * list arg) :=
  match parse_bytes bs with
  | Some (Done [IOk e] _) => match e_val e with EInstruction n a => Some (n, a) | _ => None end
  | _ => None
  end.
