(* Boolean equality on argument trees (computes inside vm_compute) and its soundness. *)
From Coq Require Import ZArith NArith List Bool.
From Trion Require Import Text.Types.
Import ListNotations.

Fixpoint strN_eqb (a b : str) : bool :=
  match a, b with
  | [], [] => true
  | x :: a', y :: b' => N.eqb x y && strN_eqb a' b'
  | _, _ => false
  end.

Lemma strN_eqb_eq a : forall b, strN_eqb a b = true -> a = b.
Proof.
  induction a as [|x a IH]; intros [|y b] H; cbn in H; try discriminate; [reflexivity|].
  apply andb_prop in H. destruct H as [H1 H2]. apply N.eqb_eq in H1. subst. f_equal. apply IH. exact H2.
Qed.

Fixpoint arg_eqb (a b : arg) : bool :=
  let fix list_eqb (l m : list arg) : bool :=
    match l, m with
    | [], [] => true
    | x :: l', y :: m' => arg_eqb x y && list_eqb l' m'
    | _, _ => false
    end in
  match a, b with
  | AConst x, AConst y => Z.eqb x y
  | AIdent x, AIdent y => strN_eqb x y
  | AStr x, AStr y => strN_eqb x y
  | AAdd l r, AAdd l' r' | ASub l r, ASub l' r' | AMul l r, AMul l' r' | ADiv l r, ADiv l' r' | AMod l r, AMod l' r'
  | AAnd l r, AAnd l' r' | AOr l r, AOr l' r' | AXor l r, AXor l' r' | AShl l r, AShl l' r' | AShr l r, AShr l' r' =>
      arg_eqb l l' && arg_eqb r r'
  | ANeg x, ANeg y | ANot x, ANot y | AAddr x, AAddr y => arg_eqb x y
  | ASeq l, ASeq m => list_eqb l m
  | AFun n l, AFun n' m => strN_eqb n n' && list_eqb l m
  | _, _ => false
  end.

Definition args_eqb : list arg -> list arg -> bool :=
  fix list_eqb (l m : list arg) : bool :=
    match l, m with
    | [], [] => true
    | x :: l', y :: m' => arg_eqb x y && list_eqb l' m'
    | _, _ => false
    end.

Fixpoint arg_eqb_eq (a : arg) : forall b, arg_eqb a b = true -> a = b.
Proof.
  assert (L : forall l m, (fix list_eqb (l m : list arg) : bool :=
                             match l, m with
                             | [], [] => true
                             | x :: l', y :: m' => arg_eqb x y && list_eqb l' m'
                             | _, _ => false
                             end) l m = true -> Forall (fun x => forall y, arg_eqb x y = true -> x = y) l -> l = m).
  { induction l as [|x l IH]; intros [|y m] H F; try discriminate; [reflexivity|].
    apply andb_prop in H. destruct H as [H1 H2]. inversion F as [|? ? Fx Fl]; subst.
    f_equal; [apply Fx; exact H1 | apply IH; assumption]. }
  destruct a; intros b H; destruct b; cbn [arg_eqb] in H; try discriminate;
  try (apply andb_prop in H; destruct H as [H1 H2]; f_equal; apply arg_eqb_eq; assumption);
  try (f_equal; apply arg_eqb_eq; exact H).
  - apply Z.eqb_eq in H. now subst.
  - apply strN_eqb_eq in H. now subst.
  - apply strN_eqb_eq in H. now subst.
  - f_equal. apply L; [exact H|].
    exact ((fix F (l : list arg) : Forall (fun x => forall y, arg_eqb x y = true -> x = y) l :=
              match l with [] => Forall_nil _ | x :: xs => Forall_cons x (arg_eqb_eq x) (F xs) end) items).
  - apply andb_prop in H. destruct H as [H1 H2]. apply strN_eqb_eq in H1. subst. f_equal.
    apply L; [exact H2|].
    exact ((fix F (l : list arg) : Forall (fun x => forall y, arg_eqb x y = true -> x = y) l :=
              match l with [] => Forall_nil _ | x :: xs => Forall_cons x (arg_eqb_eq x) (F xs) end) args).
Qed.

Lemma args_eqb_eq l : forall m, args_eqb l m = true -> l = m.
Proof.
  induction l as [|x l IH]; intros [|y m] H; cbn in H; try discriminate; [reflexivity|].
  apply andb_prop in H. destruct H as [H1 H2]. f_equal; [apply arg_eqb_eq; exact H1 | apply IH; exact H2].
Qed.
