(* Proofs about the parser model (ParseModel.v) against the rendering oracle (Render.v). *)
From Coq Require Import ZArith NArith List Bool Lia PeanoNat.
From Trion Require Import Text.Types Text.ParseModel Text.Render.
Import ListNotations.

(* ---------------------------------------------------------------------------------------------- *)
(* 1. the token source is observed only through `stream` *)

Lemma peek_spec : forall s p s1, src_peek s = (p, s1) -> p = hd_error (stream s) /\ stream s1 = stream s.
Proof.
  intros s p s1. unfold src_peek, stream.
  destruct s as [pe q e l c]; cbn [queue err_slot pending set_queue set_pending set_err eof_line eof_col].
  destruct q as [|t q].
  - destruct e as [e|].
    + intros H; inversion H; subst; cbn; auto.
    + destruct pe as [|[t|e] pe]; intros H; inversion H; subst; cbn; auto.
  - intros H; inversion H; subst; cbn; auto.
Qed.

Lemma next_spec : forall s p s1, src_next s = (p, s1) -> p = hd_error (stream s) /\ stream s1 = tl (stream s).
Proof.
  intros s p s1. unfold src_next, stream.
  destruct s as [pe q e l c]; cbn [queue err_slot pending set_queue set_pending set_err eof_line eof_col].
  destruct q as [|t q].
  - destruct e as [e|].
    + intros H; inversion H; subst; cbn; auto.
    + destruct pe as [|x pe]; intros H; inversion H; subst; cbn; auto.
  - intros H; inversion H; subst; cbn; auto.
Qed.

Lemma next_snd : forall s, stream (snd (src_next s)) = tl (stream s).
Proof. intros s. destruct (src_next s) as [p s1] eqn:H. apply next_spec in H. tauto. Qed.

Lemma expr_start_spec : forall s es s1, expr_start s = (es, s1) -> stream s1 = stream s.
Proof.
  intros s es s1. unfold expr_start. destruct (src_peek s) as [p s'] eqn:H. apply peek_spec in H. destruct H as [_ H].
  destruct p as [[t|e]|]; intros E; inversion E; subst; auto.
Qed.

Lemma clear_stream : forall s, stream (src_clear s) = map inl (queue s) ++ match err_slot s with Some e => [inr e] | None => [] end.
Proof. intros [pe q e l c]. unfold src_clear, stream. cbn. destruct e; cbn; rewrite ?app_nil_r; auto. Qed.

Lemma clear_pending : forall s, pending (src_clear s) = [].
Proof. intros [pe q e l c]. reflexivity. Qed.

Lemma next_pending_nil : forall s p s1, src_next s = (p, s1) -> pending s = [] -> pending s1 = [].
Proof.
  intros [pe q e l c] p s1. unfold src_next. cbn. intros H E. subst pe.
  destruct q; [destruct e|]; inversion H; subst; reflexivity.
Qed.

(* draining a cleared source empties it *)
Lemma drain_spec : forall f s, pending s = [] -> length (stream s) < f -> exists s', drain f s = Some s' /\ stream s' = [].
Proof.
  induction f as [|f IH]; intros s Hp Hl. { lia. }
  cbn [drain]. destruct (src_next s) as [p s1] eqn:Hn.
  pose proof (next_pending_nil _ _ _ Hn Hp) as Hp1.
  apply next_spec in Hn. destruct Hn as [Hp' Hs1].
  destruct (stream s) as [|x r] eqn:Hs; cbn in Hp', Hs1; subst p.
  - exists s1. split; auto.
  - apply IH; auto. rewrite Hs1. cbn in Hl. lia.
Qed.

(* ---------------------------------------------------------------------------------------------- *)
(* 2. more fuel never changes a result that is not OutOfFuel *)

Definition le_out {A : Type} (r r' : outcome A * src) : Prop := fst r = OutOfFuel \/ r = r'.

Lemma le_out_refl : forall A (r : outcome A * src), le_out r r.
Proof. intros; right; reflexivity. Qed.

Lemma bind_mono : forall A B (x x' : outcome A * src) (k k' : A -> src -> outcome B * src),
  le_out x x' -> (forall a s, le_out (k a s) (k' a s)) -> le_out (bind x k) (bind x' k').
Proof.
  intros A B x x' k k' [H|H] Hk.
  - left. destruct x as [[a|e| |] s]; cbn in H; try discriminate. reflexivity.
  - subst x'. destruct x as [[a|e| |] s]; cbn; try (right; reflexivity). apply Hk.
Qed.

Ltac mono_step IH :=
  match goal with
  | |- le_out ?x ?x => apply le_out_refl
  | |- le_out (bind _ _) (bind _ _) => apply bind_mono; [| intros ? ?]
  | |- le_out (let (_, _) := ?d in _) _ => destruct d
  | |- le_out (match ?d with _ => _ end) _ => destruct d
  | |- le_out (if ?d then _ else _) _ => destruct d
  | |- _ => apply IH
  end.

Lemma fuel_mono_step : forall f,
  (forall s, le_out (parse_unary f s) (parse_unary (S f) s)) /\
  (forall g es s, le_out (parse_binary f g es s) (parse_binary (S f) g es s)) /\
  (forall g es lhs s, le_out (binary_loop f g es lhs s) (binary_loop (S f) g es lhs s)) /\
  (forall s, le_out (parse_args f s) (parse_args (S f) s)) /\
  (forall a s, le_out (args_loop f a s) (args_loop (S f) a s)).
Proof.
  induction f as [|f IH].
  - repeat split; intros; left; reflexivity.
  - destruct IH as (IHu & IHb & IHl & IHa & IHal).
    repeat split; intros.
    + cbn [parse_unary]. repeat mono_step IHu || apply IHb || apply IHa.
    + cbn [parse_binary]. repeat (mono_step IHu || apply IHb || apply IHl).
    + cbn [binary_loop]. repeat (mono_step IHu || apply IHb || apply IHl).
    + cbn [parse_args]. repeat (mono_step IHal).
    + cbn [args_loop]. repeat (mono_step IHb || apply IHal).
Qed.

Lemma le_out_trans : forall A (a b c : outcome A * src), le_out a b -> le_out b c -> le_out a c.
Proof. intros A a b c [H|H] H2; [left; auto | subst; auto]. Qed.

Lemma fuel_mono : forall f f', f <= f' ->
  (forall s, le_out (parse_unary f s) (parse_unary f' s)) /\
  (forall g es s, le_out (parse_binary f g es s) (parse_binary f' g es s)) /\
  (forall g es lhs s, le_out (binary_loop f g es lhs s) (binary_loop f' g es lhs s)) /\
  (forall s, le_out (parse_args f s) (parse_args f' s)) /\
  (forall a s, le_out (args_loop f a s) (args_loop f' a s)).
Proof.
  induction 1 as [|f' Hle IH].
  - repeat split; intros; apply le_out_refl.
  - destruct IH as (I1 & I2 & I3 & I4 & I5). destruct (fuel_mono_step f') as (S1 & S2 & S3 & S4 & S5).
    repeat split; intros; eapply le_out_trans; eauto.
Qed.

(* ---------------------------------------------------------------------------------------------- *)
(* 3. totality: with fuel 10 * (tokens left) + c nothing runs out of fuel, the operator-group panic! and the
      unwrap()s are unreachable, and a successful call has consumed tokens only (never an error item) *)

(* the first item is not a binary operator of group rank >= n *)
Definition op_below (n : nat) (l : list tok_item) : Prop :=
  match l with
  | inl t :: _ => match binop_decode (t_val t) with Some op => group_rank (group_of op) < n | None => True end
  | _ => True
  end.

Definition goodP {A : Type} (strict : bool) (P : list tok_item -> Prop) (s : src) (r : outcome A * src) : Prop :=
  match r with
  | (Ok _, s') => (exists toks, stream s = map inl toks ++ stream s' /\ (strict = true -> toks <> [])) /\ P (stream s')
  | (Err _, _) => True
  | _ => False
  end.

Definition anyl (l : list tok_item) : Prop := True.

Lemma good_bind : forall A B (x : outcome A * src) (k : A -> src -> outcome B * src) s b1 b2 P Q,
  goodP b1 P s x ->
  (forall a s1 toks, stream s = map inl toks ++ stream s1 -> (b1 = true -> toks <> []) -> P (stream s1) -> goodP b2 Q s1 (k a s1)) ->
  goodP (b1 || b2) Q s (bind x k).
Proof.
  intros A B [[a|e| |] s1] k s b1 b2 P Q H Hk; cbn in *; auto.
  destruct H as [(toks & Hs & Hne) HP].
  specialize (Hk a s1 toks Hs Hne HP). destruct (k a s1) as [[b|e| |] s2]; cbn in *; auto.
  destruct Hk as [(toks2 & Hs2 & Hne2) HQ]. split; auto.
  exists (toks ++ toks2). rewrite map_app, <- app_assoc, <- Hs2. split; auto.
  intros Hb. apply orb_true_iff in Hb. destruct Hb as [Hb|Hb].
  - specialize (Hne Hb). destruct toks; [congruence | discriminate].
  - specialize (Hne2 Hb). destruct toks; cbn; [auto | discriminate].
Qed.

Lemma good_weaken : forall A (r : outcome A * src) s b b' (P Q : list tok_item -> Prop),
  goodP b P s r -> (b' = true -> b = true) -> (forall l, P l -> Q l) -> goodP b' Q s r.
Proof.
  intros A [[a|e| |] s1] s b b' P Q H Hb HPQ; cbn in *; auto.
  destruct H as [(toks & Hs & Hne) HP]. split; auto. exists toks; split; auto.
Qed.

Lemma good_stream_eq : forall A (r : outcome A * src) s s0 b P, stream s = stream s0 -> goodP b P s0 r -> goodP b P s r.
Proof. intros A [[a|e| |] s1] s s0 b P E H; cbn in *; auto. rewrite E. auto. Qed.

Lemma good_ret : forall A (a : A) s (P : list tok_item -> Prop), P (stream s) -> goodP false P s (Ok a, s).
Proof. intros. cbn. split; auto. exists []. split; auto. discriminate. Qed.

Lemma split_len : forall s toks s1, stream s = map inl toks ++ stream s1 -> length (stream s) = length toks + length (stream s1).
Proof. intros s toks s1 H. rewrite H, app_length, map_length. reflexivity. Qed.

Lemma ne_len : forall (toks : list token), toks <> [] -> 1 <= length toks.
Proof. destruct toks; [congruence | cbn; lia]. Qed.

Lemma next_inner_good : forall s, goodP true anyl s (next_inner s).
Proof.
  intros s. unfold next_inner. destruct (src_next s) as [p s1] eqn:H. apply next_spec in H. destruct H as [Hp Hs].
  destruct (stream s) as [|x r] eqn:E; cbn in Hp, Hs; subst p; cbn; auto.
  destruct x as [t|e]; cbn; auto. split; [|exact I]. exists [t]. cbn. rewrite Hs. split; auto. discriminate.
Qed.

Lemma expect_close_good : forall c s, goodP true anyl s (expect_close c s).
Proof.
  intros c s. unfold expect_close.
  eapply good_weaken; [eapply (good_bind _ _ _ _ s true false anyl anyl); [apply next_inner_good|] | |].
  - intros a s1 toks Hs Hne _. destruct (c (t_val a)); [apply good_ret; exact I | exact I].
  - auto.
  - auto.
Qed.

Lemma next_unwrap_err_good : forall s e r, stream s = inr e :: r -> exists s', next_unwrap_err s = (Ok e, s') /\ stream s' = r.
Proof.
  intros s e r E. unfold next_unwrap_err. destruct (src_next s) as [p s1] eqn:H. apply next_spec in H. rewrite E in H. cbn in H.
  destruct H as [Hp Hs]. subst p. exists s1. auto.
Qed.

Lemma rank_lt_6 : forall op, group_rank (group_of op) < 6.
Proof. destruct op; cbn; lia. Qed.

Lemma higher_rank : forall g, match group_higher g with Some g' => group_rank g' = S (group_rank g) | None => group_rank g = 5 end.
Proof. destruct g; reflexivity. Qed.

Lemma group_cmp_spec : forall a b, match group_cmp a b with
  | Lt => group_rank a < group_rank b | Eq => a = b | Gt => group_rank b < group_rank a end.
Proof. destruct a, b; cbn; try lia; reflexivity. Qed.

Definition TOT (f : nat) : Prop :=
  (forall s n, length (stream s) <= n -> 10 * n + 1 <= f -> goodP true anyl s (parse_unary f s)) /\
  (forall g es s n, length (stream s) <= n -> 10 * n + 7 - group_rank g <= f -> goodP true (op_below (group_rank g)) s (parse_binary f g es s)) /\
  (forall g es lhs s n, length (stream s) <= n -> 10 * n + 1 <= f -> op_below (S (group_rank g)) (stream s) ->
      goodP false (op_below (group_rank g)) s (binary_loop f g es lhs s)) /\
  (forall s n, length (stream s) <= n -> 10 * n + 9 <= f -> goodP false anyl s (parse_args f s)) /\
  (forall a s n, length (stream s) <= n -> 10 * n + 8 <= f -> goodP true anyl s (args_loop f a s)).

Ltac lens :=
  repeat match goal with
  | H : stream _ = map inl _ ++ stream _ |- _ => apply split_len in H
  | H : true = true -> _ <> [] |- _ => specialize (H eq_refl)
  | H : ?t <> [] |- _ => apply ne_len in H
  | H : stream _ = stream _ |- _ => apply (f_equal (@length tok_item)) in H
  | H : stream _ = _ :: _ |- _ => apply (f_equal (@length tok_item)) in H; cbn [length] in H
  | H : stream _ = [] |- _ => apply (f_equal (@length tok_item)) in H; cbn [length] in H
  end; try lia.

(* goodP false P s r from a strict/any version *)
Ltac weaken := eapply good_weaken; [ | intros; try reflexivity; try discriminate; auto | intros; auto ].

Lemma anyl_I : forall l, anyl l. Proof. exact (fun _ => I). Qed.
#[local] Hint Resolve anyl_I : core.

Lemma gbind : forall A B (x : outcome A * src) (k : A -> src -> outcome B * src) s b1 b2 b P Q,
  goodP b1 P s x ->
  (forall a s1 toks, stream s = map inl toks ++ stream s1 -> (b1 = true -> toks <> []) -> P (stream s1) -> goodP b2 Q s1 (k a s1)) ->
  (b = true -> b1 || b2 = true) ->
  goodP b Q s (bind x k).
Proof.
  intros. apply (good_weaken _ (bind x k) s (b1 || b2) b Q Q); auto.
  apply (good_bind _ _ x k s b1 b2 P Q); auto.
Qed.

Lemma gweak : forall A (r : outcome A * src) s b (P : list tok_item -> Prop), goodP b P s r -> goodP false anyl s r.
Proof. intros. apply (good_weaken _ r s b false P anyl); auto. discriminate. Qed.

Lemma good_prefix : forall A (r : outcome A * src) s s0 pre b P,
  stream s = map inl pre ++ stream s0 -> goodP b P s0 r -> goodP b P s r.
Proof.
  intros A [[a|e| |] s1] s s0 pre b P E H; cbn in *; auto.
  destruct H as [(toks & Hs & Hne) HP]. split; auto. exists (pre ++ toks). rewrite map_app, <- app_assoc, <- Hs. split; auto.
  intros Hb. specialize (Hne Hb). destruct pre; cbn; [auto | discriminate].
Qed.

Lemma close_block : forall A B (x : outcome A * src) (K : A -> B) c s b P,
  goodP b P s x ->
  goodP true anyl s (bind x (fun a s3 => bind (expect_close c s3) (fun _ s4 => (Ok (K a), s4)))).
Proof.
  intros. eapply gbind with (b1 := b) (b2 := true); [eassumption| |destruct b; auto].
  intros a s1 toks Hs Hne HP.
  eapply gbind with (b1 := true) (b2 := false); [apply expect_close_good| |auto].
  intros. apply good_ret. exact I.
Qed.

Lemma tot_unary : forall f, TOT f ->
  forall s n, length (stream s) <= n -> 10 * n + 1 <= S f -> goodP true anyl s (parse_unary (S f) s).
Proof.
  intros f (IHu & IHb & IHl & IHa & IHal) s n Hn Hf.
  cbn [parse_unary].
  eapply gbind with (b1 := true) (b2 := false); [apply next_inner_good| |auto].
  intros token s1 toks Hs Hne _.
  assert (Hn1 : length (stream s1) <= n - 1 /\ 1 <= n) by (clear - Hs Hne Hn; lens).
  destruct Hn1 as [Hn1 Hn0].
  destruct (t_val token).
  all: try (exact I).
  all: try (apply good_ret; exact I).
  - (* minus *) eapply gbind with (b2 := false); [apply (IHu s1 (n - 1)); lia| |auto]. intros; apply good_ret; exact I.
  - (* not *) eapply gbind with (b2 := false); [apply (IHu s1 (n - 1)); lia| |auto]. intros; apply good_ret; exact I.
  - (* identifier *)
    destruct (src_peek s1) as [p s2] eqn:Hp. apply peek_spec in Hp. destruct Hp as [Hp Hs2]. subst p.
    destruct (stream s1) as [|[t|e] r] eqn:E1; cbn [hd_error].
    + eapply good_stream_eq with (s0 := s2); [congruence|]. apply good_ret; exact I.
    + destruct (t_val t) eqn:Ev; try (eapply good_stream_eq with (s0 := s2); [congruence|]; apply good_ret; exact I).
      (* function call *)
      eapply good_stream_eq with (s0 := s2); [congruence|].
      assert (Hs3 : stream s2 = map inl [t] ++ stream (snd (src_next s2))) by (rewrite next_snd, Hs2; reflexivity).
      eapply gweak. eapply close_block with (K := AFun s0).
      eapply good_prefix with (pre := [t]); [exact Hs3|].
      apply (IHa _ (n - 2)); [rewrite next_snd, Hs2; cbn [tl]; cbn [length] in Hn1; lia | cbn [length] in Hn1; lia].
    + eapply good_stream_eq with (s0 := s2); [congruence|]. apply good_ret; exact I.
  - (* ( *)
    destruct (expr_start s1) as [es s2] eqn:He. apply expr_start_spec in He.
    eapply gweak. eapply good_stream_eq with (s0 := s2); [congruence|]. eapply close_block.
    apply (IHb GBitOr es s2 (n - 1)); [rewrite He; lia | cbn [group_rank]; lia].
  - (* [ *)
    destruct (expr_start s1) as [es s2] eqn:He. apply expr_start_spec in He.
    eapply gweak. eapply good_stream_eq with (s0 := s2); [congruence|]. eapply close_block.
    apply (IHb GBitOr es s2 (n - 1)); [rewrite He; lia | cbn [group_rank]; lia].
  - (* { *)
    eapply gweak. eapply close_block. apply (IHa s1 (n - 1)); lia.
Qed.

Lemma op_below_6 : forall l, op_below 6 l.
Proof. intros [|[t|e] r]; cbn; auto. destruct (binop_decode (t_val t)); auto. apply rank_lt_6. Qed.

Lemma rank_le_5 : forall g, group_rank g <= 5.
Proof. destruct g; cbn; lia. Qed.

Lemma tot_binary : forall f, TOT f ->
  forall g es s n, length (stream s) <= n -> 10 * n + 7 - group_rank g <= S f -> goodP true (op_below (group_rank g)) s (parse_binary (S f) g es s).
Proof.
  intros f (IHu & IHb & IHl & IHa & IHal) g es s n Hn Hf.
  cbn [parse_binary]. pose proof (higher_rank g) as Hr. pose proof (rank_le_5 g) as H5.
  destruct (group_higher g) as [part|].
  - eapply gbind with (b1 := true) (b2 := false); [apply (IHb part es s n); lia | | auto].
    intros lhs s1 toks Hs Hne HP. rewrite Hr in HP.
    apply (IHl g es lhs s1 (n - 1)); auto; clear - Hs Hne Hn Hf H5; lens.
  - eapply gbind with (b1 := true) (b2 := false); [apply (IHu s n); lia | | auto].
    intros lhs s1 toks Hs Hne HP.
    apply (IHl g es lhs s1 (n - 1)); [ | |rewrite Hr; apply op_below_6]; clear - Hs Hne Hn Hf H5; lens.
Qed.

Lemma stop_not_op : forall v, is_op_stop v = true -> binop_decode v = None.
Proof. destruct v; cbn; congruence. Qed.

Lemma tot_loop : forall f, TOT f ->
  forall g es lhs s n, length (stream s) <= n -> 10 * n + 1 <= S f -> op_below (S (group_rank g)) (stream s) ->
      goodP false (op_below (group_rank g)) s (binary_loop (S f) g es lhs s).
Proof.
  intros f (IHu & IHb & IHl & IHa & IHal) g es lhs s n Hn Hf Hpre.
  cbn [binary_loop]. pose proof (higher_rank g) as Hr. pose proof (rank_le_5 g) as H5.
  destruct (src_peek s) as [p s1] eqn:Hp. apply peek_spec in Hp. destruct Hp as [Hp Hs1]. subst p.
  destruct (stream s) as [|[t|e] r] eqn:E; cbn [hd_error].
  - eapply good_stream_eq with (s0 := s1); [congruence|]. apply good_ret. rewrite Hs1. exact I.
  - destruct (is_op_stop (t_val t)) eqn:Estop.
    { eapply good_stream_eq with (s0 := s1); [congruence|]. apply good_ret. rewrite Hs1. cbn. rewrite (stop_not_op _ Estop). exact I. }
    destruct (binop_decode (t_val t)) as [op|] eqn:Ed; [|exact I].
    pose proof (group_cmp_spec (group_of op) g) as Hc.
    destruct (group_cmp (group_of op) g).
    + (* same group: consume, parse the right operand, continue *)
      eapply good_stream_eq with (s0 := s1); [congruence|].
      assert (Hs3 : stream s1 = map inl [t] ++ stream (snd (src_next s1))) by (rewrite next_snd, Hs1; reflexivity).
      eapply good_prefix with (pre := [t]); [exact Hs3|].
      assert (Hl2 : length (stream (snd (src_next s1))) <= n - 1 /\ 1 <= n) by (rewrite next_snd, Hs1; cbn [tl]; cbn [length] in Hn; lia).
      destruct Hl2 as [Hl2 Hn0].
      destruct (group_higher g) as [part|].
      * eapply gbind with (b1 := true) (b2 := false); [apply (IHb part es _ (n - 1)); [exact Hl2 | lia] | | auto].
        intros rhs s3 toks Hs Hne HP. rewrite Hr in HP.
        apply (IHl g es _ s3 (n - 2)); auto; clear - Hs Hne Hl2 Hf H5 Hn0; lens.
      * eapply gbind with (b1 := true) (b2 := false); [apply (IHu _ (n - 1)); [exact Hl2 | lia] | | auto].
        intros rhs s3 toks Hs Hne HP.
        apply (IHl g es _ s3 (n - 2)); [ | |rewrite Hr; apply op_below_6]; clear - Hs Hne Hl2 Hf H5 Hn0; lens.
    + eapply good_stream_eq with (s0 := s1); [congruence|]. apply good_ret. rewrite Hs1. cbn. rewrite Ed. exact Hc.
    + cbn in Hpre. rewrite Ed in Hpre. lia.
  - destruct (next_unwrap_err_good s1 e r Hs1) as (s' & Hn' & _). rewrite Hn'. exact I.
Qed.

Lemma tot_args : forall f, TOT f ->
  forall s n, length (stream s) <= n -> 10 * n + 9 <= S f -> goodP false anyl s (parse_args (S f) s).
Proof.
  intros f (IHu & IHb & IHl & IHa & IHal) s n Hn Hf.
  cbn [parse_args].
  destruct (src_peek s) as [p s1] eqn:Hp. apply peek_spec in Hp. destruct Hp as [Hp Hs1]. subst p.
  destruct (stream s) as [|[t|e] r] eqn:E; cbn [hd_error].
  - eapply good_stream_eq with (s0 := s1); [congruence|]. apply good_ret. exact I.
  - destruct (is_args_end (t_val t)).
    + eapply good_stream_eq with (s0 := s1); [congruence|]. apply good_ret. exact I.
    + eapply good_stream_eq with (s0 := s1); [congruence|]. eapply gweak. apply (IHal [] s1 n); [rewrite Hs1; exact Hn | lia].
  - destruct (next_unwrap_err_good s1 e r Hs1) as (s' & Hn' & _). rewrite Hn'. exact I.
Qed.

Lemma tot_args_loop : forall f, TOT f ->
  forall a s n, length (stream s) <= n -> 10 * n + 8 <= S f -> goodP true anyl s (args_loop (S f) a s).
Proof.
  intros f (IHu & IHb & IHl & IHa & IHal) a s n Hn Hf.
  cbn [args_loop].
  destruct (expr_start s) as [es s1] eqn:He. apply expr_start_spec in He.
  eapply good_stream_eq with (s0 := s1); [congruence|].
  eapply gbind with (b1 := true) (b2 := false); [apply (IHb GBitOr es s1 n); [rewrite He; exact Hn | cbn [group_rank]; lia] | | auto].
  intros x s2 toks Hs Hne _.
  assert (Hl2 : length (stream s2) <= n - 1 /\ 1 <= n) by (clear - Hs Hne Hn He; rewrite <- He in Hn; lens).
  destruct Hl2 as [Hl2 Hn0].
  destruct (src_peek s2) as [p s3] eqn:Hp. apply peek_spec in Hp. destruct Hp as [Hp Hs3]. subst p.
  destruct (stream s2) as [|[t|e] r] eqn:E; cbn [hd_error].
  - exact I.
  - destruct (t_val t) eqn:Ev; try exact I.
    + (* separator *)
      eapply good_stream_eq with (s0 := s3); [congruence|].
      assert (Hs4 : stream s3 = map inl [t] ++ stream (snd (src_next s3))) by (rewrite next_snd, Hs3; reflexivity).
      eapply good_prefix with (pre := [t]); [exact Hs4|]. eapply gweak.
      apply (IHal _ _ (n - 2)); [rewrite next_snd, Hs3; cbn [tl]; cbn [length] in Hl2; lia | lia].
    + eapply good_stream_eq with (s0 := s3); [congruence|]. apply good_ret. exact I.
    + eapply good_stream_eq with (s0 := s3); [congruence|]. apply good_ret. exact I.
    + eapply good_stream_eq with (s0 := s3); [congruence|]. apply good_ret. exact I.
    + eapply good_stream_eq with (s0 := s3); [congruence|]. apply good_ret. exact I.
  - destruct (next_unwrap_err_good s3 e r Hs3) as (s' & Hn' & _). rewrite Hn'. exact I.
Qed.

Lemma totality : forall f, TOT f.
Proof.
  induction f as [|f IH].
  - repeat split; intros; try lia. pose proof (rank_le_5 g). lia.
  - repeat split.
    + apply tot_unary; auto.
    + apply tot_binary; auto.
    + apply tot_loop; auto.
    + apply tot_args; auto.
    + apply tot_args_loop; auto.
Qed.

(* ---------------------------------------------------------------------------------------------- *)
(* 4. statements, the iterator *)

Lemma finish_stmt_good : forall mk line col r s b P, goodP b P s r -> goodP true anyl s (finish_stmt mk line col r).
Proof.
  intros. unfold finish_stmt. eapply gbind with (b1 := b) (b2 := true); [eassumption| |destruct b; auto].
  intros a s1 toks Hs Hne HP. eapply gbind with (b1 := true) (b2 := false); [apply next_inner_good| |auto].
  intros. apply good_ret. exact I.
Qed.

Lemma do_next_good : forall F first s, 10 * length (stream s) + 9 <= F -> goodP false anyl s (do_next F first s).
Proof.
  intros F first s HF. destruct (totality F) as (_ & _ & _ & IHa & _).
  unfold do_next. destruct first as [tk|e]; [|exact I].
  destruct (t_val tk); try exact I.
  - (* directive *)
    destruct (src_next s) as [p s1] eqn:Hn. apply next_spec in Hn. destruct Hn as [Hp Hs1]. subst p.
    destruct (stream s) as [|[t|e] r] eqn:E; cbn [hd_error]; try exact I.
    destruct (t_val t); try exact I.
    assert (Hs3 : stream s = map inl [t] ++ stream s1) by (rewrite E, Hs1; reflexivity).
    eapply good_prefix with (pre := [t]); [exact Hs3|]. eapply gweak. eapply finish_stmt_good.
    apply (IHa s1 (length (stream s1))); [lia|]. rewrite Hs1. cbn [tl]. cbn [length] in HF. lia.
  - (* label or instruction *)
    destruct (src_peek s) as [p s1] eqn:Hp. apply peek_spec in Hp. destruct Hp as [Hp Hs1]. subst p.
    destruct (stream s) as [|[t|e] r] eqn:E; cbn [hd_error]; try exact I.
    + destruct (t_val t).
      all: try (eapply good_stream_eq with (s0 := s1); [congruence|]; eapply gweak; eapply finish_stmt_good;
                apply (IHa s1 (length (stream s1))); [lia | rewrite Hs1; exact HF]).
      eapply good_stream_eq with (s0 := s1); [congruence|].
      assert (Hs3 : stream s1 = map inl [t] ++ stream (snd (src_next s1))) by (rewrite next_snd, Hs1; reflexivity).
      eapply good_prefix with (pre := [t]); [exact Hs3|]. apply good_ret. exact I.
    + destruct (next_unwrap_err_good s1 e r Hs1) as (s' & Hn' & _). rewrite Hn'. exact I.
Qed.

Lemma bind_ok_inv : forall A B (x : outcome A * src) (k : A -> src -> outcome B * src) b s',
  bind x k = (Ok b, s') -> exists a s1, x = (Ok a, s1) /\ k a s1 = (Ok b, s').
Proof. intros A B [[a|e| |] s1] k b s' H; cbn in H; try discriminate. eauto. Qed.

Lemma finish_stmt_pos : forall mk line col r e s', finish_stmt mk line col r = (Ok e, s') -> e_line e = line /\ e_col e = col.
Proof.
  intros mk line col r e s' H. unfold finish_stmt in H.
  apply bind_ok_inv in H. destruct H as (a & s1 & _ & H).
  apply bind_ok_inv in H. destruct H as (a2 & s2 & _ & H). inversion H. subst. auto.
Qed.

(* C12: an Ok element carries the position of the token the statement started with *)
Lemma do_next_pos : forall F first s e s', do_next F first s = (Ok e, s') ->
  exists tk, first = inl tk /\ e_line e = t_line tk /\ e_col e = t_col tk.
Proof.
  intros F first s e s' H. unfold do_next in H. destruct first as [tk|er]; [|discriminate].
  exists tk. split; auto.
  destruct (t_val tk); try discriminate.
  - destruct (src_next s) as [[[t|e0]|] s1]; try discriminate.
    destruct (t_val t); try discriminate. apply finish_stmt_pos in H. exact H.
  - destruct (src_peek s) as [[[t|e0]|] s1]; try discriminate.
    + destruct (t_val t); try (apply finish_stmt_pos in H; exact H). inversion H. subst. auto.
    + apply bind_ok_inv in H. destruct H as (a & s2 & _ & H). discriminate.
Qed.

(* what one poll of the iterator does, in terms of the stream *)
Definition poll_spec (l : list tok_item) (r : poll * src) : Prop :=
  match r with
  | (PollNone, s') => l = [] /\ stream s' = []
  | (PollItem (IOk e), s') => exists tk toks, l = inl tk :: map inl toks ++ stream s' /\ e_line e = t_line tk /\ e_col e = t_col tk
  | (PollItem (IErr _), s') => l <> [] /\ stream s' = []
  | _ => False
  end.

Lemma parser_next_spec : forall F s, 10 * length (stream s) + 9 <= F -> poll_spec (stream s) (parser_next F s).
Proof.
  intros F s HF. unfold parser_next.
  destruct (src_next s) as [p s1] eqn:Hn. apply next_spec in Hn. destruct Hn as [Hp Hs1]. subst p.
  destruct (stream s) as [|x r] eqn:E; cbn [hd_error].
  - cbn. auto.
  - cbn [tl] in Hs1.
    assert (HF1 : 10 * length (stream s1) + 9 <= F) by (rewrite Hs1; cbn [length] in HF; lia).
    pose proof (do_next_good F x s1 HF1) as Hg. pose proof (do_next_pos F x s1) as Hpos.
    destruct (do_next F x s1) as [[e|e| |] s2]; cbn in Hg; try contradiction.
    + destruct Hg as [(toks & Hs & _) _]. destruct (Hpos e s2 eq_refl) as (tk & Hx & Hl & Hc). subst x.
      cbn. exists tk, toks. rewrite <- Hs, Hs1. auto.
    + destruct (drain_spec (S (length (stream (src_clear s2)))) (src_clear s2)) as (s3 & Hd & Hs3); [apply clear_pending | lia |].
      rewrite Hd. cbn. split; [discriminate | exact Hs3].
Qed.

(* the whole run, as a relation between the token stream and the produced items *)
Inductive run_spec : list tok_item -> list item -> Prop :=
| RS_end : run_spec [] []
| RS_ok : forall tk toks rest e items, e_line e = t_line tk -> e_col e = t_col tk -> run_spec rest items ->
    run_spec (inl tk :: map inl toks ++ rest) (IOk e :: items)
| RS_err : forall l e, l <> [] -> run_spec l [IErr e].

Lemma poll_more_end : forall k F s, stream s = [] -> poll_more k F s = repeat PollNone k.
Proof.
  induction k as [|k IH]; intros F s Hs; [reflexivity|].
  cbn [poll_more repeat].
  assert (HF : poll_spec (stream s) (parser_next F s)).
  { unfold parser_next. destruct (src_next s) as [p s1] eqn:Hn. apply next_spec in Hn. rewrite Hs in Hn. cbn in Hn.
    destruct Hn as [Hp Hs1]. subst p. cbn. rewrite Hs. auto. }
  destruct (parser_next F s) as [p s1]. rewrite Hs in HF.
  destruct p as [|[e|e]| |]; cbn in HF.
  - destruct HF as [_ H1]. rewrite (IH F s1 H1). reflexivity.
  - destruct HF as (tk & toks & H & _). discriminate.
  - destruct HF as [H _]. congruence.
  - contradiction.
  - contradiction.
Qed.

Lemma iterate_spec : forall n F acc s, length (stream s) < n -> 10 * length (stream s) + 9 <= F ->
  exists items, iterate n F acc s = Done (acc ++ items) [PollNone; PollNone; PollNone] /\ run_spec (stream s) items.
Proof.
  induction n as [|n IH]; intros F acc s Hn HF; [lia|].
  cbn [iterate]. pose proof (parser_next_spec F s HF) as Hp.
  destruct (parser_next F s) as [p s1]. destruct p as [|[e|e]| |]; cbn in Hp; try contradiction.
  - destruct Hp as [H0 H1]. exists []. rewrite app_nil_r, (poll_more_end 3 F s1 H1), H0. split; [reflexivity | constructor].
  - destruct Hp as (tk & toks & Hs & Hl & Hc).
    assert (Hlen : length (stream s) = S (length toks + length (stream s1))) by (rewrite Hs; cbn [length]; rewrite app_length, map_length; reflexivity).
    destruct (IH F (acc ++ [IOk e]) s1) as (items & Hi & Hr); [lia | lia |].
    exists (IOk e :: items). rewrite Hi, <- app_assoc. split; [reflexivity|]. rewrite Hs. constructor; auto.
  - destruct Hp as [Hne H1].
    assert (Hpos1 : 1 <= length (stream s)) by (destruct (stream s); [congruence | cbn; lia]).
    destruct (IH F (acc ++ [IErr e]) s1) as (items & Hi & Hr); [rewrite H1; cbn; lia | rewrite H1; cbn; lia |].
    rewrite H1 in Hr. inversion Hr; subst; [|congruence].
    exists [IErr e]. rewrite Hi, app_nil_r. split; [reflexivity|]. constructor. exact Hne.
Qed.

Theorem parse_all_spec : forall s, exists items, parse_all s = Done items [PollNone; PollNone; PollNone] /\ run_spec (stream s) items.
Proof.
  intros s. unfold parse_all, default_fuel.
  destruct (iterate_spec (length (stream s) + 2) (10 * length (stream s) + 20) [] s) as (items & H & Hr); [lia | lia |].
  exists items. auto.
Qed.

(* consequences of run_spec *)
Lemma run_shape : forall l items, run_spec l items ->
  exists es tail, items = map IOk es ++ tail /\ (tail = [] \/ exists e, tail = [IErr e]).
Proof.
  induction 1.
  - exists [], []. auto.
  - destruct IHrun_spec as (es & tail & Hi & Ht). exists (e :: es), tail. subst. auto.
  - exists [], [IErr e]. split; auto. right. eauto.
Qed.

Lemma run_rejects : forall l items, run_spec l items -> (exists e, In (inr e) l) -> exists its e', items = its ++ [IErr e'].
Proof.
  induction 1; intros (er & Hin).
  - contradiction.
  - destruct Hin as [Hin|Hin]; [discriminate|].
    apply in_app_or in Hin. destruct Hin as [Hin|Hin].
    + apply in_map_iff in Hin. destruct Hin as (x & Hx & _). discriminate.
    + destruct IHrun_spec as (its & e' & Hi); [eauto|]. exists (IOk e :: its), e'. rewrite Hi. reflexivity.
  - exists [], e. reflexivity.
Qed.

(* ---------------------------------------------------------------------------------------------- *)
(* 5. the C10 / C12 statements *)

Lemma parse_total : forall s, parse_all s <> ROutOfFuel /\ (forall items, parse_all s <> RPanic items).
Proof. intros s. destruct (parse_all_spec s) as (items & H & _). rewrite H. split; [|intros ?]; discriminate. Qed.

Lemma parse_shape : forall s, exists es tail,
  parse_all s = Done (map IOk es ++ tail) [PollNone; PollNone; PollNone] /\ (tail = [] \/ exists e, tail = [IErr e]).
Proof.
  intros s. destruct (parse_all_spec s) as (items & H & Hr). destruct (run_shape _ _ Hr) as (es & tail & Hi & Ht).
  exists es, tail. subst items. auto.
Qed.

Lemma parse_respects_tokenizer : forall s items after, parse_all s = Done items after ->
  (exists e, In (inr e) (stream s)) -> exists its e', items = its ++ [IErr e'].
Proof.
  intros s items after H Hin. destruct (parse_all_spec s) as (items' & H' & Hr). rewrite H in H'. inversion H'; subst.
  eapply run_rejects; eauto.
Qed.

Lemma parse_positions : forall s items after, parse_all s = Done items after -> run_spec (stream s) items.
Proof. intros s items after H. destruct (parse_all_spec s) as (items' & H' & Hr). rewrite H in H'. inversion H'; subst. exact Hr. Qed.

Lemma stream_src_of : forall items l c, stream (src_of items l c) = items.
Proof. reflexivity. Qed.

(* ---------------------------------------------------------------------------------------------- *)
(* 6. C09: every valid rendering of a tree parses back to the tree *)

Definition op_sym (op : binop) : token_value :=
  match op with
  | OpAdd => TPlus | OpSubtract => TMinus | OpMultiply => TMultiply | OpDivide => TDivide | OpModulo => TModulo
  | OpBitAnd => TBitAnd | OpBitOr => TBitOr | OpBitXor => TBitXor | OpLeftShift => TLeftShift | OpRightShift => TRightShift
  end.
Definition op_prec (op : binop) : nat := S (group_rank (group_of op)).

(* all ways of writing a tree: the required parentheses, plus any number of redundant ones *)
Inductive Rend : nat -> arg -> list token_value -> Prop :=
| R_paren : forall c t X, Rend 0 t X -> Rend c t (paren X)
| R_const : forall c v, Rend c (AConst v) [TNumber v]
| R_ident : forall c s, Rend c (AIdent s) [TIdentifier s]
| R_str : forall c s, Rend c (AStr s) [TString s]
| R_neg : forall c a X, Rend 7 a X -> Rend c (ANeg a) (TMinus :: X)
| R_not : forall c a X, Rend 7 a X -> Rend c (ANot a) (TNot :: X)
| R_addr : forall c a X, Rend 0 a X -> Rend c (AAddr a) (TBeginAddr :: X ++ [TEndAddr])
| R_seq : forall c l X, RendL l X -> Rend c (ASeq l) (TBeginSeq :: X ++ [TEndSeq])
| R_fun : forall c n l X, RendL l X -> Rend c (AFun n l) (TIdentifier n :: TBeginGroup :: X ++ [TEndGroup])
| R_bin : forall c op l r X Y, c <= op_prec op -> Rend (op_prec op) l X -> Rend (S (op_prec op)) r Y ->
    Rend c (mk_bin op l r) (X ++ op_sym op :: Y)
with RendL : list arg -> list token_value -> Prop :=
| RL_nil : RendL [] []
| RL_ne : forall l X, RendNE l X -> RendL l X
with RendNE : list arg -> list token_value -> Prop :=
| RNE_one : forall a X, Rend 0 a X -> RendNE [a] X
| RNE_cons : forall a l X Y, Rend 0 a X -> RendNE l Y -> RendNE (a :: l) (X ++ TSeparator :: Y).

Scheme Rend_mut := Induction for Rend Sort Prop
with RendL_mut := Induction for RendL Sort Prop
with RendNE_mut := Induction for RendNE Sort Prop.
Combined Scheme Rend_all from Rend_mut, RendL_mut, RendNE_mut.

(* what may follow an operand parsed at group g: nothing, a stop token, or an operator of the same or a lower group *)
Definition head_ok (g : binop_group) (rest : list tok_item) : Prop :=
  match rest with
  | [] => True
  | inl t :: _ => is_op_stop (t_val t) = true \/ exists op, binop_decode (t_val t) = Some op /\ group_rank (group_of op) <= group_rank g
  | inr _ :: _ => False
  end.

Definition nolp (rest : list tok_item) : Prop :=
  match rest with inl t :: _ => t_val t <> TBeginGroup | _ => True end.

Definition closer_head (rest : list tok_item) : Prop :=
  match rest with inl t :: _ => is_args_end (t_val t) = true | _ => False end.

Lemma head_ok_nolp : forall g rest, head_ok g rest -> nolp rest.
Proof.
  intros g [|[t|e] r]; cbn; auto. intros [H|(op & H & _)] E; rewrite E in H; cbn in H; discriminate.
Qed.

Lemma head_ok_le : forall g g' rest, group_rank g <= group_rank g' -> head_ok g rest -> head_ok g' rest.
Proof.
  intros g g' [|[t|e] r] Hle; cbn; auto. intros [H|(op & H & Hr)]; [left; auto | right; exists op; split; auto; lia].
Qed.

Lemma closer_head_ok : forall g rest, closer_head rest -> head_ok g rest.
Proof. intros g [|[t|e] r]; cbn; auto. intros H. left. destruct (t_val t); cbn in *; congruence. Qed.

(* conclusion of the climbing invariant: parsing the rendering at group g is the same as entering the loop of group g
   with the tree as left operand and the rendering consumed *)
Definition Bconcl (g : binop_group) (es : N * N) (t : arg) (s : src) (rest : list tok_item) : Prop :=
  exists s', stream s' = rest /\
    forall k res, binary_loop k g es t s' = res -> fst res <> OutOfFuel -> exists f, parse_binary f g es s = res.

Definition Uconcl (t : arg) (s : src) (rest : list tok_item) : Prop :=
  exists f s', parse_unary f s = (Ok t, s') /\ stream s' = rest.

Lemma mono_res : forall A (r r' : outcome A * src), le_out r r' -> fst r <> OutOfFuel -> r' = r.
Proof. intros A r r' [H|H] Hn; [contradiction | auto]. Qed.

Lemma mono_u : forall f f' s r, parse_unary f s = r -> fst r <> OutOfFuel -> f <= f' -> parse_unary f' s = r.
Proof. intros f f' s r H Hn Hle. destruct (fuel_mono f f' Hle) as (M & _). subst r. apply mono_res; auto. Qed.
Lemma mono_b : forall f f' g es s r, parse_binary f g es s = r -> fst r <> OutOfFuel -> f <= f' -> parse_binary f' g es s = r.
Proof. intros f f' g es s r H Hn Hle. destruct (fuel_mono f f' Hle) as (_ & M & _). subst r. apply mono_res; auto. Qed.
Lemma mono_l : forall f f' g es lhs s r, binary_loop f g es lhs s = r -> fst r <> OutOfFuel -> f <= f' -> binary_loop f' g es lhs s = r.
Proof. intros f f' g es lhs s r H Hn Hle. destruct (fuel_mono f f' Hle) as (_ & _ & M & _). subst r. apply mono_res; auto. Qed.
Lemma mono_a : forall f f' s r, parse_args f s = r -> fst r <> OutOfFuel -> f <= f' -> parse_args f' s = r.
Proof. intros f f' s r H Hn Hle. destruct (fuel_mono f f' Hle) as (_ & _ & _ & M & _). subst r. apply mono_res; auto. Qed.
Lemma mono_al : forall f f' a s r, args_loop f a s = r -> fst r <> OutOfFuel -> f <= f' -> args_loop f' a s = r.
Proof. intros f f' a s r H Hn Hle. destruct (fuel_mono f f' Hle) as (_ & _ & _ & _ & M). subst r. apply mono_res; auto. Qed.

Lemma ok_not_oof : forall A (a : A) (s : src), fst (Ok a, s) <> OutOfFuel.
Proof. intros; cbn; discriminate. Qed.
#[local] Hint Resolve ok_not_oof : core.

(* peek / next on a known stream *)
Lemma peek_cons : forall s x r, stream s = x :: r -> exists s1, src_peek s = (Some x, s1) /\ stream s1 = x :: r.
Proof. intros s x r E. destruct (src_peek s) as [p s1] eqn:H. apply peek_spec in H. rewrite E in H. cbn in H. destruct H; subst. eauto. Qed.
Lemma peek_nil : forall s, stream s = [] -> exists s1, src_peek s = (None, s1) /\ stream s1 = [].
Proof. intros s E. destruct (src_peek s) as [p s1] eqn:H. apply peek_spec in H. rewrite E in H. cbn in H. destruct H; subst. eauto. Qed.
Lemma next_cons : forall s x r, stream s = x :: r -> exists s1, src_next s = (Some x, s1) /\ stream s1 = r.
Proof. intros s x r E. destruct (src_next s) as [p s1] eqn:H. apply next_spec in H. rewrite E in H. cbn in H. destruct H; subst. eauto. Qed.
Lemma next_inner_cons : forall s t r, stream s = inl t :: r -> exists s1, next_inner s = (Ok t, s1) /\ stream s1 = r.
Proof. intros s t r E. unfold next_inner. destruct (next_cons s _ _ E) as (s1 & H & Hs). rewrite H. eauto. Qed.
Lemma expect_close_cons : forall c s t r, stream s = inl t :: r -> c (t_val t) = true -> exists s1, expect_close c s = (Ok tt, s1) /\ stream s1 = r.
Proof. intros c s t r E Hc. unfold expect_close. destruct (next_inner_cons s t r E) as (s1 & H & Hs). rewrite H. cbn. rewrite Hc. eauto. Qed.
Lemma expr_start_any : forall s, exists es s1, expr_start s = (es, s1) /\ stream s1 = stream s.
Proof. intros s. destruct (expr_start s) as [es s1] eqn:H. apply expr_start_spec in H. eauto. Qed.

(* the loop of group g stops at once when the next item is acceptable after an operand of a lower group *)
Lemma loop_exit : forall g g' es t s rest, stream s = rest -> head_ok g rest -> group_rank g < group_rank g' ->
  exists s2, binary_loop 1 g' es t s = (Ok t, s2) /\ stream s2 = rest.
Proof.
  intros g g' es t s rest Hs Hok Hlt. cbn [binary_loop].
  destruct rest as [|[tk|e] r]; cbn in Hok.
  - destruct (peek_nil s Hs) as (s1 & Hp & Hs1). rewrite Hp. eauto.
  - destruct (peek_cons s _ _ Hs) as (s1 & Hp & Hs1). rewrite Hp.
    destruct Hok as [Hstop|(op & Hd & Hr)].
    + rewrite Hstop. eauto.
    + destruct (is_op_stop (t_val tk)); [eauto|]. rewrite Hd.
      pose proof (group_cmp_spec (group_of op) g') as Hc. destruct (group_cmp (group_of op) g'); [subst; lia | eauto | lia].
  - contradiction.
Qed.

Lemma descend : forall g g' es t s rest, group_higher g = Some g' -> head_ok g rest -> Bconcl g' es t s rest -> Bconcl g es t s rest.
Proof.
  intros g g' es t s rest Hh Hok (s1 & Hs1 & HB).
  pose proof (higher_rank g) as Hr. rewrite Hh in Hr.
  destruct (loop_exit g g' es t s1 rest Hs1 Hok) as (s2 & Hl & Hs2); [lia|].
  destruct (HB 1 _ Hl) as (f1 & Hf1); [auto|].
  exists s2. split; [exact Hs2|]. intros k res Hk Hn.
  exists (S (Nat.max f1 k)). cbn [parse_binary]. rewrite Hh.
  rewrite (mono_b f1 (Nat.max f1 k) g' es s _ Hf1); [|auto|lia]. cbn [bind].
  apply (mono_l k); auto; lia.
Qed.

Lemma descend_to : forall n g go es t s rest, group_rank go = group_rank g + n -> head_ok g rest -> Bconcl go es t s rest -> Bconcl g es t s rest.
Proof.
  induction n as [|n IH]; intros g go es t s rest Hr Hok HB.
  - assert (g = go) by (destruct g, go; cbn in Hr; try lia; reflexivity). subst. exact HB.
  - pose proof (higher_rank g) as Hh. destruct (group_higher g) as [g'|] eqn:Eh.
    + eapply descend; [exact Eh | exact Hok |]. apply (IH g' go); [lia | eapply head_ok_le; [|exact Hok]; lia | exact HB].
    + pose proof (rank_le_5 go). lia.
Qed.

Lemma unary_to_divmul : forall es t s rest, Uconcl t s rest -> Bconcl GDivMul es t s rest.
Proof.
  intros es t s rest (f1 & s1 & Hu & Hs1). exists s1. split; [exact Hs1|]. intros k res Hk Hn.
  exists (S (Nat.max f1 k)). cbn [parse_binary group_higher].
  rewrite (mono_u f1 (Nat.max f1 k) s _ Hu); [|auto|lia]. cbn [bind]. apply (mono_l k); auto; lia.
Qed.

Lemma unary_to_binary : forall g es t s rest, head_ok g rest -> Uconcl t s rest -> Bconcl g es t s rest.
Proof.
  intros g es t s rest Hok HU. apply (descend_to (5 - group_rank g) g GDivMul); [pose proof (rank_le_5 g); change (group_rank GDivMul) with 5; lia | exact Hok |].
  apply unary_to_divmul. exact HU.
Qed.

(* the first token of a rendering starts an operand *)
Definition starts_operand (v : token_value) : bool :=
  match v with TMinus | TNot | TNumber _ | TIdentifier _ | TString _ | TBeginGroup | TBeginAddr | TBeginSeq => true | _ => false end.

Lemma rend_head : forall c t X, Rend c t X -> exists v X', X = v :: X' /\ starts_operand v = true.
Proof.
  induction 1; cbn; try (eexists; eexists; split; [reflexivity | reflexivity]).
  destruct IHRend1 as (v & X' & E & Hv). subst X. exists v, (X' ++ op_sym op :: Y). split; auto.
Qed.

Lemma sym_decode : forall op, binop_decode (op_sym op) = Some op /\ is_op_stop (op_sym op) = false.
Proof. destruct op; cbn; auto. Qed.

Lemma cmp_refl : forall g, group_cmp g g = Eq.
Proof. destruct g; reflexivity. Qed.

Lemma map_app_inv : forall (toks : list token) X Y, map t_val toks = X ++ Y ->
  exists t1 t2, toks = t1 ++ t2 /\ map t_val t1 = X /\ map t_val t2 = Y.
Proof.
  intros toks X. revert toks. induction X as [|x X IH]; intros toks Y H.
  - exists [], toks. auto.
  - destruct toks as [|t toks]; [discriminate|]. cbn in H. inversion H. destruct (IH toks Y H2) as (t1 & t2 & E & E1 & E2).
    exists (t :: t1), t2. subst. auto.
Qed.

Lemma map_cons_inv : forall (toks : list token) x X, map t_val toks = x :: X -> exists t r, toks = t :: r /\ t_val t = x /\ map t_val r = X.
Proof. intros [|t r] x X H; [discriminate|]. inversion H. eauto. Qed.

Lemma loop_stop : forall g es t s tk r, stream s = inl tk :: r -> is_op_stop (t_val tk) = true ->
  exists s2, binary_loop 1 g es t s = (Ok t, s2) /\ stream s2 = inl tk :: r.
Proof.
  intros g es t s tk r Hs Hstop. cbn [binary_loop]. destruct (peek_cons s _ _ Hs) as (s1 & Hp & Hs1). rewrite Hp, Hstop. eauto.
Qed.

(* parse one bracketed / top-level expression: rendering at context 0 followed by a stop token *)
Lemma parse_to_stop : forall t s tk r,
  (forall g es, group_rank g <= 0 - 1 -> head_ok g (inl tk :: r) -> Bconcl g es t s (inl tk :: r)) ->
  is_op_stop (t_val tk) = true ->
  forall es, exists f s2, parse_binary f GBitOr es s = (Ok t, s2) /\ stream s2 = inl tk :: r.
Proof.
  intros t s tk r HB Hstop es.
  destruct (HB GBitOr es) as (s1 & Hs1 & H1); [cbn; lia | cbn; auto |].
  destruct (loop_stop GBitOr es t s1 tk r Hs1 Hstop) as (s2 & Hl & Hs2).
  destruct (H1 1 _ Hl) as (f & Hf); [auto|]. eauto.
Qed.

Definition Pexp (c : nat) (t : arg) (X : list token_value) : Prop :=
  forall toks s rest, map t_val toks = X -> stream s = map inl toks ++ rest ->
    (forall g es, group_rank g <= c - 1 -> head_ok g rest -> Bconcl g es t s rest) /\
    (7 <= c -> nolp rest -> Uconcl t s rest).

Definition Plist (l : list arg) (X : list token_value) : Prop :=
  forall toks s rest, map t_val toks = X -> stream s = map inl toks ++ rest -> closer_head rest ->
    exists f s', parse_args f s = (Ok l, s') /\ stream s' = rest.

Definition Pne (l : list arg) (X : list token_value) : Prop :=
  forall acc toks s rest, map t_val toks = X -> stream s = map inl toks ++ rest -> closer_head rest ->
    exists f s', args_loop f acc s = (Ok (acc ++ l), s') /\ stream s' = rest.

Lemma shape_unary : forall c t s rest, (nolp rest -> Uconcl t s rest) ->
  (forall g es, group_rank g <= c - 1 -> head_ok g rest -> Bconcl g es t s rest) /\ (7 <= c -> nolp rest -> Uconcl t s rest).
Proof.
  intros c t s rest H. split; [|auto]. intros g es _ Hok. apply unary_to_binary; auto. apply H. eapply head_ok_nolp; eauto.
Qed.

Lemma stop_of_end : forall v, is_args_end v = true -> is_op_stop v = true.
Proof. destruct v; cbn; congruence. Qed.

Lemma rendne_head : forall l X, RendNE l X -> exists v X', X = v :: X' /\ starts_operand v = true.
Proof.
  intros l X H. destruct H as [a X H|a l X Y H _]; destruct (rend_head _ _ _ H) as (v & X' & E & Hv); subst; cbn; eauto.
Qed.

Lemma operand_not_end : forall v, starts_operand v = true -> is_args_end v = false /\ v <> TLabelMark.
Proof. destruct v; cbn; try discriminate; split; auto; discriminate. Qed.

Theorem climbing : (forall c t X, Rend c t X -> Pexp c t X) /\ (forall l X, RendL l X -> Plist l X) /\ (forall l X, RendNE l X -> Pne l X).
Proof.
  apply Rend_all; unfold Pexp, Plist, Pne.
  - (* parentheses *)
    intros c t X _ IH toks s rest Hm Hs. apply shape_unary. intros _.
    unfold paren in Hm. apply map_cons_inv in Hm. destruct Hm as (t0 & toks1 & -> & Ht0 & Hm).
    apply map_app_inv in Hm. destruct Hm as (tx & t9s & -> & Hx & H9).
    apply map_cons_inv in H9. destruct H9 as (t9 & nil9 & -> & Ht9 & Hnil). destruct nil9; [|discriminate].
    cbn [map app] in Hs. rewrite map_app in Hs. cbn [map] in Hs. rewrite <- app_assoc in Hs. cbn [app] in Hs.
    destruct (next_inner_cons s _ _ Hs) as (s1 & Hn1 & Hs1).
    destruct (expr_start_any s1) as (es & s2 & He & Hs2). rewrite Hs1 in Hs2.
    destruct (IH tx s2 (inl t9 :: rest) Hx Hs2) as [HB _].
    destruct (parse_to_stop t s2 t9 rest HB) with (es := es) as (f & s3 & Hf & Hs3); [rewrite Ht9; reflexivity|].
    destruct (expect_close_cons is_end_group s3 t9 rest Hs3) as (s4 & Hc & Hs4); [rewrite Ht9; reflexivity|].
    exists (S f), s4. split; [|exact Hs4].
    cbn [parse_unary]. rewrite Hn1. cbn [bind]. rewrite Ht0, He, Hf. cbn [bind]. rewrite Hc. reflexivity.
  - (* constant *)
    intros c v toks s rest Hm Hs. apply shape_unary. intros _.
    apply map_cons_inv in Hm. destruct Hm as (t0 & r0 & -> & Ht0 & Hm). destruct r0; [|discriminate]. cbn in Hs.
    destruct (next_inner_cons s _ _ Hs) as (s1 & Hn1 & Hs1).
    exists 1, s1. split; [|exact Hs1]. cbn [parse_unary]. rewrite Hn1. cbn [bind]. rewrite Ht0. reflexivity.
  - (* identifier *)
    intros c v toks s rest Hm Hs. apply shape_unary. intros Hnolp.
    apply map_cons_inv in Hm. destruct Hm as (t0 & r0 & -> & Ht0 & Hm). destruct r0; [|discriminate]. cbn in Hs.
    destruct (next_inner_cons s _ _ Hs) as (s1 & Hn1 & Hs1).
    destruct (src_peek s1) as [p s2] eqn:Hp. destruct (peek_spec _ _ _ Hp) as [Hq Hs2]. rewrite Hs1 in Hq, Hs2. subst p.
    exists 1, s2. split; [|exact Hs2]. cbn [parse_unary]. rewrite Hn1. cbn [bind]. rewrite Ht0, Hp.
    destruct rest as [|[tk|e] r]; cbn [hd_error]; try reflexivity.
    cbn in Hnolp. destruct (t_val tk); try reflexivity. congruence.
  - (* string *)
    intros c v toks s rest Hm Hs. apply shape_unary. intros _.
    apply map_cons_inv in Hm. destruct Hm as (t0 & r0 & -> & Ht0 & Hm). destruct r0; [|discriminate]. cbn in Hs.
    destruct (next_inner_cons s _ _ Hs) as (s1 & Hn1 & Hs1).
    exists 1, s1. split; [|exact Hs1]. cbn [parse_unary]. rewrite Hn1. cbn [bind]. rewrite Ht0. reflexivity.
  - (* negate *)
    intros c a X _ IH toks s rest Hm Hs. apply shape_unary. intros Hnolp.
    apply map_cons_inv in Hm. destruct Hm as (t0 & r0 & -> & Ht0 & Hm). cbn [map app] in Hs.
    destruct (next_inner_cons s _ _ Hs) as (s1 & Hn1 & Hs1).
    destruct (IH r0 s1 rest Hm Hs1) as [_ HU]. destruct (HU (le_n 7) Hnolp) as (f & s2 & Hf & Hs2).
    exists (S f), s2. split; [|exact Hs2]. cbn [parse_unary]. rewrite Hn1. cbn [bind]. rewrite Ht0, Hf. reflexivity.
  - (* not *)
    intros c a X _ IH toks s rest Hm Hs. apply shape_unary. intros Hnolp.
    apply map_cons_inv in Hm. destruct Hm as (t0 & r0 & -> & Ht0 & Hm). cbn [map app] in Hs.
    destruct (next_inner_cons s _ _ Hs) as (s1 & Hn1 & Hs1).
    destruct (IH r0 s1 rest Hm Hs1) as [_ HU]. destruct (HU (le_n 7) Hnolp) as (f & s2 & Hf & Hs2).
    exists (S f), s2. split; [|exact Hs2]. cbn [parse_unary]. rewrite Hn1. cbn [bind]. rewrite Ht0, Hf. reflexivity.
  - (* address *)
    intros c t X _ IH toks s rest Hm Hs. apply shape_unary. intros _.
    apply map_cons_inv in Hm. destruct Hm as (t0 & toks1 & -> & Ht0 & Hm).
    apply map_app_inv in Hm. destruct Hm as (tx & t9s & -> & Hx & H9).
    apply map_cons_inv in H9. destruct H9 as (t9 & nil9 & -> & Ht9 & Hnil). destruct nil9; [|discriminate].
    cbn [map app] in Hs. rewrite map_app in Hs. cbn [map] in Hs. rewrite <- app_assoc in Hs. cbn [app] in Hs.
    destruct (next_inner_cons s _ _ Hs) as (s1 & Hn1 & Hs1).
    destruct (expr_start_any s1) as (es & s2 & He & Hs2). rewrite Hs1 in Hs2.
    destruct (IH tx s2 (inl t9 :: rest) Hx Hs2) as [HB _].
    destruct (parse_to_stop t s2 t9 rest HB) with (es := es) as (f & s3 & Hf & Hs3); [rewrite Ht9; reflexivity|].
    destruct (expect_close_cons is_end_addr s3 t9 rest Hs3) as (s4 & Hc & Hs4); [rewrite Ht9; reflexivity|].
    exists (S f), s4. split; [|exact Hs4].
    cbn [parse_unary]. rewrite Hn1. cbn [bind]. rewrite Ht0, He, Hf. cbn [bind]. rewrite Hc. reflexivity.
  - (* sequence *)
    intros c l X _ IH toks s rest Hm Hs. apply shape_unary. intros _.
    apply map_cons_inv in Hm. destruct Hm as (t0 & toks1 & -> & Ht0 & Hm).
    apply map_app_inv in Hm. destruct Hm as (tx & t9s & -> & Hx & H9).
    apply map_cons_inv in H9. destruct H9 as (t9 & nil9 & -> & Ht9 & Hnil). destruct nil9; [|discriminate].
    cbn [map app] in Hs. rewrite map_app in Hs. cbn [map] in Hs. rewrite <- app_assoc in Hs. cbn [app] in Hs.
    destruct (next_inner_cons s _ _ Hs) as (s1 & Hn1 & Hs1).
    destruct (IH tx s1 (inl t9 :: rest) Hx Hs1) as (f & s3 & Hf & Hs3); [cbn; rewrite Ht9; reflexivity|].
    destruct (expect_close_cons is_end_seq s3 t9 rest Hs3) as (s4 & Hc & Hs4); [rewrite Ht9; reflexivity|].
    exists (S f), s4. split; [|exact Hs4].
    cbn [parse_unary]. rewrite Hn1. cbn [bind]. rewrite Ht0, Hf. cbn [bind]. rewrite Hc. reflexivity.
  - (* function *)
    intros c n l X _ IH toks s rest Hm Hs. apply shape_unary. intros _.
    apply map_cons_inv in Hm. destruct Hm as (t0 & toks1 & -> & Ht0 & Hm).
    apply map_cons_inv in Hm. destruct Hm as (tp & toks2 & -> & Htp & Hm).
    apply map_app_inv in Hm. destruct Hm as (tx & t9s & -> & Hx & H9).
    apply map_cons_inv in H9. destruct H9 as (t9 & nil9 & -> & Ht9 & Hnil). destruct nil9; [|discriminate].
    cbn [map app] in Hs. rewrite map_app in Hs. cbn [map] in Hs. rewrite <- app_assoc in Hs. cbn [app] in Hs.
    destruct (next_inner_cons s _ _ Hs) as (s1 & Hn1 & Hs1).
    destruct (peek_cons s1 _ _ Hs1) as (s2 & Hp & Hs2).
    assert (Hs2' : stream (snd (src_next s2)) = map inl tx ++ inl t9 :: rest) by (rewrite next_snd, Hs2; reflexivity).
    destruct (IH tx _ (inl t9 :: rest) Hx Hs2') as (f & s3 & Hf & Hs3); [cbn; rewrite Ht9; reflexivity|].
    destruct (expect_close_cons is_end_group s3 t9 rest Hs3) as (s4 & Hc & Hs4); [rewrite Ht9; reflexivity|].
    exists (S f), s4. split; [|exact Hs4].
    cbn [parse_unary]. rewrite Hn1. cbn [bind]. rewrite Ht0, Hp, Htp, Hf. cbn [bind]. rewrite Hc. reflexivity.
  - (* binary operator *)
    intros c op l r X Y Hc _ IHl _ IHr toks s rest Hm Hs. split; [|unfold op_prec in Hc; pose proof (rank_le_5 (group_of op)); lia].
    intros g es Hg Hok.
    apply map_app_inv in Hm. destruct Hm as (tx & t2 & -> & Hx & H2).
    apply map_cons_inv in H2. destruct H2 as (to & ty & -> & Hto & Hy).
    rewrite map_app in Hs. cbn [map] in Hs. rewrite <- app_assoc in Hs. cbn [app] in Hs.
    set (go := group_of op) in *.
    assert (Hgo : group_rank g <= group_rank go) by (unfold op_prec in Hc; fold go in Hc; lia).
    apply (descend_to (group_rank go - group_rank g) g go); [lia | exact Hok |].
    destruct (sym_decode op) as [Hdec Hnstop].
    (* the left operand, parsed at the operator's own group, continues into the loop at the operator *)
    destruct (IHl tx s (inl to :: map inl ty ++ rest) Hx Hs) as [HBl _].
    destruct (HBl go es) as (sl & Hsl & Hl); [unfold op_prec; fold go; lia | cbn; right; exists op; rewrite Hto; split; [exact Hdec | fold go; lia] |].
    destruct (peek_cons sl _ _ Hsl) as (sl1 & Hp & Hsl1).
    assert (Hs2 : stream (snd (src_next sl1)) = map inl ty ++ rest) by (rewrite next_snd, Hsl1; reflexivity).
    assert (Hokgo : head_ok go rest) by (eapply head_ok_le; [|exact Hok]; exact Hgo).
    (* the right operand *)
    assert (Hrhs : exists f2 sr, match group_higher go with Some part => parse_binary f2 part es (snd (src_next sl1))
                                                     | None => parse_unary f2 (snd (src_next sl1)) end = (Ok r, sr) /\ stream sr = rest).
    { destruct (IHr ty _ rest Hy Hs2) as [HBr HUr].
      pose proof (higher_rank go) as Hh. destruct (group_higher go) as [g'|].
      - destruct (HBr g' es) as (sr & Hsr & Hr); [unfold op_prec; fold go; lia | eapply head_ok_le; [|exact Hokgo]; lia |].
        destruct (loop_exit go g' es r sr rest Hsr Hokgo) as (sr2 & Hex & Hsr2); [lia|].
        destruct (Hr 1 _ Hex) as (f2 & Hf2); [auto|]. eauto.
      - destruct HUr as (f2 & sr & Hf2 & Hsr); [unfold op_prec; fold go; lia | eapply head_ok_nolp; exact Hokgo |]. eauto. }
    destruct Hrhs as (f2 & sr & Hf2 & Hsr).
    exists sr. split; [exact Hsr|]. intros k res Hk Hn.
    apply (Hl (S (Nat.max f2 k))); [|exact Hn].
    cbn [binary_loop]. rewrite Hp, Hto, Hnstop, Hdec. fold go. rewrite cmp_refl.
    destruct (group_higher go) as [g'|].
    + rewrite (mono_b f2 (Nat.max f2 k) g' es _ _ Hf2); [|auto|lia]. cbn [bind]. apply (mono_l k); auto; lia.
    + rewrite (mono_u f2 (Nat.max f2 k) _ _ Hf2); [|auto|lia]. cbn [bind]. apply (mono_l k); auto; lia.
  - (* empty list *)
    intros toks s rest Hm Hs Hcl. destruct toks; [|discriminate]. cbn in Hs.
    destruct rest as [|[tk|e] r]; cbn in Hcl; try contradiction.
    destruct (peek_cons s _ _ Hs) as (s1 & Hp & Hs1).
    exists 1, s1. split; [|exact Hs1]. cbn [parse_args]. rewrite Hp, Hcl. reflexivity.
  - (* non-empty list *)
    intros l X Hne IH toks s rest Hm Hs Hcl.
    destruct (rendne_head _ _ Hne) as (v & X' & -> & Hv). apply operand_not_end in Hv. destruct Hv as [Hv _].
    pose proof Hm as Hm0. apply map_cons_inv in Hm0. destruct Hm0 as (t0 & r0 & -> & Ht0 & _).
    cbn [map app] in Hs. destruct (peek_cons s _ _ Hs) as (s1 & Hp & Hs1).
    destruct (IH [] (t0 :: r0) s1 rest Hm Hs1 Hcl) as (f & s2 & Hf & Hs2).
    exists (S f), s2. split; [|exact Hs2]. cbn [parse_args]. rewrite Hp, Ht0, Hv. exact Hf.
  - (* one argument *)
    intros a X _ IH acc toks s rest Hm Hs Hcl.
    destruct rest as [|[tk|e] r]; cbn in Hcl; try contradiction.
    destruct (expr_start_any s) as (es & s1 & He & Hs1). rewrite Hs in Hs1.
    destruct (IH toks s1 (inl tk :: r) Hm Hs1) as [HB _].
    destruct (parse_to_stop a s1 tk r HB (stop_of_end _ Hcl) es) as (f & s2 & Hf & Hs2).
    destruct (peek_cons s2 _ _ Hs2) as (s3 & Hp & Hs3).
    exists (S f), s3. split; [|exact Hs3]. cbn [args_loop]. rewrite He, Hf. cbn [bind]. rewrite Hp.
    destruct (t_val tk); cbn in Hcl; try discriminate; reflexivity.
  - (* argument, separator, more *)
    intros a l X Y _ IHa _ IHl acc toks s rest Hm Hs Hcl.
    apply map_app_inv in Hm. destruct Hm as (tx & t2 & -> & Hx & H2).
    apply map_cons_inv in H2. destruct H2 as (tsep & ty & -> & Htsep & Hy).
    rewrite map_app in Hs. cbn [map] in Hs. rewrite <- app_assoc in Hs. cbn [app] in Hs.
    destruct (expr_start_any s) as (es & s1 & He & Hs1). rewrite Hs in Hs1.
    destruct (IHa tx s1 _ Hx Hs1) as [HB _].
    destruct (parse_to_stop a s1 tsep _ HB) with (es := es) as (f & s2 & Hf & Hs2); [rewrite Htsep; reflexivity|].
    destruct (peek_cons s2 _ _ Hs2) as (s3 & Hp & Hs3).
    assert (Hs4 : stream (snd (src_next s3)) = map inl ty ++ rest) by (rewrite next_snd, Hs3; reflexivity).
    destruct (IHl (acc ++ [a]) ty _ rest Hy Hs4 Hcl) as (f2 & s5 & Hf2 & Hs5).
    exists (S (Nat.max f f2)), s5. split; [|exact Hs5]. cbn [args_loop]. rewrite He.
    rewrite (mono_b f (Nat.max f f2) _ _ _ _ Hf); [|auto|lia]. cbn [bind]. rewrite Hp, Htsep.
    rewrite (mono_al f2 (Nat.max f f2) _ _ _ Hf2); [|auto|lia]. rewrite <- app_assoc. reflexivity.
Qed.

(* ---------------------------------------------------------------------------------------------- *)
(* 7. statements *)

Inductive RendStmt : element_value -> list token_value -> Prop :=
| RSt_label : forall n, RendStmt (ELabel n) [TIdentifier n; TLabelMark]
| RSt_dir : forall n a X, RendL a X -> RendStmt (EDirective n a) (TDirectiveMark :: TIdentifier n :: X ++ [TTerminator])
| RSt_ins : forall n a X, RendL a X -> RendStmt (EInstruction n a) (TIdentifier n :: X ++ [TTerminator]).

Inductive RendStmts : list element_value -> list token_value -> Prop :=
| RSts_nil : RendStmts [] []
| RSts_cons : forall e l X Y, RendStmt e X -> RendStmts l Y -> RendStmts (e :: l) (X ++ Y).

Lemma args_at_fuel : forall f F s a s', parse_args f s = (Ok a, s') -> 10 * length (stream s) + 9 <= F -> parse_args F s = (Ok a, s').
Proof.
  intros f F s a s' H HF.
  destruct (totality F) as (_ & _ & _ & IHa & _). specialize (IHa s (length (stream s)) (le_n _) HF).
  pose proof (mono_a f (Nat.max f F) s _ H (ok_not_oof _ a s')) as H1. specialize (H1 (Nat.le_max_l _ _)).
  destruct (fuel_mono F (Nat.max f F) (Nat.le_max_r _ _)) as (_ & _ & _ & M & _). specialize (M s).
  destruct M as [M|M]; [|rewrite M; exact H1].
  destruct (parse_args F s) as [[x|e| |] sx]; cbn in *; try discriminate; contradiction.
Qed.

Lemma rendl_args : forall a X toks s tterm rest F, RendL a X -> map t_val toks = X -> t_val tterm = TTerminator ->
  stream s = map inl toks ++ inl tterm :: rest -> 10 * length (stream s) + 9 <= F ->
  forall mk line col, exists s', finish_stmt mk line col (parse_args F s) = (Ok (mkElement line col (mk a)), s') /\ stream s' = rest.
Proof.
  intros a X toks s tterm rest F HR Hm Ht Hs HF mk line col.
  destruct climbing as (_ & HL & _).
  destruct (HL a X HR toks s (inl tterm :: rest) Hm Hs) as (f & s1 & Hf & Hs1); [cbn; rewrite Ht; reflexivity|].
  rewrite (args_at_fuel f F s a s1 Hf HF). unfold finish_stmt. cbn [bind].
  destruct (next_inner_cons s1 _ _ Hs1) as (s2 & Hn & Hs2). rewrite Hn. cbn [bind]. eauto.
Qed.

Lemma rendl_head : forall a X, RendL a X -> X = [] \/ exists v X', X = v :: X' /\ starts_operand v = true.
Proof. intros a X [|l X' H]; [left; auto | right; eapply rendne_head; eauto]. Qed.

Lemma stmt_step : forall e X toks s rest F, RendStmt e X -> map t_val toks = X -> stream s = map inl toks ++ rest ->
  10 * length (stream s) + 9 <= F ->
  exists tk toks' s', toks = tk :: toks' /\ parser_next F s = (PollItem (IOk (mkElement (t_line tk) (t_col tk) e)), s') /\ stream s' = rest.
Proof.
  intros e X toks s rest F HR Hm Hs HF. unfold parser_next. destruct HR as [n|n a X HL|n a X HL].
  - (* label *)
    apply map_cons_inv in Hm. destruct Hm as (t0 & r0 & -> & Ht0 & Hm).
    apply map_cons_inv in Hm. destruct Hm as (t1 & r1 & -> & Ht1 & Hm). destruct r1; [|discriminate].
    cbn [map app] in Hs. destruct (next_cons s _ _ Hs) as (s1 & Hn & Hs1). rewrite Hn.
    destruct (peek_cons s1 _ _ Hs1) as (s2 & Hp & Hs2).
    exists t0, [t1], (snd (src_next s2)). split; [reflexivity|]. split; [|rewrite next_snd, Hs2; reflexivity].
    unfold do_next. rewrite Ht0, Hp, Ht1. reflexivity.
  - (* directive *)
    apply map_cons_inv in Hm. destruct Hm as (t0 & r0 & -> & Ht0 & Hm).
    apply map_cons_inv in Hm. destruct Hm as (t1 & r1 & -> & Ht1 & Hm).
    apply map_app_inv in Hm. destruct Hm as (tx & t9s & -> & Hx & H9).
    apply map_cons_inv in H9. destruct H9 as (t9 & nil9 & -> & Ht9 & Hnil). destruct nil9; [|discriminate].
    cbn [map app] in Hs. rewrite map_app in Hs. cbn [map] in Hs. rewrite <- app_assoc in Hs. cbn [app] in Hs.
    destruct (next_cons s _ _ Hs) as (s1 & Hn & Hs1). rewrite Hn.
    destruct (next_cons s1 _ _ Hs1) as (s2 & Hn2 & Hs2).
    assert (HF2 : 10 * length (stream s2) + 9 <= F) by (rewrite Hs2; rewrite Hs in HF; cbn [length] in HF; lia).
    destruct (rendl_args a X tx s2 t9 rest F HL Hx Ht9 Hs2 HF2 (EDirective n) (t_line t0) (t_col t0)) as (s3 & Hfin & Hs3).
    exists t0, (t1 :: tx ++ [t9]), s3. split; [reflexivity|]. split; [|exact Hs3].
    unfold do_next. rewrite Ht0, Hn2, Ht1, Hfin. reflexivity.
  - (* instruction *)
    apply map_cons_inv in Hm. destruct Hm as (t0 & r0 & -> & Ht0 & Hm).
    apply map_app_inv in Hm. destruct Hm as (tx & t9s & -> & Hx & H9).
    apply map_cons_inv in H9. destruct H9 as (t9 & nil9 & -> & Ht9 & Hnil). destruct nil9; [|discriminate].
    cbn [map app] in Hs. rewrite map_app in Hs. cbn [map] in Hs. rewrite <- app_assoc in Hs. cbn [app] in Hs.
    destruct (next_cons s _ _ Hs) as (s1 & Hn & Hs1). rewrite Hn.
    assert (HF1 : 10 * length (stream s1) + 9 <= F) by (rewrite Hs1; rewrite Hs in HF; cbn [length] in HF; lia).
    (* the token after the name is not `:` *)
    assert (Hhd : exists th rh, map inl tx ++ inl t9 :: rest = inl th :: rh /\ t_val th <> TLabelMark).
    { destruct (rendl_head a X HL) as [->|(v & X' & -> & Hv)].
      - destruct tx; [|discriminate]. cbn. exists t9, rest. split; auto. rewrite Ht9. discriminate.
      - apply map_cons_inv in Hx. destruct Hx as (th & rh & -> & Hth & _). cbn. exists th, (map inl rh ++ inl t9 :: rest). split; auto.
        rewrite Hth. apply operand_not_end in Hv. tauto. }
    destruct Hhd as (th & rh & Hhd & Hnl).
    assert (Hs1' : stream s1 = inl th :: rh) by (etransitivity; [exact Hs1 | exact Hhd]).
    destruct (peek_cons s1 _ _ Hs1') as (s2 & Hp & Hs2').
    assert (Hs2 : stream s2 = map inl tx ++ inl t9 :: rest) by (etransitivity; [exact Hs2' | symmetry; exact Hhd]).
    assert (HF2 : 10 * length (stream s2) + 9 <= F) by (rewrite Hs2, <- Hs1; exact HF1).
    destruct (rendl_args a X tx s2 t9 rest F HL Hx Ht9 Hs2 HF2 (EInstruction n) (t_line t0) (t_col t0)) as (s3 & Hfin & Hs3).
    exists t0, (tx ++ [t9]), s3. split; [reflexivity|]. split; [|exact Hs3].
    unfold do_next. rewrite Ht0, Hp. destruct (t_val th); try congruence; rewrite Hfin; reflexivity.
Qed.

Lemma rendstmt_len : forall e X, RendStmt e X -> 1 <= length X.
Proof. intros e X []; cbn; lia. Qed.

Lemma run_stmts : forall stmts X, RendStmts stmts X -> forall toks n F acc s, map t_val toks = X -> stream s = map inl toks ->
  length stmts < n -> 10 * length (stream s) + 9 <= F ->
  exists els, iterate n F acc s = Done (acc ++ map IOk els) [PollNone; PollNone; PollNone] /\ map e_val els = stmts.
Proof.
  induction 1 as [|e l X Y He Hl IH]; intros toks n F acc s Hm Hs Hn HF.
  - destruct toks; [|discriminate]. cbn in Hs. destruct n; [lia|]. cbn [iterate].
    pose proof (parser_next_spec F s HF) as Hp. rewrite Hs in Hp.
    destruct (parser_next F s) as [p s1]. destruct p as [|[x|x]| |]; cbn in Hp; try contradiction.
    + destruct Hp as [_ H1]. exists []. rewrite (poll_more_end 3 F s1 H1), app_nil_r. auto.
    + destruct Hp as (tk & tt & H & _). discriminate.
    + destruct Hp as [H _]. exfalso. apply H. reflexivity.
  - apply map_app_inv in Hm. destruct Hm as (tx & ty & -> & Hx & Hy). rewrite map_app in Hs.
    destruct (stmt_step e X tx s (map inl ty) F He Hx Hs HF) as (tk & toks' & s1 & Htx & Hpn & Hs1).
    destruct n; [lia|]. cbn [iterate]. rewrite Hpn.
    destruct (IH ty n F (acc ++ [IOk (mkElement (t_line tk) (t_col tk) e)]) s1 Hy Hs1) as (els & Hi & Hv); [cbn in Hn; lia | |].
    { rewrite Hs1. rewrite Hs, app_length in HF. rewrite !map_length in *. lia. }
    exists (mkElement (t_line tk) (t_col tk) e :: els). rewrite Hi, <- app_assoc. cbn. rewrite Hv. auto.
Qed.

Lemma rendstmts_len : forall stmts X, RendStmts stmts X -> length stmts <= length X.
Proof. induction 1; cbn; [lia|]. rewrite app_length. pose proof (rendstmt_len _ _ H). lia. Qed.

Theorem statements_roundtrip : forall stmts X toks l c, RendStmts stmts X -> map t_val toks = X ->
  exists els, parse_all (src_of (map inl toks) l c) = Done (map IOk els) [PollNone; PollNone; PollNone] /\ map e_val els = stmts.
Proof.
  intros stmts X toks l c HR Hm. unfold parse_all, default_fuel. rewrite stream_src_of.
  pose proof (rendstmts_len _ _ HR) as Hlen. rewrite <- Hm, !map_length in Hlen. rewrite !map_length.
  destruct (run_stmts stmts X HR toks (length toks + 2) (10 * length toks + 20) [] (src_of (map inl toks) l c) Hm) as (els & H & Hv);
    [reflexivity | lia | rewrite stream_src_of, map_length; lia |].
  exists els. auto.
Qed.

(* ---------------------------------------------------------------------------------------------- *)
(* 8. the executable renderers of Render.v produce valid renderings *)

Lemma arg_ind2 : forall P : arg -> Prop,
  (forall v, P (AConst v)) -> (forall s, P (AIdent s)) -> (forall s, P (AStr s)) ->
  (forall l r, P l -> P r -> P (AAdd l r)) -> (forall a, P a -> P (ANeg a)) -> (forall l r, P l -> P r -> P (ASub l r)) ->
  (forall l r, P l -> P r -> P (AMul l r)) -> (forall l r, P l -> P r -> P (ADiv l r)) -> (forall l r, P l -> P r -> P (AMod l r)) ->
  (forall a, P a -> P (ANot a)) -> (forall l r, P l -> P r -> P (AAnd l r)) -> (forall l r, P l -> P r -> P (AOr l r)) ->
  (forall l r, P l -> P r -> P (AXor l r)) -> (forall l r, P l -> P r -> P (AShl l r)) -> (forall l r, P l -> P r -> P (AShr l r)) ->
  (forall a, P a -> P (AAddr a)) -> (forall l, Forall P l -> P (ASeq l)) -> (forall n l, Forall P l -> P (AFun n l)) ->
  forall t, P t.
Proof.
  intros P H1 H2 H3 H4 H5 H6 H7 H8 H9 H10 H11 H12 H13 H14 H15 H16 H17 H18.
  fix IH 1. intros t. destruct t.
  - apply H1. - apply H2. - apply H3. - apply H4; apply IH. - apply H5; apply IH. - apply H6; apply IH.
  - apply H7; apply IH. - apply H8; apply IH. - apply H9; apply IH. - apply H10; apply IH. - apply H11; apply IH.
  - apply H12; apply IH. - apply H13; apply IH. - apply H14; apply IH. - apply H15; apply IH. - apply H16; apply IH.
  - apply H17. exact ((fix IHl (l : list arg) : Forall P l := match l with [] => Forall_nil _ | a :: l' => Forall_cons _ (IH a) (IHl l') end) items).
  - apply H18. exact ((fix IHl (l : list arg) : Forall P l := match l with [] => Forall_nil _ | a :: l' => Forall_cons _ (IH a) (IHl l') end) args).
Qed.

(* the inner list loop of `render` is render_list *)
Lemma render_list_ne : forall l first, Forall (fun t => forall c, Rend c t (render c t)) l -> l <> [] ->
  RendNE l (render_list l true) /\ (first = false -> RendNE l (tl (render_list l false))).
Proof.
  induction l as [|a l IH]; intros first HF Hne; [congruence|].
  inversion HF as [|? ? Ha Hl]; subst. cbn [render_list app].
  destruct l as [|b l'].
  - cbn. rewrite app_nil_r. split; [|intros _]; constructor; apply Ha.
  - destruct (IH false Hl) as [_ IH2]; [discriminate|]. specialize (IH2 eq_refl).
    assert (E : render_list (b :: l') false = TSeparator :: tl (render_list (b :: l') false)) by reflexivity.
    rewrite E. split; [|intros _]; constructor; auto.
Qed.

Lemma render_list_rendl : forall l, Forall (fun t => forall c, Rend c t (render c t)) l -> RendL l (render_list l true).
Proof.
  intros [|a l] HF; [constructor|]. apply RL_ne. destruct (render_list_ne (a :: l) true HF) as [H _]; [discriminate | exact H].
Qed.

Lemma render_body : forall c t body, (forall c', c' <= prec t -> Rend c' t body) ->
  Rend c t (if Nat.ltb (prec t) c then paren body else body).
Proof.
  intros c t body H. destruct (Nat.ltb (prec t) c) eqn:E.
  - apply R_paren. apply H. lia.
  - apply H. apply Nat.ltb_ge in E. exact E.
Qed.

Lemma render_seq_eq : forall c l, render c (ASeq l) =
  if Nat.ltb (prec (ASeq l)) c then paren (TBeginSeq :: render_list l true ++ [TEndSeq]) else TBeginSeq :: render_list l true ++ [TEndSeq].
Proof.
  intros c l. cbn [render].
  assert (E : forall l first, (fix rl (l : list arg) (first : bool) : list token_value :=
                      match l with
                      | [] => []
                      | a :: l' => (if first then [] else [TSeparator]) ++ render 0 a ++ rl l' false
                      end) l first = render_list l first).
  { induction l0 as [|a l0 IH]; intros first; [reflexivity|]. cbn [render_list]. rewrite IH. reflexivity. }
  rewrite E. reflexivity.
Qed.

Lemma render_fun_eq : forall c n l, render c (AFun n l) =
  if Nat.ltb (prec (AFun n l)) c then paren (TIdentifier n :: TBeginGroup :: render_list l true ++ [TEndGroup])
  else TIdentifier n :: TBeginGroup :: render_list l true ++ [TEndGroup].
Proof.
  intros c n l. cbn [render].
  assert (E : forall l first, (fix rl (l : list arg) (first : bool) : list token_value :=
                      match l with
                      | [] => []
                      | a :: l' => (if first then [] else [TSeparator]) ++ render 0 a ++ rl l' false
                      end) l first = render_list l first).
  { induction l0 as [|a l0 IH]; intros first; [reflexivity|]. cbn [render_list]. rewrite IH. reflexivity. }
  rewrite E. reflexivity.
Qed.

Lemma render_rend : forall t c, Rend c t (render c t).
Proof.
  induction t using arg_ind2; intros c.
  all: try (cbn [render]; apply render_body; intros c' Hc'; cbn [prec] in Hc'; fail).
  1-16: cbn [render]; apply render_body; intros c' Hc'; cbn [prec] in Hc'.
  - constructor. - constructor. - constructor.
  - apply (R_bin c' OpAdd); [exact Hc' | apply IHt1 | apply IHt2].
  - constructor. apply IHt.
  - apply (R_bin c' OpSubtract); [exact Hc' | apply IHt1 | apply IHt2].
  - apply (R_bin c' OpMultiply); [exact Hc' | apply IHt1 | apply IHt2].
  - apply (R_bin c' OpDivide); [exact Hc' | apply IHt1 | apply IHt2].
  - apply (R_bin c' OpModulo); [exact Hc' | apply IHt1 | apply IHt2].
  - constructor. apply IHt.
  - apply (R_bin c' OpBitAnd); [exact Hc' | apply IHt1 | apply IHt2].
  - apply (R_bin c' OpBitOr); [exact Hc' | apply IHt1 | apply IHt2].
  - apply (R_bin c' OpBitXor); [exact Hc' | apply IHt1 | apply IHt2].
  - apply (R_bin c' OpLeftShift); [exact Hc' | apply IHt1 | apply IHt2].
  - apply (R_bin c' OpRightShift); [exact Hc' | apply IHt1 | apply IHt2].
  - constructor. apply IHt.
  - rewrite render_seq_eq. apply render_body. intros c' _. constructor. apply render_list_rendl. exact H.
  - rewrite render_fun_eq. apply render_body. intros c' _. constructor. apply render_list_rendl. exact H.
Qed.

Lemma render_stmt_rend : forall e, RendStmt e (render_stmt e).
Proof.
  intros [n|n a|n a]; cbn [render_stmt]; constructor; apply render_list_rendl; apply Forall_forall; intros; apply render_rend.
Qed.

Lemma render_stmts_rend : forall l, RendStmts l (render_stmts l).
Proof.
  unfold render_stmts. induction l as [|e l IH]; cbn [map concat]; constructor; [apply render_stmt_rend | exact IH].
Qed.

(* ---------------------------------------------------------------------------------------------- *)
(* 9. the C09 statements *)

(* what may follow when parse_binary g is to return exactly the tree: nothing, a stop token, or an operator of a LOWER group *)
Definition head_lt (g : binop_group) (rest : list tok_item) : Prop :=
  match rest with
  | [] => True
  | inl t :: _ => is_op_stop (t_val t) = true \/ exists op, binop_decode (t_val t) = Some op /\ group_rank (group_of op) < group_rank g
  | inr _ :: _ => False
  end.

Lemma head_lt_ok : forall g rest, head_lt g rest -> head_ok g rest.
Proof. intros g [|[t|e] r]; cbn; auto. intros [H|(op & H & Hr)]; [left; auto | right; exists op; split; auto; lia]. Qed.

Lemma loop_exit_lt : forall g es t s rest, stream s = rest -> head_lt g rest ->
  exists s2, binary_loop 1 g es t s = (Ok t, s2) /\ stream s2 = rest.
Proof.
  intros g es t s rest Hs Hok. cbn [binary_loop].
  destruct rest as [|[tk|e] r]; cbn in Hok.
  - destruct (peek_nil s Hs) as (s1 & Hp & Hs1). rewrite Hp. eauto.
  - destruct (peek_cons s _ _ Hs) as (s1 & Hp & Hs1). rewrite Hp.
    destruct Hok as [Hstop|(op & Hd & Hr)].
    + rewrite Hstop. eauto.
    + destruct (is_op_stop (t_val tk)); [eauto|]. rewrite Hd.
      pose proof (group_cmp_spec (group_of op) g) as Hc. destruct (group_cmp (group_of op) g); [subst; lia | eauto | lia].
  - contradiction.
Qed.

(* the classic precedence-climbing invariant, for every valid rendering X of t at context c *)
Lemma climbing_direct : forall c t X g es toks s rest, Rend c t X -> map t_val toks = X -> stream s = map inl toks ++ rest ->
  group_rank g <= c - 1 -> head_lt g rest ->
  exists f s', parse_binary f g es s = (Ok t, s') /\ stream s' = rest.
Proof.
  intros c t X g es toks s rest HR Hm Hs Hg Hlt.
  destruct climbing as (HC & _ & _). destruct (HC c t X HR toks s rest Hm Hs) as [HB _].
  destruct (HB g es Hg (head_lt_ok _ _ Hlt)) as (s1 & Hs1 & H1).
  destruct (loop_exit_lt g es t s1 rest Hs1 Hlt) as (s2 & Hl & Hs2).
  destruct (H1 1 _ Hl) as (f & Hf); [auto|]. eauto.
Qed.

Lemma climbing_render : forall c t g es toks s rest, map t_val toks = render c t -> stream s = map inl toks ++ rest ->
  group_rank g <= c - 1 -> head_lt g rest ->
  exists f s', parse_binary f g es s = (Ok t, s') /\ stream s' = rest.
Proof. intros. eapply climbing_direct; eauto. apply render_rend. Qed.

Lemma single_element : forall els ev, map e_val els = [ev] -> exists line col, els = [mkElement line col ev].
Proof.
  intros [|[l c v] [|? ?]] ev H; try discriminate. cbn in H. inversion H. subst. eauto.
Qed.

(* any valid rendering (required parentheses + any redundant ones) of a tree as the argument of an instruction / directive *)
Lemma arg_roundtrip_rend : forall t X name toks l c (directive : bool), Rend 0 t X ->
  map t_val toks = (if directive then [TDirectiveMark] else []) ++ TIdentifier name :: X ++ [TTerminator] ->
  exists line col, parse_all (src_of (map inl toks) l c)
    = Done [IOk (mkElement line col (if directive then EDirective name [t] else EInstruction name [t]))] [PollNone; PollNone; PollNone].
Proof.
  intros t X name toks l c directive HR Hm.
  assert (HL : RendL [t] X) by (apply RL_ne; constructor; exact HR).
  assert (HS : RendStmts [if directive then EDirective name [t] else EInstruction name [t]]
                         (((if directive then [TDirectiveMark] else []) ++ TIdentifier name :: X ++ [TTerminator]) ++ [])).
  { constructor; [|constructor]. destruct directive; cbn [app]; constructor; exact HL. }
  rewrite app_nil_r in HS.
  destruct (statements_roundtrip _ _ toks l c HS Hm) as (els & H & Hv).
  destruct (single_element _ _ Hv) as (line & col & ->). exists line, col. exact H.
Qed.

Lemma roundtrip : forall t name toks l c, map t_val toks = render_stmt (EInstruction name [t]) ->
  exists line col, parse_all (src_of (map inl toks) l c) = Done [IOk (mkElement line col (EInstruction name [t]))] [PollNone; PollNone; PollNone].
Proof.
  intros t name toks l c Hm. apply (arg_roundtrip_rend t (render 0 t) name toks l c false (render_rend t 0)).
  rewrite Hm. cbn [render_stmt render_list app]. rewrite app_nil_r. reflexivity.
Qed.

Lemma roundtrip_directive : forall t name toks l c, map t_val toks = render_stmt (EDirective name [t]) ->
  exists line col, parse_all (src_of (map inl toks) l c) = Done [IOk (mkElement line col (EDirective name [t]))] [PollNone; PollNone; PollNone].
Proof.
  intros t name toks l c Hm. apply (arg_roundtrip_rend t (render 0 t) name toks l c true (render_rend t 0)).
  rewrite Hm. cbn [render_stmt render_list app]. rewrite app_nil_r. reflexivity.
Qed.

Lemma statements_render_roundtrip : forall stmts toks l c, map t_val toks = render_stmts stmts ->
  exists els, parse_all (src_of (map inl toks) l c) = Done (map IOk els) [PollNone; PollNone; PollNone] /\ map e_val els = stmts.
Proof. intros. eapply statements_roundtrip; eauto. apply render_stmts_rend. Qed.

(* ---------------------------------------------------------------------------------------------- *)
(* 10. the renderer with redundant parentheses (Render.render_x) also produces valid renderings *)

Lemma wrap_rend : forall n c t body, Rend 0 t body -> Rend c t (wrap (S n) body).
Proof. induction n as [|n IH]; intros c t body H; cbn [wrap]; apply R_paren; [exact H | apply (IH 0); exact H]. Qed.

Lemma final_rend : forall n c t body, (forall c', c' <= prec t -> Rend c' t body) ->
  Rend c t (match n with O => if Nat.ltb (prec t) c then paren body else body | S _ => wrap n body end).
Proof. intros [|n] c t body H; [apply render_body; exact H | apply wrap_rend; apply H; lia]. Qed.

Lemma render_list_x_ne : forall l, Forall (fun t => forall c bits, Rend c t (fst (render_x c t bits))) l -> l <> [] -> forall bits,
  RendNE l (fst (render_list_x l true bits)) /\ RendNE l (tl (fst (render_list_x l false bits))).
Proof.
  induction l as [|a l IH]; intros HF Hne bits; [congruence|].
  inversion HF as [|? ? Ha Hl]; subst. cbn [render_list_x].
  pose proof (Ha 0 bits) as Ha0. destruct (render_x 0 a bits) as [ta b1]. cbn [fst] in Ha0.
  destruct l as [|b l'].
  - cbn. rewrite app_nil_r. split; constructor; exact Ha0.
  - destruct (IH Hl) with (bits := b1) as [_ IH2]; [discriminate|].
    destruct (render_list_x (b :: l') false b1) as [tr b2] eqn:E. cbn [fst app tl] in *.
    assert (Etr : tr = TSeparator :: tl tr).
    { cbn [render_list_x] in E. destruct (render_x 0 b b1) as [tb bb]. destruct (render_list_x l' false bb). inversion E. reflexivity. }
    rewrite Etr. split; constructor; auto.
Qed.

Lemma render_list_x_rendl : forall l bits, Forall (fun t => forall c bits, Rend c t (fst (render_x c t bits))) l -> RendL l (fst (render_list_x l true bits)).
Proof.
  intros [|a l] bits HF; [constructor|]. apply RL_ne. destruct (render_list_x_ne (a :: l) HF) with (bits := bits) as [H _]; [discriminate | exact H].
Qed.

Lemma render_x_list_eq : forall l first b,
  (fix rl (l : list arg) (first : bool) (b : list bool) : list token_value * list bool :=
     match l with
     | [] => ([], b)
     | a :: l' => let (ta, b1) := render_x 0 a b in let (tr, b2) := rl l' false b1 in
                  ((if first then [] else [TSeparator]) ++ ta ++ tr, b2)
     end) l first b = render_list_x l first b.
Proof. induction l as [|a l IH]; intros first b; [reflexivity|]. cbn [render_list_x]. destruct (render_x 0 a b). rewrite IH. reflexivity. Qed.

Ltac binx OP IHt1 IHt2 P :=
  match goal with |- context [pop_wraps ?bits] => destruct (pop_wraps bits) as [? ?] end;
  match goal with |- context [render_x ?p ?t1 ?bb] =>
    let H1 := fresh "H1" in pose proof (IHt1 p bb) as H1; destruct (render_x p t1 bb) as [? ?] end;
  match goal with |- context [render_x ?q ?t2 ?bb] =>
    let H2 := fresh "H2" in pose proof (IHt2 q bb) as H2; destruct (render_x q t2 bb) as [? ?] end;
  cbn [fst] in *; apply final_rend; intros ? ?; cbn [prec] in *; eapply (R_bin _ OP); eauto.

Lemma render_x_rend : forall t c bits, Rend c t (fst (render_x c t bits)).
Proof.
  induction t using arg_ind2; intros c bits; cbn [render_x].
  - destruct (pop_wraps bits) as [n b0]. cbn [fst]. apply final_rend. intros; constructor.
  - destruct (pop_wraps bits) as [n b0]. cbn [fst]. apply final_rend. intros; constructor.
  - destruct (pop_wraps bits) as [n b0]. cbn [fst]. apply final_rend. intros; constructor.
  - binx OpAdd IHt1 IHt2 5.
  - destruct (pop_wraps bits) as [n b0]. pose proof (IHt 7 b0) as H1. destruct (render_x 7 t b0) as [ta b1]. cbn [fst snd] in *.
    apply final_rend. intros; constructor; auto.
  - binx OpSubtract IHt1 IHt2 5.
  - binx OpMultiply IHt1 IHt2 5.
  - binx OpDivide IHt1 IHt2 5.
  - binx OpModulo IHt1 IHt2 5.
  - destruct (pop_wraps bits) as [n b0]. pose proof (IHt 7 b0) as H1. destruct (render_x 7 t b0) as [ta b1]. cbn [fst snd] in *.
    apply final_rend. intros; constructor; auto.
  - binx OpBitAnd IHt1 IHt2 5.
  - binx OpBitOr IHt1 IHt2 5.
  - binx OpBitXor IHt1 IHt2 5.
  - binx OpLeftShift IHt1 IHt2 5.
  - binx OpRightShift IHt1 IHt2 5.
  - destruct (pop_wraps bits) as [n b0]. pose proof (IHt 0 b0) as H1. destruct (render_x 0 t b0) as [ta b1]. cbn [fst snd] in *.
    apply final_rend. intros; constructor; auto.
  - destruct (pop_wraps bits) as [n b0]. rewrite render_x_list_eq.
    pose proof (render_list_x_rendl l b0 H) as HL. destruct (render_list_x l true b0) as [tl b1]. cbn [fst] in *.
    apply final_rend. intros; constructor; auto.
  - destruct (pop_wraps bits) as [n0 b0]. rewrite render_x_list_eq.
    pose proof (render_list_x_rendl l b0 H) as HL. destruct (render_list_x l true b0) as [tl b1]. cbn [fst] in *.
    apply final_rend. intros; constructor; auto.
Qed.

Lemma render_stmt_x_rend : forall e b, RendStmt e (fst (render_stmt_x e b)).
Proof.
  intros [n|n a|n a] b; cbn [render_stmt_x]; [constructor| |].
  - pose proof (render_list_x_rendl a b) as HL. destruct (render_list_x a true b). cbn [fst] in *. constructor. apply HL. apply Forall_forall. intros; apply render_x_rend.
  - pose proof (render_list_x_rendl a b) as HL. destruct (render_list_x a true b). cbn [fst] in *. constructor. apply HL. apply Forall_forall. intros; apply render_x_rend.
Qed.

Lemma render_stmts_x_rend : forall l b, RendStmts l (render_stmts_x l b).
Proof.
  induction l as [|e l IH]; intros b; cbn [render_stmts_x]; [constructor|].
  pose proof (render_stmt_x_rend e b) as He. destruct (render_stmt_x e b) as [te b1]. cbn [fst] in He. constructor; [exact He | apply IH].
Qed.

Lemma parens_roundtrip : forall t bits name toks l c, map t_val toks = TIdentifier name :: render_with_extra_parens t bits ++ [TTerminator] ->
  exists line col, parse_all (src_of (map inl toks) l c) = Done [IOk (mkElement line col (EInstruction name [t]))] [PollNone; PollNone; PollNone].
Proof.
  intros t bits name toks l c Hm.
  apply (arg_roundtrip_rend t (render_with_extra_parens t bits) name toks l c false (render_x_rend t 0 bits)). exact Hm.
Qed.

Lemma statements_parens_roundtrip : forall stmts bits toks l c, map t_val toks = render_stmts_x stmts bits ->
  exists els, parse_all (src_of (map inl toks) l c) = Done (map IOk els) [PollNone; PollNone; PollNone] /\ map e_val els = stmts.
Proof. intros. eapply statements_roundtrip; eauto. apply render_stmts_x_rend. Qed.
