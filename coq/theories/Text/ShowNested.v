(* Oracle for the text level of C09, separators with NESTED block comments (extends ShowSpec.separator, which allows only
   flat block comments).  README / tokenizer: a block comment runs from its opener slash-star to the MATCHING closer star-slash;
   openers and closers inside it must be well bracketed.  The text between an opener and its closer is read from left to right:
   at each place either two bytes form an opener (a nested comment starts: it must be followed by ITS content and closer), or
   they form a closer (impossible inside the content: it would be the matching closer), or one byte is passed over.  Hence a
   byte of the content is "plain" only if it does not form a marker with the byte that follows it in the text (the next byte of
   the content, or the star of the closer): e.g. the content may not end in a slash (slash-star-slash is an opener followed by
   a slash, not a comment), and in  slash-star-slash x star-slash  the content is "slash x".
   `comment_body d body`: body is the content of a block comment whose nested comments are at most d levels deep (d = 0: flat).
   `nseparator`: white space, line comments, block comments with content `comment_body d`, where the comment itself and the d
   levels inside stay below 2^64: the scanner of trion counts the open comments in a usize (src/text/token/mod.rs, `depth`; an inferred i32 before fix ac45016),
   d + 1 is the largest value the counter takes.
   Independent of the tokenizer model.  No proofs here. *)
From Coq Require Import ZArith NArith List Bool.
From Trion Require Import Base.Utf8 Text.Types Text.LitSpec Text.Render Text.ShowSpec.
Import ListNotations.
Open Scope N_scope.

(* slash-star or star-slash *)
Definition marker (a b : N) : bool := ((a =? 47) && (b =? 42)) || ((a =? 42) && (b =? 47)).
Definition first_or (l : str) (d : N) : N := match l with [] => d | x :: _ => x end.

Inductive comment_body : nat -> str -> Prop :=
| CB_nil d : comment_body d []
| CB_byte d b r : marker b (first_or r 42) = false -> comment_body d r -> comment_body d (b :: r)
| CB_nest d inner r : comment_body d inner -> comment_body (S d) r ->
    comment_body (S d) ([47; 42] ++ inner ++ [42; 47] ++ r).

(* the comment itself is level 1, its content has at most d more levels: the counter stays <= d + 1 <= 2^64 - 1 *)
Definition depth_ok (d : nat) : Prop := N.of_nat d + 1 < 2 ^ 64.

Inductive nseparator : str -> Prop :=
| NSep_ws ws : white ws -> nseparator ws
| NSep_line ws body s : white ws -> Forall (fun b => b <> 10) body -> Valid body -> nseparator s ->
    nseparator (ws ++ [47; 47] ++ body ++ [10] ++ s)
| NSep_block ws d body s : white ws -> comment_body d body -> depth_ok d -> Valid body -> nseparator s ->
    nseparator (ws ++ [47; 42] ++ body ++ [42; 47] ++ s).

(* after the last token the text may also end inside a line comment (no line feed) *)
Inductive nend_separator : str -> Prop :=
| NESep s : nseparator s -> nend_separator s
| NESep_eof ws body : white ws -> Forall (fun b => b <> 10) body -> Valid body -> nend_separator (ws ++ [47; 47] ++ body)
| NESep_line ws body s : white ws -> Forall (fun b => b <> 10) body -> Valid body -> nend_separator s ->
    nend_separator (ws ++ [47; 47] ++ body ++ [10] ++ s)
| NESep_block ws d body s : white ws -> comment_body d body -> depth_ok d -> Valid body -> nend_separator s ->
    nend_separator (ws ++ [47; 42] ++ body ++ [42; 47] ++ s).

(* as ShowSpec.seps_ok / wseps_ok, with the larger separator language *)
Fixpoint nseps_ok (ts : list token_value) (seps : list str) : Prop :=
  match ts with
  | [] => nend_separator (hd [] seps)
  | v :: r => nseparator (hd [] seps) /\ follow_ok v (show r (tl seps)) /\ nseps_ok r (tl seps)
  end.

Fixpoint nwseps_ok (ws : list wtok) (seps : list str) : Prop :=
  match ws with
  | [] => nend_separator (hd [] seps)
  | w :: r => nseparator (hd [] seps) /\ wfollow_ok w (showw r (tl seps)) /\ nwseps_ok r (tl seps)
  end.
