(* C09 at the level of characters with NESTED block comments as separators (ShowNested.nseparator): the block comment scanner of
   the tokenizer model (TokenModel.block_go: position, `start`, usize depth counter) passes over the content of a well-bracketed
   comment and comes back with the same depth (block_go_body), so the comment step consumes exactly the comment (skips_nblock);
   the rest follows ShowProofs.v. *)
From Coq Require Import ZArith NArith List Bool Arith Lia ZifyBool ZifyNat ZifyN.
From Trion Require Import Base.Sweep Base.Utf8 Text.Types Text.TokenModel Text.PosSpec Text.LitSpec
  Text.TokenLemmas Text.TokenNext Text.TokenProofs Text.TokenLit Text.Render Text.LexRun Text.ShowSpec Text.ShowNested.
Import ListNotations.
Open Scope N_scope.

Arguments pos_of : simpl never.
Arguments upd : simpl never.
Arguments sat_add32 : simpl never.
Arguments N.add : simpl never.
Arguments N.min : simpl never.

(* ================================================================ the scanner over a well-bracketed content *)
Lemma block_go_cons b nx rest p start depth :
  block_go (b :: nx :: rest) p start depth =
  let '(start', depth') :=
    if (b =? 47) && (start <=? p)%nat && (nx =? 42) then (p + 2, wrap_usize (depth + 1))%nat
    else if (b =? 42) && (start <=? p)%nat && (nx =? 47) then (p + 2, wrap_usize (depth - 1))%nat
    else (start, depth) in
  if (depth' =? 0)%Z then Some (p - 2)%nat else block_go (nx :: rest) (S p) start' depth'.
Proof. reflexivity. Qed.

Lemma wrap_usize_small z : (0 <= z < 18446744073709551616)%Z -> wrap_usize z = z.
Proof. intros H. unfold wrap_usize. rewrite Z.mod_small by lia. lia. Qed.

(* a byte that opens nothing: passed over *)
Lemma block_go_pass b nx rest p start depth : depth <> 0%Z ->
  (b =? 47) && (start <=? p)%nat && (nx =? 42) = false -> (b =? 42) && (start <=? p)%nat && (nx =? 47) = false ->
  block_go (b :: nx :: rest) p start depth = block_go (nx :: rest) (S p) start depth.
Proof. intros Hd C1 C2. rewrite block_go_cons, C1, C2. replace (depth =? 0)%Z with false by lia. reflexivity. Qed.

Lemma first_or_app r T : exists t, r ++ 42 :: 47 :: T = first_or r 42 :: t.
Proof. destruct r as [|x r']; eexists; reflexivity. Qed.

Lemma comment_body_mono d body : comment_body d body -> comment_body (S d) body.
Proof.
  induction 1 as [d|d b r M _ IH|d inner r _ IHi _ IHr].
  - constructor.
  - now constructor.
  - now constructor.
Qed.

Lemma block_go_body : forall d body, comment_body d body -> forall p start depth T,
  (start <= p)%nat -> (1 <= depth)%Z -> (depth + Z.of_nat d <= 18446744073709551615)%Z ->
  exists start', (start' <= p + length body)%nat /\
    block_go (body ++ 42 :: 47 :: T) p start depth = block_go (42 :: 47 :: T) (p + length body) start' depth.
Proof.
  induction 1 as [d|d b r M _ IH|d inner r _ IHi _ IHr]; intros p start depth T Hs Hd Hb.
  - exists start. cbn [length app]. rewrite Nat.add_0_r. split; [exact Hs|reflexivity].
  - destruct (first_or_app r T) as [t Et]. cbn [app]. rewrite Et.
    unfold marker in M.
    rewrite block_go_pass by lia. rewrite <- Et.
    destruct (IH (S p) start depth T) as [s' [Ls E]]; [lia|exact Hd|exact Hb|].
    exists s'. cbn [length]. split; [lia|]. rewrite E. f_equal. lia.
  - cbn [app]. rewrite <- !app_assoc. cbn [app].
    (* the opener *)
    rewrite block_go_cons.
    replace ((47 =? 47) && (start <=? p)%nat && (42 =? 42)) with true by (symmetry; apply andb_true_intro; split; [apply andb_true_intro; split; [reflexivity|now apply Nat.leb_le]|reflexivity]).
    rewrite wrap_usize_small by lia. cbv iota beta.
    replace (depth + 1 =? 0)%Z with false by lia.
    (* its star lies before `start` *)
    destruct (first_or_app inner (r ++ 42 :: 47 :: T)) as [t Et]. rewrite Et.
    rewrite block_go_pass; [|lia| |].
    2,3: replace (p + 2 <=? S p)%nat with false by (symmetry; apply Nat.leb_gt; lia); now rewrite !andb_false_r.
    rewrite <- Et.
    destruct (IHi (S (S p)) (p + 2)%nat (depth + 1)%Z (r ++ 42 :: 47 :: T)) as [s1 [L1 E1]]; [lia|lia|lia|].
    rewrite E1.
    (* the closer of the nested comment *)
    rewrite block_go_cons.
    replace ((42 =? 47) && (s1 <=? S (S p) + length inner)%nat && (47 =? 42)) with false by reflexivity.
    replace ((42 =? 42) && (s1 <=? S (S p) + length inner)%nat && (47 =? 47)) with true
      by (symmetry; apply andb_true_intro; split; [apply andb_true_intro; split; [reflexivity|now apply Nat.leb_le]|reflexivity]).
    replace (depth + 1 - 1)%Z with depth by lia. rewrite wrap_usize_small by lia. cbv iota beta.
    replace (depth =? 0)%Z with false by lia.
    (* its slash lies before `start` *)
    destruct (first_or_app r T) as [t2 Et2]. rewrite Et2.
    set (q := (S (S p) + length inner)%nat) in *.
    rewrite block_go_pass; [|lia| |].
    2,3: replace (q + 2 <=? S q)%nat with false by (symmetry; apply Nat.leb_gt; lia); now rewrite !andb_false_r.
    rewrite <- Et2.
    destruct (IHr (S (S q)) (q + 2)%nat depth T) as [s2 [L2 E2]]; [lia|exact Hd|exact Hb|].
    exists s2. repeat first [rewrite app_length | progress cbn [length]].
    split; [lia|]. rewrite E2. f_equal. lia.
Qed.

Lemma block_scan_nested d body T : comment_body d body -> depth_ok d ->
  block_scan ([47; 42] ++ body ++ [42; 47] ++ T) = Some (length body).
Proof.
  intros B Dk. unfold block_scan. change (skipn 2 ([47; 42] ++ body ++ [42; 47] ++ T)) with (body ++ 42 :: 47 :: T).
  unfold depth_ok in Dk.
  destruct (block_go_body d body B 2 2 1%Z T (le_n 2)) as [s' [L E]]; [lia|lia|].
  rewrite E, block_go_cons.
  replace ((42 =? 47) && (s' <=? 2 + length body)%nat && (47 =? 42)) with false by reflexivity.
  replace ((42 =? 42) && (s' <=? 2 + length body)%nat && (47 =? 47)) with true
    by (symmetry; apply andb_true_intro; split; [apply andb_true_intro; split; [reflexivity|now apply Nat.leb_le]|reflexivity]).
  cbv iota beta. change (wrap_usize (1 - 1) =? 0)%Z with true. cbv iota. f_equal. lia.
Qed.

(* ================================================================ the comment step (as LexRun.skips_block, any content the scanner passes) *)
Lemma skips_block_scan ws body sep rest : all_ws ws ->
  block_scan ([47; 42] ++ body ++ [42; 47] ++ sep ++ rest) = Some (length body) -> skips sep rest ->
  skips (ws ++ [47; 42] ++ body ++ [42; 47] ++ sep) rest.
Proof.
  intros W Bs Sk f st pre V P U D Lf. destruct f as [|f]; [lia|]. rewrite skip_loop_unfold.
  destruct (ts_data st) as [|b0 r0] eqn:Dd.
  { exfalso. symmetry in D. apply app_eq_nil in D. destruct D as [D _]. apply app_eq_nil in D. destruct D as [_ D]. discriminate. }
  rewrite <- Dd in *. rewrite <- !app_assoc in D.
  set (R := [47; 42] ++ body ++ [42; 47] ++ sep ++ rest) in *.
  assert (Rn : not_ws_next R) by (intros b t Hb; injection Hb as <- _; reflexivity).
  destruct (ws_step_exact st pre ws R V P D W Rn) as [st1 [E1 [D1 [V1 [P1 U1]]]]]. rewrite E1. cbn [bind].
  unfold comment_step. rewrite D1. change (starts_with [47; 47] R) with false. change (starts_with [47; 42] R) with true. cbv iota.
  change R with (47 :: 42 :: body ++ [42; 47] ++ sep ++ rest) at 1. cbv iota.
  rewrite Bs.
  set (cm := 47 :: 42 :: body ++ [42; 47]).
  assert (ER : R = cm ++ sep ++ rest) by (unfold R, cm; cbn [app]; now rewrite <- !app_assoc).
  assert (Lc : (4 + length body)%nat = length cm) by (unfold cm; cbn [length]; rewrite app_length; cbn [length]; lia).
  rewrite Lc.
  assert (VR : Valid R) by now rewrite <- D1.
  assert (B : bnd R (length cm)).
  { assert (Hx : nth_error R (length (47 :: 42 :: body ++ [42])) = Some 47).
    { unfold R. replace ([47; 42] ++ body ++ [42; 47] ++ sep ++ rest) with ((47 :: 42 :: body ++ [42]) ++ 47 :: sep ++ rest)
        by (cbn [app]; now rewrite <- !app_assoc). apply nth_error_mid. }
    replace (length cm) with (S (length (47 :: 42 :: body ++ [42]))) by (unfold cm; cbn [length]; rewrite !app_length; cbn [length]; lia).
    apply (bnd_after_ascii _ _ 47 VR Hx). lia. }
  assert (Fs : firstn (length cm) R = cm) by (rewrite ER, firstn_app, Nat.sub_diag, firstn_all; cbn [firstn]; now rewrite app_nil_r).
  assert (Sk2 : skipn (length cm) R = sep ++ rest) by (rewrite ER, skipn_app, Nat.sub_diag, skipn_all; reflexivity).
  rewrite (slice_to_ok _ _ _ B), Fs. cbn [bind].
  assert (Vc : Valid cm) by (rewrite <- Fs; now apply bnd_Valid_to).
  rewrite (update_pos_ok _ _ Vc). cbn [bind]. rewrite (slice_from_ok _ _ _ B), Sk2. cbn [bind].
  match goal with |- context [skip_loop f ?s] => set (st2 := s) end.
  assert (V2 : Valid (ts_data st2)) by (cbn [st2 set_data ts_data]; rewrite <- Sk2; now apply bnd_Valid_from).
  assert (P2 : pos_st st2 = pos_of ((pre ++ ws) ++ cm)).
  { unfold pos_st in *. cbn [st2 set_data set_pos ts_line ts_col]. rewrite <- surjective_pairing, P1. apply upd_pos_of. }
  destruct (Sk f st2 _ V2 P2) as [st' [E' D']].
  - cbn [st2 set_data set_pos ts_utf_err]. congruence.
  - reflexivity.
  - cbn [st2 set_data ts_data]. rewrite D, ER, !app_length in Lf. rewrite app_length. unfold cm in Lf. cbn [length] in Lf. lia.
  - exists st'. split; [exact E'|exact D'].
Qed.

Lemma skips_nblock ws d body sep rest : all_ws ws -> comment_body d body -> depth_ok d -> skips sep rest ->
  skips (ws ++ [47; 42] ++ body ++ [42; 47] ++ sep) rest.
Proof. intros W B Dk Sk. apply skips_block_scan; [exact W|now apply (block_scan_nested d)|exact Sk]. Qed.

(* the parser side (imported here: ParseModel has its own `Ok` / `bind`) *)
From Trion Require Import Text.ParseModel Text.ParseProofs Text.Pipeline Text.ShowProofs.

(* ================================================================ the old separators are among the new ones *)
Lemma flat_comment_body : forall body, no_comment_marker (body ++ [42]) = true -> comment_body 0 body.
Proof.
  induction body as [|a body IH]; intros Hm; [constructor|].
  cbn [app] in Hm. destruct (body ++ [42]) as [|b r] eqn:Eb; [destruct body; discriminate|].
  cbn [no_comment_marker] in Hm. apply andb_prop in Hm. destruct Hm as [Hm Hr]. apply andb_prop in Hm. destruct Hm as [M1 M2].
  constructor.
  - assert (first_or body 42 = b) as -> by (destruct body; cbn [app] in Eb; now injection Eb as <- _).
    unfold marker. lia.
  - apply IH. exact Hr.
Qed.

Lemma depth_ok_0 : depth_ok 0.
Proof. unfold depth_ok. cbn. lia. Qed.

Lemma separator_nseparator s : separator s -> nseparator s.
Proof.
  induction 1 as [ws W|ws body s W Nl Vb _ IH|ws body s W Nm Vb _ IH].
  - now apply NSep_ws.
  - now apply NSep_line.
  - apply (NSep_block ws 0); auto using flat_comment_body, depth_ok_0.
Qed.

Lemma end_separator_nend_separator s : end_separator s -> nend_separator s.
Proof.
  induction 1 as [s S|ws body W Nl Vb|ws body s W Nl Vb _ IH|ws body s W Nm Vb _ IH].
  - apply NESep. now apply separator_nseparator.
  - now apply NESep_eof.
  - now apply NESep_line.
  - apply (NESep_block ws 0); auto using flat_comment_body, depth_ok_0.
Qed.

Lemma seps_ok_nseps_ok : forall ts seps, seps_ok ts seps -> nseps_ok ts seps.
Proof.
  induction ts as [|v r IH]; intros seps H; cbn [seps_ok nseps_ok] in *.
  - now apply end_separator_nend_separator.
  - destruct H as [S [F R]]. split; [now apply separator_nseparator|]. split; [exact F|now apply IH].
Qed.

Lemma wseps_ok_nwseps_ok : forall ws seps, wseps_ok ws seps -> nwseps_ok ws seps.
Proof.
  induction ws as [|v r IH]; intros seps H; cbn [wseps_ok nwseps_ok] in *.
  - now apply end_separator_nend_separator.
  - destruct H as [S [F R]]. split; [now apply separator_nseparator|]. split; [exact F|now apply IH].
Qed.

(* ================================================================ separators *)
Lemma nseparator_Valid sep : nseparator sep -> Valid sep.
Proof.
  induction 1 as [ws W|ws body s W Nl Vb _ IH|ws d body s W Nm Dk Vb _ IH].
  - now apply white_Valid.
  - apply Valid_app; [now apply white_Valid|]. cbn [app]. apply Valid_cons_ascii; [lia|]. apply Valid_cons_ascii; [lia|].
    apply Valid_app; [exact Vb|]. apply Valid_cons_ascii; [lia|exact IH].
  - apply Valid_app; [now apply white_Valid|]. cbn [app]. apply Valid_cons_ascii; [lia|]. apply Valid_cons_ascii; [lia|].
    apply Valid_app; [exact Vb|]. cbn [app]. apply Valid_cons_ascii; [lia|]. apply Valid_cons_ascii; [lia|exact IH].
Qed.

Lemma nl_no_lf body : Forall (fun b => b <> 10) body -> no_lf body.
Proof. intros Nl. eapply Forall_impl; [|exact Nl]. intros x Hx. unfold is_lf. apply N.eqb_neq. exact Hx. Qed.

Lemma nseparator_skips sep rest : nseparator sep -> tok_start rest -> skips sep rest.
Proof.
  intros S T. induction S as [ws W|ws body s W Nl Vb _ IH|ws d body s W Nm Dk Vb _ IH].
  - apply skips_ws; [exact W|exact T].
  - apply skips_line; [exact W|now apply nl_no_lf|exact IH].
  - apply (skips_nblock ws d); [exact W|exact Nm|exact Dk|exact IH].
Qed.

Lemma nend_separator_Valid sep : nend_separator sep -> Valid sep.
Proof.
  induction 1 as [s S|ws body W Nl Vb|ws body s W Nl Vb _ IH|ws d body s W Nm Dk Vb _ IH].
  - now apply nseparator_Valid.
  - apply Valid_app; [now apply white_Valid|]. cbn [app]. apply Valid_cons_ascii; [lia|]. apply Valid_cons_ascii; [lia|exact Vb].
  - apply Valid_app; [now apply white_Valid|]. cbn [app]. apply Valid_cons_ascii; [lia|]. apply Valid_cons_ascii; [lia|].
    apply Valid_app; [exact Vb|]. apply Valid_cons_ascii; [lia|exact IH].
  - apply Valid_app; [now apply white_Valid|]. cbn [app]. apply Valid_cons_ascii; [lia|]. apply Valid_cons_ascii; [lia|].
    apply Valid_app; [exact Vb|]. cbn [app]. apply Valid_cons_ascii; [lia|]. apply Valid_cons_ascii; [lia|exact IH].
Qed.

Lemma nend_separator_skips sep : nend_separator sep -> skips sep [].
Proof.
  induction 1 as [s S|ws body W Nl Vb|ws body s W Nl Vb _ IH|ws d body s W Nm Dk Vb _ IH].
  - apply nseparator_skips; [exact S|apply tok_start_nil].
  - apply skips_line_eof; [exact W|now apply nl_no_lf].
  - apply skips_line; [exact W|now apply nl_no_lf|exact IH].
  - apply (skips_nblock ws d); [exact W|exact Nm|exact Dk|exact IH].
Qed.

(* ================================================================ whole texts *)
Theorem nshow_lexrun : forall ts seps, Forall tok_ok ts -> nseps_ok ts seps -> lexrun (show ts seps) ts /\ Valid (show ts seps).
Proof.
  induction ts as [|v r IH]; intros seps Ok So.
  - cbn [show]. cbn [nseps_ok] in So. split; [|now apply nend_separator_Valid].
    apply LR_end. now apply nend_separator_skips.
  - cbn [show]. destruct So as [S [Fo So]]. inversion Ok as [|? ? Ov Or]; subst.
    destruct (IH (tl seps) Or So) as [R V].
    destruct (show_tok_facts v _ Ov Fo) as [Ne [Vt [Ts Lx]]].
    split.
    + apply LR_tok; [apply nseparator_skips; [exact S|exact Ts]|exact Ne|exact Lx|exact R].
    + apply Valid_app; [now apply nseparator_Valid|]. apply Valid_app; assumption.
Qed.

Theorem nshow_tokens ts seps : Forall tok_ok ts -> nseps_ok ts seps ->
  exists toks, tokens_all (show ts seps) = TokenModel.Ok (map inl toks, [None; None; None]) /\ map t_val toks = ts.
Proof. intros Ok So. destruct (nshow_lexrun ts seps Ok So) as [R V]. exact (lexrun_tokens _ _ V R). Qed.

Theorem nshoww_lexrun : forall ws seps, Forall wtok_ok ws -> nwseps_ok ws seps ->
  lexrun (showw ws seps) (map wtok_val ws) /\ Valid (showw ws seps).
Proof.
  induction ws as [|w r IH]; intros seps Ok So.
  - cbn [showw map]. cbn [nwseps_ok] in So. split; [|now apply nend_separator_Valid].
    apply LR_end. now apply nend_separator_skips.
  - cbn [showw map]. destruct So as [S [Fo So]]. inversion Ok as [|? ? Ov Or]; subst.
    destruct (IH (tl seps) Or So) as [R V].
    destruct (wtok_facts w _ Ov Fo) as [Ne [Vt [Ts Lx]]].
    split.
    + apply LR_tok; [apply nseparator_skips; [exact S|exact Ts]|exact Ne|exact Lx|exact R].
    + apply Valid_app; [now apply nseparator_Valid|]. apply Valid_app; assumption.
Qed.

Theorem nshoww_tokens ws seps : Forall wtok_ok ws -> nwseps_ok ws seps ->
  exists toks, tokens_all (showw ws seps) = TokenModel.Ok (map inl toks, [None; None; None]) /\ map t_val toks = map wtok_val ws.
Proof. intros Ok So. destruct (nshoww_lexrun ws seps Ok So) as [R V]. exact (lexrun_tokens _ _ V R). Qed.

(* ================================================================ text -> statements *)
(* statements (any trees), only the required parentheses, canonical token texts, any separators incl. nested block comments *)
Theorem text_roundtrip_nested stmts seps : forallb writable_stmt stmts = true -> nseps_ok (render_stmts stmts) seps ->
  exists els, parse_bytes (show (render_stmts stmts) seps) = Some (Done (map IOk els) [PollNone; PollNone; PollNone]) /\
              map e_val els = stmts.
Proof.
  intros W So. destruct (nshow_tokens _ _ (render_stmts_tok_ok stmts W) So) as [toks [E M]].
  destruct (statements_render_roundtrip stmts toks 0 0 M) as [els [Ep Ev]].
  exists els. unfold parse_bytes. rewrite E. now rewrite Ep.
Qed.

(* one argument tree as the argument of an instruction *)
Theorem text_roundtrip_nested_tree t name seps : writable_stmt (EInstruction name [t]) = true ->
  nseps_ok (render_stmt (EInstruction name [t])) seps ->
  exists line col, parse_bytes (show (render_stmt (EInstruction name [t])) seps)
                   = Some (Done [IOk (mkElement line col (EInstruction name [t]))] [PollNone; PollNone; PollNone]).
Proof.
  intros W So. destruct (text_roundtrip_nested [EInstruction name [t]] seps) as [els [E M]].
  - cbn [forallb]. now rewrite W.
  - unfold render_stmts. cbn [map concat]. now rewrite app_nil_r.
  - unfold render_stmts in E. cbn [map concat] in E. rewrite app_nil_r in E.
    destruct (single_element _ _ M) as [line [col ->]]. exists line, col. exact E.
Qed.

(* any valid parenthesisation (RendStmts), any spelling of each token (wtok), any separators incl. nested block comments *)
Theorem textw_roundtrip_nested stmts ws seps : RendStmts stmts (map wtok_val ws) -> Forall wtok_ok ws -> nwseps_ok ws seps ->
  exists els, parse_bytes (showw ws seps) = Some (Done (map IOk els) [PollNone; PollNone; PollNone]) /\ map e_val els = stmts.
Proof.
  intros R Ok So. destruct (nshoww_tokens _ _ Ok So) as [toks [E M]].
  destruct (statements_roundtrip stmts _ toks 0 0 R M) as [els [Ep Ev]].
  exists els. unfold parse_bytes. rewrite E. now rewrite Ep.
Qed.

(* ================================================================ example: depth 3 between tokens *)
(* i a+/*1/*2/*3*/2*/1/*/ x*/*/b;   between `+` and `b`: a comment that contains a comment that contains a comment (d = 2, the counter
   reaches 3), then at level 1 a second nested comment whose content starts with a slash (slash-star-slash does not close) *)
Definition ex_nested_comment : str :=
  [47; 42; 49; 47; 42; 50; 47; 42; 51; 42; 47; 50; 42; 47; 49; 47; 42; 47; 32; 120; 42; 47; 42; 47].
Definition ex_nested_stmt : element_value := EInstruction [105] [AAdd (AIdent [97]) (AIdent [98])].
Definition ex_nested_seps : list str := [[]; [32]; []; ex_nested_comment; []; []].

Lemma ex_nested_ok : writable_stmt ex_nested_stmt = true /\ nseps_ok (render_stmt ex_nested_stmt) ex_nested_seps /\
  ~ seps_ok (render_stmt ex_nested_stmt) ex_nested_seps.
Proof.
  split; [reflexivity|]. split.
  - cbn. repeat split; try solve [apply NSep_ws; repeat constructor]; try solve [apply NESep, NSep_ws; repeat constructor].
    apply (NSep_block [] 2 [49; 47; 42; 50; 47; 42; 51; 42; 47; 50; 42; 47; 49; 47; 42; 47; 32; 120; 42; 47] []).
    + constructor.
    + apply CB_byte; [reflexivity|].
      apply (CB_nest 1 [50; 47; 42; 51; 42; 47; 50] [49; 47; 42; 47; 32; 120; 42; 47]).
      * apply CB_byte; [reflexivity|]. apply (CB_nest 0 [51] [50]).
        -- apply CB_byte; [reflexivity|constructor].
        -- apply CB_byte; [reflexivity|constructor].
      * apply CB_byte; [reflexivity|]. apply (CB_nest 1 [47; 32; 120] []).
        -- repeat (apply CB_byte; [reflexivity|]). constructor.
        -- constructor.
    + unfold depth_ok. cbn. lia.
    + apply Valid_ascii. repeat constructor.
    + apply NSep_ws. constructor.
  - cbn. intros [_ [_ [_ [_ [_ [_ [S _]]]]]]].
    (* a flat separator that starts with slash-star has no marker before its first star-slash *)
    inversion S as [ws W E|ws body s W Nl Vb Ss E|ws body s W Nm Vb Ss E].
    + unfold white in W. subst ws. inversion W as [|? ? Hb _]. discriminate Hb.
    + destruct ws as [|w ws'].
      * cbn [app] in E. discriminate E.
      * cbn [app] in E. injection E as -> _. inversion W as [|? ? Hb _]. discriminate Hb.
    + destruct ws as [|w ws'].
      * cbn [app] in E. unfold ex_nested_comment in E. injection E as E.
        do 3 (destruct body as [|? body]; cbn [app] in E; [discriminate E|injection E as -> E]).
        cbn in Nm. discriminate Nm.
      * cbn [app] in E. injection E as -> _. inversion W as [|? ? Hb _]. discriminate Hb.
Qed.
