(* Oracle for the text level of C09: how a token sequence is written down as characters.
   `show_tok v`  the canonical text of one token: punctuation as in the README, numbers in decimal (LitSpec.show_int 10),
                 identifiers as they are, strings between double quotes with every character that cannot stand for itself
                 (double quote, backslash, control characters other than tab, DEL) written as backslash-u{HEX} (LitSpec.show_string).
   `show ts seps` the tokens ts with the separator number i written before token number i and separator number |ts| at the
                 end (missing separators are empty).
   `separator`   what may stand between two tokens: white space (space, tab, LF, CR), line comments up to their line feed,
                 non-nested block comments, in any number and order.
   `wtok`, `showw` the same with a free choice of spelling per token: integers in any radix / digit case / leading zeros,
                 character literals, strings as any list of LitSpec items (plain characters and all escape forms).
   `follow_ok`   what must NOT directly follow a token, so that it does not fuse with the next characters: an identifier byte after a
                 number or identifier; `/` or `*` after `/` (that would open a comment).  Nothing else fuses.
   Independent of the tokenizer model (no import of TokenModel).  No proofs here. *)
From Coq Require Import ZArith NArith List Bool.
From Trion Require Import Base.Utf8 Text.Types Text.LitSpec Text.Render.
Import ListNotations.
Open Scope N_scope.

(* the scalar values of a UTF-8 text *)
Fixpoint scalars_fuel (fuel : nat) (s : str) : list N :=
  match fuel with
  | O => []
  | S f => match s with
           | [] => []
           | _ => match decode_char s with
                  | Some (c, n) => c :: scalars_fuel f (skipn n s)
                  | None => []
                  end
           end
  end.
Definition scalars (s : str) : list N := scalars_fuel (length s) s.

Definition str_item_of (c : N) : str_item := if str_plain_ok c then SPlain c else SEscU c 0 true.

Definition show_tok (v : token_value) : str :=
  match v with
  | TSeparator => [44] | TTerminator => [59] | TLabelMark => [58] | TDirectiveMark => [46]
  | TPlus => [43] | TMinus => [45] | TMultiply => [42] | TDivide => [47] | TModulo => [37]
  | TNot => [33] | TBitAnd => [38] | TBitOr => [124] | TBitXor => [94]
  | TLeftShift => [60; 60] | TRightShift => [62; 62]
  | TNumber z => show_int 10 false 0 (Z.to_N z)
  | TIdentifier s => s
  | TString s => show_string (map str_item_of (scalars s))
  | TBeginGroup => [40] | TEndGroup => [41] | TBeginAddr => [91] | TEndAddr => [93] | TBeginSeq => [123] | TEndSeq => [125]
  end.

Fixpoint show (ts : list token_value) (seps : list str) : str :=
  match ts with
  | [] => hd [] seps
  | v :: r => hd [] seps ++ show_tok v ++ show r (tl seps)
  end.

(* ---------------------------------------------------------------- separators *)
Definition ws_byte (b : N) : bool := (b =? 9) || (b =? 10) || (b =? 13) || (b =? 32).
Definition white (ws : str) : Prop := Forall (fun b => ws_byte b = true) ws.

(* no adjacent slash-star or star-slash *)
Fixpoint no_comment_marker (l : str) : bool :=
  match l with
  | a :: ((b :: _) as r) => negb ((a =? 47) && (b =? 42)) && negb ((a =? 42) && (b =? 47)) && no_comment_marker r
  | _ => true
  end.

Inductive separator : str -> Prop :=
| Sep_ws ws : white ws -> separator ws
| Sep_line ws body s : white ws -> Forall (fun b => b <> 10) body -> Valid body -> separator s ->
    separator (ws ++ [47; 47] ++ body ++ [10] ++ s)
| Sep_block ws body s : white ws -> no_comment_marker (body ++ [42]) = true -> Valid body -> separator s ->
    separator (ws ++ [47; 42] ++ body ++ [42; 47] ++ s).

(* after the last token the text may also end inside a line comment (no line feed) *)
Inductive end_separator : str -> Prop :=
| ESep s : separator s -> end_separator s
| ESep_eof ws body : white ws -> Forall (fun b => b <> 10) body -> Valid body -> end_separator (ws ++ [47; 47] ++ body)
| ESep_line ws body s : white ws -> Forall (fun b => b <> 10) body -> Valid body -> end_separator s ->
    end_separator (ws ++ [47; 47] ++ body ++ [10] ++ s)
| ESep_block ws body s : white ws -> no_comment_marker (body ++ [42]) = true -> Valid body -> end_separator s ->
    end_separator (ws ++ [47; 42] ++ body ++ [42; 47] ++ s).

(* ---------------------------------------------------------------- what may follow a token directly *)
Definition follow_ok (a : token_value) (F : str) : Prop :=
  match a with
  | TNumber _ | TIdentifier _ => match F with b :: _ => ident_char b = false | [] => True end
  | TDivide => match F with b :: _ => b <> 47 /\ b <> 42 | [] => True end
  | _ => True
  end.

Fixpoint seps_ok (ts : list token_value) (seps : list str) : Prop :=
  match ts with
  | [] => end_separator (hd [] seps)
  | v :: r => separator (hd [] seps) /\ follow_ok v (show r (tl seps)) /\ seps_ok r (tl seps)
  end.

(* ---------------------------------------------------------------- which tokens can be written *)
Definition tok_ok (v : token_value) : Prop :=
  match v with
  | TNumber z => (0 <= z < 2 ^ 63)%Z
  | TIdentifier s => ident_ok s = true
  | TString s => Valid s
  | _ => True
  end.

(* every string in the tree is UTF-8 (what `printable` leaves to the tokenizer) *)
Fixpoint strs_utf8 (t : arg) : bool :=
  match t with
  | AConst _ | AIdent _ => true
  | AStr s => utf8_valid s
  | AAdd l r | ASub l r | AMul l r | ADiv l r | AMod l r | AAnd l r | AOr l r | AXor l r | AShl l r | AShr l r =>
    strs_utf8 l && strs_utf8 r
  | ANeg a | ANot a | AAddr a => strs_utf8 a
  | ASeq l | AFun _ l => (fix all (l : list arg) : bool := match l with [] => true | a :: l' => strs_utf8 a && all l' end) l
  end.

Definition writable_stmt (e : element_value) : bool :=
  printable_stmt e &&
  match e with
  | ELabel _ => true
  | EDirective _ a | EInstruction _ a => forallb strs_utf8 a
  end.

(* ---------------------------------------------------------------- free choice of spelling *)
Inductive wtok :=
| WTok (v : token_value)                                  (* the canonical text of v *)
| WInt (radix : N) (upper : bool) (zeros : nat) (n : N)   (* LitSpec.show_int *)
| WChar (l : char_lit)                                    (* LitSpec.show_char: a number written as a character literal *)
| WStr (items : list str_item).                           (* LitSpec.show_string *)

Definition wtok_val (w : wtok) : token_value :=
  match w with
  | WTok v => v
  | WInt _ _ _ n => TNumber (Z.of_N n)
  | WChar l => TNumber (Z.of_N (char_value l))
  | WStr items => TString (string_value items)
  end.

Definition wtok_text (w : wtok) : str :=
  match w with
  | WTok v => show_tok v
  | WInt r u z n => show_int r u z n
  | WChar l => show_char l
  | WStr items => show_string items
  end.

Definition wtok_ok (w : wtok) : Prop :=
  match w with
  | WTok v => tok_ok v
  | WInt r _ _ n => radix_ok r = true /\ n < 2 ^ 63
  | WChar l => char_lit_ok l = true
  | WStr items => Forall (fun i => item_ok i = true) items
  end.

(* a character literal and a string end with their closing quote: nothing fuses with them *)
Definition wfollow_ok (w : wtok) (F : str) : Prop :=
  match w with
  | WTok v => follow_ok v F
  | WInt _ _ _ _ => follow_ok (TNumber 0) F
  | WChar _ | WStr _ => True
  end.

Fixpoint showw (ws : list wtok) (seps : list str) : str :=
  match ws with
  | [] => hd [] seps
  | w :: r => hd [] seps ++ wtok_text w ++ showw r (tl seps)
  end.

Fixpoint wseps_ok (ws : list wtok) (seps : list str) : Prop :=
  match ws with
  | [] => end_separator (hd [] seps)
  | w :: r => separator (hd [] seps) /\ wfollow_ok w (showw r (tl seps)) /\ wseps_ok r (tl seps)
  end.
