(* C09 at the level of characters: a token sequence written by ShowSpec.show (canonical token texts, any separators of the
   grammar ShowSpec.separator, nothing fusing) is tokenized by the tokenizer model to exactly those tokens (show_tokens);
   composed with the parser theorems of ParseProofs.v: the written text of statements parses back to the statements
   (text_roundtrip). *)
From Coq Require Import ZArith NArith List Bool Arith Lia ZifyBool ZifyNat ZifyN.
From Trion Require Import Base.Sweep Base.Utf8 Text.Types Text.TokenModel Text.PosSpec Text.LitSpec
  Text.TokenLemmas Text.TokenNext Text.TokenProofs Text.TokenLit Text.Render Text.LexRun Text.ShowSpec
  Text.ParseModel Text.ParseProofs Text.Pipeline.
Import ListNotations.
Open Scope N_scope.

(* ================================================================ strings: the canonical items of a UTF-8 text *)
Lemma scalars_fuel_spec : forall fuel s, Valid s -> (length s <= fuel)%nat ->
  concat (map encode_char (scalars_fuel fuel s)) = s /\ Forall (fun c => is_scalar c = true) (scalars_fuel fuel s).
Proof.
  induction fuel as [|fuel IH]; intros s V L.
  - destruct s; [split; [reflexivity|constructor]|cbn in L; lia].
  - destruct s as [|b r]; [split; [reflexivity|constructor]|].
    change (scalars_fuel (S fuel) (b :: r)) with
      (match decode_char (b :: r) with Some (c, n) => c :: scalars_fuel fuel (skipn n (b :: r)) | None => [] end).
    set (s := b :: r) in *. assert (Ne : s <> []) by discriminate.
    destruct (decode_char_Valid s V Ne) as [c [n [Dc [En Ln]]]].
    destruct (decode_char_spec _ _ _ Dc) as [_ [Lc [Sc [t Et]]]]. rewrite Dc.
    assert (Sk : skipn n s = t) by (rewrite Et, <- Lc, <- encode_char_len, skipn_app, Nat.sub_diag, skipn_all; reflexivity).
    assert (Vt : Valid t).
    { rewrite <- Sk, En. inversion V as [|bs Hn Hr]; exact Hr. }
    assert (Lt : (length t <= fuel)%nat).
    { apply (f_equal (@length N)) in Et. rewrite app_length, encode_char_len, Lc in Et. lia. }
    rewrite Sk. destruct (IH t Vt Lt) as [I1 I2]. split.
    + cbn [map concat]. rewrite I1. now rewrite <- Et.
    + constructor; assumption.
Qed.

Lemma low_digits : allN (fun c => (length (int_digits 16 c) <=? 6)%nat) 7 = true.
Proof. vm_compute. reflexivity. Qed.

Lemma str_item_of_ok c : is_scalar c = true -> item_ok (str_item_of c) = true /\ item_value (str_item_of c) = c.
Proof.
  intros Sc. unfold str_item_of. destruct (str_plain_ok c) eqn:Pl; [split; [exact Pl|reflexivity]|].
  split; [|reflexivity]. cbn [item_ok]. rewrite Sc. cbn [andb Nat.add].
  apply (allN_spec _ 7 low_digits c). change (2 ^ N.of_nat 7) with 128. unfold str_plain_ok in Pl. lia.
Qed.

Lemma canonical_items s : Valid s ->
  ok_items (map str_item_of (scalars s)) /\ string_value (map str_item_of (scalars s)) = s.
Proof.
  intros V. destruct (scalars_fuel_spec (length s) s V (le_n _)) as [E F]. fold (scalars s) in E, F.
  split.
  - unfold ok_items. apply Forall_forall. intros i Hi. apply in_map_iff in Hi. destruct Hi as [c [<- Hc]].
    rewrite Forall_forall in F. exact (proj1 (str_item_of_ok c (F c Hc))).
  - unfold string_value. rewrite map_map. rewrite <- E at 2. f_equal. apply map_ext_in. intros c Hc.
    rewrite Forall_forall in F. now rewrite (proj2 (str_item_of_ok c (F c Hc))).
Qed.

(* ================================================================ the spec's predicates in the tokenizer's terms *)
Lemma white_all_ws ws : white ws -> all_ws ws.
Proof. intros H. exact H. Qed.

Lemma no_marker_eq l : no_comment_marker l = no_marker l.
Proof. reflexivity. Qed.

Lemma ident_char_false b : ident_char b = false -> is_ident_byte b = false.
Proof. unfold ident_char, ident_start, is_ident_byte. lia. Qed.

Lemma separator_Valid sep : separator sep -> Valid sep.
Proof.
  assert (Wv : forall ws, white ws -> Valid ws).
  { intros ws W. apply Valid_ascii. eapply Forall_impl; [|exact W]. intros x Hx. unfold ws_byte in Hx. lia. }
  induction 1 as [ws W|ws body s W Nl Vb _ IH|ws body s W Nm Vb _ IH].
  - now apply Wv.
  - apply Valid_app; [now apply Wv|]. cbn [app]. apply Valid_cons_ascii; [lia|]. apply Valid_cons_ascii; [lia|].
    apply Valid_app; [exact Vb|]. apply Valid_cons_ascii; [lia|exact IH].
  - apply Valid_app; [now apply Wv|]. cbn [app]. apply Valid_cons_ascii; [lia|]. apply Valid_cons_ascii; [lia|].
    apply Valid_app; [exact Vb|]. cbn [app]. apply Valid_cons_ascii; [lia|]. apply Valid_cons_ascii; [lia|exact IH].
Qed.

Lemma separator_skips sep rest : separator sep -> tok_start rest -> skips sep rest.
Proof.
  intros S T. induction S as [ws W|ws body s W Nl Vb _ IH|ws body s W Nm Vb _ IH].
  - apply skips_ws; [exact W|exact T].
  - apply skips_line; [exact W| |exact IH]. eapply Forall_impl; [|exact Nl]. intros x Hx. unfold is_lf. apply N.eqb_neq. exact Hx.
  - apply skips_block; [exact W| |exact IH]. unfold block_ok. now rewrite <- no_marker_eq.
Qed.

Lemma white_Valid ws : white ws -> Valid ws.
Proof. intros W. apply Valid_ascii. eapply Forall_impl; [|exact W]. intros x Hx. unfold ws_byte in Hx. lia. Qed.

Lemma end_separator_Valid sep : end_separator sep -> Valid sep.
Proof.
  induction 1 as [s S|ws body W Nl Vb|ws body s W Nl Vb _ IH|ws body s W Nm Vb _ IH].
  - now apply separator_Valid.
  - apply Valid_app; [now apply white_Valid|]. cbn [app]. apply Valid_cons_ascii; [lia|]. apply Valid_cons_ascii; [lia|exact Vb].
  - apply Valid_app; [now apply white_Valid|]. cbn [app]. apply Valid_cons_ascii; [lia|]. apply Valid_cons_ascii; [lia|].
    apply Valid_app; [exact Vb|]. apply Valid_cons_ascii; [lia|exact IH].
  - apply Valid_app; [now apply white_Valid|]. cbn [app]. apply Valid_cons_ascii; [lia|]. apply Valid_cons_ascii; [lia|].
    apply Valid_app; [exact Vb|]. cbn [app]. apply Valid_cons_ascii; [lia|]. apply Valid_cons_ascii; [lia|exact IH].
Qed.

Lemma tok_start_nil : tok_start [].
Proof. split; [intros b t H; discriminate|split; reflexivity]. Qed.

Lemma end_separator_skips sep : end_separator sep -> skips sep [].
Proof.
  assert (NL : forall body, Forall (fun b => b <> 10) body -> no_lf body).
  { intros body Nl. eapply Forall_impl; [|exact Nl]. intros x Hx. unfold is_lf. apply N.eqb_neq. exact Hx. }
  induction 1 as [s S|ws body W Nl Vb|ws body s W Nl Vb _ IH|ws body s W Nm Vb _ IH].
  - apply separator_skips; [exact S|apply tok_start_nil].
  - apply skips_line_eof; [exact W|now apply NL].
  - apply skips_line; [exact W|now apply NL|exact IH].
  - apply skips_block; [exact W| |exact IH]. unfold block_ok. now rewrite <- no_marker_eq.
Qed.

(* ================================================================ token texts *)
(* a byte that is neither white space nor a slash starts a token *)
Lemma tok_start_byte b t : is_ws b = false -> b <> 47 -> tok_start (b :: t).
Proof.
  intros W N. split; [intros b' t' H; now injection H as <- _|].
  cbn [starts_with]. replace (47 =? b) with false by lia. split; reflexivity.
Qed.

Lemma show_tok_facts v F : tok_ok v -> follow_ok v F ->
  show_tok v <> [] /\ Valid (show_tok v) /\ tok_start (show_tok v ++ F) /\ lexes (show_tok v) v F.
Proof.
  intros Ok Fo.
  assert (P1 : forall b, punct1 v = Some b -> show_tok v = [b] -> b <> 47 ->
               show_tok v <> [] /\ Valid (show_tok v) /\ tok_start (show_tok v ++ F) /\ lexes (show_tok v) v F).
  { intros b Hp -> N.
    assert (Hb : b < 128 /\ is_ws b = false) by (unfold is_ws; destruct v; try discriminate Hp; injection Hp as <-; lia).
    split; [discriminate|]. split; [apply Valid_ascii; repeat constructor; apply Hb|].
    split; [apply tok_start_byte; [apply Hb|exact N]|now apply lexes_punct1]. }
  destruct v; cbn [tok_ok follow_ok] in Ok, Fo; try (apply (P1 _ eq_refl eq_refl); lia).
  - (* TDivide *)
    cbn [show_tok]. split; [discriminate|]. split; [apply Valid_ascii; repeat constructor|].
    split; [|now apply lexes_punct1]. split; [intros b t H; now injection H as <- _|].
    cbn [app starts_with]. destruct F as [|b t]; [split; reflexivity|]. destruct Fo. split; lia.
  - (* TLeftShift *)
    cbn [show_tok]. split; [discriminate|]. split; [apply Valid_ascii; repeat constructor|].
    split; [now apply tok_start_byte|apply (lexes_shift true)].
  - (* TRightShift *)
    cbn [show_tok]. split; [discriminate|]. split; [apply Valid_ascii; repeat constructor|].
    split; [now apply tok_start_byte|apply (lexes_shift false)].
  - (* TNumber *)
    cbn [show_tok]. destruct (show_int_shape 10 false 0 (Z.to_N v) eq_refl) as [s0 [_ [_ [_ [b [t [Eb Hb]]]]]]].
    split; [rewrite Eb; discriminate|]. split; [apply Valid_ascii; now apply show_int_ascii|].
    split.
    + rewrite Eb. cbn [app]. apply tok_start_byte; unfold is_ws; lia.
    + replace v with (Z.of_N (Z.to_N v)) at 2 by lia. apply lexes_int; [reflexivity|lia|].
      intros b' t' ->. now apply ident_char_false.
  - (* TIdentifier *)
    cbn [show_tok]. destruct s as [|c r]; [discriminate|].
    assert (Hc : ident_start c = true) by (cbn [ident_ok] in Ok; apply andb_prop in Ok; apply Ok).
    split; [discriminate|]. split.
    { apply Valid_ascii. cbn [ident_ok] in Ok. apply andb_prop in Ok. destruct Ok as [_ Hr].
      constructor; [unfold ident_start in Hc; lia|]. apply Forall_forall. intros x Hx. rewrite forallb_forall in Hr.
      specialize (Hr x Hx). apply ident_char_byte in Hr. apply (is_ident_ascii x Hr). }
    split.
    + cbn [app]. unfold ident_start in Hc. apply tok_start_byte; unfold is_ws; lia.
    + apply lexes_ident; [exact Ok|]. intros b' t' ->. now apply ident_char_false.
  - (* TString *)
    cbn [show_tok]. destruct (canonical_items s Ok) as [Oi Sv].
    split; [discriminate|]. split; [now apply show_string_Valid|].
    split; [now apply tok_start_byte|]. rewrite <- Sv at 2. now apply lexes_string.
Qed.

(* ================================================================ whole texts *)
Theorem show_lexrun : forall ts seps, Forall tok_ok ts -> seps_ok ts seps -> lexrun (show ts seps) ts /\ Valid (show ts seps).
Proof.
  induction ts as [|v r IH]; intros seps Ok So.
  - cbn [show]. cbn [seps_ok] in So. split; [|now apply end_separator_Valid].
    apply LR_end. now apply end_separator_skips.
  - cbn [show]. destruct So as [S [Fo So]]. inversion Ok as [|? ? Ov Or]; subst.
    destruct (IH (tl seps) Or So) as [R V].
    destruct (show_tok_facts v _ Ov Fo) as [Ne [Vt [Ts Lx]]].
    split.
    + apply LR_tok; [apply separator_skips; [exact S|exact Ts]|exact Ne|exact Lx|exact R].
    + apply Valid_app; [now apply separator_Valid|]. apply Valid_app; assumption.
Qed.

(* the written text is tokenized to exactly the tokens written, and then the tokenizer is at its end *)
Theorem show_tokens ts seps : Forall tok_ok ts -> seps_ok ts seps ->
  exists toks, tokens_all (show ts seps) = TokenModel.Ok (map inl toks, [None; None; None]) /\ map t_val toks = ts.
Proof.
  intros Ok So. destruct (show_lexrun ts seps Ok So) as [R V]. exact (lexrun_tokens _ _ V R).
Qed.

(* ================================================================ tokens of printable trees can be written *)
Lemma forall_nested (f : arg -> bool) l :
  (fix all (l : list arg) : bool := match l with [] => true | a :: l' => f a && all l' end) l = forallb f l.
Proof. induction l as [|a l IH]; [reflexivity|]. cbn [forallb]. now rewrite IH. Qed.

Lemma render_list_ok l first :
  Forall (fun t => printable t = true -> strs_utf8 t = true -> forall c, Forall tok_ok (render c t)) l ->
  forallb printable l = true -> forallb strs_utf8 l = true -> Forall tok_ok (render_list l first).
Proof.
  revert first. induction l as [|a l IH]; intros first H P U; [constructor|].
  inversion H as [|? ? Ha Hl]; subst. cbn [forallb] in P, U. apply andb_prop in P. apply andb_prop in U.
  cbn [render_list]. apply Forall_app. split; [destruct first; repeat constructor|].
  apply Forall_app. split; [apply Ha; tauto|apply IH; tauto].
Qed.

Lemma render_tok_ok : forall t, printable t = true -> strs_utf8 t = true -> forall c, Forall tok_ok (render c t).
Proof.
  assert (Par : forall (b : bool) body, Forall tok_ok body -> Forall tok_ok (if b then paren body else body)).
  { intros b body H. destruct b; [|exact H]. unfold paren. constructor; [exact I|]. apply Forall_app. split; [exact H|repeat constructor]. }
  induction t using arg_ind2; intros P U c.
  1-16: cbn [render]; apply Par; cbn [printable strs_utf8] in P, U;
        try (apply andb_prop in P; apply andb_prop in U; apply Forall_app; split; [apply IHt1; tauto|constructor; [exact I|apply IHt2; tauto]]).
  - constructor; [cbn [tok_ok]; lia|constructor].
  - constructor; [exact P|constructor].
  - constructor; [now apply utf8_valid_Valid|constructor].
  - constructor; [exact I|now apply IHt].
  - constructor; [exact I|now apply IHt].
  - constructor; [exact I|]. apply Forall_app. split; [now apply IHt|repeat constructor].
  - rewrite render_seq_eq. apply Par. cbn [printable strs_utf8] in P, U. rewrite forall_nested in P, U.
    constructor; [exact I|]. apply Forall_app. split; [now apply render_list_ok|repeat constructor].
  - rewrite render_fun_eq. apply Par. cbn [printable strs_utf8] in P, U. rewrite forall_nested in P, U.
    apply andb_prop in P. destruct P as [Pn P].
    constructor; [exact Pn|]. constructor; [exact I|]. apply Forall_app. split; [now apply render_list_ok|repeat constructor].
Qed.

Lemma render_stmt_tok_ok e : writable_stmt e = true -> Forall tok_ok (render_stmt e).
Proof.
  unfold writable_stmt. intros H. apply andb_prop in H. destruct H as [P U].
  assert (L : forall a, forallb printable a = true -> forallb strs_utf8 a = true -> Forall tok_ok (render_list a true)).
  { intros a Pa Ua. apply render_list_ok; [|exact Pa|exact Ua]. apply Forall_forall. intros t _. apply render_tok_ok. }
  destruct e as [n|n a|n a]; cbn [printable_stmt render_stmt] in *.
  - repeat constructor. exact P.
  - apply andb_prop in P. destruct P as [Pn Pa]. constructor; [exact I|]. constructor; [exact Pn|].
    apply Forall_app. split; [now apply L|repeat constructor].
  - apply andb_prop in P. destruct P as [Pn Pa]. constructor; [exact Pn|].
    apply Forall_app. split; [now apply L|repeat constructor].
Qed.

Lemma render_stmts_tok_ok stmts : forallb writable_stmt stmts = true -> Forall tok_ok (render_stmts stmts).
Proof.
  unfold render_stmts. induction stmts as [|e l IH]; intros H; [constructor|]. cbn [forallb] in H. apply andb_prop in H.
  cbn [map concat]. apply Forall_app. split; [apply render_stmt_tok_ok; tauto|apply IH; tauto].
Qed.

(* ================================================================ text -> statements *)
(* any writable token sequence that renders statements: the text parses to exactly those statements *)
Theorem text_roundtrip_tokens stmts seps : Forall tok_ok (render_stmts stmts) -> seps_ok (render_stmts stmts) seps ->
  exists els, parse_bytes (show (render_stmts stmts) seps) = Some (Done (map IOk els) [PollNone; PollNone; PollNone]) /\
              map e_val els = stmts.
Proof.
  intros Ok So. destruct (show_tokens _ _ Ok So) as [toks [E M]].
  destruct (statements_render_roundtrip stmts toks 0 0 M) as [els [Ep Ev]].
  exists els. unfold parse_bytes. rewrite E. now rewrite Ep.
Qed.

Theorem text_roundtrip stmts seps : forallb writable_stmt stmts = true -> seps_ok (render_stmts stmts) seps ->
  exists els, parse_bytes (show (render_stmts stmts) seps) = Some (Done (map IOk els) [PollNone; PollNone; PollNone]) /\
              map e_val els = stmts.
Proof. intros W. apply text_roundtrip_tokens. now apply render_stmts_tok_ok. Qed.

(* one statement *)
Theorem text_roundtrip1 s seps : writable_stmt s = true -> seps_ok (render_stmt s) seps ->
  exists line col, parse_bytes (show (render_stmt s) seps)
                   = Some (Done [IOk (mkElement line col s)] [PollNone; PollNone; PollNone]).
Proof.
  intros W So. destruct (text_roundtrip [s] seps) as [els [E M]].
  - cbn [forallb]. now rewrite W.
  - unfold render_stmts. cbn [map concat]. now rewrite app_nil_r.
  - unfold render_stmts in E. cbn [map concat] in E. rewrite app_nil_r in E.
    destruct (single_element _ _ M) as [line [col ->]]. exists line, col. exact E.
Qed.

(* every separator a single space: a text for the statements exists and parses back *)
Lemma seps_ok_spaces ts : seps_ok ts (map (fun _ => [32]) ts).
Proof.
  assert (Sp : separator [32]) by (apply Sep_ws; repeat constructor).
  assert (Se : separator []) by (apply Sep_ws; constructor).
  induction ts as [|v r IH]; [exact (ESep _ Se)|].
  cbn [map seps_ok hd tl]. split; [exact Sp|]. split; [|exact IH].
  destruct r as [|v' r']; [cbn; destruct v; exact I|]. cbn [map show hd tl app].
  destruct v; cbn [follow_ok]; try exact I; try reflexivity. split; discriminate.
Qed.

Corollary text_exists stmts : forallb writable_stmt stmts = true ->
  exists text els, parse_bytes text = Some (Done (map IOk els) [PollNone; PollNone; PollNone]) /\ map e_val els = stmts.
Proof.
  intros W. exists (show (render_stmts stmts) (map (fun _ => [32]) (render_stmts stmts))).
  apply text_roundtrip; [exact W|apply seps_ok_spaces].
Qed.

(* a written instruction statement, read by Pipeline.stmt_of_text *)
Theorem stmt_of_text_show n a seps : Forall tok_ok (render_stmt (EInstruction n a)) -> seps_ok (render_stmt (EInstruction n a)) seps ->
  stmt_of_text (show (render_stmt (EInstruction n a)) seps) = Some (n, a).
Proof.
  intros Ok So. destruct (text_roundtrip_tokens [EInstruction n a] seps) as [els [E M]].
  - unfold render_stmts. cbn [map concat]. now rewrite app_nil_r.
  - unfold render_stmts. cbn [map concat]. now rewrite app_nil_r.
  - unfold render_stmts in E. cbn [map concat] in E. rewrite app_nil_r in E.
    destruct (single_element _ _ M) as [line [col ->]]. unfold stmt_of_text. rewrite E. reflexivity.
Qed.

(* the same for ANY valid way of writing the statements (required parentheses plus redundant ones anywhere: relation RendStmts
   of ParseProofs.v, which contains render_stmts and render_stmts_x) *)
Theorem text_roundtrip_rend stmts X seps : RendStmts stmts X -> Forall tok_ok X -> seps_ok X seps ->
  exists els, parse_bytes (show X seps) = Some (Done (map IOk els) [PollNone; PollNone; PollNone]) /\ map e_val els = stmts.
Proof.
  intros R Ok So. destruct (show_tokens _ _ Ok So) as [toks [E M]].
  destruct (statements_roundtrip stmts X toks 0 0 R M) as [els [Ep Ev]].
  exists els. unfold parse_bytes. rewrite E. now rewrite Ep.
Qed.

(* ================================================================ an example with every kind of separator *)
Definition ex_stmt : element_value :=
  EInstruction [105] [AOr (ASub (AIdent [97]) (AMul (ASub (AIdent [98]) (AIdent [99])) (ANeg (AIdent [100]))))
                          (ADiv (AConst 10) (AStr [113; 34]))].
(* i a-/*x*/(b<tab>-c)*<CR><LF>-d//c<LF>|10/ "q\u{22}";<LF> *)
Definition ex_seps : list str :=
  [[]; [32]; []; [47; 42; 120; 42; 47]; []; [9]; []; []; []; [13; 10]; []; [47; 47; 99; 10]; []; []; [32]; []; [10]].

Lemma ex_seps_ok : writable_stmt ex_stmt = true /\ seps_ok (render_stmt ex_stmt) ex_seps.
Proof.
  split; [reflexivity|].
  cbn. repeat split; try solve [apply Sep_ws; repeat constructor]; try solve [apply ESep, Sep_ws; repeat constructor].
  - apply (Sep_block [] [120] []); [constructor|reflexivity|apply Valid_ascii; repeat constructor|apply Sep_ws; constructor].
  - apply (Sep_line [] [99] []); [constructor|repeat constructor; discriminate|apply Valid_ascii; repeat constructor|apply Sep_ws; constructor].
  - discriminate.
  - discriminate.
Qed.

(* ================================================================ free choice of spelling (ShowSpec.wtok) *)
Lemma wtok_facts w F : wtok_ok w -> wfollow_ok w F ->
  wtok_text w <> [] /\ Valid (wtok_text w) /\ tok_start (wtok_text w ++ F) /\ lexes (wtok_text w) (wtok_val w) F.
Proof.
  intros Ok Fo. destruct w as [v|r u z n|l|items]; cbn [wtok_ok wfollow_ok wtok_text wtok_val] in *.
  - now apply show_tok_facts.
  - destruct Ok as [Hr Hn]. destruct (show_int_shape r u z n Hr) as [s0 [_ [_ [_ [b [t [Eb Hb]]]]]]].
    split; [rewrite Eb; discriminate|]. split; [apply Valid_ascii; now apply show_int_ascii|].
    split.
    + rewrite Eb. cbn [app]. apply tok_start_byte; unfold is_ws; lia.
    + apply lexes_int; [exact Hr|exact Hn|]. intros b' t' ->. cbn [follow_ok] in Fo. now apply ident_char_false.
  - split; [destruct l; discriminate|]. split; [now apply show_char_Valid|].
    split; [|now apply lexes_char]. destruct l; cbn [show_char app]; now apply tok_start_byte.
  - split; [discriminate|]. split; [now apply show_string_Valid|].
    split; [now apply tok_start_byte|now apply lexes_string].
Qed.

Theorem showw_lexrun : forall ws seps, Forall wtok_ok ws -> wseps_ok ws seps ->
  lexrun (showw ws seps) (map wtok_val ws) /\ Valid (showw ws seps).
Proof.
  induction ws as [|w r IH]; intros seps Ok So.
  - cbn [showw map]. cbn [wseps_ok] in So. split; [|now apply end_separator_Valid].
    apply LR_end. now apply end_separator_skips.
  - cbn [showw map]. destruct So as [S [Fo So]]. inversion Ok as [|? ? Ov Or]; subst.
    destruct (IH (tl seps) Or So) as [R V].
    destruct (wtok_facts w _ Ov Fo) as [Ne [Vt [Ts Lx]]].
    split.
    + apply LR_tok; [apply separator_skips; [exact S|exact Ts]|exact Ne|exact Lx|exact R].
    + apply Valid_app; [now apply separator_Valid|]. apply Valid_app; assumption.
Qed.

Theorem showw_tokens ws seps : Forall wtok_ok ws -> wseps_ok ws seps ->
  exists toks, tokens_all (showw ws seps) = TokenModel.Ok (map inl toks, [None; None; None]) /\ map t_val toks = map wtok_val ws.
Proof.
  intros Ok So. destruct (showw_lexrun ws seps Ok So) as [R V]. exact (lexrun_tokens _ _ V R).
Qed.

(* statements written with any spelling of each token, any valid parenthesisation, any separators *)
Theorem textw_roundtrip stmts ws seps : RendStmts stmts (map wtok_val ws) -> Forall wtok_ok ws -> wseps_ok ws seps ->
  exists els, parse_bytes (showw ws seps) = Some (Done (map IOk els) [PollNone; PollNone; PollNone]) /\ map e_val els = stmts.
Proof.
  intros R Ok So. destruct (showw_tokens _ _ Ok So) as [toks [E M]].
  destruct (statements_roundtrip stmts _ toks 0 0 R M) as [els [Ep Ev]].
  exists els. unfold parse_bytes. rewrite E. now rewrite Ep.
Qed.

(* example:  .d 0x1F,'\n' , "a\t"//end   (hexadecimal, a character escape, a named string escape, an unterminated final comment) *)
Definition ex_wtoks : list wtok :=
  [WTok TDirectiveMark; WTok (TIdentifier [100]); WInt 16 true 0 31; WTok TSeparator; WChar (CEsc EscN); WTok TSeparator;
   WStr [SPlain 97; SEsc EscT]; WTok TTerminator].
Definition ex_wseps : list str := [[]; []; [32]; []; []; [32]; [32]; []; [47; 47; 101; 110; 100]].

Lemma ex_wtoks_ok : Forall wtok_ok ex_wtoks /\ wseps_ok ex_wtoks ex_wseps /\
  map wtok_val ex_wtoks = render_stmt (EDirective [100] [AConst 31; AConst 10; AStr [97; 9]]).
Proof.
  split; [repeat constructor|]. split; [|reflexivity].
  cbn. repeat split; try solve [apply Sep_ws; repeat constructor]; try discriminate.
  apply (ESep_eof [] [101; 110; 100]); [constructor|repeat constructor; discriminate|apply Valid_ascii; repeat constructor].
Qed.
