(* C15 proofs, part 6: lifting to arbitrary operation histories.
   An operation history is a list of mutating calls; the model side folds the transliterated
   operations over the map (stopping at the first panic), the dictionary side folds the oracle's
   operations.  Every state along the way is well-formed and denotes the oracle's dictionary, and
   every return value (put count / overflow, removed segment) is the oracle's. *)
From Coq Require Import NArith List Bool Lia ZifyBool ZifyNat ZifyN.
From Trion Require Import Mem.MapModel Mem.DictSpec Mem.MapProofs Mem.MapProofs2 Mem.MapLemmas
  Mem.MapPutNorm Mem.MapPutProofs Mem.MapRangeProofs.
Import ListNotations.
Open Scope N_scope.

Inductive op :=
  | OPut (a : N) (data : list N)
  | ORemove (a : N)
  | ORemoveRange (f l : N)
  | OClear.

(* what the caller sees: Ok(n) / Err(Overflow) of put, the segment taken out by remove *)
Inductive out :=
  | RPut (r : option N)
  | RRemove (r : option run)
  | RUnit.

(* arguments the Rust types allow: addresses are u32, a MemoryRange has first <= last *)
Definition op_ok (o : op) : Prop :=
  match o with
  | OPut a _ => a < U32
  | ORemove _ => True
  | ORemoveRange f l => f <= l
  | OClear => True
  end.

Definition m_step (dbg : bool) (m : mmap) (o : op) : res (mmap * out) :=
  match o with
  | OPut a data => do '(m', r) <- map_put dbg m a data; Ok (m', RPut r)
  | ORemove a => do '(m', r) <- map_remove dbg m a; Ok (m', RRemove r)
  | ORemoveRange f l => do m' <- map_remove_range dbg m f l; Ok (m', RUnit)
  | OClear => Ok (map_clear m, RUnit)
  end.

Definition d_step (d : dict) (o : op) : dict * out :=
  match o with
  | OPut a data => let '(d', r) := d_put d a data in (d', RPut r)
  | ORemove a => let '(d', r) := d_remove_run d a in (d', RRemove r)
  | ORemoveRange f l => (d_remove_range d f l, RUnit)
  | OClear => (d_clear d, RUnit)
  end.

(* the folds: state and the list of return values so far *)
Definition m_fold (dbg : bool) (r : res (mmap * list out)) (o : op) : res (mmap * list out) :=
  do '(m, outs) <- r; do '(m', x) <- m_step dbg m o; Ok (m', outs ++ [x]).
Definition d_fold (s : dict * list out) (o : op) : dict * list out :=
  let '(d', x) := d_step (fst s) o in (d', snd s ++ [x]).

Definition m_run (dbg : bool) (ops : list op) : res (mmap * list out) := fold_left (m_fold dbg) ops (Ok (map_new, [])).
Definition d_run (ops : list op) : dict * list out := fold_left d_fold ops (d_empty, []).

(* one step: no panic, invariant kept, dictionary and return value are the oracle's *)
Lemma step_ok dbg m o : Rep m -> op_ok o ->
  exists m' x, m_step dbg m o = Ok (m', x) /\ Rep m' /\ d_step (abs m) o = (abs m', x).
Proof.
  intros HR Hok. destruct o as [a data|a|f l|]; cbn [op_ok m_step d_step] in *.
  - destruct (N.le_gt_cases (a + len data) SPACE) as [H|H].
    + destruct (put_ok dbg m a data HR Hok H) as (m' & n & E & R' & D).
      exists m', (RPut (Some n)). rewrite E, D. cbn [bind]. auto.
    + destruct (put_overflow dbg m a data Hok H) as (E & D).
      exists m, (RPut None). rewrite E, D. cbn [bind]. auto.
  - destruct (remove_ok dbg m a HR) as (m' & r & E & R' & D).
    exists m', (RRemove r). rewrite E, D. cbn [bind]. auto.
  - destruct (remove_range_ok dbg m f l HR Hok) as (m' & E & R' & D).
    exists m', RUnit. rewrite E, D. cbn [bind]. auto.
  - exists (map_clear m), RUnit. split; [reflexivity|]. split; [apply rep_clear|]. now rewrite clear_refines.
Qed.

Lemma fold_ok dbg : forall ops m0 outs, Rep m0 -> Forall op_ok ops ->
  exists m, fold_left (m_fold dbg) ops (Ok (m0, outs)) = Ok (m, snd (fold_left d_fold ops (abs m0, outs))) /\
            Rep m /\ abs m = fst (fold_left d_fold ops (abs m0, outs)).
Proof.
  induction ops as [|o ops IH]; intros m0 outs HR Hall.
  - exists m0. cbn [fold_left fst snd]. auto.
  - inversion Hall as [|? ? Ho Hrest]; subst.
    destruct (step_ok dbg m0 o HR Ho) as (m1 & x & E & R1 & D).
    cbn [fold_left]. unfold m_fold at 2. cbn [bind]. rewrite E. cbn [bind].
    unfold d_fold at 2 4. cbn [fst snd]. rewrite D.
    apply IH; assumption.
Qed.

(* the lifting: from new(), after ANY history of well-typed operations, in both build profiles *)
Lemma history_ok dbg ops : Forall op_ok ops ->
  exists m, m_run dbg ops = Ok (m, snd (d_run ops)) /\ Rep m /\ abs m = fst (d_run ops).
Proof.
  intros H. unfold m_run, d_run. change d_empty with (abs map_new). apply fold_ok; [exact rep_new|exact H].
Qed.
