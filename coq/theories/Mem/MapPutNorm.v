(* C15 proofs, part 4a: normal form of the segment list after a put that touches existing segments. *)
From Coq Require Import PeanoNat NArith List Bool Lia ZifyBool ZifyNat ZifyN.
From Trion Require Import Mem.MapModel Mem.DictSpec Mem.MapProofs Mem.MapProofs2 Mem.MapLemmas.
Import ListNotations.
Open Scope N_scope.

Lemma sfirst_mk a b c : sfirst (a, b, c) = a. Proof. reflexivity. Qed.
Lemma slast_mk a b c : slast (a, b, c) = b. Proof. reflexivity. Qed.
Lemma sdata_mk a b c : sdata (a, b, c) = c. Proof. reflexivity. Qed.

Lemma takeN_takeN {A} k j (l : list A) : k <= j -> takeN k (takeN j l) = takeN k l.
Proof.
  intros H. rewrite !takeN_firstn. rewrite firstn_firstn. f_equal. lia.
Qed.

(* ---------- normal form, one segment touched ---------- *)
Lemma put_norm_single L1 fs L2 a al data :
  Rep (L1 ++ fs :: L2) -> data <> [] -> a + len data <= SPACE -> al + 1 = a + len data ->
  (forall y, In y L1 -> slast y + 1 < a) -> (forall y, In y L2 -> al + 1 < sfirst y) ->
  a <= slast fs + 1 -> sfirst fs <= al + 1 ->
  let seg' := (N.min (sfirst fs) a, N.max (slast fs) al,
               takeN (a - sfirst fs) (sdata fs) ++ data ++ dropN (al + 1 - sfirst fs) (sdata fs)) in
  Rep (L1 ++ seg' :: L2) /\
  d_put (abs (L1 ++ fs :: L2)) a data
  = (abs (L1 ++ seg' :: L2), Some (len data - (N.min (slast fs) al + 1 - N.max (sfirst fs) a))).
Proof.
  intros HR Hne Hsp Hal H1 H2 T1 T2 seg'.
  assert (Hl : 0 < len data). { destruct data; [congruence|rewrite len_cons; lia]. }
  pose proof HR as HR0. apply Rep_app_iff in HR. destruct HR as (R1 & R2 & G12).
  apply Rep_cons_iff in R2. destruct R2 as ((S1 & S2 & S3) & Gx & R2). rewrite Forall_forall in Gx.
  unfold gap in *. subst seg'.
  set (ff := sfirst fs) in *. set (fl := slast fs) in *. set (fd := sdata fs) in *.
  split.
  - apply Rep_app_iff. split; [exact R1|]. split.
    + apply Rep_cons_iff. split.
      * unfold seg_ok. rewrite sfirst_mk, slast_mk, sdata_mk. rewrite !len_app, len_takeN, len_dropN.
        unfold SPACE, U32 in *. lia.
      * split; [|exact R2]. apply Forall_forall. intros y Hy. pose proof (H2 y Hy). pose proof (Gx y Hy) as K.
        unfold gap. rewrite slast_mk. lia.
    + intros x y Hx [<-|Hy]; [|apply G12; [exact Hx|now right]].
      pose proof (H1 x Hx). pose proof (G12 x _ Hx (or_introl eq_refl)) as K. fold ff in K.
      unfold gap. rewrite sfirst_mk. lia.
  - unfold d_put. fold (len data). destruct (SPACE <? a + len data) eqn:E; [lia|].
    set (k := a - ff). set (j := al + 1 - ff).
    assert (EA : abs (L1 ++ fs :: L2)
                 = (abs L1 ++ cells ff (takeN k fd)) ++ cells (ff + k) (dropN k (takeN j fd)) ++ (cells (ff + j) (dropN j fd) ++ abs L2)).
    { rewrite abs_app, abs_cons. fold ff fd.
      rewrite (cells_split ff fd j). rewrite (cells_split ff (takeN j fd) k). rewrite takeN_takeN by lia.
      repeat rewrite <- app_assoc. reflexivity. }
    rewrite EA.
    destruct (d_write_over data (abs L1 ++ cells ff (takeN k fd)) (cells (ff + k) (dropN k (takeN j fd)))
                           (cells (ff + j) (dropN j fd) ++ abs L2) a) as (W & F).
    + intros c Hc. apply in_app_or in Hc. destruct Hc as [Hc|Hc].
      * destruct c as (x, y). destruct (abs_in L1 R1 _ _ Hc) as (s & Hs & ? & ?). pose proof (H1 s Hs). cbn [fst]. lia.
      * destruct c as (x, y). apply cells_in in Hc. rewrite len_takeN in Hc. cbn [fst]. lia.
    + intros c Hc. apply in_app_or in Hc. destruct Hc as [Hc|Hc].
      * destruct c as (x, y). apply cells_in in Hc. cbn [fst]. lia.
      * destruct c as (x, y). destruct (abs_in L2 R2 _ _ Hc) as (s & Hs & ? & ?). pose proof (H2 s Hs). cbn [fst]. lia.
    + apply asc_cells; [lia|]. rewrite len_dropN, len_takeN. lia.
    + rewrite W. f_equal.
      * rewrite abs_app, abs_cons. rewrite sfirst_mk, sdata_mk.
        rewrite !cells_app. rewrite len_takeN. fold k j.
        repeat rewrite <- app_assoc. f_equal.
        destruct (N.le_gt_cases a ff) as [C|C].
        -- replace k with 0 by lia. rewrite !takeN_0. cbn [cells app].
           replace (N.min ff a + N.min 0 (len fd)) with a by lia. f_equal. f_equal. f_equal. lia.
        -- replace (N.min ff a) with ff by lia. f_equal.
           replace (ff + N.min k (len fd)) with a by lia. f_equal. f_equal. f_equal. lia.
      * f_equal. rewrite len_cells, len_dropN, len_takeN in F. lia.
Qed.

(* ---------- normal form, several segments touched ---------- *)
Lemma put_norm_multi L1 fs mm ls L2 a al data :
  Rep (L1 ++ fs :: mm ++ ls :: L2) -> data <> [] -> a + len data <= SPACE -> al + 1 = a + len data ->
  (forall y, In y L1 -> slast y + 1 < a) -> (forall y, In y L2 -> al + 1 < sfirst y) ->
  a <= slast fs + 1 -> sfirst ls <= al + 1 ->
  let seg' := (N.min (sfirst fs) a, N.max (slast ls) al,
               takeN (a - sfirst fs) (sdata fs) ++ data ++ dropN (al + 1 - sfirst ls) (sdata ls)) in
  Rep (L1 ++ seg' :: L2) /\
  len (abs mm) <= sfirst ls - (slast fs + 1) /\
  d_put (abs (L1 ++ fs :: mm ++ ls :: L2)) a data
  = (abs (L1 ++ seg' :: L2),
     Some (len data - (slast fs + 1 - N.max (sfirst fs) a) - len (abs mm) - (N.min (slast ls) al + 1 - sfirst ls))).
Proof.
  intros HR Hne Hsp Hal H1 H2 T1 T2 seg'.
  assert (Hl : 0 < len data). { destruct data; [congruence|rewrite len_cons; lia]. }
  pose proof HR as HR0. apply Rep_app_iff in HR. destruct HR as (R1 & R2 & G12).
  apply Rep_cons_iff in R2. destruct R2 as ((S1 & S2 & S3) & Gx & R2). rewrite Forall_forall in Gx.
  apply Rep_app_iff in R2. destruct R2 as (Rm & R3 & Gm).
  apply Rep_cons_iff in R3. destruct R3 as ((Q1 & Q2 & Q3) & Gl & R3). rewrite Forall_forall in Gl.
  assert (Gfl : gap fs ls). { apply Gx. apply in_or_app. right. now left. }
  unfold gap in *. subst seg'.
  set (ff := sfirst fs) in *. set (fl := slast fs) in *. set (fd := sdata fs) in *.
  set (lf := sfirst ls) in *. set (ll := slast ls) in *. set (ld := sdata ls) in *.
  assert (Am : asc (fl + 1) lf (abs mm)).
  { apply asc_abs; [exact Rm|]. intros s Hs. pose proof (Gx s (in_or_app _ _ _ (or_introl Hs))) as K1.
    pose proof (Gm s _ Hs (or_introl eq_refl)) as K2. fold lf in K2. lia. }
  pose proof (asc_len _ _ _ Am) as Lm.
  split; [|split; [exact Lm|]].
  - apply Rep_app_iff. split; [exact R1|]. split.
    + apply Rep_cons_iff. split.
      * unfold seg_ok. rewrite sfirst_mk, slast_mk, sdata_mk. rewrite !len_app, len_takeN, len_dropN.
        unfold SPACE, U32 in *. lia.
      * split; [|exact R3]. apply Forall_forall. intros y Hy. pose proof (H2 y Hy). pose proof (Gl y Hy) as K.
        unfold gap. rewrite slast_mk. lia.
    + intros x y Hx [<-|Hy].
      * pose proof (H1 x Hx). pose proof (G12 x _ Hx (or_introl eq_refl)) as K. fold ff in K.
        unfold gap. rewrite sfirst_mk. lia.
      * apply G12; [exact Hx|]. right. apply in_or_app. right. now right.
  - unfold d_put. fold (len data). destruct (SPACE <? a + len data) eqn:E; [lia|].
    set (k := a - ff). set (j := al + 1 - lf).
    assert (EA : abs (L1 ++ fs :: mm ++ ls :: L2)
                 = (abs L1 ++ cells ff (takeN k fd))
                   ++ (cells (ff + k) (dropN k fd) ++ abs mm ++ cells lf (takeN j ld))
                   ++ (cells (lf + j) (dropN j ld) ++ abs L2)).
    { rewrite abs_app, abs_cons, abs_app, abs_cons. fold ff fd lf ld.
      rewrite (cells_split ff fd k). rewrite (cells_split lf ld j).
      repeat rewrite <- app_assoc. reflexivity. }
    rewrite EA.
    destruct (d_write_over data (abs L1 ++ cells ff (takeN k fd))
                           (cells (ff + k) (dropN k fd) ++ abs mm ++ cells lf (takeN j ld))
                           (cells (lf + j) (dropN j ld) ++ abs L2) a) as (W & F).
    + intros c Hc. apply in_app_or in Hc. destruct Hc as [Hc|Hc].
      * destruct c as (x, y). destruct (abs_in L1 R1 _ _ Hc) as (s & Hs & ? & ?). pose proof (H1 s Hs). cbn [fst]. lia.
      * destruct c as (x, y). apply cells_in in Hc. rewrite len_takeN in Hc. cbn [fst]. lia.
    + intros c Hc. apply in_app_or in Hc. destruct Hc as [Hc|Hc].
      * destruct c as (x, y). apply cells_in in Hc. cbn [fst]. lia.
      * destruct c as (x, y). destruct (abs_in L2 R3 _ _ Hc) as (s & Hs & ? & ?). pose proof (H2 s Hs). cbn [fst]. lia.
    + apply (asc_app _ a (fl + 1) (a + len data)); try lia.
      * apply asc_cells; [lia|]. rewrite len_dropN. lia.
      * apply (asc_app _ (fl + 1) lf (a + len data)); try lia; [exact Am|].
        apply asc_cells; [lia|]. rewrite len_takeN. lia.
    + rewrite W. f_equal.
      * rewrite abs_app, abs_cons. rewrite sfirst_mk, sdata_mk.
        rewrite !cells_app. rewrite len_takeN. fold k j.
        repeat rewrite <- app_assoc. f_equal.
        destruct (N.le_gt_cases a ff) as [C|C].
        -- replace k with 0 by lia. rewrite !takeN_0. cbn [cells app].
           replace (N.min ff a + N.min 0 (len fd)) with a by lia. f_equal. f_equal. f_equal. lia.
        -- replace (N.min ff a) with ff by lia. f_equal.
           replace (ff + N.min k (len fd)) with a by lia. f_equal. f_equal. f_equal. lia.
      * f_equal. rewrite !len_app, !len_cells, len_dropN, len_takeN in F. lia.
Qed.

(* ---------- the loop over the completely overwritten middle segments ---------- *)
Lemma put_mid_loop_ok dbg : forall mm n pre post idx hi added,
  idx = len pre -> hi = idx + len mm -> (length mm <= n)%nat -> len (abs mm) <= added ->
  put_mid_loop dbg n (pre ++ mm ++ post) idx hi added = Ok (added - len (abs mm)).
Proof.
  induction mm as [|s mm IH]; intros n pre post idx hi added Hi Hh Hn Ha.
  - rewrite len_nil in Hh. change (len (abs [])) with 0. rewrite N.sub_0_r.
    destruct n as [|n]; [reflexivity|]. cbn [put_mid_loop]. destruct (idx <? hi) eqn:E; [lia|reflexivity].
  - destruct n as [|n]; [cbn [length] in Hn; lia|]. cbn [put_mid_loop]. rewrite len_cons in Hh.
    destruct (idx <? hi) eqn:E; [|lia].
    rewrite (vec_get_ok _ _ _ s) by (cbn [app]; now apply geti_app_len). cbn [bind].
    rewrite len_abs_cons in Ha. rewrite usz_sub_ok by lia. cbn [bind].
    change (pre ++ (s :: mm) ++ post) with (pre ++ [s] ++ mm ++ post). rewrite app_assoc.
    rewrite IH.
    + f_equal. rewrite len_abs_cons. lia.
    + rewrite len_app, len_cons, len_nil. lia.
    + lia.
    + cbn [length] in Hn. lia.
    + lia.
Qed.

Lemma put_mid_loop_ok' dbg L1 x mm y L2 n idx hi added :
  idx = len L1 + 1 -> hi = idx + len mm -> (length mm <= n)%nat -> len (abs mm) <= added ->
  put_mid_loop dbg n (L1 ++ x :: mm ++ y :: L2) idx hi added = Ok (added - len (abs mm)).
Proof.
  intros. change (L1 ++ x :: mm ++ y :: L2) with (L1 ++ [x] ++ mm ++ y :: L2). rewrite app_assoc.
  apply put_mid_loop_ok; try assumption. rewrite len_app, len_cons, len_nil. lia.
Qed.

Lemma drain_mid {A} (L1 : list A) sg mm ls L2 i j : len L1 = i -> len mm = j - i - 1 -> i < j ->
  takeN (i + 1) (L1 ++ sg :: mm ++ ls :: L2) ++ dropN (j + 1) (L1 ++ sg :: mm ++ ls :: L2) = L1 ++ sg :: L2.
Proof.
  intros Hi Hm L.
  replace (takeN (i + 1) (L1 ++ sg :: mm ++ ls :: L2)) with (L1 ++ [sg]).
  2:{ change (L1 ++ sg :: mm ++ ls :: L2) with (L1 ++ [sg] ++ mm ++ ls :: L2). rewrite app_assoc.
      symmetry. apply takeN_app_len. rewrite len_app, len_cons, len_nil. lia. }
  replace (dropN (j + 1) (L1 ++ sg :: mm ++ ls :: L2)) with L2.
  2:{ replace (L1 ++ sg :: mm ++ ls :: L2) with ((L1 ++ sg :: mm ++ [ls]) ++ L2).
      - symmetry. apply dropN_app_len. rewrite len_app, len_cons, len_app, len_cons, len_nil. lia.
      - rewrite <- app_assoc. cbn [app]. rewrite <- app_assoc. reflexivity. }
  rewrite <- app_assoc. reflexivity.
Qed.

