(* C15 proofs, part 4b: put in every arm (insert, replace, prepend, append, interior, merge tail). *)
From Coq Require Import PeanoNat NArith List Bool Lia ZifyBool ZifyNat ZifyN.
From Trion Require Import Mem.MapModel Mem.DictSpec Mem.MapProofs Mem.MapProofs2 Mem.MapLemmas Mem.MapPutNorm.
Import ListNotations.
Open Scope N_scope.

(* ---------- put: every arm ---------- *)
(* the model up to and including the first-segment step (hypothesis names of put_ok) *)
Ltac put_prefix m a data dl al x E1 E2 Gi Gj Etest :=
  unfold map_put; fold data; change (match data with [] => Ok (m, Some 0) | _ :: _ => ?k end) with k;
  fold dl;
  (destruct (U32MAX - a <? dl - 1) eqn:E0; [unfold SPACE, U32, U32MAX in *; lia|]);
  rewrite (N.mod_small (dl - 1) U32) by (unfold SPACE, U32, U32MAX in *; lia);
  rewrite u32_add_ok by (unfold SPACE, U32, U32MAX in *; lia); cbn [bind]; fold al;
  rewrite E1; cbn [bind]; rewrite E2; cbn [bind];
  rewrite (vec_get_ok _ _ _ _ Gj); cbn [bind]; rewrite Etest; cbn [bind];
  rewrite (vec_get_ok _ _ _ _ Gi); cbn [bind];
  let EA := fresh "EA" in
  match goal with |- bind ?X _ = _ =>
    assert (EA : X = Ok (takeN (a - sfirst x) (sdata x) ++ data ++ dropN (al + 1 - sfirst x) (sdata x),
                         dl - (N.min (slast x) al + 1 - N.max (sfirst x) a))) end;
  [ destruct (a <=? sfirst x) eqn:C1;
    [ replace (a - sfirst x) with 0 by lia; rewrite takeN_0; cbn [app];
      destruct (slast x <=? al) eqn:C2;
      [ rewrite usz_sub_ok by lia; cbn [bind]; rewrite dropN_all by lia; rewrite app_nil_r; do 2 f_equal; lia
      | rewrite u32_sub_ok by lia; cbn [bind]; rewrite usz_sub_ok by lia; cbn [bind];
        (destruct (len (sdata x) <? dl - (sfirst x - a)) eqn:C3; [lia|]);
        rewrite usz_sub_ok by lia; cbn [bind]; f_equal; (f_equal; [|lia]); do 2 f_equal; lia ]
    | destruct (slast x <? al) eqn:C2;
      [ rewrite usz_sub_ok by lia; cbn [bind]; rewrite usz_sub_ok by lia; cbn [bind];
        rewrite dropN_all by lia; rewrite app_nil_r; do 2 f_equal; lia
      | rewrite usz_add_ok by (unfold USZ, U32, SPACE in *; lia); cbn [bind];
        (destruct (a - sfirst x + dl <? a - sfirst x) eqn:C3; [lia|]);
        (destruct (len (sdata x) <? a - sfirst x + dl) eqn:C4; [lia|]);
        f_equal; (f_equal; [|lia]); do 3 f_equal; lia ] ]
  | rewrite EA; cbn [bind]; clear EA ].

Lemma put_ok dbg m a data : Rep m -> a < U32 -> a + len data <= SPACE ->
  exists m' n, map_put dbg m a data = Ok (m', Some n) /\ Rep m' /\ d_put (abs m) a data = (abs m', Some n).
Proof.
  intros HR Ha Hsp.
  destruct data as [|b0 d0].
  { exists m, 0. destruct (put_empty dbg m a) as (E1 & E2). split; [exact E1|]. split; [exact HR|]. apply E2.
    rewrite len_nil in Hsp. lia. }
  set (data := b0 :: d0) in *. assert (Hne : data <> []) by (unfold data; congruence).
  assert (Hl : 0 < len data) by (unfold data; rewrite len_cons; lia).
  set (dl := len data) in *. set (al := a + (dl - 1)).
  assert (Hal : al + 1 = a + dl) by (unfold al; lia).
  destruct (locate_ok dbg m (sat_sub1 a) Above HR) as (r1 & E1 & P1).
  destruct (locate_ok dbg m (sat_add1 al) Below HR) as (r2 & E2 & P2).
  assert (Sub : sat_sub1 a = if a =? 0 then 0 else a - 1) by reflexivity.
  assert (Sadd : sat_add1 al = if U32MAX <=? al then U32MAX else al + 1) by reflexivity.
  assert (Bal : al < U32) by (unfold SPACE, U32 in *; lia).
  (* free space: defer to the insert lemma *)
  assert (Free : (forall s, In s m -> slast s + 1 < a \/ a + len data < sfirst s) ->
                 exists m' n, map_put dbg m a data = Ok (m', Some n) /\ Rep m' /\ d_put (abs m) a data = (abs m', Some n)).
  { intros Hfree. destruct (put_insert_ok dbg m a data HR Ha Hne Hsp Hfree) as (m' & X1 & X2 & X3). eauto. }
  destruct r2 as [j|]; cbn [locate_post] in P2.
  2:{ apply Free. intros s Hs. right. destruct (In_geti _ _ Hs) as (k & Gk). pose proof (P2 k s Gk) as K.
      destruct (Rep_seg_ok m HR _ _ Gk) as (? & ? & ?). rewrite Sadd in K. unfold U32, U32MAX in *.
      destruct (0xFFFFFFFF <=? al) eqn:Z; lia. }
  destruct P2 as (y & Gj & Q1 & Q2).
  destruct (sat_sub1 a <=? slast y) eqn:Etest.
  2:{ apply Free. intros s Hs. destruct (In_geti _ _ Hs) as (k & Gk).
      destruct (N.le_gt_cases k j) as [L|L].
      - left. pose proof (Rep_mono m HR k j s y L Gk Gj). rewrite Sub in Etest. destruct (a =? 0) eqn:Z; lia.
      - right. pose proof (Q2 k s L Gk) as K. destruct (Rep_seg_ok m HR _ _ Gk) as (? & ? & ?).
        rewrite Sadd in K. unfold U32, U32MAX in *. destruct (0xFFFFFFFF <=? al) eqn:Z; lia. }
  (* touching: some segment is overlapped or adjacent *)
  assert (Ty1 : a <= slast y + 1) by (rewrite Sub in Etest; destruct (a =? 0) eqn:Z; lia).
  assert (Ty2 : sfirst y <= al + 1) by (rewrite Sadd in Q1; unfold U32, U32MAX in *; destruct (0xFFFFFFFF <=? al) eqn:Z; lia).
  destruct r1 as [i|]; cbn [locate_post] in P1.
  2:{ exfalso. pose proof (P1 j y Gj). lia. }
  destruct P1 as (x & Gi & O1 & O2).
  assert (Lij : i <= j). { destruct (N.le_gt_cases i j) as [L|L]; [exact L|]. pose proof (O2 j y L Gj). lia. }
  assert (Tx1 : a <= slast x + 1) by (rewrite Sub in O1; destruct (a =? 0) eqn:Z; lia).
  assert (F1 : forall k s, k < i -> geti m k = Some s -> slast s + 1 < a).
  { intros k s Lk Gk. pose proof (O2 k s Lk Gk) as K. rewrite Sub in K. destruct (a =? 0) eqn:Z; lia. }
  assert (F2 : forall k s, j < k -> geti m k = Some s -> al + 1 < sfirst s).
  { intros k s Lk Gk. pose proof (Q2 k s Lk Gk) as K. destruct (Rep_seg_ok m HR _ _ Gk) as (? & ? & ?).
    rewrite Sadd in K. unfold U32, U32MAX in *. destruct (0xFFFFFFFF <=? al) eqn:Z; lia. }
  pose proof (Rep_mono m HR i j x y Lij Gi Gj) as (Mxy1 & Mxy2).
  destruct (Rep_seg_ok m HR _ _ Gi) as (X1 & X2 & X3).
  destruct (Rep_seg_ok m HR _ _ Gj) as (Y1 & Y2 & Y3).
  pose proof (Rep_len m HR) as HLm. pose proof (geti_lt _ _ _ Gj) as Ljm.
  destruct (i <? j) eqn:Cij.
  - (* several segments: only the replace / append arms are possible for the first one *)
    destruct (split2 m i j x y ltac:(lia) Gi Gj) as (L1 & mm & L2 & Em & Li & Lmm & T1).
    assert (Gxy : slast x + 1 < sfirst y) by (apply (Rep_sorted m HR i j); [lia|assumption..]).
    assert (HRm : Rep (L1 ++ x :: mm ++ y :: L2)) by (rewrite <- Em; exact HR).
    assert (A1 : forall s, In s L1 -> slast s + 1 < a).
    { intros s Hs. rewrite T1 in Hs. destruct (in_takeN _ _ _ Hs) as (k & Lk & Gk). eauto. }
    assert (A2 : forall s, In s L2 -> al + 1 < sfirst s).
    { intros s Hs. rewrite Em in F2. destruct (In_geti _ _ Hs) as (k & Gk).
      apply (F2 (len (L1 ++ x :: mm ++ [y]) + k)).
      - rewrite len_app, len_cons, len_app, len_cons, len_nil. lia.
      - replace (L1 ++ x :: mm ++ y :: L2) with ((L1 ++ x :: mm ++ [y]) ++ L2)
          by (rewrite <- app_assoc; cbn [app]; rewrite <- app_assoc; reflexivity).
        rewrite geti_app_r by lia. rewrite <- Gk. f_equal. lia. }
    destruct (put_norm_multi L1 x mm y L2 a al data HRm Hne Hsp Hal A1 A2 Tx1 Ty2) as (N1 & N2 & N3).
    do 2 eexists. split; [|split; [exact N1|rewrite Em at 1; exact N3]].
    put_prefix m a data dl al x E1 E2 Gi Gj Etest. rewrite Cij.
    clear T1 E1 E2. subst m.
    rewrite put_mid_loop_ok'.
    2:{ lia. }
    2:{ lia. }
    2:{ rewrite !app_length. cbn [length]. rewrite app_length. lia. }
    2:{ lia. }
    cbn [bind]. match goal with |- context [len ?l <? j] => destruct (len l <? j) eqn:C5; [lia|] end.
    rewrite (vec_get_ok _ _ _ _ Gj). cbn [bind].
    rewrite (dropN_all (al + 1 - sfirst x)) by lia. rewrite app_nil_r.
    replace (N.min (slast x) al) with (slast x) by lia.
    match goal with |- bind ?X _ = _ =>
      assert (EB : X = Ok (takeN (a - sfirst x) (sdata x) ++ data ++ dropN (al + 1 - sfirst y) (sdata y),
                           N.max (slast y) al,
                           dl - (slast x + 1 - N.max (sfirst x) a) - len (abs mm) - (N.min (slast y) al + 1 - sfirst y))) end.
    { destruct (al <? slast y) eqn:C6.
      - replace (N.min (slast y) al) with al by lia. replace (N.max (slast y) al) with (slast y) by lia.
        rewrite usz_sub_ok by lia. cbn [bind].
        replace (len (sdata y) - (slast y - al)) with (al + 1 - sfirst y) by lia.
        destruct (len (sdata y) <? al + 1 - sfirst y) eqn:C7; [lia|].
        rewrite usz_sub_ok by lia. cbn [bind]. rewrite <- app_assoc. reflexivity.
      - replace (N.min (slast y) al) with (slast y) by lia. replace (N.max (slast y) al) with al by lia.
        rewrite (dropN_all (al + 1 - sfirst y)) by lia. rewrite app_nil_r.
        replace (len (sdata y)) with (slast y + 1 - sfirst y) by lia.
        rewrite usz_sub_ok by lia. cbn [bind]. reflexivity. }
    rewrite EB. cbn [bind]. clear EB.
    destruct (j =? USZ - 1) eqn:C8; [unfold USZ, U32 in *; lia|].
    unfold vec_drain. destruct (j + 1 <? i + 1) eqn:C9; [lia|].
    rewrite (set_nth_app_len L1 x) by lia.
    match goal with |- context [len ?l <? j + 1] => destruct (len l <? j + 1) eqn:C10 end.
    { rewrite len_app, len_cons, len_app, len_cons in C10. lia. }
    cbn [bind]. rewrite drain_mid by lia. reflexivity.
  - (* one segment *)
    assert (i = j) by lia. subst j. rewrite Gi in Gj. inversion Gj; subst y. clear Gj.
    destruct (split1 m i x Gi) as (L1 & L2 & Em & Li & T1 & T2).
    assert (HRm : Rep (L1 ++ x :: L2)) by (rewrite <- Em; exact HR).
    assert (A1 : forall s, In s L1 -> slast s + 1 < a).
    { intros s Hs. rewrite T1 in Hs. destruct (in_takeN _ _ _ Hs) as (k & Lk & Gk). eauto. }
    assert (A2 : forall s, In s L2 -> al + 1 < sfirst s).
    { intros s Hs. rewrite T2 in Hs. destruct (in_dropN _ _ _ Hs) as (k & Lk & Gk). apply (F2 k); [lia|exact Gk]. }
    destruct (put_norm_single L1 x L2 a al data HRm Hne Hsp Hal A1 A2 Tx1 Ty2) as (N1 & N2).
    do 2 eexists. split; [|split; [exact N1|rewrite Em at 1; exact N2]].
    put_prefix m a data dl al x E1 E2 Gi Gi Etest. rewrite Cij.
    rewrite Em. rewrite (set_nth_app_len L1 x) by lia. reflexivity.
Qed.
