(* C15 proofs, part 2: count(). *)
From Coq Require Import NArith List Bool Lia ZifyBool ZifyNat ZifyN.
From Trion Require Import Mem.MapModel Mem.DictSpec Mem.MapProofs.
Import ListNotations.
Open Scope N_scope.

Fixpoint sumd (m : mmap) : N := match m with [] => 0 | s :: r => (slast s - sfirst s) + sumd r end.

Lemma len_cells a d : len (cells a d) = len d.
Proof. revert a. induction d as [|b d IH]; intros a; [reflexivity|]. cbn [cells]. rewrite !len_cons, IH. reflexivity. Qed.

Lemma sumd_abs m : Rep m -> sumd m + len m = len (abs m).
Proof.
  induction m as [|s r IH]; intros H; [reflexivity|].
  rewrite abs_cons, len_app, len_cells, len_cons. cbn [sumd].
  pose proof (IH (Rep_tail _ _ H)). destruct (Rep_head _ _ H) as (? & ? & L). lia.
Qed.

(* all occupied addresses and one separator per gap fit below 2^32 *)
Lemma abs_bound : forall r s, Rep (s :: r) -> sfirst s + len (abs (s :: r)) + len (s :: r) <= U32 + 1.
Proof.
  induction r as [|t r IH]; intros s H.
  - rewrite abs_cons, len_app, len_cells. cbn [abs flat_map]. rewrite !len_cons. change (len (@nil seg)) with 0. change (len (@nil (N * N))) with 0.
    destruct (Rep_head _ _ H) as (? & ? & L). unfold U32 in *. lia.
  - pose proof (IH t (Rep_tail _ _ H)) as K.
    rewrite abs_cons, len_app, len_cells, (len_cons s).
    destruct H as ((? & ? & L) & G & _). lia.
Qed.

Lemma count_loop_ok dbg : forall m addrs, (forall s, In s m -> sfirst s <= slast s) -> addrs + sumd m < U32 ->
  count_loop dbg m addrs = Ok (addrs + sumd m).
Proof.
  induction m as [|s r IH]; intros addrs H B; [cbn [count_loop sumd]; f_equal; lia|].
  cbn [count_loop sumd] in *. rewrite u32_sub_ok by (apply H; now left). cbn [bind].
  rewrite u32_add_ok by lia. cbn [bind]. rewrite IH; [f_equal; lia| |lia].
  intros x Hx. apply H. now right.
Qed.

(* count(): no panic (the `+=` cannot overflow), number of occupied addresses (saturating at 2^32-1, which only
   the completely full map reaches) and number of runs *)
Lemma count_ok dbg m : Rep m -> map_count dbg m = Ok (d_count (abs m)).
Proof.
  intros HR. unfold map_count, d_count. rewrite (iter_is_runs _ HR). unfold map_iter. fold (len m). fold (len (abs m)).
  pose proof (sumd_abs m HR) as S.
  assert (B : sumd m < U32 /\ len m < U32).
  { destruct m as [|s r]; [cbn [sumd]; change (len (@nil seg)) with 0; unfold U32; lia|].
    pose proof (abs_bound r s HR) as K. rewrite len_cons in K. rewrite len_cons in S. rewrite len_cons. unfold U32 in *. lia. }
  rewrite count_loop_ok.
  - cbn [bind]. rewrite N.mod_small by lia. unfold sat_add32, sat32. f_equal. f_equal.
    rewrite N.add_0_l, S. unfold SPACE, U32MAX. reflexivity.
  - intros s Hs. destruct (In_geti _ _ Hs) as (j & Gj). destruct (Rep_seg_ok m HR _ _ Gj) as (? & _). assumption.
  - lia.
Qed.
