(* C15 oracle: a plain address-indexed dictionary.  Independent of the map code; no proofs here.

   dict  = association list (address, byte), strictly ascending in the address (the canonical
           listing of a finite partial function  address -> byte);
   d_get = the function view.
   Operations are written cell by cell; `runs` groups consecutive addresses; every lookup result
   the map reports is defined from `runs` of the dictionary (restricted to the queried range). *)
From Coq Require Import NArith List Bool.
Import ListNotations.
Open Scope N_scope.

Definition dict : Type := list (N * N).
Definition run : Type := (N * N * list N)%type.        (* first, last, bytes *)

Definition SPACE : N := 0x100000000.                    (* addresses are 0 .. 2^32-1 *)

Definition d_empty : dict := [].

Fixpoint d_get (d : dict) (a : N) : option N :=
  match d with
  | [] => None
  | (x, y) :: r => if x =? a then Some y else d_get r a
  end.

(* set one cell, keeping the listing ascending *)
Fixpoint d_set (d : dict) (a b : N) : dict :=
  match d with
  | [] => [(a, b)]
  | (x, y) :: r => if a <? x then (a, b) :: d else if a =? x then (a, b) :: r else (x, y) :: d_set r a b
  end.

(* write data[0..] to a, a+1, ... *)
Fixpoint d_write (d : dict) (a : N) (data : list N) : dict :=
  match data with
  | [] => d
  | b :: bs => d_write (d_set d a b) (a + 1) bs
  end.

(* number of addresses in a, a+1, ..., a+|data|-1 that are unoccupied *)
Fixpoint d_fresh (d : dict) (a : N) (data : list N) : N :=
  match data with
  | [] => 0
  | _ :: bs => (match d_get d a with None => 1 | Some _ => 0 end) + d_fresh d (a + 1) bs
  end.

(* put: data that would run past 2^32-1 is rejected (None) and the dictionary is unchanged;
   otherwise the cells are written and the number of previously unoccupied ones is reported *)
Definition d_put (d : dict) (a : N) (data : list N) : dict * option N :=
  if SPACE <? a + N.of_nat (length data) then (d, None)
  else (d_write d a data, Some (d_fresh d a data)).

(* the dictionary restricted to / without the addresses f..l *)
Definition in_range (f l x : N) : bool := (f <=? x) && (x <=? l).
Definition d_restrict (d : dict) (f l : N) : dict := filter (fun c => in_range f l (fst c)) d.
Definition d_remove_range (d : dict) (f l : N) : dict := filter (fun c => negb (in_range f l (fst c))) d.
Definition d_clear (d : dict) : dict := [].

(* maximal runs of consecutive occupied addresses, ascending, with their bytes *)
Fixpoint runs (d : dict) : list run :=
  match d with
  | [] => []
  | (a, b) :: r =>
    match runs r with
    | (f, l, bs) :: rs => if f =? a + 1 then (a, l, b :: bs) :: rs else (a, a, [b]) :: (f, l, bs) :: rs
    | [] => [(a, a, [b])]
    end
  end.

Definition rfirst (r : run) : N := fst (fst r).
Definition rlast (r : run) : N := snd (fst r).
Definition rdata (r : run) : list N := snd r.

(* the run containing a / the last run starting at or below a / the first run ending at or above a *)
Definition run_exact (rs : list run) (a : N) : option run :=
  find (fun r => (rfirst r <=? a) && (a <=? rlast r)) rs.
Definition run_below (rs : list run) (a : N) : option run :=
  find (fun r => rfirst r <=? a) (rev rs).
Definition run_above (rs : list run) (a : N) : option run :=
  find (fun r => a <=? rlast r) rs.

(* remove(addr): the maximal run containing addr is taken out and returned *)
Definition d_remove_run (d : dict) (a : N) : dict * option run :=
  match run_exact (runs d) a with
  | None => (d, None)
  | Some r => (d_remove_range d (rfirst r) (rlast r), Some r)
  end.

(* ---- what the map's queries must answer ---- *)
Definition d_iter (d : dict) : list run := runs d.
Definition d_len (d : dict) : N := N.of_nat (length (runs d)).

Inductive mode := MExact | MBelow | MAbove.
Definition d_find_run (d : dict) (a : N) (md : mode) : option run :=
  match md with
  | MExact => run_exact (runs d) a
  | MBelow => run_below (runs d) a
  | MAbove => run_above (runs d) a
  end.
Definition d_find (d : dict) (a : N) (md : mode) : option (N * N) :=
  option_map (fun r => (rfirst r, rlast r)) (d_find_run d a md).
(* get(addr, Exact): the run's range and its bytes from addr to the end of the run *)
Definition d_get_exact (d : dict) (a : N) : option run :=
  option_map (fun r => (rfirst r, rlast r, skipn (N.to_nat (a - rfirst r)) (rdata r))) (run_exact (runs d) a).

(* a u32 cannot hold 2^32: the address count saturates at 2^32-1 *)
Definition sat32 (n : N) : N := N.min n (SPACE - 1).
Definition d_count (d : dict) : N * N := (sat32 (N.of_nat (length d)), N.of_nat (length (runs d))).
Definition d_count_range (d : dict) (f l : N) : N * N :=
  let r := d_restrict d f l in (sat32 (N.of_nat (length r)), N.of_nat (length (runs r))).
Definition d_iter_range (d : dict) (f l : N) : list run := runs (d_restrict d f l).
