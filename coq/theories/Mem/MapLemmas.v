(* C15 proofs, part 3: list-index toolkit, ascending dictionaries, cell-level facts about
   d_write / d_fresh / filter that the write-side proofs (put, remove_range, range queries) share. *)
From Coq Require Import PeanoNat NArith List Bool Lia ZifyBool ZifyNat ZifyN.
From Trion Require Import Mem.MapModel Mem.DictSpec Mem.MapProofs Mem.MapProofs2.
Import ListNotations.
Open Scope N_scope.

(* ---------- takeN / dropN / geti / set_nth on concrete shapes ---------- *)
Lemma len_takeN {A} k (l : list A) : len (takeN k l) = N.min k (len l).
Proof. rewrite takeN_firstn. unfold len. rewrite firstn_length. lia. Qed.
Lemma len_dropN {A} k (l : list A) : len (dropN k l) = len l - k.
Proof. rewrite dropN_skipn. unfold len. rewrite skipn_length. lia. Qed.
Lemma takeN_0 {A} (l : list A) : takeN 0 l = [].
Proof. rewrite takeN_firstn. reflexivity. Qed.
Lemma dropN_0 {A} (l : list A) : dropN 0 l = l.
Proof. rewrite dropN_skipn. reflexivity. Qed.
Lemma takeN_all {A} k (l : list A) : len l <= k -> takeN k l = l.
Proof. intros H. unfold takeN. destruct (len l <=? k) eqn:E; [reflexivity|lia]. Qed.
Lemma dropN_all {A} k (l : list A) : len l <= k -> dropN k l = [].
Proof. intros H. unfold dropN. destruct (len l <=? k) eqn:E; [reflexivity|lia]. Qed.
Lemma takeN_cons {A} k (x : A) l : 0 < k -> takeN k (x :: l) = x :: takeN (k - 1) l.
Proof.
  intros H. rewrite !takeN_firstn. replace (N.to_nat k) with (S (N.to_nat (k - 1))) by lia. reflexivity.
Qed.
Lemma dropN_cons {A} k (x : A) l : 0 < k -> dropN k (x :: l) = dropN (k - 1) l.
Proof.
  intros H. rewrite !dropN_skipn. replace (N.to_nat k) with (S (N.to_nat (k - 1))) by lia. reflexivity.
Qed.
Lemma takeN_app_len {A} (l1 l2 : list A) k : k = len l1 -> takeN k (l1 ++ l2) = l1.
Proof.
  intros ->. rewrite takeN_firstn. unfold len. rewrite Nat2N.id.
  rewrite firstn_app, Nat.sub_diag, firstn_all. cbn [firstn]. apply app_nil_r.
Qed.
Lemma dropN_app_len {A} (l1 l2 : list A) k : k = len l1 -> dropN k (l1 ++ l2) = l2.
Proof.
  intros ->. rewrite dropN_skipn. unfold len. rewrite Nat2N.id.
  rewrite skipn_app, Nat.sub_diag, skipn_all. reflexivity.
Qed.
Lemma geti_app_len {A} (l1 : list A) x l2 k : k = len l1 -> geti (l1 ++ x :: l2) k = Some x.
Proof.
  intros ->. unfold geti, len. rewrite Nat2N.id. rewrite nth_error_app2 by lia. now rewrite Nat.sub_diag.
Qed.
Lemma geti_app_r {A} (l1 l2 : list A) k : len l1 <= k -> geti (l1 ++ l2) k = geti l2 (k - len l1).
Proof.
  intros H. unfold geti, len in *. rewrite nth_error_app2 by lia. f_equal. lia.
Qed.
Lemma geti_app_l {A} (l1 l2 : list A) k : k < len l1 -> geti (l1 ++ l2) k = geti l1 k.
Proof. intros H. unfold geti, len in *. apply nth_error_app1. lia. Qed.
Lemma set_nth_app_len {A} (l1 : list A) x l2 k y : k = len l1 -> set_nth (l1 ++ x :: l2) k y = l1 ++ y :: l2.
Proof.
  intros ->. unfold set_nth. rewrite takeN_app_len by reflexivity. f_equal. f_equal.
  change (l1 ++ x :: l2) with (l1 ++ [x] ++ l2). rewrite app_assoc. apply dropN_app_len.
  rewrite len_app, len_cons, len_nil. lia.
Qed.
Lemma In_app_geti {A} (l1 l2 : list A) y : In y l1 -> exists j, j < len l1 /\ geti (l1 ++ l2) j = Some y.
Proof.
  intros H. destruct (In_geti _ _ H) as (j & G). exists j. pose proof (geti_lt _ _ _ G). split; [assumption|].
  now rewrite geti_app_l.
Qed.
Lemma In_app_geti_r {A} (l1 l2 : list A) y : In y l2 -> exists j, len l1 <= j /\ geti (l1 ++ l2) j = Some y.
Proof.
  intros H. destruct (In_geti _ _ H) as (j & G). exists (len l1 + j). split; [lia|].
  rewrite geti_app_r by lia. now replace (len l1 + j - len l1) with j by lia.
Qed.

(* a list cut at one index *)
Lemma split1 {A} (l : list A) i x : geti l i = Some x ->
  exists l1 l2, l = l1 ++ x :: l2 /\ len l1 = i /\ l1 = takeN i l /\ l2 = dropN (i + 1) l.
Proof.
  intros G. exists (takeN i l), (dropN (i + 1) l). split; [symmetry; now apply split_at|].
  split; [|split; reflexivity]. rewrite len_takeN. apply geti_lt in G. lia.
Qed.
(* a list cut at two indices *)
Lemma split2 {A} (l : list A) i j x y : i < j -> geti l i = Some x -> geti l j = Some y ->
  exists l1 mm l2, l = l1 ++ x :: mm ++ y :: l2 /\ len l1 = i /\ len mm = j - i - 1 /\ l1 = takeN i l.
Proof.
  intros L Gi Gj. destruct (split1 l i x Gi) as (l1 & r & E & L1 & T1 & _).
  assert (Gr : geti r (j - i - 1) = Some y).
  { rewrite E in Gj. rewrite geti_app_r in Gj by lia. rewrite L1 in Gj. rewrite geti_S in Gj by lia. exact Gj. }
  destruct (split1 r (j - i - 1) y Gr) as (mm & l2 & E2 & L2 & _ & _).
  exists l1, mm, l2. subst r. repeat split; assumption.
Qed.

Ltac lens := rewrite ?len_app, ?len_cons, ?len_nil in *; lia.

(* ---------- cells ---------- *)
Lemma cells_app a d1 d2 : cells a (d1 ++ d2) = cells a d1 ++ cells (a + len d1) d2.
Proof.
  revert a. induction d1 as [|b d1 IH]; intros a.
  - cbn [app cells]. rewrite len_nil. f_equal. lia.
  - cbn [app cells]. rewrite IH. do 3 f_equal. rewrite len_cons. lia.
Qed.
Lemma cells_nil a : cells a [] = []. Proof. reflexivity. Qed.
Lemma cells_split a d k : cells a d = cells a (takeN k d) ++ cells (a + k) (dropN k d).
Proof.
  destruct (N.le_gt_cases (len d) k) as [H|H].
  - rewrite takeN_all, dropN_all by assumption. now rewrite cells_nil, app_nil_r.
  - rewrite <- (take_drop d k) at 1. rewrite cells_app. do 2 f_equal. rewrite len_takeN. lia.
Qed.
Lemma len_abs_cons s r : len (abs (s :: r)) = len (sdata s) + len (abs r).
Proof. rewrite abs_cons, len_app, len_cells. reflexivity. Qed.

(* ---------- ascending dictionaries with keys in [lo, hi) ---------- *)
Fixpoint asc (lo hi : N) (d : dict) : Prop :=
  match d with [] => True | c :: r => lo <= fst c /\ fst c < hi /\ asc (fst c + 1) hi r end.

Lemma asc_weaken d : forall lo lo' hi hi', lo' <= lo -> hi <= hi' -> asc lo hi d -> asc lo' hi' d.
Proof.
  induction d as [|c r IH]; intros lo lo' hi hi' H1 H2 H; [exact I|].
  cbn [asc] in *. destruct H as (A & B & C). repeat split; try lia. eapply IH; [| |exact C]; lia.
Qed.
Lemma asc_cells d : forall lo hi a, lo <= a -> a + len d <= hi -> asc lo hi (cells a d).
Proof.
  induction d as [|b d IH]; intros lo hi a H1 H2; [exact I|].
  cbn [cells asc fst]. rewrite len_cons in H2. repeat split; try lia. apply IH; lia.
Qed.
Lemma asc_app d1 : forall lo k hi d2, lo <= k -> k <= hi -> asc lo k d1 -> asc k hi d2 -> asc lo hi (d1 ++ d2).
Proof.
  induction d1 as [|c r IH]; intros lo k hi d2 H1 H2 A1 A2.
  - cbn [app]. eapply asc_weaken; [| |exact A2]; lia.
  - cbn [app asc] in *. destruct A1 as (A & B & C). repeat split; try lia. eapply IH; [| |exact C|exact A2]; lia.
Qed.
Lemma asc_in d : forall lo hi c, asc lo hi d -> In c d -> lo <= fst c /\ fst c < hi.
Proof.
  induction d as [|c0 r IH]; intros lo hi c A H; [destruct H|].
  cbn [asc] in A. destruct A as (A & B & C). destruct H as [<-|H]; [lia|].
  pose proof (IH _ _ _ C H). lia.
Qed.
Lemma asc_len d : forall lo hi, asc lo hi d -> len d <= hi - lo.
Proof.
  induction d as [|c r IH]; intros lo hi A; [rewrite len_nil; lia|].
  cbn [asc] in A. destruct A as (A & B & C). pose proof (IH _ _ C). rewrite len_cons. lia.
Qed.
Lemma asc_abs m : forall lo hi, Rep m -> (forall s, In s m -> lo <= sfirst s /\ slast s < hi) -> asc lo hi (abs m).
Proof.
  induction m as [|s r IH]; intros lo hi HR H; [exact I|].
  apply Rep_cons_iff in HR. destruct HR as ((S1 & S2 & S3) & G & HR). rewrite Forall_forall in G.
  pose proof (H s (or_introl eq_refl)) as (B1 & B2). rewrite abs_cons.
  apply (asc_app _ lo (slast s + 1) hi); try lia.
  - apply asc_cells; lia.
  - apply IH; [exact HR|]. intros t Ht. pose proof (G t Ht) as K. unfold gap in K.
    pose proof (H t (or_intror Ht)). lia.
Qed.

(* ---------- writing over an ascending middle part ---------- *)
Lemma d_write_over : forall data l1 M l2 a,
  (forall c, In c l1 -> fst c < a) -> (forall c, In c l2 -> a + len data <= fst c) ->
  asc a (a + len data) M ->
  d_write (l1 ++ M ++ l2) a data = l1 ++ cells a data ++ l2 /\
  d_fresh (l1 ++ M ++ l2) a data + len M = len data.
Proof.
  induction data as [|b bs IH]; intros l1 M l2 a H1 H2 A.
  - destruct M as [|c M]; [|cbn [asc] in A; rewrite len_nil in A; lia]. split; reflexivity.
  - cbn [d_write d_fresh cells]. rewrite len_cons in *.
    assert (Hset : exists M', d_set (l1 ++ M ++ l2) a b = (l1 ++ [(a, b)]) ++ M' ++ l2 /\ asc (a + 1) (a + 1 + len bs) M' /\
                   (match d_get (l1 ++ M ++ l2) a with None => 1 | Some _ => 0 end) + len M = 1 + len M').
    { assert (G1 : forall r, d_get (l1 ++ r) a = d_get r a).
      { clear - H1. induction l1 as [|(x, y) l1 IHl]; intros r; [reflexivity|]. cbn [app d_get].
        pose proof (H1 (x, y) (or_introl eq_refl)) as K. cbn [fst] in K. destruct (x =? a) eqn:E; [lia|].
        apply IHl. intros c Hc. apply H1. now right. }
      destruct M as [|(x, y) M].
      - exists []. cbn [app]. split; [|split; [exact I|]].
        + rewrite d_set_mid; [now rewrite <- app_assoc|exact H1|]. intros c Hc. pose proof (H2 c Hc). lia.
        + rewrite G1. rewrite d_get_none; [reflexivity|]. intros c Hc. pose proof (H2 c Hc). lia.
      - cbn [asc fst] in A. destruct A as (A1 & A2 & A3). destruct (N.eq_dec x a) as [->|Ne].
        + exists M. split; [|split].
          * rewrite <- app_assoc. cbn [app]. clear - H1. induction l1 as [|(x, y0) l1 IHl].
            -- cbn [app d_set]. destruct (a <? a) eqn:E; [lia|]. now rewrite N.eqb_refl.
            -- cbn [app d_set]. pose proof (H1 (x, y0) (or_introl eq_refl)) as K. cbn [fst] in K.
               destruct (a <? x) eqn:E; [lia|]. destruct (a =? x) eqn:E2; [lia|]. f_equal. apply IHl.
               intros c Hc. apply H1. now right.
          * eapply asc_weaken; [| |exact A3]; lia.
          * rewrite G1. cbn [app d_get]. rewrite N.eqb_refl. rewrite len_cons. lia.
        + exists ((x, y) :: M). split; [|split].
          * rewrite <- app_assoc. cbn [app]. apply d_set_mid; [exact H1|].
            intros c [<-|Hc]; [cbn [fst]; lia|]. apply in_app_or in Hc. destruct Hc as [Hc|Hc].
            -- pose proof (asc_in _ _ _ _ A3 Hc). lia.
            -- pose proof (H2 c Hc). lia.
          * cbn [asc fst]. repeat split; try lia. eapply asc_weaken; [| |exact A3]; lia.
          * rewrite G1. rewrite d_get_none; [lia|]. intros c [<-|Hc]; [cbn [fst]; lia|].
            apply in_app_or in Hc. destruct Hc as [Hc|Hc].
            -- pose proof (asc_in _ _ _ _ A3 Hc). lia.
            -- pose proof (H2 c Hc). lia. }
    destruct Hset as (M' & E & A' & Cnt). rewrite E.
    destruct (IH (l1 ++ [(a, b)]) M' l2 (a + 1)) as (W & F).
    + intros c Hc. apply in_app_or in Hc. destruct Hc as [Hc|[<-|[]]]; [pose proof (H1 c Hc); lia|cbn [fst]; lia].
    + intros c Hc. pose proof (H2 c Hc). lia.
    + exact A'.
    + split.
      * rewrite W. rewrite <- app_assoc. reflexivity.
      * (* d_fresh of the updated dictionary at later addresses equals that of the old one *)
        assert (Same : forall bs' a', a < a' -> d_fresh (d_set (l1 ++ M ++ l2) a b) a' bs' = d_fresh (l1 ++ M ++ l2) a' bs').
        { generalize (l1 ++ M ++ l2). intros d. induction bs' as [|b' bs' IHb]; intros a' La; [reflexivity|].
          cbn [d_fresh]. rewrite IHb by lia. f_equal.
          assert (Gs : d_get (d_set d a b) a' = d_get d a').
          { clear - La. induction d as [|(x, y) d IHd].
            - cbn [d_set d_get]. destruct (a =? a') eqn:E; [lia|reflexivity].
            - cbn [d_set]. destruct (a <? x) eqn:E1.
              + cbn [d_get]. destruct (a =? a') eqn:E; [lia|reflexivity].
              + destruct (a =? x) eqn:E2.
                * cbn [d_get]. destruct (a =? a') eqn:E; [lia|]. destruct (x =? a') eqn:E3; [lia|reflexivity].
                * cbn [d_get]. destruct (x =? a'); [reflexivity|apply IHd]. }
          now rewrite Gs. }
        rewrite <- E in F. rewrite Same in F by lia. lia.
Qed.

(* ---------- filters over cells ---------- *)
Lemma filter_cells_out f l : f <= l -> forall d a,
  filter (fun c => negb (in_range f l (fst c))) (cells a d)
  = cells a (takeN (f - a) d) ++ cells (N.max a (l + 1)) (dropN (l + 1 - a) d).
Proof.
  intros Hfl. induction d as [|b d IH]; intros a.
  { rewrite takeN_all, dropN_all by (rewrite len_nil; lia). reflexivity. }
  cbn [cells filter fst]. rewrite IH. unfold in_range.
  destruct (N.lt_ge_cases a f) as [C1|C1].
  - destruct ((f <=? a) && (a <=? l)) eqn:E; [lia|]. cbn [negb].
    rewrite (takeN_cons (f - a)) by lia. rewrite (dropN_cons (l + 1 - a)) by lia. cbn [cells app].
    replace (f - a - 1) with (f - (a + 1)) by lia. replace (l + 1 - a - 1) with (l + 1 - (a + 1)) by lia.
    replace (N.max (a + 1) (l + 1)) with (N.max a (l + 1)) by lia. reflexivity.
  - destruct (N.le_gt_cases a l) as [C2|C2].
    + destruct ((f <=? a) && (a <=? l)) eqn:E; [|lia]. cbn [negb].
      replace (f - a) with 0 by lia. replace (f - (a + 1)) with 0 by lia. rewrite !takeN_0.
      rewrite (dropN_cons (l + 1 - a)) by lia. cbn [cells app].
      replace (l + 1 - a - 1) with (l + 1 - (a + 1)) by lia.
      replace (N.max (a + 1) (l + 1)) with (N.max a (l + 1)) by lia. reflexivity.
    + destruct ((f <=? a) && (a <=? l)) eqn:E; [lia|]. cbn [negb].
      replace (f - a) with 0 by lia. replace (f - (a + 1)) with 0 by lia. rewrite !takeN_0.
      replace (l + 1 - a) with 0 by lia. replace (l + 1 - (a + 1)) with 0 by lia. rewrite !dropN_0.
      replace (N.max (a + 1) (l + 1)) with (a + 1) by lia. replace (N.max a (l + 1)) with a by lia. reflexivity.
Qed.

Lemma filter_cells_in f l : forall d a,
  filter (fun c => in_range f l (fst c)) (cells a d)
  = cells (N.max a f) (takeN (l + 1 - N.max a f) (dropN (f - a) d)).
Proof.
  induction d as [|b d IH]; intros a.
  { rewrite (dropN_all (f - a)) by (rewrite len_nil; lia). rewrite takeN_all by (rewrite len_nil; lia). reflexivity. }
  cbn [cells filter fst]. rewrite IH. unfold in_range.
  destruct (N.lt_ge_cases a f) as [C1|C1].
  - destruct ((f <=? a) && (a <=? l)) eqn:E; [lia|].
    rewrite (dropN_cons (f - a)) by lia. replace (f - a - 1) with (f - (a + 1)) by lia.
    replace (N.max (a + 1) f) with (N.max a f) by lia. reflexivity.
  - destruct (N.le_gt_cases a l) as [C2|C2].
    + destruct ((f <=? a) && (a <=? l)) eqn:E; [|lia].
      replace (f - a) with 0 by lia. replace (f - (a + 1)) with 0 by lia. rewrite !dropN_0.
      replace (N.max a f) with a by lia. replace (N.max (a + 1) f) with (a + 1) by lia.
      rewrite (takeN_cons (l + 1 - a)) by lia. cbn [cells]. do 3 f_equal. lia.
    + destruct ((f <=? a) && (a <=? l)) eqn:E; [lia|].
      replace (l + 1 - N.max a f) with 0 by lia. replace (l + 1 - N.max (a + 1) f) with 0 by lia.
      now rewrite !takeN_0.
Qed.

(* filters that keep / drop a whole well-formed map *)
Lemma filter_abs_all (p : N * N -> bool) m : Rep m ->
  (forall s x y, In s m -> sfirst s <= x -> x <= slast s -> p (x, y) = true) -> filter p (abs m) = abs m.
Proof.
  intros HR H. apply filter_all. intros (x, y) Hin. destruct (abs_in m HR _ _ Hin) as (s & Hs & ? & ?). eauto.
Qed.
Lemma filter_abs_none (p : N * N -> bool) m : Rep m ->
  (forall s x y, In s m -> sfirst s <= x -> x <= slast s -> p (x, y) = false) -> filter p (abs m) = [].
Proof.
  intros HR H. apply filter_none. intros (x, y) Hin. destruct (abs_in m HR _ _ Hin) as (s & Hs & ? & ?). eauto.
Qed.

(* ---------- Rep of sub-lists and of shrunk segments ---------- *)
Lemma Rep_app_l l1 l2 : Rep (l1 ++ l2) -> Rep l1.
Proof. intros H. apply Rep_app_iff in H. tauto. Qed.
Lemma Rep_app_r l1 l2 : Rep (l1 ++ l2) -> Rep l2.
Proof. intros H. apply Rep_app_iff in H. tauto. Qed.
Lemma Rep_In_ok m s : Rep m -> In s m -> seg_ok s.
Proof. intros H Hs. destruct (In_geti _ _ Hs) as (j & G). eapply Rep_seg_ok; eauto. Qed.
