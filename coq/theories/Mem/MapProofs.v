(* C15 proofs: MapModel |= DictSpec.  Part 1: representation invariant, abstraction, primitives, locate. *)
From Coq Require Import NArith List Bool Lia ZifyBool ZifyNat ZifyN.
From Trion Require Import Mem.MapModel Mem.DictSpec.
Import ListNotations.
Open Scope N_scope.

(* ---------- representation invariant and abstraction ---------- *)
Definition seg_ok (s : seg) : Prop :=
  sfirst s <= slast s /\ slast s < U32 /\ len (sdata s) = slast s - sfirst s + 1.

(* sorted, non-empty, sized, below 2^32, and at least one free address between neighbours *)
Fixpoint Rep (m : mmap) : Prop :=
  match m with
  | [] => True
  | s :: r => seg_ok s /\ match r with [] => True | t :: _ => slast s + 1 < sfirst t end /\ Rep r
  end.

Fixpoint cells (a : N) (data : list N) : dict :=
  match data with [] => [] | b :: bs => (a, b) :: cells (a + 1) bs end.
Definition abs (m : mmap) : dict := flat_map (fun s => cells (sfirst s) (sdata s)) m.

Definition geti {A} (l : list A) (i : N) : option A := nth_error l (N.to_nat i).

(* ---------- small facts ---------- *)
Lemma len_nil {A} : len (@nil A) = 0. Proof. reflexivity. Qed.
Lemma len_cons {A} (x : A) l : len (x :: l) = len l + 1.
Proof. unfold len. cbn [length]. lia. Qed.
Lemma len_app {A} (l1 l2 : list A) : len (l1 ++ l2) = len l1 + len l2.
Proof. unfold len. rewrite app_length. lia. Qed.

Lemma geti_lt {A} (l : list A) i x : geti l i = Some x -> i < len l.
Proof.
  unfold geti, len. intros H.
  assert (N.to_nat i < length l)%nat by (apply nth_error_Some; congruence). lia.
Qed.

Lemma geti_some {A} (l : list A) i : i < len l -> exists x, geti l i = Some x.
Proof.
  unfold geti, len. intros H. destruct (nth_error l (N.to_nat i)) eqn:E; [eauto|].
  apply nth_error_None in E. lia.
Qed.

Lemma geti_0 {A} (x : A) l : geti (x :: l) 0 = Some x. Proof. reflexivity. Qed.
Lemma geti_S {A} (x : A) l i : 0 < i -> geti (x :: l) i = geti l (i - 1).
Proof.
  intros H. unfold geti. replace (N.to_nat i) with (S (N.to_nat (i - 1))) by lia. reflexivity.
Qed.

Lemma vec_get_ok {A} (l : list A) i s x : geti l i = Some x -> vec_get l i s = Ok x.
Proof.
  intros H. unfold vec_get. pose proof (geti_lt _ _ _ H) as L.
  destruct (i <? len l) eqn:E; [|lia]. unfold geti in H. now rewrite H.
Qed.

Lemma Rep_tail s r : Rep (s :: r) -> Rep r.
Proof. cbn [Rep]. tauto. Qed.
Lemma Rep_head s r : Rep (s :: r) -> seg_ok s.
Proof. cbn [Rep]. tauto. Qed.

(* every later segment starts at least two addresses after the head's last *)
Lemma Rep_head_lt s r : Rep (s :: r) -> forall j y, geti r j = Some y -> slast s + 1 < sfirst y.
Proof.
  revert s. induction r as [|t r IH]; intros s H j y G.
  - unfold geti in G. destruct (N.to_nat j); discriminate.
  - destruct H as (Hs & Hlt & Hr).
    destruct (N.eq_dec j 0) as [->|Nz].
    + rewrite geti_0 in G. inversion G; subst. exact Hlt.
    + rewrite geti_S in G by lia.
      pose proof (IH t Hr _ _ G) as K. destruct Hr as ((K1 & _) & _). lia.
Qed.

Lemma Rep_seg_ok m : Rep m -> forall i x, geti m i = Some x -> seg_ok x.
Proof.
  induction m as [|s r IH]; intros H i x G.
  - unfold geti in G. destruct (N.to_nat i); discriminate.
  - destruct (N.eq_dec i 0) as [->|Nz].
    + rewrite geti_0 in G. inversion G; subst. now apply Rep_head in H.
    + rewrite geti_S in G by lia. eapply IH; eauto. now apply Rep_tail in H.
Qed.

Lemma Rep_sorted m : Rep m -> forall i j x y, i < j -> geti m i = Some x -> geti m j = Some y ->
  slast x + 1 < sfirst y.
Proof.
  induction m as [|s r IH]; intros H i j x y L Gi Gj.
  - unfold geti in Gi. destruct (N.to_nat i); discriminate.
  - rewrite (geti_S s r j) in Gj by lia.
    destruct (N.eq_dec i 0) as [->|Nz].
    + rewrite geti_0 in Gi. inversion Gi; subst. eapply Rep_head_lt; eauto.
    + rewrite geti_S in Gi by lia. apply Rep_tail in H. eapply (IH H (i - 1) (j - 1)); eauto. lia.
Qed.

Lemma Rep_mono m : Rep m -> forall i j x y, i <= j -> geti m i = Some x -> geti m j = Some y ->
  sfirst x <= sfirst y /\ slast x <= slast y.
Proof.
  intros H i j x y L Gi Gj. destruct (N.eq_dec i j) as [->|Ne].
  - rewrite Gi in Gj. inversion Gj; subst. lia.
  - pose proof (Rep_sorted m H i j x y ltac:(lia) Gi Gj).
    destruct (Rep_seg_ok m H _ _ Gi) as (? & ? & ?). destruct (Rep_seg_ok m H _ _ Gj) as (? & ? & ?). lia.
Qed.

(* the i-th segment starts at or after address 2i: at most 2^31 segments *)
Lemma Rep_index_le' m : Rep m -> forall lo, (forall y, geti m 0 = Some y -> lo <= sfirst y) ->
  forall i x, geti m i = Some x -> lo + 2 * i <= sfirst x.
Proof.
  induction m as [|s r IH]; intros H lo Hlo i x G.
  - unfold geti in G. destruct (N.to_nat i); discriminate.
  - destruct (N.eq_dec i 0) as [->|Nz]; [pose proof (Hlo _ G); lia|].
    pose proof G as G'. rewrite geti_S in G' by lia.
    pose proof (Hlo s (geti_0 s r)) as L0. destruct (Rep_head _ _ H) as (S1 & _ & _).
    assert (K : lo + 2 + 2 * (i - 1) <= sfirst x).
    { apply (IH (Rep_tail _ _ H) (lo + 2)); [|exact G'].
      intros y Gy. pose proof (Rep_head_lt s r H _ _ Gy). lia. }
    lia.
Qed.
Lemma Rep_index_le m : Rep m -> forall i x, geti m i = Some x -> 2 * i <= sfirst x.
Proof. intros H i x G. pose proof (Rep_index_le' m H 0 ltac:(intros; lia) i x G). lia. Qed.

Lemma Rep_len m : Rep m -> len m <= U32.
Proof.
  intros H. destruct (N.eq_dec (len m) 0) as [E|Nz]; [rewrite E; unfold U32; lia|].
  destruct (geti_some m (len m - 1)) as [x G]; [lia|].
  pose proof (Rep_index_le m H _ _ G). destruct (Rep_seg_ok m H _ _ G) as (? & ? & ?). unfold U32 in *. lia.
Qed.

(* ---------- locate ---------- *)
Definition locate_post (m : mmap) (addr : N) (sr : search) (r : option N) : Prop :=
  match sr, r with
  | Exact, Some i => exists x, geti m i = Some x /\ sfirst x <= addr /\ addr <= slast x
  | Exact, None => forall j y, geti m j = Some y -> addr < sfirst y \/ slast y < addr
  | Above, Some i => exists x, geti m i = Some x /\ addr <= slast x /\
                               forall j y, j < i -> geti m j = Some y -> slast y < addr
  | Above, None => forall j y, geti m j = Some y -> slast y < addr
  | Below, Some i => exists x, geti m i = Some x /\ sfirst x <= addr /\
                               forall j y, i < j -> geti m j = Some y -> addr < sfirst y
  | Below, None => forall j y, geti m j = Some y -> addr < sfirst y
  end.

Lemma usz_sub_ok dbg s a b : b <= a -> usz_sub dbg s a b = Ok (a - b).
Proof. intros H. unfold usz_sub. destruct (b <=? a) eqn:E; [reflexivity|lia]. Qed.
Lemma usz_add_ok dbg s a b : a + b < USZ -> usz_add dbg s a b = Ok (a + b).
Proof. intros H. unfold usz_add. destruct (a + b <? USZ) eqn:E; [reflexivity|lia]. Qed.
Lemma u32_sub_ok dbg s a b : b <= a -> u32_sub dbg s a b = Ok (a - b).
Proof. intros H. unfold u32_sub. destruct (b <=? a) eqn:E; [reflexivity|lia]. Qed.
Lemma u32_add_ok dbg s a b : a + b < U32 -> u32_add dbg s a b = Ok (a + b).
Proof. intros H. unfold u32_add. destruct (a + b <? U32) eqn:E; [reflexivity|lia]. Qed.
Lemma dassert_ok {A} dbg s c (k : res A) : c = true -> dassert dbg s c k = k.
Proof. intros ->. unfold dassert. now rewrite andb_false_r. Qed.

Lemma locate_loop_ok dbg m addr sr : Rep m -> forall fuel first last,
  first <= last -> last < len m -> (N.to_nat (last - first) < fuel)%nat ->
  (forall j y, j < first -> geti m j = Some y -> slast y < addr) ->
  (forall j y, last < j -> geti m j = Some y -> addr < sfirst y) ->
  exists r, locate_loop dbg fuel m addr sr first last = Ok r /\ locate_post m addr sr r.
Proof.
  intros HR. pose proof (Rep_len m HR) as HL.
  induction fuel as [|fuel IH]; intros first last Hfl Hlast Hfuel Hlo Hhi; [lia|].
  cbn [locate_loop].
  rewrite usz_sub_ok by lia. cbn [bind].
  assert (Hd : (last - first) / 2 <= last - first) by (apply N.div_le_upper_bound; lia).
  rewrite usz_add_ok by (unfold USZ, U32 in *; lia). cbn [bind].
  set (mid := first + (last - first) / 2) in *.
  assert (Hmid : first <= mid /\ mid <= last) by (unfold mid; lia).
  destruct (geti_some m mid) as [sg G]; [lia|].
  rewrite (vec_get_ok _ _ _ _ G). cbn [bind].
  destruct (Rep_seg_ok m HR _ _ G) as (Sg1 & Sg2 & Sg3).
  destruct (addr <? sfirst sg) eqn:E1.
  - (* addr below the middle segment *)
    assert (Above_mid : forall j y, mid <= j -> geti m j = Some y -> addr < sfirst y).
    { intros j y L Gj. pose proof (Rep_mono m HR mid j sg y L G Gj). lia. }
    destruct (mid =? first) eqn:E2.
    + assert (mid = first) by lia. eexists; split; [reflexivity|].
      destruct sr; cbn [locate_post].
      * intros j y Gj. destruct (N.lt_ge_cases j first) as [L|L]; [right; eauto|left; apply (Above_mid j); [lia|auto]].
      * destruct (0 <? first) eqn:E3.
        -- destruct (geti_some m (first - 1)) as [p Gp]; [lia|].
           exists p. split; [exact Gp|]. split.
           ++ pose proof (Hlo (first - 1) p ltac:(lia) Gp). destruct (Rep_seg_ok m HR _ _ Gp) as (? & ? & ?). lia.
           ++ intros j y L Gj. apply (Above_mid j); [lia|auto].
        -- intros j y Gj. apply (Above_mid j); [lia|auto].
      * exists sg. subst mid. rewrite <- H. split; [exact G|]. split; [lia|]. intros j y L Gj. rewrite H in L. eauto.
    + rewrite dassert_ok by lia. rewrite usz_sub_ok by lia. cbn [bind].
      apply IH; try lia. { exact Hlo. }
      intros j y L Gj. apply (Above_mid j); [lia|auto].
  - destruct (slast sg <? addr) eqn:E2.
    + assert (Below_mid : forall j y, j <= mid -> geti m j = Some y -> slast y < addr).
      { intros j y L Gj. pose proof (Rep_mono m HR j mid y sg L Gj G). lia. }
      destruct (mid =? last) eqn:E3.
      * assert (mid = last) by lia. eexists; split; [reflexivity|].
        destruct sr; cbn [locate_post].
        -- intros j y Gj. destruct (N.le_gt_cases j last) as [L|L]; [right; apply (Below_mid j); [lia|auto]|left; eauto].
        -- exists sg. rewrite <- H. split; [exact G|]. split; [lia|]. intros j y L Gj. rewrite H in L. eauto.
        -- destruct (last <? len m - 1) eqn:E4.
           ++ destruct (geti_some m (last + 1)) as [p Gp]; [lia|].
              exists p. split; [exact Gp|]. split.
              ** pose proof (Hhi (last + 1) p ltac:(lia) Gp). destruct (Rep_seg_ok m HR _ _ Gp) as (? & ? & ?). lia.
              ** intros j y L Gj. apply (Below_mid j); [lia|auto].
           ++ intros j y Gj. apply (Below_mid j); [|auto]. apply geti_lt in Gj. lia.
      * rewrite dassert_ok by lia. rewrite usz_add_ok by (unfold USZ, U32 in *; lia). cbn [bind].
        apply IH; try lia. 2:{ exact Hhi. }
        intros j y L Gj. apply (Below_mid j); [lia|auto].
    + eexists; split; [reflexivity|].
      destruct sr; cbn [locate_post]; exists sg; (split; [exact G|]); split; try lia.
      * intros j y L Gj. pose proof (Rep_sorted m HR mid j sg y L G Gj). lia.
      * intros j y L Gj. pose proof (Rep_sorted m HR j mid y sg L Gj G).
        destruct (Rep_seg_ok m HR _ _ Gj) as (? & ? & ?). lia.
Qed.

(* locate never panics and never runs out of fuel on a well-formed map; its answer is characterised *)
Lemma locate_ok dbg m addr sr : Rep m -> exists r, locate dbg m addr sr = Ok r /\ locate_post m addr sr r.
Proof.
  intros HR. destruct m as [|s r].
  - exists None. split; [reflexivity|]. destruct sr; cbn [locate_post]; intros j y G; unfold geti in G; destruct (N.to_nat j); discriminate.
  - change (locate dbg (s :: r) addr sr) with (locate_loop dbg (length (s :: r)) (s :: r) addr sr 0 (len (s :: r) - 1)).
    apply locate_loop_ok.
    + exact HR.
    + lia.
    + rewrite len_cons. lia.
    + unfold len. cbn [length]. lia.
    + intros j y L Gj. lia.
    + intros j y L Gj. apply geti_lt in Gj. lia.
Qed.

(* ---------- structural forms of Rep ---------- *)
Lemma In_geti {A} (l : list A) x : In x l -> exists i, geti l i = Some x.
Proof.
  intros H. apply In_nth_error in H. destruct H as [n Hn]. exists (N.of_nat n). unfold geti. now rewrite Nat2N.id.
Qed.
Lemma geti_In {A} (l : list A) i x : geti l i = Some x -> In x l.
Proof. unfold geti. apply nth_error_In. Qed.

Definition gap (x y : seg) : Prop := slast x + 1 < sfirst y.

Lemma Rep_cons_iff s r : Rep (s :: r) <-> seg_ok s /\ Forall (gap s) r /\ Rep r.
Proof.
  split.
  - intros H. split; [now apply Rep_head in H|]. split; [|now apply Rep_tail in H].
    apply Forall_forall. intros y Hy. destruct (In_geti _ _ Hy) as [j Gj]. exact (Rep_head_lt s r H _ _ Gj).
  - intros (H1 & H2 & H3). cbn [Rep]. split; [exact H1|]. split; [|exact H3].
    destruct r; [exact I|]. inversion H2; subst. assumption.
Qed.

Lemma Rep_app_iff l1 l2 : Rep (l1 ++ l2) <-> Rep l1 /\ Rep l2 /\ (forall x y, In x l1 -> In y l2 -> gap x y).
Proof.
  induction l1 as [|s l1 IH].
  - cbn [app]. split; [intros H; split; [exact I|]; split; [exact H|]; intros x y []|tauto].
  - rewrite <- app_comm_cons. rewrite !Rep_cons_iff, IH. rewrite Forall_app.
    split.
    + intros (H1 & (H2 & H3) & H4 & H5 & H6). split; [tauto|]. split; [tauto|].
      intros x y [<-|Hx] Hy; [|auto]. rewrite Forall_forall in H3. auto.
    + intros ((H1 & H2 & H3) & H4 & H5). split; [tauto|]. split; [split; [tauto|]|].
      * apply Forall_forall. intros y Hy. apply H5; [now left|exact Hy].
      * split; [tauto|]. split; [tauto|]. intros x y Hx Hy. apply H5; [now right|exact Hy].
Qed.

Lemma takeN_firstn {A} k (l : list A) : takeN k l = firstn (N.to_nat k) l.
Proof.
  unfold takeN, len. destruct (N.of_nat (length l) <=? k) eqn:E; [|reflexivity].
  symmetry. apply firstn_all2. lia.
Qed.
Lemma dropN_skipn {A} k (l : list A) : dropN k l = skipn (N.to_nat k) l.
Proof.
  unfold dropN, len. destruct (N.of_nat (length l) <=? k) eqn:E; [|reflexivity].
  symmetry. apply skipn_all2. lia.
Qed.

Lemma split_at {A} (l : list A) i x : geti l i = Some x -> takeN i l ++ x :: dropN (i + 1) l = l.
Proof.
  unfold geti. rewrite takeN_firstn, dropN_skipn. replace (N.to_nat (i + 1)) with (S (N.to_nat i)) by lia.
  generalize (N.to_nat i). intros n. revert l. induction n as [|n IH]; intros [|a l] H; try discriminate.
  - cbn in H. inversion H; subst. reflexivity.
  - cbn [nth_error] in H. cbn [firstn skipn app]. f_equal. apply IH. exact H.
Qed.

Lemma take_drop {A} (l : list A) i : takeN i l ++ dropN i l = l.
Proof. rewrite takeN_firstn, dropN_skipn. apply firstn_skipn. Qed.

(* ---------- cells / abs ---------- *)
Lemma abs_app l1 l2 : abs (l1 ++ l2) = abs l1 ++ abs l2.
Proof. unfold abs. apply flat_map_app. Qed.
Lemma abs_cons s r : abs (s :: r) = cells (sfirst s) (sdata s) ++ abs r.
Proof. reflexivity. Qed.

Lemma cells_in a d x y : In (x, y) (cells a d) -> a <= x /\ x < a + len d.
Proof.
  revert a. induction d as [|b d IH]; intros a H; [destruct H|].
  cbn [cells] in H. rewrite len_cons. destruct H as [E|H].
  - inversion E; subst. lia.
  - apply IH in H. lia.
Qed.

Lemma abs_in m : Rep m -> forall x y, In (x, y) (abs m) -> exists s, In s m /\ sfirst s <= x /\ x <= slast s.
Proof.
  induction m as [|s r IH]; intros H x y Hin; [destruct Hin|].
  rewrite abs_cons in Hin. apply in_app_or in Hin. destruct Hin as [Hin|Hin].
  - exists s. split; [now left|]. apply cells_in in Hin. destruct (Rep_head _ _ H) as (? & ? & L). rewrite L in Hin. lia.
  - destruct (IH (Rep_tail _ _ H) _ _ Hin) as (t & Ht & ?). exists t. split; [now right|assumption].
Qed.

(* ---------- iter = runs of the dictionary ---------- *)
Lemma runs_cells_app : forall data a rest, data <> [] ->
  match rest with [] => True | (x, _) :: _ => a + len data < x end ->
  (forall x y r, rest = (x, y) :: r -> exists l bs rs, runs rest = (x, l, bs) :: rs) ->
  runs (cells a data ++ rest) = (a, a + len data - 1, data) :: runs rest.
Proof.
  induction data as [|b data IH]; intros a rest Hne Hgap Hhead; [congruence|].
  destruct data as [|b' data].
  - cbn [cells app runs]. destruct rest as [|(x, y) r].
    + cbn [runs]. do 2 f_equal. f_equal. rewrite len_cons, len_nil. lia.
    + destruct (Hhead x y r eq_refl) as (l & bs & rs & E). rewrite E.
      rewrite len_cons, len_nil in Hgap. destruct (x =? a + 1) eqn:Ex; [lia|].
      do 2 f_equal. f_equal. rewrite len_cons, len_nil. lia.
  - cbn [cells app]. cbn [cells app] in IH.
    change (runs ((a, b) :: (a + 1, b') :: cells (a + 1 + 1) data ++ rest))
      with (match runs ((a + 1, b') :: cells (a + 1 + 1) data ++ rest) with
            | (f, l, bs) :: rs => if f =? a + 1 then (a, l, b :: bs) :: rs else (a, a, [b]) :: (f, l, bs) :: rs
            | [] => [(a, a, [b])] end).
    rewrite (IH (a + 1) rest ltac:(congruence)).
    + rewrite N.eqb_refl. do 2 f_equal. f_equal. rewrite !len_cons. lia.
    + destruct rest as [|(x, y) r]; [exact I|]. rewrite !len_cons in *. lia.
    + exact Hhead.
Qed.

Lemma runs_head x y r : exists l bs rs, runs ((x, y) :: r) = (x, l, bs) :: rs.
Proof.
  cbn [runs]. destruct (runs r) as [|((f, l), bs) rs]; [eauto|]. destruct (f =? x + 1); eauto.
Qed.

Lemma seg_ok_data s : seg_ok s -> sdata s <> [] /\ sfirst s + len (sdata s) - 1 = slast s.
Proof.
  intros (H1 & H2 & H3). split; [|lia]. intros E. rewrite E, len_nil in H3. lia.
Qed.

Lemma abs_head t r : seg_ok t -> exists b rest, abs (t :: r) = (sfirst t, b) :: rest.
Proof.
  intros H. destruct (seg_ok_data t H) as (Hne & _). rewrite abs_cons.
  destruct (sdata t) as [|b d]; [congruence|]. cbn [cells app]. eauto.
Qed.

Lemma iter_is_runs m : Rep m -> runs (abs m) = map_iter m.
Proof.
  unfold map_iter. induction m as [|s r IH]; intros H; [reflexivity|].
  rewrite abs_cons. pose proof (Rep_head _ _ H) as Hs. destruct (seg_ok_data s Hs) as (Hne & Hl).
  rewrite runs_cells_app.
  - rewrite (IH (Rep_tail _ _ H)). rewrite Hl. destruct s as ((f, l), d). reflexivity.
  - exact Hne.
  - destruct r as [|t r']; [exact I|].
    destruct (abs_head t r' (Rep_head _ _ (Rep_tail _ _ H))) as (b & rest & E). rewrite E.
    destruct H as (_ & Hg & _). destruct Hs as (? & ? & L). rewrite L. lia.
  - intros x y r0 E. rewrite E. apply runs_head.
Qed.

(* ---------- new / clear / put overflow ---------- *)
Lemma rep_new : Rep map_new. Proof. exact I. Qed.
Lemma abs_new : abs map_new = d_empty. Proof. reflexivity. Qed.
Lemma rep_clear m : Rep (map_clear m). Proof. exact I. Qed.
Lemma clear_refines m : abs (map_clear m) = d_clear (abs m). Proof. reflexivity. Qed.

Lemma put_overflow dbg m a data : a < U32 -> SPACE < a + len data ->
  map_put dbg m a data = Ok (m, None) /\ d_put (abs m) a data = (abs m, None).
Proof.
  intros Ha Hov. split.
  - unfold map_put. destruct data as [|b d]; [rewrite len_nil in Hov; unfold SPACE, U32 in *; lia|].
    set (dl := len (b :: d)) in *. destruct (U32MAX - a <? dl - 1) eqn:E; [reflexivity|].
    unfold SPACE, U32, U32MAX in *. lia.
  - unfold d_put. fold (len data). destruct (SPACE <? a + len data) eqn:E; [reflexivity|lia].
Qed.

Lemma put_empty dbg m a : map_put dbg m a [] = Ok (m, Some 0) /\ (a <= SPACE -> d_put (abs m) a [] = (abs m, Some 0)).
Proof.
  split; [reflexivity|]. intros H. unfold d_put. cbn [length d_write d_fresh].
  destruct (SPACE <? a + N.of_nat 0) eqn:E; [lia|reflexivity].
Qed.

(* ---------- remove ---------- *)
Lemma filter_all {A} (p : A -> bool) l : (forall x, In x l -> p x = true) -> filter p l = l.
Proof.
  induction l as [|a l IH]; intros H; [reflexivity|]. cbn [filter]. rewrite (H a (or_introl eq_refl)).
  f_equal. apply IH. intros x Hx. apply H. now right.
Qed.
Lemma filter_none {A} (p : A -> bool) l : (forall x, In x l -> p x = false) -> filter p l = [].
Proof.
  induction l as [|a l IH]; intros H; [reflexivity|]. cbn [filter]. rewrite (H a (or_introl eq_refl)).
  apply IH. intros x Hx. apply H. now right.
Qed.
Lemma find_app_skip {A} (p : A -> bool) l1 l2 : (forall x, In x l1 -> p x = false) -> find p (l1 ++ l2) = find p l2.
Proof.
  induction l1 as [|a l IH]; intros H; [reflexivity|]. cbn [app find]. rewrite (H a (or_introl eq_refl)).
  apply IH. intros x Hx. apply H. now right.
Qed.
Lemma find_none_all {A} (p : A -> bool) l : (forall x, In x l -> p x = false) -> find p l = None.
Proof. intros H. rewrite <- (app_nil_r l). rewrite find_app_skip by exact H. reflexivity. Qed.

(* taking one whole segment out of the dictionary *)
Lemma remove_range_seg l1 x l2 : Rep (l1 ++ x :: l2) ->
  d_remove_range (abs (l1 ++ x :: l2)) (sfirst x) (slast x) = abs (l1 ++ l2).
Proof.
  intros HR. pose proof HR as HR0. apply Rep_app_iff in HR. destruct HR as (R1 & R2 & G12).
  apply Rep_cons_iff in R2. destruct R2 as (Sx & Gx & R2). rewrite Forall_forall in Gx.
  rewrite !abs_app, abs_cons. unfold d_remove_range. rewrite !filter_app.
  rewrite filter_all, filter_none, filter_all; [reflexivity| | |].
  - intros (a, b) Hin. destruct (abs_in l2 R2 _ _ Hin) as (s & Hs & ? & ?).
    pose proof (Gx s Hs) as K. unfold gap in K. unfold in_range. cbn [fst]. lia.
  - intros (a, b) Hin. apply cells_in in Hin. destruct Sx as (? & ? & L). rewrite L in Hin.
    unfold in_range. cbn [fst]. lia.
  - intros (a, b) Hin. destruct (abs_in l1 R1 _ _ Hin) as (s & Hs & ? & ?).
    pose proof (G12 s x Hs (or_introl eq_refl)) as K. unfold gap in K. unfold in_range. cbn [fst]. lia.
Qed.

Lemma run_exact_hit l1 x l2 addr : Rep (l1 ++ x :: l2) -> sfirst x <= addr -> addr <= slast x ->
  run_exact (l1 ++ x :: l2) addr = Some x.
Proof.
  intros HR H1 H2. apply Rep_app_iff in HR. destruct HR as (R1 & R2 & G12).
  unfold run_exact. rewrite find_app_skip.
  - cbn [find]. unfold rfirst, rlast. fold (sfirst x). fold (slast x).
    destruct ((sfirst x <=? addr) && (addr <=? slast x)) eqn:E; [reflexivity|lia].
  - intros s Hs. pose proof (G12 s x Hs (or_introl eq_refl)) as K. unfold gap in K.
    unfold rfirst, rlast. fold (sfirst s). fold (slast s). lia.
Qed.

Lemma remove_ok dbg m addr : Rep m ->
  exists m' r, map_remove dbg m addr = Ok (m', r) /\ Rep m' /\ d_remove_run (abs m) addr = (abs m', r).
Proof.
  intros HR. destruct (locate_ok dbg m addr Exact HR) as (r & E & P).
  unfold map_remove. rewrite E. cbn [bind]. destruct r as [i|]; cbn [locate_post] in P.
  - destruct P as (x & G & P1 & P2). rewrite (vec_get_ok _ _ _ _ G). cbn [bind].
    unfold vec_remove. pose proof (geti_lt _ _ _ G) as Li. destruct (i <? len m) eqn:Ei; [|lia]. cbn [bind].
    exists (takeN i m ++ dropN (i + 1) m), (Some x). split; [reflexivity|].
    pose proof (split_at m i x G) as Em.
    set (l1 := takeN i m) in *. set (l2 := dropN (i + 1) m) in *. clearbody l1 l2. subst m.
    split.
    + pose proof HR as HR'. apply Rep_app_iff in HR'. destruct HR' as (R1 & R2 & G12).
      apply Rep_cons_iff in R2. destruct R2 as (_ & _ & R2).
      apply Rep_app_iff. split; [exact R1|]. split; [exact R2|]. intros a b Ha Hb. apply G12; [exact Ha|now right].
    + unfold d_remove_run. rewrite (iter_is_runs _ HR). unfold map_iter.
      rewrite (run_exact_hit l1 x l2 addr HR P1 P2).
      unfold rfirst, rlast. fold (sfirst x). fold (slast x). now rewrite remove_range_seg.
  - exists m, None. split; [reflexivity|]. split; [exact HR|].
    unfold d_remove_run. rewrite (iter_is_runs _ HR). unfold map_iter, run_exact.
    rewrite find_none_all; [reflexivity|].
    intros s Hs. destruct (In_geti _ _ Hs) as (j & Gj). pose proof (P j s Gj) as K.
    unfold rfirst, rlast. fold (sfirst s). fold (slast s). lia.
Qed.

(* ---------- find / get against the dictionary ---------- *)
Lemma in_firstn_nth {A} (y : A) : forall n l, In y (firstn n l) -> exists k, (k < n)%nat /\ nth_error l k = Some y.
Proof.
  induction n as [|n IH]; intros [|a l] H; try (cbn in H; contradiction).
  cbn [firstn] in H. destruct H as [->|H].
  - exists O. split; [lia|reflexivity].
  - destruct (IH l H) as (k & Hk & E). exists (S k). split; [lia|exact E].
Qed.
Lemma in_skipn_nth {A} (y : A) : forall n l, In y (skipn n l) -> exists k, (n <= k)%nat /\ nth_error l k = Some y.
Proof.
  induction n as [|n IH]; intros l H.
  - cbn [skipn] in H. apply In_nth_error in H. destruct H as (k & E). exists k. split; [lia|exact E].
  - destruct l as [|a l]; [cbn in H; contradiction|]. cbn [skipn] in H.
    destruct (IH l H) as (k & Hk & E). exists (S k). split; [lia|exact E].
Qed.
Lemma in_takeN {A} (y : A) i l : In y (takeN i l) -> exists j, j < i /\ geti l j = Some y.
Proof.
  rewrite takeN_firstn. intros H. destruct (in_firstn_nth y _ _ H) as (k & Hk & E).
  exists (N.of_nat k). split; [lia|]. unfold geti. now rewrite Nat2N.id.
Qed.
Lemma in_dropN {A} (y : A) i l : In y (dropN i l) -> exists j, i <= j /\ geti l j = Some y.
Proof.
  rewrite dropN_skipn. intros H. destruct (in_skipn_nth y _ _ H) as (k & Hk & E).
  exists (N.of_nat k). split; [lia|]. unfold geti. now rewrite Nat2N.id.
Qed.

Definition mode_of (sr : search) : mode := match sr with Exact => MExact | Below => MBelow | Above => MAbove end.

Lemma find_run_ok m addr sr r : Rep m -> locate_post m addr sr r ->
  d_find_run (abs m) addr (mode_of sr) = match r with None => None | Some i => geti m i end.
Proof.
  intros HR P. unfold d_find_run. rewrite (iter_is_runs _ HR). unfold map_iter.
  destruct sr, r as [i|]; cbn [locate_post mode_of] in *.
  - (* Exact hit *)
    destruct P as (x & G & P1 & P2). rewrite G. pose proof (split_at m i x G) as Em.
    rewrite <- Em. apply run_exact_hit; [rewrite Em; exact HR|exact P1|exact P2].
  - unfold run_exact. apply find_none_all. intros s Hs. destruct (In_geti _ _ Hs) as (j & Gj).
    pose proof (P j s Gj). unfold rfirst, rlast. fold (sfirst s). fold (slast s). lia.
  - (* Below hit: scan from the top *)
    destruct P as (x & G & P1 & P2). rewrite G. pose proof (split_at m i x G) as Em.
    unfold run_below. rewrite <- Em at 1. rewrite rev_app_distr. cbn [rev]. rewrite <- app_assoc. cbn [app].
    rewrite find_app_skip.
    + cbn [find]. unfold rfirst. fold (sfirst x). destruct (sfirst x <=? addr) eqn:E; [reflexivity|lia].
    + intros s Hs. apply in_rev in Hs. destruct (in_dropN _ _ _ Hs) as (j & Lj & Gj).
      pose proof (P2 j s ltac:(lia) Gj). unfold rfirst. fold (sfirst s). lia.
  - unfold run_below. apply find_none_all. intros s Hs. apply in_rev in Hs. destruct (In_geti _ _ Hs) as (j & Gj).
    pose proof (P j s Gj). unfold rfirst. fold (sfirst s). lia.
  - (* Above hit *)
    destruct P as (x & G & P1 & P2). rewrite G. pose proof (split_at m i x G) as Em.
    unfold run_above. rewrite <- Em at 1. rewrite find_app_skip.
    + cbn [find]. unfold rlast. fold (slast x). destruct (addr <=? slast x) eqn:E; [reflexivity|lia].
    + intros s Hs. destruct (in_takeN _ _ _ Hs) as (j & Lj & Gj).
      pose proof (P2 j s Lj Gj). unfold rlast. fold (slast s). lia.
  - unfold run_above. apply find_none_all. intros s Hs. destruct (In_geti _ _ Hs) as (j & Gj).
    pose proof (P j s Gj). unfold rlast. fold (slast s). lia.
Qed.

(* find never panics on a well-formed map and answers what the dictionary's runs say, in all three modes *)
Lemma find_ok dbg m addr sr : Rep m -> map_find dbg m addr sr = Ok (d_find (abs m) addr (mode_of sr)).
Proof.
  intros HR. destruct (locate_ok dbg m addr sr HR) as (r & E & P).
  unfold map_find, d_find. rewrite E. cbn [bind]. rewrite (find_run_ok m addr sr r HR P).
  destruct r as [i|]; [|reflexivity].
  assert (exists x, geti m i = Some x) as (x & G).
  { destruct sr; cbn [locate_post] in P; destruct P as (x & G & _); eauto. }
  rewrite (vec_get_ok _ _ _ _ G), G. reflexivity.
Qed.

(* get(addr, Exact) never panics and returns the run's range and its bytes from addr on *)
Lemma get_exact_ok dbg m addr : Rep m -> map_get dbg m addr Exact = Ok (d_get_exact (abs m) addr).
Proof.
  intros HR. destruct (locate_ok dbg m addr Exact HR) as (r & E & P).
  unfold map_get, d_get_exact. rewrite E. cbn [bind].
  pose proof (find_run_ok m addr Exact r HR P) as F. cbn [d_find_run mode_of] in F. rewrite F.
  destruct r as [i|]; [|reflexivity]. cbn [locate_post] in P. destruct P as (x & G & P1 & P2).
  rewrite (vec_get_ok _ _ _ _ G), G. cbn [bind option_map].
  rewrite u32_sub_ok by exact P1. cbn [bind].
  destruct (Rep_seg_ok m HR _ _ G) as (S1 & S2 & S3).
  destruct (len (sdata x) <? addr - sfirst x) eqn:E2; [lia|].
  rewrite dropN_skipn. reflexivity.
Qed.

(* ---------- put, the case where no existing segment touches the written interval ---------- *)
Lemma d_set_mid l1 l2 a b : (forall c, In c l1 -> fst c < a) -> (forall c, In c l2 -> a < fst c) ->
  d_set (l1 ++ l2) a b = l1 ++ (a, b) :: l2.
Proof.
  induction l1 as [|(x, y) l1 IH]; intros H1 H2.
  - cbn [app]. destruct l2 as [|(x, y) l2]; [reflexivity|]. cbn [d_set].
    pose proof (H2 (x, y) (or_introl eq_refl)) as K. cbn [fst] in K. destruct (a <? x) eqn:E; [reflexivity|lia].
  - cbn [app d_set]. pose proof (H1 (x, y) (or_introl eq_refl)) as K. cbn [fst] in K.
    destruct (a <? x) eqn:E; [lia|]. destruct (a =? x) eqn:E2; [lia|]. f_equal. apply IH; [|exact H2].
    intros c Hc. apply H1. now right.
Qed.

Lemma d_write_mid : forall data l1 l2 a, (forall c, In c l1 -> fst c < a) -> (forall c, In c l2 -> a + len data <= fst c) ->
  d_write (l1 ++ l2) a data = l1 ++ cells a data ++ l2.
Proof.
  induction data as [|b bs IH]; intros l1 l2 a H1 H2; [reflexivity|].
  cbn [d_write cells]. rewrite len_cons in H2. rewrite d_set_mid.
  - change (l1 ++ (a, b) :: l2) with (l1 ++ [(a, b)] ++ l2). rewrite app_assoc. rewrite IH.
    + rewrite <- app_assoc. reflexivity.
    + intros c Hc. apply in_app_or in Hc. destruct Hc as [Hc|[<-|[]]]; [pose proof (H1 c Hc); lia|cbn [fst]; lia].
    + intros c Hc. pose proof (H2 c Hc). lia.
  - exact H1.
  - intros c Hc. pose proof (H2 c Hc). lia.
Qed.

Lemma d_get_none d x : (forall c, In c d -> fst c <> x) -> d_get d x = None.
Proof.
  induction d as [|(k, v) d IH]; intros H; [reflexivity|]. cbn [d_get].
  pose proof (H (k, v) (or_introl eq_refl)) as K. cbn [fst] in K. destruct (k =? x) eqn:E; [lia|].
  apply IH. intros c Hc. apply H. now right.
Qed.

Lemma d_fresh_all : forall data d a, (forall c, In c d -> fst c < a \/ a + len data <= fst c) -> d_fresh d a data = len data.
Proof.
  induction data as [|b bs IH]; intros d a H; [reflexivity|].
  cbn [d_fresh]. rewrite len_cons in *. rewrite d_get_none.
  - rewrite IH; [lia|]. intros c Hc. pose proof (H c Hc). lia.
  - intros c Hc. pose proof (H c Hc). lia.
Qed.

Lemma insert_refines l1 l2 a data : Rep (l1 ++ l2) -> data <> [] -> a + len data <= SPACE ->
  (forall y, In y l1 -> slast y + 1 < a) -> (forall y, In y l2 -> a + len data < sfirst y) ->
  Rep (l1 ++ (a, a + len data - 1, data) :: l2) /\
  d_put (abs (l1 ++ l2)) a data = (abs (l1 ++ (a, a + len data - 1, data) :: l2), Some (len data)).
Proof.
  intros HR Hne Hsp H1 H2. assert (Hl : 0 < len data). { destruct data; [congruence|rewrite len_cons; lia]. }
  apply Rep_app_iff in HR. destruct HR as (R1 & R2 & G12). split.
  - apply Rep_app_iff. split; [exact R1|]. split.
    + apply Rep_cons_iff. split.
      * unfold seg_ok, sfirst, slast, sdata. cbn [fst snd]. unfold SPACE, U32 in *. lia.
      * split; [|exact R2]. apply Forall_forall. intros y Hy. pose proof (H2 y Hy). unfold gap, slast. cbn [fst snd]. lia.
    + intros x y Hx [<-|Hy]; [|auto]. pose proof (H1 x Hx). unfold gap, sfirst. cbn [fst snd]. lia.
  - unfold d_put. fold (len data). destruct (SPACE <? a + len data) eqn:E; [lia|].
    rewrite !abs_app, abs_cons. unfold sfirst, sdata. cbn [fst snd].
    assert (K1 : forall c, In c (abs l1) -> fst c < a).
    { intros (x, y) Hc. destruct (abs_in l1 R1 _ _ Hc) as (s & Hs & ? & ?). pose proof (H1 s Hs). cbn [fst]. lia. }
    assert (K2 : forall c, In c (abs l2) -> a + len data <= fst c).
    { intros (x, y) Hc. destruct (abs_in l2 R2 _ _ Hc) as (s & Hs & ? & ?). pose proof (H2 s Hs). cbn [fst]. lia. }
    rewrite d_write_mid by assumption. f_equal. f_equal. apply d_fresh_all.
    intros c Hc. apply in_app_or in Hc. destruct Hc as [Hc|Hc]; [left; auto|right; auto].
Qed.

(* put into free space (no segment overlaps or is adjacent to the written interval): the `insert` arm.
   No panic, Rep preserved, dictionary updated cell by cell, count = number of bytes. *)
Lemma put_insert_ok dbg m a data : Rep m -> a < U32 -> data <> [] -> a + len data <= SPACE ->
  (forall s, In s m -> slast s + 1 < a \/ a + len data < sfirst s) ->
  exists m', map_put dbg m a data = Ok (m', Some (len data)) /\ Rep m' /\
             d_put (abs m) a data = (abs m', Some (len data)).
Proof.
  intros HR Ha Hne Hsp Hfree.
  unfold map_put. destruct data as [|b0 d0]; [congruence|]. set (data := b0 :: d0) in *.
  assert (Hl : 0 < len data) by (unfold data; rewrite len_cons; lia).
  set (dl := len data) in *.
  destruct (U32MAX - a <? dl - 1) eqn:E0; [unfold SPACE, U32, U32MAX in *; lia|].
  rewrite (N.mod_small (dl - 1) U32) by (unfold SPACE, U32, U32MAX in *; lia).
  rewrite u32_add_ok by (unfold SPACE, U32, U32MAX in *; lia). cbn [bind].
  set (addr_last := a + (dl - 1)).
  destruct (locate_ok dbg m (sat_sub1 a) Above HR) as (r1 & E1 & P1). rewrite E1. cbn [bind].
  destruct (locate_ok dbg m (sat_add1 addr_last) Below HR) as (r2 & E2 & P2). rewrite E2. cbn [bind].
  set (idx_first := match r1 with None => len m | Some i => i end).
  assert (Sub : sat_sub1 a = if a =? 0 then 0 else a - 1) by reflexivity.
  assert (Sadd : sat_add1 addr_last <= addr_last + 1).
  { unfold sat_add1. destruct (U32MAX <=? addr_last) eqn:Z; unfold U32MAX in *; lia. }
  (* idx_last = None *)
  assert (EL : (match r2 with
                | None => Ok None
                | Some idx => do sg <- vec_get m idx S_put_idx_last_index;
                              Ok (if sat_sub1 a <=? slast sg then Some idx else None)
                end) = Ok (@None N)).
  { destruct r2 as [idx|]; [|reflexivity]. cbn [locate_post] in P2. destruct P2 as (x & G & Q1 & Q2).
    rewrite (vec_get_ok _ _ _ _ G). cbn [bind].
    destruct (sat_sub1 a <=? slast x) eqn:E3; [|reflexivity].
    exfalso. destruct (Hfree x (geti_In _ _ _ G)) as [K|K].
    - rewrite Sub in E3. destruct (a =? 0) eqn:Z; lia.
    - unfold addr_last in *. lia. }
  rewrite EL. cbn [bind].
  assert (F0 : idx_first <= len m).
  { unfold idx_first. destruct r1 as [i|]; [|lia]. cbn [locate_post] in P1. destruct P1 as (x & G & _).
    apply geti_lt in G. lia. }
  assert (F1 : forall j y, j < idx_first -> geti m j = Some y -> slast y + 1 < a).
  { intros j y Lj Gj. assert (slast y < sat_sub1 a).
    { unfold idx_first in Lj. destruct r1 as [i|]; cbn [locate_post] in P1.
      - destruct P1 as (x & G & Q1 & Q2). eauto.
      - eauto. }
    rewrite Sub in H. destruct (a =? 0) eqn:Z; lia. }
  assert (F2 : forall j y, idx_first <= j -> geti m j = Some y -> a + dl < sfirst y).
  { intros j y Lj Gj. unfold idx_first in Lj. destruct r1 as [i|]; cbn [locate_post] in P1.
    - destruct P1 as (x & G & Q1 & Q2).
      pose proof (Rep_mono m HR i j x y Lj G Gj) as (M1 & M2).
      destruct (Hfree x (geti_In _ _ _ G)) as [K|K]; [|lia].
      exfalso. rewrite Sub in Q1. destruct (a =? 0) eqn:Z; lia.
    - apply geti_lt in Gj. lia. }
  unfold vec_insert. destruct (idx_first <=? len m) eqn:E4; [|lia]. cbn [bind].
  eexists. split; [reflexivity|].
  replace addr_last with (a + len data - 1) by (unfold addr_last, dl; lia).
  pose proof (take_drop m idx_first) as Em.
  assert (A1 : forall y, In y (takeN idx_first m) -> slast y + 1 < a).
  { intros y Hy. destruct (in_takeN _ _ _ Hy) as (j & Lj & Gj). eauto. }
  assert (A2 : forall y, In y (dropN idx_first m) -> a + len data < sfirst y).
  { intros y Hy. destruct (in_dropN _ _ _ Hy) as (j & Lj & Gj). eauto. }
  set (l1 := takeN idx_first m) in *. set (l2 := dropN idx_first m) in *.
  clearbody l1 l2. subst m.
  apply insert_refines; auto.
Qed.
