(* Model of src/asm/memory/map/mod.rs (MemoryMap) and MemoryRange::new of src/asm/memory/mod.rs.
   Follows the Rust control flow arm by arm.  No proofs here.

   Conventions
   * a segment is (first, last, data); the map is the Vec `parts` as a list;
   * u32 / usize values are N; every `+`/`-` that Rust checks only in debug builds goes through
     u32_add/u32_sub/usz_add/usz_sub with the flag `dbg` (true: overflow-checks + debug-assertions =
     profile relchk, false: wrap = profile release).  A subtraction or addition that is written
     directly (`a - b`) is guarded by a comparison in the same Rust arm and is commented as such;
   * every panic site of the Rust text (index, slice, splice, drain, insert, remove, split_at_mut,
     assert!, debug_assert!, arithmetic in debug) is a distinct constructor of `site`;
   * the binary search runs on explicit fuel (length of `parts`) and returns OutOfFuel when it runs out;
   * a panicking `&mut self` operation returns only `Panic site` (the half-modified map is not observed). *)
From Coq Require Import NArith List Bool.
Import ListNotations.
Open Scope N_scope.

Definition seg : Type := (N * N * list N)%type.
Definition sfirst (s : seg) : N := fst (fst s).
Definition slast (s : seg) : N := snd (fst s).
Definition sdata (s : seg) : list N := snd s.
Definition mmap : Type := list seg.

Inductive search := Exact | Below | Above.

Inductive site :=
  | S_range_new                      (* MemoryRange::new: first > last *)
  | S_loc_sub | S_loc_add            (* last - first, first + (..)/2 *)
  | S_loc_index                      (* self.parts[mid] *)
  | S_loc_dassert_lo | S_loc_dassert_hi   (* debug_assert!(mid > first) / (mid < last) *)
  | S_loc_mid_sub | S_loc_mid_add    (* mid - 1, mid + 1 *)
  | S_find_index | S_get_index       (* self.parts[i] in find / get *)
  | S_get_sub | S_get_slice          (* addr - p.range.first ; p.data[off..] *)
  | S_put_addr_last                  (* addr + (len-1) as u32 *)
  | S_put_idx_last_index             (* self.parts[idx].range.last *)
  | S_put_insert                     (* Vec::insert *)
  | S_put_first_index                (* &mut self.parts[idx_first] *)
  | S_put_added_replace              (* added -= first.data.len() *)
  | S_put_ff_sub                     (* first.range.first - addr (guarded, kept for fidelity) *)
  | S_put_num_remove                 (* data.len() - (first.range.first - addr) *)
  | S_put_splice                     (* first.data.splice(..num_remove, ..) *)
  | S_put_added_prepend              (* added -= num_remove *)
  | S_put_num_overwrite              (* first.data.len() - offset *)
  | S_put_added_append               (* added -= num_overwrite *)
  | S_put_off_add                    (* offset + data.len() *)
  | S_put_slice_order | S_put_slice_end   (* first.data[offset..offset+len] *)
  | S_put_mid_index | S_put_added_mid     (* self.parts[idx].data.len() ; added -= .. *)
  | S_put_split_at                   (* split_at_mut(idx_last) *)
  | S_put_split1_index               (* split.1[0] *)
  | S_put_overwritten                (* last.data.len() - end_off *)
  | S_put_tail_slice                 (* last.data[len - end_off..] *)
  | S_put_added_tail | S_put_added_last   (* added -= overwritten ; added -= last.data.len() *)
  | S_put_drain_incl | S_put_drain_order | S_put_drain_end  (* drain(idx_first+1..=idx_last) *)
  | S_count_sub | S_count_add        (* seg.last - seg.first ; addrs += *)
  | S_cr_slice                       (* self.parts[first..] *)
  | S_cr_dassert                     (* debug_assert!(seg.range.last >= range.first) *)
  | S_cr_sub | S_cr_add
  | S_ir_sub | S_ir_slice_order | S_ir_slice_end   (* seg.data[start_off..len-end_off] *)
  | S_remove_index                   (* Vec::remove *)
  | S_rr_first_index
  | S_rr_split_add                   (* range.last + 1 *)
  | S_rr_split_len_sub | S_rr_split_slice   (* first.data[len - end_off..] *)
  | S_rr_insert
  | S_rr_cut_add | S_rr_cut_sub | S_rr_cut_drain     (* first: range.last + 1 - first.range.first ; drain(..n) *)
  | S_rr_assert                      (* assert!(!remove_first) *)
  | S_rr_last_index
  | S_rr_cut2_add | S_rr_cut2_sub | S_rr_cut2_drain  (* same for the last segment *)
  | S_rr_drain_order | S_rr_drain_end
  | S_rr_remove.

Inductive res (A : Type) : Type :=
  | Ok (a : A)
  | Panic (s : site)
  | OutOfFuel.
Arguments Ok {A} a.
Arguments Panic {A} s.
Arguments OutOfFuel {A}.

Definition bind {A B : Type} (r : res A) (k : A -> res B) : res B :=
  match r with Ok a => k a | Panic s => Panic s | OutOfFuel => OutOfFuel end.
Notation "'do' x <- r ; k" := (bind r (fun x => k)) (at level 200, x name, r at level 100, k at level 200).
Notation "'do' ' p <- r ; k" := (bind r (fun x => let 'p := x in k))
  (at level 200, p pattern, r at level 100, k at level 200).

(* ---- machine arithmetic ---- *)
Definition U32 : N := 0x100000000.            (* 2^32 *)
Definition U32MAX : N := 0xFFFFFFFF.
Definition USZ : N := 0x10000000000000000.    (* 2^64, usize on the sandbox target *)

Definition u32_sub (dbg : bool) (s : site) (a b : N) : res N :=
  if b <=? a then Ok (a - b) else if dbg then Panic s else Ok (a + U32 - b).
Definition u32_add (dbg : bool) (s : site) (a b : N) : res N :=
  if a + b <? U32 then Ok (a + b) else if dbg then Panic s else Ok (a + b - U32).
Definition usz_sub (dbg : bool) (s : site) (a b : N) : res N :=
  if b <=? a then Ok (a - b) else if dbg then Panic s else Ok (a + USZ - b).
Definition usz_add (dbg : bool) (s : site) (a b : N) : res N :=
  if a + b <? USZ then Ok (a + b) else if dbg then Panic s else Ok (a + b - USZ).
Definition sat_sub1 (a : N) : N := if a =? 0 then 0 else a - 1.             (* saturating_sub(1) *)
Definition sat_add1 (a : N) : N := if U32MAX <=? a then U32MAX else a + 1.  (* saturating_add(1) on u32 *)
Definition sat_add32 (a b : N) : N := N.min (a + b) U32MAX.                 (* u32::saturating_add *)
Definition dassert {A} (dbg : bool) (s : site) (c : bool) (k : res A) : res A :=
  if dbg && negb c then Panic s else k.

(* ---- Vec / slice primitives (indices are N; N.to_nat is only applied to values <= length) ---- *)
Definition len {A} (l : list A) : N := N.of_nat (length l).
Definition takeN {A} (k : N) (l : list A) : list A := if len l <=? k then l else firstn (N.to_nat k) l.
Definition dropN {A} (k : N) (l : list A) : list A := if len l <=? k then [] else skipn (N.to_nat k) l.
Definition vec_get {A} (l : list A) (i : N) (s : site) : res A :=
  if i <? len l then match nth_error l (N.to_nat i) with Some x => Ok x | None => Panic s end else Panic s.
(* l[i] = x for an index that a preceding vec_get has shown to be in range *)
Definition set_nth {A} (l : list A) (i : N) (x : A) : list A := takeN i l ++ x :: dropN (i + 1) l.
Definition vec_insert {A} (l : list A) (i : N) (x : A) (s : site) : res (list A) :=
  if i <=? len l then Ok (takeN i l ++ x :: dropN i l) else Panic s.
Definition vec_remove {A} (l : list A) (i : N) (s : site) : res (list A) :=
  if i <? len l then Ok (takeN i l ++ dropN (i + 1) l) else Panic s.
(* drain(a..b): start > end, or end > len *)
Definition vec_drain {A} (l : list A) (a b : N) (s_order s_end : site) : res (list A) :=
  if b <? a then Panic s_order else if len l <? b then Panic s_end else Ok (takeN a l ++ dropN b l).

(* ---- MemoryRange::new ---- *)
Definition range_new (first last : N) : res (N * N) :=
  if last <? first then Panic S_range_new else Ok (first, last).

(* ---- new / len / clear / iter ---- *)
Definition map_new : mmap := [].
Definition map_len (m : mmap) : N := len m.
Definition map_clear (m : mmap) : mmap := [].
Definition map_iter (m : mmap) : list seg := m.

(* ---- locate ---- *)
Fixpoint locate_loop (dbg : bool) (fuel : nat) (m : mmap) (addr : N) (sr : search) (first last : N)
  : res (option N) :=
  match fuel with
  | O => OutOfFuel
  | S fuel' =>
    do d <- usz_sub dbg S_loc_sub last first;
    do mid <- usz_add dbg S_loc_add first (d / 2);
    do sg <- vec_get m mid S_loc_index;
    if addr <? sfirst sg then
      if mid =? first then
        Ok (match sr with
            | Exact => None
            | Below => if 0 <? first then Some (first - 1) else None     (* guarded by first > 0 *)
            | Above => Some first
            end)
      else
        dassert dbg S_loc_dassert_lo (first <? mid)
          (do last' <- usz_sub dbg S_loc_mid_sub mid 1;
           locate_loop dbg fuel' m addr sr first last')
    else if slast sg <? addr then
      if mid =? last then
        Ok (match sr with
            | Exact => None
            | Below => Some last
            (* parts.len() - 1: parts is non-empty here (tested on entry); last + 1: guarded by last < len - 1 *)
            | Above => if last <? len m - 1 then Some (last + 1) else None
            end)
      else
        dassert dbg S_loc_dassert_hi (mid <? last)
          (do first' <- usz_add dbg S_loc_mid_add mid 1;
           locate_loop dbg fuel' m addr sr first' last)
    else Ok (Some mid)
  end.

Definition locate (dbg : bool) (m : mmap) (addr : N) (sr : search) : res (option N) :=
  match m with
  | [] => Ok None
  | _ => locate_loop dbg (length m) m addr sr 0 (len m - 1)     (* len - 1 guarded by !is_empty() *)
  end.

(* ---- find / get ---- *)
Definition map_find (dbg : bool) (m : mmap) (addr : N) (sr : search) : res (option (N * N)) :=
  do r <- locate dbg m addr sr;
  match r with
  | None => Ok None
  | Some i => do sg <- vec_get m i S_find_index; Ok (Some (sfirst sg, slast sg))
  end.

(* (p.range, &p.data[(addr - p.range.first) as usize..]) *)
Definition map_get (dbg : bool) (m : mmap) (addr : N) (sr : search) : res (option (N * N * list N)) :=
  do r <- locate dbg m addr sr;
  match r with
  | None => Ok None
  | Some i =>
    do sg <- vec_get m i S_get_index;
    do off <- u32_sub dbg S_get_sub addr (sfirst sg);
    if len (sdata sg) <? off then Panic S_get_slice
    else Ok (Some (sfirst sg, slast sg, dropN off (sdata sg)))
  end.

(* ---- put ---- *)
(* for idx in lo..hi { added -= self.parts[idx].data.len() } *)
Fixpoint put_mid_loop (dbg : bool) (n : nat) (m : mmap) (idx hi added : N) : res N :=
  match n with
  | O => Ok added
  | S n' =>
    if idx <? hi then
      do sg <- vec_get m idx S_put_mid_index;
      do added' <- usz_sub dbg S_put_added_mid added (len (sdata sg));
      put_mid_loop dbg n' m (idx + 1) hi added'
    else Ok added
  end.

(* result: (map, None) = Err(PutError::Overflow), (map, Some n) = Ok(n) *)
Definition map_put (dbg : bool) (m : mmap) (addr : N) (data : list N) : res (mmap * option N) :=
  match data with
  | [] => Ok (m, Some 0)
  | _ =>
    let dl := len data in
    let have_last := U32MAX - addr in                 (* u32::MAX - addr, addr is a u32; usize::try_from is exact *)
    if have_last <? dl - 1 then Ok (m, None)          (* data.len() - 1 guarded by !is_empty() *)
    else
    do addr_last <- u32_add dbg S_put_addr_last addr ((dl - 1) mod U32);     (* (len-1) as u32 *)
    do r1 <- locate dbg m (sat_sub1 addr) Above;
    let idx_first := match r1 with None => len m | Some i => i end in
    do r2 <- locate dbg m (sat_add1 addr_last) Below;
    do idx_last <- match r2 with
                   | None => Ok None
                   | Some idx =>
                     do sg <- vec_get m idx S_put_idx_last_index;
                     Ok (if sat_sub1 addr <=? slast sg then Some idx else None)
                   end;
    match idx_last with
    | None =>
      do m' <- vec_insert m idx_first (addr, addr_last, data) S_put_insert;
      Ok (m', Some dl)
    | Some idx_last =>
      do fs <- vec_get m idx_first S_put_first_index;
      let ff := sfirst fs in let fl := slast fs in let fd := sdata fs in
      (* first.data after the first-segment step, and `added` *)
      do '(fd1, added) <-
        (if addr <=? ff then
           if fl <=? addr_last then
             (* completely replaces existing data *)
             do added <- usz_sub dbg S_put_added_replace dl (len fd);
             Ok (data, added)
           else
             (* prepend and overwrite *)
             do df <- u32_sub dbg S_put_ff_sub ff addr;
             do num_remove <- usz_sub dbg S_put_num_remove dl df;
             if len fd <? num_remove then Panic S_put_splice else
             do added <- usz_sub dbg S_put_added_prepend dl num_remove;
             Ok (data ++ dropN num_remove fd, added)
         else
           let offset := addr - ff in                  (* guarded by addr > first.range.first *)
           if fl <? addr_last then
             (* overwrite and append *)
             do num_overwrite <- usz_sub dbg S_put_num_overwrite (len fd) offset;
             do added <- usz_sub dbg S_put_added_append dl num_overwrite;
             Ok (takeN offset fd ++ data, added)       (* truncate(offset) is a no-op when offset >= len *)
           else
             (* interior overwrite only *)
             do e <- usz_add dbg S_put_off_add offset dl;
             if e <? offset then Panic S_put_slice_order
             else if len fd <? e then Panic S_put_slice_end
             else Ok (takeN offset fd ++ data ++ dropN e fd, 0));
      if idx_first <? idx_last then
        do added <- put_mid_loop dbg (length m) m (idx_first + 1) idx_last added;
        if len m <? idx_last then Panic S_put_split_at else
        do ls <- vec_get m idx_last S_put_split1_index;
        let ll := slast ls in let ld := sdata ls in
        do '(fd2, nl, added) <-
          (if addr_last <? ll then
             (* only partially replaces the final segment, copy what remains *)
             let end_off := ll - addr_last in          (* guarded by addr_last < last.range.last *)
             do overwritten <- usz_sub dbg S_put_overwritten (len ld) end_off;
             if len ld <? overwritten then Panic S_put_tail_slice else
             do added <- usz_sub dbg S_put_added_tail added overwritten;
             Ok (fd1 ++ dropN overwritten ld, ll, added)
           else
             do added <- usz_sub dbg S_put_added_last added (len ld);
             Ok (fd1, addr_last, added));
        let m1 := set_nth m idx_first (N.min ff addr, nl, fd2) in
        if idx_last =? USZ - 1 then Panic S_put_drain_incl else
        do m2 <- vec_drain m1 (idx_first + 1) (idx_last + 1) S_put_drain_order S_put_drain_end;
        Ok (m2, Some added)
      else
        Ok (set_nth m idx_first (N.min ff addr, N.max fl addr_last, fd1), Some added)
    end
  end.

(* ---- count ---- *)
Fixpoint count_loop (dbg : bool) (m : mmap) (addrs : N) : res N :=
  match m with
  | [] => Ok addrs
  | sg :: r =>
    do d <- u32_sub dbg S_count_sub (slast sg) (sfirst sg);
    do a <- u32_add dbg S_count_add addrs d;
    count_loop dbg r a
  end.

Definition map_count (dbg : bool) (m : mmap) : res (N * N) :=
  do a <- count_loop dbg m 0;
  Ok (sat_add32 a (len m mod U32), len m).            (* self.parts.len() as u32 *)

(* ---- count_range ---- *)
Fixpoint cr_loop (dbg : bool) (l : list seg) (rf rl : N) (addrs cnt : N) : res (N * N) :=
  match l with
  | [] => Ok (addrs, cnt)
  | sg :: r =>
    if sfirst sg <=? rl then                           (* .filter(|seg| seg.range.first <= range.last) *)
      dassert dbg S_cr_dassert (rf <=? slast sg)
        (do d <- u32_sub dbg S_cr_sub (N.min (slast sg) rl) (N.max (sfirst sg) rf);
         do a <- u32_add dbg S_cr_add addrs d;
         cr_loop dbg r rf rl a (cnt + 1))
    else cr_loop dbg r rf rl addrs cnt
  end.

Definition map_count_range (dbg : bool) (m : mmap) (rf rl : N) : res (N * N) :=
  do r <- locate dbg m rf Above;
  let first := match r with None => len m | Some i => i end in
  if len m <? first then Panic S_cr_slice else
  do '(addrs, cnt) <- cr_loop dbg (dropN first m) rf rl 0 0;
  Ok (sat_add32 addrs (cnt mod U32), cnt).

(* ---- iter_range (RangeIter::next until None) ---- *)
Fixpoint ir_loop (dbg : bool) (l : list seg) (rf rl : N) : res (list seg) :=
  match l with
  | [] => Ok []
  | sg :: r =>
    let f := sfirst sg in let l_ := slast sg in let d := sdata sg in
    if f <=? rl then
      let '(start_off, first_addr) := if rf <=? f then (0, f) else (rf - f, rf) in      (* guarded *)
      let '(end_off, last_addr) := if l_ <=? rl then (0, l_) else (l_ - rl, rl) in      (* guarded *)
      do e <- usz_sub dbg S_ir_sub (len d) end_off;
      if e <? start_off then Panic S_ir_slice_order
      else if len d <? e then Panic S_ir_slice_end
      else
        do rest <- ir_loop dbg r rf rl;
        Ok ((first_addr, last_addr, takeN (e - start_off) (dropN start_off d)) :: rest)
    else Ok []                                          (* self.next = len; fused *)
  end.

Definition map_iter_range (dbg : bool) (m : mmap) (rf rl : N) : res (list seg) :=
  do r <- locate dbg m rf Above;
  let first := match r with None => len m | Some i => i end in
  ir_loop dbg (dropN first m) rf rl.                   (* parts.get(next): None past the end *)

(* ---- remove ---- *)
Definition map_remove (dbg : bool) (m : mmap) (addr : N) : res (mmap * option seg) :=
  do r <- locate dbg m addr Exact;
  match r with
  | None => Ok (m, None)
  | Some idx =>
    do sg <- vec_get m idx S_remove_index;
    do m' <- vec_remove m idx S_remove_index;
    Ok (m', Some sg)
  end.

(* ---- remove_range ---- *)
(* cut [.., rl] off the front of segment number i: data.drain(..(rl + 1 - first)); first = rl + 1 *)
Definition rr_cut_front (dbg : bool) (m : mmap) (i : N) (sg : seg) (rl : N) (s_add s_sub s_drain : site) : res mmap :=
  do x <- u32_add dbg s_add rl 1;
  do n <- u32_sub dbg s_sub x (sfirst sg);
  if len (sdata sg) <? n then Panic s_drain
  else Ok (set_nth m i (x, slast sg, dropN n (sdata sg))).

Definition map_remove_range (dbg : bool) (m : mmap) (rf rl : N) : res mmap :=
  do r <- locate dbg m rf Above;
  match r with
  | None => Ok m
  | Some fi =>
    do fs <- vec_get m fi S_rr_first_index;
    let ff := sfirst fs in let fl := slast fs in let fd := sdata fs in
    if rl <? ff then Ok m                               (* match guard fails: `_ => return` *)
    else if (ff <? rf) && (rl <? fl) then
      (* split one segment into two *)
      let start_off := rf - ff in                       (* guarded by range.first > first.range.first *)
      let end_off := fl - rl in                         (* guarded by range.last < first.range.last *)
      do rl1 <- u32_add dbg S_rr_split_add rl 1;
      do k <- usz_sub dbg S_rr_split_len_sub (len fd) end_off;
      if len fd <? k then Panic S_rr_split_slice else
      let end_data := dropN k fd in
      let m1 := set_nth m fi (ff, rf - 1, takeN start_off fd) in    (* range.first - 1 guarded as above *)
      vec_insert m1 (fi + 1) (rl1, fl, end_data) S_rr_insert
    else
      do '(m1, remove_first) <-
        (if rf <=? ff then
           if rl <? fl then
             do m1 <- rr_cut_front dbg m fi fs rl S_rr_cut_add S_rr_cut_sub S_rr_cut_drain;
             Ok (m1, false)
           else Ok (m, true)
         else
           (* truncate((range.first - first.range.first) as usize); last = range.first - 1; both guarded *)
           Ok (set_nth m fi (ff, rf - 1, takeN (rf - ff) fd), false));
      do r2 <- locate dbg m1 rl Below;
      match r2 with
      | None => if remove_first then Panic S_rr_assert else Ok m1
      | Some li =>
        if fi <? li then
          do ls <- vec_get m1 li S_rr_last_index;
          do '(m2, remove_last) <-
            (if rl <? slast ls then
               do m2 <- rr_cut_front dbg m1 li ls rl S_rr_cut2_add S_rr_cut2_sub S_rr_cut2_drain;
               Ok (m2, false)
             else Ok (m1, true));
          vec_drain m2 (fi + (if remove_first then 0 else 1)) (li + (if remove_last then 1 else 0))
                    S_rr_drain_order S_rr_drain_end
        else
          if remove_first then vec_remove m1 fi S_rr_remove else Ok m1
      end
  end.
