(* C15 proofs, part 5: count_range, iter_range and remove_range against the dictionary. *)
From Coq Require Import PeanoNat NArith List Bool Lia ZifyBool ZifyNat ZifyN.
From Trion Require Import Mem.MapModel Mem.DictSpec Mem.MapProofs Mem.MapProofs2 Mem.MapLemmas Mem.MapPutNorm.
Import ListNotations.
Open Scope N_scope.

(* ---------- locate(Above) as a cut of the segment list ---------- *)
Lemma locate_above_split dbg m addr : Rep m ->
  exists r, locate dbg m addr Above = Ok r /\
    let first := match r with None => len m | Some i => i end in
    first <= len m /\ (forall s, In s (takeN first m) -> slast s < addr) /\
    (forall s, In s (dropN first m) -> addr <= slast s).
Proof.
  intros HR. destruct (locate_ok dbg m addr Above HR) as (r & E & P). exists r. split; [exact E|].
  destruct r as [i|]; cbn [locate_post] in P; cbn zeta.
  - destruct P as (x & G & P1 & P2). pose proof (geti_lt _ _ _ G). split; [lia|]. split.
    + intros s Hs. destruct (in_takeN _ _ _ Hs) as (k & Lk & Gk). eauto.
    + intros s Hs. destruct (in_dropN _ _ _ Hs) as (k & Lk & Gk).
      pose proof (Rep_mono m HR i k x s Lk G Gk). lia.
  - split; [lia|]. split.
    + intros s Hs. destruct (in_takeN _ _ _ Hs) as (k & Lk & Gk). eauto.
    + intros s Hs. rewrite dropN_all in Hs by lia. destruct Hs.
Qed.

(* ---------- sub-lists and shrunk segments keep the invariant ---------- *)
Lemma Rep_filter (p : seg -> bool) l : Rep l -> Rep (filter p l).
Proof.
  induction l as [|s r IH]; intros H; [exact I|]. apply Rep_cons_iff in H. destruct H as (H1 & H2 & H3).
  cbn [filter]. destruct (p s); [|auto]. apply Rep_cons_iff. split; [exact H1|]. split; [|auto].
  rewrite Forall_forall in *. intros y Hy. apply filter_In in Hy. apply H2. tauto.
Qed.

Lemma Rep_map_shrink (g : seg -> seg) l : Rep l ->
  (forall s, In s l -> seg_ok (g s) /\ sfirst s <= sfirst (g s) /\ slast (g s) <= slast s) -> Rep (map g l).
Proof.
  induction l as [|s r IH]; intros H Hg; [exact I|]. apply Rep_cons_iff in H. destruct H as (H1 & H2 & H3).
  cbn [map]. apply Rep_cons_iff. destruct (Hg s (or_introl eq_refl)) as (K1 & K2 & K3). split; [exact K1|]. split.
  - rewrite Forall_forall in *. intros y Hy. apply in_map_iff in Hy. destruct Hy as (t & <- & Ht).
    pose proof (H2 t Ht) as K. destruct (Hg t (or_intror Ht)) as (_ & K4 & _). unfold gap in *. lia.
  - apply IH; [exact H3|]. intros t Ht. apply Hg. now right.
Qed.

(* ---------- the part of a segment inside [rf, rl], as the model's range iterator reports it ---------- *)
Definition clip (rf rl : N) (s : seg) : seg :=
  (N.max (sfirst s) rf, N.min (slast s) rl,
   takeN (N.min (slast s) rl + 1 - N.max (sfirst s) rf) (dropN (rf - sfirst s) (sdata s))).
Lemma sfirst_clip rf rl s : sfirst (clip rf rl s) = N.max (sfirst s) rf. Proof. reflexivity. Qed.
Lemma slast_clip rf rl s : slast (clip rf rl s) = N.min (slast s) rl. Proof. reflexivity. Qed.
Definition starts_le (rl : N) (s : seg) : bool := sfirst s <=? rl.
Definition clipped (rf rl : N) (rest : list seg) : list seg := map (clip rf rl) (filter (starts_le rl) rest).

Lemma takeN_same {A} k k' (l : list A) : (k = k' \/ (len l <= k /\ len l <= k')) -> takeN k l = takeN k' l.
Proof. intros [->|(H1 & H2)]; [reflexivity|]. now rewrite !takeN_all. Qed.

Lemma clip_cells rf rl s : seg_ok s ->
  filter (fun c => in_range rf rl (fst c)) (cells (sfirst s) (sdata s)) = cells (sfirst (clip rf rl s)) (sdata (clip rf rl s)).
Proof.
  intros (S1 & S2 & S3). rewrite filter_cells_in. unfold clip. rewrite sfirst_mk, sdata_mk. f_equal.
  apply takeN_same. rewrite len_dropN. lia.
Qed.

Lemma clipped_rep rf rl rest : rf <= rl -> Rep rest -> (forall s, In s rest -> rf <= slast s) -> Rep (clipped rf rl rest).
Proof.
  intros Hfl HR Hs. unfold clipped. apply Rep_map_shrink; [now apply Rep_filter|].
  intros s Hin. apply filter_In in Hin. destruct Hin as (Hin & Hp). unfold starts_le in Hp.
  pose proof (Hs s Hin). destruct (Rep_In_ok _ _ HR Hin) as (S1 & S2 & S3).
  unfold clip, seg_ok. rewrite sfirst_mk, slast_mk, sdata_mk. rewrite len_takeN, len_dropN. lia.
Qed.

Lemma clipped_abs rf rl : forall rest, Rep rest -> abs (clipped rf rl rest) = d_restrict (abs rest) rf rl.
Proof.
  induction rest as [|s r IH]; intros HR; [reflexivity|].
  pose proof (Rep_head _ _ HR) as Hs. pose proof (IH (Rep_tail _ _ HR)) as IH'.
  rewrite abs_cons. unfold d_restrict in *. rewrite filter_app. unfold clipped in *. cbn [filter].
  unfold starts_le at 1. destruct (sfirst s <=? rl) eqn:C.
  - cbn [map]. rewrite abs_cons. rewrite IH'. f_equal. symmetry. now apply clip_cells.
  - rewrite IH'. rewrite (filter_none _ (cells (sfirst s) (sdata s))); [reflexivity|].
    intros (x, y) Hin. apply cells_in in Hin. unfold in_range. cbn [fst]. lia.
Qed.

(* the whole dictionary restricted to the range = the clipped tail found by locate(Above) *)
Lemma restrict_split m first rf rl : Rep m -> first <= len m ->
  (forall s, In s (takeN first m) -> slast s < rf) ->
  d_restrict (abs m) rf rl = abs (clipped rf rl (dropN first m)).
Proof.
  intros HR Hf H1. pose proof (take_drop m first) as Em. rewrite <- Em in HR.
  rewrite clipped_abs by (eapply Rep_app_r; exact HR).
  rewrite <- Em at 1. rewrite abs_app. unfold d_restrict. rewrite filter_app.
  rewrite filter_abs_none; [reflexivity|eapply Rep_app_l; exact HR|].
  intros s x y Hs ? ?. pose proof (H1 s Hs). unfold in_range. cbn [fst]. lia.
Qed.

(* ---------- iter_range ---------- *)
Lemma clip_eq rf rl s a b k j : a = N.max (sfirst s) rf -> b = N.min (slast s) rl ->
  k = N.min (slast s) rl + 1 - N.max (sfirst s) rf -> j = rf - sfirst s ->
  (a, b, takeN k (dropN j (sdata s))) = clip rf rl s.
Proof. intros -> -> -> ->. reflexivity. Qed.

Lemma ir_loop_ok dbg rf rl : rf <= rl -> forall rest, Rep rest -> (forall s, In s rest -> rf <= slast s) ->
  ir_loop dbg rest rf rl = Ok (clipped rf rl rest).
Proof.
  intros Hfl. induction rest as [|s r IH]; intros HR Hs; [reflexivity|].
  cbn [ir_loop]. unfold clipped. cbn [filter]. unfold starts_le at 1.
  pose proof (Hs s (or_introl eq_refl)) as Hs0. destruct (Rep_head _ _ HR) as (S1 & S2 & S3).
  destruct (sfirst s <=? rl) eqn:C.
  - assert (IH' : ir_loop dbg r rf rl = Ok (clipped rf rl r)).
    { apply IH; [now apply Rep_tail in HR|]. intros t Ht. apply Hs. now right. }
    cbn [map]. fold (clipped rf rl r).
    destruct (rf <=? sfirst s) eqn:C1; destruct (slast s <=? rl) eqn:C2.
    + rewrite usz_sub_ok by lia. cbn [bind]. destruct (len (sdata s) - 0 <? 0) eqn:C3; [lia|].
      destruct (len (sdata s) <? len (sdata s) - 0) eqn:C4; [lia|]. rewrite IH'. cbn [bind].
      erewrite (clip_eq rf rl s) by lia. reflexivity.
    + rewrite usz_sub_ok by lia. cbn [bind]. destruct (len (sdata s) - (slast s - rl) <? 0) eqn:C3; [lia|].
      destruct (len (sdata s) <? len (sdata s) - (slast s - rl)) eqn:C4; [lia|]. rewrite IH'. cbn [bind].
      erewrite (clip_eq rf rl s) by lia. reflexivity.
    + rewrite usz_sub_ok by lia. cbn [bind]. destruct (len (sdata s) - 0 <? rf - sfirst s) eqn:C3; [lia|].
      destruct (len (sdata s) <? len (sdata s) - 0) eqn:C4; [lia|]. rewrite IH'. cbn [bind].
      erewrite (clip_eq rf rl s) by lia. reflexivity.
    + rewrite usz_sub_ok by lia. cbn [bind]. destruct (len (sdata s) - (slast s - rl) <? rf - sfirst s) eqn:C3; [lia|].
      destruct (len (sdata s) <? len (sdata s) - (slast s - rl)) eqn:C4; [lia|]. rewrite IH'. cbn [bind].
      erewrite (clip_eq rf rl s) by lia. reflexivity.
  - (* the iterator stops; every later segment starts even higher *)
    rewrite filter_none; [reflexivity|]. intros t Ht. apply Rep_cons_iff in HR. destruct HR as (_ & G & _).
    rewrite Forall_forall in G. pose proof (G t Ht) as K. unfold gap in K. unfold starts_le. lia.
Qed.

Lemma iter_range_ok dbg m rf rl : Rep m -> rf <= rl ->
  map_iter_range dbg m rf rl = Ok (d_iter_range (abs m) rf rl).
Proof.
  intros HR Hfl. destruct (locate_above_split dbg m rf HR) as (r & E & F0 & F1 & F2).
  unfold map_iter_range. rewrite E. cbn [bind].
  set (first := match r with None => len m | Some i => i end) in *.
  assert (HRr : Rep (dropN first m)). { pose proof (take_drop m first) as Em. rewrite <- Em in HR. eapply Rep_app_r; exact HR. }
  rewrite ir_loop_ok by assumption. f_equal. unfold d_iter_range.
  rewrite (restrict_split m first rf rl HR F0 F1). rewrite iter_is_runs; [reflexivity|].
  now apply clipped_rep.
Qed.

(* ---------- count_range ---------- *)
Lemma cr_loop_ok dbg rf rl : rf <= rl -> forall rest addrs cnt, (forall s, In s rest -> seg_ok s /\ rf <= slast s) ->
  addrs + sumd (clipped rf rl rest) < U32 ->
  cr_loop dbg rest rf rl addrs cnt = Ok (addrs + sumd (clipped rf rl rest), cnt + len (clipped rf rl rest)).
Proof.
  intros Hfl. induction rest as [|s r IH]; intros addrs cnt Hs B.
  - cbn [cr_loop]. unfold clipped. cbn [filter map sumd]. change (len (@nil seg)) with 0. do 2 f_equal; lia.
  - cbn [cr_loop]. unfold clipped in *. cbn [filter] in *.
    assert (Ep : starts_le rl s = (sfirst s <=? rl)) by reflexivity. rewrite Ep in *.
    destruct (Hs s (or_introl eq_refl)) as ((S1 & S2 & S3) & Hs0).
    assert (Hr : forall t, In t r -> seg_ok t /\ rf <= slast t) by (intros t Ht; apply Hs; now right).
    destruct (sfirst s <=? rl) eqn:C.
    + cbn [map sumd] in *. rewrite sfirst_clip, slast_clip in B.
      rewrite dassert_ok by lia. rewrite u32_sub_ok by lia. cbn [bind]. rewrite u32_add_ok by lia. cbn [bind].
      rewrite IH; [|exact Hr|lia]. rewrite len_cons. rewrite sfirst_clip, slast_clip.
      do 2 f_equal; lia.
    + apply IH; assumption.
Qed.

Lemma count_range_ok dbg m rf rl : Rep m -> rf <= rl ->
  map_count_range dbg m rf rl = Ok (d_count_range (abs m) rf rl).
Proof.
  intros HR Hfl. destruct (locate_above_split dbg m rf HR) as (r & E & F0 & F1 & F2).
  unfold map_count_range. rewrite E. cbn [bind].
  set (first := match r with None => len m | Some i => i end) in *.
  destruct (len m <? first) eqn:C0; [lia|].
  assert (HRr : Rep (dropN first m)). { pose proof (take_drop m first) as Em. rewrite <- Em in HR. eapply Rep_app_r; exact HR. }
  set (out := clipped rf rl (dropN first m)).
  assert (HRo : Rep out) by (now apply clipped_rep).
  pose proof (sumd_abs out HRo) as S.
  assert (B : sumd out < U32 /\ len out < U32).
  { destruct out as [|s0 r0]; [cbn [sumd]; change (len (@nil seg)) with 0; unfold U32; lia|].
    pose proof (abs_bound r0 s0 HRo) as K. rewrite len_cons in *. unfold U32 in *. lia. }
  rewrite cr_loop_ok; [|exact Hfl| |].
  - cbn [bind]. fold out. unfold d_count_range. rewrite (restrict_split m first rf rl HR F0 F1). fold out.
    rewrite (iter_is_runs _ HRo). unfold map_iter. fold (len out). fold (len (abs out)).
    rewrite !N.add_0_l. rewrite N.mod_small by lia. unfold sat_add32, sat32. rewrite S. reflexivity.
  - intros s Hs. split; [exact (Rep_In_ok _ _ HRr Hs)|auto].
  - fold out. lia.
Qed.

(* ---------- remove_range ---------- *)
(* what is left of a segment below rf / above rl *)
Definition keepL (rf : N) (s : seg) : list seg :=
  if sfirst s <? rf then [(sfirst s, rf - 1, takeN (rf - sfirst s) (sdata s))] else [].
Definition keepR (rl : N) (s : seg) : list seg :=
  if rl <? slast s then [(rl + 1, slast s, dropN (rl + 1 - sfirst s) (sdata s))] else [].

Lemma abs_keepL rf s : abs (keepL rf s) = cells (sfirst s) (takeN (rf - sfirst s) (sdata s)).
Proof.
  unfold keepL. destruct (sfirst s <? rf) eqn:C.
  - unfold abs. cbn [flat_map]. rewrite sfirst_mk, sdata_mk. apply app_nil_r.
  - replace (rf - sfirst s) with 0 by lia. now rewrite takeN_0.
Qed.
Lemma abs_keepR rl s : seg_ok s -> sfirst s <= rl + 1 ->
  abs (keepR rl s) = cells (N.max (sfirst s) (rl + 1)) (dropN (rl + 1 - sfirst s) (sdata s)).
Proof.
  intros (S1 & S2 & S3) H. unfold keepR. destruct (rl <? slast s) eqn:C.
  - unfold abs. cbn [flat_map]. rewrite sfirst_mk, sdata_mk. rewrite app_nil_r. f_equal. lia.
  - rewrite dropN_all by lia. reflexivity.
Qed.

Lemma keep_rep rf rl fs ls : seg_ok fs -> seg_ok ls -> rf <= rl -> rf <= slast fs -> sfirst ls <= rl ->
  (fs = ls \/ slast fs < sfirst ls) ->
  Rep (keepL rf fs ++ keepR rl ls) /\
  forall s, In s (keepL rf fs ++ keepR rl ls) ->
    (sfirst fs <= sfirst s /\ slast s <= slast fs) \/ (sfirst ls <= sfirst s /\ slast s <= slast ls).
Proof.
  intros (F1 & F2 & F3) (L1 & L2 & L3) Hfl H1 H2 Hrel.
  assert (Hord : sfirst fs <= sfirst ls /\ slast fs <= slast ls) by (destruct Hrel as [->|]; lia).
  unfold keepL, keepR. destruct (sfirst fs <? rf) eqn:C1; destruct (rl <? slast ls) eqn:C2; cbn [app Rep In].
  - split.
    + unfold seg_ok. rewrite !sfirst_mk, !slast_mk, !sdata_mk, len_takeN, len_dropN. repeat split; try lia.
    + intros s [<-|[<-|[]]]; rewrite sfirst_mk, slast_mk; lia.
  - split.
    + unfold seg_ok. rewrite !sfirst_mk, !slast_mk, !sdata_mk, len_takeN. repeat split; try lia.
    + intros s [<-|[]]; rewrite sfirst_mk, slast_mk; lia.
  - split.
    + unfold seg_ok. rewrite !sfirst_mk, !slast_mk, !sdata_mk, len_dropN. repeat split; try lia.
    + intros s [<-|[]]; rewrite sfirst_mk, slast_mk; lia.
  - split; [exact I|]. intros s [].
Qed.

(* replacing a block of segments by a well-formed list that stays inside the block's extent *)
Lemma Rep_replace L1 old L2 mid : Rep (L1 ++ old ++ L2) -> Rep mid ->
  (forall s, In s mid -> exists lo hi, In lo old /\ In hi old /\ sfirst lo <= sfirst s /\ slast s <= slast hi) ->
  Rep (L1 ++ mid ++ L2).
Proof.
  intros HR Hm Hin. apply Rep_app_iff in HR. destruct HR as (R1 & R2 & G12).
  apply Rep_app_iff in R2. destruct R2 as (Ro & R2 & Go2).
  apply Rep_app_iff. split; [exact R1|]. split.
  - apply Rep_app_iff. split; [exact Hm|]. split; [exact R2|].
    intros x y Hx Hy. destruct (Hin x Hx) as (lo & hi & _ & Hhi & _ & K). pose proof (Go2 hi y Hhi Hy) as G. unfold gap in *. lia.
  - intros x y Hx Hy. apply in_app_or in Hy. destruct Hy as [Hy|Hy].
    + destruct (Hin y Hy) as (lo & hi & Hlo & _ & K & _).
      pose proof (G12 x lo Hx (in_or_app _ _ _ (or_introl Hlo))) as G. unfold gap in *. lia.
    + apply G12; [exact Hx|]. apply in_or_app. now right.
Qed.

(* normal form, one segment intersects the range *)
Lemma rr_norm_single L1 fs L2 rf rl : Rep (L1 ++ fs :: L2) -> rf <= rl ->
  (forall y, In y L1 -> slast y < rf) -> (forall y, In y L2 -> rl < sfirst y) ->
  rf <= slast fs -> sfirst fs <= rl ->
  Rep (L1 ++ (keepL rf fs ++ keepR rl fs) ++ L2) /\
  abs (L1 ++ (keepL rf fs ++ keepR rl fs) ++ L2) = d_remove_range (abs (L1 ++ fs :: L2)) rf rl.
Proof.
  intros HR Hfl H1 H2 T1 T2.
  pose proof HR as HR0. apply Rep_app_iff in HR0. destruct HR0 as (R1 & R2 & G12).
  apply Rep_cons_iff in R2. destruct R2 as (Sf & Gx & R2).
  destruct (keep_rep rf rl fs fs Sf Sf Hfl T1 T2 (or_introl eq_refl)) as (K1 & K2).
  split.
  - apply (Rep_replace L1 [fs] L2); [exact HR|exact K1|].
    intros s Hs. exists fs, fs. pose proof (K2 s Hs). cbn [In]. intuition.
  - rewrite !abs_app, abs_cons, abs_keepL, abs_keepR by (assumption || lia).
    unfold d_remove_range. rewrite !filter_app. rewrite filter_cells_out by exact Hfl.
    rewrite filter_abs_all; [|exact R1|].
    2:{ intros s x y Hs ? ?. pose proof (H1 s Hs). unfold in_range. cbn [fst]. lia. }
    rewrite (filter_abs_all _ L2); [|exact R2|].
    2:{ intros s x y Hs ? ?. pose proof (H2 s Hs). unfold in_range. cbn [fst]. lia. }
    reflexivity.
Qed.

(* normal form, several segments intersect the range *)
Lemma rr_norm_multi L1 fs mm ls L2 rf rl : Rep (L1 ++ fs :: mm ++ ls :: L2) -> rf <= rl ->
  (forall y, In y L1 -> slast y < rf) -> (forall y, In y L2 -> rl < sfirst y) ->
  rf <= slast fs -> sfirst ls <= rl ->
  Rep (L1 ++ (keepL rf fs ++ keepR rl ls) ++ L2) /\
  abs (L1 ++ (keepL rf fs ++ keepR rl ls) ++ L2) = d_remove_range (abs (L1 ++ fs :: mm ++ ls :: L2)) rf rl.
Proof.
  intros HR Hfl H1 H2 T1 T2.
  pose proof HR as HR0. apply Rep_app_iff in HR0. destruct HR0 as (R1 & R2 & G12).
  apply Rep_cons_iff in R2. destruct R2 as (Sf & Gx & R2). rewrite Forall_forall in Gx.
  apply Rep_app_iff in R2. destruct R2 as (Rm & R3 & Gm).
  apply Rep_cons_iff in R3. destruct R3 as (Sl & Gl & R3).
  assert (Gfl : gap fs ls). { apply Gx. apply in_or_app. right. now left. } unfold gap in Gfl.
  destruct (keep_rep rf rl fs ls Sf Sl Hfl T1 T2 ltac:(right; lia)) as (K1 & K2).
  split.
  - replace (L1 ++ fs :: mm ++ ls :: L2) with (L1 ++ (fs :: mm ++ [ls]) ++ L2) in HR
      by (cbn [app]; rewrite <- app_assoc; reflexivity).
    apply (Rep_replace L1 (fs :: mm ++ [ls]) L2); [exact HR|exact K1|].
    intros s Hs. exists fs, ls. split; [now left|]. split; [right; apply in_or_app; right; now left|].
    destruct Sf as (? & ? & ?). destruct Sl as (? & ? & ?). pose proof (K2 s Hs). lia.
  - destruct Sf as (F1 & F2 & F3). pose proof Sl as (Q1 & Q2 & Q3).
    rewrite !abs_app, abs_cons, abs_app, abs_cons, abs_keepL, abs_keepR by (assumption || lia).
    unfold d_remove_range. rewrite !filter_app. rewrite !filter_cells_out by exact Hfl.
    rewrite filter_abs_all; [|exact R1|].
    2:{ intros s x y Hs ? ?. pose proof (H1 s Hs). unfold in_range. cbn [fst]. lia. }
    rewrite (filter_abs_all _ L2); [|exact R3|].
    2:{ intros s x y Hs ? ?. pose proof (H2 s Hs). unfold in_range. cbn [fst]. lia. }
    rewrite (filter_abs_none _ mm); [|exact Rm|].
    2:{ intros s x y Hs ? ?. pose proof (Gx s (in_or_app _ _ _ (or_introl Hs))) as G1.
        pose proof (Gm s ls Hs (or_introl eq_refl)) as G2. unfold gap, in_range in *. cbn [fst]. lia. }
    rewrite (dropN_all (rl + 1 - sfirst fs)) by lia.
    replace (rf - sfirst ls) with 0 by lia. rewrite takeN_0. cbn [cells app]. rewrite app_nil_r. repeat rewrite <- app_assoc. reflexivity.
Qed.

(* the second half of remove_range (after the first segment has been trimmed), as a function of its own *)
Definition rr_phase2 (dbg : bool) (m1 : mmap) (fi rl : N) (remove_first : bool) : res mmap :=
  do r2 <- locate dbg m1 rl Below;
  match r2 with
  | None => if remove_first then Panic S_rr_assert else Ok m1
  | Some li =>
    if fi <? li then
      do ls <- vec_get m1 li S_rr_last_index;
      do '(m2, remove_last) <-
        (if rl <? slast ls then
           do m2 <- rr_cut_front dbg m1 li ls rl S_rr_cut2_add S_rr_cut2_sub S_rr_cut2_drain;
           Ok (m2, false)
         else Ok (m1, true));
      vec_drain m2 (fi + (if remove_first then 0 else 1)) (li + (if remove_last then 1 else 0))
                S_rr_drain_order S_rr_drain_end
    else
      if remove_first then vec_remove m1 fi S_rr_remove else Ok m1
  end.

Lemma rr_cut_front_ok dbg pre z post i rl s1 s2 s3 : seg_ok z -> i = len pre -> sfirst z <= rl + 1 -> rl < slast z ->
  rr_cut_front dbg (pre ++ z :: post) i z rl s1 s2 s3
  = Ok (pre ++ (rl + 1, slast z, dropN (rl + 1 - sfirst z) (sdata z)) :: post).
Proof.
  intros (S1 & S2 & S3) Hi H1 H2. unfold rr_cut_front.
  rewrite u32_add_ok by lia. cbn [bind]. rewrite u32_sub_ok by lia. cbn [bind].
  destruct (len (sdata z) <? rl + 1 - sfirst z) eqn:C; [lia|].
  now rewrite set_nth_app_len.
Qed.

Lemma rr_phase2_ok dbg L1 f1 R rl b : Rep (L1 ++ f1 :: R) -> sfirst f1 <= rl ->
  exists m', rr_phase2 dbg (L1 ++ f1 :: R) (len L1) rl b = Ok m' /\
    ((m' = L1 ++ (if b then [] else [f1]) ++ R /\ forall s, In s R -> rl < sfirst s)
     \/ exists mm ls L2, R = mm ++ ls :: L2 /\ sfirst ls <= rl /\ (forall s, In s L2 -> rl < sfirst s) /\
                         m' = L1 ++ (if b then [] else [f1]) ++ keepR rl ls ++ L2).
Proof.
  intros HR Hf. set (m1 := L1 ++ f1 :: R) in *. set (fi := len L1).
  assert (Gf : geti m1 fi = Some f1) by (apply geti_app_len; reflexivity).
  destruct (locate_ok dbg m1 rl Below HR) as (r2 & E2 & P2). unfold rr_phase2. rewrite E2. cbn [bind].
  destruct r2 as [li|]; cbn [locate_post] in P2.
  2:{ exfalso. pose proof (P2 fi f1 Gf). lia. }
  destruct P2 as (z & Gz & Q1 & Q2).
  assert (Lfi : fi <= li). { destruct (N.le_gt_cases fi li) as [L|L]; [exact L|]. pose proof (Q2 fi f1 L Gf). lia. }
  destruct (fi <? li) eqn:C.
  - (* a later segment is the last one starting at or below rl *)
    assert (Gr : geti R (li - fi - 1) = Some z).
    { unfold m1 in Gz. rewrite geti_app_r in Gz by (fold fi; lia). fold fi in Gz. rewrite geti_S in Gz by lia. exact Gz. }
    destruct (split1 R (li - fi - 1) z Gr) as (mm & L2 & ER & Lmm & _ & _).
    assert (Em1 : m1 = (L1 ++ f1 :: mm) ++ z :: L2).
    { unfold m1. rewrite ER. rewrite <- app_assoc. reflexivity. }
    assert (Lpre : li = len (L1 ++ f1 :: mm)) by (rewrite len_app, len_cons; fold fi; lia).
    assert (Sz : seg_ok z) by (exact (Rep_seg_ok m1 HR _ _ Gz)).
    assert (A2 : forall s, In s L2 -> rl < sfirst s).
    { intros s Hs. destruct (In_geti _ _ Hs) as (k & Gk). apply (Q2 (li + 1 + k)); [lia|].
      rewrite Em1. replace ((L1 ++ f1 :: mm) ++ z :: L2) with (((L1 ++ f1 :: mm) ++ [z]) ++ L2)
        by (rewrite <- app_assoc; reflexivity).
      rewrite geti_app_r by (rewrite len_app, len_cons, len_nil; lia).
      rewrite <- Gk. f_equal. rewrite len_app, len_cons, len_nil. lia. }
    rewrite (vec_get_ok _ _ _ _ Gz). cbn [bind].
    exists (L1 ++ (if b then [] else [f1]) ++ keepR rl z ++ L2). split.
    + unfold keepR. destruct (rl <? slast z) eqn:C2.
      * rewrite Em1. rewrite rr_cut_front_ok by (assumption || lia). cbn [bind].
        unfold vec_drain. rewrite N.add_0_r.
        match goal with |- context [li <? ?k] => destruct (li <? k) eqn:C3 end; [destruct b; lia|].
        match goal with |- context [len ?l <? li] => destruct (len l <? li) eqn:C4 end.
        { rewrite len_app, len_cons in C4. lia. }
        rewrite (dropN_app_len (L1 ++ f1 :: mm)) by exact Lpre.
        destruct b.
        -- rewrite <- app_assoc. rewrite (takeN_app_len L1) by (fold fi; lia). reflexivity.
        -- rewrite <- app_assoc. change (L1 ++ (f1 :: mm) ++ ?t) with (L1 ++ [f1] ++ mm ++ t). rewrite app_assoc.
           rewrite (takeN_app_len (L1 ++ [f1])) by (rewrite len_app, len_cons, len_nil; fold fi; lia).
           rewrite <- app_assoc. reflexivity.
      * cbn [bind]. unfold vec_drain.
        match goal with |- context [li + 1 <? ?k] => destruct (li + 1 <? k) eqn:C3 end; [destruct b; lia|].
        match goal with |- context [len ?l <? li + 1] => destruct (len l <? li + 1) eqn:C4 end.
        { rewrite Em1 in C4. rewrite len_app, len_cons in C4. lia. }
        replace (dropN (li + 1) m1) with L2.
        2:{ rewrite Em1. change ((L1 ++ f1 :: mm) ++ z :: L2) with ((L1 ++ f1 :: mm) ++ [z] ++ L2). rewrite app_assoc.
            symmetry. apply dropN_app_len. rewrite len_app, len_cons, len_nil. lia. }
        destruct b.
        -- unfold m1. rewrite (takeN_app_len L1) by (fold fi; lia). reflexivity.
        -- unfold m1. change (L1 ++ f1 :: R) with (L1 ++ [f1] ++ R). rewrite app_assoc.
           rewrite (takeN_app_len (L1 ++ [f1])) by (rewrite len_app, len_cons, len_nil; fold fi; lia).
           rewrite <- app_assoc. reflexivity.
    + right. exists mm, z, L2. split; [exact ER|]. split; [exact Q1|]. split; [exact A2|]. reflexivity.
  - assert (li = fi) by lia. subst li.
    assert (A2 : forall s, In s R -> rl < sfirst s).
    { intros s Hs. destruct (In_geti _ _ Hs) as (k & Gk). apply (Q2 (fi + 1 + k)); [lia|].
      unfold m1. change (L1 ++ f1 :: R) with (L1 ++ [f1] ++ R). rewrite app_assoc.
      rewrite geti_app_r by (rewrite len_app, len_cons, len_nil; fold fi; lia).
      rewrite <- Gk. f_equal. rewrite len_app, len_cons, len_nil. fold fi. lia. }
    exists (L1 ++ (if b then [] else [f1]) ++ R). split.
    + destruct b; [|reflexivity]. unfold vec_remove. pose proof (geti_lt _ _ _ Gf) as Lf.
      destruct (fi <? len m1) eqn:C1; [|lia].
      unfold m1. rewrite (takeN_app_len L1) by reflexivity.
      change (L1 ++ f1 :: R) with (L1 ++ [f1] ++ R). rewrite app_assoc.
      rewrite (dropN_app_len (L1 ++ [f1])) by (rewrite len_app, len_cons, len_nil; fold fi; lia). reflexivity.
    + left. split; [reflexivity|exact A2].
Qed.

(* after cutting the front of the first segment nothing else is touched *)
Lemma rr_phase2_cut dbg L1 f1 R rl : Rep (L1 ++ f1 :: R) -> rl < sfirst f1 ->
  rr_phase2 dbg (L1 ++ f1 :: R) (len L1) rl false = Ok (L1 ++ f1 :: R).
Proof.
  intros HR Hf. set (m1 := L1 ++ f1 :: R) in *. set (fi := len L1).
  assert (Gf : geti m1 fi = Some f1) by (apply geti_app_len; reflexivity).
  destruct (locate_ok dbg m1 rl Below HR) as (r2 & E2 & P2). unfold rr_phase2. rewrite E2. cbn [bind].
  destruct r2 as [li|]; [|reflexivity]. cbn [locate_post] in P2. destruct P2 as (z & Gz & Q1 & Q2).
  destruct (fi <? li) eqn:C; [|reflexivity]. exfalso.
  pose proof (Rep_mono m1 HR fi li f1 z ltac:(lia) Gf Gz). lia.
Qed.

Lemma remove_range_ok dbg m rf rl : Rep m -> rf <= rl ->
  exists m', map_remove_range dbg m rf rl = Ok m' /\ Rep m' /\ abs m' = d_remove_range (abs m) rf rl.
Proof.
  intros HR Hfl. destruct (locate_ok dbg m rf Above HR) as (r & E & P).
  unfold map_remove_range. rewrite E. cbn [bind]. destruct r as [fi|]; cbn [locate_post] in P.
  2:{ exists m. split; [reflexivity|]. split; [exact HR|]. symmetry. apply filter_abs_all; [exact HR|].
      intros s x y Hs ? ?. destruct (In_geti _ _ Hs) as (k & Gk). pose proof (P k s Gk). unfold in_range. cbn [fst]. lia. }
  destruct P as (fs & Gf & P1 & P2). rewrite (vec_get_ok _ _ _ _ Gf). cbn [bind].
  destruct (split1 m fi fs Gf) as (L1 & R & Em & Li & T1 & T2).
  assert (A1 : forall s, In s L1 -> slast s < rf).
  { intros s Hs. rewrite T1 in Hs. destruct (in_takeN _ _ _ Hs) as (k & Lk & Gk). eauto. }
  clear T1 T2 P2 E. subst m. subst fi. clear Gf.
  pose proof HR as HR0. apply Rep_app_iff in HR0. destruct HR0 as (R1 & R2 & G12).
  apply Rep_cons_iff in R2. destruct R2 as (Sf & Gx & R2). rewrite Forall_forall in Gx.
  pose proof Sf as (F1 & F2 & F3).
  destruct (rl <? sfirst fs) eqn:C0.
  { (* the range ends before the first candidate: nothing to remove *)
    eexists. split; [reflexivity|]. split; [exact HR|]. symmetry. apply filter_abs_all; [exact HR|].
    intros s x y Hs ? ?. unfold in_range. cbn [fst]. apply in_app_or in Hs. destruct Hs as [Hs|[<-|Hs]].
    - pose proof (A1 s Hs). lia.
    - lia.
    - pose proof (Gx s Hs) as K. unfold gap in K. lia. }
  destruct ((sfirst fs <? rf) && (rl <? slast fs)) eqn:C1.
  { (* split one segment into two *)
    assert (AR : forall s, In s R -> rl < sfirst s) by (intros s Hs; pose proof (Gx s Hs) as K; unfold gap in K; lia).
    destruct (rr_norm_single L1 fs R rf rl HR Hfl A1 AR ltac:(lia) ltac:(lia)) as (N1 & N2).
    unfold keepL, keepR in N1, N2.
    destruct (sfirst fs <? rf) eqn:D1; [|lia]. destruct (rl <? slast fs) eqn:D2; [|lia]. cbn [app] in N1, N2.
    eexists. split; [|split; [exact N1|exact N2]].
    rewrite u32_add_ok by lia. cbn [bind]. rewrite usz_sub_ok by lia. cbn [bind].
    destruct (len (sdata fs) <? len (sdata fs) - (slast fs - rl)) eqn:C2; [lia|].
    rewrite set_nth_app_len by reflexivity. unfold vec_insert.
    match goal with |- context [len L1 + 1 <=? ?k] => destruct (len L1 + 1 <=? k) eqn:C3 end.
    2:{ rewrite len_app, len_cons in C3. lia. }
    change (L1 ++ ?x :: R) with (L1 ++ [x] ++ R). rewrite app_assoc.
    rewrite takeN_app_len, dropN_app_len by (rewrite len_app, len_cons, len_nil; lia).
    rewrite <- app_assoc. cbn [app].
    replace (len (sdata fs) - (slast fs - rl)) with (rl + 1 - sfirst fs) by lia. reflexivity. }
  destruct (rf <=? sfirst fs) eqn:C2.
  - destruct (rl <? slast fs) eqn:C3.
    + (* cut the front of the first segment *)
      assert (AR : forall s, In s R -> rl < sfirst s) by (intros s Hs; pose proof (Gx s Hs) as K; unfold gap in K; lia).
      destruct (rr_norm_single L1 fs R rf rl HR Hfl A1 AR ltac:(lia) ltac:(lia)) as (N1 & N2).
      unfold keepL, keepR in N1, N2.
      destruct (sfirst fs <? rf) eqn:D1; [lia|]. rewrite C3 in N1, N2. cbn [app] in N1, N2.
      eexists. split; [|split; [exact N1|exact N2]].
      rewrite rr_cut_front_ok by (assumption || lia). cbn [bind].
      apply (rr_phase2_cut dbg L1 _ R rl N1). rewrite sfirst_mk. lia.
    + (* the first segment goes away completely *)
      cbn [bind].
      destruct (rr_phase2_ok dbg L1 fs R rl true HR ltac:(lia)) as (m' & E2 & [(Em' & AR)|(mm & ls & L2 & ER & Tl & AL2 & Em')]).
      * destruct (rr_norm_single L1 fs R rf rl HR Hfl A1 AR ltac:(lia) ltac:(lia)) as (N1 & N2).
        unfold keepL, keepR in N1, N2.
        destruct (sfirst fs <? rf) eqn:D1; [lia|]. rewrite C3 in N1, N2. cbn [app] in N1, N2, Em'.
        exists m'. split; [exact E2|]. subst m'. split; [exact N1|exact N2].
      * subst R.
        destruct (rr_norm_multi L1 fs mm ls L2 rf rl HR Hfl A1 AL2 ltac:(lia) Tl) as (N1 & N2).
        unfold keepL in N1, N2. destruct (sfirst fs <? rf) eqn:D1; [lia|]. cbn [app] in N1, N2, Em'.
        exists m'. split; [exact E2|]. subst m'. split; [exact N1|exact N2].
  - (* truncate the first segment *)
    cbn [bind]. rewrite set_nth_app_len by reflexivity.
    assert (D1 : (sfirst fs <? rf) = true) by lia.
    assert (D2 : (rl <? slast fs) = false) by lia.
    set (f1 := (sfirst fs, rf - 1, takeN (rf - sfirst fs) (sdata fs))).
    assert (HR1 : Rep (L1 ++ f1 :: R)).
    { change (L1 ++ f1 :: R) with (L1 ++ [f1] ++ R). apply (Rep_replace L1 [fs] R); [exact HR| |].
      - cbn [Rep]. split; [|tauto]. unfold seg_ok, f1. rewrite sfirst_mk, slast_mk, sdata_mk, len_takeN. lia.
      - intros s [<-|[]]. exists fs, fs. cbn [In]. unfold f1. rewrite sfirst_mk, slast_mk. repeat split; auto; lia. }
    destruct (rr_phase2_ok dbg L1 f1 R rl false HR1 ltac:(unfold f1; rewrite sfirst_mk; lia))
      as (m' & E2 & [(Em' & AR)|(mm & ls & L2 & ER & Tl & AL2 & Em')]).
    + destruct (rr_norm_single L1 fs R rf rl HR Hfl A1 AR ltac:(lia) ltac:(lia)) as (N1 & N2).
      unfold keepL, keepR in N1, N2. rewrite D1, D2 in N1, N2. cbn [app] in N1, N2, Em'. fold f1 in N1, N2.
      exists m'. split; [exact E2|]. subst m'. split; [exact N1|exact N2].
    + subst R.
      destruct (rr_norm_multi L1 fs mm ls L2 rf rl HR Hfl A1 AL2 ltac:(lia) Tl) as (N1 & N2).
      unfold keepL in N1, N2. rewrite D1 in N1, N2. cbn [app] in N1, N2, Em'. fold f1 in N1, N2.
      exists m'. split; [exact E2|]. subst m'. split; [exact N1|exact N2].
Qed.
