(* C15 proofs, part 7: the occupied-address view of put, for clients of the map (the segment writer of
   src/asm: a write into free addresses — possibly adjacent to existing segments — reports |data| new
   addresses and occupies exactly the old addresses plus the written interval). *)
From Coq Require Import NArith List Bool Lia ZifyBool ZifyNat ZifyN.
From Trion Require Import Mem.MapModel Mem.DictSpec Mem.MapProofs Mem.MapProofs2 Mem.MapLemmas
  Mem.MapPutNorm Mem.MapPutProofs.
Import ListNotations.
Open Scope N_scope.

Definition occupied (m : mmap) (x : N) : Prop := exists g, In g m /\ sfirst g <= x /\ x <= slast g.
Definition has_key (d : dict) (x : N) : Prop := exists y, In (x, y) d.

Lemma d_set_keys d a b x : has_key (d_set d a b) x <-> has_key d x \/ x = a.
Proof.
  unfold has_key. induction d as [|(k, v) d IH].
  - cbn [d_set In]. split.
    + intros (y & [E|F]); [|destruct F]. inversion E. now right.
    + intros [(y & F)| ->]; [destruct F|]. exists b. now left.
  - cbn [d_set]. destruct (a <? k) eqn:E1.
    + cbn [In]. split.
      * intros (y & [E|H]); [inversion E; now right|left; eauto].
      * intros [(y & H)| ->]; [exists y; now right|exists b; now left].
    + destruct (a =? k) eqn:E2.
      * assert (a = k) by lia. subst k. cbn [In]. split.
        -- intros (y & [E|H]); [inversion E; now right|left; eauto].
        -- intros [(y & [E|H])| ->]; [inversion E; subst; exists b; now left|exists y; now right|exists b; now left].
      * cbn [In]. split.
        -- intros (y & [E|H]); [left; exists y; now left|].
           destruct (proj1 IH (ex_intro _ y H)) as [(y' & H')| ->]; [left; exists y'; now right|now right].
        -- intros [(y & [E|H])| ->].
           ++ exists y. now left.
           ++ destruct (proj2 IH (or_introl (ex_intro _ y H))) as (y' & H'). exists y'. now right.
           ++ destruct (proj2 IH (or_intror eq_refl)) as (y' & H'). exists y'. now right.
Qed.

Lemma d_write_keys : forall data d a x, has_key (d_write d a data) x <-> has_key d x \/ (a <= x /\ x < a + len data).
Proof.
  induction data as [|b bs IH]; intros d a x.
  - cbn [d_write]. rewrite len_nil. split; [now left|]. intros [H|H]; [exact H|lia].
  - cbn [d_write]. rewrite IH, d_set_keys, len_cons. split.
    + intros [[H| ->]|H]; [now left|right; lia|right; lia].
    + intros [H|H]; [left; now left|]. destruct (N.eq_dec x a) as [->|Ne]; [left; now right|right; lia].
Qed.

Lemma cells_keys : forall d a x, has_key (cells a d) x <-> a <= x /\ x < a + len d.
Proof.
  unfold has_key. induction d as [|b d IH]; intros a x.
  - cbn [cells In]. rewrite len_nil. split; [intros (y & F); destruct F|lia].
  - cbn [cells In]. rewrite len_cons. split.
    + intros (y & [E|H]); [inversion E; lia|]. pose proof (proj1 (IH (a + 1) x) (ex_intro _ y H)). lia.
    + intros H. destruct (N.eq_dec x a) as [->|Ne]; [exists b; now left|].
      destruct (proj2 (IH (a + 1) x) ltac:(lia)) as (y & Hy). exists y. now right.
Qed.

Lemma abs_keys m x : Rep m -> (has_key (abs m) x <-> occupied m x).
Proof.
  intros HR. split.
  - intros (y & H). destruct (abs_in m HR _ _ H) as (s & Hs & ? & ?). exists s. auto.
  - intros (g & Hg & H1 & H2). destruct (Rep_In_ok _ _ HR Hg) as (S1 & S2 & S3).
    apply in_split in Hg. destruct Hg as (l1 & l2 & ->).
    destruct (proj2 (cells_keys (sdata g) (sfirst g) x) ltac:(lia)) as (y & Hy).
    exists y. rewrite abs_app, abs_cons. apply in_or_app. right. apply in_or_app. now left.
Qed.

(* a write into free addresses (adjacent segments allowed): no panic, |data| new addresses, invariant kept,
   and the occupied set grows by exactly the written interval *)
Lemma put_fresh_ok dbg m a data : Rep m -> a + len data <= U32 ->
  (forall g, In g m -> slast g < a \/ a + len data <= sfirst g) ->
  exists m', map_put dbg m a data = Ok (m', Some (len data)) /\ Rep m' /\
    (forall x, occupied m' x <-> occupied m x \/ (a <= x /\ x < a + len data)).
Proof.
  intros HR Hsp Hfree. destruct data as [|b0 d0].
  { exists m. split; [reflexivity|]. split; [exact HR|]. intros x. rewrite len_nil. split; [now left|]. intros [H|H]; [exact H|lia]. }
  set (data := b0 :: d0) in *. assert (Hl : 0 < len data) by (unfold data; rewrite len_cons; lia).
  destruct (put_ok dbg m a data HR ltac:(unfold U32 in *; lia) ltac:(unfold SPACE, U32 in *; lia)) as (m' & n & E & R' & D).
  unfold d_put in D. fold (len data) in D. destruct (SPACE <? a + len data) eqn:C; [unfold SPACE, U32 in *; lia|].
  pose proof (f_equal fst D) as D1. pose proof (f_equal snd D) as D2. cbn [fst snd] in D1, D2.
  assert (Hn : d_fresh (abs m) a data = len data).
  { apply d_fresh_all. intros (x, y) Hc. destruct (abs_in m HR _ _ Hc) as (s & Hs & ? & ?).
    destruct (Hfree s Hs); cbn [fst]; lia. }
  assert (En : n = len data) by congruence.
  exists m'. split; [rewrite E, En; reflexivity|]. split; [exact R'|].
  intros x. rewrite <- (abs_keys m' x R'), <- (abs_keys m x HR). rewrite <- D1. apply d_write_keys.
Qed.
