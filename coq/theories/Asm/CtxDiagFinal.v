(* C12, diagnostics clause, END TO END: every diagnostic in the final error list of the pipeline model
   (CtxModel.pipeline_gen: Context::assemble of the root file with all its includes, closing the last region, finalize)
   is positioned at a statement of a file of the project, or is the parse error of such a file at the parser's error position.

   opened path data : `data` is the text assembled under the name `path`: the root file, or a file named by an .include
                      statement (string argument n, looked up as fs (resolve_path includer n)) of a file that is itself opened.
                      Every file Context::assemble is entered with during the run is in this set (the set is closed under the
                      .include statements present in the files, whether or not the run reaches them).
   pos_src F L C    : (L, C) is the position (e_line, e_col) of a statement element of the parse of a file opened as F.
   diag_src d       : d is at pos_src (any class), or d has class Parse and sits at the error position (pe_line, pe_col) of
                      the error item of the parse of the file opened as d_file d.
   There is NO position-less diagnostic in the model: closing the last region and finalize push nothing of their own
   (close_segment pushes no diagnostic: a close error is reported through the status CloseError; finalize only runs the
   re-scheduled statements, whose diagnostics carry the statement's stored file, line and column).
   stmt_pos_of      : the position of a statement element is that of the first token of its chunk of tokens, and a token's
                      position is PosSpec.pos_of of the text before its first byte (composition of C12_element_pos and
                      C12_tok_token_pos on the same file text).

   Proof: `grow st st'` (errors and global_tasks only grew, by diag_src diagnostics / tasks storing a pos_src position) and
   `lt_ok F st` (every task of the current file's local list stores a pos_src position; the .global / .import bookkeeping
   tasks store line and column and report in the current file F) are preserved by every statement (CtxDiagProofs.step_diag),
   by .include (induction on the include fuel), by every deferred task (task_diag) and by finalize; the facts about the shape
   of the state (path stack unchanged, only re-scheduled statements reach global_tasks) come from CtxNoPanic.v. *)
From Coq Require Import ZArith NArith PeanoNat List Bool Lia.
From Trion Require Import Text.Types Asm.CtxModel Asm.CtxDiagProofs Asm.CtxInvDefs Asm.CtxNoPanic.
From Trion Require Base.Utf8 Text.ParseModel Text.ParseProofs Text.TokenModel Text.TokenProofs Text.PosSpec Expr.EvalModel.
Import ListNotations.

(* ================================================================ statements *)
Section Project.
  Variable fs : str -> option (list N).
  Variable root : str.
  Variable text : list N.

  Inductive opened : str -> list N -> Prop :=
  | Op_root : opened root text
  | Op_inc path data items tail el name n rest data' :
      opened path data -> parse_source data = Parsed items tail -> In (ParseModel.IOk el) items ->
      e_val el = EDirective name (AStr n :: rest) -> dir_of name = Some DInclude ->
      fs (resolve_path path n) = Some data' -> opened (resolve_path path n) data'.

  Definition pos_src (F : str) (L C : N) : Prop :=
    exists data items tail el, opened F data /\ parse_source data = Parsed items tail /\ In (ParseModel.IOk el) items /\
      L = e_line el /\ C = e_col el.

  Inductive diag_src (d : diag) : Prop :=
  | DS_stmt : pos_src (d_file d) (d_line d) (d_col d) -> diag_src d
  | DS_parse data items tail pe : opened (d_file d) data -> parse_source data = Parsed items tail ->
      In (ParseModel.IErr pe) items -> d_line d = ParseModel.pe_line pe -> d_col d = ParseModel.pe_col pe ->
      d_class d = KParse -> diag_src d.

  (* ================================================================ proofs *)
  (* a task that stores file, line and column *)
  Definition gtask_src (t : task) : Prop :=
    match t with
    | InstrTask ai _ => pos_src (ai_file ai) (ai_line ai) (ai_col ai)
    | DataTask d _ => pos_src (de_file d) (de_line d) (de_col d)
    | GlobalTask _ _ _ | ImportCheckTask _ _ _ => False
    end.
  (* a task of the local list of the file F *)
  Definition ltask_src (F : str) (t : task) : Prop :=
    match t with
    | InstrTask ai _ => pos_src (ai_file ai) (ai_line ai) (ai_col ai)
    | DataTask d _ => pos_src (de_file d) (de_line d) (de_col d)
    | GlobalTask _ l c | ImportCheckTask _ l c => pos_src F l c
    end.
  Definition lt_ok (F : str) (st : state) : Prop :=
    match local_tasks st with Some l => Forall (ltask_src F) l | None => True end.

  Definition grow (st st' : state) : Prop :=
    curr_name st' = curr_name st /\
    (exists l, errors st' = l ++ errors st /\ Forall diag_src l) /\
    (exists n, global_tasks st' = global_tasks st ++ n /\ Forall gtask_src n).

  Lemma grow_refl st : grow st st.
  Proof.
    split; [reflexivity|]. split; [exists []; split; [reflexivity|constructor]|].
    exists []. rewrite app_nil_r. split; [reflexivity|constructor].
  Qed.
  Lemma grow_trans a b c : grow a b -> grow b c -> grow a c.
  Proof.
    intros (N1 & (l1 & E1 & F1) & (n1 & G1 & H1)) (N2 & (l2 & E2 & F2) & (n2 & G2 & H2)).
    split; [congruence|]. split.
    - exists (l2 ++ l1). rewrite E2, E1, app_assoc. split; [reflexivity|apply Forall_app; split; assumption].
    - exists (n1 ++ n2). rewrite G2, G1, app_assoc. split; [reflexivity|apply Forall_app; split; assumption].
  Qed.
  (* states that differ in local_tasks only *)
  Lemma grow_same st st' : curr_name st' = curr_name st -> errors st' = errors st -> global_tasks st' = global_tasks st -> grow st st'.
  Proof.
    intros A B C. split; [exact A|]. split; [exists []; split; [exact B|constructor]|].
    exists []. rewrite app_nil_r. split; [exact C|constructor].
  Qed.
  Lemma grow_push st F L C k : curr_name st = F -> pos_src F L C -> grow st (push_error st L C k).
  Proof.
    intros N1 P. split; [reflexivity|]. split.
    - exists [mkDiag (curr_name st) L C k]. split; [reflexivity|]. constructor; [|constructor].
      apply DS_stmt. cbn. rewrite N1. exact P.
    - exists []. rewrite app_nil_r. split; [reflexivity|constructor].
  Qed.

  Lemma gtask_l F t : gtask_src t -> ltask_src F t.
  Proof. destruct t; cbn; tauto. Qed.
  Lemma task_at_l F L C t : pos_src F L C -> task_at F L C t -> ltask_src F t.
  Proof. intros P. destruct t; cbn; intros H; [destruct H as (-> & -> & ->)|destruct H as (-> & -> & ->)|destruct H as (-> & ->)|destruct H as (-> & ->)]; exact P. Qed.
  Lemma task_at_g F L C t : pos_src F L C -> task_at F L C t -> plain t -> gtask_src t.
  Proof. intros P. destruct t; cbn; intros H Pl; try contradiction; destruct H as (-> & -> & ->); exact P. Qed.
  Lemma at_pos_src F L C d : pos_src F L C -> at_pos F L C d -> diag_src d.
  Proof. intros P (A & B & C'). apply DS_stmt. rewrite A, B, C'. exact P. Qed.
  Lemma ltask_pos F st t : ltask_src F t -> curr_name st = F -> pos_src (task_file st t) (task_line t) (task_col t).
  Proof. destruct t; cbn; intros H N1; try rewrite N1; exact H. Qed.
  Lemma gtask_pos st t : gtask_src t -> pos_src (task_file st t) (task_line t) (task_col t).
  Proof. destruct t; cbn; intros H; try contradiction; exact H. Qed.

  (* what a statement or task at the position (F, L, C) does (CtxDiagProofs.rel), read as grow / lt_ok *)
  Lemma rel_grow F L C st st' : pos_src F L C -> rel (at_pos F L C) (task_at F L C) st st' -> keeps st st' ->
    grow st st' /\ (lt_ok F st -> lt_ok F st').
  Proof.
    intros P (N1 & (l & E & Fl) & (n & G & Fn) & O) (_ & _ & _ & l2 & G2 & F2).
    assert (n = l2) by (rewrite G in G2; now apply app_inv_head in G2). subst l2.
    split.
    - split; [exact N1|]. split.
      + exists l. split; [exact E|]. eapply Forall_impl; [|exact Fl]. intros d. now apply at_pos_src.
      + exists n. split; [exact G|]. rewrite Forall_forall in *. intros t Ht. apply (task_at_g F L C); auto.
    - unfold lt_ok. unfold opt_ext in O. destruct (local_tasks st) as [x|], (local_tasks st') as [y|]; try tauto.
      destruct O as (m & -> & Fm). intros Fx. apply Forall_app. split; [exact Fx|].
      eapply Forall_impl; [|exact Fm]. intros t. now apply task_at_l.
  Qed.

  Lemma grow_keeps_new st st' : grow st st' -> keeps st st' ->
    exists n, global_tasks st' = global_tasks st ++ n /\ Forall gtask_src n /\ Forall plain n.
  Proof.
    intros (_ & _ & (n & G & Fn)) (_ & _ & _ & l2 & G2 & F2).
    assert (n = l2) by (rewrite G in G2; now apply app_inv_head in G2). subst l2. exists n. auto.
  Qed.

  (* ---------------------------------------------------------------- deferred tasks *)
  Lemma spost_ret {A} st (r : res A) a st' : spost st r -> r = Ret a st' -> eqs st st'.
  Proof. intros S E. rewrite E in S. exact S. Qed.

  (* a task never touches local_tasks *)
  Lemma run_task_local dbg st t r st' : ev_ok st -> run_task dbg st t = Ret r st' -> local_tasks st' = local_tasks st.
  Proof.
    intros EV. destruct t as [ai g|d g|name line col|name line col]; cbn [run_task]; unfold bind.
    - pose proof (instr_assemble_s st ai false EV) as IA.
      destruct (instr_assemble st ai false) as [[op ai'] st1| |]; try contradiction.
      destruct IA as (_ & _ & _ & L1 & _). destruct op.
      + intros W. pose proof (spost_ret _ _ _ _ (write_instr_s dbg st1 ai' false) W) as (_ & _ & _ & L2 & _). congruence.
      + destruct g.
        * intros H; inversion H; subst. exact L1.
        * cbn [add_task]. intros H; inversion H; subst. exact L1.
      + intros H; inversion H; subst. exact L1.
    - pose proof (data_apply_s dbg st d false EV) as DA.
      destruct (data_apply dbg st d false) as [[op d'] st1| |]; try discriminate.
      destruct DA as (_ & _ & _ & L1 & _). destruct op.
      + intros H; inversion H; subst. exact L1.
      + destruct g.
        * intros H; inversion H; subst. exact L1.
        * cbn [add_task]. intros H; inversion H; subst. exact L1.
      + intros H; inversion H; subst. exact L1.
    - destruct (get_constant st name RLocal) as [[v| |]|]; try discriminate;
        try (intros H; inversion H; subst; reflexivity).
      unfold insert_constant. destruct (is_register name); cbn [realm_table].
      { discriminate. }
      destruct (tbl_get (globals st) name) as [[z|]|]; intros H; inversion H; subst; reflexivity.
    - destruct (get_constant st name RLocal) as [[v| |]|]; try discriminate;
        intros H; inversion H; subst; reflexivity.
  Qed.

  Lemma run_task_src dbg st t r st' : tinv st -> infile st \/ (path_stack st = [] /\ plain t) ->
    pos_src (task_file st t) (task_line t) (task_col t) -> run_task dbg st t = Ret r st' ->
    grow st st' /\ local_tasks st' = local_tasks st /\ tinv st' /\ keeps st st'.
  Proof.
    intros T I P H. pose proof (run_task_q dbg st t T I) as Q. rewrite H in Q. destruct Q as (T1 & K1).
    assert (EV : ev_ok st) by (destruct I as [I|(I & _)]; [apply infile_ev_ok; exact I|apply top_ev_ok; exact I]).
    destruct (rel_grow _ _ _ _ _ P (task_diag _ _ _ _ _ H) K1) as (G & _).
    split; [exact G|]. split; [eapply run_task_local; eauto|]. split; assumption.
  Qed.

  Lemma local_round_src dbg F tasks : forall st r r' st', tinv st -> infile st -> curr_name st = F -> Forall (ltask_src F) tasks ->
    local_round dbg tasks st r = Ret r' st' -> grow st st' /\ local_tasks st' = local_tasks st /\ tinv st' /\ keeps st st'.
  Proof.
    induction tasks as [|t rest IH]; intros st r r' st' T I N1 Ft; cbn [local_round]; unfold bind.
    - intros H; inversion H; subst. split; [apply grow_refl|]. split; [reflexivity|]. split; [exact T|apply keeps_refl].
    - inversion Ft as [|? ? Pt Fr]; subst.
      destruct (run_task dbg st t) as [x st1| |] eqn:E; try discriminate.
      destruct (run_task_src dbg st t x st1 T (or_introl I) (ltask_pos _ _ _ Pt eq_refl) E) as (G1 & L1 & T1 & K1).
      pose proof (infile_keeps _ _ I K1) as I1. pose proof (proj1 G1) as N2.
      assert (REC : forall r0, local_round dbg rest st1 r0 = Ret r' st' ->
                grow st st' /\ local_tasks st' = local_tasks st /\ tinv st' /\ keeps st st').
      { intros r0 H. destruct (IH st1 r0 r' st' T1 I1 N2 Fr H) as (G2 & L2 & T2 & K2).
        split; [eapply grow_trans; eauto|]. split; [congruence|]. split; [exact T2|eapply keeps_trans; eauto]. }
      destruct x as [lvl|]; [|apply REC].
      destruct (is_fatal lvl); [|apply REC].
      intros H; inversion H; subst. auto.
  Qed.

  Lemma local_loop_src dbg F rounds : forall tasks st r r' st', tinv st -> infile st -> curr_name st = F ->
    local_tasks st = Some [] -> Forall (ltask_src F) tasks -> local_loop dbg rounds tasks st r = Ret r' st' ->
    grow st st' /\ local_tasks st' = Some [] /\ tinv st' /\ keeps st st'.
  Proof.
    induction rounds as [|k IH]; intros tasks st r r' st' T I N1 L0 Ft; cbn [local_loop].
    - destruct tasks; [|discriminate]. intros H; inversion H; subst.
      split; [apply grow_refl|]. split; [exact L0|]. split; [exact T|apply keeps_refl].
    - destruct tasks as [|t0 tl].
      { intros H; inversion H; subst. split; [apply grow_refl|]. split; [exact L0|]. split; [exact T|apply keeps_refl]. }
      unfold bind. destruct (local_round dbg (t0 :: tl) st r) as [r1 st1| |] eqn:E; try discriminate.
      destruct (local_round_src dbg F _ _ _ _ _ T I N1 Ft E) as (G1 & L1 & T1 & K1).
      pose proof (infile_keeps _ _ I K1) as I1. rewrite L0 in L1. rewrite L1.
      destruct (set_local_tasks_q st1 [] T1 I1) as (T2 & K2 & I2).
      set (st2 := set_local_tasks st1 (Some [])) in *.
      assert (G2 : grow st st2) by (eapply grow_trans; [exact G1|apply grow_same; reflexivity]).
      assert (K02 : keeps st st2) by (eapply keeps_trans; eauto).
      destruct (res_is_fatal r1).
      + intros H; inversion H; subst. split; [exact G2|]. split; [reflexivity|]. split; assumption.
      + intros H. destruct (IH [] st2 r1 r' st' T2 I2) as (G3 & L3 & T3 & K3); auto.
        { unfold st2. cbn. exact (eq_trans (proj1 G1) N1). }
        split; [eapply grow_trans; eauto|]. split; [exact L3|]. split; [exact T3|eapply keeps_trans; eauto].
  Qed.

  (* ---------------------------------------------------------------- the .include statement *)
  Lemma dir_include_cases inc st L C args r st' : dir_include fs inc st L C args = Ret r st' ->
    rel (at_pos (curr_name st) L C) (task_at (curr_name st) L C) st st' \/
    exists n rest data r1 st1, args = AStr n :: rest /\
      fs (resolve_path (match path_stack st with [] => [] | p :: _ => p end) n) = Some data /\
      inc st data (resolve_path (match path_stack st with [] => [] | p :: _ => p end) n) = Ret r1 st1 /\
      (st' = st1 \/ exists k, st' = push_error st1 L C k).
  Proof.
    unfold dir_include, bind. destruct (arity_check st L C args 1) eqn:A.
    { intros H; inv H. left. eapply arity_rel; eauto. }
    destruct args as [|a rest]; [discriminate|].
    assert (PH : forall k, rel (at_pos (curr_name st) L C) (task_at (curr_name st) L C) st (push_error st L C k)).
    { intros k. unfold push_error. apply rel_push_in. repeat split. }
    destruct a; try (intros H; inv H; left; apply PH).
    cbv zeta. destruct (existsb _ _); [intros H; inv H; left; apply PH|].
    destruct (fs _) as [data|] eqn:Fs; [|intros H; inv H; left; apply PH].
    destruct (inc st data _) as [r1 st1| |] eqn:I; try discriminate. intros H. right.
    exists s, rest, data, r1, st1. split; [reflexivity|]. split; [exact Fs|]. split; [exact I|].
    destruct r1; inv H; [right; eexists; reflexivity|left; reflexivity].
  Qed.

  (* Context::assemble one level down: everything it reports and re-schedules has a source position *)
  Definition inc_src (inc : state -> list N -> str -> res result) : Prop :=
    forall st data path r st', opened path data -> tinv st -> inc st data path = Ret r st' -> rel diag_src gtask_src st st'.

  Lemma rel_src_grow F st st' : rel diag_src gtask_src st st' -> grow st st' /\ (lt_ok F st -> lt_ok F st').
  Proof.
    intros (N1 & E & G & O). split; [split; [exact N1|split; assumption]|].
    unfold lt_ok. unfold opt_ext in O. destruct (local_tasks st) as [x|], (local_tasks st') as [y|]; try tauto.
    destruct O as (m & -> & Fm). intros Fx. apply Forall_app. split; [exact Fx|].
    eapply Forall_impl; [|exact Fm]. intros t. apply gtask_l.
  Qed.

  (* ---------------------------------------------------------------- one file *)
  Definition hd_ok (st : state) : Prop := exists tl, path_stack st = curr_name st :: tl.

  Section File.
    Variable dbg : bool.
    Variable inc : state -> list N -> str -> res result.
    Hypothesis IQ : inc_q inc.
    Hypothesis IS : inc_src inc.
    Variable F : str.
    Variable data : list N.
    Variable items : list ParseModel.item.
    Variable tail : option (option site).
    Hypothesis OP : opened F data.
    Hypothesis PS : parse_source data = Parsed items tail.

    Definition fpost (st st' : state) : Prop := grow st st' /\ lt_ok F st' /\ tinv st' /\ keeps st st'.

    Lemma step_src st e r st' : In (ParseModel.IOk e) items -> tinv st -> infile st -> curr_name st = F -> hd_ok st -> lt_ok F st ->
      step dbg fs inc st e = Ret r st' -> fpost st st'.
    Proof.
      intros IN T I N1 (tl & HD) LT H.
      pose proof (step_q dbg fs inc st e IQ T I) as Q. rewrite H in Q. destruct Q as (T1 & K1).
      assert (P : pos_src F (e_line e) (e_col e)) by (exists data, items, tail, e; auto).
      destruct (is_include e) eqn:NI.
      - unfold is_include in NI. unfold step in H. cbv zeta in H. destruct (e_val e) as [name|name args|name args] eqn:EV; try discriminate NI.
        unfold process_directive in H. destruct (dir_of name) as [[]|] eqn:DO; try discriminate NI.
        apply dir_include_cases in H. destruct H as [R|(n & rest & data' & r1 & st1 & -> & Fs & Ic & Hst)].
        + rewrite N1 in R. destruct (rel_grow _ _ _ _ _ P R K1) as (G & L). split; [exact G|]. split; [auto|]. split; assumption.
        + rewrite HD, N1 in Fs, Ic.
          assert (OP' : opened (resolve_path F n) data') by (eapply Op_inc; eauto).
          destruct (rel_src_grow F _ _ (IS _ _ _ _ _ OP' T Ic)) as (G1 & L1).
          split; [|split; [|split; assumption]].
          * destruct Hst as [->|(k & ->)]; [exact G1|]. eapply grow_trans; [exact G1|].
            apply (grow_push _ F); [exact (eq_trans (proj1 G1) N1)|exact P].
          * destruct Hst as [->|(k & ->)]; [auto|]. apply L1 in LT. exact LT.
      - pose proof (step_diag _ _ _ _ _ _ _ NI H) as R. rewrite N1 in R.
        destruct (rel_grow _ _ _ _ _ P R K1) as (G & L). split; [exact G|]. split; [auto|]. split; assumption.
    Qed.

    Lemma fpost_next st st1 : tinv st -> infile st -> curr_name st = F -> hd_ok st -> fpost st st1 ->
      tinv st1 /\ infile st1 /\ curr_name st1 = F /\ hd_ok st1 /\ lt_ok F st1.
    Proof.
      intros T I N1 (tl & HD) (G & L & T1 & K1). split; [exact T1|]. split; [eapply infile_keeps; eauto|].
      pose proof (proj1 G) as N2. split; [congruence|]. split; [|exact L].
      exists tl. destruct K1 as (P1 & _). congruence.
    Qed.
    Lemma fpost_trans a b c : fpost a b -> fpost b c -> fpost a c.
    Proof.
      intros (G1 & L1 & T1 & K1) (G2 & L2 & T2 & K2). split; [eapply grow_trans; eauto|]. split; [exact L2|].
      split; [exact T2|eapply keeps_trans; eauto].
    Qed.

    Lemma run_items_src : forall its, (forall x, In x its -> In x items) -> forall st r st',
      tinv st -> infile st -> curr_name st = F -> hd_ok st -> lt_ok F st ->
      run_items dbg fs inc its st = Ret r st' -> fpost st st'.
    Proof.
      induction its as [|it rest IH]; intros SUB st r st' T I N1 HD LT; cbn [run_items].
      - intros H; inversion H; subst. split; [apply grow_refl|]. split; [exact LT|]. split; [exact T|apply keeps_refl].
      - destruct it as [el|pe].
        + unfold bind. destruct (step dbg fs inc st el) as [x st1| |] eqn:E; try discriminate.
          assert (S1 : fpost st st1) by (eapply step_src; eauto; apply SUB; left; reflexivity).
          destruct x as [l|]; [intros H; inversion H; subst; exact S1|].
          intros H. destruct (fpost_next _ _ T I N1 HD S1) as (T1 & I1 & N2 & HD1 & LT1).
          eapply fpost_trans; [exact S1|]. eapply IH; eauto. intros x Hx. apply SUB. right. exact Hx.
        + intros H; inversion H; subst. split; [|split; [exact LT|split; [exact T|apply eqs_keeps; repeat split; reflexivity]]].
          split; [reflexivity|]. split.
          * exists [mkDiag (curr_name st) (ParseModel.pe_line pe) (ParseModel.pe_col pe) KParse]. split; [reflexivity|].
            constructor; [|constructor]. apply (DS_parse _ data items tail pe); cbn [d_file d_line d_col d_class]; try reflexivity;
              [rewrite N1; exact OP|exact PS|apply SUB; left; reflexivity].
          * exists []. rewrite app_nil_r. split; [reflexivity|constructor].
    Qed.

    Lemma do_assemble_src st r st' : tinv st -> infile st -> curr_name st = F -> hd_ok st -> lt_ok F st ->
      do_assemble dbg fs inc st data = Ret r st' -> fpost st st'.
    Proof.
      intros T I N1 HD LT. unfold do_assemble. rewrite PS. unfold bind.
      destruct (run_items dbg fs inc items st) as [x st1| |] eqn:E; try discriminate.
      assert (S1 : fpost st st1) by (eapply run_items_src; eauto).
      destruct x; [intros H; inversion H; subst; exact S1|].
      destruct tail as [[p|]|]; try discriminate. intros H; inversion H; subst. exact S1.
    Qed.
  End File.

  (* ---------------------------------------------------------------- Context::assemble *)
  Lemma assemble_body_src dbg inc : inc_q inc -> inc_src inc -> inc_src (assemble_body dbg fs inc).
  Proof.
    intros IQ IS st data path r st' OP T H. destruct T as (TG & TL).
    destruct (parse_source data) as [items tail] eqn:PS.
    unfold assemble_body, enter_file in H.
    set (st0 := mkState _ _ _ _ _ _ _ _ _) in H. set (fr := mkFrame _ _ _ _) in H.
    assert (T0 : tinv st0).
    { split; cbn; [|apply regs_ok_nil]. destruct (locals st); assumption. }
    assert (I0 : infile st0) by (split; [|split]; cbn; discriminate).
    assert (N0 : curr_name st0 = path) by reflexivity.
    assert (HD0 : hd_ok st0) by (exists (path_stack st); reflexivity).
    assert (LT0 : lt_ok path st0) by (unfold lt_ok; cbn; constructor).
    unfold bind in H.
    destruct (do_assemble dbg fs inc st0 data) as [r0 st1| |] eqn:D; try discriminate.
    pose proof (do_assemble_src dbg inc IQ IS path data items tail OP PS st0 r0 st1 T0 I0 N0 HD0 LT0 D) as S1.
    destruct (fpost_next path _ _ T0 I0 N0 HD0 S1) as (T1 & I1 & N1 & HD1 & LT1).
    (* the local task loop *)
    assert (M : forall r2 st2, (if res_is_fatal r0 then Ret r0 st1
                           else match local_tasks st1 with
                                | None => Panic P_local_tasks_unwrap
                                | Some tasks => local_loop dbg task_rounds tasks (set_local_tasks st1 (Some [])) r0
                                end) = Ret r2 st2 -> grow st0 st2 /\ keeps st0 st2).
    { intros r2 st2. destruct S1 as (G1 & _ & _ & K1). destruct (res_is_fatal r0).
      - intros E; injection E as <- <-. auto.
      - unfold lt_ok in LT1. destruct (local_tasks st1) as [tasks|] eqn:EL; [|discriminate].
        destruct (set_local_tasks_q st1 [] T1 I1) as (T2 & K2 & I2). intros E.
        destruct (local_loop_src dbg path _ _ _ _ _ _ T2 I2 N1 eq_refl LT1 E) as (G3 & _ & _ & K3).
        split.
        + eapply grow_trans; [exact G1|]. eapply grow_trans; [|exact G3]. apply grow_same; reflexivity.
        + eapply keeps_trans; [exact K1|]. eapply keeps_trans; eauto. }
    match type of H with match ?x with _ => _ end = _ => destruct x as [r2 st2| |] eqn:E2; try discriminate end.
    first [destruct (M r2 st2 eq_refl) as (G2 & K2)|destruct (M r2 st2 E2) as (G2 & K2)]. clear M E2.
    destruct (grow_keeps_new _ _ G2 K2) as (n & Gn & Fn & _). destruct G2 as (_ & (l & El & Fl) & _).
    unfold leave_file in H. destruct (negb _); [discriminate|]. destruct (path_stack st2) as [|p0 stack]; [discriminate|].
    inversion H; subst r st'. clear H.
    split; [reflexivity|]. split; [exists l; split; [exact El|exact Fl]|].
    cbn [global_tasks local_tasks f_tasks fr]. cbn [global_tasks st0] in Gn.
    destruct (local_tasks st) as [lt|].
    - split; [exists []; rewrite app_nil_r; split; [reflexivity|constructor]|].
      cbn. exists n. split; [exact Gn|exact Fn].
    - split; [exists n; split; [exact Gn|exact Fn]|]. exact I.
  Qed.

  Theorem assemble_src dbg fuel : inc_src (assemble dbg fs fuel).
  Proof.
    induction fuel as [|f IH]; [intros st data path r st' _ _ H; discriminate H|].
    cbn [assemble]. apply assemble_body_src; [apply assemble_q|exact IH].
  Qed.

  (* ---------------------------------------------------------------- finalize *)
  Lemma final_round_src dbg tasks : forall st abort st', tinv st -> path_stack st = [] -> Forall plain tasks -> Forall gtask_src tasks ->
    final_round dbg tasks st = Ret abort st' -> grow st st' /\ tinv st' /\ keeps st st'.
  Proof.
    induction tasks as [|t rest IH]; intros st abort st' T P Fp Fg; cbn [final_round]; unfold bind.
    - intros H; inversion H; subst. split; [apply grow_refl|]. split; [exact T|apply keeps_refl].
    - inversion Fp as [|? ? Pt Fpr]; subst. inversion Fg as [|? ? Gt Fgr]; subst.
      destruct (run_task dbg st t) as [x st1| |] eqn:E; try discriminate.
      destruct (run_task_src dbg st t x st1 T (or_intror (conj P Pt)) (gtask_pos _ _ Gt) E) as (G1 & _ & T1 & K1).
      destruct (res_is_fatal x); [intros H; inversion H; subst; auto|].
      intros H. destruct (IH st1 abort st' T1) as (G2 & T2 & K2); auto.
      { destruct K1 as (P1 & _). congruence. }
      split; [eapply grow_trans; eauto|]. split; [exact T2|eapply keeps_trans; eauto].
  Qed.

  Lemma final_loop_src dbg rounds : forall tasks st abort st', tinv st -> path_stack st = [] -> Forall plain tasks ->
    Forall gtask_src tasks -> global_tasks st = [] -> final_loop dbg rounds tasks st = Ret abort st' ->
    exists l, errors st' = l ++ errors st /\ Forall diag_src l.
  Proof.
    induction rounds as [|k IH]; intros tasks st abort st' T P Fp Fg G0; cbn [final_loop].
    - destruct tasks; [|discriminate]. intros H; inversion H; subst. exists []. split; [reflexivity|constructor].
    - destruct tasks as [|t0 tl]; [intros H; inversion H; subst; exists []; split; [reflexivity|constructor]|].
      unfold bind. destruct (final_round dbg (t0 :: tl) st) as [ab st1| |] eqn:E; try discriminate.
      destruct (final_round_src dbg _ _ _ _ T P Fp Fg E) as (G1 & T1 & K1).
      destruct (grow_keeps_new _ _ G1 K1) as (n & Gn & Fn & Pn). rewrite G0 in Gn. cbn [app] in Gn.
      destruct G1 as (_ & (l1 & E1 & F1) & _).
      destruct ab.
      + intros H; inversion H; subst. exists l1. split; [exact E1|exact F1].
      + intros H. destruct (IH (global_tasks st1) (set_global_tasks st1 []) abort st') as (l2 & E2 & F2); auto.
        * destruct K1 as (P1 & _). cbn. congruence.
        * rewrite Gn. exact Pn.
        * rewrite Gn. exact Fn.
        * exists (l2 ++ l1). cbn [errors set_global_tasks] in E2. rewrite E2, E1, app_assoc.
          split; [reflexivity|apply Forall_app; split; assumption].
  Qed.

  (* ================================================================ the whole pipeline *)
  Theorem pipeline_state_src dbg fuel s st : pipeline_state dbg fs fuel root text = Ret s st -> Forall diag_src (errors st).
  Proof.
    unfold pipeline_state, bind.
    pose proof (assemble_q dbg fs fuel init_state text root tinv_init) as A.
    destruct (assemble dbg fs fuel init_state text root) as [r st1| |] eqn:E; try discriminate.
    destruct A as (T1 & K1).
    pose proof (assemble_src dbg fuel _ _ _ _ _ Op_root tinv_init E) as R.
    destruct (rel_src_grow root _ _ R) as (G1 & _).
    destruct (grow_keeps_new _ _ G1 K1) as (n & Gn & Fn & Pn). cbn [global_tasks init_state app] in Gn.
    destruct G1 as (_ & (l1 & E1 & F1) & _). cbn [errors init_state] in E1. rewrite app_nil_r in E1.
    destruct K1 as (P1 & _). cbn [path_stack init_state] in P1.
    pose proof (close_segment_s dbg st1) as C.
    destruct (close_segment dbg st1) as [c st2| |] eqn:EC; try discriminate.
    pose proof (close_segment_quiet _ _ _ _ EC) as (_ & Q2 & Q3 & _).
    cbn [spost] in C.
    destruct c.
    - unfold finalize, bind.
      assert (T2 : tinv (set_global_tasks st2 [])) by exact (eqs_tinv _ _ C T1).
      assert (P2 : path_stack (set_global_tasks st2 []) = []) by (destruct C as (_ & _ & _ & _ & E5); cbn; congruence).
      assert (Pl : Forall plain (global_tasks st2)) by (rewrite Q3, Gn; exact Pn).
      assert (Gl : Forall gtask_src (global_tasks st2)) by (rewrite Q3, Gn; exact Fn).
      destruct (final_loop dbg task_rounds (global_tasks st2) (set_global_tasks st2 [])) as [ab st3| |] eqn:FL; try discriminate.
      destruct (final_loop_src dbg _ _ _ _ _ T2 P2 Pl Gl eq_refl FL) as (l2 & E2 & F2).
      cbn [errors set_global_tasks] in E2.
      intros H; inversion H; subst s st. rewrite E2, Q2, E1. apply Forall_app. split; assumption.
    - intros H; inversion H; subst s st. rewrite Q2, E1. exact F1.
  Qed.

  (* C12_diag_final *)
  Theorem diag_final dbg fuel s diags regions : pipeline_gen dbg fs fuel root text = Done s diags regions -> Forall diag_src diags.
  Proof.
    unfold pipeline_gen. destruct (pipeline_state dbg fs fuel root text) as [s0 st| |] eqn:E; try discriminate.
    intros H; inversion H; subst. apply Forall_rev. eapply pipeline_state_src; eauto.
  Qed.
End Project.

(* ================================================================ statement positions are pos_of *)
(* an Ok element of a run sits at a token of the run (the first of its chunk: ParseProofs.run_spec) *)
Lemma run_spec_token L items el : ParseProofs.run_spec L items -> In (ParseModel.IOk el) items ->
  exists tk, In (inl tk) L /\ e_line el = t_line tk /\ e_col el = t_col tk.
Proof.
  induction 1 as [|tk toks rest e items El Ec R IH|l e Ne]; intros HI.
  - destruct HI.
  - destruct HI as [HI|HI].
    + injection HI as ->. exists tk. split; [left; reflexivity|split; assumption].
    + destruct (IH HI) as (tk' & I' & P'). exists tk'. split; [|exact P']. right. apply in_or_app. right. exact I'.
  - destruct HI as [HI|[]]. discriminate HI.
Qed.

(* the parse of a file text, as CtxModel.parse_source runs it: the items are a run over the tokenizer's items (every Ok element
   at the first token of its chunk), and these are the tokens of TokenModel.tokens_offsets with their byte offsets *)
Lemma parse_source_tokens data items tail : parse_source data = Parsed items tail ->
  exists toks, TokenModel.tokens_offsets data = TokenModel.Ok toks /\ ParseProofs.run_spec (map fst toks) items.
Proof.
  unfold parse_source. intros H.
  destruct (TokenProofs.tokens_rem_ok data) as (its & E & _). unfold TokenModel.tokens_rem in E.
  destruct (TokenModel.unfold_rem (length data + 2) (TokenModel.tok_new data)) as [[toks0 tst]|n|] eqn:U; try discriminate E.
  cbn [TokenModel.bind] in E.
  destruct (TokenModel.polls 3 tst) as [ps|n|] eqn:PE; try discriminate E. cbn [TokenModel.bind] in E. injection E as <- _.
  exists (map (fun x => (fst x, (Utf8.valid_up_to data - snd x)%nat)) toks0). split.
  - unfold TokenModel.tokens_offsets, TokenModel.tokens_rem. rewrite U. cbn [TokenModel.bind]. rewrite PE. reflexivity.
  - rewrite map_map. cbn [fst].
    match type of H with context [ParseModel.parse_all ?s] =>
      destruct (ParseProofs.parse_total s) as (Fu & Pa); destruct (ParseModel.parse_all s) as [items0 after|items0|] eqn:PA end.
    + injection H as <- _. apply ParseProofs.parse_positions in PA. exact PA.
    + exfalso. exact (Pa items0 eq_refl).
    + exfalso. exact (Fu eq_refl).
Qed.

Theorem stmt_pos_of data items tail el : parse_source data = Parsed items tail -> In (ParseModel.IOk el) items ->
  exists toks tk off, TokenModel.tokens_offsets data = TokenModel.Ok toks /\ In (inl tk, off) toks /\
    e_line el = t_line tk /\ e_col el = t_col tk /\ (e_line el, e_col el) = PosSpec.pos_of (firstn off data).
Proof.
  intros PS HI. destruct (parse_source_tokens _ _ _ PS) as (toks & TO & RS).
  destruct (run_spec_token _ _ _ RS HI) as (tk & IT & El & Ec).
  apply in_map_iff in IT. destruct IT as ([it off] & Hf & Hx). cbn [fst] in Hf. subst it.
  exists toks, tk, off. split; [exact TO|]. split; [exact Hx|]. split; [exact El|]. split; [exact Ec|].
  pose proof (TokenProofs.tok_token_pos data toks TO) as Fa. rewrite Forall_forall in Fa. specialize (Fa _ Hx). cbn [fst snd] in Fa.
  rewrite El, Ec. exact Fa.
Qed.

(* C12_diag_final_pos: the same, with the position spelled out.  Every diagnostic of the final list is
   - at PosSpec.pos_of (the text of an opened file before byte offset off), where a token of that file starts at off (the first
     token of a statement element of that file), under that file's name, or
   - the Parse diagnostic of an opened file at its parser's error position. *)
Definition diag_pos (fs : str -> option (list N)) (root : str) (text : list N) (d : diag) : Prop :=
  (exists data toks tk off, opened fs root text (d_file d) data /\
     TokenModel.tokens_offsets data = TokenModel.Ok toks /\ In (inl tk, off) toks /\
     (d_line d, d_col d) = PosSpec.pos_of (firstn off data)) \/
  (d_class d = KParse /\ exists data items tail pe, opened fs root text (d_file d) data /\ parse_source data = Parsed items tail /\
     In (ParseModel.IErr pe) items /\ d_line d = ParseModel.pe_line pe /\ d_col d = ParseModel.pe_col pe).

Lemma diag_src_pos fs root text d : diag_src fs root text d -> diag_pos fs root text d.
Proof.
  intros [(data & items & tail & el & OP & PS & HI & L & C)|data items tail pe OP PS HI L C K].
  - left. destruct (stmt_pos_of _ _ _ _ PS HI) as (toks & tk & off & TO & IT & _ & _ & P).
    exists data, toks, tk, off. rewrite L, C. auto.
  - right. split; [exact K|]. exists data, items, tail, pe. auto.
Qed.

Theorem diag_final_pos fs root text dbg fuel s diags regions :
  pipeline_gen dbg fs fuel root text = Done s diags regions -> Forall (diag_pos fs root text) diags.
Proof. intros H. eapply Forall_impl; [|eapply diag_final; exact H]. apply diag_src_pos. Qed.

(* the position-less case does not occur: a close error leaves the error list as Context::assemble produced it *)
Theorem close_error_no_diag dbg fs fuel root text st1 r st2 e :
  assemble dbg fs fuel init_state text root = Ret r st1 -> close_segment dbg st1 = Ret (inr e) st2 ->
  exists st, pipeline_state dbg fs fuel root text = Ret CloseError st /\ errors st = errors st1.
Proof.
  intros A C. unfold pipeline_state, bind. rewrite A, C. exists st2. split; [reflexivity|].
  exact (proj1 (proj2 (close_segment_quiet _ _ _ _ C))).
Qed.

(* ================================================================ example (non-vacuity) *)
From Coq Require Import String.
From Trion Require Arm.DisplayModel.
Open Scope string_scope.
(* p.asm includes i.asm; i.asm reports `.du8 300` (twice: at once and at the end-of-file retry); p.asm then reports the failed
   include.  Every diagnostic is in the file it belongs to, at a statement element of that file's parse. *)
Definition ex_root : str := DisplayModel.bytes_of_string "p.asm".
Definition ex_text : list N := DisplayModel.bytes_of_string ".addr 256; B far;
 .include ""i.asm"";".
Definition ex_positions : option (list (str * N * N * list (N * N))) :=
  match pipeline fs_inc ex_root ex_text with
  | Done _ d _ =>
      Some (map (fun x => (d_file x, d_line x, d_col x,
                            match (if str_eqb (d_file x) ex_root then Some ex_text else fs_inc (d_file x)) with
                            | Some data => match parse_source data with
                                           | Parsed items _ => flat_map (fun it => match it with ParseModel.IOk el => [(e_line el, e_col el)] | _ => [] end) items
                                           end
                            | None => []
                            end)) d)
  | _ => None
  end.
