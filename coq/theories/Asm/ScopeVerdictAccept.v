(* C14, the Accept direction, part 5: whole projects.
   project_accept: a project that the oracle ACCEPTS (no listed error, documented order, 32-bit values), written as text by
   ScopeText.show_project, assembles: with more include fuel than files the pipeline ends with  Done Success []  and the image is
   ONE region at the project's address made of one 4-byte word per `.du32`, in assembly order; the word of the k-th use site is
   the oracle's value (ScopeSpec.uses), little endian - whether the name is defined before or after the use, in the file, in an
   included file that hands it up, or in the includer from which it is imported.
   Composition of ScopeVerdictAcc.AOK_all (oracle => reading) and ScopeVerdictSimRun.sim_pipeline (reading => model).
   Proof file (no model definitions). *)
From Coq Require Import ZArith NArith PeanoNat List Bool Lia.
From Trion Require Import Text.Types.
From Trion Require Import Mem.MapModel Asm.CtxModel.
From Trion Require Import Asm.ScopeText Asm.ScopeLink Asm.ScopeLinkOcc Asm.ScopeLinkTop Asm.ScopeLinkReg.
From Trion Require Import Asm.ScopeVerdictFine Asm.ScopeVerdictAbs Asm.ScopeVerdictSim Asm.ScopeVerdictSimRun Asm.ScopeVerdictAcc.
From Trion Require Asm.ScopeVerdictTop.
Import ListNotations.

Lemma repeat_app_nil {A} n : SP.repeat_app n (@nil A) = [].
Proof. induction n as [|n IH]; [reflexivity|]. cbn [SP.repeat_app app]. exact IH. Qed.

Lemma u32_u32z v : SP.u32 v = true -> u32z v = true.
Proof. unfold SP.u32, u32z. lia. Qed.

(* the image: one region of 4-byte words *)
Definition words_image (a : Z) (W : list word) : list MapModel.seg := image a W.

Theorem project_accept dbg p a t n f : project_ok p = true -> SP.expand_project p = Some (a, t, n) ->
  SP.j_verdict (SP.judge_project p) = SP.Accept -> (List.length (SP.p_files p) <= f)%nat ->
  exists W, pipeline_gen dbg (project_fs p) (S f) (project_root p) (project_text p) = Done Success [] (words_image a W) /\
    List.length W = N.to_nat n /\
    forall k v, In (k, Some v) (SP.j_uses (SP.judge_project p)) -> (N.to_nat k < List.length W)%nat /\ nth (N.to_nat k) W WP = WV v.
Proof.
  intros OK EX V LT.
  (* the verdict *)
  unfold SP.judge_project in V |- *. rewrite EX in V |- *.
  destruct (SP.errors t SP.no_env ++ SP.top_errors t) as [|r0 l0] eqn:ERR; [|discriminate V].
  destruct (SP.ordered t && SP.u32 a && SP.u32 (a + 4 * Z.of_N n) && forallb _ _) eqn:COND; [|discriminate V].
  cbn [SP.j_uses]. clear V.
  apply andb_prop in COND. destruct COND as (COND & USB). apply andb_prop in COND. destruct COND as (COND & UN).
  apply andb_prop in COND. destruct COND as (ORD & UA).
  apply app_eq_nil in ERR. destruct ERR as (ER & TE).
  (* the project *)
  destruct (project_ok_files p OK) as (Pr & HF).
  unfold project_text, project_root, project_fs, show_project. cbn [fst snd]. unfold SP.expand_project in EX.
  destruct (SP.lookup_file (SP.p_files p) (SP.p_root p)) as [[|[a0| | | | | | |] body]|] eqn:LF; try discriminate EX.
  destruct (SP.expand SP.max_depth (SP.p_files p) a0 body 0) as [[t0 n0]|] eqn:E; [|discriminate EX]. inversion EX; subst a0 t0 n0.
  destruct (HF _ _ (lookup_in _ _ _ LF)) as (_ & W0). cbn [forallb] in W0. apply andb_prop in W0. destruct W0 as [_ WB].
  assert (Ha : (0 <= a)%Z) by (unfold SP.u32 in UA; lia).
  assert (FT : fits a (N.to_nat n)).
  { split; [exact Ha|]. unfold SP.u32 in UN. unfold MapModel.U32MAX. lia. }
  (* the oracle side: the reading is not stuck *)
  destruct t as [its]. destruct (errors_inv its SP.no_env ER) as (HE & HC).
  assert (SRC : forall x, SP.sources (SP.Node its) SP.no_env x = SP.down (SP.Node its) x).
  { intros x. unfold SP.sources, SP.no_env. rewrite repeat_app_nil. apply app_nil_r. }
  destruct (AOK_all SP.max_depth (SP.Node its) SP.no_env [] [] 0%N n) as (G' & W' & AR & _ & _ & KN & _ & US).
  - eapply expand_wf. exact E.
  - reflexivity.
  - exact ER.
  - exact ORD.
  - intros x IM. exfalso. rewrite imports_ni in IM. unfold ni in IM. destruct (sumf_pos di its x ltac:(lia)) as (i0 & IN0 & P0).
    destruct i0 as [y v|y|y|y|y k|c0]; cbn [di] in P0; try lia.
    destruct (err_import _ _ _ (HE _ IN0)) as (_ & L & _). cbn in L. lia.
  - intros x _. reflexivity.
  - intros u IN. rewrite forallb_forall in USB. specialize (USB u IN). destruct (snd u) as [v|]; [|discriminate USB].
    exists v. split; [reflexivity|apply u32_u32z; exact USB].
  - intros x. rewrite ups_nu. destruct (nu its x) as [|[|m]] eqn:NU; try lia. exfalso.
    destruct (nu_pos_in its x ltac:(lia)) as [IG|IG].
    + destruct (err_up _ _ _ x (or_introl eq_refl) (HE _ IG)) as (_ & L & _). rewrite SRC in L.
      assert (NM : In x (SP.names_of (SP.Node its))) by (eapply names_of_in; [exact IG|auto]).
      unfold SP.top_errors in TE. pose proof (flat_map_nil_inv _ _ TE x NM) as Q. cbn beta in Q. apply if_nil in Q.
      apply two_or_more_len in Q. rewrite repeat_app_length, ups_nu, NU in Q. nia.
    + destruct (err_up _ _ _ x (or_intror eq_refl) (HE _ IG)) as (_ & L & _). rewrite SRC in L.
      assert (NM : In x (SP.names_of (SP.Node its))) by (eapply names_of_in; [exact IG|auto]).
      unfold SP.top_errors in TE. pose proof (flat_map_nil_inv _ _ TE x NM) as Q. cbn beta in Q. apply if_nil in Q.
      apply two_or_more_len in Q. rewrite repeat_app_length, ups_nu, NU in Q. nia.
  - (* the model follows the reading *)
    exists W'. split; [|split].
    + destruct (sim_pipeline dbg (SP.p_files p) a HF f (SP.p_root p) body (SP.Node its) n (G', W') Pr WB Ha LF E FT AR) as [O|O].
      * exfalso. destruct (project_done dbg p (S f) ltac:(lia)) as (s & diags & regions & RUN).
        unfold project_text, project_root, project_fs, show_project in RUN. cbn [fst snd] in RUN. rewrite LF in RUN.
        rewrite O in RUN. discriminate RUN.
      * exact O.
    + rewrite KN. symmetry. apply Nat2N.id.
    + intros k v IN. split; [|rewrite (US k (Some v) IN); reflexivity].
      destruct (wf_idx SP.max_depth (SP.Node its) SP.no_env 0%N n (expand_wf _ _ _ _ _ _ _ E)) as (_ & IDX).
      apply (in_map fst) in IN. cbn [fst] in IN. rewrite IDX in IN. apply nseq_in in IN. lia.
Qed.

(* the bytes: the 4 bytes of use site k are the little-endian bytes of its value *)
Lemma flat_word : forall W k v, nth k W WP = WV v -> (k < List.length W)%nat ->
  firstn 4 (skipn (4 * k) (flat W)) = le_n 4 (Z.to_N v).
Proof.
  induction W as [|w r IH]; intros k v H L; [cbn in L; lia|]. unfold flat in *. cbn [flat_map]. destruct k as [|k].
  - cbn [nth] in H. subst w. reflexivity.
  - cbn [nth] in H. replace (4 * S k)%nat with (List.length (wbytes w) + 4 * k)%nat by (rewrite wbytes_length; lia).
    rewrite skipn_app_len. apply IH; [exact H|cbn in L; lia].
Qed.

Lemma flat_length W : List.length (flat W) = (4 * List.length W)%nat.
Proof. induction W as [|w r IH]; [reflexivity|]. unfold flat in *. cbn [flat_map List.length]. rewrite app_length, wbytes_length, IH. lia. Qed.

(* the same in bytes: the image is one region `buf` at the project's address (no region when the project has no `.du32`), 4 bytes
   per use site, and the 4 bytes of use site k are the little-endian bytes of the oracle's value *)
Definition region_of (a : Z) (buf : list N) : list MapModel.seg :=
  match buf with [] => [] | _ => [(Z.to_N a, (Z.to_N a + MapModel.len buf - 1)%N, buf)] end.

Theorem project_accept_bytes dbg p a t n f : project_ok p = true -> SP.expand_project p = Some (a, t, n) ->
  SP.j_verdict (SP.judge_project p) = SP.Accept -> (List.length (SP.p_files p) <= f)%nat ->
  exists buf, pipeline_gen dbg (project_fs p) (S f) (project_root p) (project_text p) = Done Success [] (region_of a buf) /\
    List.length buf = (4 * N.to_nat n)%nat /\
    forall k v, In (k, Some v) (SP.j_uses (SP.judge_project p)) ->
      firstn 4 (skipn (4 * N.to_nat k) buf) = le_n 4 (Z.to_N v).
Proof.
  intros OK EX V LT. destruct (project_accept dbg p a t n f OK EX V LT) as (W & RUN & LW & US).
  exists (flat W). split; [exact RUN|]. split; [rewrite flat_length, LW; reflexivity|].
  intros k v IN. destruct (US k v IN) as (KL & NV). apply flat_word; assumption.
Qed.

(* both directions of the verdict in one statement *)
Theorem project_judgement dbg p a t n f : project_ok p = true -> SP.expand_project p = Some (a, t, n) ->
  (a + 4 * Z.of_N n < 4294967296)%Z -> (List.length (SP.p_files p) <= f)%nat ->
  (forall r, SP.j_verdict (SP.judge_project p) = SP.MustDiag r ->
     exists diags regions, pipeline_gen dbg (project_fs p) (S f) (project_root p) (project_text p) = Done Failure diags regions /\
       diags <> []) /\
  (SP.j_verdict (SP.judge_project p) = SP.Accept ->
     exists buf, pipeline_gen dbg (project_fs p) (S f) (project_root p) (project_text p) = Done Success [] (region_of a buf) /\
       List.length buf = (4 * N.to_nat n)%nat /\
       forall k v, In (k, Some v) (SP.j_uses (SP.judge_project p)) ->
         firstn 4 (skipn (4 * N.to_nat k) buf) = le_n 4 (Z.to_N v)).
Proof.
  intros OK EX B LT. split.
  - intros r V. exact (ScopeVerdictTop.project_mustdiag dbg p a t n f r OK EX B V LT).
  - intros V. exact (project_accept_bytes dbg p a t n f OK EX V LT).
Qed.

(* ------------------------------------------------------------------ an accepted project with every kind of statement *)
(* r = `.addr 256; .global M; .const A, 5; .include "c"; .du32 B; .du32 L; L: M: .du32 M;`
   c = `.import A; .du32 A; .global B; .du32 B; B: .include "g"; .du32 E;`       g = `.const E, 9; .export E;`
   (a forward reference in both files, an import, a `.global` before the label, an export two levels up is not needed) *)
Definition ya : str := [65%N].  Definition yb : str := [66%N].  Definition ye : str := [69%N].
Definition yl : str := [76%N].  Definition ym : str := [77%N].
Definition fr : str := [114%N]. Definition fc : str := [99%N].  Definition fg : str := [103%N].
Definition ex_acc : SP.project :=
  SP.mkProject [(fr, [SP.SAddr 256; SP.SGlobal ym; SP.SConst ya 5; SP.SInclude fc; SP.SUse yb; SP.SUse yl; SP.SLabel yl; SP.SLabel ym; SP.SUse ym]);
                (fc, [SP.SImport ya; SP.SUse ya; SP.SGlobal yb; SP.SUse yb; SP.SLabel yb; SP.SInclude fg; SP.SUse ye]);
                (fg, [SP.SConst ye 9; SP.SExport ye])] fr.

Lemma ex_acc_facts :
  project_ok ex_acc = true /\ SP.j_verdict (SP.judge_project ex_acc) = SP.Accept /\
  SP.j_uses (SP.judge_project ex_acc) = [(0%N, Some 5%Z); (1%N, Some 264%Z); (2%N, Some 9%Z); (3%N, Some 264%Z); (4%N, Some 276%Z); (5%N, Some 276%Z)] /\
  pipeline_gen false (project_fs ex_acc) 8 (project_root ex_acc) (project_text ex_acc) =
    Done Success [] [(256%N, 279%N, [5; 0; 0; 0;  8; 1; 0; 0;  9; 0; 0; 0;  8; 1; 0; 0;  20; 1; 0; 0;  20; 1; 0; 0]%N)].
Proof. vm_compute. repeat split; reflexivity. Qed.
