(* C14: how a project of the scope oracle (Asm/ScopeSpec.v) is written down as source text.
   One statement per line, in the documented syntax:
       .addr 256;      .const A, 7;      A:      .global A;      .import A;      .export A;      .include "c";      .du32 A;
   `ev_of s`         the statement value the parser must deliver for the oracle's statement s;
   `show_file body`  the text of a file: the tokens of Text/Render.render_stmts written by Text/ShowSpec.show with the separators
                     `file_seps` (nothing in front of the first token of the file, a space in front of every argument, nothing in
                     front of `,` `;` `:` and between `.` and the directive name, a line feed after every statement);
   `show_project p`  (file system, root path, root text): the file system knows exactly the files of p, under their plain names.
   `stmt_ok`, `plain_name`, `project_ok`: what can be written: names are identifiers, constants and the address are literals
                     0 <= v < 2^63 (a negative number is an expression, not a literal), file names are non-empty UTF-8 without `/`
                     (all files in one directory).
   No proofs here.  Independent of the Context model. *)
From Coq Require Import ZArith NArith List Bool.
From Trion Require Import Text.Types Text.Render Text.ShowSpec.
From Trion Require Asm.ScopeSpec.
Import ListNotations.
Open Scope N_scope.

Definition d_addr : str := [97; 100; 100; 114].
Definition d_const : str := [99; 111; 110; 115; 116].
Definition d_global : str := [103; 108; 111; 98; 97; 108].
Definition d_import : str := [105; 109; 112; 111; 114; 116].
Definition d_export : str := [101; 120; 112; 111; 114; 116].
Definition d_include : str := [105; 110; 99; 108; 117; 100; 101].
Definition d_du32 : str := [100; 117; 51; 50].

Definition ev_of (s : ScopeSpec.stmt) : element_value :=
  match s with
  | ScopeSpec.SAddr a => EDirective d_addr [AConst a]
  | ScopeSpec.SConst x v => EDirective d_const [AIdent x; AConst v]
  | ScopeSpec.SLabel x => ELabel x
  | ScopeSpec.SGlobal x => EDirective d_global [AIdent x]
  | ScopeSpec.SImport x => EDirective d_import [AIdent x]
  | ScopeSpec.SExport x => EDirective d_export [AIdent x]
  | ScopeSpec.SInclude f => EDirective d_include [AStr f]
  | ScopeSpec.SUse x => EDirective d_du32 [AIdent x]
  end.

(* the separators in front of the 2nd, 3rd, .. token of a statement *)
Definition inner_seps (s : ScopeSpec.stmt) : list str :=
  match s with
  | ScopeSpec.SLabel _ => [[]]
  | ScopeSpec.SConst _ _ => [[]; [32]; []; [32]; []]
  | _ => [[]; [32]; []]
  end.

Definition file_seps (body : ScopeSpec.file) : list str :=
  [] :: flat_map (fun s => inner_seps s ++ [[10]]) body.

Definition show_file (body : ScopeSpec.file) : list N :=
  show (render_stmts (map ev_of body)) (file_seps body).

Definition fs_of (files : list (str * ScopeSpec.file)) : str -> option (list N) :=
  fun path => option_map show_file (ScopeSpec.lookup_file files path).

Definition show_project (p : ScopeSpec.project) : (str -> option (list N)) * str * list N :=
  (fs_of (ScopeSpec.p_files p), ScopeSpec.p_root p,
   match ScopeSpec.lookup_file (ScopeSpec.p_files p) (ScopeSpec.p_root p) with Some b => show_file b | None => [] end).

(* ---------------------------------------------------------------- what can be written *)
Definition stmt_ok (s : ScopeSpec.stmt) : bool := writable_stmt (ev_of s).

Definition plain_name (f : str) : bool :=
  match f with [] => false | _ => forallb (fun c => negb (c =? 47)) f end.

Definition project_ok (p : ScopeSpec.project) : bool :=
  plain_name (ScopeSpec.p_root p) &&
  forallb (fun nb => plain_name (fst nb) && forallb stmt_ok (snd nb)) (ScopeSpec.p_files p).

Definition project_fs (p : ScopeSpec.project) : str -> option (list N) := fst (fst (show_project p)).
Definition project_root (p : ScopeSpec.project) : str := snd (fst (show_project p)).
Definition project_text (p : ScopeSpec.project) : list N := snd (show_project p).
