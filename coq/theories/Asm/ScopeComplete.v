(* C14 on the Context model, part 7: C14_same_value at file level, the converse of isolation.
   When an included file ends without any error (result None), every name it hands up (`.export n;` / `.global n;` among its
   own statements) has a value in its own table at its end, and the includer's table has the same value.
   Proof file (no model definitions). *)
From Coq Require Import ZArith NArith List Bool Lia String.
From Trion Require Import Text.Types Asm.CtxModel Asm.ScopeProofs Asm.ScopeProofs2 Asm.ScopeIso Asm.ScopeValue Asm.ScopeProv.
From Trion Require Arm.AsmStmtModel Expr.EvalModel Text.ParseModel.
Import ListNotations.

Lemma run_items_each dbg fs inc items : forall st st', run_items dbg fs inc items st = Ret None st' ->
  forall e, In (ParseModel.IOk e) items ->
  exists pre post sa sb, items = pre ++ ParseModel.IOk e :: post /\
    run_items dbg fs inc pre st = Ret None sa /\ step dbg fs inc sa e = Ret None sb /\ run_items dbg fs inc post sb = Ret None st'.
Proof. induction items as [|i rest IH]; intros st st' R e IN; [destruct IN|].
  cbn [run_items] in R. destruct i as [e0|pe]; [|discriminate R]. unfold bind in R.
  destruct (step dbg fs inc st e0) as [r1 st1| |] eqn:ST; try discriminate R. destruct r1; [discriminate R|].
  destruct IN as [E|IN].
  - inversion E; subst. exists [], rest, st, st1. repeat split; auto.
  - destruct (IH _ _ R e IN) as (pre & post & sa & sb & E & R1 & S1 & R2).
    exists (ParseModel.IOk e0 :: pre), post, sa, sb. split; [rewrite E; reflexivity|]. split; [|auto].
    cbn [run_items]. unfold bind. rewrite ST. exact R1.
Qed.

Lemma local_round_each dbg tasks : forall st r st', local_round dbg tasks st r = Ret None st' ->
  r = None /\ forall t, In t tasks -> exists sa sb, run_task dbg sa t = Ret None sb /\ Hs (fun _ => True) st sa /\ Hs (fun _ => True) sb st'.
Proof. induction tasks as [|t0 rest IH]; intros st r st' R; cbn [local_round] in R.
  - inversion R; subst. split; [reflexivity|]. intros t [].
  - unfold bind in R. destruct (run_task dbg st t0) as [x st1| |] eqn:RT; try discriminate R.
    assert (H1 : Hs (fun _ => True) st st1) by (eapply run_task_hs; eauto).
    destruct x as [lvl|].
    + destruct (is_fatal lvl); [discriminate R|]. apply IH in R. destruct R as [R _]. discriminate R.
    + destruct (IH _ _ _ R) as [-> EA]. split; [reflexivity|]. intros t [<-|IN].
      * exists st, st1. split; [exact RT|]. split; [apply Hs_refl|].
        eapply local_round_hs; [|exact R]. intros ? ? ? ?; exact I.
      * destruct (EA t IN) as (sa & sb & RT' & A & B). exists sa, sb. split; [exact RT'|]. split; [eapply Hs_trans; eauto|exact B].
Qed.

Lemma local_loop_none dbg rounds : forall tasks st r st', local_loop dbg rounds tasks st r = Ret None st' -> r = None.
Proof. induction rounds as [|k IH]; intros tasks st r st' R; cbn [local_loop] in R.
  - destruct tasks; [inversion R; reflexivity|discriminate R].
  - destruct tasks as [|t0 tl]; [inversion R; reflexivity|]. unfold bind in R.
    destruct (local_round dbg (t0 :: tl) st r) as [r1 st1| |] eqn:LR; try discriminate R.
    destruct (local_tasks st1); [|discriminate R].
    destruct (res_is_fatal r1) eqn:F.
    + inversion R; subst. discriminate F.
    + apply IH in R. subst r1. apply local_round_each in LR. apply LR.
Qed.

Definition ST1 : nameset := fun _ => True.

Lemma Hs_keep_local a b n v : Hs ST1 a b -> olook (locals a) n = Some (Some v) -> olook (locals b) n = Some (Some v).
Proof. intros (_ & _ & A & _). apply otle_look. exact A. Qed.
Lemma Hs_keep_global a b n v : Hs ST1 a b -> tbl_get (globals a) n = Some (Some v) -> tbl_get (globals b) n = Some (Some v).
Proof. intros (_ & _ & _ & A & _) G. apply hand_tle in A. specialize (A n). rewrite G in A. exact A. Qed.
Lemma Hw_keep_local a b n v : Hw ST1 a b -> olook (locals a) n = Some (Some v) -> olook (locals b) n = Some (Some v).
Proof. intros (_ & _ & A & _). apply otle_look. exact A. Qed.
Lemma Hw_keep_global a b n v : Hw ST1 a b -> tbl_get (globals a) n = Some (Some v) -> tbl_get (globals b) n = Some (Some v).
Proof. intros (_ & _ & _ & A & _) G. apply hand_tle in A. specialize (A n). rewrite G in A. exact A. Qed.

Lemma local_loop_first dbg k t0 tl st r st' : local_loop dbg (Datatypes.S k) (t0 :: tl) st r = Ret None st' ->
  exists sr, local_round dbg (t0 :: tl) st r = Ret None sr /\ Hw ST1 sr st'.
Proof. cbn [local_loop]. unfold bind. intros LOOP.
  destruct (local_round dbg (t0 :: tl) st r) as [r1 sr| |] eqn:LR; try discriminate LOOP.
  destruct (local_tasks sr) as [newt|] eqn:LS; [|discriminate LOOP].
  destruct (res_is_fatal r1) eqn:F.
  - inversion LOOP; subst. discriminate F.
  - pose proof (local_loop_none _ _ _ _ _ _ LOOP) as ->. exists sr. split; [reflexivity|].
    assert (X : Hw ST1 (set_local_tasks sr (Some [])) st').
    { eapply local_loop_hw; [|reflexivity| |exact LOOP]; intros ? ? ? ?; exact I. }
    destruct X as (X1 & X2 & X3 & X4 & X5). repeat split; assumption.
Qed.

Section Complete.
Variables (dbg : bool) (fs : str -> option (list N)) (inc : state -> list N -> str -> res result).
Hypothesis IO : inc_hs inc.

Lemma run_items_hs1 items st r st' : locals st <> None -> run_items dbg fs inc items st = Ret r st' -> Hs ST1 st st'.
Proof. intros NL R. eapply run_items_hs; eauto. intros; exact I. Qed.

Theorem handed_up_complete st data path st2 t2 :
  assemble_open dbg fs inc st data path = Ret None st2 -> locals st2 = Some t2 ->
  forall n, file_hands data n -> exists v, tbl_get t2 n = Some (Some v) /\ tbl_get (globals st2) n = Some (Some v).
Proof. unfold assemble_open, bind, do_assemble, file_hands. intros AO L2 n FH.
  destruct (parse_source data) as [items tail]. unfold bind in AO.
  destruct (run_items dbg fs inc items _) as [r1 st1| |] eqn:RUN; try discriminate AO.
  set (st0 := fst (enter_file st path)) in *.
  assert (NL0 : locals st0 <> None) by (cbn; discriminate).
  (* the end-of-file loop *)
  assert (R1 : r1 = None /\ exists tasks, local_tasks st1 = Some tasks /\
                local_loop dbg task_rounds tasks (set_local_tasks st1 (Some [])) None = Ret None st2).
  { destruct r1 as [lv|].
    - exfalso. destruct lv; cbn [res_is_fatal] in AO; [|discriminate AO].
      destruct (local_tasks st1); [|discriminate AO]. apply local_loop_none in AO. discriminate AO.
    - split; [reflexivity|]. destruct tail as [[q|]|]; try discriminate AO. cbn [res_is_fatal] in AO.
      destruct (local_tasks st1) as [tasks|]; [|discriminate AO]. eauto. }
  destruct R1 as (-> & tasks & LT1 & LOOP).
  assert (W : Hw ST1 (set_local_tasks st1 (Some [])) st2).
  { eapply local_loop_hw; [|reflexivity| |exact LOOP]; intros ? ? ? ?; exact I. }
  assert (KL : forall v, olook (locals st1) n = Some (Some v) -> tbl_get t2 n = Some (Some v)).
  { intros v G. apply (Hw_keep_local _ _ n v W) in G. rewrite L2 in G. exact G. }
  assert (KG : forall v, tbl_get (globals st1) n = Some (Some v) -> tbl_get (globals st2) n = Some (Some v)).
  { intros v G. apply (Hw_keep_global _ _ n v W). exact G. }
  destruct FH as (l & c & dn & IN & UD).
  destruct (run_items_each _ _ _ _ _ _ RUN _ IN) as (pre & post & sa & sb & E & RA & STEP & RB).
  assert (HA : Hs ST1 st0 sa) by (eapply run_items_hs1; eauto).
  assert (NLa : locals sa <> None) by (eapply Hs_locals_some; eauto).
  assert (HS : Hs ST1 sa sb). { eapply step_hs; eauto. intros; exact I. }
  assert (NLb : locals sb <> None) by (eapply Hs_locals_some; eauto).
  assert (HB : Hs ST1 sb st1) by (eapply run_items_hs1; eauto).
  unfold step in STEP. cbn [e_val e_line e_col] in STEP. unfold process_directive in STEP.
  destruct UD as [UD|UD]; rewrite UD in STEP.
  - (* .global n *)
    destruct (global_same_value _ _ _ _ _ STEP) as (_ & [(v & A & B & C)|(A & B & lt & LTa & LTb)]).
    + exists v. split; [apply KL; eapply Hs_keep_local; [exact HB|]; rewrite C; exact A|apply KG; eapply Hs_keep_global; eauto].
    + (* the scheduled copy ran *)
      destruct HB as (_ & _ & _ & _ & _ & TX). rewrite LTb, LT1 in TX. cbn in TX. destruct TX as (ex & -> & _).
      assert (INT : In (GlobalTask n l c) ((lt ++ [GlobalTask n l c]) ++ ex)).
      { apply in_or_app. left. apply in_or_app. right. left. reflexivity. }
      destruct ((lt ++ [GlobalTask n l c]) ++ ex) as [|t0 tl] eqn:TL; [destruct INT|].
      unfold task_rounds in LOOP. apply local_loop_first in LOOP. destruct LOOP as (sr & LR & W2).
      destruct (local_round_each _ _ _ _ _ LR) as (_ & EA). destruct (EA _ INT) as (ta & tb & RT & HA' & HB').
      destruct (global_task_same_value _ _ _ _ _ _ RT) as (v & A' & B' & C').
      exists v. split.
      * rewrite <- C' in A'. apply (Hs_keep_local _ _ n v HB') in A'. apply (Hw_keep_local _ _ n v W2) in A'. rewrite L2 in A'. exact A'.
      * apply (Hw_keep_global _ _ n v W2). apply (Hs_keep_global _ _ n v HB'). exact B'.
  - (* .export n *)
    destruct (locals sa) as [ta|] eqn:La; [|congruence].
    destruct (export_same_value _ _ _ _ _ _ STEP La) as (v & A & B & C).
    exists v. split; [apply KL; eapply Hs_keep_local; [exact HB|]; rewrite C; exact A|apply KG; eapply Hs_keep_global; eauto].
Qed.
End Complete.

(* at any include depth *)
Theorem include_same_value dbg fs fuel st data path st' t :
  assemble dbg fs (Datatypes.S fuel) st data path = Ret None st' -> locals st = Some t ->
  exists st2 t2 t',
    assemble_open dbg fs (assemble dbg fs fuel) st data path = Ret None st2 /\ locals st2 = Some t2 /\ locals st' = Some t' /\
    forall n, file_hands data n -> exists v, tbl_get t2 n = Some (Some v) /\ tbl_get t' n = Some (Some v).
Proof. intros H L. destruct (include_isolation _ _ _ _ _ _ _ _ _ H L) as (st2 & t2 & t' & AO & L2 & G2 & L' & _).
  exists st2, t2, t'. repeat (split; [assumption|]). intros n FH.
  destruct (handed_up_complete dbg fs _ (assemble_inc_hs dbg fs fuel) _ _ _ _ _ AO L2 n FH) as (v & A & B).
  exists v. split; [exact A|]. rewrite <- G2. exact B. Qed.
