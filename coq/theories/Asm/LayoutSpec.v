(* C05 oracle: the two-pass reference layout of a single-file program.  Spec file: executable, no proofs.
   pass 1  walks the statements once: the address of every statement from SYNTACTIC sizes (2/4 per mnemonic,
           1/2/4 for .du8/.du16/.du32, string length, hex digits / 2, file length, .align padding up to the next
           multiple) and the symbol table (label = address of the next byte, .const = value of its expression in
           the table so far);
   pass 2  evaluates every value expression in the FINAL table (Expr/Denote.den64, the C07/C08 oracle) and
           produces each statement's bytes: little-endian values, the string / hex / file bytes, 0xBE only as
           .align padding; an instruction's bytes are those of the statement with its operands evaluated in the
           final table (Arm/AsmStmtModel + EncodeModel: the subject of C04 / C01, not of C05).
   None = outside the oracle's domain (a diagnostic is expected, or .global/.import/.export/.include: C14). *)
From Coq Require Import ZArith NArith List Bool Ascii String.
From Trion Require Import Text.Types Expr.I64 Expr.EvalModel Expr.Denote Arm.Instr Arm.DisplayModel Arm.AsmStmtModel Arm.EncodeModel.
Import ListNotations.
Open Scope N_scope.

Definition env := list (str * Z).
Fixpoint env_get (e : env) (n : str) : option Z :=
  match e with [] => None | (k, v) :: r => if str_eqb k n then Some v else env_get r n end.
Definition rho (e : env) : str -> option Z := fun n => if is_register n then None else env_get e n.

Inductive item :=
| IPad (n : N)                                   (* .align *)
| IData (size : N) (e : arg)                     (* .du8/.du16/.du32 *)
| IBytes (b : list N)                            (* .dstr / .dhex / .dfile *)
| IInstr (name : str) (args : list arg).

Definition instr_size (name : str) : option N :=
  match template name with
  | Some (Bl _) | Some Dmb | Some Dsb | Some Isb | Some (Mrs _ _) | Some (Msr _ _) | Some (Udfw _) => Some 4
  | Some _ => Some 2
  | None => None
  end.

Definition hexv (b : N) : option N :=
  if (48 <=? b) && (b <=? 57) then Some (b - 48) else if (97 <=? b) && (b <=? 102) then Some (b - 87)
  else if (65 <=? b) && (b <=? 70) then Some (b - 55) else None.
Definition is_space (b : N) : bool := (b =? 32) || (b =? 9) || (b =? 10) || (b =? 12) || (b =? 13).
(* pairs of hex digits, white space anywhere *)
Fixpoint hex_pairs (s : str) (hi : option N) : option (list N) :=
  match s with
  | [] => match hi with None => Some [] | Some _ => None end
  | c :: r =>
      if is_space c then hex_pairs r hi
      else match hexv c, hi with
           | None, _ => None
           | Some v, None => hex_pairs r (Some v)
           | Some v, Some h => option_map (cons (16 * h + v)) (hex_pairs r None)
           end
  end.

Definition u32z (v : Z) : option N := if (0 <=? v)%Z && (v <=? 4294967295)%Z then Some (Z.to_N v) else None.

Record p1 := mkP1 { p_cur : option N; p_env : env; p_items : list (N * item) (* reversed *) }.

Definition place (s : p1) (size : N) (it : item) : option p1 :=
  match p_cur s with
  | None => None
  | Some a => if a + size <=? 0x100000000 then Some (mkP1 (Some (a + size)) (p_env s) ((a, it) :: p_items s)) else None
  end.

Definition define (s : p1) (n : str) (v : Z) : option p1 :=
  if is_register n then None
  else match env_get (p_env s) n with
       | Some _ => None
       | None => Some (mkP1 (p_cur s) ((n, v) :: p_env s) (p_items s))
       end.

Definition dname (n : str) (lit : string) : bool := str_eqb n (bytes_of_string lit).

Definition pass1_step (fs : str -> option (list N)) (s : p1) (e : element_value) : option p1 :=
  match e with
  | ELabel n => match p_cur s with Some a => if a <? 0x100000000 then define s n (Z.of_N a) else None | None => None end
  | EInstruction name args => match instr_size name with Some sz => place s sz (IInstr name args) | None => None end
  | EDirective name args =>
      if dname name "addr" then
        match args with
        | [a] => match den64 (rho (p_env s)) a with
                 | Some v => match u32z v with Some x => Some (mkP1 (Some x) (p_env s) (p_items s)) | None => None end
                 | None => None
                 end
        | _ => None
        end
      else if dname name "align" then
        match args, p_cur s with
        | [a], Some cur =>
            match den64 (rho (p_env s)) a with
            | Some v => match u32z v with
                        | Some (Npos k) => if cur <? 0x100000000 then place s ((Npos k - cur mod Npos k) mod Npos k) (IPad ((Npos k - cur mod Npos k) mod Npos k)) else None
                        | _ => None
                        end
            | None => None
            end
        | _, _ => None
        end
      else if dname name "const" then
        match args with
        | [AIdent n; a] => match den64 (rho (p_env s)) a with Some v => define s n v | None => None end
        | _ => None
        end
      else if dname name "du8" then match args with [a] => place s 1 (IData 1 a) | _ => None end
      else if dname name "du16" then match args with [a] => place s 2 (IData 2 a) | _ => None end
      else if dname name "du32" then match args with [a] => place s 4 (IData 4 a) | _ => None end
      else if dname name "dstr" then match args with [AStr v] => place s (N.of_nat (List.length v)) (IBytes v) | _ => None end
      else if dname name "dhex" then
        match args with
        | [AStr v] => match hex_pairs v None with Some b => place s (N.of_nat (List.length b)) (IBytes b) | None => None end
        | _ => None
        end
      else if dname name "dfile" then
        match args with
        | [AStr v] => match fs v with Some b => place s (N.of_nat (List.length b)) (IBytes b) | None => None end
        | _ => None
        end
      else None
  end.

Fixpoint pass1 (fs : str -> option (list N)) (s : p1) (l : list element_value) : option p1 :=
  match l with
  | [] => Some s
  | e :: r => match pass1_step fs s e with Some s' => pass1 fs s' r | None => None end
  end.

Fixpoint le_bytes_n (n : nat) (v : N) : list N :=
  match n with O => [] | S k => N.land v 0xFF :: le_bytes_n k (N.shiftr v 8) end.

(* operands of an instruction statement in the final table *)
Definition final_ev (e : env) : evaluator := fun a =>
  match evaluate (fun n => match env_get e n with Some v => Found v | None => NotFound end) is_register a with
  | I64.Ok (a', Complete _) => (a', SComplete)
  | I64.Ok (a', Deferred _ c) => (a', SDeferred c)
  | I64.Err ENoSuchVariable => (a, SNoSuchVar [])
  | _ => (a, SEvalError)
  end.

Definition pass2_item (e : env) (addr : N) (it : item) : option (list N) :=
  match it with
  | IPad n => Some (repeat 0xBE (N.to_nat n))
  | IBytes b => Some b
  | IData size a =>
      match den64 (rho e) a with
      | Some v => if (0 <=? v)%Z && (v <? Z.of_N (N.shiftl 1 (8 * size)))%Z then Some (le_bytes_n (N.to_nat size) (Z.to_N v)) else None
      | None => None
      end
  | IInstr name args =>
      match assemble_stmt (final_ev e) false addr name args with
      | COk i _ => match enc_bytes i 4 with EbOk _ bytes => Some bytes | _ => None end
      | _ => None
      end
  end.

Fixpoint pass2 (e : env) (items : list (N * item)) : option (list (N * list N)) :=
  match items with
  | [] => Some []
  | (a, it) :: r =>
      match pass2_item e a it, pass2 e r with
      | Some b, Some rest => Some ((a, b) :: rest)
      | _, _ => None
      end
  end.

(* identifiers of an expression *)
Fixpoint idents (a : arg) : list str :=
  match a with
  | AConst _ | AStr _ => []
  | AIdent s => [s]
  | AAdd l r | ASub l r | AMul l r | ADiv l r | AMod l r | AAnd l r | AOr l r | AXor l r | AShl l r | AShr l r => idents l ++ idents r
  | ANeg v | ANot v | AAddr v => idents v
  | ASeq l | AFun _ l => flat_map idents l
  end.
Definition item_idents (it : item) : list str :=
  match it with IData _ a => idents a | IInstr _ args => flat_map idents args | _ => [] end.

(* statements in source order: (address, bytes, identifiers mentioned), and the final symbol table *)
Definition layout_spec (fs : str -> option (list N)) (prog : list element_value) : option (list (N * list N * list str) * env) :=
  match pass1 fs (mkP1 None [] []) prog with
  | None => None
  | Some s =>
      let items := rev (p_items s) in
      match pass2 (p_env s) items with
      | None => None
      | Some placed => Some (map (fun x => (fst (fst x), snd (fst x), item_idents (snd (snd x)))) (combine placed items), p_env s)
      end
  end.
