(* C14, the Accept direction, part 1: a small-step reading of an expanded occurrence (ScopeSpec.tree) that follows the
   assembler's order of events - an intermediate between the oracle (order-free: `sources`) and the Context model:
     aT  the open file's own table,  aG  its includer's table,  aP  the deferred tasks of the file (PG x: the end-of-file copy
     of `.global x`, PU k x: the retry of the k-th `.du32` of the project, whose name x had no value at the statement),
     aW  the 4-byte words emitted so far, in order (WV v: the value v, WP: a placeholder).
   `astep` is one statement, `atask` one deferred task, `arun` a whole file instance including the files it includes.
   None = the reading is stuck; it is STRICTER than the model (e.g. `.import` of a name the includer has only declared is stuck
   here): ScopeVerdictSim.v shows that a run that is not stuck here is followed by the model statement by statement with exactly
   these tables and bytes, ScopeVerdictAcc.v that the oracle's Accept verdict implies that the reading is not stuck and
   emits exactly the oracle's values.
   Definitions only. *)
From Coq Require Import ZArith NArith List Bool.
From Trion Require Import Text.Types.
From Trion Require Import Asm.CtxModel.
From Trion Require Asm.ScopeSpec.
Import ListNotations.

Module SPA := ScopeSpec.

Inductive word := WV (v : Z) | WP.
Definition wbytes (w : word) : list N := match w with WV v => le_n 4 (Z.to_N v) | WP => padding 4 end.
Definition flat (W : list word) : list N := flat_map wbytes W.

Fixpoint wset (W : list word) (k : nat) (w : word) : list word :=
  match W, k with
  | [], _ => []
  | _ :: r, O => w :: r
  | a :: r, S k' => a :: wset r k' w
  end.

Inductive ptask := PG (x : str) | PU (k : N) (x : str).

Record ast := mkA { aT : table; aG : table; aP : list ptask; aW : list word }.

Definition u32z (v : Z) : bool := ((0 <=? v) && (v <=? 4294967295))%Z.

(* one statement that is not an `.include` *)
Definition astep (i : SPA.item) (s : ast) : option ast :=
  match i with
  | SPA.IDef x v =>
      if is_register x then None
      else match tbl_get (aT s) x with
           | Some (Some _) => None
           | _ => Some (mkA (tbl_set (aT s) x (Some v)) (aG s) (aP s) (aW s))
           end
  | SPA.IImport x =>
      if is_register x then None
      else match tbl_get (aG s) x, tbl_get (aT s) x with
           | Some (Some v), None => Some (mkA (tbl_set (aT s) x (Some v)) (aG s) (aP s) (aW s))
           | _, _ => None
           end
  | SPA.IGlobal x =>
      if is_register x then None
      else match tbl_get (aG s) x with
           | Some _ => None
           | None =>
               match tbl_get (aT s) x with
               | Some (Some v) => Some (mkA (aT s) (tbl_set (tbl_set (aG s) x None) x (Some v)) (aP s) (aW s))
               | None => Some (mkA (tbl_set (aT s) x None) (tbl_set (aG s) x None) (aP s ++ [PG x]) (aW s))
               | Some None => None
               end
           end
  | SPA.IExport x =>
      if is_register x then None
      else match tbl_get (aT s) x, tbl_get (aG s) x with
           | Some (Some v), None => Some (mkA (aT s) (tbl_set (aG s) x (Some v)) (aP s) (aW s))
           | _, _ => None
           end
  | SPA.IUse x k =>
      if is_register x then None
      else match tbl_get (aT s) x with
           | Some (Some v) => if u32z v then Some (mkA (aT s) (aG s) (aP s) (aW s ++ [WV v])) else None
           | _ => Some (mkA (aT s) (aG s) (aP s ++ [PU k x]) (aW s ++ [WP]))
           end
  | SPA.IChild _ => None
  end.

(* one deferred task at the end of the file *)
Definition atask (p : ptask) (s : ast) : option ast :=
  match p with
  | PG x =>
      if is_register x then None
      else match tbl_get (aT s) x, tbl_get (aG s) x with
           | Some (Some v), Some None => Some (mkA (aT s) (tbl_set (aG s) x (Some v)) (aP s) (aW s))
           | _, _ => None
           end
  | PU k x =>
      if is_register x then None
      else match tbl_get (aT s) x with
           | Some (Some v) =>
               if u32z v && Nat.ltb (N.to_nat k) (List.length (aW s))
               then Some (mkA (aT s) (aG s) (aP s) (wset (aW s) (N.to_nat k) (WV v))) else None
           | _ => None
           end
  end.

Fixpoint atasks (l : list ptask) (s : ast) : option ast :=
  match l with
  | [] => Some s
  | p :: r => match atask p s with Some s' => atasks r s' | None => None end
  end.

(* the statements of one file; `runc` = a whole included file: (its includer's table, words so far) -> (table afterwards, words) *)
Section Items.
Variable runc : SPA.tree -> table -> list word -> option (table * list word).

Fixpoint aitems (l : list SPA.item) (s : ast) : option ast :=
  match l with
  | [] => Some s
  | SPA.IChild c :: r =>
      match runc c (aT s) (aW s) with
      | Some (T', W') => aitems r (mkA T' (aG s) (aP s) W')
      | None => None
      end
  | i :: r => match astep i s with Some s' => aitems r s' | None => None end
  end.
End Items.

Definition afinish (o : option ast) : option (table * list word) :=
  match o with
  | Some s => match atasks (aP s) (mkA (aT s) (aG s) [] (aW s)) with
              | Some s' => Some (aG s', aW s')
              | None => None
              end
  | None => None
  end.

(* a file instance of nesting depth <= d *)
Fixpoint arun (d : nat) (t : SPA.tree) (G : table) (W : list word) : option (table * list word) :=
  match d with
  | O => None
  | S d' => afinish (aitems (arun d') (SPA.items_of t) (mkA [] G [] W))
  end.
