(* evaluate_mut (Asm/CtxEval.v) agrees with Expr/EvalModel.evaluate: same value and same mutated tree on success, an
   error exactly when evaluate reports one, a panic exactly when evaluate panics (never, by C08_no_panic).
   So everything C07/C08 prove about `evaluate` holds for the evaluation the assembler context performs. *)
From Coq Require Import ZArith NArith List Bool.
From Trion Require Import Text.Types Expr.I64 Expr.SimplifyModel Expr.EvalModel Expr.ArgLemmas Asm.CtxSeg Asm.CtxEval.
Import ListNotations.

Section Agree.
  Variable lk : str -> lookup_res.
  Variable isr : str -> bool.
  Let lk' : str -> option lookup_res := fun n => Some (lk n).

  Definition agree_res (o : outcome (arg * evaluation)) (r : ev_res) : Prop :=
    match o with
    | I64.Ok (a', e) => r = EvOk a' e
    | I64.Err _ => exists a' e, r = EvErr a' e
    | I64.Panic s => r = EvPanic (P_simplify s)
    end.

  Definition agree_lres (o : outcome (list arg * evaluation)) (r : evl_res) : Prop :=
    match o with
    | I64.Ok (l', e) => r = ElOk l' e
    | I64.Err _ => exists l' e, r = ElErr l' e
    | I64.Panic s => r = ElPanic (P_simplify s)
    end.

  Lemma node_agree n ev : agree_res (eval_node n ev) (ev_node n ev).
  Proof.
    unfold eval_node, ev_node. destruct (simplify_raw n) as [[a' c]|e|s]; cbn; eauto.
  Qed.

  Lemma bin_agree op l r ol orr rl rr : agree_res ol rl -> agree_res orr rr ->
    agree_res (eval_bin op ol orr) (ev_bin op l r rl rr).
  Proof.
    intros Hl Hr. unfold eval_bin, ev_bin.
    destruct ol as [[l' el]|e|s]; cbn in Hl |- *.
    - subst rl. destruct orr as [[r' er]|e|s]; cbn in Hr |- *.
      + subst rr. apply node_agree.
      + destruct Hr as (a' & e' & ->). eauto.
      + subst rr. reflexivity.
    - destruct Hl as (a' & e' & ->). eauto.
    - subst rl. reflexivity.
  Qed.

  Lemma un_agree mk o r : agree_res o r -> agree_res (eval_un mk o) (ev_un mk r).
  Proof.
    intros H. unfold eval_un, ev_un. destruct o as [[v' e]|e|s]; cbn in H |- *.
    - subst r. apply node_agree.
    - destruct H as (a' & e' & ->). eauto.
    - subst r. reflexivity.
  Qed.

  Lemma cons_agree xs ox rx (f : evaluation -> outcome (list arg * evaluation)) (g : evaluation -> evl_res) acc :
    agree_res ox rx -> (forall a, agree_lres (f a) (g a)) -> agree_lres (eval_cons ox f acc) (ev_cons xs rx g acc).
  Proof.
    intros Hx Hf. unfold eval_cons, ev_cons.
    destruct ox as [[x' e]|e|s]; cbn in Hx |- *.
    - subst rx. specialize (Hf (ev_or acc e)).
      destruct (f (ev_or acc e)) as [[xs' e']|e'|s']; cbn in Hf |- *.
      + rewrite Hf. reflexivity.
      + destruct Hf as (l' & e2 & ->). eauto.
      + rewrite Hf. reflexivity.
    - destruct Hx as (a' & e' & ->). eauto.
    - subst rx. reflexivity.
  Qed.

  Lemma list_agree l : Forall (fun a => agree_res (evaluate lk isr a) (evaluate_mut lk' isr a)) l ->
    forall acc,
    agree_lres
      ((fix go (l : list arg) (acc : evaluation) : outcome (list arg * evaluation) :=
          match l with [] => Ok ([], acc) | x :: xs => eval_cons (evaluate lk isr x) (go xs) acc end) l acc)
      ((fix go (l : list arg) (acc : evaluation) : evl_res :=
          match l with [] => ElOk [] acc | x :: xs => ev_cons xs (evaluate_mut lk' isr x) (go xs) acc end) l acc).
  Proof.
    induction 1 as [|x xs Hx Hxs IH]; intros acc; [reflexivity|].
    apply cons_agree; [exact Hx|exact IH].
  Qed.

  Lemma evaluate_mut_agrees a : agree_res (evaluate lk isr a) (evaluate_mut lk' isr a).
  Proof.
    induction a using arg_ind'.
    - reflexivity.
    - cbn. destruct (negb (isr s)); [|reflexivity]. unfold lk'. destruct (lk s); cbn; eauto.
    - reflexivity.
    - destruct op; cbn [mk_bin evaluate evaluate_mut]; apply bin_agree; assumption.
    - cbn [evaluate evaluate_mut]. apply un_agree. assumption.
    - cbn [evaluate evaluate_mut]. apply un_agree. assumption.
    - cbn [evaluate evaluate_mut]. apply un_agree. assumption.
    - cbn [evaluate evaluate_mut]. pose proof (list_agree l H (Complete false)) as HL.
      match goal with |- agree_res (I64.bind ?o _) _ => destruct o as [[l' e]|e|s] end; cbn in HL |- *.
      + rewrite HL. reflexivity.
      + destruct HL as (l' & e' & ->). eauto.
      + rewrite HL. reflexivity.
    - cbn [evaluate evaluate_mut]. pose proof (list_agree l H (Complete false)) as HL.
      match goal with |- agree_res (I64.bind ?o _) _ => destruct o as [[l' e]|e|s] end; cbn in HL |- *.
      + rewrite HL. reflexivity.
      + destruct HL as (l' & e' & ->). eauto.
      + rewrite HL. reflexivity.
  Qed.
End Agree.
