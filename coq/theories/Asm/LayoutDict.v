(* C05 proofs, part 4: the byte image of a context state as a function address -> option byte (`view`: the merged map
   overlaid with the active segment's buffer), and how the write operations of the context change it. *)
From Coq Require Import ZArith NArith PeanoNat List Bool Lia ZifyBool ZifyNat ZifyN.
From Trion Require Import Mem.MapModel Mem.DictSpec Mem.MapProofs Mem.MapLemmas Mem.MapPutProofs Mem.MapOccupied
  Asm.CtxModel Asm.SegProofs.
Import ListNotations.
Open Scope N_scope.

(* ------------------------------------------------------------------ dictionaries as functions *)
Definition wr (f : N -> option N) (a : N) (data : list N) : N -> option N :=
  fun x => if (a <=? x) && (x <? a + MapModel.len data) then nth_error data (N.to_nat (x - a)) else f x.

Lemma d_get_d_set D a b x : d_get (d_set D a b) x = if a =? x then Some b else d_get D x.
Proof.
  induction D as [|(k, v) r IH]; cbn [d_set d_get]; [reflexivity|].
  destruct (a <? k) eqn:E1; [reflexivity|]. destruct (N.eqb_spec a k) as [->|Ne].
  - cbn [d_get]. destruct (k =? x); reflexivity.
  - cbn [d_get]. rewrite IH. destruct (N.eqb_spec k x) as [->|]; [|reflexivity].
    destruct (N.eqb_spec a x); [congruence|reflexivity].
Qed.

Lemma d_get_d_write data : forall D a x, d_get (d_write D a data) x = wr (d_get D) a data x.
Proof.
  unfold wr. induction data as [|b data IH]; intros D a x.
  - cbn [d_write]. rewrite len_nil. destruct ((a <=? x) && (x <? a + 0)) eqn:E; [lia|reflexivity].
  - cbn [d_write]. rewrite IH, d_get_d_set, len_cons.
    destruct (N.eqb_spec a x) as [->|Ne].
    + destruct ((x + 1 <=? x) && (x <? x + 1 + MapModel.len data)) eqn:E1; [lia|].
      destruct ((x <=? x) && (x <? x + (MapModel.len data + 1))) eqn:E2; [|lia].
      replace (x - x) with 0 by lia. reflexivity.
    + destruct ((a + 1 <=? x) && (x <? a + 1 + MapModel.len data)) eqn:E1.
      * destruct ((a <=? x) && (x <? a + (MapModel.len data + 1))) eqn:E2; [|lia].
        replace (N.to_nat (x - a)) with (S (N.to_nat (x - (a + 1)))) by lia. reflexivity.
      * destruct ((a <=? x) && (x <? a + (MapModel.len data + 1))) eqn:E2; [lia|reflexivity].
Qed.

Lemma nth_error_some_len {A} (l : list A) x a : a <= x -> x < a + MapModel.len l -> nth_error l (N.to_nat (x - a)) <> None.
Proof. intros H1 H2. apply nth_error_Some. unfold MapModel.len in H2. lia. Qed.

Lemma wr_in f a data x : a <= x -> x < a + MapModel.len data -> wr f a data x = nth_error data (N.to_nat (x - a)).
Proof. intros. unfold wr. destruct ((a <=? x) && (x <? a + MapModel.len data)) eqn:E; [reflexivity|lia]. Qed.
Lemma wr_out f a data x : x < a \/ a + MapModel.len data <= x -> wr f a data x = f x.
Proof. intros. unfold wr. destruct ((a <=? x) && (x <? a + MapModel.len data)) eqn:E; [lia|reflexivity]. Qed.

(* ascending dictionaries *)
Lemma asc_d_set d : forall lo hi a b, asc lo hi d -> lo <= a -> a < hi -> asc lo hi (d_set d a b).
Proof.
  induction d as [|(x, y) r IH]; intros lo hi a b A H1 H2.
  - cbn [d_set asc fst]. repeat split; lia.
  - cbn [d_set]. cbn [asc fst] in A. destruct A as (A1 & A2 & A3). destruct (a <? x) eqn:E1.
    + cbn [asc fst]. repeat split; try lia. eapply asc_weaken; [| |exact A3]; lia.
    + destruct (a =? x) eqn:E2.
      * assert (a = x) by lia. subst. cbn [asc fst]. repeat split; try lia. exact A3.
      * cbn [asc fst]. repeat split; try lia. apply IH; [exact A3|lia|lia].
Qed.
Lemma asc_d_write data : forall d lo hi a, asc lo hi d -> lo <= a -> a + MapModel.len data <= hi -> asc lo hi (d_write d a data).
Proof.
  induction data as [|b data IH]; intros d lo hi a A H1 H2; [exact A|].
  cbn [d_write]. rewrite len_cons in H2. apply IH; [apply asc_d_set; [exact A|lia|lia]|lia|lia].
Qed.

Lemma d_get_in d x y : d_get d x = Some y -> In (x, y) d.
Proof.
  induction d as [|(a, b) r IH]; [discriminate|]. cbn [d_get]. destruct (N.eqb_spec a x).
  - intros E. inversion E; subst. now left.
  - intros E. right. now apply IH.
Qed.
Lemma d_get_below d x : forall lo hi, asc lo hi d -> x < lo -> d_get d x = None.
Proof.
  intros lo hi A L. destruct (d_get d x) eqn:E; [|reflexivity].
  apply d_get_in in E. pose proof (asc_in _ _ _ _ A E). cbn [fst] in *. lia.
Qed.

Lemma asc_ext d1 : forall d2 lo hi, asc lo hi d1 -> asc lo hi d2 -> (forall x, d_get d1 x = d_get d2 x) -> d1 = d2.
Proof.
  induction d1 as [|(a1, b1) r1 IH]; intros d2 lo hi A1 A2 HE.
  - destruct d2 as [|(a2, b2) r2]; [reflexivity|]. specialize (HE a2). cbn [d_get] in HE. rewrite N.eqb_refl in HE. discriminate.
  - destruct d2 as [|(a2, b2) r2].
    + specialize (HE a1). cbn [d_get] in HE. rewrite N.eqb_refl in HE. discriminate.
    + cbn [asc fst] in A1, A2. destruct A1 as (P1 & P2 & P3). destruct A2 as (Q1 & Q2 & Q3).
      assert (a1 = a2).
      { pose proof (HE a1) as H1. pose proof (HE a2) as H2. cbn [d_get] in H1, H2. rewrite N.eqb_refl in H1, H2.
        destruct (N.lt_trichotomy a1 a2) as [L|[L|L]]; [|exact L|].
        - destruct (a2 =? a1) eqn:E; [lia|]. rewrite (d_get_below r2 a1 _ _ Q3) in H1 by lia. discriminate.
        - destruct (a1 =? a2) eqn:E; [lia|]. rewrite (d_get_below r1 a2 _ _ P3) in H2 by lia. discriminate. }
      subst a2. pose proof (HE a1) as H1. cbn [d_get] in H1. rewrite N.eqb_refl in H1. inversion H1; subst b2.
      f_equal. apply (IH r2 (a1 + 1) hi P3 Q3). intros x. specialize (HE x). cbn [d_get] in HE.
      destruct (N.eqb_spec a1 x) as [->|Ne]; [|exact HE].
      rewrite (d_get_below r1 x _ _ P3), (d_get_below r2 x _ _ Q3) by lia. reflexivity.
Qed.

(* occupied <-> has a byte *)
Lemma d_get_has_key d x : d_get d x <> None <-> has_key d x.
Proof.
  split.
  - destruct (d_get d x) as [y|] eqn:E; [|congruence]. intros _. exists y. now apply d_get_in.
  - intros (y & H). induction d as [|(a, b) r IH]; [destruct H|]. cbn [d_get]. destruct H as [E|H].
    + inversion E; subst. rewrite N.eqb_refl. discriminate.
    + destruct (a =? x); [discriminate|now apply IH].
Qed.
Lemma d_get_occupied m x : Rep m -> (d_get (abs m) x <> None <-> MapOccupied.occupied m x).
Proof. intros HR. rewrite d_get_has_key. apply abs_keys. exact HR. Qed.

Lemma d_fresh_none : forall data d a, (forall x, a <= x -> x < a + MapModel.len data -> d_get d x <> None) -> d_fresh d a data = 0.
Proof.
  induction data as [|b data IH]; intros d a H; [reflexivity|]. cbn [d_fresh]. rewrite len_cons in H.
  destruct (d_get d a) eqn:E; [|exfalso; apply (H a); [lia|lia|exact E]].
  rewrite IH; [reflexivity|]. intros x H1 H2. apply H; lia.
Qed.

(* ------------------------------------------------------------------ the image of a state *)
Definition view (st : state) (x : N) : option N :=
  match active st with
  | Active s => wr (d_get (abs (output st))) (s_base s) (s_buf s) x
  | Inactive => d_get (abs (output st)) x
  end.

(* the occupied form of the fourth clause of SegInv *)
Lemma seginv_occ m s : SegInv m s -> forall x, d_get (abs m) x <> None -> Rep m -> x < s_base s \/ s_base s + s_max s <= x.
Proof.
  intros (_ & _ & _ & H4) x Hx HR. apply (d_get_occupied m x HR) in Hx. destruct Hx as (g & Hg & G1 & G2).
  destruct (H4 g Hg); lia.
Qed.
Lemma occ_seginv m s : Rep m -> blen s <= s_max s -> 0 < s_max s -> s_base s + s_max s <= CtxSeg.U32 ->
  (forall x, d_get (abs m) x <> None -> x < s_base s \/ s_base s + s_max s <= x) -> SegInv m s.
Proof.
  intros HR H1 H0 H2 H. repeat split; auto. intros g Hg. destruct (Rep_In_ok _ _ HR Hg) as (S1 & S2 & S3).
  assert (O1 : d_get (abs m) (sfirst g) <> None) by (apply d_get_occupied; [exact HR|exists g; repeat split; auto; lia]).
  assert (O2 : d_get (abs m) (slast g) <> None) by (apply d_get_occupied; [exact HR|exists g; repeat split; auto; lia]).
  destruct (H _ O1) as [K1|K1]; [|right; exact K1]. destruct (H _ O2) as [K2|K2]; [left; exact K2|].
  exfalso. assert (O3 : d_get (abs m) (s_base s) <> None) by (apply d_get_occupied; [exact HR|exists g; repeat split; auto; lia]).
  destruct (H _ O3); lia.
Qed.

Lemma nth_error_app_N {A} (l1 l2 : list A) k : nth_error (l1 ++ l2) (N.to_nat k) =
  if k <? MapModel.len l1 then nth_error l1 (N.to_nat k) else nth_error l2 (N.to_nat (k - MapModel.len l1)).
Proof.
  unfold MapModel.len. destruct (k <? N.of_nat (length l1)) eqn:E.
  - apply nth_error_app1. lia.
  - rewrite nth_error_app2 by lia. f_equal. lia.
Qed.

(* appending to the active buffer *)
Lemma view_append st s data x : active st = Active s ->
  view (set_active st (Active (set_buf s (s_buf s ++ data)))) x = wr (view st) (s_base s + blen s) data x.
Proof.
  intros EA. unfold view. rewrite EA. cbn [active set_active output set_buf s_base s_buf]. unfold wr, blen, CtxSeg.len.
  rewrite len_app.
  destruct ((s_base s + MapModel.len (s_buf s) <=? x) && (x <? s_base s + MapModel.len (s_buf s) + MapModel.len data)) eqn:E1.
  - destruct ((s_base s <=? x) && (x <? s_base s + (MapModel.len (s_buf s) + MapModel.len data))) eqn:E2; [|lia].
    rewrite nth_error_app_N. destruct (x - s_base s <? MapModel.len (s_buf s)) eqn:E3; [lia|]. f_equal. lia.
  - destruct ((s_base s <=? x) && (x <? s_base s + MapModel.len (s_buf s))) eqn:E2.
    + destruct ((s_base s <=? x) && (x <? s_base s + (MapModel.len (s_buf s) + MapModel.len data))) eqn:E3; [|lia].
      rewrite nth_error_app_N. destruct (x - s_base s <? MapModel.len (s_buf s)) eqn:E4; [reflexivity|lia].
    + destruct ((s_base s <=? x) && (x <? s_base s + (MapModel.len (s_buf s) + MapModel.len data))) eqn:E3; [lia|reflexivity].
Qed.

Lemma nth_error_firstn_lt {A} : forall (j n : nat) (l : list A), (j < n)%nat -> nth_error (firstn n l) j = nth_error l j.
Proof. induction j as [|j IH]; intros [|n] l L; try lia; destruct l; cbn [firstn nth_error]; auto. apply IH. lia. Qed.
Lemma nth_error_takeN {A} (l : list A) k i : i < k -> nth_error (MapModel.takeN k l) (N.to_nat i) = nth_error l (N.to_nat i).
Proof. intros H. rewrite takeN_firstn. apply nth_error_firstn_lt. lia. Qed.
Lemma nth_error_skipn_add {A} : forall (n j : nat) (l : list A), nth_error (skipn n l) j = nth_error l (n + j).
Proof. induction n as [|n IH]; intros j l; [reflexivity|]. destruct l; cbn [skipn Nat.add nth_error]; [destruct j; reflexivity|apply IH]. Qed.
Lemma nth_error_dropN {A} (l : list A) k i : nth_error (MapModel.dropN k l) (N.to_nat i) = nth_error l (N.to_nat (k + i)).
Proof.
  unfold MapModel.dropN. destruct (MapModel.len l <=? k) eqn:E.
  - symmetry. destruct (N.to_nat i); cbn [nth_error]; apply nth_error_None; unfold MapModel.len in E; lia.
  - rewrite nth_error_skipn_add. f_equal. lia.
Qed.

(* overwriting inside the active buffer *)
Lemma view_splice st s start data x : active st = Active s -> start + MapModel.len data <= blen s ->
  view (set_active st (Active (set_buf s (splice (s_buf s) start data)))) x = wr (view st) (s_base s + start) data x.
Proof.
  intros EA Hin. unfold view. rewrite EA. cbn [active set_active output set_buf s_base s_buf]. unfold blen, CtxSeg.len in Hin.
  assert (LS : MapModel.len (splice (s_buf s) start data) = MapModel.len (s_buf s)).
  { unfold splice. rewrite !len_app, SegProofs.len_takeN, SegProofs.len_dropN by lia. lia. }
  unfold wr. rewrite LS.
  destruct ((s_base s <=? x) && (x <? s_base s + MapModel.len (s_buf s))) eqn:E1.
  - unfold splice. rewrite nth_error_app_N, SegProofs.len_takeN by lia.
    destruct ((s_base s + start <=? x) && (x <? s_base s + start + MapModel.len data)) eqn:E2.
    + destruct (x - s_base s <? start) eqn:E3; [lia|]. rewrite nth_error_app_N.
      destruct (x - s_base s - start <? MapModel.len data) eqn:E4; [|lia]. f_equal. lia.
    + destruct (x - s_base s <? start) eqn:E3.
      * apply nth_error_takeN. lia.
      * rewrite nth_error_app_N. destruct (x - s_base s - start <? MapModel.len data) eqn:E4; [lia|].
        rewrite nth_error_dropN. f_equal. lia.
  - destruct ((s_base s + start <=? x) && (x <? s_base s + start + MapModel.len data)) eqn:E2; [lia|reflexivity].
Qed.

(* a change of the merged map *)
Lemma view_output st m' a data x : abs m' = d_write (abs (output st)) a data ->
  match active st with Active s => a + MapModel.len data <= s_base s \/ s_base s + blen s <= a | Inactive => True end ->
  view (set_output st m') x = wr (view st) a data x.
Proof.
  intros EA Hd. unfold view. cbn [active set_output output]. rewrite EA. destruct (active st) as [|s].
  - apply d_get_d_write.
  - unfold wr at 1 3. unfold blen, CtxSeg.len in Hd.
    destruct ((s_base s <=? x) && (x <? s_base s + MapModel.len (s_buf s))) eqn:E1.
    + unfold wr. destruct ((a <=? x) && (x <? a + MapModel.len data)) eqn:E2; [lia|]. rewrite E1. reflexivity.
    + rewrite d_get_d_write. unfold wr. rewrite E1. reflexivity.
Qed.

(* closing the active segment does not change the image *)
Lemma view_close dbg st b st' : Inv st -> close_segment dbg st = Ret (inl b) st' ->
  Inv st' /\ active st' = Inactive /\ (forall x, view st' x = view st x) /\
  locals st' = locals st /\ path_stack st' = path_stack st /\ local_tasks st' = local_tasks st /\ global_tasks st' = global_tasks st /\
  globals st' = globals st /\ errors st' = errors st /\ curr_name st' = curr_name st.
Proof.
  intros (HR & HA) H. unfold close_segment in H. destruct (active st) as [|s] eqn:EA.
  - inversion H; subst. repeat split; auto. rewrite EA. exact I.
  - destruct HA as (H1 & H0 & H2 & H3).
    assert (L1 : s_base s < MapModel.U32) by (unfold CtxSeg.U32 in *; lia).
    assert (L2 : s_base s + MapModel.len (s_buf s) <= SPACE).
    { unfold blen, CtxSeg.len, CtxSeg.U32, MapModel.U32, SPACE in *. lia. }
    destruct (put_ok dbg (output st) (s_base s) (s_buf s) HR L1 L2) as (m' & n & E & HR' & D). rewrite E in H.
    destruct (n =? blen s); [|discriminate]. inversion H; subst.
    unfold d_put in D. fold (MapModel.len (s_buf s)) in D. destruct (SPACE <? s_base s + MapModel.len (s_buf s)) eqn:C; [lia|].
    pose proof (f_equal fst D) as D1. cbn [fst] in D1.
    repeat split; auto.
    intros x. unfold view. cbn [active set_active set_output output]. rewrite EA, <- D1. apply d_get_d_write.
Qed.

(* overwriting occupied addresses of the merged map *)
Lemma put_over dbg m a data : Rep m -> data <> [] -> (forall x, a <= x -> x < a + MapModel.len data -> d_get (abs m) x <> None) ->
  exists m', map_put dbg m a data = MapModel.Ok (m', Some 0) /\ Rep m' /\ abs m' = d_write (abs m) a data /\
    (forall x, d_get (abs m') x <> None <-> d_get (abs m) x <> None).
Proof.
  intros HR Hne Hocc.
  assert (Hpos : 0 < MapModel.len data) by (destruct data; [congruence|rewrite len_cons; lia]).
  assert (B : forall x, d_get (abs m) x <> None -> x < MapModel.U32).
  { intros x Hx. apply (d_get_occupied m x HR) in Hx. destruct Hx as (g & Hg & G1 & G2).
    destruct (Rep_In_ok _ _ HR Hg) as (S1 & S2 & S3). lia. }
  pose proof (B a (Hocc a ltac:(lia) ltac:(lia))) as La.
  pose proof (B (a + MapModel.len data - 1) (Hocc (a + MapModel.len data - 1) ltac:(lia) ltac:(lia))) as Lb.
  destruct (put_ok dbg m a data HR La ltac:(unfold SPACE, MapModel.U32 in *; lia)) as (m' & n & E & HR' & D).
  unfold d_put in D. fold (MapModel.len data) in D. destruct (SPACE <? a + MapModel.len data) eqn:C; [unfold SPACE, MapModel.U32 in *; lia|].
  pose proof (f_equal fst D) as D1. pose proof (f_equal snd D) as D2. cbn [fst snd] in D1, D2.
  rewrite (d_fresh_none data (abs m) a Hocc) in D2. inversion D2; subst n.
  exists m'. split; [exact E|]. split; [exact HR'|]. split; [symmetry; exact D1|].
  intros x. rewrite <- D1, d_get_d_write. unfold wr.
  destruct ((a <=? x) && (x <? a + MapModel.len data)) eqn:E1; [|tauto].
  split; intros _; [apply Hocc; lia|apply nth_error_some_len; lia].
Qed.
