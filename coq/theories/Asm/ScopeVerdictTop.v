(* C14, the converse direction, part 4: whole projects.
   project_no_errors:   Context::assemble of the root of a project (written as text by ScopeText.show_project) returns Ok
                        =>  the oracle's error list (ScopeSpec.errors ++ top_errors) is EMPTY;
   project_error_fails: hence a project with ANY listed error (duplicate in one scope, import of a name the includer lacks, export /
                        global of a name without value, register name, use of an invisible name, import-and-export) does not
                        assemble: the pipeline ends with status Failure and at least one diagnostic (never CloseError: C13);
   project_mustdiag:    the verdict form, for every reason r, with more include fuel than files (then the run terminates);
   examples for the five reasons that ScopeLinkReg.v does not cover.
   Proof file (no model definitions). *)
From Coq Require Import ZArith NArith List Bool Lia.
From Trion Require Import Text.Types.
From Trion Require Text.ParseModel.
From Trion Require Import Asm.CtxModel Asm.CtxInvDefs Asm.CtxInvSeg Asm.CtxInvStep Asm.CtxInvTop.
From Trion Require Asm.Ctx06Proofs.
From Trion Require Import Asm.ScopeText Asm.ScopeLink Asm.ScopeLinkSeg Asm.ScopeLinkOcc Asm.ScopeLinkTop Asm.ScopeLinkReg.
From Trion Require Import Asm.ScopeVerdictFine Asm.ScopeVerdictStep Asm.ScopeVerdictRun.
Import ListNotations.

(* closing the last region never fails (C13: the active segment's range is free in the map) *)
Lemma pipeline_never_close_error dbg fs fuel path text s diags regions :
  pipeline_gen dbg fs fuel path text = Done s diags regions -> s <> CloseError.
Proof.
  unfold pipeline_gen, pipeline_state.
  pose proof (assemble_post dbg fs fuel init_state text path good_init) as P.
  destruct (assemble dbg fs fuel init_state text path) as [r st1| |]; cbn [CtxModel.bind post] in *; try discriminate.
  destruct P as (G1 & _). destruct (close_good dbg st1 G1) as (st' & b & CE & _). rewrite CE. cbn [CtxModel.bind].
  destruct (finalize dbg st') as [ok st3| |]; cbn [CtxModel.bind]; try discriminate.
  intros H; inversion H; subst. destruct ok; discriminate.
Qed.

(* the root file returned Ok => the oracle lists no error *)
Theorem project_no_errors dbg p a t n fuel s1 : project_ok p = true -> SP.expand_project p = Some (a, t, n) ->
  (a + 4 * Z.of_N n < 4294967296)%Z ->
  assemble dbg (project_fs p) fuel init_state (project_text p) (project_root p) = Ret None s1 ->
  SP.errors t SP.no_env ++ SP.top_errors t = [].
Proof.
  intros OK EX B A. destruct fuel as [|f]; [discriminate A|].
  destruct (project_ok_files p OK) as (Pr & HF).
  unfold project_text, project_root, project_fs, show_project in A. cbn [fst snd] in A. unfold SP.expand_project in EX.
  destruct (SP.lookup_file (SP.p_files p) (SP.p_root p)) as [[|[a0| | | | | | |] body]|] eqn:LF; try discriminate EX.
  destruct (SP.expand SP.max_depth (SP.p_files p) a0 body 0) as [[t0 n0]|] eqn:E; [|discriminate EX]. inversion EX; subst.
  destruct (HF _ _ (lookup_in _ _ _ LF)) as (_ & W). cbn [forallb] in W. apply andb_prop in W. destruct W as [W0 W].
  assert (Ha : (0 <= a)%Z). { unfold stmt_ok, Text.ShowSpec.writable_stmt in W0. cbn in W0. lia. }
  pose proof (root_noreg dbg (SP.p_files p) a HF Ha f (SP.p_root p) body t n s1 Pr W E B A) as NR.
  pose proof (root_fine dbg (SP.p_files p) a HF Ha f (SP.p_root p) body t n s1 Pr W E B A) as FN.
  rewrite (fine_errors SP.max_depth (fun _ => False) t SP.no_env FN NR), (fine_top _ _ _ FN); [reflexivity| |].
  - intros y [].
  - intros y. cbn. lia.
Qed.

(* any listed error anywhere in the project => the run fails with a diagnostic *)
Theorem project_error_fails dbg p a t n fuel s diags regions r : project_ok p = true ->
  SP.expand_project p = Some (a, t, n) -> (a + 4 * Z.of_N n < 4294967296)%Z ->
  In r (SP.errors t SP.no_env ++ SP.top_errors t) ->
  pipeline_gen dbg (project_fs p) fuel (project_root p) (project_text p) = Done s diags regions ->
  s = Failure /\ diags <> [].
Proof.
  intros OK EX B IN RUN.
  assert (NS : s <> Success).
  { intros ->. destruct (success_root_ok _ _ _ _ _ _ _ RUN) as (s1 & A).
    rewrite (project_no_errors dbg p a t n fuel s1 OK EX B A) in IN. destruct IN. }
  pose proof (pipeline_never_close_error _ _ _ _ _ _ _ _ RUN) as NC.
  assert (SF : s = Failure) by (destruct s; congruence).
  split; [exact SF|]. exact (proj2 (Ctx06Proofs.pipeline_reported _ _ _ _ _ _ _ _ RUN) SF).
Qed.

(* the verdict form: MustDiag r, every r *)
Theorem project_mustdiag dbg p a t n f r : project_ok p = true -> SP.expand_project p = Some (a, t, n) ->
  (a + 4 * Z.of_N n < 4294967296)%Z -> SP.j_verdict (SP.judge_project p) = SP.MustDiag r ->
  (List.length (SP.p_files p) <= f)%nat ->
  exists diags regions, pipeline_gen dbg (project_fs p) (S f) (project_root p) (project_text p) = Done Failure diags regions /\
    diags <> [].
Proof.
  intros OK EX B V LT. destruct (project_done dbg p (S f) ltac:(lia)) as (s & diags & regions & RUN).
  destruct (project_error_fails dbg p a t n (S f) s diags regions r OK EX B (verdict_in p a t n r EX V) RUN) as (-> & ND).
  exists diags, regions. split; [exact RUN|exact ND].
Qed.

(* one corollary per reason *)
Definition fails_stmt (r : SP.reason) : Prop := forall dbg p a t n f, project_ok p = true -> SP.expand_project p = Some (a, t, n) ->
  (a + 4 * Z.of_N n < 4294967296)%Z -> SP.j_verdict (SP.judge_project p) = SP.MustDiag r ->
  (List.length (SP.p_files p) <= f)%nat ->
  exists diags regions, pipeline_gen dbg (project_fs p) (S f) (project_root p) (project_text p) = Done Failure diags regions /\
    diags <> [].
Lemma project_duplicate_fails : fails_stmt SP.RDuplicate.
Proof. intros dbg p a t n f. apply project_mustdiag. Qed.
Lemma project_import_lacks_fails : fails_stmt SP.RImportLacks.
Proof. intros dbg p a t n f. apply project_mustdiag. Qed.
Lemma project_export_unvalued_fails : fails_stmt SP.RExportUnvalued.
Proof. intros dbg p a t n f. apply project_mustdiag. Qed.
Lemma project_invisible_use_fails : fails_stmt SP.RInvisibleUse.
Proof. intros dbg p a t n f. apply project_mustdiag. Qed.
Lemma project_import_and_export_fails : fails_stmt SP.RImportAndExport.
Proof. intros dbg p a t n f. apply project_mustdiag. Qed.
Lemma project_register_name_fails : fails_stmt SP.RRegisterName.
Proof. intros dbg p a t n f. apply project_mustdiag. Qed.

(* the contrapositive for the whole run: success => the oracle's verdict is not MustDiag *)
Theorem project_success_no_mustdiag dbg p a t n fuel diags regions r : project_ok p = true ->
  SP.expand_project p = Some (a, t, n) -> (a + 4 * Z.of_N n < 4294967296)%Z ->
  pipeline_gen dbg (project_fs p) fuel (project_root p) (project_text p) = Done Success diags regions ->
  SP.j_verdict (SP.judge_project p) <> SP.MustDiag r.
Proof.
  intros OK EX B RUN V.
  destruct (project_error_fails dbg p a t n fuel Success diags regions r OK EX B (verdict_in p a t n r EX V) RUN) as (H & _).
  discriminate H.
Qed.

(* ------------------------------------------------------------------ one project per reason *)
Definition xr : str := [114%N].   (* r *)
Definition xc : str := [99%N].    (* c *)
Definition xA : str := [65%N].    (* A *)

(* r = `.addr 256; .include "c"; .include "c";`   c = `A: .export A;`   (the second instance exports A again) *)
Definition ex_dup : SP.project :=
  SP.mkProject [(xr, [SP.SAddr 256; SP.SInclude xc; SP.SInclude xc]); (xc, [SP.SLabel xA; SP.SExport xA])] xr.
(* r = `.addr 256; .include "c";`   c = `.import A;` *)
Definition ex_lacks : SP.project :=
  SP.mkProject [(xr, [SP.SAddr 256; SP.SInclude xc]); (xc, [SP.SImport xA])] xr.
(* r = `.addr 256; .include "c";`   c = `.global A;`   (A never gets a value: the end-of-file copy fails) *)
Definition ex_unvalued : SP.project :=
  SP.mkProject [(xr, [SP.SAddr 256; SP.SInclude xc]); (xc, [SP.SGlobal xA])] xr.
(* r = `.addr 256; .include "c"; .du32 A;`   c = `.const A, 7;`   (not exported) *)
Definition ex_invisible : SP.project :=
  SP.mkProject [(xr, [SP.SAddr 256; SP.SInclude xc; SP.SUse xA]); (xc, [SP.SConst xA 7])] xr.
(* r = `.addr 256; .const A, 1; .include "c";`   c = `.import A; .export A;` *)
Definition ex_impexp : SP.project :=
  SP.mkProject [(xr, [SP.SAddr 256; SP.SConst xA 1; SP.SInclude xc]); (xc, [SP.SImport xA; SP.SExport xA])] xr.

Definition fails_with (p : SP.project) (r : SP.reason) (k : dclass) : Prop :=
  project_ok p = true /\ SP.j_verdict (SP.judge_project p) = SP.MustDiag r /\
  match pipeline_gen false (project_fs p) 8 (project_root p) (project_text p) with
  | Done Failure (d :: _) _ => d_class d = k
  | _ => False
  end.

Lemma ex_verdict_facts :
  fails_with ex_dup SP.RDuplicate (KApply AGDuplicate) /\
  fails_with ex_lacks SP.RImportLacks (KApply AGNotFound) /\
  fails_with ex_unvalued SP.RExportUnvalued (KApply AGDeferred) /\
  fails_with ex_invisible SP.RInvisibleUse (KApply AEval) /\
  fails_with ex_impexp SP.RImportAndExport (KApply AGDuplicate).
Proof. vm_compute. repeat split; reflexivity. Qed.
