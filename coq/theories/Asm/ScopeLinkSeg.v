(* C14, link of the scope oracle to the Context model, part 2: where the active segment stands.
   `seg_sig st` = (base, length) of the active segment.  It is what a label reads (curr_addr = base + length below 2^32).
   - the scope statements (.const, label, .global/.import/.export) leave the active segment alone;
   - `.du32 x` that returns Ok appends exactly 4 bytes (value or placeholder);
   - a deferred task rewrites bytes inside the segment or in the map: (base, length) stay (run_task_sig, from C13's
     run_task_shape), hence also the end-of-file loop and the drop of the PathFrame (file_sig);
   - `.addr a` from an inactive state opens a segment (a, 0).
   Proof file (no model definitions). *)
From Coq Require Import ZArith NArith PeanoNat List Bool Lia ZifyBool ZifyNat ZifyN.
From Trion Require Import Text.Types Mem.MapModel Mem.MapProofs Asm.CtxModel Asm.SegProofs Asm.SegPut
  Asm.CtxInvDefs Asm.CtxInvSeg Asm.CtxInvStep Asm.CtxInvCap Asm.CtxInvTop.
From Trion Require Text.ParseModel Expr.EvalModel.
Import ListNotations.
Open Scope N_scope.

Definition seg_sig (st : state) : option (N * N) :=
  match active st with Active s => Some (s_base s, blen s) | Inactive => None end.

Lemma seg_sig_eq st st' : active st' = active st -> seg_sig st' = seg_sig st.
Proof. unfold seg_sig. intros ->. reflexivity. Qed.

(* ------------------------------------------------------------------ operations that do not touch the segment *)
Definition akeep {A} (st : state) (r : res A) : Prop :=
  match r with Ret _ st' => active st' = active st | _ => True end.

Lemma akeep_bind {A B} st (r : res A) (k : A -> state -> res B) :
  akeep st r -> (forall a st1, active st1 = active st -> akeep st1 (k a st1)) -> akeep st (CtxModel.bind r k).
Proof.
  intros H K. destruct r as [a st1|p|]; cbn [CtxModel.bind akeep] in *; auto.
  specialize (K a st1 H). destruct (k a st1); cbn [akeep] in *; auto. congruence.
Qed.

Lemma insert_constant_ak st n v r : akeep st (insert_constant st n v r).
Proof. destruct (insert_constant st n v r) eqn:E; cbn; auto. apply insert_constant_same in E. apply E. Qed.
Lemma defer_constant_ak st n r : akeep st (defer_constant st n r).
Proof. destruct (defer_constant st n r) eqn:E; cbn; auto. apply defer_constant_same in E. apply E. Qed.
Lemma eval_now_ak st l c a : akeep st (eval_now st l c a).
Proof. destruct (eval_now st l c a) eqn:E; cbn; auto. apply eval_now_same in E. apply E. Qed.
Lemma add_task_ak st t r : akeep st (add_task st t r).
Proof. destruct (add_task st t r) as [[] st'| |] eqn:E; cbn; auto. apply add_task_same_seg in E. apply E. Qed.

Ltac ak_tac :=
  repeat match goal with
         | |- akeep _ (Ret _ (push_error _ _ _ _)) => reflexivity
         | |- akeep _ (Ret _ (push_error_in _ _ _ _ _)) => reflexivity
         | |- akeep ?st (Ret _ ?st) => reflexivity
         | |- akeep _ (Panic _) => exact I
         | |- akeep _ (CtxModel.bind _ _) => apply akeep_bind; [|intros ? ? ?]
         | |- akeep _ (insert_constant _ _ _ _) => apply insert_constant_ak
         | |- akeep _ (defer_constant _ _ _) => apply defer_constant_ak
         | |- akeep _ (eval_now _ _ _ _) => apply eval_now_ak
         | |- akeep _ (add_task _ _ _) => apply add_task_ak
         | |- akeep ?st (match arity_check ?st ?l ?c ?a ?n with _ => _ end) =>
             let E := fresh "EAr" in
             destruct (arity_check st l c a n) eqn:E; [apply arity_same in E; cbn [akeep]; apply E|]
         | |- akeep _ (match ?x with _ => _ end) => destruct x
         | |- akeep _ (if ?c then _ else _) => destruct c
         end.

Lemma dir_const_ak st l c args : akeep st (dir_const st l c args).
Proof. unfold dir_const. ak_tac. Qed.
Lemma dir_global_ak st l c d args : akeep st (dir_global st l c d args).
Proof. unfold dir_global. ak_tac. Qed.

Lemma label_ak dbg fs inc st l c x : akeep st (step dbg fs inc st (mkElement l c (ELabel x))).
Proof. unfold step. cbn [e_val e_line e_col]. destruct (active st); ak_tac. Qed.

Lemma directive_ak dbg fs inc st l c dn args :
  dir_of dn = Some DConst \/ dir_of dn = Some DGlobal \/ dir_of dn = Some DImport \/ dir_of dn = Some DExport ->
  akeep st (step dbg fs inc st (mkElement l c (EDirective dn args))).
Proof.
  unfold step, process_directive. cbn [e_val e_line e_col].
  intros [E|[E|[E|E]]]; rewrite E; first [apply dir_const_ak|apply dir_global_ak].
Qed.

(* ------------------------------------------------------------------ .du32 *)
Lemma use_sig dbg fs inc st sg l c dn args s1 : good st -> active st = Active sg -> dir_of dn = Some (DData DU32) ->
  step dbg fs inc st (mkElement l c (EDirective dn args)) = Ret None s1 ->
  exists sg', active s1 = Active sg' /\ s_base sg' = s_base sg /\ blen sg' = blen sg + 4.
Proof.
  intros G EA DN. unfold step, process_directive. cbn [e_val e_line e_col]. rewrite DN. intros H.
  destruct (data_capacity dbg st sg l c DU32 args None s1 G EA H) as (_ & [(_ & R & _)|(data & L & _ & A)]); [congruence|].
  eexists. split; [exact A|]. split; [reflexivity|]. rewrite blen_set_buf, len_app. cbn [dk_size] in L. unfold blen, CtxSeg.len in *. lia.
Qed.

(* ------------------------------------------------------------------ .addr from an inactive state *)
Lemma select_sig dbg st addr b st' : select_segment dbg st addr = Ret (inl b) st' ->
  exists sg, active st' = Active sg /\ s_base sg = addr /\ s_buf sg = [].
Proof.
  unfold select_segment. destruct (map_find dbg (output st) addr Above) as [r| |]; try discriminate.
  destruct (match option_map fst r with Some n => n <=? addr | None => false end); [discriminate|].
  destruct (active st); [|discriminate].
  unfold make_active. destruct (option_map fst r) as [n|].
  - destruct (addr <=? n); [intros H; inversion H; eexists; repeat split|].
    destruct dbg; [discriminate|intros H; inversion H; eexists; repeat split].
  - intros H; inversion H; eexists; repeat split.
Qed.

Lemma addr_sig dbg fs inc st l c dn a s1 : active st = Inactive -> dir_of dn = Some DAddr ->
  step dbg fs inc st (mkElement l c (EDirective dn [AConst a])) = Ret None s1 ->
  exists sg tgt, u32_of a = Some tgt /\ active s1 = Active sg /\ s_base sg = tgt /\ blen sg = 0.
Proof.
  intros EA DN. unfold step, process_directive. cbn [e_val e_line e_col]. rewrite DN.
  unfold dir_addr. cbn [arity_check List.length Nat.eqb].
  destruct (eval_now st l c (AConst a)) as [[a'|lv] st1| |] eqn:EN; cbn [CtxModel.bind]; try discriminate.
  pose proof (eval_now_same _ _ _ _ _ _ EN) as (_ & A1 & _).
  assert (a' = AConst a).
  { unfold eval_now in EN. destruct (ctx_eval st (AConst a)) as [a2 [ch|ch cs]|a2 e|p] eqn:EV; try discriminate EN.
    unfold ctx_eval in EV. cbn in EV. inversion EV; subst. inversion EN; subst. reflexivity. }
  subst a'. destruct (u32_of a) as [tgt|]; [|discriminate].
  unfold change_segment. rewrite A1, EA.
  destruct (select_segment dbg st1 tgt) as [[b|e] st2| |] eqn:ES; cbn [CtxModel.bind]; try discriminate.
  intros H; inversion H; subst. destruct (select_sig _ _ _ _ _ ES) as (sg & A & B & C).
  exists sg, tgt. split; [reflexivity|]. split; [exact A|]. split; [exact B|]. unfold blen. rewrite C. reflexivity.
Qed.

(* ------------------------------------------------------------------ .include: what a successful step ran *)
Lemma include_inv dbg fs inc st l c dn name s1 : dir_of dn = Some DInclude ->
  step dbg fs inc st (mkElement l c (EDirective dn [AStr name])) = Ret None s1 ->
  let path := resolve_path (match path_stack st with [] => [] | p :: _ => p end) name in
  exists data, fs path = Some data /\ inc st data path = Ret None s1.
Proof.
  intros DN. unfold step, process_directive. cbn [e_val e_line e_col]. rewrite DN.
  unfold dir_include. cbn [arity_check List.length Nat.eqb]. cbv zeta.
  destruct (existsb _ _); [discriminate|].
  destruct (fs _) as [data|]; [|discriminate].
  destruct (inc st data _) as [[lv|] st1| |] eqn:EI; cbn [CtxModel.bind]; try discriminate.
  intros H; inversion H; subst. exists data. split; [reflexivity|exact EI].
Qed.

(* ------------------------------------------------------------------ deferred tasks *)
Lemma wshape_sig st a n st' : wshape st a n st' -> seg_sig st' = seg_sig st.
Proof.
  intros [(_ & A)|[(s & data & EA & (I1 & I2) & L & _ & A)|(data & _ & _ & A & _)]]; try (apply seg_sig_eq; exact A).
  unfold seg_sig. rewrite A, EA. f_equal. f_equal. rewrite blen_set_buf. unfold blen.
  apply len_splice. unfold blen, CtxSeg.len in *. lia.
Qed.

Lemma run_task_sig dbg st t r st' : good st -> task_ok st t -> run_task dbg st t = Ret r st' -> seg_sig st' = seg_sig st.
Proof.
  intros G Ht E. unfold task_ok in Ht. destruct (task_range t) as [[a n]|] eqn:Er.
  - eapply wshape_sig. eapply run_task_shape; eauto.
  - apply seg_sig_eq. destruct t as [ai g|d g|x l c|x l c]; cbn [task_range] in Er; try discriminate Er; cbn [run_task] in E.
    + assert (K : akeep st (run_task dbg st (GlobalTask x l c))) by (cbn [run_task]; ak_tac).
      cbn [run_task] in K. rewrite E in K. exact K.
    + assert (K : akeep st (run_task dbg st (ImportCheckTask x l c))) by (cbn [run_task]; ak_tac).
      cbn [run_task] in K. rewrite E in K. exact K.
Qed.

Lemma local_round_sig dbg tasks : forall st r r' st', good st -> tasks_ok st tasks ->
  local_round dbg tasks st r = Ret r' st' -> good st' /\ mono st st' /\ seg_sig st' = seg_sig st.
Proof.
  induction tasks as [|t rest IH]; intros st r r' st' G HT E; cbn [local_round] in E.
  - inversion E; subst. split; [exact G|]. split; [apply mono_refl|reflexivity].
  - inversion HT as [|? ? Ht Hrest]; subst.
    pose proof (run_task_post dbg st t G Ht) as P.
    destruct (run_task dbg st t) as [x st1| |] eqn:ET; cbn [CtxModel.bind] in E; try discriminate E.
    destruct P as (G1 & M1). pose proof (run_task_sig _ _ _ _ _ G Ht ET) as S1.
    pose proof (tasks_ok_mono _ _ _ M1 Hrest) as Hrest1.
    assert (K : forall rr, local_round dbg rest st1 rr = Ret r' st' -> good st' /\ mono st st' /\ seg_sig st' = seg_sig st).
    { intros rr E2. destruct (IH _ _ _ _ G1 Hrest1 E2) as (G2 & M2 & S2).
      split; [exact G2|]. split; [eapply mono_trans; eauto|congruence]. }
    destruct x as [lvl|]; [|eapply K; eauto].
    destruct (is_fatal lvl); [|eapply K; eauto]. inversion E; subst. auto.
Qed.

Lemma local_loop_sig dbg rounds : forall tasks st r r' st', good st -> tasks_ok st tasks ->
  local_loop dbg rounds tasks st r = Ret r' st' -> good st' /\ seg_sig st' = seg_sig st.
Proof.
  induction rounds as [|k IH]; intros tasks st r r' st' G HT E; cbn [local_loop] in E.
  - destruct tasks; [inversion E; subst; auto|discriminate E].
  - destruct tasks as [|t0 rest0]; [inversion E; subst; auto|].
    destruct (local_round dbg (t0 :: rest0) st r) as [r1 st1| |] eqn:ER; cbn [CtxModel.bind] in E; try discriminate E.
    destruct (local_round_sig _ _ _ _ _ _ G HT ER) as (G1 & M1 & S1).
    destruct (local_tasks st1) as [newt|] eqn:EL; [|discriminate E].
    assert (Hn : tasks_ok st1 newt). { destruct G1 as (_ & _ & K). rewrite EL in K. exact K. }
    destruct (set_local_tasks_good st1 [] G1 (Forall_nil _)) as (G2 & M2).
    destruct (res_is_fatal r1).
    + inversion E; subst. split; [exact G2|]. exact S1.
    + destruct (IH _ _ _ _ _ G2 (tasks_ok_mono _ _ _ M2 Hn) E) as (G3 & S3). split; [exact G3|].
      rewrite S3. exact S1.
Qed.

(* an error result stays an error result through the end-of-file loop *)
Lemma local_round_some dbg tasks : forall st lv r' st', local_round dbg tasks st (Some lv) = Ret r' st' -> r' <> None.
Proof.
  induction tasks as [|t rest IH]; intros st lv r' st' E; cbn [local_round] in E.
  - inversion E. discriminate.
  - destruct (run_task dbg st t) as [x st1| |]; cbn [CtxModel.bind] in E; try discriminate E.
    destruct x as [lvl|]; [|eapply IH; eauto].
    destruct (is_fatal lvl); [inversion E; discriminate|eapply IH; eauto].
Qed.
Lemma local_loop_some dbg rounds : forall tasks st lv r' st', local_loop dbg rounds tasks st (Some lv) = Ret r' st' -> r' <> None.
Proof.
  induction rounds as [|k IH]; intros tasks st lv r' st' E; cbn [local_loop] in E.
  - destruct tasks; [inversion E; discriminate|discriminate E].
  - destruct tasks as [|t0 rest0]; [inversion E; discriminate|].
    destruct (local_round dbg (t0 :: rest0) st (Some lv)) as [r1 st1| |] eqn:ER; cbn [CtxModel.bind] in E; try discriminate E.
    apply local_round_some in ER. destruct r1 as [l1|]; [|congruence].
    destruct (local_tasks st1); [|discriminate E].
    destruct (res_is_fatal (Some l1)); [inversion E; discriminate|eapply IH; eauto].
Qed.

(* ------------------------------------------------------------------ a whole file *)
(* if the statements of the file, run from the state the file is entered in, leave the segment at X whenever they all
   succeed, then so does Context::assemble of the file when it returns Ok *)
Lemma file_sig dbg fs inc st data path els X s' : inc_ok inc -> good st ->
  parse_source data = Parsed (map ParseModel.IOk els) None ->
  (forall st1, run_items dbg fs inc (map ParseModel.IOk els) (fst (enter_file st path)) = Ret None st1 -> seg_sig st1 = X) ->
  assemble_body dbg fs inc st data path = Ret None s' -> seg_sig s' = X.
Proof.
  intros HI G PS HR. unfold assemble_body.
  destruct (enter_file_good st path G) as (G0 & M0 & F0 & _).
  destruct (enter_file st path) as [st0 fr]. cbn [fst snd] in *.
  unfold do_assemble. rewrite PS.
  pose proof (run_items_post dbg fs inc (map ParseModel.IOk els) HI st0 G0) as P.
  destruct (run_items dbg fs inc (map ParseModel.IOk els) st0) as [r1 st1| |] eqn:ER; cbn [CtxModel.bind]; try discriminate.
  destruct P as (G1 & M1).
  destruct r1 as [lv|]; cbn [CtxModel.bind].
  - (* a statement failed: the result cannot be Ok *)
    destruct (res_is_fatal (Some lv)).
    + cbn [CtxModel.bind]. destruct (leave_file st1 fr) as [[] st3| |]; cbn [CtxModel.bind]; discriminate.
    + destruct (local_tasks st1) as [tasks|]; [|discriminate]. cbn [CtxModel.bind].
      destruct (local_loop dbg task_rounds tasks _ (Some lv)) as [r' st2| |] eqn:EL; cbn [CtxModel.bind]; try discriminate.
      apply local_loop_some in EL.
      destruct (leave_file st2 fr) as [[] st3| |]; cbn [CtxModel.bind]; try discriminate. intros H; inversion H; congruence.
  - cbn [res_is_fatal]. specialize (HR st1 eq_refl).
    destruct (local_tasks st1) as [tasks|] eqn:ELT; [|discriminate].
    assert (Hn : tasks_ok st1 tasks). { destruct G1 as (_ & _ & K). rewrite ELT in K. exact K. }
    destruct (set_local_tasks_good st1 [] G1 (Forall_nil _)) as (G2 & M2).
    destruct (local_loop dbg task_rounds tasks _ None) as [r' st2| |] eqn:EL; cbn [CtxModel.bind]; try discriminate.
    destruct (local_loop_sig _ _ _ _ _ _ _ G2 (tasks_ok_mono _ _ _ M2 Hn) EL) as (G3 & S3).
    unfold leave_file. destruct (negb _); [discriminate|]. destruct (path_stack st2); [discriminate|].
    cbn [CtxModel.bind]. intros H; inversion H. rewrite <- HR. unfold seg_sig in *. cbn [active]. exact S3.
Qed.
