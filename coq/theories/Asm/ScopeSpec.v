(* C14 oracle: constant visibility follows file scope.  Written from the property text and the README
   ("Constants", ".global/.import/.export/.include"), not from the assembler's tables.

   A project is a set of files; a file is a list of statements of the small language below (everything the
   C14 generator writes).  Including a file creates an OCCURRENCE of it; the same file may occur several times.

   Which values may a name denote inside one occurrence?  (`sources`)
     - every `.const x, v` and every label `x:` of the occurrence itself        (defined there),
     - for every `.import x` of the occurrence: whatever x denotes in its includer  (imported from the includer),
     - for every `.export x` / `.global x` of an INCLUDED occurrence: whatever x denotes there (exported / global).
     Nothing else: no sibling, no includer without `.import`, no included file without `.export`/`.global`.
   A name with exactly one source is visible with that value; with none it is invisible; two or more sources are a
   duplicate definition in that scope.

   Verdict for a whole project:
     MustDiag  one of the listed errors is present (a diagnostic is required, success is a violation):
                 duplicate in one scope (incl. exporting a name the includer already has), import of a name the
                 includer lacks, export / global of a name without value, register name as constant, use of an
                 invisible name;
     Accept    none of them, and the project also respects the documented ORDER requirements (`.export x` after x
               has its value, `.import x` of a name that has its value before the `.include`, no `.global x`
               declaration of the includer in front of an included file that exports x): it must assemble;
     Unspecified  otherwise (e.g. import of a name the includer only defines later): the oracle is silent about
               success, but the values below still bind a successful run.
   `use_values`: for every `.du32 x` in assembly order the value it must emit if the run succeeds. *)
From Coq Require Import ZArith NArith List Bool.
From Trion Require Import Text.Types.
Import ListNotations.
Open Scope Z_scope.

Definition name := str.

Inductive stmt :=
| SAddr (a : Z)                 (* .addr a;   only as the first statement of the root file *)
| SConst (x : name) (v : Z)     (* .const x, v; *)
| SLabel (x : name)             (* x: *)
| SGlobal (x : name)            (* .global x; *)
| SImport (x : name)            (* .import x; *)
| SExport (x : name)            (* .export x; *)
| SInclude (f : str)            (* .include "f"; *)
| SUse (x : name).              (* .du32 x;   emits 4 bytes *)

Definition file := list stmt.
Record project := mkProject { p_files : list (str * file); p_root : str }.

(* ---------------------------------------------------------------- names *)

Fixpoint str_eqb (a b : str) : bool :=
  match a, b with
  | [], [] => true
  | x :: a', y :: b' => N.eqb x y && str_eqb a' b'
  | _, _ => false
  end.

Definition upper (c : N) : N := if (N.leb 97 c && N.leb c 122)%bool then (c - 32)%N else c.

(* "Constants must not have the same name as any register in the current instruction set" (ARMv6-M: core and special registers) *)
Definition register_names : list str :=
  map (map N.of_nat)
  [ [82;48]; [82;49]; [82;50]; [82;51]; [82;52]; [82;53]; [82;54]; [82;55]; [82;56]; [82;57];
    [82;49;48]; [82;49;49]; [82;49;50]; [82;49;51]; [82;49;52]; [82;49;53];
    [83;80]; [76;82]; [80;67];
    [65;80;83;82]; [73;65;80;83;82]; [69;65;80;83;82]; [88;80;83;82]; [73;80;83;82]; [69;80;83;82]; [73;69;80;83;82];
    [77;83;80]; [80;83;80]; [80;82;73;77;65;83;75]; [67;79;78;84;82;79;76] ]%nat.
Definition is_register (x : name) : bool := existsb (str_eqb (map upper x)) register_names.

(* ---------------------------------------------------------------- occurrences *)

(* an expanded occurrence: labels already carry their address, uses their index in assembly order *)
Inductive tree := Node (items : list item)
with item :=
| IDef (x : name) (v : Z)       (* .const or label *)
| IGlobal (x : name)
| IImport (x : name)
| IExport (x : name)
| IUse (x : name) (k : N)
| IChild (t : tree).

Fixpoint lookup_file (fs : list (str * file)) (f : str) : option file :=
  match fs with
  | [] => None
  | (n, b) :: r => if str_eqb n f then Some b else lookup_file r f
  end.

(* expansion in assembly order; `k` counts the `.du32` statements seen so far (each emits 4 bytes from `base` on).
   None: a missing file, an `.addr` that is not the root's first statement, or nesting deeper than the fuel. *)
Fixpoint expand (fuel : nat) (fs : list (str * file)) (base : Z) (body : file) (k : N) : option (tree * N) :=
  match fuel with
  | O => None
  | S fuel' =>
    match
    (fix go (l : file) (k : N) : option (list item * N) :=
       match l with
       | [] => Some ([], k)
       | s :: r =>
         let cont (i : item) (k' : N) := match go r k' with Some (is, k'') => Some (i :: is, k'') | None => None end in
         match s with
         | SAddr _ => None
         | SConst x v => cont (IDef x v) k
         | SLabel x => cont (IDef x (base + 4 * Z.of_N k)) k
         | SGlobal x => cont (IGlobal x) k
         | SImport x => cont (IImport x) k
         | SExport x => cont (IExport x) k
         | SUse x => cont (IUse x k) (k + 1)%N
         | SInclude f =>
           match lookup_file fs f with
           | None => None
           | Some b => match expand fuel' fs base b k with
                       | Some (t, k') => cont (IChild t) k'
                       | None => None
                       end
           end
         end
       end) body k
    with
    | Some (is, k') => Some (Node is, k')
    | None => None
    end
  end.

Definition max_depth : nat := 6.

Definition expand_project (p : project) : option (Z * tree * N) :=
  match lookup_file (p_files p) (p_root p) with
  | Some (SAddr a :: body) =>
      match expand max_depth (p_files p) a body 0 with
      | Some (t, n) => Some (a, t, n)
      | None => None
      end
  | _ => None
  end.

(* ---------------------------------------------------------------- visibility *)

Definition items_of (t : tree) : list item := match t with Node l => l end.

(* how often the occurrence hands x to its includer *)
Definition ups (t : tree) (x : name) : nat :=
  length (filter (fun i => match i with IExport y | IGlobal y => str_eqb x y | _ => false end) (items_of t)).
Definition imports (t : tree) (x : name) : nat :=
  length (filter (fun i => match i with IImport y => str_eqb x y | _ => false end) (items_of t)).

Fixpoint repeat_app {A} (n : nat) (l : list A) : list A := match n with O => [] | S n' => l ++ repeat_app n' l end.

(* sources of x that do not come from the includer: own definitions, and what included occurrences hand up *)
Fixpoint down (t : tree) (x : name) : list Z :=
  match t with
  | Node l =>
    (fix go (l : list item) : list Z :=
       match l with
       | [] => []
       | IDef y v :: r => (if str_eqb x y then [v] else []) ++ go r
       | IChild c :: r => repeat_app (ups c x) (down c x) ++ go r
       | _ :: r => go r
       end) l
  end.

(* all sources of x in occurrence t, `penv` = the sources in its includer *)
Definition sources (t : tree) (penv : name -> list Z) (x : name) : list Z :=
  down t x ++ repeat_app (imports t x) (penv x).

(* ---------------------------------------------------------------- the listed errors *)

Inductive reason := RDuplicate | RImportLacks | RExportUnvalued | RRegisterName | RInvisibleUse | RImportAndExport.

Definition names_of (t : tree) : list name :=
  flat_map (fun i => match i with IDef x _ | IGlobal x | IImport x | IExport x | IUse x _ => [x] | IChild _ => [] end) (items_of t).

Definition two_or_more {A} (l : list A) : bool := match l with _ :: _ :: _ => true | _ => false end.
Definition is_nil {A} (l : list A) : bool := match l with [] => true | _ => false end.

(* errors of one occurrence, its includer's sources given *)
Definition local_errors (t : tree) (penv : name -> list Z) : list reason :=
  flat_map (fun i =>
    match i with
    | IDef x _ => (if is_register x then [RRegisterName] else []) ++ (if two_or_more (sources t penv x) then [RDuplicate] else [])
    | IGlobal x | IExport x =>
        (if is_register x then [RRegisterName] else []) ++
        (if is_nil (sources t penv x) then [RExportUnvalued] else []) ++
        (if negb (Nat.eqb (imports t x) 0) then [RImportAndExport] else [])      (* the includer already has what is imported from it *)
    | IImport x =>
        (if is_register x then [RRegisterName] else []) ++
        (if is_nil (penv x) then [RImportLacks] else []) ++
        (if two_or_more (sources t penv x) then [RDuplicate] else [])
    | IUse x _ => if is_nil (sources t penv x) then [RInvisibleUse] else if two_or_more (sources t penv x) then [RDuplicate] else []
    | IChild c => flat_map (fun x => if two_or_more (sources t penv x) then [RDuplicate] else [])
                           (filter (fun x => negb (Nat.eqb (ups c x) 0)) (names_of c))
    end) (items_of t).

Fixpoint errors (t : tree) (penv : name -> list Z) : list reason :=
  match t with
  | Node l =>
    local_errors t penv ++
    (fix go (l : list item) : list reason :=
       match l with
       | [] => []
       | IChild c :: r => errors c (sources t penv) ++ go r
       | _ :: r => go r
       end) l
  end.

(* the scope above the root file is empty; what the root hands up lands there (twice the same name is a duplicate) *)
Definition top_errors (t : tree) : list reason :=
  flat_map (fun x => if two_or_more (repeat_app (ups t x) (down t x)) then [RDuplicate] else []) (names_of t).

(* ---------------------------------------------------------------- documented order requirements *)

(* x has a value in front of the current statement: defined, imported, or handed up by an earlier included file *)
Definition avail (pre : list item) (x : name) : bool :=
  existsb (fun i => match i with
                    | IDef y _ | IImport y => str_eqb x y
                    | IChild c => negb (Nat.eqb (ups c x) 0)
                    | _ => false end) pre.
Definition declared_global (pre : list item) (x : name) : bool :=
  existsb (fun i => match i with IGlobal y => str_eqb x y | _ => false end) pre.

Fixpoint ordered (t : tree) : bool :=
  match t with
  | Node l =>
    (fix go (pre l : list item) : bool :=
       match l with
       | [] => true
       | i :: r =>
         (match i with
          | IExport x => avail pre x
          | IChild c =>
              forallb (fun x => (Nat.eqb (imports c x) 0 || avail pre x) &&
                                (Nat.eqb (ups c x) 0 || negb (declared_global pre x))) (names_of c)
              && ordered c
          | _ => true
          end) && go (pre ++ [i]) r
       end) [] l
  end.

(* ---------------------------------------------------------------- use sites *)

Fixpoint uses (t : tree) (penv : name -> list Z) : list (N * option Z) :=
  match t with
  | Node l =>
    (fix go (l : list item) : list (N * option Z) :=
       match l with
       | [] => []
       | IUse x k :: r => (k, match sources t penv x with [v] => Some v | _ => None end) :: go r
       | IChild c :: r => uses c (sources t penv) ++ go r
       | _ :: r => go r
       end) l
  end.

Definition u32 (v : Z) : bool := (0 <=? v) && (v <? 4294967296).

Inductive verdict := MustDiag (r : reason) | Accept | Unspecified.

Record judgement := mkJudgement {
  j_verdict : verdict;
  j_base : Z;                          (* address of the first .du32 *)
  j_uses : list (N * option Z)         (* (index k, required value): the bytes at base + 4k, little endian *)
}.

Definition no_env : name -> list Z := fun _ => [].

Definition judge_project (p : project) : judgement :=
  match expand_project p with
  | None => mkJudgement Unspecified 0 []
  | Some (a, t, n) =>
      let us := uses t no_env in
      match errors t no_env ++ top_errors t with
      | r :: _ => mkJudgement (MustDiag r) a us
      | [] =>
          if ordered t && u32 a && u32 (a + 4 * Z.of_N n) && forallb (fun u => match snd u with Some v => u32 v | None => false end) us
          then mkJudgement Accept a us else mkJudgement Unspecified a us
      end
  end.
