(* C05 proofs, part 14: the executable checks of the two hypotheses of the acceptance theorem are sound
   (nc_check => no_collision, class_check => C05_class_v); used for the non-vacuity example of Properties/C05.v. *)
From Coq Require Import ZArith NArith PeanoNat List Bool Lia ZifyBool ZifyNat ZifyN String.
From Trion Require Import Text.Types Expr.Denote Arm.Instr Arm.DisplayModel Arm.AsmStmtModel
  Asm.CtxModel Asm.LayoutSpec Asm.LayoutWf Asm.LayoutEval Asm.LayoutInstr Asm.LayoutInstrD Asm.LayoutSim Asm.LayoutStage Asm.LayoutStep Asm.LayoutFinal Asm.LayoutBytes Asm.LayoutText.
Import ListNotations.
Open Scope N_scope.

Lemma coveredb_false items x : coveredb items x = false -> ~ covered items x.
Proof.
  intros H (a & it & Hi & X1 & X2). unfold coveredb in H.
  assert (K : existsb (fun p => (fst p <=? x) && (x <? fst p + item_size (snd p))) items = true).
  { apply existsb_exists. exists (a, it). split; [exact Hi|]. cbn [fst snd]. lia. }
  congruence.
Qed.

Lemma in_addrs a n x : a <= x -> x < a + n -> In x (addrs a n).
Proof.
  intros H1 H2. unfold addrs. apply in_map_iff. exists (N.to_nat (x - a)). split; [lia|]. apply in_seq. lia.
Qed.

Lemma nc_check_from fs : forall l s, nc_check fs s l = true ->
  forall pre e post s0 s1, l = pre ++ e :: post -> pass1 fs s pre = Some s0 -> pass1_step fs s0 e = Some s1 ->
    (forall x, is_addr e = true -> p_cur s1 = Some x -> ~ covered (p_items s0) x) /\
    (forall a it x, p_items s1 = (a, it) :: p_items s0 -> a <= x -> x < a + item_size it -> ~ covered (p_items s0) x).
Proof.
  induction l as [|e0 r IH]; intros s H pre e post s0 s1 Hl Hp Hs; [destruct pre; discriminate|].
  cbn [nc_check] in H. destruct pre as [|e1 pre].
  - cbn [app] in Hl. inversion Hl; subst e0 r. cbn [pass1] in Hp. inversion Hp; subst s0. rewrite Hs in H.
    apply andb_prop in H. destruct H as (H & _). unfold nc_step_ok in H. apply andb_prop in H. destruct H as (Ha & Hi). split.
    + intros x A C. rewrite A, C in Ha. apply coveredb_false. destruct (coveredb (p_items s) x); [discriminate|reflexivity].
    + intros a it x Eq X1 X2. rewrite Eq, Nat.eqb_refl in Hi. rewrite forallb_forall in Hi.
      specialize (Hi x (in_addrs _ _ _ X1 X2)). apply coveredb_false. destruct (coveredb (p_items s) x); [discriminate|reflexivity].
  - cbn [app] in Hl. inversion Hl; subst e1 r. cbn [pass1] in Hp.
    destruct (pass1_step fs s e0) as [s'|]; [|discriminate]. apply andb_prop in H. destruct H as (_ & H).
    exact (IH s' H pre e post s0 s1 eq_refl Hp Hs).
Qed.

Theorem nc_check_sound fs prog : nc_check fs (mkP1 None [] []) prog = true -> no_collision fs prog.
Proof. intros H pre e post s0 s1. apply (nc_check_from fs prog _ H). Qed.

(* ------------------------------------------------------------------ the class *)
Definition knownb (ek : env) (a : arg) : bool :=
  forallb (fun n => CtxModel.is_register n || match env_get ek n with Some _ => true | None => false end) (LayoutEval.idents a).

Definition stmt_okb (E ek : env) (e : element_value) : bool :=
  match e with
  | ELabel _ => true
  | EDirective name _ => negb (CtxModel.is name "dfile")
  | EInstruction name args =>
      forallb (knownb ek) args ||
      match template name with
      | Some t => (is_branch t && forallb (fun a => match den64 (rho E) a with Some _ => true | None => false end) args) || no_eval t
      | None => false
      end
  end.

Fixpoint class_check (fs : str -> option (list N)) (E : env) (s : p1) (l : list element_value) : bool :=
  match l with
  | [] => true
  | e :: r => stmt_okb E (p_env s) e && match pass1_step fs s e with Some s1 => class_check fs E s1 r | None => true end
  end.

Lemma stmt_okb_sound E ek e : stmt_okb E ek e = true -> stmt_ok E ek e.
Proof.
  destruct e as [n|name args|name args]; cbn [stmt_okb stmt_ok]; [auto| |].
  - intros H Hd. unfold dir_of in Hd.
    repeat match type of Hd with (if ?c then _ else _) = _ => destruct c eqn:? end; try discriminate Hd. discriminate H.
  - intros H. apply orb_prop in H. destruct H as [H|H].
    + left. intros a Ha m Hm. rewrite forallb_forall in H. specialize (H a Ha). unfold knownb in H. rewrite forallb_forall in H.
      specialize (H m Hm). apply orb_prop in H. destruct H as [H|H]; [now left|right]. unfold LayoutSim.lkE.
      destruct (env_get ek m) as [v|]; [eauto|discriminate].
    + right. destruct (template name) as [t|]; [|discriminate]. apply orb_prop in H. destruct H as [H|H].
      * left. apply andb_prop in H. destruct H as (HB & HD). exists t. split; [reflexivity|]. split; [exact HB|].
        intros a Ha. rewrite forallb_forall in HD. specialize (HD a Ha). destruct (den64 (rho E) a); [discriminate|discriminate HD].
      * right. exists t. auto.
Qed.

Lemma class_check_from fs E : forall l s, class_check fs E s l = true ->
  forall pre e post s0, l = pre ++ e :: post -> pass1 fs s pre = Some s0 -> stmt_ok E (p_env s0) e.
Proof.
  induction l as [|e0 r IH]; intros s H pre e post s0 Hl Hp; [destruct pre; discriminate|].
  cbn [class_check] in H. apply andb_prop in H. destruct H as (H0 & H). destruct pre as [|e1 pre].
  - cbn [app] in Hl. inversion Hl; subst. cbn [pass1] in Hp. inversion Hp; subst. apply stmt_okb_sound. exact H0.
  - cbn [app] in Hl. inversion Hl; subst e1 r. cbn [pass1] in Hp.
    destruct (pass1_step fs s e0) as [s'|]; [|discriminate]. exact (IH s' H pre e post s0 eq_refl Hp).
Qed.

Theorem class_check_sound fs E prog : class_check fs E (mkP1 None [] []) prog = true -> C05_class_v fs E prog.
Proof. intros H pre e post s0. apply (class_check_from fs E prog _ H). Qed.

(* ------------------------------------------------------------------ the wider class (deferred instructions of every template, .dfile) *)
Definition denb (E : env) (a : arg) : bool := match den64 (rho E) a with Some _ => true | None => false end.
Definition mem_okb (E : env) (a : arg) : bool :=
  match a with
  | AAddr (AAdd l r) =>
      (match l with AIdent n => CtxModel.is_register n && denb E r | _ => false end) ||
      (match r with AIdent n => CtxModel.is_register n && denb E l | _ => false end)
  | _ => false
  end.
Definition staged_okb (E : env) (a : arg) : bool := denb E a || mem_okb E a.

Definition stmt_okbw (E ek : env) (e : element_value) : bool :=
  match e with
  | ELabel _ | EDirective _ _ => true
  | EInstruction name args =>
      forallb (knownb ek) args ||
      match template name with
      | Some t => (match eval_pos t with
                   | Some pos => match nth_error args pos with Some a => staged_okb E a | None => true end
                   | None => false
                   end) || no_eval t
      | None => false
      end
  end.

Fixpoint class_checkw (fsr : str -> option (list N)) (E : env) (s : p1) (l : list element_value) : bool :=
  match l with
  | [] => true
  | e :: r => stmt_okbw E (p_env s) e && match pass1_step fsr s e with Some s1 => class_checkw fsr E s1 r | None => true end
  end.

Lemma denb_sound E a : denb E a = true -> den64 (rho E) a <> None.
Proof. unfold denb. destruct (den64 (rho E) a); [discriminate|discriminate]. Qed.

Lemma staged_okb_sound E a : staged_okb E a = true -> staged_ok E a.
Proof.
  unfold staged_okb. intros H. apply orb_prop in H. destruct H as [H|H]; [left; apply denb_sound; exact H|right].
  unfold mem_okb in H. destruct a; try discriminate H. destruct a; try discriminate H.
  apply orb_prop in H. destruct H as [H|H].
  - destruct a1; try discriminate H. apply andb_prop in H. destruct H as (R & D).
    exists s, true, a2. split; [exact R|]. split; [apply denb_sound; exact D|reflexivity].
  - destruct a2; try discriminate H. apply andb_prop in H. destruct H as (R & D).
    exists s, false, a1. split; [exact R|]. split; [apply denb_sound; exact D|reflexivity].
Qed.

Lemma stmt_okbw_sound fs path E ek e : stmt_okbw E ek e = true -> stmt_okx fs (rel_fs fs path) path E ek e.
Proof.
  destruct e as [n|name args|name args]; cbn [stmt_okbw stmt_okx]; [auto| |].
  - intros _ _ v _. reflexivity.
  - intros H. apply orb_prop in H. destruct H as [H|H].
    + left. intros a Ha m Hm. rewrite forallb_forall in H. specialize (H a Ha). unfold knownb in H. rewrite forallb_forall in H.
      specialize (H m Hm). apply orb_prop in H. destruct H as [H|H]; [now left|right]. unfold LayoutSim.lkE.
      destruct (env_get ek m) as [v|]; [eauto|discriminate].
    + right. destruct (template name) as [t|]; [|discriminate]. apply orb_prop in H. destruct H as [H|H].
      * left. destruct (eval_pos t) as [pos|] eqn:EPo; [|discriminate]. exists t, pos. split; [reflexivity|]. split; [exact EPo|].
        intros a Ha. rewrite Ha in H. apply staged_okb_sound. exact H.
      * right. exists t. auto.
Qed.

Lemma class_checkw_from fs path E : forall l s, class_checkw (rel_fs fs path) E s l = true ->
  forall pre e post s0, l = pre ++ e :: post -> pass1 (rel_fs fs path) s pre = Some s0 -> stmt_okx fs (rel_fs fs path) path E (p_env s0) e.
Proof.
  induction l as [|e0 r IH]; intros s H pre e post s0 Hl Hp; [destruct pre; discriminate|].
  cbn [class_checkw] in H. apply andb_prop in H. destruct H as (H0 & H). destruct pre as [|e1 pre].
  - cbn [app] in Hl. inversion Hl; subst. cbn [pass1] in Hp. inversion Hp; subst. apply stmt_okbw_sound. exact H0.
  - cbn [app] in Hl. inversion Hl; subst e1 r. cbn [pass1] in Hp.
    destruct (pass1_step (rel_fs fs path) s e0) as [s'|]; [|discriminate]. exact (IH s' H pre e post s0 eq_refl Hp).
Qed.

Theorem class_checkw_sound fs path E prog : class_checkw (rel_fs fs path) E (mkP1 None [] []) prog = true -> C05_class_vw fs path E prog.
Proof. intros H pre e post s0. apply (class_checkw_from fs path E prog _ H). Qed.
