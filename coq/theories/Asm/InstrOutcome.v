(* C04 / C13: CtxModel.step on an instruction statement IS InstrOutcomeSpec.instr_step (from a state that satisfies the
   segment invariant and whose active segment is s), and instr_step in terms of AsmPostChecks.stmt_outcome:
   Emits i hws -- exactly the little-endian bytes of hws are appended at the statement's address (or the capacity diagnostic);
   Rejects d   -- the diagnostic d at the statement's position; then either nothing more (unknown mnemonic, encoder refused:
                  result Fatal) or the placeholder (a converter refused: see InstrOutcomeSpec.placeholder);
   Defers c    -- the placeholder and the task, no diagnostic. *)
From Coq Require Import ZArith NArith PeanoNat List Bool Lia ZifyBool ZifyNat ZifyN.
From Trion Require Import Text.Types Arm.Instr Arm.EncodeModel Arm.AsmStmtModel Arm.AsmRejects Arm.AsmPostChecks
  Mem.MapModel Asm.CtxModel Asm.SegProofs Asm.SegPut Asm.InstrSize Asm.CtxInvDefs Asm.CtxInvSeg Asm.CtxInvStep Asm.CtxNoPanic Asm.InstrOutcomeSpec.
Import ListNotations.
Open Scope N_scope.
Local Notation len := MapModel.len.

Lemma enc_bytes_4 i : enc_bytes i 4 =
  match enc i with EncOk hws => EbOk (2 * N.of_nat (List.length hws)) (le_bytes hws) | EncUnrep => EbUnrep end.
Proof.
  unfold enc_bytes. destruct (enc i) as [hws|] eqn:E; [|reflexivity].
  pose proof (enc_size i hws E) as S. pose proof (isz_pos i) as [_ P].
  destruct (N.ltb_spec 4 (2 * N.of_nat (List.length hws))); [lia | reflexivity].
Qed.

Lemma inv_push_in st f l c k : Inv st -> Inv (push_error_in st f l c k).
Proof. intros H. exact H. Qed.

(* write_instr at the current address of the active segment *)
Lemma write_instr_place dbg st s file line col i a (deferred : bool) : Inv st -> active st = Active s -> blen s < s_max s ->
  write_instr dbg st (mkAI file line col (curr_addr s) i a) deferred =
  match enc i with
  | EncOk hws => place st s file line col (if deferred then padding (2 * N.of_nat (List.length hws)) else le_bytes hws)
  | EncUnrep => Ret (Some Fatal) (push_error_in st file line col (KInstr DEncode))
  end.
Proof.
  intros HI EA Hl. unfold write_instr. cbn [ai_instr ai_file ai_line ai_col ai_addr]. rewrite enc_bytes_4.
  destruct (enc i) as [hws|]; [|reflexivity]. unfold place.
  now rewrite (write_fresh dbg st s file line col _ KInstrSegOverflow KInstrSegWrite P_put_assert_instr HI EA Hl).
Qed.

Theorem step_instr dbg fs inc st s e name args :
  Inv st -> active st = Active s -> e_val e = EInstruction name args -> first_panic st args = None ->
  step dbg fs inc st e = instr_step st s (e_line e) (e_col e) name args.
Proof.
  intros HI EA EV FP. unfold step. rewrite EV, EA. unfold assemble_instr, instr_step. rewrite EA.
  pose proof HI as (HR & HA). rewrite EA in HA. rewrite (has_remaining_spec dbg _ _ 2 HA).
  destruct (2 <=? s_max s - blen s) eqn:Er; [|reflexivity].
  assert (Hl : blen s < s_max s) by lia.
  destruct (template name) as [t|]; [|reflexivity].
  unfold instr_assemble. cbn [ai_ast a_args ai_instr ai_addr ai_file ai_line ai_col]. rewrite FP.
  destruct (assemble_args (instr_ev st) true (curr_addr s) t (mkAst args 0)) as [i a|cause a|d a|]; cbn [CtxModel.bind]; [| | |reflexivity].
  - rewrite (write_instr_place dbg st s _ _ _ i a false HI EA Hl). reflexivity.
  - rewrite (write_instr_place dbg st s _ _ _ _ a true HI EA Hl). unfold placeholder. cbn [ai_instr].
    destruct (enc (partial_instr t a)); reflexivity.
  - rewrite (write_instr_place dbg _ s _ _ _ _ a true (inv_push_in st _ _ _ _ HI) EA Hl). unfold placeholder. cbn [ai_instr].
    destruct (enc (partial_instr t a)); reflexivity.
Qed.

(* a full segment: the capacity diagnostic, nothing else *)
Theorem step_instr_no_room dbg fs inc st s e name args :
  Inv st -> active st = Active s -> e_val e = EInstruction name args -> s_max s - blen s < 2 ->
  step dbg fs inc st e = Ret (Some Fatal) (push_error st (e_line e) (e_col e) KInstrSegOverflow).
Proof.
  intros HI EA EV Hr. unfold step. rewrite EV, EA. unfold assemble_instr. rewrite EA.
  pose proof HI as (HR & HA). rewrite EA in HA. rewrite (has_remaining_spec dbg _ _ 2 HA).
  destruct (2 <=? s_max s - blen s) eqn:Er; [lia | reflexivity].
Qed.

(* in terms of the statement's outcome.  ev_ok st: the constant table of the current realm exists (true while a file is being
   assembled and at top level: CtxNoPanic.infile_ev_ok, top_ev_ok) -- then no evaluation panics (C08) *)
Theorem outcome_is_context dbg fs inc st s e name args :
  Inv st -> ev_ok st -> active st = Active s -> e_val e = EInstruction name args -> 2 <= s_max s - blen s ->
  let file := curr_name st in let line := e_line e in let col := e_col e in let addr := curr_addr s in
  match stmt_outcome (instr_ev st) true addr name args with
  | Emits i hws => step dbg fs inc st e = place st s file line col (le_bytes hws)
  | Rejects d =>
      let st1 := push_error_in st file line col (KInstr d) in
      ((template name = None \/ exists i a, assemble_stmt (instr_ev st) true addr name args = COk i a) /\
       step dbg fs inc st e = Ret (Some Fatal) st1)
      \/ exists t a, template name = Some t /\ assemble_args (instr_ev st) true addr t (mkAst args 0) = CDiag d a /\
           step dbg fs inc st e = placeholder st1 s file line col (mkAI file line col addr (partial_instr t a) a)
  | Defers c => exists t a, template name = Some t /\ assemble_args (instr_ev st) true addr t (mkAst args 0) = CDefer c a /\
           step dbg fs inc st e = placeholder st s file line col (mkAI file line col addr (partial_instr t a) a)
  | Panics => False
  end.
Proof.
  intros HI EO EA EV Hr file line col addr. subst file line col addr. pose proof (first_panic_none st args EO) as FP.
  rewrite (step_instr dbg fs inc st s e name args HI EA EV FP). unfold instr_step, stmt_outcome, assemble_stmt.
  destruct (2 <=? s_max s - blen s) eqn:Er; [|lia].
  destruct (template name) as [t|] eqn:T.
  - pose proof (asm_no_panic (instr_ev st) true (curr_addr s) t args) as NP.
    destruct (assemble_args (instr_ev st) true (curr_addr s) t (mkAst args 0)) as [i a|c a|d a|] eqn:A.
    + destruct (enc i) as [hws|]; [reflexivity|]. left. split; [right; exists i, a; reflexivity | reflexivity].
    + exists t, a. split; [reflexivity | split; [exact A | reflexivity]].
    + right. exists t, a. split; [reflexivity | split; [exact A | reflexivity]].
    + now apply NP.
  - left. split; [left; reflexivity | reflexivity].
Qed.
