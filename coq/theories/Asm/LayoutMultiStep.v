(* C05 for projects, part 4: one statement (not an `.include`) of an open file keeps the invariant FInv (Asm/LayoutMulti.v):
   if the reference's step xstep is defined, the statement is in the class (stmt_cls) and its bytes fall on free addresses
   (fresh_x), the context's step returns Ok without a diagnostic and the invariant holds again.  Forward direction only:
   the context's result is computed explicitly (cf. LayoutProg.v) and the invariant re-established (cf. LayoutStep.v). *)
From Coq Require Import ZArith NArith PeanoNat List Bool Lia ZifyBool ZifyNat ZifyN String.
From Trion Require Import Text.Types Expr.I64 Expr.EvalModel Expr.Denote Expr.C08Sound Arm.Instr Arm.DisplayModel Arm.AsmStmtModel Arm.EncodeModel
  Mem.MapModel Mem.DictSpec Mem.MapProofs Mem.MapLemmas Mem.MapOccupied
  Asm.CtxModel Asm.SegProofs Asm.SegPut Asm.LayoutSpec Asm.LayoutWf Asm.LayoutEval Asm.LayoutEvalC Asm.LayoutInstr Asm.LayoutInstrC Asm.LayoutInstrD
  Asm.LayoutDict Asm.ScopeProofs Asm.LayoutProofs Asm.LayoutSim Asm.LayoutStage Asm.Ctx06Proofs Asm.CtxNoPanic Asm.CtxInvCap Asm.LayoutStep Asm.LayoutFinal
  Asm.LayoutProg Asm.LayoutProgFinal.
From Trion Require Import Asm.LayoutMultiInstr.
From Trion Require Import Asm.LayoutSpecExt Asm.LayoutMulti Asm.LayoutMultiEval Asm.LayoutMultiMem Asm.LayoutMultiSpec.
Import ListNotations.
Open Scope N_scope.

Ltac dh := solve [discriminate | match goal with H : _ = _ |- _ => discriminate H end].

(* ------------------------------------------------------------------ small facts *)
Lemma tbls_set tbl e n b : TblS tbl e -> TblS (tbl_set tbl n (match b with BVal v => Some v | _ => None end)) ((n, b) :: e).
Proof.
  intros T m. rewrite ScopeProofs.tbl_get_set. cbn [sget]. change (AsmStmtModel.str_eqb n m) with (CtxModel.str_eqb n m).
  destruct (CtxModel.str_eqb n m); [destruct b; reflexivity|apply T].
Qed.

Lemma tbls_get_val tbl e n v : TblS tbl e -> sget e n = Some (BVal v) -> tbl_get tbl n = Some (Some v).
Proof. intros T H. rewrite (T n), H. reflexivity. Qed.
Lemma tbls_get_none tbl e n : TblS tbl e -> sget e n = None -> tbl_get tbl n = None.
Proof. intros T H. rewrite (T n), H. reflexivity. Qed.
Lemma tbls_get_decl tbl e n : TblS tbl e -> sget e n = Some BDecl -> tbl_get tbl n = Some None.
Proof. intros T H. rewrite (T n), H. reflexivity. Qed.

(* a pending task without bytes *)
Lemma memI_add0 st cur G pd t : MemI st cur G pd -> task_size t = 0 -> MemI st cur G ((t, []) :: pd).
Proof.
  intros [R C Er A D L P W T] Hz. constructor; auto.
  - constructor; [|exact L]. unfold ploc. cbn [fst]. right. intros x (H1 & H2). rewrite Hz in H2. lia.
  - constructor; [|exact P]. unfold patb. cbn [fst snd]. split; [|exact Hz]. intros x H1 H2. cbn in H2. lia.
  - intros x Hx. apply W. intros tb Hi. apply Hx. now right.
Qed.

Lemma gdx_fresh EF items x : ~ covered (flat_items items) x -> d_get (gdx EF items) x = None.
Proof. intros H. destruct (d_get (gdx EF items) x) eqn:Dg; [|reflexivity]. exfalso. apply H. apply (gdx_covered EF). congruence. Qed.

Lemma dname_lit name lit : dname name lit = true -> name = bytes_of_string lit.
Proof. unfold dname. intros H. apply ScopeProofs.str_eqb_eq in H. exact H. Qed.

Lemma globs_app a b : globs (a ++ b) = globs a ++ globs b.
Proof. unfold globs. apply flat_map_app. Qed.

Section Step.
  Variables (dbg : bool) (fs fsr : str -> option (list N)) (inc : state -> list N -> str -> res result) (EF : N -> env).

  (* the states after one statement: the context's and the reference's *)
  Definition stepped (path : str) (open : list str) (x' : px) (anc : list pend) (gts : list task) (r : res result) : Prop :=
    exists st' own' f' p', r = Ret None st' /\ FInv EF path open f' p' x' st' own' anc gts.

  (* what is known of the reference's state after the step (from the end of the file, by monotonicity) *)
  Definition future (x' : px) : Prop :=
    (forall f' p' rest, x_stack x' = f' :: p' :: rest -> env_le (vals (f_env f')) (EF (f_id f'))) /\
    (forall a id it, In (a, (id, it)) (x_items x') -> pass2_item (EF id) a it <> None).

  (* ---------------- a new value in the file's own table: label, .const, .import ---------------- *)
  Lemma define_inv path open f p x st own anc gts n v tbl st' :
    FInv EF path open f p x st own anc gts -> locals st = Some tbl ->
    AsmStmtModel.is_register n = false -> sget (f_env f) n = None \/ sget (f_env f) n = Some BDecl ->
    st' = set_locals st (Some (tbl_set tbl n (Some v))) ->
    forall x', x' = set_stack x (set_env f ((n, BVal v) :: f_env f) :: p :: tl (tl (x_stack x))) -> future x' ->
    FInv EF path open (set_env f ((n, BVal v) :: f_env f)) p x' st' own anc gts.
  Proof.
    intros [(rest & ES) M (tbl0 & EL & TS) TG EP ELT EGT OWN GL (WF & WP) ENV] EL' Rg Hs -> x' -> (FE & _).
    rewrite EL in EL'. inversion EL'; subst tbl0. rewrite ES in *. cbn [tl] in *.
    pose proof (FE (set_env f ((n, BVal v) :: f_env f)) p rest eq_refl) as FE'.
    constructor; cbn [x_stack set_stack x_cur x_items set_env f_env f_id f_glob]; auto.
    - eexists; reflexivity.
    - eapply memI_transport; [|exact M]. repeat split.
    - eexists. split; [reflexivity|]. apply (tbls_set tbl (f_env f) n (BVal v)). exact TS.
    - split; [|exact WP]. cbn [swf]. repeat split; auto. discriminate.
  Qed.

  Lemma label_ok path open f p x st own anc gts line col name x' :
    FInv EF path open f p x st own anc gts ->
    xstep fsr x (ELabel name) = Some x' -> future x' ->
    stepped path open x' anc gts (step dbg fs inc st (mkElement line col (ELabel name))).
  Proof.
    intros H HX HF. pose proof H as [(rest & ES) M (tbl & EL & TS) TG EP ELT EGT OWN GL (WF & WP) ENV].
    cbn [xstep] in HX. destruct (x_cur x) as [a|] eqn:EC; [|dh]. destruct (a <? 4294967296) eqn:La; [|dh].
    unfold xdefine in HX. rewrite ES in HX. destruct (AsmStmtModel.is_register name) eqn:Rg; [dh|].
    assert (Hs : sget (f_env f) name = None \/ sget (f_env f) name = Some BDecl).
    { destruct (sget (f_env f) name) as [[| |]|]; try dh; auto. }
    assert (HX' : x' = set_stack x (set_env f ((name, BVal (Z.of_N a)) :: f_env f) :: p :: rest)).
    { destruct Hs as [E|E]; rewrite E in HX; inversion HX; reflexivity. }
    clear HX. pose proof M as [R C Er A D L P W T]. destruct C as (sg & EA & HI & Ea).
    unfold step. cbn [e_val e_line e_col]. rewrite EA.
    unfold insert_constant. change (CtxModel.is_register name) with (AsmStmtModel.is_register name). rewrite Rg.
    cbn [realm_table]. rewrite EL.
    rewrite (curr_addr_lt _ _ HI) by (unfold CtxSeg.U32, MapModel.U32; lia). rewrite <- Ea.
    exists (set_locals st (Some (tbl_set tbl name (Some (Z.of_N a))))), own, (set_env f ((name, BVal (Z.of_N a)) :: f_env f)), p.
    split.
    - destruct Hs as [E|E]; [rewrite (tbls_get_none _ _ _ TS E)|rewrite (tbls_get_decl _ _ _ TS E)]; reflexivity.
    - eapply define_inv; eauto. rewrite ES. exact HX'.
  Qed.

  Lemma const_ok path open f p x st own anc gts line col args x' :
    FInv EF path open f p x st own anc gts ->
    (match args, x_stack x with
     | [AIdent n; a], f :: _ => match den64 (rho (vals (f_env f))) a with Some v => xdefine x n v | None => None end
     | _, _ => None
     end) = Some x' ->
    (forall a, In a (tl args) -> clean (f_env f) a) -> future x' ->
    stepped path open x' anc gts (dir_const st line col args).
  Proof.
    intros H HX HC HF. pose proof H as [(rest & ES) M (tbl & EL & TS) TG EP ELT EGT OWN GL (WF & WP) ENV].
    rewrite ES in HX. destruct args as [|a0 [|a1 [|a2 r]]]; try dh; destruct a0; try dh.
    destruct (den64 (rho (vals (f_env f))) a1) as [w|] eqn:Dn; [|dh].
    unfold xdefine in HX. rewrite ES in HX. destruct (AsmStmtModel.is_register s) eqn:Rg; [dh|].
    assert (Hs : sget (f_env f) s = None \/ sget (f_env f) s = Some BDecl).
    { destruct (sget (f_env f) s) as [[| |]|]; try dh; auto. }
    assert (HX' : x' = set_stack x (set_env f ((s, BVal w) :: f_env f) :: p :: rest)).
    { destruct Hs as [E|E]; rewrite E in HX; inversion HX; reflexivity. }
    clear HX. unfold dir_const. cbn [arity_check List.length Nat.eqb].
    rewrite (eval_now_clean st tbl (f_env f) path open EL EP TS WF line col a1 w (HC a1 (or_introl eq_refl)) Dn). cbn [CtxModel.bind].
    unfold insert_constant. change (CtxModel.is_register s) with (AsmStmtModel.is_register s). rewrite Rg.
    cbn [realm_table]. rewrite EL.
    exists (set_locals st (Some (tbl_set tbl s (Some w)))), own, (set_env f ((s, BVal w) :: f_env f)), p.
    split.
    - destruct Hs as [E|E]; [rewrite (tbls_get_none _ _ _ TS E)|rewrite (tbls_get_decl _ _ _ TS E)]; reflexivity.
    - eapply define_inv; eauto. rewrite ES. exact HX'.
  Qed.

  (* .import of a name the includer has valued *)
  Lemma import_ok path open f p x st own anc gts line col n x' :
    FInv EF path open f p x st own anc gts ->
    ximport x n = Some x' -> (exists v, sget (f_env p) n = Some (BVal v)) -> future x' ->
    stepped path open x' anc gts (dir_global st line col DImport [AIdent n]).
  Proof.
    intros H HX (v & Hp) HF. pose proof H as [(rest & ES) M (tbl & EL & TS) TG EP ELT EGT OWN GL (WF & WP) ENV].
    unfold ximport in HX. rewrite ES in HX. destruct (AsmStmtModel.is_register n) eqn:Rg; [dh|].
    destruct (sget (f_env f) n) eqn:Sf; [dh|]. rewrite Hp in HX. inversion HX as [HX']. clear HX.
    unfold dir_global. cbn [arity_check List.length Nat.eqb]. cbv iota beta. unfold get_constant. cbn [realm_table].
    unfold lookup_of. rewrite (tbls_get_val _ _ _ _ TG Hp).
    unfold insert_constant. change (CtxModel.is_register n) with (AsmStmtModel.is_register n). rewrite Rg.
    cbn [realm_table]. rewrite EL, (tbls_get_none _ _ _ TS Sf). cbn [CtxModel.bind set_realm_table].
    exists (set_locals st (Some (tbl_set tbl n (Some v)))), own, (set_env f ((n, BVal v) :: f_env f)), p.
    split; [reflexivity|]. apply (define_inv path open f p x st own anc gts n v tbl _ H EL Rg (or_introl Sf) eq_refl); [|rewrite HX'; exact HF].
    rewrite ES. reflexivity.
  Qed.

  (* ---------------- a new entry in the includer's table: .export, .global of a valued name ---------------- *)
  Lemma hand_inv path open f p x st own anc gts n v st' g' :
    FInv EF path open f p x st own anc gts ->
    AsmStmtModel.is_register n = false -> sget (f_env p) n = None \/ sget (f_env p) n = Some BDecl ->
    TblS g' ((n, BVal v) :: f_env p) -> st' = set_globals st g' ->
    forall x', x' = set_stack x (f :: set_env p ((n, BVal v) :: f_env p) :: tl (tl (x_stack x))) ->
    FInv EF path open f (set_env p ((n, BVal v) :: f_env p)) x' st' own anc gts.
  Proof.
    intros [(rest & ES) M (tbl0 & EL & TS) TG EP ELT EGT OWN GL (WF & WP) ENV] Rg Hs TG' -> x' ->.
    rewrite ES. cbn [tl].
    constructor; cbn [x_stack set_stack x_cur x_items set_env f_env f_id f_glob]; auto.
    - eexists; reflexivity.
    - eapply memI_transport; [|exact M]. repeat split.
    - eexists. split; [exact EL|exact TS].
    - split; [exact WF|]. cbn [swf]. repeat split; auto. discriminate.
  Qed.

  Lemma export_ok path open f p x st own anc gts line col n x' :
    FInv EF path open f p x st own anc gts ->
    xexport x n = Some x' ->
    stepped path open x' anc gts (dir_global st line col DExport [AIdent n]).
  Proof.
    intros H HX. pose proof H as [(rest & ES) M (tbl & EL & TS) TG EP ELT EGT OWN GL (WF & WP) ENV].
    unfold xexport in HX. rewrite ES in HX. destruct (sget (f_env f) n) as [[v| |]|] eqn:Sf; try dh.
    assert (Hs : sget (f_env p) n = None \/ sget (f_env p) n = Some BDecl).
    { destruct (sget (f_env p) n) as [[| |]|]; try dh; auto. }
    assert (HX' : x' = set_stack x (f :: set_env p ((n, BVal v) :: f_env p) :: rest)).
    { destruct Hs as [E|E]; rewrite E in HX; inversion HX; reflexivity. }
    clear HX. pose proof (sget_not_reg _ _ _ WF Sf) as Rg.
    unfold dir_global. cbn [arity_check List.length Nat.eqb]. cbv iota beta. unfold get_constant. cbn [realm_table]. rewrite EL.
    unfold lookup_of. rewrite (tbls_get_val _ _ _ _ TS Sf).
    unfold insert_constant. change (CtxModel.is_register n) with (AsmStmtModel.is_register n). rewrite Rg. cbn [realm_table].
    exists (set_globals st (tbl_set (globals st) n (Some v))), own, f, (set_env p ((n, BVal v) :: f_env p)).
    split.
    - destruct Hs as [E|E]; [rewrite (tbls_get_none _ _ _ TG E)|rewrite (tbls_get_decl _ _ _ TG E)]; reflexivity.
    - eapply hand_inv; eauto; [apply (tbls_set (globals st) (f_env p) n (BVal v)); exact TG|rewrite ES; exact HX'].
  Qed.

  Lemma tbl_set_set t n v w : forall m, tbl_get (tbl_set (tbl_set t n v) n w) m = tbl_get (tbl_set t n w) m.
  Proof. intros m. rewrite !ScopeProofs.tbl_get_set. destruct (CtxModel.str_eqb n m); reflexivity. Qed.

  (* .global: the name has a value already (handed up at once), or it is declared in both tables and handed up at the end *)
  Lemma global_ok path open f p x st own anc gts line col n x' :
    FInv EF path open f p x st own anc gts ->
    xglobal x n = Some x' -> future x' ->
    stepped path open x' anc gts (dir_global st line col DGlobal [AIdent n]).
  Proof.
    intros H HX HF. pose proof H as [(rest & ES) M (tbl & EL & TS) TG EP ELT EGT OWN GL (WF & WP) ENV].
    unfold xglobal in HX. rewrite ES in HX. destruct (AsmStmtModel.is_register n) eqn:Rg; [dh|].
    destruct (sget (f_env p) n) eqn:Sp; [dh|].
    unfold dir_global. cbn [arity_check List.length Nat.eqb]. cbv iota beta.
    unfold defer_constant. change (CtxModel.is_register n) with (AsmStmtModel.is_register n). rewrite Rg. cbn [realm_table].
    rewrite (tbls_get_none _ _ _ TG Sp). cbn [CtxModel.bind set_realm_table].
    unfold get_constant. cbn [realm_table locals set_globals]. rewrite EL. unfold lookup_of.
    destruct (sget (f_env f) n) as [[v| |]|] eqn:Sf; try dh.
    - (* valued: copied now *)
      inversion HX as [HX']. clear HX. rewrite (tbls_get_val _ _ _ _ TS Sf).
      unfold insert_constant. change (CtxModel.is_register n) with (AsmStmtModel.is_register n). rewrite Rg.
      cbn [realm_table globals set_globals]. rewrite ScopeProofs.tbl_get_set, str_eqb_refl. cbn [CtxModel.bind set_realm_table].
      eexists _, own, f, (set_env p ((n, BVal v) :: f_env p)). split; [reflexivity|].
      eapply (hand_inv path open f p x st own anc gts n v _ (tbl_set (tbl_set (globals st) n None) n (Some v))); eauto.
      + intros m. rewrite tbl_set_set. apply (tbls_set (globals st) (f_env p) n (BVal v)). exact TG.
      + rewrite ES. reflexivity.
    - (* not yet: declared in both tables, a task hands the value up at the end of the file *)
      inversion HX as [HX']. clear HX. rewrite (tbls_get_none _ _ _ TS Sf). cbn [CtxModel.bind].
      unfold add_task. cbn [local_tasks set_locals set_globals]. rewrite ELT. cbn [CtxModel.bind].
      eexists _, (own ++ [(GlobalTask n line col, [])]), (LayoutSpecExt.mkFrame (f_id f) ((n, BDecl) :: f_env f) (n :: f_glob f)),
        (set_env p ((n, BDecl) :: f_env p)).
      split; [reflexivity|].
      constructor; cbn [x_stack set_stack x_cur x_items set_env f_env f_id f_glob]; auto.
      + eexists; reflexivity.
      + apply (memI_perm _ _ _ ((GlobalTask n line col, []) :: own ++ anc)).
        { intros tb. rewrite <- app_assoc. cbn [In]. rewrite !in_app_iff. cbn [In]. tauto. }
        apply memI_add0; [|reflexivity]. eapply memI_transport; [|exact M]. repeat split.
      + eexists. split; [reflexivity|]. apply (tbls_set tbl (f_env f) n BDecl). exact TS.
      + apply (tbls_set (globals st) (f_env p) n BDecl). exact TG.
      + cbn [local_tasks set_local_tasks]. rewrite map_app. reflexivity.
      + apply Forall_app. split; [exact OWN|]. constructor; [reflexivity|constructor].
      + rewrite globs_app, GL. reflexivity.
      + split; cbn [swf]; repeat split; auto; discriminate.
  Qed.

  (* ---------------- statements that do not touch the tables: the reference's step is LayoutSpec.pass1_step (xplain) ---------------- *)
  Definition xp (x : px) (f : LayoutSpecExt.frame) (s : p1) : px :=
    mkPx (p_cur s) (x_stack x) (x_next x) (x_done x) (map (fun ai => (fst ai, (f_id f, snd ai))) (p_items s) ++ x_items x).

  Definition no_global (tb : pend) : Prop := forall n l c, fst tb <> GlobalTask n l c.

  Lemma plain_inv path open f p x st own anc gts st' cur' items' own' :
    FInv EF path open f p x st own anc gts ->
    locals st' = locals st -> globals st' = globals st -> path_stack st' = path_stack st -> global_tasks st' = global_tasks st ->
    local_tasks st' = Some (map fst own') ->
    own' = own \/ (exists tb, own' = own ++ [tb] /\ no_global tb /\ PendE (EF (f_id f)) tb) ->
    MemI st' cur' (gdx EF items') (own' ++ anc) ->
    FInv EF path open f p (mkPx cur' (x_stack x) (x_next x) (x_done x) items') st' own' anc gts.
  Proof.
    intros [(rest & ES) M (tbl & EL & TS) TG EP ELT EGT OWN GL (WF & WP) ENV] E1 E2 E3 E4 E5 Hown M'.
    constructor; cbn [x_stack x_cur x_items]; auto.
    - eexists; exact ES.
    - exists tbl. split; [congruence|exact TS].
    - rewrite E2. exact TG.
    - congruence.
    - congruence.
    - destruct Hown as [->|(tb & -> & _ & PE)]; [exact OWN|]. apply Forall_app. split; [exact OWN|]. constructor; [exact PE|constructor].
    - destruct Hown as [->|(tb & -> & NG & _)]; [exact GL|]. rewrite globs_app, GL.
      destruct tb as [t bs]. unfold no_global in NG. cbn [fst] in NG. destruct t; try (apply app_nil_r). exfalso. exact (NG name line col eq_refl).
  Qed.

  (* ---------------- .addr ---------------- *)
  Lemma addr_ok path open f p x st own anc gts line col args s' :
    FInv EF path open f p x st own anc gts ->
    (match args with
     | [a] => match den64 (rho (vals (f_env f))) a with
              | Some v => match u32z v with Some t => Some (mkP1 (Some t) (vals (f_env f)) []) | None => None end
              | None => None end
     | _ => None end) = Some s' ->
    (forall a, In a args -> clean (f_env f) a) ->
    (forall c, p_cur s' = Some c -> ~ covered (flat_items (x_items x)) c) ->
    stepped path open (xp x f s') anc gts (dir_addr dbg st line col args).
  Proof.
    intros H HP HC HF. pose proof H as [(rest & ES) M (tbl & EL & TS) TG EP ELT EGT OWN GL (WF & WP) ENV].
    destruct args as [|a [|a2 r]]; try dh.
    destruct (den64 (rho (vals (f_env f))) a) as [w|] eqn:Dn; [|dh]. destruct (u32z w) as [t|] eqn:U; [|dh].
    inversion HP; subst s'. cbn [p_cur] in HF. specialize (HF t eq_refl).
    unfold dir_addr. cbn [arity_check List.length Nat.eqb].
    rewrite (eval_now_clean st tbl (f_env f) path open EL EP TS WF line col a w (HC a (or_introl eq_refl)) Dn). cbn [CtxModel.bind].
    rewrite u32_of_u32z, U.
    destruct (memI_switch dbg st (x_cur x) _ _ t M (u32z_lt _ _ U) (gdx_fresh EF _ _ HF)) as (c & st2 & CS & M2 & (S1 & S2 & S3 & S4 & S5 & S6)).
    rewrite CS. cbn [CtxModel.bind].
    exists st2, own, f, p. split; [reflexivity|]. unfold xp. cbn [p_cur p_items map app].
    apply (plain_inv path open f p x st own anc gts st2 (Some t) (x_items x) own H); auto; congruence.
  Qed.

  (* ---------------- .align ---------------- *)
  Lemma align_ok path open f p x st own anc gts line col args s' :
    FInv EF path open f p x st own anc gts ->
    (match args, x_cur x with
     | [a], Some c =>
         match den64 (rho (vals (f_env f))) a with
         | Some v => match u32z v with
                     | Some (Npos k) => if c <? 0x100000000 then place (mkP1 (x_cur x) (vals (f_env f)) []) ((Npos k - c mod Npos k) mod Npos k) (IPad ((Npos k - c mod Npos k) mod Npos k)) else None
                     | _ => None
                     end
         | None => None
         end
     | _, _ => None end) = Some s' ->
    (forall a, In a args -> clean (f_env f) a) ->
    (forall a idit y, x_items (xp x f s') = (a, idit) :: x_items x -> a <= y -> y < a + item_size (snd idit) -> ~ covered (flat_items (x_items x)) y) ->
    stepped path open (xp x f s') anc gts (dir_align dbg st line col args).
  Proof.
    intros H HP HC HF. pose proof H as [(rest & ES) M (tbl & EL & TS) TG EP ELT EGT OWN GL (WF & WP) ENV].
    destruct args as [|a [|a2 r]]; try dh. destruct (x_cur x) as [c|] eqn:EC; [|dh].
    destruct (den64 (rho (vals (f_env f))) a) as [w|] eqn:Dn; [|dh]. destruct (u32z w) as [[|k]|] eqn:U; try dh.
    destruct (c <? 4294967296) eqn:Lc; [|dh].
    set (sz := (N.pos k - c mod N.pos k) mod N.pos k) in *.
    unfold place in HP. cbn [p_cur p_env p_items] in HP. destruct (c + sz <=? 4294967296) eqn:Lp; [|dh].
    inversion HP; subst s'. unfold xp in *. cbn [p_cur p_items map app fst snd x_items] in *.
    assert (HF' : forall y, c <= y -> y < c + sz -> d_get (gdx EF (x_items x)) y = None).
    { intros y Y1 Y2. apply gdx_fresh. apply (HF c (f_id f, IPad sz) y eq_refl Y1). cbn [snd item_size]. exact Y2. }
    pose proof M as [R C Er A D L P W T]. destruct C as (sg & EA & HI & Ea).
    unfold dir_align. rewrite EA. cbn [arity_check List.length Nat.eqb].
    rewrite (eval_now_clean st tbl (f_env f) path open EL EP TS WF line col a w (HC a (or_introl eq_refl)) Dn). cbn [CtxModel.bind].
    rewrite u32_of_u32z, U. cbv zeta.
    rewrite (curr_addr_lt _ _ HI) by (unfold CtxSeg.U32, MapModel.U32; lia). rewrite <- Ea.
    assert (Hm : c mod N.pos k < N.pos k) by (apply N.mod_lt; discriminate).
    destruct (c mod N.pos k =? 0) eqn:Z0.
    - assert (Hz : sz = 0) by (unfold sz; replace (c mod N.pos k) with 0 by lia; rewrite N.sub_0_r; apply N.mod_same; discriminate).
      exists st, own, f, p. split; [reflexivity|].
      apply (plain_inv path open f p x st own anc gts st (Some (c + sz)) ((c, (f_id f, IPad sz)) :: x_items x) own H); auto.
      cbn [gdx pass2_item]. rewrite Hz. cbn [N.to_nat repeat d_write]. rewrite N.add_0_r. exact M.
    - assert (Hsz : sz = N.pos k - c mod N.pos k) by (unfold sz; apply N.mod_small; lia).
      rewrite <- Hsz. rewrite (has_remaining_ok dbg _ _ _ HI).
      pose proof (memI_cap st c _ _ sg sz M EA ltac:(lia) HF') as Hcap.
      destruct (sz <=? s_max sg - blen sg) eqn:Lr; [|destruct HI; lia].
      destruct (write_ok dbg (output st) sg (padding sz) HI) as (WO & _); [rewrite len_padding; exact Hcap|].
      rewrite WO. cbn [seg_update].
      eexists _, own, f, p. split; [reflexivity|].
      apply (plain_inv path open f p x st own anc gts _ (Some (c + sz)) ((c, (f_id f, IPad sz)) :: x_items x) own H); auto.
      cbn [gdx pass2_item].
      pose proof (memI_append st c _ _ sg (padding sz) (repeat 190 (N.to_nat sz)) None M EA) as SA.
      rewrite len_padding in SA. apply SA.
      + exact Hcap.
      + unfold mlen. rewrite repeat_length. lia.
      + unfold padding. apply repeatN_repeat.
  Qed.

  (* ---------------- .dstr / .dhex ---------------- *)
  Lemma bytes_ok path open f p x st own anc gts line col d args s' :
    FInv EF path open f p x st own anc gts ->
    (d = DStr /\ (match args with [AStr v] => place (mkP1 (x_cur x) (vals (f_env f)) []) (N.of_nat (List.length v)) (IBytes v) | _ => None end) = Some s') \/
    (d = DHex /\ (match args with
                  | [AStr v] => match hex_pairs v None with Some b => place (mkP1 (x_cur x) (vals (f_env f)) []) (N.of_nat (List.length b)) (IBytes b) | None => None end
                  | _ => None end) = Some s') ->
    (forall a idit y, x_items (xp x f s') = (a, idit) :: x_items x -> a <= y -> y < a + item_size (snd idit) -> ~ covered (flat_items (x_items x)) y) ->
    stepped path open (xp x f s') anc gts (dir_bytes dbg fs st line col d args).
  Proof.
    intros H Hd HF. pose proof H as [(rest & ES) M (tbl & EL & TS) TG EP ELT EGT OWN GL (WF & WP) ENV].
    assert (exists s b, args = [AStr s] /\ place (mkP1 (x_cur x) (vals (f_env f)) []) (N.of_nat (List.length b)) (IBytes b) = Some s' /\
              ((d = DStr /\ b = s) \/ (d = DHex /\ hex_pairs s None = Some b))) as (s & b & -> & HP1 & Hb).
    { destruct Hd as [(-> & HP1)|(-> & HP1)]; (destruct args as [|a [|a2 r]]; try dh; destruct a; try dh).
      - exists s, s. auto.
      - destruct (hex_pairs s None) as [b|] eqn:Hx; [|dh]. exists s, b. auto. }
    unfold place in HP1. cbn [p_cur p_env p_items] in HP1.
    destruct (x_cur x) as [c|] eqn:EC; [|dh]. destruct (c + N.of_nat (List.length b) <=? 4294967296) eqn:Lp; [|dh].
    inversion HP1; subst s'. unfold xp in *. cbn [p_cur p_items map app fst snd x_items] in *.
    assert (HF' : forall y, c <= y -> y < c + mlen b -> d_get (gdx EF (x_items x)) y = None).
    { intros y Y1 Y2. apply gdx_fresh. apply (HF c (f_id f, IBytes b) y eq_refl Y1). cbn [snd item_size]. exact Y2. }
    pose proof M as [R C Er A D L P W T]. destruct C as (sg & EA & HI & Ea).
    pose proof (memI_cap st c _ _ sg (mlen b) M EA ltac:(unfold mlen; lia) HF') as Hcap.
    destruct (write_ok dbg (output st) sg b HI Hcap) as (WO & _).
    unfold dir_bytes. rewrite EA. cbn [arity_check List.length Nat.eqb].
    assert (ACC : stepped path open (mkPx (Some (c + N.of_nat (List.length b))) (x_stack x) (x_next x) (x_done x) ((c, (f_id f, IBytes b)) :: x_items x)) anc gts
                    (seg_update st line col (seg_write dbg sg b))).
    { rewrite WO. cbn [seg_update]. eexists _, own, f, p. split; [reflexivity|].
      apply (plain_inv path open f p x st own anc gts _ (Some (c + N.of_nat (List.length b))) ((c, (f_id f, IBytes b)) :: x_items x) own H); auto.
      cbn [gdx pass2_item]. apply (memI_append st c _ _ sg b b None M EA Hcap eq_refl eq_refl). }
    destruct Hb as [(-> & ->)|(-> & Hx)]; [exact ACC|].
    destruct (hex_decode_pairs s []) as (I1 & _). rewrite (I1 _ Hx). cbn [rev app]. exact ACC.
  Qed.

  (* ---------------- .dfile ---------------- *)
  Lemma file_ok path open f p x st own anc gts line col args s' :
    FInv EF path open f p x st own anc gts ->
    (forall v, args = [AStr v] -> fsr v = fs (resolve_path path v)) ->
    (match args with
     | [AStr v] => match fsr v with Some b => place (mkP1 (x_cur x) (vals (f_env f)) []) (N.of_nat (List.length b)) (IBytes b) | None => None end
     | _ => None end) = Some s' ->
    (forall a idit y, x_items (xp x f s') = (a, idit) :: x_items x -> a <= y -> y < a + item_size (snd idit) -> ~ covered (flat_items (x_items x)) y) ->
    stepped path open (xp x f s') anc gts (dir_bytes dbg fs st line col DFile args).
  Proof.
    intros H HFs HP1 HF. pose proof H as [(rest & ES) M (tbl & EL & TS) TG EP ELT EGT OWN GL (WF & WP) ENV].
    destruct args as [|a [|a2 r]]; try dh; destruct a; try dh. rewrite (HFs s eq_refl) in HP1.
    destruct (fs (resolve_path path s)) as [b|] eqn:FS; [|dh].
    unfold place in HP1. cbn [p_cur p_env p_items] in HP1.
    destruct (x_cur x) as [c|] eqn:EC; [|dh]. destruct (c + N.of_nat (List.length b) <=? 4294967296) eqn:Lp; [|dh].
    inversion HP1; subst s'. unfold xp in *. cbn [p_cur p_items map app fst snd x_items] in *.
    assert (HF' : forall y, c <= y -> y < c + mlen b -> d_get (gdx EF (x_items x)) y = None).
    { intros y Y1 Y2. apply gdx_fresh. apply (HF c (f_id f, IBytes b) y eq_refl Y1). cbn [snd item_size]. exact Y2. }
    pose proof M as [R C Er A D L P W T]. destruct C as (sg & EA & HI & Ea).
    pose proof (memI_cap st c _ _ sg (mlen b) M EA ltac:(unfold mlen; lia) HF') as Hcap.
    unfold dir_bytes. rewrite EA. cbn [arity_check List.length Nat.eqb]. rewrite EP, FS.
    rewrite (has_remaining_ok dbg _ _ _ HI).
    destruct (CtxSeg.len b <=? s_max sg - blen sg) eqn:Lr; [|destruct HI; unfold CtxSeg.len in Lr; lia].
    rewrite (write_chunks_exact dbg _ _ sg HI); rewrite concat_chunks; [|exact Hcap].
    cbn [seg_update]. eexists _, own, f, p. split; [reflexivity|].
    apply (plain_inv path open f p x st own anc gts _ (Some (c + N.of_nat (List.length b))) ((c, (f_id f, IBytes b)) :: x_items x) own H); auto.
    cbn [gdx pass2_item]. apply (memI_append st c _ _ sg b b None M EA Hcap eq_refl eq_refl).
  Qed.

  (* a deferred statement: placeholder appended, task added to the file's own list *)
  Lemma defer_inv path open f p x st own anc gts sg c data bsF t it :
    FInv EF path open f p x st own anc gts -> x_cur x = Some c -> active st = Active sg ->
    blen sg + mlen data <= s_max sg -> mlen bsF = mlen data -> task_addr t = c -> task_size t = mlen data ->
    no_global (t, bsF) -> PendE (EF (f_id f)) (t, bsF) -> pass2_item (EF (f_id f)) c it = Some bsF ->
    FInv EF path open f p (mkPx (Some (c + mlen data)) (x_stack x) (x_next x) (x_done x) ((c, (f_id f, it)) :: x_items x))
         (set_local_tasks (set_active st (Active (set_buf sg (s_buf sg ++ data)))) (Some (map fst own ++ [t])))
         (own ++ [(t, bsF)]) anc gts.
  Proof.
    intros H EC EA Hcap Hlen Ta Ts NG PE P2. pose proof H as [(rest & ES) M (tbl & EL & TS) TG EP ELT EGT OWN GL (WF & WP) ENV].
    rewrite EC in M.
    apply (plain_inv path open f p x st own anc gts _ (Some (c + mlen data)) ((c, (f_id f, it)) :: x_items x) (own ++ [(t, bsF)]) H); auto.
    - cbn [local_tasks set_local_tasks]. rewrite map_app. reflexivity.
    - right. exists (t, bsF). auto.
    - cbn [gdx]. rewrite P2.
      apply (memI_transport (set_active st (Active (set_buf sg (s_buf sg ++ data))))); [repeat split|].
      apply (memI_perm _ _ _ ((t, bsF) :: own ++ anc)).
      { intros tb. rewrite <- app_assoc. cbn [In]. rewrite !in_app_iff. cbn [In]. tauto. }
      apply (memI_append st c _ _ sg data bsF (Some t) M EA Hcap Hlen). split; assumption.
  Qed.

  (* ---------------- .du8 / .du16 / .du32 ---------------- *)
  Lemma data_ok path open f p x st own anc gts line col k args s' :
    FInv EF path open f p x st own anc gts ->
    (match args with [a] => place (mkP1 (x_cur x) (vals (f_env f)) []) (dk_size k) (IData (dk_size k) a) | _ => None end) = Some s' ->
    (forall a, In a args -> clean (f_env f) a \/ bare_decl (f_env f) a) ->
    (forall a id it, In (a, (id, it)) (x_items (xp x f s')) -> pass2_item (EF id) a it <> None) ->
    (forall a idit y, x_items (xp x f s') = (a, idit) :: x_items x -> a <= y -> y < a + item_size (snd idit) -> ~ covered (flat_items (x_items x)) y) ->
    stepped path open (xp x f s') anc gts (dir_data dbg st line col k args).
  Proof.
    intros H HP1 HC H2 HF. pose proof H as [(rest & ES) M (tbl & EL & TS) TG EP ELT EGT OWN GL (WF & WP) ENV].
    destruct args as [|a [|a2 r]]; try dh. unfold place in HP1. cbn [p_cur p_env p_items] in HP1.
    destruct (x_cur x) as [c|] eqn:EC; [|dh]. destruct (c + dk_size k <=? 4294967296) eqn:Lp; [|dh].
    inversion HP1; subst s'. unfold xp in *. cbn [p_cur p_items map app fst snd x_items] in *.
    set (E := EF (f_id f)) in *.
    specialize (H2 c (f_id f) (IData (dk_size k) a) (or_introl eq_refl)). fold E in H2. cbn [pass2_item] in H2.
    destruct (den64 (rho E) a) as [w|] eqn:Dn; [|congruence]. rewrite dk_range in H2.
    destruct ((0 <=? w)%Z && (w <=? dk_max k)%Z) eqn:Rw; [|congruence]. clear H2.
    assert (P2 : pass2_item E c (IData (dk_size k) a) = Some (le_n (dk_size k) (Z.to_N w))).
    { cbn [pass2_item]. rewrite Dn, dk_range, Rw, <- le_n_le_bytes. reflexivity. }
    assert (HF' : forall y, c <= y -> y < c + dk_size k -> d_get (gdx EF (x_items x)) y = None).
    { intros y Y1 Y2. apply gdx_fresh. apply (HF c (f_id f, IData (dk_size k) a) y eq_refl Y1). cbn [snd item_size]. exact Y2. }
    pose proof M as [R C Er A D L P W T]. destruct C as (sg & EA & HI & Ea).
    assert (Hk : 0 < dk_size k) by (destruct k; cbn; lia).
    pose proof (memI_cap st c _ _ sg (dk_size k) M EA ltac:(lia) HF') as Hcap.
    unfold dir_data. rewrite EA. rewrite (has_remaining_ok dbg _ _ _ HI).
    destruct (dk_size k <=? s_max sg - blen sg) eqn:Lr; [|destruct HI; lia].
    cbn [arity_check List.length Nat.eqb].
    rewrite (curr_addr_exact _ _ HI) by lia. rewrite <- Ea.
    unfold data_apply. cbn [de_arg de_kind de_file de_line de_col].
    assert (WA : forall d0 data, de_addr d0 = c -> mlen data = dk_size k ->
              write_data dbg st d0 data = Ret None (set_active st (Active (set_buf sg (s_buf sg ++ data))))).
    { intros d0 data Ed Hl. unfold write_data. rewrite Ed, Ea, <- (curr_addr_exact _ _ HI) by lia.
      apply write_stmt_append; auto; rewrite Hl; lia. }
    set (stv := vst st (f_env f)).
    pose proof (vst_locals st (f_env f)) as ELv. pose proof (vst_path st (f_env f) path open EP) as EPv. pose proof (vst_tbl (f_env f)) as TEv.
    (* the tail of a deferred statement: placeholder, then the task that keeps the tree a' *)
    assert (DEFER : forall a', fwd (rho E) a a' -> den64 (rho E) a' <> None ->
              stepped path open (mkPx (Some (c + dk_size k)) (x_stack x) (x_next x) (x_done x) ((c, (f_id f, IData (dk_size k) a)) :: x_items x)) anc gts
                (CtxModel.bind (write_data dbg st (de_set_arg (mkDE k (curr_name st) line col c a) a') (padding (dk_size k)))
                   (fun w0 st2 => match w0 with
                                  | Some l => Ret (Some l) st2
                                  | None => CtxModel.bind (add_task st2 (DataTask (de_set_arg (mkDE k (curr_name st) line col c a) a') false) RLocal) (fun _ st3 => Ret None st3)
                                  end))).
    { intros a' F Dd. rewrite WA by (try reflexivity; apply len_padding). cbn [CtxModel.bind].
      unfold add_task. cbn [local_tasks set_active]. rewrite ELT. cbn [CtxModel.bind].
      eexists _, (own ++ [(DataTask (de_set_arg (mkDE k (curr_name st) line col c a) a') false, le_n (dk_size k) (Z.to_N w))]), f, p.
      split; [reflexivity|].
      pose proof (defer_inv path open f p x st own anc gts sg c (padding (dk_size k)) (le_n (dk_size k) (Z.to_N w))
                    (DataTask (de_set_arg (mkDE k (curr_name st) line col c a) a') false) (IData (dk_size k) a) H EC EA) as DI.
      rewrite len_padding in DI. apply DI; auto.
      + apply len_le_n'.
      + intros n l c0 Hn. discriminate Hn.
      + cbn [PendE fst snd de_set_arg de_arg de_kind]. exists a, w. fold E. repeat split; auto. }
    destruct (HC a (or_introl eq_refl)) as [HCa|(n & -> & Sg)].
    2:{ (* a bare declared name: deferred by the declaration *)
      rewrite (ctx_eval_decl st tbl (f_env f) path open n EL EP TS WF Sg). cbn [CtxModel.bind].
      apply DEFER; [apply fwd_refl|congruence]. }
    rewrite (ctx_eval_clean st tbl (f_env f) path open EL EP TS WF a HCa). fold stv.
    destruct (ctx_eval_den E _ stv _ path open ELv EPv TEv ENV a w Dn) as [(ch & CE)|(a' & nm & CE)]; rewrite CE.
    - rewrite Rw. rewrite WA by (try reflexivity; apply len_le_n'). cbn [CtxModel.bind].
      eexists _, own, f, p. split; [reflexivity|].
      apply (plain_inv path open f p x st own anc gts _ (Some (c + dk_size k)) ((c, (f_id f, IData (dk_size k) a)) :: x_items x) own H); auto.
      cbn [gdx]. fold E. rewrite P2.
      pose proof (memI_append st c _ _ sg (le_n (dk_size k) (Z.to_N w)) (le_n (dk_size k) (Z.to_N w)) None M EA) as SA.
      rewrite len_le_n' in SA. apply SA; auto.
    - cbn [CtxModel.bind]. apply DEFER.
      + pose proof (ctx_eval_fwd E _ stv _ path open ELv EPv TEv ENV a) as F. rewrite CE in F. exact F.
      + rewrite (ctx_eval_err_den E _ stv _ path open ELv EPv TEv ENV a w a' _ Dn CE). discriminate.
  Qed.

  (* ---------------- instruction statements ---------------- *)
  Lemma instr_ok path open f p x st own anc gts line col name args s' :
    FInv EF path open f p x st own anc gts ->
    stmt_okx fs fsr path (EF (f_id f)) (vals (f_env f)) (EInstruction name args) ->
    (match instr_size name with Some sz => place (mkP1 (x_cur x) (vals (f_env f)) []) sz (IInstr name args) | None => None end) = Some s' ->
    (forall a, In a args -> clean (f_env f) a \/ bare_decl (f_env f) a) ->
    (forall a id it, In (a, (id, it)) (x_items (xp x f s')) -> pass2_item (EF id) a it <> None) ->
    (forall a idit y, x_items (xp x f s') = (a, idit) :: x_items x -> a <= y -> y < a + item_size (snd idit) -> ~ covered (flat_items (x_items x)) y) ->
    stepped path open (xp x f s') anc gts (assemble_instr dbg st line col name args).
  Proof.
    intros H OK HP1 HC H2 HF. pose proof H as [(rest & ES) M (tbl & EL & TS) TG EP ELT EGT OWN GL (WF & WP) ENV].
    destruct (instr_size name) as [sz|] eqn:Isz; [|dh]. unfold place in HP1. cbn [p_cur p_env p_items] in HP1.
    destruct (x_cur x) as [c|] eqn:EC; [|dh]. destruct (c + sz <=? 4294967296) eqn:Lp; [|dh].
    inversion HP1; subst s'. unfold xp in *. cbn [p_cur p_items map app fst snd x_items] in *.
    set (E := EF (f_id f)) in *.
    specialize (H2 c (f_id f) (IInstr name args) (or_introl eq_refl)). fold E in H2.
    destruct (pass2_item E c (IInstr name args)) as [bF0|] eqn:P2; [|congruence]. clear H2.
    pose proof P2 as P2'. cbn [pass2_item] in P2'.
    pose proof M as [R C Er A D L P W T]. destruct C as (sg & EA & HI & Ea).
    destruct (template name) as [t|] eqn:Et; [|unfold instr_size in Isz; rewrite Et in Isz; dh].
    pose proof (instr_size_isz _ _ _ Et Isz) as Hsz.
    unfold assemble_stmt in P2'. rewrite Et in P2'.
    destruct (assemble_args (final_ev E) false c t (mkAst args 0)) as [iF sF| | |] eqn:AF; try congruence.
    destruct (enc_bytes iF 4) as [nF bF| |] eqn:EF0; try congruence. inversion P2'; subst bF0. clear P2'.
    pose proof (enc_bytes_size _ _ _ EF0) as (NF & LF). pose proof (assemble_args_isz _ _ _ _ _ _ _ AF) as IF.
    assert (Lb : mlen bF = sz) by (unfold mlen; rewrite LF; congruence).
    assert (HF' : forall y, c <= y -> y < c + sz -> d_get (gdx EF (x_items x)) y = None).
    { intros y Y1 Y2. apply gdx_fresh. apply (HF c (f_id f, IInstr name args) y eq_refl Y1). cbn [snd item_size]. rewrite Isz. exact Y2. }
    assert (Hsz2 : 2 <= sz) by (rewrite Hsz; destruct t; cbn; lia).
    pose proof (memI_cap st c _ _ sg sz M EA ltac:(lia) HF') as Hcap.
    unfold assemble_instr. rewrite EA. rewrite (has_remaining_ok dbg _ _ _ HI).
    destruct (2 <=? s_max sg - blen sg) eqn:Lr; [|destruct HI; lia].
    assert (Hlt : blen sg < s_max sg) by lia.
    rewrite (curr_addr_exact _ _ HI) by lia. rewrite <- Ea. rewrite Et.
    unfold instr_assemble. cbn [ai_ast ai_addr ai_instr ai_file ai_line ai_col a_args].
    rewrite (first_panic_none st args (ev_ok_real st tbl path open EL EP)).
    set (stv := vst st (f_env f)).
    pose proof (vst_locals st (f_env f)) as ELv. pose proof (vst_path st (f_env f) path open EP) as EPv. pose proof (vst_tbl (f_env f)) as TEv.
    assert (BR : forall a, clean (f_env f) a -> instr_ev st a = instr_ev stv a).
    { intros a Ha. apply (instr_ev_clean st tbl (f_env f) path open EL EP TS WF a Ha). }
    assert (CASE : (exists s1, assemble_args (instr_ev st) true c t (mkAst args 0) = COk iF s1) \/
                   (exists pos a a' n, eval_pos t = Some pos /\ nth_error args pos = Some a /\ staged_ok E a /\ stg E a a' /\
                      assemble_args (instr_ev st) true c t (mkAst args 0) = CDefer n (mkAst (AsmStmtModel.set_nth pos a' args) 0))).
    { cbn [stmt_okx] in OK. fold E in OK. destruct OK as [K|[(t' & pos & Et' & EPo & HD)|(t' & Et' & HN)]].
      - left. exists sF. apply (assemble_args_mono_on args (final_ev E) (instr_ev st) false true); [|exact AF].
        intros a a' Ha Hf. rewrite (BR a (clean_known_in _ _ WF (K a Ha))). exact (known_ev_le E _ stv _ path open ELv EPv TEv ENV args K a a' Ha Hf).
      - rewrite Et in Et'. inversion Et'; subst t'.
        destruct (assemble_args_pos_some _ _ _ _ _ _ _ _ EPo AF) as (a & Na). pose proof (HD a Na) as SO.
        destruct (assemble_args_ok_complete _ _ _ _ _ _ _ _ _ EPo Na AF) as (v & Ev).
        pose proof (nth_error_In _ _ Na) as Ha.
        destruct (HC a Ha) as [HCa|(n & -> & Sg)].
        2:{ (* the evaluated operand is a bare declared name: deferred by the declaration *)
          right. exists pos, (AIdent n), (AIdent n), n. split; [exact EPo|]. split; [exact Na|]. split; [exact SO|].
          split; [intros x0 Hx; exact Hx|].
          apply (assemble_args_defer_fwd_d (instr_ev st) (final_ev E) true false c t args pos (AIdent n) (AIdent n) n iF sF EPo Na); [|exact AF].
          apply (instr_ev_decl st tbl (f_env f) path open n EL EP TS WF Sg). }
        destruct (stage_now E _ stv _ path open ELv EPv TEv ENV a v SO Ev) as [Now|(a1 & n & Df)].
        + left. exists sF. apply (assemble_args_mono_pos (final_ev E) (instr_ev st) false true c t args pos a iF sF EPo Na); [|exact AF].
          intros x0 Hx. rewrite Ev in Hx. inversion Hx; subst x0. rewrite (BR a HCa). exact Now.
        + right. exists pos, a, a1, n. split; [exact EPo|]. split; [exact Na|]. split; [exact SO|].
          destruct (stage_stg E _ stv _ path open ELv EPv TEv ENV a a1 (SNoSuchVar n) SO Df ltac:(discriminate) ltac:(discriminate)) as (SG & _).
          split; [exact SG|]. rewrite <- (BR a HCa) in Df.
          eapply assemble_args_defer_fwd; eauto.
      - left. rewrite Et in Et'. inversion Et'; subst t'. exists sF. rewrite <- AF. apply no_eval_indep. exact HN. }
    assert (WS : forall fl ln cl data k1 k2 pp, 0 < mlen data -> blen sg + mlen data <= s_max sg ->
              write_stmt dbg st fl ln cl c data k1 k2 pp = Ret None (set_active st (Active (set_buf sg (s_buf sg ++ data))))).
    { intros fl ln cl data k1 k2 pp Q1 Q2. rewrite Ea, <- (curr_addr_exact _ _ HI) by lia. apply write_stmt_append; auto. }
    destruct CASE as [(s1 & AM)|(pos & a & a' & nm & EPo & Na & SO & SG & AM)]; rewrite AM; cbn [CtxModel.bind].
    - unfold write_instr. cbn [ai_instr ai_file ai_line ai_col ai_addr]. rewrite EF0.
      rewrite WS; [|rewrite Lb; lia|rewrite Lb; exact Hcap].
      eexists _, own, f, p. split; [reflexivity|].
      apply (plain_inv path open f p x st own anc gts _ (Some (c + sz)) ((c, (f_id f, IInstr name args)) :: x_items x) own H); auto.
      cbn [gdx]. fold E. rewrite P2.
      pose proof (memI_append st c _ _ sg bF bF None M EA) as SA. rewrite Lb in SA. apply SA; auto.
    - (* the placeholder: the half-filled template encodes because the final statement does *)
      destruct (assemble_args_ok_complete _ _ _ _ _ _ _ _ _ EPo Na AF) as (v & Ev).
      destruct (enc_bytes_enc _ _ _ EF0) as (hws & ENC).
      destruct (partial_encodes (final_ev E) false c t args pos a v a' iF sF hws (template_ok _ _ Et) EPo Na Ev (stage_shape E a v SO Ev) AF ENC) as (hws' & EP').
      destruct (enc_ok_bytes _ _ EP') as (nP & bP & EPt).
      pose proof (enc_bytes_size _ _ _ EPt) as (LP & _). rewrite partial_isz in LP.
      unfold write_instr. cbn [ai_instr ai_file ai_line ai_col ai_addr]. rewrite EPt.
      rewrite WS; [|rewrite len_padding; lia|rewrite len_padding; replace nP with sz by congruence; exact Hcap].
      cbn [CtxModel.bind]. unfold add_task. cbn [local_tasks set_active]. rewrite ELT. cbn [CtxModel.bind].
      set (tk := InstrTask (mkAI (curr_name st) line col c (partial_instr t (mkAst (AsmStmtModel.set_nth pos a' args) 0)) (mkAst (AsmStmtModel.set_nth pos a' args) 0)) false).
      eexists _, (own ++ [(tk, bF)]), f, p. split; [reflexivity|].
      pose proof (defer_inv path open f p x st own anc gts sg c (padding nP) bF tk (IInstr name args) H EC EA) as DI.
      rewrite len_padding in DI. replace nP with sz in * by congruence. apply DI; auto.
      + unfold tk. cbn [task_size ai_instr]. rewrite partial_isz. congruence.
      + intros n l c0 Hn. discriminate Hn.
      + unfold tk. cbn [PendE fst snd ai_ast ai_instr ai_addr]. fold E. exists args, pos, a, a', iF, sF, nF.
        split; [reflexivity|]. split; [rewrite partial_eval_pos; exact EPo|]. split; [exact Na|]. split; [exact SG|].
        split; [rewrite assemble_args_partial; exact AF|exact EF0].
  Qed.

  (* ---------------- one statement ---------------- *)
  Ltac lit K := apply dname_lit in K; subst.
  Ltac dirof d := unfold step; cbn [e_val e_line e_col]; unfold process_directive;
    match goal with |- context[dir_of ?n] => replace (dir_of n) with (Some d) by (vm_compute; reflexivity) end.

  Lemma step_ok path open f p x st own anc gts e x' :
    FInv EF path open f p x st own anc gts ->
    xstep fsr x (e_val e) = Some x' -> stmt_cls fs fsr EF path x (e_val e) -> fresh_x x (e_val e) x' -> future x' ->
    stepped path open x' anc gts (step dbg fs inc st e).
  Proof.
    intros H HX HCls (FR1 & FR2) HF. pose proof H as [(rest & ES) M _ _ _ _ _ _ _ _ _].
    unfold stmt_cls in HCls. rewrite ES in HCls. destruct HCls as (HC & OK & HI).
    destruct e as [line col ev]. cbn [e_val] in *. destruct ev as [name|name args|name args].
    - apply (label_ok path open f p x st own anc gts line col name x' H HX HF).
    - unfold xstep in HX. cbn [eval_args] in HC.
      destruct (dname name "const") eqn:Kc.
      { lit Kc. dirof DConst. apply (const_ok path open f p x st own anc gts line col args x' H); auto.
        intros a Ha. destruct (HC a Ha) as [K|(MD & _)]; [exact K|]. vm_compute in MD. discriminate MD. }
      destruct (dname name "global") eqn:Kg.
      { lit Kg. dirof DGlobal. destruct args as [|a0 [|a1 r]]; try dh; destruct a0; try dh.
        apply (global_ok path open f p x st own anc gts line col s x' H HX HF). }
      destruct (dname name "export") eqn:Ke.
      { lit Ke. dirof DExport. destruct args as [|a0 [|a1 r]]; try dh; destruct a0; try dh.
        apply (export_ok path open f p x st own anc gts line col s x' H HX). }
      destruct (dname name "import") eqn:Ki.
      { pose proof (fun n E0 => HI name n E0 Ki) as HI'. lit Ki. dirof DImport. destruct args as [|a0 [|a1 r]]; try dh; destruct a0; try dh.
        apply (import_ok path open f p x st own anc gts line col s x' H HX (HI' s eq_refl) HF). }
      unfold xplain in HX. rewrite ES in HX.
      destruct (pass1_step fsr (mkP1 (x_cur x) (vals (f_env f)) []) (EDirective name args)) as [s1|] eqn:P1; [|dh].
      assert (Ex : x' = xp x f s1) by (unfold xp; rewrite ES; congruence). clear HX. subst x'.
      destruct HF as (_ & H2). unfold pass1_step in P1. cbn [p_env p_cur] in P1. rewrite Kc in P1. cbn [is_addr] in FR1.
      destruct (dname name "addr") eqn:Ka.
      { lit Ka. dirof DAddr. apply (addr_ok path open f p x st own anc gts line col args s1 H P1).
        - intros a Ha. destruct (HC a Ha) as [K|(MD & _)]; [exact K|]. vm_compute in MD. discriminate MD.
        - intros c Hc. apply FR1; [reflexivity|exact Hc]. }
      destruct (dname name "align") eqn:Kl.
      { lit Kl. dirof DAlign. apply (align_ok path open f p x st own anc gts line col args s1 H P1); [|exact FR2].
        intros a Ha. destruct (HC a Ha) as [K|(MD & _)]; [exact K|]. vm_compute in MD. discriminate MD. }
      assert (HCd : forall a, In a args -> clean (f_env f) a \/ bare_decl (f_env f) a) by (intros a Ha; destruct (HC a Ha) as [K|(_ & K)]; auto).
      destruct (dname name "du8") eqn:K1.
      { lit K1. dirof (DData DU8). apply (data_ok path open f p x st own anc gts line col DU8 args s1 H P1 HCd H2 FR2). }
      destruct (dname name "du16") eqn:K2.
      { lit K2. dirof (DData DU16). apply (data_ok path open f p x st own anc gts line col DU16 args s1 H P1 HCd H2 FR2). }
      destruct (dname name "du32") eqn:K3.
      { lit K3. dirof (DData DU32). apply (data_ok path open f p x st own anc gts line col DU32 args s1 H P1 HCd H2 FR2). }
      destruct (dname name "dstr") eqn:Ks.
      { lit Ks. dirof DStr. apply (bytes_ok path open f p x st own anc gts line col DStr args s1 H); auto. }
      destruct (dname name "dhex") eqn:Kh.
      { lit Kh. dirof DHex. apply (bytes_ok path open f p x st own anc gts line col DHex args s1 H); auto. }
      destruct (dname name "dfile") eqn:Kf; [|dh].
      lit Kf. dirof DFile. cbn [stmt_okx] in OK.
      apply (file_ok path open f p x st own anc gts line col args s1 H); auto.
    - unfold xstep, xplain in HX. rewrite ES in HX.
      destruct (pass1_step fsr (mkP1 (x_cur x) (vals (f_env f)) []) (EInstruction name args)) as [s1|] eqn:P1; [|dh].
      assert (Ex : x' = xp x f s1) by (unfold xp; rewrite ES; congruence). clear HX. subst x'.
      destruct HF as (_ & H2). cbn [pass1_step p_env p_cur] in P1. cbn [eval_args] in HC.
      unfold step. cbn [e_val e_line e_col].
      assert (EA : exists sg, active st = Active sg).
      { destruct (instr_size name); [|dh]. unfold place in P1. cbn [p_cur] in P1. destruct (x_cur x); [|dh].
        destruct M as [_ C _ _ _ _ _ _ _]. destruct C as (sg & EA & _). eauto. }
      destruct EA as (sg & EA). rewrite EA.
      apply (instr_ok path open f p x st own anc gts line col name args s1 H OK P1); [|exact H2|exact FR2].
      intros a Ha. destruct (HC a Ha) as [K|(_ & K)]; auto.
  Qed.
End Step.
