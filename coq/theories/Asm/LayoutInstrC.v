(* C05 proofs, part 9 (progress direction): assemble_args is monotone in the evaluator already when the second
   evaluator reproduces the Complete evaluations of the first ON THE OPERANDS OF THE STATEMENT (LayoutInstr.v proves it
   for evaluators related on every expression).  Every template evaluates at most one operand, and it does so in the
   initial converter state, so no invariant on the converter state is needed. *)
From Coq Require Import ZArith NArith List Bool Lia ZifyBool ZifyNat ZifyN.
From Trion Require Import Text.Types Arm.Instr Arm.AsmStmtModel Arm.EncodeModel Asm.LayoutInstr.
Import ListNotations.
Open Scope N_scope.

Definition ev_le_on (args : list arg) (ev1 ev2 : evaluator) : Prop :=
  forall a a', In a args -> ev1 a = (a', SComplete) -> ev2 a = (a', SComplete).

Lemma eval_at_mono_on args ev1 ev2 l1 l2 pos a st' : ev_le_on args ev1 ev2 ->
  eval_at ev1 l1 pos (mkAst args 0) = COk a st' -> eval_at ev2 l2 pos (mkAst args 0) = COk a st'.
Proof.
  intros LE. unfold eval_at. cbn [a_args a_done]. destruct (nth_error args pos) as [x|] eqn:Nx; [|discriminate].
  destruct (Nat.leb 0 pos); [|auto].
  destruct (ev1 x) as [a1 s1] eqn:E1. destruct s1; try discriminate.
  - rewrite (LE _ _ (nth_error_In _ _ Nx) E1). auto.
  - destruct l1; discriminate.
Qed.

Ltac st_keep E :=
  first [ pose proof (arity_st _ _ _ _ E); subst
        | pose proof (c_register_st _ _ _ _ E); subst
        | pose proof (c_sysreg_st _ _ _ _ E); subst
        | pose proof (c_identifier_st _ _ _ _ E); subst
        | pose proof (c_regset_st _ _ _ _ E); subst
        | idtac ].

Ltac mono_on_loop LE :=
  repeat (cbv beta iota in *;
    match goal with
    | H : match ?X with _ => _ end = COk _ _ |- _ =>
        lazymatch X with
        | eval_at _ _ _ _ =>
            let EE := fresh "EE" in
            destruct X eqn:EE; [ rewrite (eval_at_mono_on _ _ _ _ _ _ _ _ LE EE) | discriminate H | discriminate H | discriminate H ]
        | _ => let EE := fresh "EE" in destruct X eqn:EE; try discriminate H; st_keep EE
        end
    end).

Lemma assemble_args_mono_on args ev1 ev2 l1 l2 addr t i st' : ev_le_on args ev1 ev2 ->
  assemble_args ev1 l1 addr t (mkAst args 0) = COk i st' -> assemble_args ev2 l2 addr t (mkAst args 0) = COk i st'.
Proof.
  intros LE. destruct t; open_args; intros H; mono_on_loop LE; cbv beta iota in *;
    repeat match goal with E : COk _ _ = COk _ _ |- _ => inversion E; subst; clear E end;
    repeat (cbv beta iota; match goal with E : ?X = _ |- context[match ?X with _ => _ end] => rewrite E end); cbv beta iota; reflexivity.
Qed.
