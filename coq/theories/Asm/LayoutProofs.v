(* C05 proofs (partial): one region, statements that need no deferral and no operand evaluation:
   .dstr "..", .du8/.du16/.du32 <literal>, labels.  The statement loop appends exactly the statements' bytes, a label
   gets the address of the next byte, and closing the region puts base ++ bytes into an empty map. *)
From Coq Require Import ZArith NArith PeanoNat List Bool Lia ZifyBool ZifyNat ZifyN.
From Trion Require Import Text.Types Text.ParseModel Expr.EvalModel Mem.MapModel Mem.MapProofs Asm.CtxModel Asm.SegProofs.
Import ListNotations.
Open Scope N_scope.

(* the bytes of a statement that is complete when it is read *)
Definition simple_bytes (e : element_value) : option (list N) :=
  match e with
  | EDirective name [AStr v] => match dir_of name with Some DStr => Some v | _ => None end
  | EDirective name [AConst v] =>
      match dir_of name with
      | Some (DData k) => if (0 <=? v)%Z && (v <=? dk_max k)%Z then Some (le_n (dk_size k) (Z.to_N v)) else None
      | _ => None
      end
  | _ => None
  end.

Lemma len_le_n k v : MapModel.len (le_n (dk_size k) v) = dk_size k.
Proof. destruct k; reflexivity. Qed.

Lemma curr_addr_exact m s : SegInv m s -> blen s < s_max s -> curr_addr s = s_base s + blen s.
Proof.
  intros (H1 & H0 & H2 & _) Hlt. unfold curr_addr, sat_add32, CtxSeg.U32MAX, CtxSeg.U32, MapModel.U32MAX, MapModel.U32 in *.
  (* works for both readings of `buffer.len() as u32` (truncating / saturating) *)
  first [ lia
        | assert (E : N.land (blen s) 0xFFFFFFFF = blen s)
            by (change 0xFFFFFFFF with (N.ones 32); rewrite N.land_ones; apply N.mod_small; change (2 ^ 32) with 4294967296; lia);
          rewrite E; lia ].
Qed.

Lemma splice_end (buf data : list N) : splice buf (MapModel.len buf) data = buf ++ data.
Proof.
  unfold splice. rewrite takeN_all by lia. rewrite dropN_all by lia. rewrite app_nil_r. reflexivity.
Qed.

(* writing a fresh statement at the current address of a segment that has room: an append *)
Lemma write_stmt_append dbg st s file line col data k1 k2 p :
  active st = Active s -> SegInv (output st) s -> 0 < MapModel.len data -> blen s + MapModel.len data <= s_max s ->
  write_stmt dbg st file line col (curr_addr s) data k1 k2 p = Ret None (set_active st (Active (set_buf s (s_buf s ++ data)))).
Proof.
  intros EA HI Hpos Hcap. unfold write_stmt. rewrite EA.
  assert (Hc : curr_addr s = s_base s + blen s) by (eapply curr_addr_exact; eauto; lia).
  rewrite (covers_spec dbg (output st) s _ HI). rewrite Hc.
  replace (s_base s + blen s - s_base s) with (blen s) by lia.
  destruct (s_base s <=? s_base s + blen s) eqn:E1; [|lia]. cbn [andb].
  rewrite N.ltb_irrefl, N.eqb_refl. cbn [orb andb].
  destruct (blen s <? s_max s) eqn:E2; [|lia].
  destruct (write_at_ok dbg (output st) s (s_base s + blen s) data HI) as (W & _); try lia.
  replace (s_base s + blen s - s_base s) with (blen s) in W by lia. rewrite W.
  unfold blen at 1. rewrite len_eq, splice_end. reflexivity.
Qed.

Lemma step_simple dbg fs inc st s e b :
  active st = Active s -> SegInv (output st) s -> simple_bytes (e_val e) = Some b ->
  blen s + MapModel.len b <= s_max s ->
  step dbg fs inc st e = Ret None (set_active st (Active (set_buf s (s_buf s ++ b)))).
Proof.
  intros EA HI Hs Hcap. unfold step. destruct (e_val e) as [n|name args|n a]; try discriminate.
  cbn [simple_bytes] in Hs.
  destruct args as [|a0 [|a1 r]]; try discriminate; [|destruct a0; discriminate].
  destruct a0; try discriminate.
  - (* .du* literal *)
    destruct (dir_of name) as [d|] eqn:Ed; [|discriminate]. destruct d; try discriminate.
    destruct ((0 <=? v)%Z && (v <=? dk_max k)%Z) eqn:Er; [|discriminate]. injection Hs as <-.
    rewrite len_le_n in Hcap.
    unfold process_directive. rewrite Ed. unfold dir_data. rewrite EA.
    unfold has_remaining. rewrite (remaining_ok dbg _ _ HI). cbn [sbind].
    destruct (dk_size k <=? s_max s - blen s) eqn:E1; [|lia].
    cbn [arity_check List.length Nat.eqb].
    unfold data_apply, ctx_eval. cbn [evaluate_mut de_arg de_kind]. rewrite Er.
    unfold write_data. cbn [de_set_arg de_file de_line de_col de_addr].
    rewrite (write_stmt_append dbg st s _ _ _ _ _ _ _ EA HI).
    + reflexivity.
    + rewrite len_le_n. destruct k; cbn; lia.
    + rewrite len_le_n. exact Hcap.
  - (* .dstr *)
    destruct (dir_of name) as [d|] eqn:Ed; [|discriminate]. destruct d; try discriminate. injection Hs as <-.
    unfold process_directive. rewrite Ed. unfold dir_bytes. rewrite EA.
    cbn [arity_check List.length Nat.eqb].
    destruct (write_ok dbg (output st) s s0 HI Hcap) as (W & _). rewrite W. reflexivity.
Qed.

(* the statement loop over simple statements: one append per statement, nothing else changes *)
Lemma run_simple dbg fs inc : forall els st s bs,
  active st = Active s -> SegInv (output st) s ->
  Forall2 (fun e b => simple_bytes (e_val e) = Some b) els bs ->
  blen s + MapModel.len (concat bs) <= s_max s ->
  run_items dbg fs inc (map IOk els) st = Ret None (set_active st (Active (set_buf s (s_buf s ++ concat bs)))).
Proof.
  induction els as [|e els IH]; intros st s bs EA HI HF Hcap; inversion HF; subst.
  - cbn [map run_items concat]. rewrite app_nil_r. destruct st; cbn in *. subst. destruct s; reflexivity.
  - cbn [map run_items concat] in *. rewrite len_app in Hcap.
    rewrite (step_simple dbg fs inc st s e y EA HI H1) by lia. cbn [bind].
    destruct (write_ok dbg (output st) s y HI) as (_ & HI'); [lia|].
    rewrite (IH (set_active st (Active (set_buf s (s_buf s ++ y)))) (set_buf s (s_buf s ++ y)) l' eq_refl HI' H3).
    + cbn [set_buf s_buf s_base s_max set_active active]. rewrite app_assoc. reflexivity.
    + rewrite blen_set_buf, len_app. cbn [s_max set_buf]. unfold blen in Hcap. rewrite len_eq in Hcap. lia.
Qed.

(* a label: its value is base + |buffer| = the address the next byte is written to (curr_addr_exact +
   write_stmt_append / write_ok), and nothing else changes *)
Lemma step_label dbg fs inc st s e name tbl :
  e_val e = ELabel name -> active st = Active s -> locals st = Some tbl ->
  is_register name = false -> tbl_get tbl name = None ->
  step dbg fs inc st e = Ret None (set_locals st (Some (tbl_set tbl name (Some (Z.of_N (curr_addr s)))))).
Proof.
  intros Ev EA EL Hr Hf. unfold step. rewrite Ev, EA. unfold insert_constant. rewrite Hr.
  cbn [realm_table]. rewrite EL, Hf. cbn [bind set_realm_table]. reflexivity.
Qed.

Lemma tbl_get_set tbl name v : tbl_get (tbl_set tbl name v) name = Some v.
Proof.
  assert (R : forall a, str_eqb a a = true).
  { unfold str_eqb. induction a; cbn; [reflexivity|]. rewrite N.eqb_refl. exact IHa. }
  induction tbl as [|[k w] r IH]; cbn [tbl_set tbl_get].
  - rewrite R. reflexivity.
  - destruct (str_eqb k name) eqn:E; cbn [tbl_get]; rewrite E; auto.
Qed.

(* closing the single region of a program into the empty map *)
Lemma put_empty_map dbg a data : data <> [] -> a + MapModel.len data <= MapModel.U32 ->
  map_put dbg [] a data = Ok ([(a, a + MapModel.len data - 1, data)], Some (MapModel.len data)).
Proof.
  intros Hne Hfit. unfold map_put. destruct data as [|b0 d0] eqn:Ed; [congruence|]. rewrite <- Ed in *.
  assert (Hpos : 0 < MapModel.len data) by (rewrite Ed, len_cons; lia).
  destruct (MapModel.U32MAX - a <? MapModel.len data - 1) eqn:E0; [unfold MapModel.U32MAX, MapModel.U32 in *; lia|].
  rewrite N.mod_small by (unfold MapModel.U32 in *; lia).
  rewrite u32_add_ok by (unfold MapModel.U32 in *; lia).
  cbn [MapModel.bind locate]. unfold vec_insert. cbn [MapModel.len length N.of_nat N.leb MapModel.bind].
  unfold MapModel.takeN, MapModel.dropN. cbn [MapModel.len length N.of_nat N.leb app].
  change (0 <=? 0) with true. cbn [MapModel.bind app].
  replace (a + (MapModel.len data - 1)) with (a + MapModel.len data - 1) by lia. reflexivity.
Qed.

Lemma close_single dbg st s : active st = Active s -> output st = [] -> SegInv [] s -> s_buf s <> [] ->
  close_segment dbg st = Ret (inl true) (set_active (set_output st [(s_base s, s_base s + blen s - 1, s_buf s)]) Inactive).
Proof.
  intros EA EO (H1 & H0 & H2 & _) Hne. unfold close_segment. rewrite EA, EO.
  rewrite put_empty_map; [|exact Hne|unfold blen in *; rewrite len_eq in *; unfold CtxSeg.U32 in *; lia].
  assert (Eq : (MapModel.len (s_buf s) =? blen s) = true) by (unfold blen, CtxSeg.len; apply N.eqb_refl). rewrite Eq.
  reflexivity.
Qed.

(* one region of simple statements, assembled and closed: the image is the concatenation of the statements' bytes at
   the region's base, and no diagnostic is added *)
Theorem layout_single dbg fs inc els st s bs :
  output st = [] -> active st = Active s -> s_buf s = [] -> SegInv [] s ->
  Forall2 (fun e b => simple_bytes (e_val e) = Some b) els bs -> concat bs <> [] ->
  MapModel.len (concat bs) <= s_max s ->
  exists st1, run_items dbg fs inc (map IOk els) st = Ret None st1 /\ errors st1 = errors st /\
    exists st2, close_segment dbg st1 = Ret (inl true) st2 /\
      output st2 = [(s_base s, s_base s + MapModel.len (concat bs) - 1, concat bs)] /\ errors st2 = errors st.
Proof.
  intros EO EA Eb HI HF Hne Hcap.
  assert (HI' : SegInv (output st) s) by (rewrite EO; exact HI).
  assert (B0 : blen s = 0) by (unfold blen; rewrite Eb; reflexivity).
  eexists. split; [apply (run_simple dbg fs inc els st s bs EA HI' HF); lia|]. split; [reflexivity|].
  rewrite Eb. cbn [app].
  eexists. split.
  - apply close_single; cbn [active set_active output set_output s_buf set_buf]; auto;
      try (destruct HI as (H1 & H0 & H2 & H3); unfold SegInv; cbn [s_base s_max set_buf]; rewrite blen_set_buf;
           repeat split; auto; intros g []).
  - cbn [output set_active set_output errors s_base s_buf set_buf]. rewrite blen_set_buf. split; reflexivity.
Qed.

(* a label's value is the address the next byte is written to *)
Theorem label_next_byte dbg fs inc st s e name tbl b :
  e_val e = ELabel name -> active st = Active s -> SegInv (output st) s -> locals st = Some tbl ->
  is_register name = false -> tbl_get tbl name = None -> blen s < s_max s ->
  exists st1, step dbg fs inc st e = Ret None st1 /\
    get_constant st1 name RLocal = Some (Found (Z.of_N (s_base s + blen s))) /\
    active st1 = Active s /\
    (* ... and the next byte written by a statement lands at offset |buf| of the region, i.e. at that address *)
    seg_write dbg s [b] = SOk (set_buf s (s_buf s ++ [b])).
Proof.
  intros Ev EA HI EL Hr Hf Hlt.
  eexists. split; [eapply step_label; eauto|]. split; [|split; [exact EA|]].
  - unfold get_constant. cbn [realm_table locals set_locals]. unfold lookup_of. rewrite tbl_get_set.
    rewrite (curr_addr_exact _ _ HI Hlt). reflexivity.
  - apply (write_ok dbg (output st) s [b] HI). change (MapModel.len [b]) with 1. lia.
Qed.
