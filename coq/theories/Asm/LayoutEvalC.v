(* C05 proofs, part 8 (progress direction): the evaluator is COMPLETE for the reference's value function.
   (a) an expression that has a checked 64-bit value (Expr/Denote.den64) under an assignment evaluates, under every
       constant table that is compatible with the assignment and has no declared-but-unvalued names, to the constant
       of that value - or stops with NoSuchVariable (a name the table does not have yet); never BadType / Overflow,
       never a non-constant tree;
   (b) evaluation only depends on the table entries of the identifiers the expression mentions. *)
From Coq Require Import ZArith NArith List Bool Lia.
From Trion Require Import Text.Types Expr.I64 Expr.SimplifyModel Expr.EvalModel Expr.ArgLemmas Expr.Denote Expr.C07Proofs Expr.C08Sound
  Asm.CtxSeg Asm.CtxEval Asm.CtxProofs Asm.LayoutEval.
Import ListNotations.

(* ------------------------------------------------------------------ (a) *)
Section Compl.
  Variable rho : str -> option Z.
  Variable lk : str -> lookup_res.
  Variable ir : str -> bool.
  Hypothesis CP : compat rho lk ir.
  Hypothesis ND : no_deferred lk.
  Hypothesis RR : forall s v, rho s = Some v -> ir s = false.

  Definition den_res (o : outcome (arg * evaluation)) (w : Z) : Prop :=
    (exists c, o = I64.Ok (AConst w, Complete c)) \/ o = I64.Err ENoSuchVariable.

  Lemma fold_of_op64 op x y w : op64 op x y = Some w -> fold_const op x y = I64.Ok w.
  Proof. unfold op64, opt_of. destruct (fold_const op x y); intros H; inversion H; reflexivity. Qed.

  Lemma eval_bin_den op rl rr x y w : den_res rl x -> den_res rr y -> op64 op x y = Some w -> den_res (eval_bin op rl rr) w.
  Proof.
    intros [(c1 & ->)| ->] Hr Hop; [|right; reflexivity].
    destruct Hr as [(c2 & ->)| ->]; [|right; reflexivity].
    left. unfold eval_bin. cbn [I64.bind]. unfold eval_node. rewrite simplify_raw_consts, (fold_of_op64 _ _ _ _ Hop).
    cbn [I64.bind ev_or]. eauto.
  Qed.

  Lemma evaluate_den a : forall w, den64 rho a = Some w -> den_res (evaluate lk ir a) w.
  Proof.
    induction a using arg_ind'; intros w D.
    - cbn in D. unfold chk in D. destruct (in_i64 v); inversion D; subst. left. cbn. eauto.
    - cbn [den64] in D. destruct (rho s) as [v|] eqn:R; [|discriminate]. unfold chk in D. destruct (in_i64 v); inversion D; subst.
      pose proof (RR _ _ R) as Hr. cbn [evaluate]. rewrite Hr. cbn [negb].
      destruct (lk s) as [v'| |] eqn:L.
      + pose proof (CP _ _ Hr L) as R'. rewrite R in R'. inversion R'; subst. left. eauto.
      + exfalso. exact (ND _ L).
      + right. reflexivity.
    - discriminate.
    - rewrite den64_mk' in D. destruct (den64 rho a1) as [x|] eqn:D1; [|discriminate]. destruct (den64 rho a2) as [y|] eqn:D2; [|discriminate].
      cbn [opt2] in D. rewrite evaluate_mk. eapply eval_bin_den; eauto.
    - cbn [den64] in D. destruct (den64 rho a) as [x|] eqn:D1; [|discriminate].
      cbn [evaluate]. unfold eval_un. destruct (IHa _ eq_refl) as [(c & ->)| ->]; [|right; reflexivity].
      left. cbn [I64.bind]. unfold eval_node. cbn [simplify_raw bin_view]. unfold checked_neg in D.
      destruct (x =? i64_min)%Z; [discriminate|]. inversion D; subst. cbn. eauto.
    - cbn [den64] in D. destruct (den64 rho a) as [x|] eqn:D1; [|discriminate]. inversion D; subst.
      cbn [evaluate]. unfold eval_un. destruct (IHa _ eq_refl) as [(c & ->)| ->]; [|right; reflexivity].
      left. cbn [I64.bind]. unfold eval_node. cbn [simplify_raw bin_view I64.bind]. cbn. eauto.
    - discriminate.
    - discriminate.
    - discriminate.
  Qed.
End Compl.

(* the same for the in-place evaluator of the context *)
Section ComplMut.
  Variable rho : str -> option Z.
  Variable lk : str -> lookup_res.
  Variable ir : str -> bool.
  Hypothesis CP : compat rho lk ir.
  Hypothesis ND : no_deferred lk.
  Hypothesis RR : forall s v, rho s = Some v -> ir s = false.

  Definition den_mres (r : ev_res) (w : Z) : Prop :=
    (exists c, r = EvOk (AConst w) (Complete c)) \/ (exists a' n, r = EvErr a' (EENoVar n)).

  Lemma evaluate_mut_den a : forall w, den64 rho a = Some w -> den_mres (evaluate_mut (fun n => Some (lk n)) ir a) w.
  Proof.
    induction a using arg_ind'; intros w D.
    - cbn in D. unfold chk in D. destruct (in_i64 v); inversion D; subst. left. cbn. eauto.
    - cbn [den64] in D. destruct (rho s) as [v|] eqn:R; [|discriminate]. unfold chk in D. destruct (in_i64 v); inversion D; subst.
      pose proof (RR _ _ R) as Hr. cbn [evaluate_mut]. rewrite Hr. cbn [negb].
      destruct (lk s) as [v'| |] eqn:L.
      + pose proof (CP _ _ Hr L) as R'. rewrite R in R'. inversion R'; subst. left. eauto.
      + exfalso. exact (ND _ L).
      + right. eauto.
    - discriminate.
    - rewrite den64_mk' in D. destruct (den64 rho a1) as [x|] eqn:D1; [|discriminate]. destruct (den64 rho a2) as [y|] eqn:D2; [|discriminate].
      cbn [opt2] in D. rewrite mut_mk. unfold ev_bin.
      destruct (IHa1 _ eq_refl) as [(c1 & ->)|(a' & n & ->)]; [|right; eauto].
      destruct (IHa2 _ eq_refl) as [(c2 & ->)|(a' & n & ->)]; [|right; eauto].
      left. unfold ev_node. rewrite simplify_raw_consts, (fold_of_op64 _ _ _ _ D). cbn [I64.bind ev_or]. eauto.
    - cbn [den64] in D. destruct (den64 rho a) as [x|] eqn:D1; [|discriminate].
      cbn [evaluate_mut]. unfold ev_un. destruct (IHa _ eq_refl) as [(c & ->)|(a' & n & ->)]; [|right; eauto].
      left. unfold ev_node. cbn [simplify_raw bin_view]. unfold checked_neg in D.
      destruct (x =? i64_min)%Z; [discriminate|]. inversion D; subst. cbn. eauto.
    - cbn [den64] in D. destruct (den64 rho a) as [x|] eqn:D1; [|discriminate]. inversion D; subst.
      cbn [evaluate_mut]. unfold ev_un. destruct (IHa _ eq_refl) as [(c & ->)|(a' & n & ->)]; [|right; eauto].
      left. unfold ev_node. cbn [simplify_raw bin_view I64.bind]. cbn. eauto.
    - discriminate.
    - discriminate.
    - discriminate.
  Qed.

  Lemma den64_chk a x : den64 rho a = Some x -> chk x = Some x.
  Proof. intros D. apply den64_denZ in D. destruct D as (_ & I). unfold chk. rewrite I. reflexivity. Qed.

  (* the tree a FAILED evaluation leaves behind still has the checked value of the original: the sub-trees already
     evaluated are the constants of their values, the rest is untouched *)
  Lemma evaluate_mut_err_den a : forall w a' e, den64 rho a = Some w ->
    evaluate_mut (fun n => Some (lk n)) ir a = EvErr a' e -> den64 rho a' = Some w.
  Proof.
    induction a using arg_ind'; intros w a' e D M.
    - discriminate.
    - cbn [evaluate_mut] in M. destruct (negb (ir s)); [|discriminate]. destruct (lk s); inversion M; subst; exact D.
    - discriminate.
    - rewrite den64_mk' in D. destruct (den64 rho a1) as [x|] eqn:D1; [|discriminate]. destruct (den64 rho a2) as [y|] eqn:D2; [|discriminate].
      cbn [opt2] in D. rewrite mut_mk in M. unfold ev_bin in M.
      destruct (evaluate_mut_den a1 x D1) as [(c1 & E1)|(l' & n & E1)]; rewrite E1 in M.
      + destruct (evaluate_mut_den a2 y D2) as [(c2 & E2)|(r' & n & E2)]; rewrite E2 in M.
        * unfold ev_node in M. rewrite simplify_raw_consts, (fold_of_op64 _ _ _ _ D) in M. discriminate.
        * inversion M; subst. rewrite den64_mk'. cbn [den64]. rewrite (den64_chk _ _ D1), (IHa2 _ _ _ eq_refl E2). exact D.
      + inversion M; subst. rewrite den64_mk', (IHa1 _ _ _ eq_refl E1), D2. exact D.
    - cbn [den64] in D. destruct (den64 rho a) as [x|] eqn:D1; [|discriminate].
      cbn [evaluate_mut] in M. unfold ev_un in M.
      destruct (evaluate_mut_den a x D1) as [(c1 & E1)|(l' & n & E1)]; rewrite E1 in M.
      + unfold ev_node in M. cbn [simplify_raw bin_view] in M. unfold checked_neg in D. destruct (x =? i64_min)%Z; [discriminate|]. discriminate.
      + inversion M; subst. cbn [den64]. rewrite (IHa _ _ _ eq_refl E1). exact D.
    - cbn [den64] in D. destruct (den64 rho a) as [x|] eqn:D1; [|discriminate].
      cbn [evaluate_mut] in M. unfold ev_un in M.
      destruct (evaluate_mut_den a x D1) as [(c1 & E1)|(l' & n & E1)]; rewrite E1 in M.
      + unfold ev_node in M. cbn [simplify_raw bin_view I64.bind] in M. discriminate.
      + inversion M; subst. cbn [den64]. rewrite (IHa _ _ _ eq_refl E1). exact D.
    - discriminate.
    - discriminate.
    - discriminate.
  Qed.
End ComplMut.

(* ------------------------------------------------------------------ (b) *)
Definition agree_on (ir : str -> bool) (lk1 lk2 : str -> lookup_res) (a : arg) : Prop :=
  forall n, In n (idents a) -> ir n = true \/ lk1 n = lk2 n.

Section Ext.
  Variables (lk1 lk2 : str -> lookup_res) (ir : str -> bool).

  Lemma go_ext l : Forall (fun a => agree_on ir lk1 lk2 a -> evaluate lk1 ir a = evaluate lk2 ir a) l ->
    (forall a, In a l -> agree_on ir lk1 lk2 a) -> forall acc, go_ev lk1 ir l acc = go_ev lk2 ir l acc.
  Proof.
    induction 1 as [|x xs Hx Hxs IH]; intros K acc; [reflexivity|].
    rewrite !go_ev_cons. rewrite Hx by (apply K; now left). unfold eval_cons.
    destruct (evaluate lk2 ir x) as [[x' e]|?|?]; cbn [I64.bind]; try reflexivity.
    rewrite IH; [reflexivity|]. intros a Ha. apply K. now right.
  Qed.

  Lemma evaluate_ext a : agree_on ir lk1 lk2 a -> evaluate lk1 ir a = evaluate lk2 ir a.
  Proof.
    induction a using arg_ind'; intros K.
    - reflexivity.
    - cbn [evaluate]. destruct (ir s) eqn:R; cbn [negb]; [reflexivity|].
      destruct (K s (or_introl eq_refl)) as [T|T]; [congruence|]. rewrite T. reflexivity.
    - reflexivity.
    - rewrite !evaluate_mk'. rewrite IHa1, IHa2; [reflexivity| |]; intros n Hn; apply K; rewrite idents_mk; apply in_or_app; auto.
    - cbn [evaluate]. rewrite IHa; [reflexivity|exact K].
    - cbn [evaluate]. rewrite IHa; [reflexivity|exact K].
    - cbn [evaluate]. rewrite IHa; [reflexivity|exact K].
    - rewrite !evaluate_seq. rewrite (go_ext l H); [reflexivity|]. intros a Ha m Hm. apply K. cbn [idents]. apply in_flat_map. eauto.
    - rewrite !evaluate_fun. rewrite (go_ext l H); [reflexivity|]. intros a Ha m Hm. apply K. cbn [idents]. apply in_flat_map. eauto.
  Qed.
End Ext.
