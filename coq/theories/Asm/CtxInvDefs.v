(* C13 proofs, part 4: the segment invariant lifted to Context states.
   good st : Inv st (SegProofs) and every pending task (in global_tasks / local_tasks) has its address range
             allocated: wholly inside the active buffer or wholly occupied in the map.
   mono st st' : every range allocated in st is still allocated in st' (frame property: it carries the tasks that
             are not in the state at the moment — the list being drained, the lists saved in a PathFrame).
   post st r : what every Context operation guarantees from a good state. *)
From Coq Require Import ZArith NArith PeanoNat List Bool Lia ZifyBool ZifyNat ZifyN.
From Trion Require Import Text.Types Mem.MapModel Mem.DictSpec Mem.MapProofs Asm.CtxModel Asm.SegProofs Asm.SegPut Asm.InstrSize.
From Trion Require Mem.MapLemmas Mem.MapPutProofs Mem.MapOccupied.
Import ListNotations.
Open Scope N_scope.
Local Notation len := MapModel.len.
Local Notation U32 := MapModel.U32.

(* ---------------------------------------------------------------- ranges *)
Definition in_active (s : aseg) (a n : N) : Prop := s_base s <= a /\ a + n <= s_base s + blen s.
Definition in_map (m : mmap) (a n : N) : Prop := forall x, a <= x -> x < a + n -> occupied m x.
Definition allocated (st : state) (a n : N) : Prop :=
  (exists s, active st = Active s /\ in_active s a n) \/ in_map (output st) a n.

(* the address range a pending task will write: the placeholder written when it was scheduled *)
Definition task_range (t : task) : option (N * N) :=
  match t with
  | InstrTask ai _ => Some (ai_addr ai, isz (ai_instr ai))
  | DataTask d _ => Some (de_addr d, dk_size (de_kind d))
  | GlobalTask _ _ _ | ImportCheckTask _ _ _ => None
  end.
Definition task_ok (st : state) (t : task) : Prop :=
  match task_range t with Some (a, n) => allocated st a n | None => True end.
Definition tasks_ok (st : state) (l : list task) : Prop := Forall (task_ok st) l.

Definition good (st : state) : Prop :=
  Inv st /\ tasks_ok st (global_tasks st) /\ match local_tasks st with Some l => tasks_ok st l | None => True end.

Definition mono (st st' : state) : Prop := forall a n, allocated st a n -> allocated st' a n.

(* the panic sites of the segment / map code: arithmetic of remaining / make_active / write_at, the assert of write_at,
   panics inside MemoryMap::{find, put}, "segment not inactive", and the three assert_eq! on the count returned by put *)
Definition seg_site (p : site) : Prop :=
  match p with
  | P_map _ | P_remaining | P_next_sub | P_write_at_sub | P_not_inactive | P_write_at_assert
  | P_close_assert | P_put_assert_instr | P_put_assert_data => True
  | _ => False
  end.

Definition post {A} (st : state) (r : res A) : Prop :=
  match r with
  | Ret _ st' => good st' /\ mono st st'
  | Panic p => ~ seg_site p
  | OutOfFuel => True
  end.

Lemma mono_refl st : mono st st. Proof. intros a n H; exact H. Qed.
Lemma mono_trans a b c : mono a b -> mono b c -> mono a c. Proof. intros H1 H2 x n H. auto. Qed.

Lemma task_ok_mono st st' t : mono st st' -> task_ok st t -> task_ok st' t.
Proof. unfold task_ok. intros M. destruct (task_range t) as [[a n]|]; auto. Qed.
Lemma tasks_ok_mono st st' l : mono st st' -> tasks_ok st l -> tasks_ok st' l.
Proof. intros M H. eapply Forall_impl; [|exact H]. intros t. apply task_ok_mono. exact M. Qed.

Lemma post_weaken {A} st st1 (r : res A) : mono st st1 -> post st1 r -> post st r.
Proof. intros M. destruct r; cbn [post]; auto. intros (G & M1). split; [exact G|]. eapply mono_trans; eauto. Qed.

Lemma post_bind {A B} st (r : res A) (k : A -> state -> res B) :
  post st r -> (forall a st1, good st1 -> mono st st1 -> post st1 (k a st1)) -> post st (CtxModel.bind r k).
Proof.
  intros H K. destruct r as [a st1|p|]; cbn [CtxModel.bind post] in *; auto.
  destruct H as (G & M). eapply post_weaken; [exact M|]. apply K; assumption.
Qed.

Lemma post_ret {A} st (a : A) : good st -> post st (Ret a st).
Proof. intros G. split; [exact G|apply mono_refl]. Qed.

(* ---------------------------------------------------------------- states that differ outside the segment fields *)
Definition same (st st' : state) : Prop :=
  output st' = output st /\ active st' = active st /\ global_tasks st' = global_tasks st /\ local_tasks st' = local_tasks st.

Lemma same_refl st : same st st. Proof. repeat split. Qed.
Lemma same_trans a b c : same a b -> same b c -> same a c.
Proof. intros (A1 & A2 & A3 & A4) (B1 & B2 & B3 & B4). repeat split; congruence. Qed.

Lemma alloc_eq st st' a n : output st' = output st -> active st' = active st -> allocated st a n -> allocated st' a n.
Proof. intros E1 E2. unfold allocated. rewrite E1, E2. auto. Qed.

Lemma seg_eq_mono st st' : output st' = output st -> active st' = active st -> mono st st' /\ mono st' st.
Proof. intros E1 E2. split; intros a n; apply alloc_eq; congruence. Qed.

Lemma same_good st st' : same st st' -> good st -> good st' /\ mono st st'.
Proof.
  intros (E1 & E2 & E3 & E4) (HI & G1 & G2). destruct (seg_eq_mono st st' E1 E2) as (M & _).
  split; [|exact M]. split; [|split].
  - unfold Inv in *. rewrite E1, E2. exact HI.
  - rewrite E3. eapply tasks_ok_mono; eauto.
  - rewrite E4. destruct (local_tasks st); [eapply tasks_ok_mono; eauto|exact I].
Qed.

Lemma same_post {A} st st' (a : A) : same st st' -> good st -> post st (Ret a st').
Proof. intros S G. exact (same_good st st' S G). Qed.

Lemma same_push_in st f l c k : same st (push_error_in st f l c k). Proof. repeat split. Qed.
Lemma same_push st l c k : same st (push_error st l c k). Proof. repeat split. Qed.
Lemma same_realm st r t : same st (set_realm_table st r t). Proof. destruct r; repeat split. Qed.

Lemma insert_constant_same st name v r x st' : insert_constant st name v r = Ret x st' -> same st st'.
Proof.
  unfold insert_constant. destruct (is_register name); [intros H; inversion H; apply same_refl|].
  destruct (realm_table st r); [|discriminate]. destruct (tbl_get t name) as [[z|]|]; intros H; inversion H;
  try apply same_refl; apply same_realm.
Qed.
Lemma defer_constant_same st name r x st' : defer_constant st name r = Ret x st' -> same st st'.
Proof.
  unfold defer_constant. destruct (is_register name); [intros H; inversion H; apply same_refl|].
  destruct (realm_table st r); [|discriminate]. destruct (tbl_get t name); intros H; inversion H;
  try apply same_refl; apply same_realm.
Qed.
Lemma insert_constant_site st name v r p : insert_constant st name v r = Panic p -> p = P_no_local_scope.
Proof.
  unfold insert_constant. destruct (is_register name); [discriminate|]. destruct (realm_table st r).
  - destruct (tbl_get t name) as [[z|]|]; discriminate.
  - intros H; inversion H; reflexivity.
Qed.
Lemma defer_constant_site st name r p : defer_constant st name r = Panic p -> p = P_no_local_scope.
Proof.
  unfold defer_constant. destruct (is_register name); [discriminate|]. destruct (realm_table st r).
  - destruct (tbl_get t name); discriminate.
  - intros H; inversion H; reflexivity.
Qed.

Lemma insert_constant_post st name v r : good st -> post st (insert_constant st name v r).
Proof.
  intros G. destruct (insert_constant st name v r) as [x st'|p|] eqn:E; cbn [post]; auto.
  - exact (same_good _ _ (insert_constant_same _ _ _ _ _ _ E) G).
  - rewrite (insert_constant_site _ _ _ _ _ E). exact (fun f => f).
Qed.
Lemma defer_constant_post st name r : good st -> post st (defer_constant st name r).
Proof.
  intros G. destruct (defer_constant st name r) as [x st'|p|] eqn:E; cbn [post]; auto.
  - exact (same_good _ _ (defer_constant_same _ _ _ _ _ E) G).
  - rewrite (defer_constant_site _ _ _ _ E). exact (fun f => f).
Qed.

Lemma add_task_post st t r : good st -> task_ok st t -> post st (add_task st t r).
Proof.
  intros (HI & G1 & G2) Ht. unfold add_task. destruct r.
  - cbn [post]. split; [|apply (seg_eq_mono st _ eq_refl eq_refl)]. split; [exact HI|]. split.
    + cbn [global_tasks set_global_tasks]. apply Forall_app. split; [exact G1|]. constructor; [exact Ht|constructor].
    + exact G2.
  - destruct (local_tasks st) as [l|] eqn:EL; cbn [post]; [|exact (fun f => f)].
    split; [|apply (seg_eq_mono st _ eq_refl eq_refl)]. split; [exact HI|]. split; [exact G1|].
    cbn [local_tasks set_local_tasks]. apply Forall_app. split; [exact G2|]. constructor; [exact Ht|constructor].
Qed.

(* ---------------------------------------------------------------- the map side: put over occupied addresses *)
Lemma d_get_some d x : MapOccupied.has_key d x -> exists y, d_get d x = Some y.
Proof.
  intros (y & H). induction d as [|(k, v) d IH]; [destruct H|]. cbn [d_get].
  destruct (k =? x) eqn:E; [eauto|]. apply N.eqb_neq in E. destruct H as [H|H]; [inversion H; congruence|auto].
Qed.

Lemma d_fresh_none : forall data d a, (forall x, a <= x -> x < a + len data -> MapOccupied.has_key d x) -> d_fresh d a data = 0.
Proof.
  induction data as [|b bs IH]; intros d a H; [reflexivity|]. cbn [d_fresh]. rewrite len_cons in H.
  destruct (d_get_some d a) as (y & ->); [apply H; lia|]. rewrite IH; [reflexivity|]. intros x H1 H2. apply H; lia.
Qed.

Lemma occupied_lt m x : Rep m -> occupied m x -> x < U32.
Proof. intros HR (g & Hg & H1 & H2). destruct (MapLemmas.Rep_In_ok _ _ HR Hg) as (S1 & S2 & S3). lia. Qed.

(* a write over addresses that are all occupied: put reports 0 new addresses, keeps the invariant and the occupied
   set, and the contents are those of the dictionary written cell by cell *)
Lemma put_over_ok dbg m a data : Rep m -> 0 < len data -> in_map m a (len data) ->
  exists m', map_put dbg m a data = Ok (m', Some 0) /\ Rep m' /\
    (forall x, occupied m' x <-> occupied m x) /\ abs m' = d_write (abs m) a data.
Proof.
  intros HR Hl Hin.
  assert (Ha : a < U32) by (apply (occupied_lt m a HR); apply Hin; lia).
  assert (Hb : a + len data - 1 < U32) by (apply (occupied_lt m _ HR); apply Hin; lia).
  destruct (MapPutProofs.put_ok dbg m a data HR Ha ltac:(unfold SPACE, U32 in *; lia)) as (m' & n & E & R' & D).
  unfold d_put in D. fold (len data) in D. destruct (SPACE <? a + len data) eqn:C; [unfold SPACE, U32 in *; lia|].
  pose proof (f_equal fst D) as D1. pose proof (f_equal snd D) as D2. cbn [fst snd] in D1, D2.
  assert (K : forall x, a <= x -> x < a + len data -> MapOccupied.has_key (abs m) x).
  { intros x H1 H2. apply (MapOccupied.abs_keys m x HR). apply Hin; assumption. }
  rewrite (d_fresh_none data (abs m) a K) in D2. inversion D2. subst n.
  exists m'. split; [exact E|]. split; [exact R'|]. split; [|symmetry; exact D1].
  intros x. change (MapOccupied.occupied m' x <-> MapOccupied.occupied m x).
  rewrite <- (MapOccupied.abs_keys m' x R'), <- (MapOccupied.abs_keys m x HR), <- D1, MapOccupied.d_write_keys.
  split; [intros [H|(H1 & H2)]; [exact H|apply K; assumption]|auto].
Qed.

(* ---------------------------------------------------------------- SegInv in terms of occupied addresses *)
Lemma seginv_occ m s : SegInv m s -> forall x, occupied m x -> x < s_base s \/ s_base s + s_max s <= x.
Proof. intros (_ & _ & _ & H) x (g & Hg & H1 & H2). destruct (H g Hg); lia. Qed.

Lemma seginv_of_occ m s : Rep m -> blen s <= s_max s -> 0 < s_max s -> s_base s + s_max s <= CtxSeg.U32 ->
  (forall x, occupied m x -> x < s_base s \/ s_base s + s_max s <= x) -> SegInv m s.
Proof.
  intros HR H1 H0 H2 H. repeat split; auto. intros g Hg.
  destruct (MapLemmas.Rep_In_ok _ _ HR Hg) as (S1 & S2 & S3).
  assert (O1 : occupied m (sfirst g)) by (exists g; repeat split; auto; lia).
  assert (O2 : occupied m (slast g)) by (exists g; repeat split; auto; lia).
  destruct (N.lt_ge_cases (slast g) (s_base s)) as [L|L]; [left; exact L|right].
  destruct (N.lt_ge_cases (sfirst g) (s_base s + s_max s)) as [L'|L']; [|exact L'].
  exfalso. destruct (N.lt_ge_cases (sfirst g) (s_base s)) as [L2|L2].
  - assert (O3 : occupied m (s_base s)) by (exists g; repeat split; auto; lia). destruct (H _ O3); lia.
  - destruct (H _ O1); lia.
Qed.

Lemma seginv_occ_eq m m' s : Rep m' -> (forall x, occupied m' x <-> occupied m x) -> SegInv m s -> SegInv m' s.
Proof.
  intros HR' Ho HI. pose proof (seginv_occ m s HI) as Hocc. destruct HI as (H1 & H0 & H2 & _).
  apply seginv_of_occ; auto. intros x Hx. apply Hocc. apply Ho. exact Hx.
Qed.
