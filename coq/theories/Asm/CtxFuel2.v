(* C06 proofs, part 4: the model's OutOfFuel outcome arises only from the include-depth fuel of Context::assemble, and
   not even from that when the fuel exceeds the number of files of the project.
   The five sources of OutOfFuel in CtxModel.pipeline_state:
     1. MapModel's binary search (close_segment / select_segment / put_stmt): locate never runs out of fuel on a map
        with C15's invariant Rep (MapProofs.locate_ok), and every reachable state has it (C13: good);
     2. the tokenizer / parser fuel: never (CtxNoPanic.parse_source_total);
     3. / 4. the round bound of the two task loops: never the reason (CtxFuel.local_loop_fuel / final_loop_fuel);
     5. the fuel of `assemble` itself, one unit per open file: since fix 1569db8 a path already on path_stack is refused,
        so every `.include` that recurses opens a file p with fs p <> None that is not on the stack: the number of
        files not yet open (unopened) strictly decreases along an include chain.
   Successor states: good / mono from C13 (CtxInvStep.v), tinv / keeps from C06 (CtxNoPanic.v).  Proof file. *)
From Coq Require Import ZArith NArith PeanoNat List Bool Lia.
From Trion Require Import Text.Types Mem.MapModel Mem.MapProofs Asm.CtxModel Asm.SegProofs Asm.CtxInvDefs Asm.CtxInvSeg Asm.CtxInvStep
  Asm.CtxInvTop Asm.CtxNoPanic Asm.CtxFuel.
From Trion Require Arm.AsmStmtModel Arm.EncodeModel Expr.EvalModel.
Import ListNotations.

(* ================================================================ the memory map *)
Definition NFm {A} (r : MapModel.res A) : Prop := r <> MapModel.OutOfFuel.

Lemma nfm_bind {A B} (r : MapModel.res A) (k : A -> MapModel.res B) : NFm r -> (forall a, NFm (k a)) -> NFm (MapModel.bind r k).
Proof. destruct r; cbn [MapModel.bind]; intros H K; [apply K|discriminate|exfalso; apply H; reflexivity]. Qed.

Lemma u32_add_nf dbg s a b : NFm (u32_add dbg s a b). Proof. unfold u32_add. destruct (_ <? _)%N; [|destruct dbg]; discriminate. Qed.
Lemma u32_sub_nf dbg s a b : NFm (u32_sub dbg s a b). Proof. unfold u32_sub. destruct (_ <=? _)%N; [|destruct dbg]; discriminate. Qed.
Lemma usz_add_nf dbg s a b : NFm (usz_add dbg s a b). Proof. unfold usz_add. destruct (_ <? _)%N; [|destruct dbg]; discriminate. Qed.
Lemma usz_sub_nf dbg s a b : NFm (usz_sub dbg s a b). Proof. unfold usz_sub. destruct (_ <=? _)%N; [|destruct dbg]; discriminate. Qed.
Lemma vec_get_nf {A} (l : list A) i s : NFm (vec_get l i s).
Proof. unfold vec_get. destruct (_ <? _)%N; [destruct (nth_error _ _)|]; discriminate. Qed.
Lemma vec_insert_nf {A} (l : list A) i x s : NFm (vec_insert l i x s).
Proof. unfold vec_insert. destruct (_ <=? _)%N; discriminate. Qed.
Lemma vec_drain_nf {A} (l : list A) a b s1 s2 : NFm (vec_drain l a b s1 s2).
Proof. unfold vec_drain. destruct (_ <? _)%N; [|destruct (_ <? _)%N]; discriminate. Qed.
Lemma locate_nf dbg m addr sr : Rep m -> NFm (locate dbg m addr sr).
Proof. intros HR. destruct (locate_ok dbg m addr sr HR) as (r & E & _). rewrite E. discriminate. Qed.
Lemma put_mid_loop_nf dbg n : forall m idx hi added, NFm (put_mid_loop dbg n m idx hi added).
Proof.
  induction n as [|n IH]; intros; cbn [put_mid_loop]; [discriminate|]. destruct (_ <? _)%N; [|discriminate].
  apply nfm_bind; [apply vec_get_nf|]. intros sg. apply nfm_bind; [apply usz_sub_nf|]. intros. apply IH.
Qed.

Ltac nfm :=
  repeat match goal with
  | |- NFm (MapModel.bind _ _) => apply nfm_bind; [|intros]
  | |- NFm (MapModel.Ok _) => discriminate
  | |- NFm (MapModel.Panic _) => discriminate
  | |- NFm (u32_add _ _ _ _) => apply u32_add_nf
  | |- NFm (u32_sub _ _ _ _) => apply u32_sub_nf
  | |- NFm (usz_add _ _ _ _) => apply usz_add_nf
  | |- NFm (usz_sub _ _ _ _) => apply usz_sub_nf
  | |- NFm (vec_get _ _ _) => apply vec_get_nf
  | |- NFm (vec_insert _ _ _ _) => apply vec_insert_nf
  | |- NFm (vec_drain _ _ _ _ _) => apply vec_drain_nf
  | |- NFm (put_mid_loop _ _ _ _ _ _) => apply put_mid_loop_nf
  | |- NFm (locate _ _ _ _) => apply locate_nf; assumption
  | |- NFm (if ?b then _ else _) => destruct b
  | |- NFm (match ?x with _ => _ end) => destruct x
  end.

Lemma map_put_nf dbg m a data : Rep m -> NFm (map_put dbg m a data).
Proof. intros HR. unfold map_put. nfm. Qed.

Lemma map_find_nf dbg m a sr : Rep m -> NFm (map_find dbg m a sr).
Proof. intros HR. rewrite (find_ok dbg m a sr HR). discriminate. Qed.

(* ================================================================ Context operations *)
Definition NF {A} (r : res A) : Prop := r <> OutOfFuel.
Definition RO (st : state) : Prop := Rep (output st).

Lemma nf_bind {A B} (r : res A) (k : A -> state -> res B) :
  NF r -> (forall a st1, r = Ret a st1 -> NF (k a st1)) -> NF (bind r k).
Proof. destruct r; cbn [bind]; intros H K; [apply K; reflexivity|discriminate|contradiction]. Qed.

Lemma good_RO st : good st -> RO st. Proof. intros ((HR & _) & _). exact HR. Qed.
Lemma same_RO st st' : same st st' -> RO st -> RO st'. Proof. intros (E & _). unfold RO. rewrite E. auto. Qed.

Lemma close_segment_nf dbg st : RO st -> NF (close_segment dbg st).
Proof.
  intros HR. unfold close_segment. destruct (active st) as [|s]; [discriminate|].
  pose proof (map_put_nf dbg (output st) (s_base s) (s_buf s) HR) as K.
  destruct (map_put dbg (output st) (s_base s) (s_buf s)) as [[m' [n|]]| |]; try discriminate; [|contradiction].
  destruct (_ =? _)%N; discriminate.
Qed.

Lemma select_segment_nf dbg st addr : RO st -> NF (select_segment dbg st addr).
Proof.
  intros HR. unfold select_segment. pose proof (map_find_nf dbg (output st) addr Above HR) as K.
  destruct (map_find dbg (output st) addr Above) as [r| |]; try discriminate; [|contradiction].
  match goal with |- context [if ?b then _ else _] => destruct b end; [discriminate|].
  destruct (active st); [|discriminate]. destruct (make_active dbg addr _); discriminate.
Qed.

Lemma change_segment_nf dbg st addr : good st -> NF (change_segment dbg st addr).
Proof.
  intros G. unfold change_segment. destruct (active st) as [|s] eqn:EA; [apply select_segment_nf, good_RO, G|].
  match goal with |- context [if ?b then _ else _] => destruct b end; [discriminate|].
  destruct (close_good dbg st G) as (st' & b & E & G' & _). rewrite E. cbn [bind]. apply select_segment_nf, good_RO, G'.
Qed.

Lemma put_stmt_nf dbg st f l c a d k p : RO st -> NF (put_stmt dbg st f l c a d k p).
Proof.
  intros HR. unfold put_stmt. pose proof (map_put_nf dbg (output st) a d HR) as K.
  destruct (map_put dbg (output st) a d) as [[m' [n|]]| |]; try discriminate; [|contradiction].
  destruct (_ =? _)%N; discriminate.
Qed.

Lemma write_stmt_nf dbg st f l c a d k1 k2 p : RO st -> NF (write_stmt dbg st f l c a d k1 k2 p).
Proof.
  intros HR. unfold write_stmt. destruct (active st) as [|s]; [apply put_stmt_nf; exact HR|].
  destruct (covers dbg s a) as [[|]| |]; try discriminate; [|apply put_stmt_nf; exact HR].
  destruct (seg_write_at dbg s a d); discriminate.
Qed.

Lemma write_instr_nf dbg st ai d : RO st -> NF (write_instr dbg st ai d).
Proof. intros HR. unfold write_instr. destruct (EncodeModel.enc_bytes _ _); try discriminate. apply write_stmt_nf; exact HR. Qed.
Lemma write_data_nf dbg st d data : RO st -> NF (write_data dbg st d data).
Proof. intros HR. apply write_stmt_nf; exact HR. Qed.

Lemma instr_assemble_nf st ai local : NF (instr_assemble st ai local).
Proof. unfold instr_assemble. destruct (first_panic _ _); [discriminate|]. destruct (AsmStmtModel.assemble_args _ _ _ _ _); discriminate. Qed.
Lemma instr_assemble_RO st ai local x st1 : instr_assemble st ai local = Ret x st1 -> RO st -> RO st1.
Proof.
  intros E. pose proof (instr_assemble_inv st ai local) as K. rewrite E in K. destruct x as [op ai']. destruct K as (S & _).
  apply same_RO; exact S.
Qed.

Lemma add_task_nf st t r : NF (add_task st t r).
Proof. unfold add_task. destruct r; [discriminate|]. destruct (local_tasks st); discriminate. Qed.
Lemma insert_constant_nf st n v r : NF (insert_constant st n v r).
Proof.
  unfold insert_constant. destruct (is_register n); [discriminate|]. destruct (realm_table st r); [|discriminate].
  destruct (tbl_get t n) as [[z|]|]; discriminate.
Qed.
Lemma defer_constant_nf st n r : NF (defer_constant st n r).
Proof.
  unfold defer_constant. destruct (is_register n); [discriminate|]. destruct (realm_table st r); [|discriminate].
  destruct (tbl_get t n); discriminate.
Qed.

Ltac nf :=
  repeat match goal with
  | |- NF (bind _ _) => apply nf_bind; [|intros]
  | |- NF (Ret _ _) => discriminate
  | |- NF (Panic _) => discriminate
  | |- NF (add_task _ _ _) => apply add_task_nf
  | |- NF (insert_constant _ _ _ _) => apply insert_constant_nf
  | |- NF (defer_constant _ _ _) => apply defer_constant_nf
  | |- NF (eval_now _ _ _ _) => apply eval_now_fuel
  | |- NF (instr_assemble _ _ _) => apply instr_assemble_nf
  | |- NF (if ?b then _ else _) => destruct b
  | |- NF (match ?x with _ => _ end) => destruct x
  end.

Lemma assemble_instr_nf dbg st line col name args : RO st -> NF (assemble_instr dbg st line col name args).
Proof.
  intros HR. unfold assemble_instr. destruct (active st) as [|s]; [discriminate|].
  destruct (has_remaining dbg s 2) as [[|]| |]; try discriminate.
  destruct (AsmStmtModel.template name) as [t|]; [|discriminate].
  apply nf_bind; [apply instr_assemble_nf|]. intros [op ai'] st1 E. pose proof (instr_assemble_RO _ _ _ _ _ E HR) as H1.
  assert (K : NF (bind (write_instr dbg st1 ai' true) (fun w st2 => match w with
               | Some l => Ret (Some l) st2
               | None => bind (add_task st2 (InstrTask ai' false) RLocal) (fun _ st3 => Ret None st3) end))).
  { apply nf_bind; [apply write_instr_nf; exact H1|]. intros. nf. }
  destruct op; [apply write_instr_nf; exact H1|exact K|exact K].
Qed.

Lemma data_apply_nf dbg st d local : RO st -> NF (data_apply dbg st d local).
Proof.
  intros HR. unfold data_apply. destruct (ctx_eval st (de_arg d)) as [a' [c|c cause]|a' e|p]; try discriminate.
  - destruct a'; try discriminate. destruct (_ && _); [|discriminate].
    apply nf_bind; [apply write_data_nf; exact HR|]. intros; discriminate.
  - destruct e, local; discriminate.
Qed.

(* a .du* statement that was not completed left the map alone *)
Lemma data_apply_RO dbg st d local r d' st1 : data_apply dbg st d local = Ret (r, d') st1 -> r <> DCompleted -> RO st -> RO st1.
Proof.
  assert (F : forall c (x : res (dop * dexpr)), x = Ret (r, d') st1 ->
            (x = Ret (r, d') st \/ x = Ret (r, d') (push_error_in st (de_file d) (de_line d) (de_col d) c)) ->
            r <> DCompleted -> RO st -> RO st1).
  { intros c x E [X|X]; rewrite X in E; inversion E; subst; intros _ HR; exact HR. }
  unfold data_apply. destruct (ctx_eval st (de_arg d)) as [a' [c|c cause]|a' e|p]; try discriminate.
  - destruct a'; try (intros H; apply (F KDirArgType _ H); right; inversion H; reflexivity).
    destruct (_ && _); [|intros H; apply (F (KApply ADataRange) _ H); right; inversion H; reflexivity].
    unfold write_data. destruct (write_stmt dbg st _ _ _ _ _ _ _ _) as [w st2| |] eqn:W; cbn [bind]; try discriminate.
    intros H NC HR. inversion H; subst. destruct w as [lv|]; [|congruence].
    eapply same_RO; [eapply write_stmt_some; exact W|exact HR].
  - intros H. apply (F KParse _ H). left. inversion H; reflexivity.
  - destruct e, local; intros H; first [apply (F KParse _ H); left; inversion H; reflexivity
                                      |apply (F (KApply AEval) _ H); right; inversion H; reflexivity].
Qed.

Lemma dir_data_nf dbg st line col k args : RO st -> NF (dir_data dbg st line col k args).
Proof.
  intros HR. unfold dir_data. destruct (active st) as [|s]; [discriminate|].
  destruct (has_remaining dbg s (dk_size k)) as [[|]| |]; try discriminate.
  destruct (arity_check st line col args 1); [discriminate|]. destruct args as [|a rest]; [discriminate|].
  apply nf_bind; [apply data_apply_nf; exact HR|]. intros [op d'] st1 E.
  assert (K : op <> DCompleted -> NF (bind (write_data dbg st1 d' (padding (dk_size k))) (fun w st2 => match w with
               | Some l => Ret (Some l) st2
               | None => bind (add_task st2 (DataTask d' false) RLocal) (fun _ st3 => Ret None st3) end))).
  { intros NC. apply nf_bind; [apply write_data_nf; eapply data_apply_RO; eauto|]. intros. nf. }
  destruct op; [discriminate|apply K; discriminate|apply K; discriminate].
Qed.

Lemma run_task_nf dbg st t : RO st -> NF (run_task dbg st t).
Proof.
  intros HR. destruct t as [ai g|d g|name line col|name line col]; cbn [run_task].
  - apply nf_bind; [apply instr_assemble_nf|]. intros [op ai'] st1 E. pose proof (instr_assemble_RO _ _ _ _ _ E HR) as H1.
    destruct op; [apply write_instr_nf; exact H1| |discriminate]. destruct g; [discriminate|]. nf.
  - apply nf_bind; [apply data_apply_nf; exact HR|]. intros [op d'] st1 E. nf.
  - destruct (get_constant st name RLocal) as [[v| |]|]; try discriminate. nf.
  - destruct (get_constant st name RLocal) as [[v| |]|]; discriminate.
Qed.

Lemma dir_addr_nf dbg st line col args : good st -> NF (dir_addr dbg st line col args).
Proof.
  intros G. unfold dir_addr. destruct (arity_check st line col args 1); [discriminate|]. destruct args as [|a rest]; [discriminate|].
  apply nf_bind; [apply eval_now_fuel|]. intros x st1 E. pose proof (eval_now_same _ _ _ _ _ _ E) as S.
  destruct (same_good _ _ S G) as (G1 & _). destruct x as [a'|l]; [|discriminate]. destruct a'; try discriminate.
  destruct (u32_of v); [|discriminate]. apply nf_bind; [apply change_segment_nf; exact G1|]. intros. nf.
Qed.

Lemma seg_update_nf st l c r : NF (seg_update st l c r). Proof. destruct r; discriminate. Qed.

Lemma dir_align_nf dbg st line col args : NF (dir_align dbg st line col args).
Proof.
  unfold dir_align. destruct (active st) as [|s]; [discriminate|]. destruct (arity_check st line col args 1); [discriminate|].
  destruct args as [|a rest]; [discriminate|]. apply nf_bind; [apply eval_now_fuel|]. intros x st1 _.
  destruct x as [a'|l]; [|discriminate]. destruct a'; try discriminate. destruct (u32_of v) as [[|p]|]; try discriminate.
  destruct (_ =? 0)%N; [discriminate|]. destruct (has_remaining dbg s _) as [[|]| |]; try discriminate. apply seg_update_nf.
Qed.

Lemma dir_const_nf st line col args : NF (dir_const st line col args).
Proof.
  unfold dir_const. destruct (arity_check st line col args 2); [discriminate|]. destruct args as [|a0 [|a1 rest]]; try discriminate.
  destruct a0; try discriminate. nf.
Qed.

Lemma dir_bytes_nf dbg fs st line col d args : NF (dir_bytes dbg fs st line col d args).
Proof.
  unfold dir_bytes. destruct (active st) as [|s]; [discriminate|]. destruct (arity_check st line col args 1); [discriminate|].
  destruct args as [|a rest]; [discriminate|]. destruct a; try discriminate. destruct d; try apply seg_update_nf.
  - destruct (hex_decode s0 None []); try discriminate. apply seg_update_nf.
  - destruct (path_stack st); [discriminate|]. destruct (fs _); [|discriminate].
    destruct (has_remaining dbg s _) as [[|]| |]; try discriminate. apply seg_update_nf.
Qed.

Lemma dir_global_nf st line col d args : NF (dir_global st line col d args).
Proof.
  unfold dir_global. destruct (arity_check st line col args 1); [discriminate|]. destruct args as [|a rest]; [discriminate|].
  destruct a; try discriminate. destruct d; nf.
Qed.

(* ================================================================ files *)
Definition on_stack (stk : list str) (p : str) : bool := existsb (fun o => str_eqb o p) stk.

Section Files.
  Variables (dbg : bool) (fs : str -> option (list N)).

  (* the recursive call for `.include "name"` in state st: made only for a file that can be opened and is not open *)
  Definition inc_at (inc : state -> list N -> str -> res result) (st : state) (name : str) : Prop :=
    let p := resolve_path (match path_stack st with [] => [] | c :: _ => c end) name in
    on_stack (path_stack st) p = false -> forall data, fs p = Some data -> NF (inc st data p).

  (* what may be assumed of the recursive call while the statements `items` of a file run on the stack stk *)
  Definition IncP (stk : list str) (items : list ParseModel.item) (inc : state -> list N -> str -> res result) : Prop :=
    forall el n name rest st, In (ParseModel.IOk el) items -> e_val el = EDirective n (AStr name :: rest) ->
      dir_of n = Some DInclude -> good st -> tinv st -> path_stack st = stk -> inc_at inc st name.

  Lemma dir_include_nf inc st line col args : (forall name rest, args = AStr name :: rest -> inc_at inc st name) ->
    NF (dir_include fs inc st line col args).
  Proof.
    intros HI. unfold dir_include. destruct (arity_check st line col args 1); [discriminate|].
    destruct args as [|a rest]; [discriminate|]. destruct a; try discriminate.
    specialize (HI s rest eq_refl). unfold inc_at, on_stack in HI. cbv zeta in HI.
    destruct (existsb _ _) eqn:EX; [discriminate|].
    match goal with |- context [fs ?p] => destruct (fs p) as [data|] eqn:EF end; [|discriminate].
    apply nf_bind; [apply (HI eq_refl data EF)|]. intros x st1 _. destruct x; discriminate.
  Qed.

  Lemma step_nf inc st e :
    (forall n name rest, e_val e = EDirective n (AStr name :: rest) -> dir_of n = Some DInclude -> inc_at inc st name) ->
    good st -> tinv st -> NF (step dbg fs inc st e).
  Proof.
    intros HI G T. pose proof (good_RO _ G) as HR. unfold step. destruct (e_val e) as [name|name args|name args].
    - destruct (active st); [discriminate|]. nf.
    - unfold process_directive. destruct (dir_of name) as [[]|] eqn:ED; try discriminate.
      + apply dir_addr_nf; exact G.
      + apply dir_align_nf.
      + apply dir_const_nf.
      + apply dir_data_nf; exact HR.
      + apply dir_bytes_nf.
      + apply dir_bytes_nf.
      + apply dir_bytes_nf.
      + apply dir_global_nf.
      + apply dir_global_nf.
      + apply dir_global_nf.
      + apply dir_include_nf. intros nm rest ->. exact (HI name nm rest eq_refl ED).
    - destruct (active st); [discriminate|]. apply assemble_instr_nf; exact HR.
  Qed.

  Lemma run_items_nf inc items : inc_ok inc -> inc_q inc ->
    forall st, IncP (path_stack st) items inc -> good st -> tinv st -> infile st -> NF (run_items dbg fs inc items st).
  Proof.
    intros IO IQ. induction items as [|it rest IH]; intros st HI G T I; cbn [run_items]; [discriminate|].
    destruct it as [el|e]; [|discriminate].
    pose proof (step_post dbg fs inc st el IO G) as P. pose proof (step_q dbg fs inc st el IQ T I) as Q.
    apply nf_bind.
    { apply step_nf; try assumption. intros n name rs E1 E2. exact (HI el n name rs st (or_introl eq_refl) E1 E2 G T eq_refl). }
    intros r st1 E. rewrite E in P, Q. destruct P as (G1 & _). destruct Q as (T1 & K1).
    destruct r; [discriminate|]. apply IH; try assumption; [|eapply infile_keeps; eauto].
    destruct K1 as (P1 & _). rewrite P1. intros el' n name rs st' Hin. apply HI. right. exact Hin.
  Qed.

  Lemma do_assemble_nf inc st data : inc_ok inc -> inc_q inc ->
    (forall items tail, parse_source data = Parsed items tail -> IncP (path_stack st) items inc) ->
    good st -> tinv st -> infile st -> NF (do_assemble dbg fs inc st data).
  Proof.
    intros IO IQ HI G T I. unfold do_assemble. destruct (parse_source_total data) as (items & E). rewrite E.
    apply nf_bind; [apply run_items_nf; try assumption; eapply HI; exact E|]. intros r st1 _. destruct r; discriminate.
  Qed.

  Lemma local_round_nf tasks : forall st r, good st -> tasks_ok st tasks -> tinv st -> infile st -> NF (local_round dbg tasks st r).
  Proof.
    induction tasks as [|t rest IH]; intros st r G HT T I; cbn [local_round]; [discriminate|].
    inversion HT as [|? ? Ht Hr]; subst.
    pose proof (run_task_post dbg st t G Ht) as P. pose proof (run_task_q dbg st t T (or_introl I)) as Q.
    apply nf_bind; [apply run_task_nf, good_RO, G|]. intros x st1 E. rewrite E in P, Q. destruct P as (G1 & M1). destruct Q as (T1 & K1).
    assert (HT1 : tasks_ok st1 rest) by (eapply tasks_ok_mono; eauto). pose proof (infile_keeps _ _ I K1) as I1.
    destruct x as [lvl|]; [|apply IH; assumption]. destruct (is_fatal lvl); [discriminate|apply IH; assumption].
  Qed.

  Lemma local_loop_nf tasks st r : good st -> tasks_ok st tasks -> tinv st -> infile st -> local_tasks st = Some [] ->
    NF (local_loop dbg task_rounds tasks st r).
  Proof.
    intros G HT T I E H. apply (local_loop_fuel dbg 3 tasks st r T I E) in H. revert H. apply local_round_nf; assumption.
  Qed.

  Lemma leave_file_nf st fr : NF (leave_file st fr).
  Proof. unfold leave_file. destruct (negb _); [discriminate|]. destruct (path_stack st); discriminate. Qed.

  Lemma assemble_body_nf inc st data path : inc_ok inc -> inc_q inc ->
    (forall items tail, parse_source data = Parsed items tail -> IncP (path :: path_stack st) items inc) -> good st -> tinv st ->
    NF (assemble_body dbg fs inc st data path).
  Proof.
    intros IO IQ HI G (TG & TL). unfold assemble_body.
    destruct (enter_file_good st path G) as (G0 & _). unfold enter_file in *. cbn [fst] in G0.
    set (st0 := mkState _ _ _ _ _ _ _ _ _) in *. set (fr := mkFrame _ _ _ _).
    assert (T0 : tinv st0). { split; cbn; [|apply regs_ok_nil]. destruct (locals st); assumption. }
    assert (I0 : infile st0) by (split; [|split]; cbn; discriminate).
    pose proof (do_assemble_post dbg fs inc st0 data IO G0) as P. pose proof (do_assemble_q dbg fs inc st0 data IQ T0 I0) as Q.
    apply nf_bind; [apply do_assemble_nf; assumption|]. intros r st1 E. rewrite E in P, Q.
    destruct P as (G1 & _). destruct Q as (T1 & K1). pose proof (infile_keeps _ _ I0 K1) as I1.
    apply nf_bind; [|intros; apply nf_bind; [apply leave_file_nf|intros; discriminate]].
    destruct (res_is_fatal r); [discriminate|]. destruct (local_tasks st1) as [tasks|] eqn:EL; [|discriminate].
    assert (Hn : tasks_ok st1 tasks). { destruct G1 as (_ & _ & K). rewrite EL in K. exact K. }
    destruct (set_local_tasks_good st1 [] G1 (Forall_nil _)) as (G2 & M2).
    destruct (set_local_tasks_q st1 [] T1 I1) as (T2 & _ & I2).
    apply local_loop_nf; try assumption; try reflexivity; eapply tasks_ok_mono; eauto.
  Qed.

  (* ---------------------------------------------------------------- the pigeonhole on path_stack *)
  Definition unopened (files stk : list str) : list str := filter (fun p => negb (on_stack stk p)) files.

  Lemma filter_le {A} (f g : A -> bool) l : (forall y, f y = true -> g y = true) -> (length (filter f l) <= length (filter g l))%nat.
  Proof.
    intros H. induction l as [|y l IH]; cbn [filter]; [lia|]. destruct (f y) eqn:F.
    - rewrite (H y F). cbn [length]. lia.
    - destruct (g y); cbn [length]; lia.
  Qed.
  Lemma filter_lt {A} (f g : A -> bool) l x : (forall y, f y = true -> g y = true) -> In x l -> g x = true -> f x = false ->
    (length (filter f l) < length (filter g l))%nat.
  Proof.
    intros H. induction l as [|y l IH]; intros Hi Gx Fx; [destruct Hi|]. cbn [filter]. destruct Hi as [->|Hi].
    - rewrite Fx, Gx. cbn [length]. pose proof (filter_le f g l H). lia.
    - specialize (IH Hi Gx Fx). destruct (f y) eqn:F; [rewrite (H y F); cbn [length]; lia|]. destruct (g y); cbn [length]; lia.
  Qed.

  Lemma unopened_push files stk p : In p files -> on_stack stk p = false ->
    (length (unopened files (p :: stk)) < length (unopened files stk))%nat.
  Proof.
    intros Hi Hn. unfold unopened. apply (filter_lt _ _ files p).
    - intros y. unfold on_stack. cbn [existsb]. destruct (str_eqb p y); cbn [orb negb]; [discriminate|auto].
    - exact Hi.
    - rewrite Hn. reflexivity.
    - unfold on_stack. cbn [existsb]. rewrite str_eqb_same. reflexivity.
  Qed.

  Variable files : list str.
  Hypothesis Hfiles : forall p, fs p <> None -> In p files.

  Lemma assemble_nf : forall fuel st data path, good st -> tinv st ->
    (length (unopened files (path :: path_stack st)) < fuel)%nat -> NF (assemble dbg fs fuel st data path).
  Proof.
    induction fuel as [|f IH]; intros st data path G T L; [lia|]. cbn [assemble].
    apply assemble_body_nf; try assumption; [apply assemble_inc_ok|apply assemble_q|].
    intros items tail _ el n name rest st' _ _ _ G' T' P'. unfold inc_at. cbv zeta. rewrite P'. intros NX data' EF.
    apply IH; try assumption. rewrite P'.
    match type of EF with fs ?p = _ =>
      pose proof (unopened_push files (path :: path_stack st) p (Hfiles p ltac:(congruence)) NX) end. lia.
  Qed.

  (* ---------------------------------------------------------------- finalize and the pipeline *)
  Lemma final_round_nf tasks : forall st, good st -> tasks_ok st tasks -> tinv st -> path_stack st = [] -> Forall plain tasks ->
    NF (final_round dbg tasks st).
  Proof.
    induction tasks as [|t rest IH]; intros st G HT T P F; cbn [final_round]; [discriminate|].
    inversion HT as [|? ? Ht Hr]; subst. inversion F as [|? ? Pt Fr]; subst.
    pose proof (run_task_post dbg st t G Ht) as PP. pose proof (run_task_q dbg st t T (or_intror (conj P Pt))) as Q.
    apply nf_bind; [apply run_task_nf, good_RO, G|]. intros x st1 E. rewrite E in PP, Q. destruct PP as (G1 & M1). destruct Q as (T1 & K1).
    destruct (res_is_fatal x); [discriminate|]. apply IH; try assumption; [eapply tasks_ok_mono; eauto|].
    destruct K1 as (P1 & _). congruence.
  Qed.

  Lemma finalize_nf st : good st -> tinv st -> path_stack st = [] -> Forall plain (global_tasks st) -> NF (finalize dbg st).
  Proof.
    intros G T P F. unfold finalize. apply nf_bind; [|intros; discriminate].
    destruct (set_global_tasks_good st [] G (Forall_nil _)) as (G2 & M2).
    intros H. apply (final_loop_fuel dbg 3 (global_tasks st) (set_global_tasks st []) T P F eq_refl) in H. revert H.
    apply final_round_nf; try assumption. destruct G as (_ & K & _). eapply tasks_ok_mono; eauto.
  Qed.

  Lemma pipeline_tail_nf fuel path text : NF (assemble dbg fs fuel init_state text path) -> NF (pipeline_state dbg fs fuel path text).
  Proof.
    intros NA. unfold pipeline_state.
    pose proof (assemble_post dbg fs fuel init_state text path good_init) as P.
    pose proof (assemble_q dbg fs fuel init_state text path tinv_init) as Q.
    apply nf_bind; [exact NA|].
    intros r st1 E. rewrite E in P, Q. destruct P as (G1 & _). destruct Q as (T1 & P1 & _ & _ & l & GT1 & F1). cbn in P1, GT1.
    destruct (close_good dbg st1 G1) as (st2 & b & EC & G2 & _). rewrite EC. cbn [bind].
    pose proof (close_segment_s dbg st1) as C. rewrite EC in C. cbn [spost] in C. destruct C as (E1 & E2 & E3 & E4 & E5).
    apply nf_bind; [|intros; discriminate]. apply finalize_nf; [exact G2| | |].
    - eapply eqs_tinv; [|exact T1]. repeat split; assumption.
    - congruence.
    - rewrite E3, GT1. exact F1.
  Qed.

  Theorem pipeline_state_nf fuel path text : (length files < fuel)%nat -> NF (pipeline_state dbg fs fuel path text).
  Proof.
    intros L. apply pipeline_tail_nf.
    apply assemble_nf; [exact good_init|exact tinv_init|]. unfold unopened.
    pose proof (filter_le (fun p => negb (on_stack (path :: path_stack init_state) p)) (fun _ => true) files (fun _ _ => eq_refl)) as K.
    assert (E : filter (fun _ : str => true) files = files) by (clear; induction files as [|x l IH]; cbn; [reflexivity|now rewrite IH]).
    rewrite E in K. lia.
  Qed.

  (* ---------------------------------------------------------------- the same by include depth *)
  (* `.include "name"` is a statement of the source text data *)
  Definition includes (data : list N) (name : str) : Prop :=
    exists items tail el n rest, parse_source data = Parsed items tail /\ In (ParseModel.IOk el) items /\
      e_val el = EDirective n (AStr name :: rest) /\ dir_of n = Some DInclude.
  (* rank decreases along every include that can be opened *)
  Definition rank_ok (rank : str -> nat) (path : str) (data : list N) : Prop :=
    forall name, includes data name -> fs (resolve_path path name) <> None -> (rank (resolve_path path name) < rank path)%nat.

  Variable rank : str -> nat.
  Hypothesis Hrank : forall p d, fs p = Some d -> rank_ok rank p d.

  Lemma assemble_nf_depth : forall fuel st data path, good st -> tinv st -> rank_ok rank path data ->
    (rank path < fuel)%nat -> NF (assemble dbg fs fuel st data path).
  Proof.
    clear Hfiles. induction fuel as [|f IH]; intros st data path G T HR L; [lia|]. cbn [assemble].
    apply assemble_body_nf; try assumption; [apply assemble_inc_ok|apply assemble_q|].
    intros items tail EP el n name rest st' Hin E1 E2 G' T' P'. unfold inc_at. cbv zeta. rewrite P'. intros _ data' EF.
    assert (LT : (rank (resolve_path path name) < rank path)%nat).
    { apply HR; [exists items, tail, el, n, rest; auto|congruence]. }
    apply IH; try assumption; [eapply Hrank; exact EF|lia].
  Qed.

  Theorem pipeline_state_nf_depth fuel path text : rank_ok rank path text -> (rank path < fuel)%nat ->
    NF (pipeline_state dbg fs fuel path text).
  Proof. intros HR L. apply pipeline_tail_nf. apply assemble_nf_depth; [exact good_init|exact tinv_init|exact HR|exact L]. Qed.

End Files.

(* C06_no_out_of_fuel *)
Theorem no_out_of_fuel dbg fs fuel path text files :
  (forall p, fs p <> None -> In p files) -> (length files < fuel)%nat -> pipeline_gen dbg fs fuel path text <> POutOfFuel.
Proof.
  intros HF L. unfold pipeline_gen. pose proof (pipeline_state_nf dbg fs files HF fuel path text L) as K.
  destruct (pipeline_state dbg fs fuel path text); [discriminate|discriminate|exact (fun _ => K eq_refl)].
Qed.

(* the same by include depth: rank = any function that decreases along every `.include` that can be opened (the height of
   a file in the include graph); the fuel need only exceed the rank of the root *)
Theorem no_out_of_fuel_depth dbg fs fuel path text (rank : str -> nat) :
  rank_ok fs rank path text -> (forall p d, fs p = Some d -> rank_ok fs rank p d) -> (rank path < fuel)%nat ->
  pipeline_gen dbg fs fuel path text <> POutOfFuel.
Proof.
  intros HR HF L. unfold pipeline_gen. pose proof (pipeline_state_nf_depth dbg fs rank HF fuel path text HR L) as K.
  destruct (pipeline_state dbg fs fuel path text); [discriminate|discriminate|exact (fun _ => K eq_refl)].
Qed.

(* a project without files (single source text): any positive fuel *)
Corollary no_out_of_fuel_single dbg fuel path text : pipeline_gen dbg (fun _ => None) (S fuel) path text <> POutOfFuel.
Proof. apply (no_out_of_fuel dbg (fun _ => None) (S fuel) path text []); [intros p H; exfalso; apply H; reflexivity|cbn; lia]. Qed.

Theorem always_done fs path text files :
  (forall p, fs p <> None -> In p files) -> (length files < include_fuel)%nat ->
  exists s diags regions, pipeline fs path text = Done s diags regions.
Proof.
  intros HF L. unfold pipeline. pose proof (no_out_of_fuel false fs include_fuel path text files HF L) as K.
  pose proof (never_panics false fs include_fuel path text) as NP.
  destruct (pipeline_gen false fs include_fuel path text) as [p| |s d r]; [exfalso; exact (NP p eq_refl)|contradiction|eauto].
Qed.
