(* C05 proofs, part 12: order independence and "no placeholder left" as statements of their own.
   Under no_collision the reference's items do not overlap pairwise, so the reference dictionary holds, at the address of
   EVERY statement, exactly the bytes pass 2 computed for it in the FINAL symbol table (and nothing outside the
   statements).  With layout_accepts this is a statement about the pipeline's image: a deferred statement carries the
   bytes of its value - not the 0xBE placeholder -, and the value is the one in the final table whether the symbols it
   mentions are defined before or after it. *)
From Coq Require Import ZArith NArith PeanoNat List Bool Lia ZifyBool ZifyNat ZifyN String.
From Trion Require Import Text.Types Expr.I64 Expr.EvalModel Expr.Denote Arm.Instr Arm.DisplayModel Arm.AsmStmtModel Arm.EncodeModel
  Mem.MapModel Mem.DictSpec Mem.MapProofs Mem.MapLemmas
  Asm.CtxModel Asm.LayoutSpec Asm.LayoutWf Asm.LayoutInstr Asm.LayoutDict Asm.LayoutSim Asm.LayoutStep Asm.LayoutFinal Asm.LayoutProg Asm.LayoutProgFinal.
From Trion Require Text.ParseModel.
Import ListNotations.
Open Scope N_scope.

(* ------------------------------------------------------------------ pass 1 only conses items *)
Lemma pass1_step_items fs s e s1 : pass1_step fs s e = Some s1 ->
  p_items s1 = p_items s \/ exists a it, p_items s1 = (a, it) :: p_items s.
Proof.
  intros H. unfold pass1_step in H.
  repeat match type of H with
         | context[match ?x with _ => _ end] =>
             first [ match x with define _ _ _ => fail 2 end | match x with place _ _ _ => fail 2 end | destruct x eqn:? ]
         end; try discriminate H;
  try (apply place_items in H; destruct H as (c' & _ & C2); right; eauto);
  try (apply define_items in H; left; exact H).
  all: try (inversion H; subst; left; reflexivity).
Qed.

Lemma pass1_app fs : forall l1 l2 s, pass1 fs s (l1 ++ l2) = match pass1 fs s l1 with Some s1 => pass1 fs s1 l2 | None => None end.
Proof. induction l1 as [|e r IH]; intros l2 s; [reflexivity|]. cbn [app pass1]. destruct (pass1_step fs s e); [apply IH|reflexivity]. Qed.

(* ------------------------------------------------------------------ no_collision: the items do not overlap pairwise *)
Fixpoint NoOverlap (items : list (N * item)) : Prop :=
  match items with
  | [] => True
  | (a, it) :: r => (forall x, a <= x -> x < a + item_size it -> ~ covered r x) /\ NoOverlap r
  end.

Definition nc_from (fs : str -> option (list N)) (s : p1) (l : list element_value) : Prop :=
  forall pre e post s0 s1, l = pre ++ e :: post -> pass1 fs s pre = Some s0 -> pass1_step fs s0 e = Some s1 ->
    forall a it x, p_items s1 = (a, it) :: p_items s0 -> a <= x -> x < a + item_size it -> ~ covered (p_items s0) x.

Lemma pass1_nooverlap fs : forall l s s', nc_from fs s l -> NoOverlap (p_items s) -> pass1 fs s l = Some s' -> NoOverlap (p_items s').
Proof.
  induction l as [|e r IH]; intros s s' NC NO HP; cbn [pass1] in HP.
  - inversion HP; subst. exact NO.
  - destruct (pass1_step fs s e) as [s1|] eqn:P1; [|discriminate].
    apply (IH s1 s'); [| |exact HP].
    + intros pre e0 post s0 s2 Hl Hp. apply (NC (e :: pre) e0 post s0 s2); [rewrite Hl; reflexivity|]. cbn [pass1]. rewrite P1. exact Hp.
    + destruct (pass1_step_items _ _ _ _ P1) as [Eq|(a & it & Eq)]; rewrite Eq; [exact NO|].
      split; [|exact NO]. intros x X1 X2. apply (NC [] e r s s1 eq_refl eq_refl P1 a it x Eq X1 X2).
Qed.

(* ------------------------------------------------------------------ the reference dictionary, statement by statement *)
Lemma gdict_at E : forall items, NoOverlap items ->
  forall a it bs, In (a, it) items -> pass2_item E a it = Some bs -> at_bytes (gdict E items) a bs.
Proof.
  induction items as [|(a0, it0) r IH]; intros NO a it bs Hi P2; [destruct Hi|].
  destruct NO as (N0 & NO). cbn [gdict]. destruct Hi as [Hi|Hi].
  - inversion Hi; subst a0 it0. rewrite P2. apply at_bytes_write.
  - pose proof (IH NO a it bs Hi P2) as AB.
    destruct (pass2_item E a0 it0) as [bs0|] eqn:P0; [|exact AB].
    intros x X1 X2. rewrite d_get_d_write. rewrite wr_out; [apply AB; assumption|].
    destruct (N.lt_ge_cases x a0) as [L|L]; [now left|]. destruct (N.le_gt_cases (a0 + mlen bs0) x) as [G|G]; [now right|].
    exfalso. apply (N0 x L); [rewrite <- (pass2_size _ _ _ _ P0); exact G|].
    exists a, it. split; [exact Hi|]. rewrite <- (pass2_size _ _ _ _ P2). lia.
Qed.

(* ------------------------------------------------------------------ placed <-> items *)
Definition image_dict (placed : list (N * list N * list str)) : dict :=
  fold_left (fun d x => d_write d (fst (fst x)) (snd (fst x))) placed [].

Lemma image_of_dict placed : image_of placed = runs (image_dict placed).
Proof. reflexivity. Qed.

Definition pl_of (x : N * list N * (N * item)) : N * list N * list str := (fst (fst x), snd (fst x), item_idents (snd (snd x))).

Lemma pass2_placed E : forall its pl, pass2 E its = Some pl ->
  (forall a bs ids, In (a, bs, ids) (map pl_of (combine pl its)) -> exists it, In (a, it) its /\ pass2_item E a it = Some bs) /\
  (forall a it, In (a, it) its -> exists bs, pass2_item E a it = Some bs /\ In (a, bs, item_idents it) (map pl_of (combine pl its))).
Proof.
  induction its as [|(a0, it0) r IH]; intros pl H; cbn [pass2] in H.
  - inversion H; subst. split; [intros a bs ids []|intros a it []].
  - destruct (pass2_item E a0 it0) as [b|] eqn:E1; [|discriminate]. destruct (pass2 E r) as [rest|] eqn:E2; [|discriminate].
    inversion H; subst pl. destruct (IH rest eq_refl) as (I1 & I2). cbn [combine map]. split.
    + intros a bs ids [Hi|Hi].
      * unfold pl_of in Hi. cbn [fst snd] in Hi. inversion Hi; subst. exists it0. split; [now left|exact E1].
      * destruct (I1 a bs ids Hi) as (it & H1 & H3). exists it. split; [now right|exact H3].
    + intros a it [Hi|Hi].
      * inversion Hi; subst. exists b. split; [exact E1|]. left. reflexivity.
      * destruct (I2 a it Hi) as (bs & H1 & H3). exists bs. split; [exact H1|now right].
Qed.

Section Top.
  Variables (fs : str -> option (list N)) (prog : list element_value) (placed : list (N * list N * list str)) (env : env).
  Hypothesis HL : layout_spec fs prog = Some (placed, env).
  Hypothesis NC : no_collision fs prog.

  Lemma spec_parts : exists sF pl, pass1 fs (mkP1 None [] []) prog = Some sF /\ env = p_env sF /\
    pass2 env (rev (p_items sF)) = Some pl /\ placed = map pl_of (combine pl (rev (p_items sF))) /\
    image_dict placed = gdict env (p_items sF) /\ NoOverlap (p_items sF).
  Proof.
    unfold layout_spec in HL. destruct (pass1 fs (mkP1 None [] []) prog) as [sF|] eqn:P1; [|discriminate].
    destruct (pass2 (p_env sF) (rev (p_items sF))) as [pl|] eqn:P2; [|discriminate]. inversion HL; subst placed env.
    exists sF, pl. repeat split; auto.
    - unfold image_dict. rewrite pass2_fold with (E := p_env sF) by exact P2. apply gdict_fold.
    - apply (pass1_nooverlap fs prog (mkP1 None [] []) sF); [|exact I|exact P1].
      intros pre e post s0 s1 Hl Hp Hs. destruct (NC pre e post s0 s1 Hl Hp Hs) as (_ & N2). exact N2.
  Qed.

  (* every statement's bytes, and nothing else *)
  Theorem dict_statements :
    (forall a bs ids, In (a, bs, ids) placed -> forall x, a <= x -> x < a + mlen bs ->
       d_get (image_dict placed) x = nth_error bs (N.to_nat (x - a))) /\
    (forall x, d_get (image_dict placed) x <> None -> exists a bs ids, In (a, bs, ids) placed /\ a <= x /\ x < a + mlen bs).
  Proof.
    destruct spec_parts as (sF & pl & P1 & -> & P2 & -> & ED & NO). destruct (pass2_placed _ _ _ P2) as (I1 & I2). rewrite ED. split.
    - intros a bs ids Hi. destruct (I1 a bs ids Hi) as (it & Hit & Pit). apply in_rev in Hit.
      exact (gdict_at _ _ NO a it bs Hit Pit).
    - intros x Hx. apply gdict_covered in Hx. destruct Hx as (a & it & Hi & X1 & X2).
      destruct (I2 a it (proj1 (in_rev _ _) Hi)) as (bs & Pit & Hp). exists a, bs, (item_idents it).
      split; [exact Hp|]. rewrite (pass2_size _ _ _ _ Pit). lia.
  Qed.

  (* a .du8/.du16/.du32 statement holds the little-endian bytes of the value its expression has in the FINAL table,
     wherever the symbols it mentions are defined *)
  Theorem data_final_value pre name e post s0 a k :
    prog = pre ++ EDirective name [e] :: post -> dir_of name = Some (DData k) ->
    pass1 fs (mkP1 None [] []) pre = Some s0 -> p_cur s0 = Some a ->
    exists v, den64 (rho env) e = Some v /\ (0 <= v <= dk_max k)%Z /\
      forall x, a <= x -> x < a + dk_size k ->
        d_get (image_dict placed) x = nth_error (le_n (dk_size k) (Z.to_N v)) (N.to_nat (x - a)).
  Proof.
    intros Hl Hd Hp Hc. destruct spec_parts as (sF & pl & P1 & -> & P2 & -> & ED & NO). rewrite ED.
    rewrite Hl, pass1_app, Hp in P1. cbn [pass1] in P1.
    destruct (pass1_step fs s0 (EDirective name [e])) as [s1|] eqn:PS; [|discriminate].
    assert (Hi : In (a, IData (dk_size k) e) (p_items s1)).
    { unfold pass1_step, dname in PS. unfold dir_of, CtxModel.is, AsmStmtModel.is in Hd.
      repeat match type of Hd with (if ?c then _ else _) = _ => destruct c eqn:? end; try discriminate Hd; inversion Hd; subst k;
        apply place_items in PS; destruct PS as (c & C1 & C2); rewrite Hc in C1; inversion C1; subst c; rewrite C2; now left. }
    destruct (pass1_mono _ _ _ _ P1) as (_ & M2). apply M2 in Hi.
    pose proof (pass2_all _ _ _ P2 a _ (proj1 (in_rev _ _) Hi)) as Pn. cbn [pass2_item] in Pn.
    destruct (den64 (rho (p_env sF)) e) as [v|] eqn:Dv; [|congruence]. rewrite dk_range in Pn.
    destruct ((0 <=? v)%Z && (v <=? dk_max k)%Z) eqn:Rv; [|congruence].
    exists v. split; [reflexivity|]. split; [lia|].
    assert (Pit : pass2_item (p_env sF) a (IData (dk_size k) e) = Some (le_n (dk_size k) (Z.to_N v))).
    { cbn [pass2_item]. rewrite Dv, dk_range, Rv, <- le_n_le_bytes. reflexivity. }
    pose proof (gdict_at _ _ NO a _ _ Hi Pit) as AB. intros x X1 X2. apply AB; [exact X1|]. rewrite len_le_n'. exact X2.
  Qed.
End Top.

(* ------------------------------------------------------------------ the same about the pipeline's image *)
Theorem no_placeholder fs path text els placed env :
  parse_source text = Parsed (map Text.ParseModel.IOk els) None ->
  layout_spec fs (map e_val els) = Some (placed, env) -> C05_class fs env els -> no_collision fs (map e_val els) ->
  pipeline fs path text = Done Success [] (runs (image_dict placed)) /\
  (forall a bs ids, In (a, bs, ids) placed -> forall x, a <= x -> x < a + mlen bs ->
     d_get (image_dict placed) x = nth_error bs (N.to_nat (x - a))) /\
  (forall x, d_get (image_dict placed) x <> None -> exists a bs ids, In (a, bs, ids) placed /\ a <= x /\ x < a + mlen bs).
Proof.
  intros HPa HL HC NC. split; [rewrite <- image_of_dict; eapply layout_accepts; eauto|].
  exact (dict_statements fs _ placed env HL NC).
Qed.

Theorem order_independent fs path text els placed env :
  parse_source text = Parsed (map Text.ParseModel.IOk els) None ->
  layout_spec fs (map e_val els) = Some (placed, env) -> C05_class fs env els -> no_collision fs (map e_val els) ->
  pipeline fs path text = Done Success [] (runs (image_dict placed)) /\
  forall pre name e post s0 a k,
    map e_val els = pre ++ EDirective name [e] :: post -> dir_of name = Some (DData k) ->
    pass1 fs (mkP1 None [] []) pre = Some s0 -> p_cur s0 = Some a ->
    exists v, den64 (rho env) e = Some v /\ (0 <= v <= dk_max k)%Z /\
      forall x, a <= x -> x < a + dk_size k ->
        d_get (image_dict placed) x = nth_error (le_n (dk_size k) (Z.to_N v)) (N.to_nat (x - a)).
Proof.
  intros HPa HL HC NC. split; [rewrite <- image_of_dict; eapply layout_accepts; eauto|].
  intros pre name e post s0 a k. exact (data_final_value fs _ placed env HL NC pre name e post s0 a k).
Qed.

(* ------------------------------------------------------------------ the same for the wider class (LayoutStep.stmt_okx):
   deferred instruction statements of every template, .dfile; fs = the files the context reads, fsr = the reference's *)
Theorem no_placeholderx fs fsr path text els placed env :
  parse_source text = Parsed (map Text.ParseModel.IOk els) None ->
  layout_spec fsr (map e_val els) = Some (placed, env) -> C05_classx fs fsr path env els -> no_collision fsr (map e_val els) ->
  pipeline fs path text = Done Success [] (runs (image_dict placed)) /\
  (forall a bs ids, In (a, bs, ids) placed -> forall x, a <= x -> x < a + mlen bs ->
     d_get (image_dict placed) x = nth_error bs (N.to_nat (x - a))) /\
  (forall x, d_get (image_dict placed) x <> None -> exists a bs ids, In (a, bs, ids) placed /\ a <= x /\ x < a + mlen bs).
Proof.
  intros HPa HL HC NC. split; [rewrite <- image_of_dict; eapply layout_acceptsx; eauto|].
  exact (dict_statements fsr _ placed env HL NC).
Qed.

Theorem order_independentx fs fsr path text els placed env :
  parse_source text = Parsed (map Text.ParseModel.IOk els) None ->
  layout_spec fsr (map e_val els) = Some (placed, env) -> C05_classx fs fsr path env els -> no_collision fsr (map e_val els) ->
  pipeline fs path text = Done Success [] (runs (image_dict placed)) /\
  forall pre name e post s0 a k,
    map e_val els = pre ++ EDirective name [e] :: post -> dir_of name = Some (DData k) ->
    pass1 fsr (mkP1 None [] []) pre = Some s0 -> p_cur s0 = Some a ->
    exists v, den64 (rho env) e = Some v /\ (0 <= v <= dk_max k)%Z /\
      forall x, a <= x -> x < a + dk_size k ->
        d_get (image_dict placed) x = nth_error (le_n (dk_size k) (Z.to_N v)) (N.to_nat (x - a)).
Proof.
  intros HPa HL HC NC. split; [rewrite <- image_of_dict; eapply layout_acceptsx; eauto|].
  intros pre name e post s0 a k. exact (data_final_value fsr _ placed env HL NC pre name e post s0 a k).
Qed.
