(* evaluate (src/asm/simplify/eval.rs) as the assembler context uses it: in place.
   Expr/EvalModel.evaluate returns `Err e` without the tree; the Rust function mutates the argument while it
   descends, so after `Err(NoSuchVariable)` (which DataExpr::apply and ArmInstr::assemble turn into a deferral
   when `local`) the statement keeps the sub-expressions that were already replaced by their values.  That is
   observable across files (the retry in the includer must not look those names up again), so this variant
   returns the tree in the error case too.  It agrees with EvalModel.evaluate (Asm/CtxProofs.v: evaluate_mut_agrees).
   The constant table is `lookup : str -> option lookup_res`; None = panic!("no local scope").
   Assumption (not observable through diagnostic classes): when simplify_raw fails at a node, the node is left
   as it was when simplify_raw was entered (children evaluated, node itself not rewritten).
   Model file: no proofs. *)
From Coq Require Import ZArith NArith List Bool.
From Trion Require Import Text.Types Expr.I64 Expr.SimplifyModel Expr.EvalModel Asm.CtxSeg.
Import ListNotations.

Inductive eval_err := EENoVar (name : str) | EEOther (e : I64.err).

Inductive ev_res :=
| EvOk (a : arg) (e : evaluation)
| EvErr (a : arg) (e : eval_err)          (* a = the argument as the failed call leaves it *)
| EvPanic (p : site).

Inductive evl_res :=
| ElOk (l : list arg) (e : evaluation)
| ElErr (l : list arg) (e : eval_err)
| ElPanic (p : site).

(* Ok(eval | Evaluation::Complete{changed: simplify_raw(arg)?}) *)
Definition ev_node (n : arg) (ev : evaluation) : ev_res :=
  match simplify_raw n with
  | I64.Ok (a', c) => EvOk a' (ev_or ev (Complete c))
  | I64.Err e => EvErr n (EEOther e)
  | I64.Panic s => EvPanic (P_simplify s)
  end.

(* evaluate(lhs)? | evaluate(rhs)? : rhs is not touched when lhs fails *)
Definition ev_bin (op : binop) (l r : arg) (rl rr : ev_res) : ev_res :=
  match rl with
  | EvOk l' el =>
      match rr with
      | EvOk r' er => ev_node (mk_bin op l' r') (ev_or el er)
      | EvErr r' e => EvErr (mk_bin op l' r') e
      | EvPanic p => EvPanic p
      end
  | EvErr l' e => EvErr (mk_bin op l' r) e
  | EvPanic p => EvPanic p
  end.

Definition ev_un (mk : arg -> arg) (rv : ev_res) : ev_res :=
  match rv with
  | EvOk v' e => ev_node (mk v') e
  | EvErr v' e => EvErr (mk v') e
  | EvPanic p => EvPanic p
  end.

(* try_fold: the items after a failing one are not evaluated *)
Definition ev_cons (xs : list arg) (rx : ev_res) (rxs : evaluation -> evl_res) (acc : evaluation) : evl_res :=
  match rx with
  | EvOk x' e =>
      match rxs (ev_or acc e) with
      | ElOk xs' e' => ElOk (x' :: xs') e'
      | ElErr xs' er => ElErr (x' :: xs') er
      | ElPanic p => ElPanic p
      end
  | EvErr x' er => ElErr (x' :: xs) er
  | EvPanic p => ElPanic p
  end.

Fixpoint evaluate_mut (lookup : str -> option lookup_res) (is_register : str -> bool) (a : arg) : ev_res :=
  match a with
  | AConst _ => EvOk a (Complete false)
  | AIdent name =>
      if negb (is_register name) then
        match lookup name with
        | None => EvPanic P_no_local_scope
        | Some NotFound => EvErr a (EENoVar name)
        | Some LDeferred => EvOk a (Deferred false name)
        | Some (Found v) => EvOk (AConst v) (Complete true)
        end
      else EvOk a (Complete false)
  | AStr _ => EvOk a (Complete false)
  | ASeq items =>
      match (fix go (l : list arg) (acc : evaluation) : evl_res :=
               match l with [] => ElOk [] acc
               | x :: xs => ev_cons xs (evaluate_mut lookup is_register x) (go xs) acc end) items (Complete false) with
      | ElOk items' e => EvOk (ASeq items') e
      | ElErr items' er => EvErr (ASeq items') er
      | ElPanic p => EvPanic p
      end
  | AFun name args =>
      match (fix go (l : list arg) (acc : evaluation) : evl_res :=
               match l with [] => ElOk [] acc
               | x :: xs => ev_cons xs (evaluate_mut lookup is_register x) (go xs) acc end) args (Complete false) with
      | ElOk args' e => EvOk (AFun name args') e
      | ElErr args' er => EvErr (AFun name args') er
      | ElPanic p => EvPanic p
      end
  | AAdd l r => ev_bin OpAdd l r (evaluate_mut lookup is_register l) (evaluate_mut lookup is_register r)
  | ASub l r => ev_bin OpSubtract l r (evaluate_mut lookup is_register l) (evaluate_mut lookup is_register r)
  | AMul l r => ev_bin OpMultiply l r (evaluate_mut lookup is_register l) (evaluate_mut lookup is_register r)
  | ADiv l r => ev_bin OpDivide l r (evaluate_mut lookup is_register l) (evaluate_mut lookup is_register r)
  | AMod l r => ev_bin OpModulo l r (evaluate_mut lookup is_register l) (evaluate_mut lookup is_register r)
  | AAnd l r => ev_bin OpBitAnd l r (evaluate_mut lookup is_register l) (evaluate_mut lookup is_register r)
  | AOr l r => ev_bin OpBitOr l r (evaluate_mut lookup is_register l) (evaluate_mut lookup is_register r)
  | AXor l r => ev_bin OpBitXor l r (evaluate_mut lookup is_register l) (evaluate_mut lookup is_register r)
  | AShl l r => ev_bin OpLeftShift l r (evaluate_mut lookup is_register l) (evaluate_mut lookup is_register r)
  | AShr l r => ev_bin OpRightShift l r (evaluate_mut lookup is_register l) (evaluate_mut lookup is_register r)
  | ANeg v => ev_un ANeg (evaluate_mut lookup is_register v)
  | ANot v => ev_un ANot (evaluate_mut lookup is_register v)
  | AAddr v => ev_un AAddr (evaluate_mut lookup is_register v)
  end.
