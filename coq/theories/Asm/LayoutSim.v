(* C05 proofs, part 5: the simulation invariant between the context (Asm/CtxModel.v) after k statements and pass 1 of
   the reference layout (Asm/LayoutSpec.v) after k statements, and the three kinds of transition:
   append to the active region (immediately, or a placeholder plus a pending task), a new table entry, a region switch.
   E = the FINAL symbol table of the reference; G = the dictionary of the bytes the reference assigns (in E) to the
   statements placed so far.  A pending instruction task may be of any template (PendG: the statement as written, the
   position of the evaluated operand, the tree kept for it and the relation stg between the two). *)
From Coq Require Import ZArith NArith PeanoNat List Bool Lia ZifyBool ZifyNat ZifyN.
From Trion Require Import Text.Types Expr.I64 Expr.EvalModel Expr.Denote Expr.C08Sound Arm.Instr Arm.AsmStmtModel Arm.EncodeModel
  Mem.MapModel Mem.DictSpec Mem.MapProofs Mem.MapLemmas Mem.MapOccupied
  Asm.CtxModel Asm.SegProofs Asm.LayoutSpec Asm.LayoutEval Asm.LayoutInstr Asm.LayoutInstrD Asm.LayoutDict Asm.ScopeProofs.
Import ListNotations.
Open Scope N_scope.

Notation mlen := MapModel.len.

(* ------------------------------------------------------------------ tables *)
Definition lkE (E : env) : str -> lookup_res := fun n => match env_get E n with Some v => Found v | None => NotFound end.
Definition TblEnv (tbl : table) (e : env) : Prop := forall n, tbl_get tbl n = option_map Some (env_get e n).
Definition env_le (e E : env) : Prop := forall n v, env_get e n = Some v -> env_get E n = Some v.

Lemma lookup_found tbl e n v : TblEnv tbl e -> lookup_of tbl n = Found v -> env_get e n = Some v.
Proof. intros T. unfold lookup_of. rewrite (T n). destruct (env_get e n); cbn; intros H; inversion H; reflexivity. Qed.

Lemma compat_tbl E tbl e : TblEnv tbl e -> env_le e E -> compat (rho E) (lookup_of tbl) CtxModel.is_register.
Proof.
  intros T L s v R F. unfold rho. change (AsmStmtModel.is_register s) with (CtxModel.is_register s). rewrite R.
  apply L. eapply lookup_found; eauto.
Qed.
Lemma compat_lkE E : compat (rho E) (lkE E) CtxModel.is_register.
Proof.
  intros s v R F. unfold rho. change (AsmStmtModel.is_register s) with (CtxModel.is_register s). rewrite R.
  unfold lkE in F. destruct (env_get E s); inversion F; reflexivity.
Qed.
Lemma tbl_no_deferred tbl e : TblEnv tbl e -> no_deferred (lookup_of tbl).
Proof. intros T s. unfold lookup_of. rewrite (T s). destruct (env_get e s); cbn; discriminate. Qed.
Lemma tbl_lk_le E tbl e : TblEnv tbl e -> env_le e E -> lk_le (lookup_of tbl) (lkE E).
Proof. intros T L s v F. unfold lkE. rewrite (L _ _ (lookup_found _ _ _ _ T F)). reflexivity. Qed.

Lemma ctx_eval_eq st tbl p ps a : locals st = Some tbl -> path_stack st = p :: ps ->
  ctx_eval st a = evaluate_mut (fun n => Some (lookup_of tbl n)) CtxModel.is_register a.
Proof.
  intros EL EP. unfold ctx_eval, ctx_lookup, get_constant, eval_realm. rewrite EP. cbn [realm_table]. rewrite EL. reflexivity.
Qed.

(* ------------------------------------------------------------------ the reference bytes so far *)
Fixpoint gdict (E : env) (items : list (N * item)) : dict :=
  match items with
  | [] => []
  | (a, it) :: r => match pass2_item E a it with Some bs => d_write (gdict E r) a bs | None => gdict E r end
  end.

(* ------------------------------------------------------------------ pending tasks *)
Definition task_addr (t : task) : N := match t with DataTask d _ => de_addr d | InstrTask ai _ => ai_addr ai | _ => 0 end.
Definition task_size (t : task) : N :=
  match t with DataTask d _ => dk_size (de_kind d) | InstrTask ai _ => isz (ai_instr ai) | _ => 0 end.
Definition in_task (t : task) (x : N) : Prop := task_addr t <= x /\ x < task_addr t + task_size t.

(* the placeholder of a pending task lies inside the active buffer or inside the merged map *)
Definition located (st : state) (t : task) : Prop :=
  (exists sg, active st = Active sg /\ s_base sg <= task_addr t /\ task_addr t + task_size t <= s_base sg + blen sg)
  \/ (forall x, in_task t x -> d_get (abs (output st)) x <> None).

Definition at_bytes (G : dict) (a : N) (bs : list N) : Prop :=
  forall x, a <= x -> x < a + mlen bs -> d_get G x = nth_error bs (N.to_nat (x - a)).

(* staged = direct, for one operand: whenever the ORIGINAL operand a0 evaluates completely in the final table, the operand
   a1 the deferred statement keeps (the tree a failed evaluation left behind) evaluates to the same tree *)
Definition stg (E : env) (a0 a1 : arg) : Prop := forall x, final_ev E a0 = (x, SComplete) -> final_ev E a1 = (x, SComplete).

(* what a pending task will write: the bytes the reference has at its address.  An instruction task of ANY template:
   args = the operands as written, the task keeps them with the evaluated operand (position eval_pos) replaced by a1 *)
Definition PendG (E : env) (G : dict) (t : task) : Prop :=
  match t with
  | DataTask d false =>
      exists a0 v, fwd (rho E) a0 (de_arg d) /\ den64 (rho E) a0 = Some v /\
        ((0 <=? v)%Z && (v <=? dk_max (de_kind d))%Z = true) /\
        at_bytes G (de_addr d) (le_n (dk_size (de_kind d)) (Z.to_N v))
  | InstrTask ai false =>
      exists args pos a0 a1 iF sF nF bF, ai_ast ai = mkAst (AsmStmtModel.set_nth pos a1 args) 0 /\ eval_pos (ai_instr ai) = Some pos /\
        nth_error args pos = Some a0 /\ stg E a0 a1 /\
        assemble_args (final_ev E) false (ai_addr ai) (ai_instr ai) (mkAst args 0) = COk iF sF /\
        enc_bytes iF 4 = EbOk nF bF /\ at_bytes G (ai_addr ai) bF
  | _ => False
  end.

(* ------------------------------------------------------------------ the invariant *)
Record SimT (E : env) (st : state) (cur : option N) (ek : env) (G : dict) (ts : list task) : Prop := mkSimT {
  sm_rep : Rep (output st);
  sm_tbl : exists tbl p ps, locals st = Some tbl /\ path_stack st = p :: ps /\ TblEnv tbl ek;
  sm_env : env_le ek E;
  sm_cur : match cur with
           | None => active st = Inactive
           | Some a => exists sg, active st = Active sg /\ SegInv (output st) sg /\ a = s_base sg + blen sg
           end;
  sm_err : errors st = [];
  sm_gt : global_tasks st = [];
  sm_asc : asc 0 SPACE G;
  sm_dom : forall x, view st x <> None <-> d_get G x <> None;
  sm_loc : Forall (located st) ts;
  sm_pend : Forall (PendG E G) ts;
  sm_view : forall x, (forall t, In t ts -> ~ in_task t x) -> view st x = d_get G x
}.

Definition Sim (E : env) (st : state) (cur : option N) (ek : env) (G : dict) : Prop :=
  exists ts, local_tasks st = Some ts /\ SimT E st cur ek G ts.

Lemma located_view st t : located st t -> forall x, in_task t x -> view st x <> None.
Proof.
  intros [(sg & EA & H1 & H2)|H] x (I1 & I2); unfold view.
  - rewrite EA. rewrite wr_in by (unfold blen, CtxSeg.len in *; lia). apply nth_error_some_len; unfold blen, CtxSeg.len in *; lia.
  - destruct (active st) as [|s]; [apply H; split; assumption|].
    unfold wr. destruct ((s_base s <=? x) && (x <? s_base s + mlen (s_buf s))) eqn:E.
    + apply nth_error_some_len; lia.
    + apply H. split; assumption.
Qed.

(* a state whose active buffer is empty (or absent) and whose image is unchanged keeps the placeholders *)
Lemma located_flat st st' t : (forall x, view st' x = view st x) ->
  match active st' with Active s => s_buf s = [] | Inactive => True end -> located st t -> located st' t.
Proof.
  intros HV HA HL. right. intros x Hx. pose proof (located_view st t HL x Hx) as V. rewrite <- HV in V.
  unfold view in V. destruct (active st') as [|s]; [exact V|]. rewrite HA in V. unfold wr in V. rewrite len_nil in V.
  destruct ((s_base s <=? x) && (x <? s_base s + 0)) eqn:E; [lia|exact V].
Qed.

Lemma at_bytes_write G a bs : at_bytes (d_write G a bs) a bs.
Proof. intros x H1 H2. rewrite d_get_d_write. apply wr_in; assumption. Qed.

Lemma at_bytes_keep G a bs b data : at_bytes G a bs -> (forall x, a <= x -> x < a + mlen bs -> d_get G x <> None) ->
  (forall x, b <= x -> x < b + mlen data -> d_get G x = None) -> at_bytes (d_write G b data) a bs.
Proof.
  intros HA HD HF x H1 H2. rewrite d_get_d_write. unfold wr.
  destruct ((b <=? x) && (x <? b + mlen data)) eqn:E; [|apply HA; assumption].
  exfalso. apply (HD x H1 H2). apply HF; lia.
Qed.

Lemma at_bytes_dom G a bs x : at_bytes G a bs -> a <= x -> x < a + mlen bs -> d_get G x <> None.
Proof. intros HA H1 H2. rewrite (HA x H1 H2). apply nth_error_some_len; assumption. Qed.

Lemma len_le_n' k v : mlen (le_n (dk_size k) v) = dk_size k.
Proof. destruct k; reflexivity. Qed.

(* the reference bytes of a pending task cover its range *)
Lemma PendG_dom E G t x : PendG E G t -> in_task t x -> d_get G x <> None.
Proof.
  unfold in_task. destruct t as [ai [|]|d [|]| |]; cbn [PendG task_addr task_size]; try contradiction.
  - intros (args & pos & a0 & a1 & iF & sF & nF & bF & EA & HB & F & D & AS & EN & AB) (H1 & H2).
    apply enc_bytes_size in EN. destruct EN as (_ & EN). apply assemble_args_isz in AS.
    eapply at_bytes_dom; [exact AB|exact H1|]. unfold mlen. rewrite EN, AS. exact H2.
  - intros (a0 & v & F & D & R & AB) (H1 & H2). eapply at_bytes_dom; [exact AB|exact H1|]. rewrite len_le_n'. exact H2.
Qed.

Lemma PendG_keep E G t b data : PendG E G t -> (forall x, b <= x -> x < b + mlen data -> d_get G x = None) ->
  PendG E (d_write G b data) t.
Proof.
  intros HP HF. pose proof (PendG_dom E G t) as HD. specialize (fun x => HD x HP). unfold in_task in HD.
  destruct t as [ai [|]|d [|]| |]; cbn [PendG task_addr task_size] in *; try contradiction.
  - destruct HP as (args & pos & a0 & a1 & iF & sF & nF & bF & EA & HB & F & D & AS & EN & AB).
    exists args, pos, a0, a1, iF, sF, nF, bF. repeat split; auto. apply at_bytes_keep; auto.
    intros x H1 H2. apply HD. split; [exact H1|]. apply enc_bytes_size in EN. destruct EN as (_ & EN). apply assemble_args_isz in AS.
    unfold mlen in H2. rewrite EN, AS in H2. exact H2.
  - destruct HP as (a0 & v & F & D & R & AB). exists a0, v. repeat split; auto. apply at_bytes_keep; auto.
    intros x H1 H2. apply HD. rewrite len_le_n' in H2. split; assumption.
Qed.

(* ------------------------------------------------------------------ transitions *)
(* the fields SimT reads *)
Lemma simT_transport E st st' cur ek ek' G ts :
  output st' = output st -> active st' = active st ->
  (exists tbl p ps, locals st' = Some tbl /\ path_stack st' = p :: ps /\ TblEnv tbl ek') -> env_le ek' E ->
  errors st' = errors st -> global_tasks st' = global_tasks st ->
  SimT E st cur ek G ts -> SimT E st' cur ek' G ts.
Proof.
  intros EO EA ET EV EE EG [R T V C Er Gt A D L P W].
  assert (HV : forall x, view st' x = view st x) by (intros x; unfold view; rewrite EO, EA; reflexivity).
  constructor; auto.
  - rewrite EO. exact R.
  - destruct cur; rewrite EA, ?EO; exact C.
  - congruence.
  - congruence.
  - intros x. rewrite HV. apply D.
  - eapply Forall_impl; [|exact L]. intros t. unfold located. rewrite EA, EO. auto.
  - intros x Hx. rewrite HV. apply W. exact Hx.
Qed.

(* nothing changes on the context side; the reference places an empty item *)
Lemma simT_same E st cur ek G ts G' : SimT E st cur ek G ts -> G' = G -> SimT E st cur ek G' ts.
Proof. intros H ->. exact H. Qed.

(* the active segment's free space holds nothing *)
Lemma fresh_above st sg x : Rep (output st) -> active st = Active sg -> SegInv (output st) sg ->
  s_base sg + blen sg <= x -> x < s_base sg + s_max sg -> view st x = None.
Proof.
  intros HR EA HI H1 H2. unfold view. rewrite EA. rewrite wr_out by (unfold blen, CtxSeg.len in *; lia).
  destruct (d_get (abs (output st)) x) eqn:E; [|reflexivity]. exfalso.
  assert (N : d_get (abs (output st)) x <> None) by congruence.
  destruct (seginv_occ _ _ HI x N HR); lia.
Qed.

(* a statement appends `data` at the current address; the reference assigns it the bytes bsF of the same length;
   newt = the task that will replace the placeholder, if the statement is deferred *)
Lemma sim_append E st a ek G ts sg data bsF newt :
  SimT E st (Some a) ek G ts -> active st = Active sg -> blen sg + mlen data <= s_max sg -> mlen bsF = mlen data ->
  match newt with
  | None => data = bsF
  | Some t => task_addr t = a /\ task_size t = mlen data /\ PendG E (d_write G a bsF) t
  end ->
  SimT E (set_active st (Active (set_buf sg (s_buf sg ++ data)))) (Some (a + mlen data)) ek (d_write G a bsF)
       (match newt with None => ts | Some t => ts ++ [t] end).
Proof.
  intros [R T V C Er Gt A D L P W] EA Hcap Hlen Hnew.
  destruct C as (sg' & EA' & HI & Ea). rewrite EA in EA'. inversion EA'; subst sg'. clear EA'.
  set (st' := set_active st (Active (set_buf sg (s_buf sg ++ data)))).
  assert (HV : forall x, view st' x = wr (view st) a data x) by (intros x; subst a; apply view_append; exact EA).
  assert (HF : forall x, a <= x -> x < a + mlen data -> view st x = None).
  { intros x H1 H2. apply (fresh_above st sg x R EA HI); lia. }
  assert (HFG : forall x, a <= x -> x < a + mlen bsF -> d_get G x = None).
  { intros x H1 H2. destruct (d_get G x) eqn:Eq1; [|reflexivity]. exfalso.
    assert (N : d_get G x <> None) by congruence. apply D in N. apply N. apply HF; lia. }
  destruct (write_ok false (output st) sg data HI Hcap) as (_ & HI').
  assert (Hsp : a + mlen data <= SPACE).
  { destruct HI as (_ & _ & H2 & _). unfold CtxSeg.U32, MapModel.U32, SPACE in *. lia. }
  constructor.
  - exact R.
  - exact T.
  - exact V.
  - exists (set_buf sg (s_buf sg ++ data)). split; [reflexivity|]. split; [exact HI'|].
    rewrite blen_set_buf, len_app. cbn [s_base set_buf]. unfold blen, CtxSeg.len in Ea. lia.
  - exact Er.
  - exact Gt.
  - apply asc_d_write; [exact A|lia|lia].
  - intros x. rewrite HV, d_get_d_write. unfold wr. rewrite Hlen.
    destruct ((a <=? x) && (x <? a + mlen data)) eqn:Eq1; [|apply D].
    split; intros _; apply nth_error_some_len; lia.
  - assert (L' : Forall (located st') ts).
    { eapply Forall_impl; [|exact L]. intros t [(s0 & E0 & H1 & H2)|H].
      - left. rewrite EA in E0. inversion E0; subst s0. exists (set_buf sg (s_buf sg ++ data)). split; [reflexivity|].
        rewrite blen_set_buf, len_app. cbn [s_base set_buf]. unfold blen, CtxSeg.len in *. lia.
      - right. exact H. }
    destruct newt as [t|]; [|exact L']. apply Forall_app. split; [exact L'|]. constructor; [|constructor].
    destruct Hnew as (T1 & T2 & _). left. exists (set_buf sg (s_buf sg ++ data)). split; [reflexivity|].
    rewrite blen_set_buf, len_app. cbn [s_base set_buf]. unfold blen, CtxSeg.len in *. lia.
  - assert (P' : Forall (PendG E (d_write G a bsF)) ts).
    { eapply Forall_impl; [|exact P]. intros t Ht. apply PendG_keep; [exact Ht|exact HFG]. }
    destruct newt as [t|]; [|exact P']. apply Forall_app. split; [exact P'|]. constructor; [|constructor]. apply Hnew.
  - intros x Hx. rewrite HV, d_get_d_write. unfold wr. rewrite Hlen.
    destruct ((a <=? x) && (x <? a + mlen data)) eqn:Eq1.
    + destruct newt as [t|]; [|subst bsF; reflexivity]. exfalso. destruct Hnew as (T1 & T2 & _).
      apply (Hx t); [apply in_or_app; right; now left|]. unfold in_task. lia.
    + apply W. intros t Ht. apply Hx. destruct newt; [apply in_or_app; now left|exact Ht].
Qed.

(* a new table entry *)
Lemma sim_define E st cur ek G ts tbl name v :
  SimT E st cur ek G ts -> locals st = Some tbl -> env_le ((name, v) :: ek) E ->
  SimT E (set_locals st (Some (tbl_set tbl name (Some v)))) cur ((name, v) :: ek) G ts.
Proof.
  intros H EL HE. pose proof H as [R T V C Er Gt A D L P W].
  destruct T as (tbl' & p & ps & EL' & EP & TE). rewrite EL in EL'. inversion EL'; subst tbl'.
  apply (simT_transport E st _ cur ek); auto.
  exists (tbl_set tbl name (Some v)), p, ps. split; [reflexivity|]. split; [exact EP|].
  intros n. rewrite tbl_get_set. cbn [env_get]. change (AsmStmtModel.str_eqb name n) with (str_eqb name n).
  destruct (str_eqb name n); [reflexivity|apply TE].
Qed.

(* a region switch *)
Lemma sim_switch dbg E st cur ek G ts tgt c st' :
  SimT E st cur ek G ts -> tgt < CtxSeg.U32 -> change_segment dbg st tgt = Ret (inl c) st' ->
  SimT E st' (Some tgt) ek G ts /\ local_tasks st' = local_tasks st.
Proof.
  intros H Hlt HC. pose proof H as [R T V C Er Gt A D L P W].
  assert (SEL : forall st1, Inv st1 -> active st1 = Inactive -> (forall x, view st1 x = view st x) ->
            locals st1 = locals st -> path_stack st1 = path_stack st -> local_tasks st1 = local_tasks st ->
            global_tasks st1 = global_tasks st -> errors st1 = errors st ->
            select_segment dbg st1 tgt = Ret (inl c) st' -> SimT E st' (Some tgt) ek G ts /\ local_tasks st' = local_tasks st).
  { intros st1 (HR1 & _) HA1 HV1 EL1 EP1 ET1 EG1 EE1 HS.
    destruct (select_ok dbg st1 tgt HR1 HA1 Hlt) as [(_ & Eq1)|(_ & s & Eq1 & B & Bu & HI)]; rewrite Eq1 in HS; [discriminate|].
    inversion HS; subst st'. split; [|exact ET1].
    assert (HV' : forall x, view (set_active st1 (Active s)) x = view st x).
    { intros x. rewrite <- HV1. unfold view. cbn [active set_active output]. rewrite HA1, Bu. unfold wr. rewrite len_nil.
      destruct ((s_base s <=? x) && (x <? s_base s + 0)) eqn:E1; [lia|reflexivity]. }
    constructor; auto.
    - rewrite <- EL1, <- EP1 in T. exact T.
    - exists s. split; [reflexivity|]. split; [exact HI|]. unfold blen, CtxSeg.len. rewrite Bu, len_nil. lia.
    - cbn [errors set_active]. congruence.
    - cbn [global_tasks set_active]. congruence.
    - intros x. rewrite HV'. apply D.
    - eapply Forall_impl; [|exact L]. intros t. apply located_flat; [exact HV'|]. cbn [active set_active]. exact Bu.
    - intros x Hx. rewrite HV'. apply W. exact Hx. }
  unfold change_segment in HC. destruct (active st) as [|sg] eqn:EA.
  - apply (SEL st); auto. split; [exact R|rewrite EA; exact I].
  - destruct cur as [a|]; [|discriminate C]. destruct C as (sg' & EA' & HI & Ea). inversion EA'; subst sg'.
    destruct ((tgt =? s_base sg) && match s_buf sg with [] => true | _ :: _ => false end) eqn:E0.
    + inversion HC; subst st'. split; [|reflexivity]. destruct (s_buf sg) eqn:Eb; [|rewrite andb_false_r in E0; discriminate].
      constructor; auto. exists sg. split; [exact EA|]. split; [exact HI|]. unfold blen, CtxSeg.len. rewrite Eb, len_nil. lia.
    + unfold bind in HC. destruct (close_segment dbg st) as [[b|e] st1| |] eqn:CL; try discriminate.
      assert (IV : Inv st) by (split; [exact R|rewrite EA; exact HI]).
      destruct (view_close dbg st b st1 IV CL) as (IV1 & HA1 & HV1 & EL1 & EP1 & ET1 & EG1 & _ & EE1 & _).
      apply (SEL st1); auto.
Qed.
