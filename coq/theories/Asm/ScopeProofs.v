(* C14 on the Context model (Asm/CtxModel.v): a table entry that has a value keeps it in every later state
   (no directive reaches replace_constant: the model has no such operation, the only writers are insert_constant and
   defer_constant), through every directive, task, file and include nesting; the table above the includer is handed
   back untouched; the listed scope errors yield their diagnostic.  Proof file (no model definitions). *)
From Coq Require Import ZArith NArith List Bool Lia String.
From Trion Require Import Text.Types Asm.CtxModel.
From Trion Require Arm.DisplayModel Arm.AsmStmtModel Expr.EvalModel.
Import ListNotations.

Lemma str_eqb_eq a : forall b, str_eqb a b = true <-> a = b.
Proof. unfold str_eqb. induction a as [|x a IH]; intros [|y b]; cbn [Arm.AsmStmtModel.str_eqb]; split; intros H; try discriminate; try reflexivity.
  - apply andb_true_iff in H. destruct H as [H1 H2]. apply N.eqb_eq in H1. apply IH in H2. congruence.
  - inversion H; subst. apply andb_true_iff. split; [apply N.eqb_refl|apply IH; reflexivity]. Qed.
Lemma str_eqb_refl a : str_eqb a a = true. Proof. apply str_eqb_eq. reflexivity. Qed.

Lemma tbl_get_set t n v m : tbl_get (tbl_set t n v) m = if str_eqb n m then Some v else tbl_get t m.
Proof. induction t as [|[k w] r IH]; cbn [tbl_set tbl_get].
  - destruct (str_eqb n m) eqn:E; reflexivity.
  - destruct (str_eqb k n) eqn:K; cbn [tbl_get].
    + apply str_eqb_eq in K. subst k. destruct (str_eqb n m); reflexivity.
    + rewrite IH. destruct (str_eqb k m) eqn:KM; [|reflexivity].
      apply str_eqb_eq in KM. subst m. destruct (str_eqb n k) eqn:NK; [|reflexivity].
      apply str_eqb_eq in NK. subst n. rewrite str_eqb_refl in K. discriminate. Qed.

Definition tbl_mono (t t' : table) : Prop := forall n v, tbl_get t n = Some (Some v) -> tbl_get t' n = Some (Some v).
Definition otbl_mono (o o' : option table) : Prop :=
  match o, o' with Some t, Some t' => tbl_mono t t' | None, None => True | _, _ => False end.
Definition TM (g : table) (l : option table) (g' : table) (l' : option table) : Prop := tbl_mono g g' /\ otbl_mono l l'.
Definition tmono (a b : state) : Prop := TM (globals a) (locals a) (globals b) (locals b).

Lemma tbl_mono_refl t : tbl_mono t t. Proof. intros n v H; exact H. Qed.
Lemma tbl_mono_trans a b c : tbl_mono a b -> tbl_mono b c -> tbl_mono a c. Proof. intros H1 H2 n v H. apply H2, H1, H. Qed.
Lemma otbl_mono_refl o : otbl_mono o o. Proof. destruct o; cbn; [apply tbl_mono_refl|exact I]. Qed.
Lemma otbl_mono_trans a b c : otbl_mono a b -> otbl_mono b c -> otbl_mono a c.
Proof. destruct a, b, c; cbn; try tauto. apply tbl_mono_trans. Qed.
Lemma TM_refl g l : TM g l g l. Proof. split; [apply tbl_mono_refl|apply otbl_mono_refl]. Qed.
Lemma TM_trans g l g1 l1 g2 l2 : TM g l g1 l1 -> TM g1 l1 g2 l2 -> TM g l g2 l2.
Proof. intros [A B] [C D]. split; [eapply tbl_mono_trans|eapply otbl_mono_trans]; eauto. Qed.

Lemma tbl_mono_set t n v : (forall w, tbl_get t n <> Some (Some w)) -> tbl_mono t (tbl_set t n v).
Proof. intros H m w G. rewrite tbl_get_set. destruct (str_eqb n m) eqn:E; [|exact G].
  apply str_eqb_eq in E. subst m. exfalso. eapply H; eauto. Qed.

Lemma insert_constant_tm st n v r x st' : insert_constant st n v r = Ret x st' -> tmono st st'.
Proof. unfold insert_constant, tmono. destruct (is_register n). { intros H; inversion H; subst; apply TM_refl. }
  destruct r; cbn [realm_table set_realm_table].
  - destruct (tbl_get (globals st) n) as [[w|]|] eqn:G; intros H; inversion H; subst; try apply TM_refl;
      (split; [apply tbl_mono_set; intros w; rewrite G; discriminate|apply otbl_mono_refl]).
  - destruct (locals st) as [t|] eqn:L; [|discriminate].
    destruct (tbl_get t n) as [[w|]|] eqn:G; intros H; inversion H; subst; cbn [globals locals set_locals]; rewrite ?L; try apply TM_refl;
      (split; [apply tbl_mono_refl|cbn; apply tbl_mono_set; intros w; rewrite G; discriminate]).
Qed.

Lemma defer_constant_tm st n r x st' : defer_constant st n r = Ret x st' -> tmono st st'.
Proof. unfold defer_constant, tmono. destruct (is_register n). { intros H; inversion H; subst; apply TM_refl. }
  destruct r; cbn [realm_table set_realm_table].
  - destruct (tbl_get (globals st) n) as [w|] eqn:G; intros H; inversion H; subst; try apply TM_refl;
      (split; [apply tbl_mono_set; intros w; rewrite G; discriminate|apply otbl_mono_refl]).
  - destruct (locals st) as [t|] eqn:L; [|discriminate].
    destruct (tbl_get t n) as [w|] eqn:G; intros H; inversion H; subst; cbn [globals locals set_locals]; rewrite ?L; try apply TM_refl;
      (split; [apply tbl_mono_refl|cbn; apply tbl_mono_set; intros w; rewrite G; discriminate]).
Qed.

Lemma add_task_tm st t r u st' : add_task st t r = Ret u st' -> tmono st st'.
Proof. unfold add_task, tmono. destruct r; [|destruct (local_tasks st)]; intros H; inversion H; subst; apply TM_refl. Qed.

(* ---- brute-force tactic: walk through a model function, using the lemmas registered in `tm_use` for sub-calls ---- *)
Ltac tm_finish :=
  unfold tmono in *;
  cbn [globals locals set_output set_active set_globals set_locals set_global_tasks set_local_tasks set_errors set_path_stack set_curr_name
       push_error push_error_in errors output active global_tasks local_tasks path_stack curr_name] in *;
  eauto 8 using TM_refl, TM_trans.

Ltac tm_use E := fail.

Ltac tm_step tac :=
  match goal with
  | H : Ret _ _ = Ret _ _ |- _ => inversion H; subst; clear H
  | H : Panic _ = Ret _ _ |- _ => discriminate H
  | H : OutOfFuel = Ret _ _ |- _ => discriminate H
  | H : bind _ _ = Ret _ _ |- _ => unfold bind in H
  | H : match ?x with _ => _ end = Ret _ _ |- _ => let E := fresh "E" in destruct x eqn:E; try (tac E)
  end.
Ltac tm_go tac := intros; repeat (tm_step tac); try tm_finish.

Ltac u0 E := first
  [ apply insert_constant_tm in E | apply defer_constant_tm in E | apply add_task_tm in E ].

Lemma put_stmt_tm dbg st f l c a d k p r st' : put_stmt dbg st f l c a d k p = Ret r st' -> tmono st st'.
Proof. unfold put_stmt. tm_go u0. Qed.
Lemma write_stmt_tm dbg st f l c a d k1 k2 p r st' : write_stmt dbg st f l c a d k1 k2 p = Ret r st' -> tmono st st'.
Proof. unfold write_stmt. intros H. repeat (tm_step u0); try tm_finish; apply put_stmt_tm in H; tm_finish. Qed.
Lemma write_instr_tm dbg st ai d r st' : write_instr dbg st ai d = Ret r st' -> tmono st st'.
Proof. unfold write_instr. intros H. repeat (tm_step u0); try tm_finish; apply write_stmt_tm in H; tm_finish. Qed.
Lemma write_data_tm dbg st d data r st' : write_data dbg st d data = Ret r st' -> tmono st st'.
Proof. apply write_stmt_tm. Qed.
Lemma instr_assemble_tm st ai local x st' : instr_assemble st ai local = Ret x st' -> tmono st st'.
Proof. unfold instr_assemble. tm_go u0. Qed.
Ltac u1 E := first [ u0 E | apply write_data_tm in E | apply write_instr_tm in E | apply instr_assemble_tm in E ].
Lemma data_apply_tm dbg st d local x st' : data_apply dbg st d local = Ret x st' -> tmono st st'.
Proof. unfold data_apply. tm_go u1. Qed.
Ltac u2 E := first [ u1 E | apply data_apply_tm in E ].

Lemma run_task_tm dbg st t r st' : run_task dbg st t = Ret r st' -> tmono st st'.
Proof. destruct t; cbn [run_task]; intros H.
  - repeat (tm_step u2); try tm_finish. apply write_instr_tm in H. tm_finish.
  - repeat (tm_step u2); try tm_finish.
  - repeat (tm_step u2); try tm_finish.
  - repeat (tm_step u2); try tm_finish.
Qed.

Lemma close_segment_tm dbg st x st' : close_segment dbg st = Ret x st' -> tmono st st'.
Proof. unfold close_segment. tm_go u0. Qed.
Lemma select_segment_tm dbg st a x st' : select_segment dbg st a = Ret x st' -> tmono st st'.
Proof. unfold select_segment. tm_go u0. Qed.
Ltac u3 E := first [ u2 E | apply close_segment_tm in E | apply select_segment_tm in E | apply run_task_tm in E ].
Lemma change_segment_tm dbg st a x st' : change_segment dbg st a = Ret x st' -> tmono st st'.
Proof. unfold change_segment. intros H. repeat (tm_step u3); try tm_finish; apply select_segment_tm in H; tm_finish. Qed.
Lemma eval_now_tm st l c a x st' : eval_now st l c a = Ret x st' -> tmono st st'.
Proof. unfold eval_now. tm_go u0. Qed.
Lemma arity_check_tm st l c args n st' : arity_check st l c args n = Some st' -> tmono st st'.
Proof. unfold arity_check. destruct (Nat.eqb _ _); [discriminate|]. destruct (Nat.ltb _ _); intros H; inversion H; subst; tm_finish. Qed.
Lemma seg_update_tm st l c x r st' : seg_update st l c x = Ret r st' -> tmono st st'.
Proof. unfold seg_update. tm_go u0. Qed.
Ltac u4 E := first [ u3 E | apply change_segment_tm in E | apply eval_now_tm in E | apply arity_check_tm in E | apply seg_update_tm in E ].

Lemma dir_addr_tm dbg st l c args r st' : dir_addr dbg st l c args = Ret r st' -> tmono st st'.
Proof. unfold dir_addr. tm_go u4. Qed.
Lemma dir_align_tm dbg st l c args r st' : dir_align dbg st l c args = Ret r st' -> tmono st st'.
Proof. unfold dir_align. intros H. repeat (tm_step u4); try tm_finish; apply seg_update_tm in H; tm_finish. Qed.
Lemma dir_const_tm st l c args r st' : dir_const st l c args = Ret r st' -> tmono st st'.
Proof. unfold dir_const. tm_go u4. Qed.
Lemma dir_data_tm dbg st l c k args r st' : dir_data dbg st l c k args = Ret r st' -> tmono st st'.
Proof. unfold dir_data. tm_go u4. Qed.
Lemma dir_bytes_tm dbg fs st l c d args r st' : dir_bytes dbg fs st l c d args = Ret r st' -> tmono st st'.
Proof. unfold dir_bytes. intros H. repeat (tm_step u4); try tm_finish; apply seg_update_tm in H; tm_finish. Qed.
Lemma dir_global_tm st l c d args r st' : dir_global st l c d args = Ret r st' -> tmono st st'.
Proof. unfold dir_global. intros H. destruct (arity_check st l c args 1) eqn:A. { apply arity_check_tm in A. inversion H; subst. exact A. }
  destruct args as [|a rest]; [discriminate|]. destruct a; try (inversion H; subst; tm_finish).
  destruct d; repeat (tm_step u4); try tm_finish.
Qed.
Lemma assemble_instr_tm dbg st l c name args r st' : assemble_instr dbg st l c name args = Ret r st' -> tmono st st'.
Proof. unfold assemble_instr. intros H. repeat (tm_step u4); try tm_finish; apply write_instr_tm in H; tm_finish. Qed.

Definition inc_tm (inc : state -> list N -> str -> res result) : Prop :=
  forall st data path r st', inc st data path = Ret r st' -> tmono st st'.

Lemma dir_include_tm fs inc st l c args r st' : inc_tm inc -> dir_include fs inc st l c args = Ret r st' -> tmono st st'.
Proof. intros IO. unfold dir_include. intros H.
  destruct (arity_check st l c args 1) eqn:A. { apply arity_check_tm in A. inversion H; subst. exact A. }
  destruct args as [|a rest]; [discriminate|]. destruct a; try (inversion H; subst; tm_finish).
  destruct (existsb _ _); [inversion H; subst; tm_finish|].
  destruct (fs _); [|inversion H; subst; tm_finish].
  unfold bind in H. destruct (inc st _ _) as [r1 st1| |] eqn:I; try discriminate. apply IO in I.
  destruct r1; inversion H; subst; tm_finish.
Qed.

Lemma process_directive_tm dbg fs inc st l c name args r st' : inc_tm inc ->
  process_directive dbg fs inc st l c name args = Ret r st' -> tmono st st'.
Proof. intros IO. unfold process_directive. destruct (dir_of name) as [[]|];
  eauto using dir_addr_tm, dir_align_tm, dir_const_tm, dir_data_tm, dir_bytes_tm, dir_global_tm, dir_include_tm.
  intros H; inversion H; subst; tm_finish. Qed.

Lemma step_tm dbg fs inc st e r st' : inc_tm inc -> step dbg fs inc st e = Ret r st' -> tmono st st'.
Proof. intros IO. unfold step. destruct (e_val e).
  - intros H. repeat (tm_step u4); try tm_finish.
  - eauto using process_directive_tm.
  - destruct (active st); [intros H; inversion H; subst; tm_finish|]. apply assemble_instr_tm.
Qed.

Lemma run_items_tm dbg fs inc items : inc_tm inc -> forall st r st', run_items dbg fs inc items st = Ret r st' -> tmono st st'.
Proof. intros IO. induction items as [|i rest IH]; intros st r st'; cbn [run_items]; unfold bind.
  - intros H; inversion H; subst; tm_finish.
  - destruct i; [|intros H; inversion H; subst; tm_finish].
    destruct (step dbg fs inc st e) as [r1 st1| |] eqn:S; try discriminate. apply step_tm in S; [|exact IO].
    destruct r1; [intros H; inversion H; subst; exact S|]. intros H. apply IH in H. tm_finish.
Qed.

Lemma do_assemble_tm dbg fs inc st data r st' : inc_tm inc -> do_assemble dbg fs inc st data = Ret r st' -> tmono st st'.
Proof. intros IO. unfold do_assemble, bind. destruct (parse_source data).
  destruct (run_items _ _ _ _ _) as [r1 st1| |] eqn:R; try discriminate. apply run_items_tm in R; [|exact IO].
  destruct r1; [intros H; inversion H; subst; exact R|]. destruct tail as [[p|]|]; try discriminate. intros H; inversion H; subst; exact R.
Qed.

Lemma local_round_tm dbg tasks : forall st r r' st', local_round dbg tasks st r = Ret r' st' -> tmono st st'.
Proof. induction tasks as [|t rest IH]; intros st r r' st'; cbn [local_round]; unfold bind.
  - intros H; inversion H; subst; tm_finish.
  - destruct (run_task dbg st t) as [x st1| |] eqn:R; try discriminate. apply run_task_tm in R.
    destruct x as [lvl|]; [destruct (is_fatal lvl)|]; intros H; try (apply IH in H); try (inversion H; subst); tm_finish.
Qed.

Lemma local_loop_tm dbg rounds : forall tasks st r r' st', local_loop dbg rounds tasks st r = Ret r' st' -> tmono st st'.
Proof. induction rounds as [|k IH]; intros tasks st r r' st'; cbn [local_loop]; unfold bind.
  - destruct tasks; [|discriminate]. intros H; inversion H; subst; tm_finish.
  - destruct tasks as [|t0 tl]. { intros H; inversion H; subst; tm_finish. }
    destruct (local_round dbg (t0 :: tl) st r) as [r1 st1| |] eqn:R; try discriminate. apply local_round_tm in R.
    destruct (local_tasks st1); [|discriminate].
    destruct (res_is_fatal r1); intros H; try (apply IH in H); try (inversion H; subst); tm_finish.
Qed.

(* Context::assemble: the includer's own table only grows (what the included file exported / declared global);
   the table above it is handed back untouched *)
Lemma assemble_body_tm dbg fs inc st data path r st' : inc_tm inc ->
  assemble_body dbg fs inc st data path = Ret r st' ->
  tmono st st' /\ (locals st <> None -> globals st' = globals st).
Proof. intros IO. unfold assemble_body, bind. destruct (enter_file st path) as [st0 fr] eqn:EF.
  unfold enter_file in EF. inversion EF; subst st0 fr; clear EF.
  match goal with |- context[do_assemble dbg fs inc ?s data] => set (st0 := s) end.
  destruct (do_assemble dbg fs inc st0 data) as [r1 st1| |] eqn:D; try discriminate. apply do_assemble_tm in D; [|exact IO].
  assert (X : forall r2 st2, (if res_is_fatal r1 then Ret r1 st1
            else match local_tasks st1 with None => Panic P_local_tasks_unwrap
                 | Some tasks => local_loop dbg task_rounds tasks (set_local_tasks st1 (Some [])) r1 end) = Ret r2 st2 -> tmono st0 st2).
  { intros r2 st2. destruct (res_is_fatal r1).
    - intros H; inversion H; subst. exact D.
    - destruct (local_tasks st1); [|discriminate]. intros H. apply local_loop_tm in H. tm_finish. }
  destruct (if res_is_fatal r1 then _ else _) as [r2 st2| |] eqn:L0; try discriminate. pose proof (X _ _ eq_refl) as L. clear X.
  unfold leave_file. cbn [f_count f_name f_constants f_tasks].
  destruct (negb _); [discriminate|]. destruct (path_stack st2); [discriminate|].
  intros H; inversion H; subst; clear H.
  unfold tmono, TM in *. subst st0. cbn [globals locals] in *.
  destruct (locals st) as [lt|] eqn:LS; cbn [globals locals].
  - destruct L as [L1 L2]. split; [split; [apply tbl_mono_refl|cbn; exact L1]|reflexivity].
  - destruct L as [L1 L2]. split; [split; [exact L1|exact I]|congruence].
Qed.

Theorem assemble_tm dbg fs fuel : forall st data path r st',
  assemble dbg fs fuel st data path = Ret r st' -> tmono st st'.
Proof. induction fuel as [|f IH]; intros st data path r st'; cbn [assemble]; [discriminate|].
  intros H. apply assemble_body_tm in H; [apply H|exact IH]. Qed.

Theorem assemble_above_untouched dbg fs fuel st data path r st' :
  assemble dbg fs fuel st data path = Ret r st' -> locals st <> None -> globals st' = globals st.
Proof. destruct fuel; cbn [assemble]; [discriminate|]. intros H. apply assemble_body_tm in H; [apply H|]. intros ? ? ? ? ?. apply assemble_tm. Qed.

Lemma step_mono dbg fs fuel st e r st' :
  step dbg fs (assemble dbg fs fuel) st e = Ret r st' -> tmono st st'.
Proof. apply step_tm. intros ? ? ? ? ?. apply assemble_tm. Qed.

(* ================= the scope errors the property lists ================= *)
Open Scope N_scope.
(* .export x while the includer's table already has a value for x *)
Lemma export_includer_has st l c x t v w : is_register x = false -> locals st = Some t -> tbl_get t x = Some (Some v) ->
  tbl_get (globals st) x = Some (Some w) ->
  dir_global st l c DExport [AIdent x] = Ret (Some Fatal) (push_error st l c (KApply AGDuplicate)).
Proof. intros R L G GG. unfold dir_global. cbn [arity_check List.length Nat.eqb]. unfold get_constant. cbn [realm_table]. rewrite L.
  unfold lookup_of. rewrite G. unfold bind, insert_constant. rewrite R. cbn [realm_table]. rewrite GG. reflexivity. Qed.

(* .global x while the includer's table already has x (declared or valued) *)
Lemma global_includer_has st l c x e : is_register x = false -> tbl_get (globals st) x = Some e ->
  dir_global st l c DGlobal [AIdent x] = Ret (Some Fatal) (push_error st l c (KApply AGDuplicate)).
Proof. intros R GG. unfold dir_global. cbn [arity_check List.length Nat.eqb]. unfold bind, defer_constant. rewrite R. cbn [realm_table]. rewrite GG. reflexivity. Qed.

(* .import x while the includer's table lacks x *)
Lemma import_includer_lacks st l c x : tbl_get (globals st) x = None ->
  dir_global st l c DImport [AIdent x] = Ret (Some Fatal) (push_error st l c (KApply AGNotFound)).
Proof. intros GG. unfold dir_global. cbn [arity_check List.length Nat.eqb]. unfold get_constant. cbn [realm_table].
  unfold lookup_of. rewrite GG. reflexivity. Qed.

(* .import x of a name the file already has *)
Lemma import_duplicate st l c x t v w : is_register x = false -> locals st = Some t -> tbl_get t x = Some (Some w) ->
  tbl_get (globals st) x = Some (Some v) ->
  dir_global st l c DImport [AIdent x] = Ret (Some Fatal) (push_error st l c (KApply AGDuplicate)).
Proof. intros R L G GG. unfold dir_global. cbn [arity_check List.length Nat.eqb]. unfold get_constant. cbn [realm_table].
  unfold lookup_of. rewrite GG. unfold bind, insert_constant. rewrite R. cbn [realm_table]. rewrite L, G. reflexivity. Qed.

(* .export x of a name without value: unknown, or only declared *)
Lemma export_unknown st l c x t : locals st = Some t -> tbl_get t x = None ->
  dir_global st l c DExport [AIdent x] = Ret (Some Fatal) (push_error st l c (KApply AGNotFound)).
Proof. intros L G. unfold dir_global. cbn [arity_check List.length Nat.eqb]. unfold get_constant. cbn [realm_table]. rewrite L.
  unfold lookup_of. rewrite G. reflexivity. Qed.
Lemma export_unvalued st l c x t : locals st = Some t -> tbl_get t x = Some None ->
  dir_global st l c DExport [AIdent x] = Ret (Some Fatal) (push_error st l c (KApply AGDeferred)).
Proof. intros L G. unfold dir_global. cbn [arity_check List.length Nat.eqb]. unfold get_constant. cbn [realm_table]. rewrite L.
  unfold lookup_of. rewrite G. reflexivity. Qed.

(* .global x that never got a value in its file: the end-of-file task *)
Lemma global_unvalued dbg st l c x t : locals st = Some t -> tbl_get t x = Some None ->
  run_task dbg st (GlobalTask x l c) = Ret (Some Trivial) (push_error st l c (KApply AGDeferred)).
Proof. intros L G. cbn [run_task]. unfold get_constant. cbn [realm_table]. rewrite L. unfold lookup_of. rewrite G. reflexivity. Qed.

(* fix 976f0cc: a name imported while unvalued that got a value inside the importing file *)
Lemma import_redefined dbg st l c x t v : locals st = Some t -> tbl_get t x = Some (Some v) ->
  run_task dbg st (ImportCheckTask x l c) = Ret (Some Trivial) (push_error st l c (KApply AGDuplicate)).
Proof. intros L G. cbn [run_task]. unfold get_constant. cbn [realm_table]. rewrite L. unfold lookup_of. rewrite G. reflexivity. Qed.

(* an included file starts from the empty table, and its includer's table becomes the "global" one *)
Lemma enter_file_scope st path : locals (fst (enter_file st path)) = Some [] /\
  (forall t, locals st = Some t -> globals (fst (enter_file st path)) = t).
Proof. unfold enter_file. cbn [fst locals globals]. split; [reflexivity|]. intros t ->. reflexivity. Qed.

