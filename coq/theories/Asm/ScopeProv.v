(* C14 on the Context model, part 5: provenance of the entries of a file's own table (towards C14_use_sites).
   Pass 1: every model function except `.const`, a label, `.import`/`.global` and `.include` leaves `locals` exactly as it is
           (in particular every deferred task and the whole end-of-file loop).
   Pass 2: one statement changes the file's own table only by declaring a name or by giving a name the value `def_by` allows:
           its own `.const` / label, the includer's value for `.import`, the included file's final value for a name that file
           hands up.  file_provenance: the same for a whole statement list.
   Proof file (no model definitions). *)
From Coq Require Import ZArith NArith List Bool Lia String.
From Trion Require Import Text.Types Asm.CtxModel Asm.ScopeProofs Asm.ScopeProofs2 Asm.ScopeIso.
From Trion Require Arm.AsmStmtModel Expr.EvalModel Text.ParseModel.
Import ListNotations.

(* ------------------------------------------------------------------ pass 1: locals untouched *)
Definition lsame (a b : state) : Prop := locals b = locals a.

Ltac ls_finish :=
  unfold lsame in *;
  cbn [globals locals set_output set_active set_globals set_locals set_global_tasks set_local_tasks set_errors set_path_stack set_curr_name
       push_error push_error_in errors output active global_tasks local_tasks path_stack curr_name] in *;
  congruence.
Ltac l_go tac := intros; repeat (tm_step tac); try ls_finish.

Lemma add_task_ls st t r u st' : add_task st t r = Ret u st' -> lsame st st'.
Proof. unfold add_task. destruct r; [|destruct (local_tasks st)]; intros H; inversion H; subst; ls_finish. Qed.
Lemma insert_global_ls st n v x st' : insert_constant st n v RGlobal = Ret x st' -> lsame st st'.
Proof. unfold insert_constant. destruct (is_register n); [intros H; inversion H; subst; ls_finish|]. cbn [realm_table set_realm_table].
  destruct (tbl_get (globals st) n) as [[w|]|]; intros H; inversion H; subst; ls_finish. Qed.
Lemma defer_global_ls st n x st' : defer_constant st n RGlobal = Ret x st' -> lsame st st'.
Proof. unfold defer_constant. destruct (is_register n); [intros H; inversion H; subst; ls_finish|]. cbn [realm_table set_realm_table].
  destruct (tbl_get (globals st) n) as [w|]; intros H; inversion H; subst; ls_finish. Qed.

Ltac k0 E := first [ apply add_task_ls in E | apply insert_global_ls in E | apply defer_global_ls in E ].

Lemma put_stmt_ls dbg st f l c a d k p r st' : put_stmt dbg st f l c a d k p = Ret r st' -> lsame st st'.
Proof. unfold put_stmt. l_go k0. Qed.
Lemma write_stmt_ls dbg st f l c a d k1 k2 p r st' : write_stmt dbg st f l c a d k1 k2 p = Ret r st' -> lsame st st'.
Proof. unfold write_stmt. intros H. repeat (tm_step k0); try ls_finish; apply put_stmt_ls in H; ls_finish. Qed.
Lemma write_instr_ls dbg st ai d r st' : write_instr dbg st ai d = Ret r st' -> lsame st st'.
Proof. unfold write_instr. intros H. repeat (tm_step k0); try ls_finish; apply write_stmt_ls in H; ls_finish. Qed.
Lemma write_data_ls dbg st d data r st' : write_data dbg st d data = Ret r st' -> lsame st st'.
Proof. apply write_stmt_ls. Qed.
Lemma instr_assemble_ls st ai local x st' : instr_assemble st ai local = Ret x st' -> lsame st st'.
Proof. unfold instr_assemble. l_go k0. Qed.
Ltac k1 E := first [ k0 E | apply write_data_ls in E | apply write_instr_ls in E | apply instr_assemble_ls in E ].
Lemma data_apply_ls dbg st d local x st' : data_apply dbg st d local = Ret x st' -> lsame st st'.
Proof. unfold data_apply. l_go k1. Qed.
Ltac k2 E := first [ k1 E | apply data_apply_ls in E ].

(* no deferred task ever writes the file's own table *)
Lemma run_task_ls dbg st t r st' : run_task dbg st t = Ret r st' -> lsame st st'.
Proof. destruct t; cbn [run_task]; intros H.
  - repeat (tm_step k2); try ls_finish. apply write_instr_ls in H. ls_finish.
  - repeat (tm_step k2); try ls_finish.
  - repeat (tm_step k2); try ls_finish.
  - repeat (tm_step k2); try ls_finish.
Qed.

Lemma close_segment_ls dbg st x st' : close_segment dbg st = Ret x st' -> lsame st st'.
Proof. unfold close_segment. l_go k0. Qed.
Lemma select_segment_ls dbg st a x st' : select_segment dbg st a = Ret x st' -> lsame st st'.
Proof. unfold select_segment. l_go k0. Qed.
Ltac k3 E := first [ k2 E | apply close_segment_ls in E | apply select_segment_ls in E | apply run_task_ls in E ].
Lemma change_segment_ls dbg st a x st' : change_segment dbg st a = Ret x st' -> lsame st st'.
Proof. unfold change_segment. intros H. repeat (tm_step k3); try ls_finish; apply select_segment_ls in H; ls_finish. Qed.
Lemma eval_now_ls st l c a x st' : eval_now st l c a = Ret x st' -> lsame st st'.
Proof. unfold eval_now. l_go k0. Qed.
Lemma arity_check_ls st l c args n st' : arity_check st l c args n = Some st' -> lsame st st'.
Proof. unfold arity_check. destruct (Nat.eqb _ _); [discriminate|]. destruct (Nat.ltb _ _); intros H; inversion H; subst; ls_finish. Qed.
Lemma seg_update_ls st l c x r st' : seg_update st l c x = Ret r st' -> lsame st st'.
Proof. unfold seg_update. l_go k0. Qed.
Ltac k4 E := first [ k3 E | apply change_segment_ls in E | apply eval_now_ls in E | apply arity_check_ls in E | apply seg_update_ls in E ].

Lemma dir_addr_ls dbg st l c args r st' : dir_addr dbg st l c args = Ret r st' -> lsame st st'.
Proof. unfold dir_addr. l_go k4. Qed.
Lemma dir_align_ls dbg st l c args r st' : dir_align dbg st l c args = Ret r st' -> lsame st st'.
Proof. unfold dir_align. intros H. repeat (tm_step k4); try ls_finish; apply seg_update_ls in H; ls_finish. Qed.
Lemma dir_data_ls dbg st l c k args r st' : dir_data dbg st l c k args = Ret r st' -> lsame st st'.
Proof. unfold dir_data. l_go k4. Qed.
Lemma dir_bytes_ls dbg fs st l c d args r st' : dir_bytes dbg fs st l c d args = Ret r st' -> lsame st st'.
Proof. unfold dir_bytes. intros H. repeat (tm_step k4); try ls_finish; apply seg_update_ls in H; ls_finish. Qed.
Lemma assemble_instr_ls dbg st l c name args r st' : assemble_instr dbg st l c name args = Ret r st' -> lsame st st'.
Proof. unfold assemble_instr. intros H. repeat (tm_step k4); try ls_finish; apply write_instr_ls in H; ls_finish. Qed.

Lemma local_round_ls dbg tasks : forall st r r' st', local_round dbg tasks st r = Ret r' st' -> lsame st st'.
Proof. induction tasks as [|t rest IH]; intros st r r' st'; cbn [local_round]; unfold bind.
  - intros H; inversion H; subst; reflexivity.
  - destruct (run_task dbg st t) as [x st1| |] eqn:R; try discriminate. apply run_task_ls in R.
    destruct x as [lvl|]; [destruct (is_fatal lvl)|]; intros H; try (apply IH in H); try (inversion H; subst); ls_finish.
Qed.
(* the whole end-of-file loop: the table a file ends with is the table its last statement left *)
Lemma local_loop_ls dbg rounds : forall tasks st r r' st', local_loop dbg rounds tasks st r = Ret r' st' -> lsame st st'.
Proof. induction rounds as [|k IH]; intros tasks st r r' st'; cbn [local_loop]; unfold bind.
  - destruct tasks; [|discriminate]. intros H; inversion H; subst; reflexivity.
  - destruct tasks as [|t0 tl]. { intros H; inversion H; subst; reflexivity. }
    destruct (local_round dbg (t0 :: tl) st r) as [r1 st1| |] eqn:R; try discriminate. apply local_round_ls in R.
    destruct (local_tasks st1); [|discriminate].
    destruct (res_is_fatal r1); intros H; try (apply IH in H); try (inversion H; subst); ls_finish.
Qed.

(* ------------------------------------------------------------------ pass 2: what a statement may put into the own table *)
Definition defs := str -> Z -> Prop.
Definition no_defs : defs := fun _ _ => False.

Definition chg (D : defs) (t t' : table) : Prop := forall n,
  tbl_get t' n = tbl_get t n \/
  (tbl_get t n = None /\ tbl_get t' n = Some None) \/
  (exists v, tbl_get t' n = Some (Some v) /\ D n v /\ (tbl_get t n = None \/ tbl_get t n = Some None)).
Definition ochg (D : defs) (o o' : option table) : Prop :=
  match o, o' with Some t, Some t' => chg D t t' | None, None => True | _, _ => False end.

Lemma chg_refl D t : chg D t t. Proof. intros n. left. reflexivity. Qed.
Lemma chg_trans D a b c : chg D a b -> chg D b c -> chg D a c.
Proof. intros H1 H2 n. specialize (H1 n). specialize (H2 n).
  destruct H1 as [E1|[(A & B)|(v & A & B & C)]].
  - rewrite <- E1. exact H2.
  - destruct H2 as [E2|[(A2 & B2)|(v & A2 & B2 & C2)]].
    + right. left. split; congruence.
    + congruence.
    + right. right. exists v. auto.
  - destruct H2 as [E2|[(A2 & B2)|(w & A2 & B2 & [C2|C2])]]; try congruence.
    right. right. exists v. split; [congruence|]. auto. Qed.
Lemma chg_weaken (D D' : defs) a b : (forall n v, D n v -> D' n v) -> chg D a b -> chg D' a b.
Proof. intros W H n. destruct (H n) as [E|[X|(v & A & B & C)]]; auto. right. right. exists v. auto. Qed.
Lemma ochg_refl D o : ochg D o o. Proof. destruct o; cbn; [apply chg_refl|exact I]. Qed.
Lemma ochg_trans D a b c : ochg D a b -> ochg D b c -> ochg D a c.
Proof. destruct a, b, c; cbn; try tauto. apply chg_trans. Qed.
Lemma ochg_weaken (D D' : defs) a b : (forall n v, D n v -> D' n v) -> ochg D a b -> ochg D' a b.
Proof. intros W. destruct a, b; cbn; try tauto. apply chg_weaken. exact W. Qed.
Lemma ochg_eq D a b : b = a -> ochg D a b. Proof. intros ->. apply ochg_refl. Qed.

Lemma chg_set_val (D : defs) t n v : D n v -> (tbl_get t n = None \/ tbl_get t n = Some None) -> chg D t (tbl_set t n (Some v)).
Proof. intros Dn G m. rewrite tbl_get_set. destruct (str_eqb n m) eqn:E; [|left; reflexivity].
  apply str_eqb_eq in E. subst m. right. right. exists v. auto. Qed.
Lemma chg_set_none (D : defs) t n : tbl_get t n = None -> chg D t (tbl_set t n None).
Proof. intros G m. rewrite tbl_get_set. destruct (str_eqb n m) eqn:E; [|left; reflexivity].
  apply str_eqb_eq in E. subst m. right. left. auto. Qed.

Lemma insert_local_chg (D : defs) st n v x st' : insert_constant st n v RLocal = Ret x st' -> D n v -> ochg D (locals st) (locals st').
Proof. unfold insert_constant. destruct (is_register n). { intros H; inversion H; subst; intros; apply ochg_refl. }
  cbn [realm_table set_realm_table]. destruct (locals st) as [t|] eqn:L; [|discriminate].
  destruct (tbl_get t n) as [[w|]|] eqn:G; intros H Dn; inversion H; subst; cbn [locals set_locals]; rewrite ?L; try apply ochg_refl;
    cbn; apply chg_set_val; auto. Qed.
Lemma defer_local_chg (D : defs) st n x st' : defer_constant st n RLocal = Ret x st' -> ochg D (locals st) (locals st').
Proof. unfold defer_constant. destruct (is_register n). { intros H; inversion H; subst; intros; apply ochg_refl. }
  cbn [realm_table set_realm_table]. destruct (locals st) as [t|] eqn:L; [|discriminate].
  destruct (tbl_get t n) as [w|] eqn:G; intros H; inversion H; subst; cbn [locals set_locals]; rewrite ?L; try apply ochg_refl;
    cbn; apply chg_set_none; auto. Qed.

(* what statement e, executed in state sa, may define: name n with value v *)
Definition def_by (dbg : bool) (fs : str -> option (list N)) (inc inc' : state -> list N -> str -> res result)
    (e : element) (sa : state) (n : str) (v : Z) : Prop :=
  (exists dn a1 ch, e_val e = EDirective dn [AIdent n; a1] /\ dir_of dn = Some DConst /\
                    ctx_eval sa a1 = EvOk (AConst v) (EvalModel.Complete ch)) \/
  (e_val e = ELabel n /\ exists s, active sa = Active s /\ v = Z.of_N (curr_addr s)) \/
  (exists dn, e_val e = EDirective dn [AIdent n] /\ dir_of dn = Some DImport /\ tbl_get (globals sa) n = Some (Some v)) \/
  (exists dn name data r st2 t2,
     e_val e = EDirective dn [AStr name] /\ dir_of dn = Some DInclude /\
     let path := resolve_path (match path_stack sa with [] => [] | p :: _ => p end) name in
     fs path = Some data /\ (exists r1 st1, inc sa data path = Ret r1 st1) /\
     assemble_open dbg fs inc' sa data path = Ret r st2 /\ locals st2 = Some t2 /\
     file_hands data n /\ tbl_get t2 n = Some (Some v)).

Lemma one_arg st l c args : arity_check st l c args 1 = None -> exists a, args = [a].
Proof. unfold arity_check. destruct (Nat.eqb (List.length args) 1) eqn:Q; [|destruct (Nat.ltb _ _); discriminate].
  intros _. apply Nat.eqb_eq in Q. destruct args as [|a [|b r]]; try discriminate Q. eauto. Qed.
Lemma two_args st l c args : arity_check st l c args 2 = None -> exists a b, args = [a; b].
Proof. unfold arity_check. destruct (Nat.eqb (List.length args) 2) eqn:Q; [|destruct (Nat.ltb _ _); discriminate].
  intros _. apply Nat.eqb_eq in Q. destruct args as [|a [|b [|c0 r]]]; try discriminate Q. eauto. Qed.

Lemma get_found_global st n v : get_constant st n RGlobal = Some (EvalModel.Found v) -> tbl_get (globals st) n = Some (Some v).
Proof. unfold get_constant. cbn [realm_table]. unfold lookup_of. destruct (tbl_get (globals st) n) as [[w|]|]; intros H; inversion H; reflexivity. Qed.

Ltac c_finish :=
  unfold lsame in *;
  cbn [globals locals set_output set_active set_globals set_locals set_global_tasks set_local_tasks set_errors set_path_stack set_curr_name
       push_error push_error_in errors output active global_tasks local_tasks path_stack curr_name] in *;
  repeat match goal with H : locals _ = locals _ |- _ => try rewrite H in *; clear H end;
  eauto 6 using ochg_refl, ochg_trans.

Section Step.
Variables (dbg : bool) (fs : str -> option (list N)) (inc inc' : state -> list N -> str -> res result).
(* `inc` is Context::assemble with some fuel, `inc'` the same with one unit less (what the included file's own includes run on) *)
Hypothesis HI : forall st data path r st', inc st data path = Ret r st' -> assemble_body dbg fs inc' st data path = Ret r st'.
Hypothesis IO : inc_hs inc'.

Lemma dir_const_chg (D : defs) st l c args r st' : dir_const st l c args = Ret r st' ->
  (forall n a1 v ch, args = [AIdent n; a1] -> ctx_eval st a1 = EvOk (AConst v) (EvalModel.Complete ch) -> D n v) ->
  ochg D (locals st) (locals st').
Proof. unfold dir_const. intros H HD. destruct (arity_check st l c args 2) eqn:A.
  { apply arity_check_ls in A. inversion H; subst. apply ochg_eq. exact A. }
  destruct (two_args _ _ _ _ A) as (a0 & a1 & ->). destruct a0; try (inversion H; subst; apply ochg_refl).
  unfold bind in H. unfold eval_now in H.
  destruct (ctx_eval st a1) as [a' [ch|ch cs]|a' e|q] eqn:E; try discriminate H; try (inversion H; subst; apply ochg_refl).
  destruct a'; try (inversion H; subst; apply ochg_refl).
  destruct (insert_constant st s v RLocal) as [i st2| |] eqn:I; try discriminate H.
  apply (insert_local_chg D) in I; [|eapply HD; eauto].
  destruct i as [b|[]]; inversion H; subst; exact I.
Qed.

Lemma dir_global_chg (D : defs) st l c d args r st' : dir_global st l c d args = Ret r st' ->
  (forall n v, args = [AIdent n] -> d <> DGlobal -> d <> DExport -> tbl_get (globals st) n = Some (Some v) -> D n v) ->
  ochg D (locals st) (locals st').
Proof. unfold dir_global. intros H HD. destruct (arity_check st l c args 1) eqn:A.
  { apply arity_check_ls in A. inversion H; subst. apply ochg_eq. exact A. }
  destruct (one_arg _ _ _ _ A) as (a0 & ->). clear A. destruct a0; try (inversion H; subst; apply ochg_refl).
  specialize (HD s).
  destruct d; cbv beta iota zeta in H;
    repeat (tm_step ltac:(fun E => first
      [ (apply (insert_local_chg D) in E; [|apply HD; [reflexivity|discriminate|discriminate|apply get_found_global; assumption]])
      | apply (defer_local_chg D) in E | k0 E ])); try c_finish.
Qed.

Lemma handed_chg (D : defs) (S : nameset) t t' t2 : handed_up S t t' t2 ->
  (forall n v, S n -> tbl_get t2 n = Some (Some v) -> D n v) -> chg D t t'.
Proof. intros H HD n. destruct (H n) as [E|(Sn & [(A & B)|(v & A & B & C)])]; auto.
  right. right. exists v. auto. Qed.

Lemma dir_include_chg (D : defs) st l c args r st' : locals st <> None ->
  dir_include fs inc st l c args = Ret r st' ->
  (forall n v name data r2 st2 t2, args = [AStr name] ->
     let path := resolve_path (match path_stack st with [] => [] | p :: _ => p end) name in
     fs path = Some data -> (exists r1 st1, inc st data path = Ret r1 st1) ->
     assemble_open dbg fs inc' st data path = Ret r2 st2 -> locals st2 = Some t2 ->
     file_hands data n -> tbl_get t2 n = Some (Some v) -> D n v) ->
  ochg D (locals st) (locals st').
Proof. intros NL. unfold dir_include. intros H HD. destruct (arity_check st l c args 1) eqn:A.
  { apply arity_check_ls in A. inversion H; subst. apply ochg_eq. exact A. }
  destruct (one_arg _ _ _ _ A) as (a0 & ->). destruct a0; try (inversion H; subst; apply ochg_refl).
  destruct (existsb _ _); [inversion H; subst; apply ochg_refl|].
  destruct (fs _) as [data|] eqn:F; [|inversion H; subst; apply ochg_refl].
  unfold bind in H. destruct (inc st data _) as [r1 st1| |] eqn:AB; try discriminate H.
  pose proof AB as AB0. apply HI in AB.
  destruct (locals st) as [t|] eqn:L; [|congruence].
  destruct (include_isolation_body _ _ _ _ _ _ _ _ _ IO AB L) as (st2 & t2 & t' & AO & L2 & _ & L' & _ & _ & _ & HU & _).
  assert (X : ochg D (Some t) (locals st1)).
  { rewrite L'. cbn. eapply handed_chg; [exact HU|]. intros n v Sn T2. eapply HD; eauto. }
  destruct r1; inversion H; subst; exact X.
Qed.

Lemma process_directive_chg st l c name args r st' : locals st <> None ->
  process_directive dbg fs inc st l c name args = Ret r st' ->
  ochg (def_by dbg fs inc inc' (mkElement l c (EDirective name args)) st) (locals st) (locals st').
Proof. intros NL. unfold process_directive. destruct (dir_of name) as [[]|] eqn:DN; intros H.
  - apply ochg_eq. eapply dir_addr_ls; eauto.
  - apply ochg_eq. eapply dir_align_ls; eauto.
  - eapply dir_const_chg; [exact H|]. intros n a1 v ch -> E. left. exists name, a1, ch. auto.
  - apply ochg_eq. eapply dir_data_ls; eauto.
  - apply ochg_eq. eapply dir_bytes_ls; eauto.
  - apply ochg_eq. eapply dir_bytes_ls; eauto.
  - apply ochg_eq. eapply dir_bytes_ls; eauto.
  - eapply dir_global_chg; [exact H|]. intros n v _ X. congruence.
  - eapply dir_global_chg; [exact H|]. intros n v -> _ _ G. right. right. left. exists name. auto.
  - eapply dir_global_chg; [exact H|]. intros n v _ _ X. congruence.
  - eapply dir_include_chg; [exact NL|exact H|]. intros n v nm data r2 st2 t2 -> path F RR AO L2 FH T2.
    right. right. right. exists name, nm, data, r2, st2, t2. cbn [e_val]. auto 10.
  - inversion H; subst. apply ochg_refl.
Qed.

Lemma step_chg st e r st' : locals st <> None -> step dbg fs inc st e = Ret r st' ->
  ochg (def_by dbg fs inc inc' e st) (locals st) (locals st').
Proof. intros NL. unfold step. destruct e as [l c ev]. cbn [e_val e_line e_col]. destruct ev.
  - destruct (active st) as [|s] eqn:A; [intros H; inversion H; subst; apply ochg_refl|].
    unfold bind. destruct (insert_constant st name _ RLocal) as [i st1| |] eqn:I; try discriminate.
    apply (insert_local_chg (def_by dbg fs inc inc' (mkElement l c (ELabel name)) st)) in I.
    + destruct i as [b|[]]; intros H; inversion H; subst; exact I.
    + right. left. split; [reflexivity|]. exists s. auto.
  - apply process_directive_chg. exact NL.
  - destruct (active st); [intros H; inversion H; subst; apply ochg_refl|]. intros H. apply ochg_eq. eapply assemble_instr_ls; eauto.
Qed.

(* a statement list: what any of its statements defines in the state in which that statement is reached *)
Definition run_defs (items : list ParseModel.item) (st : state) (n : str) (v : Z) : Prop :=
  exists pre e post sa, items = pre ++ ParseModel.IOk e :: post /\
    run_items dbg fs inc pre st = Ret None sa /\ def_by dbg fs inc inc' e sa n v.

Lemma ochg_some D a b : ochg D a b -> a <> None -> b <> None.
Proof. destruct a, b; cbn; try tauto; congruence. Qed.

Lemma run_items_chg items : forall st r st', locals st <> None ->
  run_items dbg fs inc items st = Ret r st' -> ochg (run_defs items st) (locals st) (locals st').
Proof. induction items as [|i rest IH]; intros st r st' NL; cbn [run_items]; unfold bind.
  - intros H; inversion H; subst; apply ochg_refl.
  - destruct i; [|intros H; inversion H; subst; apply ochg_refl].
    destruct (step dbg fs _ st e) as [r1 st1| |] eqn:ST; try discriminate.
    pose proof (step_chg _ _ _ _ NL ST) as C1.
    assert (W1 : forall n v, def_by dbg fs inc inc' e st n v -> run_defs (ParseModel.IOk e :: rest) st n v).
    { intros n v Dn. exists [], e, rest, st. split; [reflexivity|]. split; [reflexivity|exact Dn]. }
    destruct r1; [intros H; inversion H; subst; eapply ochg_weaken; eauto|].
    intros H. apply IH in H; [|eapply ochg_some; eauto].
    eapply ochg_trans; [eapply ochg_weaken; [exact W1|exact C1]|]. eapply ochg_weaken; [|exact H].
    intros n v (pre & e' & post & sa & E & R & Dn). exists (ParseModel.IOk e :: pre), e', post, sa.
    split; [rewrite E; reflexivity|]. split; [|exact Dn]. cbn [run_items]. unfold bind. rewrite ST. exact R.
Qed.

(* a whole file: the table it ends with *)
Theorem file_provenance st data path r st2 items tail : assemble_open dbg fs inc st data path = Ret r st2 ->
  parse_source data = Parsed items tail ->
  exists t2, locals st2 = Some t2 /\
    forall n v, tbl_get t2 n = Some (Some v) -> run_defs items (fst (enter_file st path)) n v.
Proof. unfold assemble_open, bind, do_assemble. intros H PS. rewrite PS in H. unfold bind in H.
  destruct (run_items _ _ _ items _) as [r1 st1| |] eqn:R; try discriminate H.
  apply run_items_chg in R; [|cbn; discriminate]. cbn [enter_file fst locals] in R.
  assert (X : locals st2 = locals st1).
  { destruct r1 as [lv|].
    - cbn [res_is_fatal] in H. destruct lv.
      + destruct (local_tasks st1); [|discriminate H]. apply local_loop_ls in H. exact H.
      + inversion H; subst. reflexivity.
    - destruct tail as [[q|]|]; try discriminate H. cbn [res_is_fatal] in H.
      destruct (local_tasks st1); [|discriminate H]. apply local_loop_ls in H. exact H. }
  rewrite X. destruct (locals st1) as [t1|]; [|destruct R]. exists t1. split; [reflexivity|].
  intros n v T. cbn in R. destruct (R n) as [E|[(A & B)|(w & A & B & C)]].
  - rewrite T in E. discriminate E.
  - congruence.
  - assert (w = v) by congruence. subst w. exact B.
Qed.
End Step.

Lemma assemble_is_body dbg fs fuel st data path r st' : assemble dbg fs fuel st data path = Ret r st' ->
  assemble_body dbg fs (assemble dbg fs (Nat.pred fuel)) st data path = Ret r st'.
Proof. destruct fuel as [|f]; cbn [assemble Nat.pred]; [discriminate|]. intros H. exact H. Qed.

(* every entry with a value in the table a file ends with was put there by one of the file's own statements: its `.const`
   (the evaluated argument), its label (the current address), its `.import` (the includer's value at that moment), or its
   `.include` of a file that hands the name up and ends with that value *)
Theorem assemble_provenance dbg fs fuel st data path r st2 items tail :
  assemble_open dbg fs (assemble dbg fs fuel) st data path = Ret r st2 -> parse_source data = Parsed items tail ->
  exists t2, locals st2 = Some t2 /\
    forall n v, tbl_get t2 n = Some (Some v) ->
      exists pre e post sa, items = pre ++ ParseModel.IOk e :: post /\
        run_items dbg fs (assemble dbg fs fuel) pre (fst (enter_file st path)) = Ret None sa /\
        def_by dbg fs (assemble dbg fs fuel) (assemble dbg fs (Nat.pred fuel)) e sa n v.
Proof. apply file_provenance. - apply assemble_is_body. - apply assemble_inc_hs. Qed.
