(* C14 on the Context model, part 6: the model's tables against the oracle Asm/ScopeSpec.v (towards C14_use_sites).
   `occ f st data path t`: the text `data`, assembled as file `path` from state st with include fuel f, is an occurrence
   whose ScopeSpec tree is t: statement by statement `.const x, v` / `x:` are IDef (a label with the address the model gives
   it), `.global/.import/.export x` are IGlobal/IImport/IExport, `.du32 x` is IUse, `.include "g"` is IChild of an occurrence
   of the text the file system has for g, `.addr` is skipped.
   occ_sound: every entry with a value in the table such an occurrence ends with is one of the oracle's `sources` of that
   name: a value of `down t n` (own definitions and what included occurrences hand up, recursively), or - when the occurrence
   imports n - the value the includer's table had for n when the occurrence was entered.
   Proof file (no model definitions). *)
From Coq Require Import ZArith NArith List Bool Lia String.
From Trion Require Import Text.Types Asm.CtxModel Asm.ScopeProofs Asm.ScopeProofs2 Asm.ScopeIso Asm.ScopeProv.
From Trion Require Asm.ScopeSpec Arm.AsmStmtModel Expr.EvalModel Text.ParseModel.
Import ListNotations.

Module SS := ScopeSpec.

(* ------------------------------------------------------------------ the oracle's functions on a growing statement list *)
Lemma ss_eqb_refl x : SS.str_eqb x x = true.
Proof. induction x as [|a x IH]; cbn; [reflexivity|]. rewrite N.eqb_refl. exact IH. Qed.

Lemma down_cons i r x : SS.down (SS.Node (i :: r)) x =
  (match i with
   | SS.IDef y v => if SS.str_eqb x y then [v] else []
   | SS.IChild c => SS.repeat_app (SS.ups c x) (SS.down c x)
   | _ => []
   end) ++ SS.down (SS.Node r) x.
Proof. destruct i; reflexivity. Qed.
Lemma down_app a b x : SS.down (SS.Node (a ++ b)) x = SS.down (SS.Node a) x ++ SS.down (SS.Node b) x.
Proof. induction a as [|i a IH]; [reflexivity|]. rewrite <- app_comm_cons, !down_cons, IH, app_assoc. reflexivity. Qed.
Lemma imports_app a b x : SS.imports (SS.Node (a ++ b)) x = (SS.imports (SS.Node a) x + SS.imports (SS.Node b) x)%nat.
Proof. unfold SS.imports. cbn [SS.items_of]. rewrite filter_app, app_length. reflexivity. Qed.
Lemma in_repeat_app {A} (k : nat) (l : list A) v : k <> 0%nat -> In v l -> In v (SS.repeat_app k l).
Proof. destruct k; [congruence|]. intros _ H. cbn. apply in_or_app. left. exact H. Qed.

Definition entry_globals (st : state) : table := match locals st with Some c => c | None => globals st end.

(* a value of n the oracle accepts for a statement list `its`; g0 = the includer's table when the occurrence was entered *)
Definition src (g0 : table) (its : list SS.item) (n : str) (v : Z) : Prop :=
  In v (SS.down (SS.Node its) n) \/ (SS.imports (SS.Node its) n <> 0%nat /\ tbl_get g0 n = Some (Some v)).
Lemma src_mono g0 a b n v : src g0 a n v -> src g0 (a ++ b) n v.
Proof. intros [H|[H G]]; [left|right].
  - rewrite down_app. apply in_or_app. left. exact H.
  - split; [rewrite imports_app; lia|exact G]. Qed.

Definition curr_of (st : state) : str := match path_stack st with [] => [] | p :: _ => p end.
Definition ST : nameset := fun _ => True.

Section Refine.
Variables (dbg : bool) (fs : str -> option (list N)).

Inductive occ : nat -> state -> list N -> str -> SS.tree -> Prop :=
| occ_intro f st data path els tail its :
    parse_source data = Parsed (map ParseModel.IOk els) tail ->
    (forall n, file_hands data n -> SS.ups (SS.Node its) n <> 0%nat) ->
    runcorr f els its (fst (enter_file st path)) ->
    occ f st data path (SS.Node its)
with runcorr : nat -> list element -> list SS.item -> state -> Prop :=
| rc_nil f s : runcorr f [] [] s
| rc_cons f e els it its s : item_ok f e s it ->
    (forall s1, step dbg fs (assemble dbg fs f) s e = Ret None s1 -> runcorr f els its s1) ->
    runcorr f (e :: els) (it :: its) s
| rc_skip f l c dn args els its s : dir_of dn = Some DAddr ->
    (forall s1, step dbg fs (assemble dbg fs f) s (mkElement l c (EDirective dn args)) = Ret None s1 -> runcorr f els its s1) ->
    runcorr f (mkElement l c (EDirective dn args) :: els) its s
with item_ok : nat -> element -> state -> SS.item -> Prop :=
| io_const f l c dn x v s : dir_of dn = Some DConst ->
    item_ok f (mkElement l c (EDirective dn [AIdent x; AConst v])) s (SS.IDef x v)
| io_label f l c x s sg : active s = Active sg ->
    item_ok f (mkElement l c (ELabel x)) s (SS.IDef x (Z.of_N (curr_addr sg)))
| io_global f l c dn x s : dir_of dn = Some DGlobal -> item_ok f (mkElement l c (EDirective dn [AIdent x])) s (SS.IGlobal x)
| io_import f l c dn x s : dir_of dn = Some DImport -> item_ok f (mkElement l c (EDirective dn [AIdent x])) s (SS.IImport x)
| io_export f l c dn x s : dir_of dn = Some DExport -> item_ok f (mkElement l c (EDirective dn [AIdent x])) s (SS.IExport x)
| io_use f l c dn x k s : dir_of dn = Some (DData DU32) -> item_ok f (mkElement l c (EDirective dn [AIdent x])) s (SS.IUse x k)
| io_child f l c dn name data s t : dir_of dn = Some DInclude ->
    fs (resolve_path (curr_of s) name) = Some data ->
    occ (Nat.pred f) s data (resolve_path (curr_of s) name) t ->
    item_ok f (mkElement l c (EDirective dn [AStr name])) s (SS.IChild t).

Definition child_sound (f : nat) : Prop := forall st data path t r st2 t2 n v,
  occ f st data path t -> assemble_open dbg fs (assemble dbg fs f) st data path = Ret r st2 -> locals st2 = Some t2 ->
  tbl_get t2 n = Some (Some v) -> src (entry_globals st) (SS.items_of t) n v.

Lemma assemble0 st data path : assemble dbg fs 0 st data path = OutOfFuel. Proof. reflexivity. Qed.

(* one statement keeps the invariant *)
Lemma step_sound f (IHf : f <> 0%nat -> child_sound (Nat.pred f)) st0 e s r s1 pre (add : list SS.item) :
  (match add with [it] => item_ok f e s it | [] => exists dn args, e_val e = EDirective dn args /\ dir_of dn = Some DAddr | _ => False end) ->
  locals s <> None -> Hs ST st0 s ->
  (forall n v, olook (locals s) n = Some (Some v) -> src (globals st0) pre n v) ->
  step dbg fs (assemble dbg fs f) s e = Ret r s1 ->
  locals s1 <> None /\ Hs ST st0 s1 /\
  (forall n v, olook (locals s1) n = Some (Some v) -> src (globals st0) (pre ++ add) n v).
Proof. intros IT NL H0 INV STEP.
  assert (H1 : Hs ST s s1).
  { eapply step_hs; [apply assemble_inc_hs|exact NL| |exact STEP]. intros; exact I. }
  pose proof (step_chg dbg fs (assemble dbg fs f) (assemble dbg fs (Nat.pred f))
                (assemble_is_body dbg fs f) (assemble_inc_hs dbg fs (Nat.pred f)) s e r s1 NL STEP) as C.
  split; [eapply ochg_some; eauto|]. split; [eapply Hs_trans; eauto|].
  destruct (locals s) as [t|] eqn:L; [|congruence]. destruct (locals s1) as [t1|] eqn:L1; [|destruct C].
  cbn [olook] in *. cbn in C. intros n v T1.
  destruct (C n) as [E|[(A & B)|(w & A & D & NV)]].
  - apply src_mono. apply INV. congruence.
  - congruence.
  - assert (w = v) by congruence. subst w.
    (* the includer's value at an import is the one it had at entry *)
    assert (IMP : tbl_get (globals s) n = Some (Some v) -> tbl_get (globals st0) n = Some (Some v)).
    { intros G. destruct H0 as (_ & _ & _ & HH & _). destruct (HH n) as [E|(_ & [(X & Y)|(u & X & Y & Z)])].
      - congruence.
      - congruence.
      - rewrite L in Y. cbn in Y. destruct NV; congruence. }
    destruct add as [|it [|? ?]]; [| |destruct IT].
    + (* .addr *) destruct IT as (dn & args & EV & DN). exfalso.
      destruct D as [(dn' & a1 & ch & EV' & DN' & _)|[(EV' & _)|[(dn' & EV' & DN' & _)|(dn' & nm & dt & r2 & s2 & t2 & EV' & DN' & _)]]];
        rewrite EV in EV'; inversion EV'; subst; congruence.
    + inversion IT; subst; clear IT; cbn [e_val] in D;
      destruct D as [(dn' & a1 & ch & EV' & DN' & CE)|[(EV' & sg' & AC & VV)|[(dn' & EV' & DN' & GG)|(dn' & nm & dt & r2 & s2 & t2 & EV' & DN' & F & RR & AO & L2 & FH & T2)]]];
        cbn [e_val] in EV'; try discriminate EV'; try (inversion EV'; subst; congruence).
      * (* .const *) inversion EV'; subst. cbn in CE. inversion CE; subst.
        left. rewrite down_app, down_cons, ss_eqb_refl. apply in_or_app. right. left. reflexivity.
      * (* label *) inversion EV'; subst. assert (sg' = sg) by congruence. subst. left. rewrite down_app, down_cons, ss_eqb_refl. apply in_or_app. right. left. reflexivity.
      * (* .import *) inversion EV'; subst. right. split; [|apply IMP; exact GG].
        rewrite imports_app. unfold SS.imports at 2. cbn. rewrite ss_eqb_refl. cbn. lia.
      * (* .include *) inversion EV'; subst. cbn zeta in F, RR, AO. fold (curr_of s) in F, RR, AO.
        assert (dt = data) by congruence. subst dt.
        assert (F0 : f <> 0%nat). { intros ->. destruct RR as (r1 & s1' & RR). rewrite assemble0 in RR. discriminate RR. }
        match goal with OC : occ _ _ _ _ _ |- _ =>
          pose proof (IHf F0 _ _ _ _ _ _ _ n v OC AO L2 T2) as SR; inversion OC; subst end.
        unfold entry_globals in SR. rewrite L in SR. cbn [SS.items_of] in SR.
        destruct SR as [IN|[_ G]]; [|destruct NV; congruence].
        left. rewrite down_app, down_cons. apply in_or_app. right. apply in_or_app. left.
        apply in_repeat_app; [|exact IN]. auto.
Qed.

Lemma run_sound f (IHf : f <> 0%nat -> child_sound (Nat.pred f)) st0 : forall els its s, runcorr f els its s ->
  forall pre r s', locals s <> None -> Hs ST st0 s ->
  (forall n v, olook (locals s) n = Some (Some v) -> src (globals st0) pre n v) ->
  run_items dbg fs (assemble dbg fs f) (map ParseModel.IOk els) s = Ret r s' ->
  forall n v, olook (locals s') n = Some (Some v) -> src (globals st0) (pre ++ its) n v.
Proof. induction 1 as [f s|f e els it its s IT CONT IH|f l c dn args els its s DN CONT IH]; intros pre r s' NL H0 INV RUN.
  - cbn in RUN. inversion RUN; subst. rewrite app_nil_r. exact INV.
  - cbn [map run_items] in RUN. unfold bind in RUN.
    destruct (step dbg fs (assemble dbg fs f) s e) as [r1 s1| |] eqn:STEP; try discriminate RUN.
    destruct (step_sound f IHf st0 e s r1 s1 pre [it] IT NL H0 INV STEP) as (NL1 & H1 & INV1).
    destruct r1 as [lv|].
    + inversion RUN; subst. intros n v T. replace (pre ++ it :: its) with ((pre ++ [it]) ++ its) by (rewrite <- app_assoc; reflexivity).
      apply src_mono. apply INV1. exact T.
    + replace (pre ++ it :: its) with ((pre ++ [it]) ++ its) by (rewrite <- app_assoc; reflexivity).
      eapply IH; eauto.
  - cbn [map run_items] in RUN. unfold bind in RUN.
    destruct (step dbg fs (assemble dbg fs f) s _) as [r1 s1| |] eqn:STEP; try discriminate RUN.
    assert (IT : exists dn0 args0, e_val (mkElement l c (EDirective dn args)) = EDirective dn0 args0 /\ dir_of dn0 = Some DAddr)
      by (exists dn, args; split; [reflexivity|exact DN]).
    destruct (step_sound f IHf st0 (mkElement l c (EDirective dn args)) s r1 s1 pre [] IT NL H0 INV STEP) as (NL1 & H1 & INV1).
    rewrite app_nil_r in INV1.
    destruct r1 as [lv|].
    + inversion RUN; subst. intros n v T. apply src_mono. apply INV1. exact T.
    + eapply IH; eauto.
Qed.

Lemma occ_sound_step f : (f <> 0%nat -> child_sound (Nat.pred f)) -> child_sound f.
Proof. intros IHf st data path t r st2 t2 n v OC AO L2 T2.
  inversion OC as [f' st' data' path' els tail its PS UPS RC]; subst. cbn [SS.items_of].
  unfold assemble_open, bind, do_assemble in AO. rewrite PS in AO. unfold bind in AO.
  destruct (run_items _ _ _ _ _) as [r1 st1| |] eqn:RUN; try discriminate AO.
  assert (X : locals st2 = locals st1).
  { destruct r1 as [lv|].
    - cbn [res_is_fatal] in AO. destruct lv.
      + destruct (local_tasks st1); [|discriminate AO]. apply local_loop_ls in AO. exact AO.
      + inversion AO; subst. reflexivity.
    - destruct tail as [[q|]|]; try discriminate AO. cbn [res_is_fatal] in AO.
      destruct (local_tasks st1); [|discriminate AO]. apply local_loop_ls in AO. exact AO. }
  pose proof (run_sound f IHf (fst (enter_file st path)) els its _ RC [] r1 st1) as RS.
  cbn [app] in RS. change (globals (fst (enter_file st path))) with (entry_globals st) in RS.
  eapply RS; eauto.
  - cbn. discriminate.
  - apply Hs_refl.
  - cbn. intros ? ? Q. discriminate Q.
  - rewrite <- X, L2. exact T2.
Qed.

Theorem occ_sound : forall f, child_sound f.
Proof. induction f as [|f IH]; apply occ_sound_step.
  - intros X. congruence.
  - intros _. exact IH.
Qed.

(* in the oracle's own terms: `penv` lists what the includer's names may denote *)
Theorem occ_sources f st data path t r st2 t2 (penv : str -> list Z) :
  occ f st data path t -> assemble_open dbg fs (assemble dbg fs f) st data path = Ret r st2 -> locals st2 = Some t2 ->
  (forall n v, tbl_get (entry_globals st) n = Some (Some v) -> In v (penv n)) ->
  forall n v, tbl_get t2 n = Some (Some v) -> In v (SS.sources t penv n).
Proof. intros OC AO L2 PE n v T2. destruct (occ_sound f _ _ _ _ _ _ _ n v OC AO L2 T2) as [H|[H G]]; unfold SS.sources; apply in_or_app.
  - left. destruct t. exact H.
  - right. destruct t. apply in_repeat_app; auto. Qed.

(* the value the oracle requires at a use site: where it names exactly one, the model's table cannot hold another *)
Theorem occ_use_value f st data path t r st2 t2 penv x v v' :
  occ f st data path t -> assemble_open dbg fs (assemble dbg fs f) st data path = Ret r st2 -> locals st2 = Some t2 ->
  (forall n w, tbl_get (entry_globals st) n = Some (Some w) -> In w (penv n)) ->
  SS.sources t penv x = [v'] -> tbl_get t2 x = Some (Some v) -> v = v'.
Proof. intros OC AO L2 PE SRC T2. pose proof (occ_sources f _ _ _ _ _ _ _ penv OC AO L2 PE x v T2) as H. rewrite SRC in H.
  destruct H as [H|[]]. congruence. Qed.
End Refine.
