(* C13 proofs, part 8: the statements of Properties/C13.v in their final form. *)
From Coq Require Import ZArith NArith PeanoNat List Bool Lia ZifyBool ZifyNat ZifyN.
From Trion Require Import Text.Types Mem.MapModel Mem.DictSpec Mem.MapProofs Asm.CtxModel Asm.SegProofs Asm.SegPut
  Asm.InstrSize Asm.CtxInvDefs Asm.CtxInvSeg Asm.CtxInvStep Asm.CtxInvCap.
Import ListNotations.
Open Scope N_scope.
Local Notation len := MapModel.len.
Local Notation U32 := MapModel.U32.

Lemma assemble_inc_ok dbg fs fuel : inc_ok (assemble dbg fs fuel).
Proof. intros st data path G. apply assemble_post. exact G. Qed.

Lemma step_inv dbg fs fuel st e : good st ->
  match step dbg fs (assemble dbg fs fuel) st e with
  | Ret _ st' => good st' /\ mono st st'
  | Panic p => ~ seg_site p
  | OutOfFuel => True
  end.
Proof. intros G. exact (step_post dbg fs _ st e (assemble_inc_ok dbg fs fuel) G). Qed.

Lemma seg_site_list p : ~ seg_site p ->
  p <> P_close_assert /\ p <> P_put_assert_instr /\ p <> P_put_assert_data /\ (forall q, p <> P_map q) /\
  p <> P_remaining /\ p <> P_next_sub /\ p <> P_write_at_sub /\ p <> P_not_inactive.
Proof. intros H. repeat split; try (intros ->; apply H; exact I). intros q ->. apply H; exact I. Qed.

(* the pipeline: final state good, no segment-site panic *)
Lemma pipeline_inv dbg fs fuel path text :
  match pipeline_state dbg fs fuel path text with
  | Ret _ st => good st
  | Panic p => ~ seg_site p
  | OutOfFuel => True
  end.
Proof.
  pose proof (pipeline_state_post dbg fs fuel path text) as P.
  destruct (pipeline_state dbg fs fuel path text); cbn [post] in P; auto. exact (proj1 P).
Qed.

Theorem no_assert_fires dbg fs fuel path text p : pipeline_gen dbg fs fuel path text = PPanic p ->
  p <> P_close_assert /\ p <> P_put_assert_instr /\ p <> P_put_assert_data /\ (forall q, p <> P_map q) /\
  p <> P_remaining /\ p <> P_next_sub /\ p <> P_write_at_sub /\ p <> P_not_inactive.
Proof.
  unfold pipeline_gen. pose proof (pipeline_inv dbg fs fuel path text) as P.
  destruct (pipeline_state dbg fs fuel path text) as [s st|q|]; try discriminate.
  intros H; inversion H; subst. apply seg_site_list. exact P.
Qed.

(* the image that is reported satisfies the map invariant *)
Theorem pipeline_image_rep dbg fs fuel path text s diags regions :
  pipeline_gen dbg fs fuel path text = Done s diags regions -> exists m, Rep m /\ regions = map_iter m.
Proof.
  unfold pipeline_gen. pose proof (pipeline_inv dbg fs fuel path text) as P.
  destruct (pipeline_state dbg fs fuel path text) as [s0 st|q|]; try discriminate.
  intros H; inversion H; subst. exists (output st). split; [|reflexivity]. destruct P as ((HR & _) & _). exact HR.
Qed.

(* the assert of write_at (addr <= curr_addr()) never fires: over an allocated range (fix 8bb2c3e: curr_addr saturates,
   also for a buffer of 2^32 bytes), and nowhere in a whole pipeline run *)
Lemma write_at_assert_never_stmt dbg st f l c a data ko kp pa : Inv st -> allocated st a (len data) -> 0 < len data ->
  write_stmt dbg st f l c a data ko kp pa <> Panic P_write_at_assert.
Proof.
  intros HI Ha Hl E.
  destruct (write_alloc dbg st f l c a data ko kp pa HI Ha Hl)
    as [(s & EA & Hin & W)|(Hin & m' & W & _)]; rewrite W in E; discriminate.
Qed.

Theorem write_at_assert_never :
  (forall dbg st f l c a data ko kp pa, Inv st -> allocated st a (len data) -> 0 < len data ->
     write_stmt dbg st f l c a data ko kp pa <> Panic P_write_at_assert) /\
  (forall dbg fs fuel path text, pipeline_gen dbg fs fuel path text <> PPanic P_write_at_assert).
Proof.
  split; [exact write_at_assert_never_stmt|].
  intros dbg fs fuel path text. unfold pipeline_gen. pose proof (pipeline_inv dbg fs fuel path text) as P.
  destruct (pipeline_state dbg fs fuel path text) as [s st|q|]; try discriminate.
  intros H; inversion H; subst. apply P. exact I.
Qed.
